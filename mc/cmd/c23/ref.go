package main

// Reference ("textbook") RSA written from RFC 8017 with math/big only.
// It is the oracle for exponents that do not fit crypto/rsa and a second
// opinion everywhere else. Nothing here is derived from zcrypto's code.

import (
	"bytes"
	"crypto"
	"encoding/asn1"
	"errors"
	"io"
	"math/big"
)

var (
	errRefTooLong     = errors.New("ref: message too long")
	errRefUnsupported = errors.New("ref: unsupported hash")
	errRefDigestLen   = errors.New("ref: digest has wrong length")
	errRefVerify      = errors.New("ref: invalid signature")
	errRefDecrypt     = errors.New("ref: decryption error")
	errRefSalt        = errors.New("ref: invalid salt length")
)

// modexp is plain left-to-right square-and-multiply (no big.Int.Exp).
func modexp(b, e, n *big.Int) *big.Int {
	r := big.NewInt(1)
	r.Mod(r, n)
	base := new(big.Int).Mod(b, n)
	for i := e.BitLen() - 1; i >= 0; i-- {
		r.Mul(r, r)
		r.Mod(r, n)
		if e.Bit(i) == 1 {
			r.Mul(r, base)
			r.Mod(r, n)
		}
	}
	return r
}

func os2ip(b []byte) *big.Int { return new(big.Int).SetBytes(b) }

// i2osp returns nil when x does not fit n octets.
func i2osp(x *big.Int, n int) []byte {
	if x.Sign() < 0 || (x.BitLen()+7)/8 > n {
		return nil
	}
	return x.FillBytes(make([]byte, n))
}

type refKey struct {
	N, E, D *big.Int
	k, bits int
}

func (r *refKey) Name() string { return "textbook" }

func (r *refKey) pubOp(x *big.Int) *big.Int { return modexp(x, r.E, r.N) }

// privOp computes c^D mod N and proves the result with the defining equation
// m^E = c (mod N), evaluated with the independent modexp.
func (r *refKey) privOp(c *big.Int) *big.Int {
	m := new(big.Int).Exp(c, r.D, r.N)
	if modexp(m, r.E, r.N).Cmp(c) != 0 {
		panic("reference private operation failed its self-check (fixture key broken?)")
	}
	return m
}

// ---- hashes ----

func hsum(h crypto.Hash, parts ...[]byte) []byte {
	x := h.New()
	for _, p := range parts {
		x.Write(p)
	}
	return x.Sum(nil)
}

func mgf1(h crypto.Hash, seed []byte, n int) []byte {
	var out []byte
	for ctr := uint32(0); len(out) < n; ctr++ {
		c := []byte{byte(ctr >> 24), byte(ctr >> 16), byte(ctr >> 8), byte(ctr)}
		out = append(out, hsum(h, seed, c)...)
	}
	return out[:n]
}

func xorBytes(a, b []byte) []byte {
	o := make([]byte, len(a))
	for i := range a {
		o[i] = a[i] ^ b[i]
	}
	return o
}

// DigestInfo algorithm identifiers (RFC 8017 appendix B.1; RIPEMD-160: the ISO/IEC 10118-3
// identifier 1.0.10118.3.0.49 with absent parameters, the convention of Go's crypto/rsa).
var refOIDs = map[crypto.Hash]asn1.ObjectIdentifier{
	crypto.MD5:        {1, 2, 840, 113549, 2, 5},
	crypto.SHA1:       {1, 3, 14, 3, 2, 26},
	crypto.SHA224:     {2, 16, 840, 1, 101, 3, 4, 2, 4},
	crypto.SHA256:     {2, 16, 840, 1, 101, 3, 4, 2, 1},
	crypto.SHA384:     {2, 16, 840, 1, 101, 3, 4, 2, 2},
	crypto.SHA512:     {2, 16, 840, 1, 101, 3, 4, 2, 3},
	crypto.SHA512_224: {2, 16, 840, 1, 101, 3, 4, 2, 5},
	crypto.SHA512_256: {2, 16, 840, 1, 101, 3, 4, 2, 6},
	crypto.SHA3_224:   {2, 16, 840, 1, 101, 3, 4, 2, 7},
	crypto.SHA3_256:   {2, 16, 840, 1, 101, 3, 4, 2, 8},
	crypto.SHA3_384:   {2, 16, 840, 1, 101, 3, 4, 2, 9},
	crypto.SHA3_512:   {2, 16, 840, 1, 101, 3, 4, 2, 10},
	crypto.RIPEMD160:  {1, 0, 10118, 3, 0, 49},
}

func hashSize(h crypto.Hash) int {
	if h == crypto.MD5SHA1 {
		return 36
	}
	return h.Size()
}

// digestInfo returns T of EMSA-PKCS1-v1_5. nullParams=false gives the
// alternative encoding without the NULL parameters (used for forgeries only).
func digestInfo(h crypto.Hash, digest []byte, nullParams bool) ([]byte, error) {
	if h == 0 {
		return digest, nil // Go convention: data signed directly
	}
	if h != crypto.MD5SHA1 {
		if _, ok := refOIDs[h]; !ok {
			return nil, errRefUnsupported
		}
	}
	if len(digest) != hashSize(h) {
		return nil, errRefDigestLen
	}
	if h == crypto.MD5SHA1 {
		return digest, nil // TLS convention: no DigestInfo
	}
	type algID struct {
		OID    asn1.ObjectIdentifier
		Params asn1.RawValue `asn1:"optional"`
	}
	type di struct {
		Alg    algID
		Digest []byte
	}
	v := di{Alg: algID{OID: refOIDs[h]}, Digest: digest}
	if nullParams && h != crypto.RIPEMD160 {
		v.Alg.Params = asn1.NullRawValue
	}
	return asn1.Marshal(v)
}

// emsaP1 = 00 01 FF..FF 00 T (RFC 8017 9.2).
func emsaP1(h crypto.Hash, digest []byte, k int) ([]byte, error) {
	t, err := digestInfo(h, digest, true)
	if err != nil {
		return nil, err
	}
	if k < len(t)+11 {
		return nil, errRefTooLong
	}
	em := make([]byte, 0, k)
	em = append(em, 0, 1)
	em = append(em, bytes.Repeat([]byte{0xff}, k-len(t)-3)...)
	em = append(em, 0)
	em = append(em, t...)
	return em, nil
}

func (r *refKey) SignP1(h crypto.Hash, digest []byte) ([]byte, error) {
	em, err := emsaP1(h, digest, r.k)
	if err != nil {
		return nil, err
	}
	return i2osp(r.privOp(os2ip(em)), r.k), nil
}

func (r *refKey) VerifyP1(h crypto.Hash, digest, sig []byte) error {
	if len(sig) != r.k {
		return errRefVerify
	}
	s := os2ip(sig)
	if s.Cmp(r.N) >= 0 {
		return errRefVerify
	}
	em := i2osp(r.pubOp(s), r.k)
	want, err := emsaP1(h, digest, r.k)
	if err != nil {
		return err
	}
	if !bytes.Equal(em, want) {
		return errRefVerify
	}
	return nil
}

// ---- RSAES-PKCS1-v1_5 ----

func nonZero(rnd io.Reader, n int) []byte {
	out := make([]byte, 0, n)
	var b [1]byte
	for len(out) < n {
		if _, err := io.ReadFull(rnd, b[:]); err != nil {
			panic(err)
		}
		if b[0] != 0 {
			out = append(out, b[0])
		}
	}
	return out
}

func (r *refKey) EncP1(rnd io.Reader, msg []byte) ([]byte, error) {
	if len(msg) > r.k-11 {
		return nil, errRefTooLong
	}
	em := append([]byte{0, 2}, nonZero(rnd, r.k-3-len(msg))...)
	em = append(em, 0)
	em = append(em, msg...)
	return i2osp(r.pubOp(os2ip(em)), r.k), nil
}

// unpadP1 parses 00 02 PS 00 M with |PS| >= 8.
func unpadP1(em []byte) ([]byte, bool) {
	if len(em) < 11 || em[0] != 0 || em[1] != 2 {
		return nil, false
	}
	i := bytes.IndexByte(em[2:], 0)
	if i < 8 {
		return nil, false
	}
	return em[2+i+1:], true
}

// DecP1 works on the integer value of ct (length policy is the caller's).
func (r *refKey) DecP1(ct []byte) ([]byte, error) {
	c := os2ip(ct)
	if c.Cmp(r.N) >= 0 || r.k < 11 {
		return nil, errRefDecrypt
	}
	em := i2osp(r.privOp(c), r.k)
	m, ok := unpadP1(em)
	if !ok {
		return nil, errRefDecrypt
	}
	return m, nil
}

// DecP1SessionKey: key is overwritten iff the padding is valid and the message has len(key) octets.
func (r *refKey) DecP1SessionKey(ct, key []byte) error {
	if r.k-(len(key)+11) < 0 {
		return errRefDecrypt
	}
	c := os2ip(ct)
	if c.Cmp(r.N) >= 0 {
		return errRefDecrypt
	}
	m, ok := unpadP1(i2osp(r.privOp(c), r.k))
	if ok && len(m) == len(key) {
		copy(key, m)
	}
	return nil
}

// ---- RSAES-OAEP (RFC 8017 7.1) ----

func oaepEM(h, mgf crypto.Hash, seed, db []byte) []byte {
	maskedDB := xorBytes(db, mgf1(mgf, seed, len(db)))
	maskedSeed := xorBytes(seed, mgf1(mgf, maskedDB, len(seed)))
	em := append([]byte{0}, maskedSeed...)
	return append(em, maskedDB...)
}

func oaepDB(h crypto.Hash, label, msg []byte, k int) []byte {
	hLen := h.Size()
	db := append([]byte{}, hsum(h, label)...)
	db = append(db, make([]byte, k-len(msg)-2*hLen-2)...)
	db = append(db, 1)
	return append(db, msg...)
}

func (r *refKey) EncOAEPmgf(h, mgf crypto.Hash, rnd io.Reader, msg, label []byte) ([]byte, error) {
	hLen := h.Size()
	if len(msg) > r.k-2*hLen-2 {
		return nil, errRefTooLong
	}
	seed := make([]byte, hLen)
	if _, err := io.ReadFull(rnd, seed); err != nil {
		panic(err)
	}
	em := oaepEM(h, mgf, seed, oaepDB(h, label, msg, r.k))
	return i2osp(r.pubOp(os2ip(em)), r.k), nil
}

func (r *refKey) EncOAEP(h crypto.Hash, rnd io.Reader, msg, label []byte) ([]byte, error) {
	return r.EncOAEPmgf(h, h, rnd, msg, label)
}

func (r *refKey) DecOAEP(h, mgf crypto.Hash, ct, label []byte) ([]byte, error) {
	hLen := h.Size()
	c := os2ip(ct)
	if r.k < 2*hLen+2 || c.Cmp(r.N) >= 0 {
		return nil, errRefDecrypt
	}
	em := i2osp(r.privOp(c), r.k)
	y, maskedSeed, maskedDB := em[0], em[1:1+hLen], em[1+hLen:]
	seed := xorBytes(maskedSeed, mgf1(mgf, maskedDB, hLen))
	db := xorBytes(maskedDB, mgf1(mgf, seed, len(maskedDB)))
	if y != 0 || !bytes.Equal(db[:hLen], hsum(h, label)) {
		return nil, errRefDecrypt
	}
	rest := db[hLen:]
	for i, b := range rest {
		if b == 1 {
			return rest[i+1:], nil
		}
		if b != 0 {
			break
		}
	}
	return nil, errRefDecrypt
}

// ---- RSASSA-PSS (RFC 8017 8.1, 9.1) ----

// pssEM assembles EM from DB and H (used by the encoder and by forgeries).
func pssEM(h crypto.Hash, db, H []byte, emBits int) []byte {
	emLen := (emBits + 7) / 8
	masked := xorBytes(db, mgf1(h, H, len(db)))
	masked[0] &= 0xff >> uint(8*emLen-emBits)
	em := append(masked, H...)
	return append(em, 0xbc)
}

func pssEncode(mHash []byte, emBits int, salt []byte, h crypto.Hash) ([]byte, error) {
	hLen, sLen, emLen := h.Size(), len(salt), (emBits+7)/8
	if len(mHash) != hLen {
		return nil, errRefDigestLen
	}
	if emLen < hLen+sLen+2 {
		return nil, errRefTooLong
	}
	H := hsum(h, make([]byte, 8), mHash, salt)
	db := make([]byte, emLen-sLen-hLen-2)
	db = append(db, 1)
	db = append(db, salt...)
	return pssEM(h, db, H, emBits), nil
}

// pssVerify: sLen 0 = detect the salt length (Go convention), -1 = hash length, >0 explicit.
func pssVerify(mHash, em []byte, emBits, sLen int, h crypto.Hash) error {
	hLen, emLen := h.Size(), (emBits+7)/8
	if sLen == -1 {
		sLen = hLen
	}
	if len(mHash) != hLen || len(em) != emLen || emLen < hLen+sLen+2 {
		return errRefVerify
	}
	if em[emLen-1] != 0xbc {
		return errRefVerify
	}
	masked, H := em[:emLen-hLen-1], em[emLen-hLen-1:emLen-1]
	mask := byte(0xff >> uint(8*emLen-emBits))
	if masked[0]&^mask != 0 {
		return errRefVerify
	}
	db := xorBytes(masked, mgf1(h, H, len(masked)))
	db[0] &= mask
	i := 0
	for i < len(db) && db[i] == 0 {
		i++
	}
	if i == len(db) || db[i] != 1 {
		return errRefVerify
	}
	if sLen == 0 {
		sLen = len(db) - i - 1
	} else if i != emLen-hLen-sLen-2 {
		return errRefVerify
	}
	salt := db[len(db)-sLen:]
	if !bytes.Equal(hsum(h, make([]byte, 8), mHash, salt), H) {
		return errRefVerify
	}
	return nil
}

func (r *refKey) pssMaxSalt(h crypto.Hash) int { return (r.bits-1+7)/8 - h.Size() - 2 }

// SignPSS follows the Go API convention for salt: 0 = longest possible, -1 = hash length.
func (r *refKey) SignPSS(rnd io.Reader, h crypto.Hash, digest []byte, salt int) ([]byte, error) {
	switch {
	case salt == 0:
		salt = r.pssMaxSalt(h)
		if salt < 0 {
			return nil, errRefTooLong
		}
	case salt == -1:
		salt = h.Size()
	case salt < -1:
		return nil, errRefSalt
	}
	if len(digest) != h.Size() {
		return nil, errRefDigestLen
	}
	if salt > r.pssMaxSalt(h) {
		return nil, errRefTooLong
	}
	s := make([]byte, salt)
	if _, err := io.ReadFull(rnd, s); err != nil {
		panic(err)
	}
	return r.signPSSSalt(h, digest, s)
}

func (r *refKey) signPSSSalt(h crypto.Hash, digest, salt []byte) ([]byte, error) {
	em, err := pssEncode(digest, r.bits-1, salt, h)
	if err != nil {
		return nil, err
	}
	return i2osp(r.privOp(os2ip(em)), r.k), nil
}

func (r *refKey) VerifyPSS(h crypto.Hash, digest, sig []byte, salt int) error {
	if salt < -1 {
		return errRefSalt
	}
	if len(sig) != r.k {
		return errRefVerify
	}
	s := os2ip(sig)
	if s.Cmp(r.N) >= 0 {
		return errRefVerify
	}
	emBits := r.bits - 1
	em := i2osp(r.pubOp(s), (emBits+7)/8)
	if em == nil {
		return errRefVerify
	}
	return pssVerify(digest, em, emBits, salt, h)
}

// VerifyPSSEM checks an encoded message directly (salt length detected).
func (r *refKey) VerifyPSSEM(h crypto.Hash, digest, em []byte) error {
	return pssVerify(digest, em, r.bits-1, 0, h)
}
