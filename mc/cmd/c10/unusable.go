package main

// Certificates whose SubjectPublicKeyInfo cannot verify anything, or whose
// signature algorithm nobody can check: hand-encoded DER spliced into a
// certificate minted by fx and signed again with the real parent key, so that
// the certificate itself is a properly signed child of its issuer.

import (
	"crypto"
	stdx509 "crypto/x509"
	"encoding/asn1"
	"fmt"

	"verifmc/internal/fx"
)

func derTLV(tag int, compound bool, parts ...[]byte) []byte {
	var body []byte
	for _, p := range parts {
		body = append(body, p...)
	}
	b, err := asn1.Marshal(asn1.RawValue{Class: asn1.ClassUniversal, Tag: tag, IsCompound: compound, Bytes: body})
	if err != nil {
		panic(err)
	}
	return b
}
func derSeq(parts ...[]byte) []byte { return derTLV(asn1.TagSequence, true, parts...) }
func derBits(b []byte) []byte       { return derTLV(asn1.TagBitString, false, []byte{0}, b) }
func derOID(o ...int) []byte {
	b, err := asn1.Marshal(asn1.ObjectIdentifier(o))
	if err != nil {
		panic(err)
	}
	return b
}
func derAny(v any) []byte {
	b, err := asn1.Marshal(v)
	if err != nil {
		panic(err)
	}
	return b
}

var derNull = []byte{5, 0}

// SubjectPublicKeyInfo values no signature can be verified with.
func spkiX25519() []byte {
	k := make([]byte, 32)
	for i := range k {
		k[i] = byte(0x40 + i)
	}
	return derSeq(derSeq(derOID(1, 3, 101, 110)), derBits(k)) // id-X25519 (RFC 8410), a key-agreement key
}
func spkiUnknownOID() []byte {
	return derSeq(derSeq(derOID(1, 3, 6, 1, 4, 1, 55555, 10, 1), derNull), derBits([]byte{0xc1, 0x0c, 0x10, 0x01})) // private-arc algorithm nobody implements
}
func spkiDSA() []byte {
	d := fx.DSA("dsa1024")
	return derSeq(derSeq(derOID(1, 2, 840, 10040, 4, 1), derSeq(derAny(d.P), derAny(d.Q), derAny(d.G))), derBits(derAny(d.Y)))
}

// an AlgorithmIdentifier no library knows (signature algorithm of a certificate nobody can verify)
func algUnknownSig() []byte { return derSeq(derOID(1, 3, 6, 1, 4, 1, 55555, 10, 2)) }

// respliced returns der with the TBSCertificate fields replaced as given
// (index in the v3 TBSCertificate: 2 = signature AlgorithmIdentifier,
// 6 = SubjectPublicKeyInfo), the outer signatureAlgorithm following field 2,
// signed again by the parent key under the ORIGINAL signature algorithm of der
// (whatever the AlgorithmIdentifier then claims).
func respliced(der []byte, repl map[int][]byte, parentKey string) ([]byte, error) {
	var outer struct {
		TBS asn1.RawValue
		Alg asn1.RawValue
		Sig asn1.BitString
	}
	if rest, err := asn1.Unmarshal(der, &outer); err != nil || len(rest) != 0 {
		return nil, fmt.Errorf("outer: %v", err)
	}
	var fields []asn1.RawValue
	for rest := outer.TBS.Bytes; len(rest) > 0; {
		var f asn1.RawValue
		var err error
		if rest, err = asn1.Unmarshal(rest, &f); err != nil {
			return nil, fmt.Errorf("tbs: %v", err)
		}
		fields = append(fields, f)
	}
	if len(fields) < 7 || fields[0].Class != asn1.ClassContextSpecific || fields[0].Tag != 0 {
		return nil, fmt.Errorf("not a v3 TBSCertificate")
	}
	var body []byte
	for i, f := range fields {
		if r, ok := repl[i]; ok {
			body = append(body, r...)
		} else {
			body = append(body, f.FullBytes...)
		}
	}
	tbs := derSeq(body)
	orig, err := stdx509.ParseCertificate(der)
	if err != nil {
		return nil, err
	}
	var h crypto.Hash
	switch orig.SignatureAlgorithm {
	case stdx509.PureEd25519:
		h = 0
	case stdx509.SHA256WithRSA, stdx509.ECDSAWithSHA256:
		h = crypto.SHA256
	case stdx509.SHA384WithRSA, stdx509.ECDSAWithSHA384:
		h = crypto.SHA384
	case stdx509.SHA512WithRSA, stdx509.ECDSAWithSHA512:
		h = crypto.SHA512
	default:
		return nil, fmt.Errorf("template signed with %v", orig.SignatureAlgorithm)
	}
	msg := tbs
	if h != 0 {
		hh := h.New()
		hh.Write(tbs)
		msg = hh.Sum(nil)
	}
	sig, err := fx.Signer(parentKey).Sign(fx.NewRand("c10-resplice"), msg, h)
	if err != nil {
		return nil, err
	}
	alg := outer.Alg.FullBytes
	if r, ok := repl[2]; ok {
		alg = r
	}
	return derSeq(tbs, alg, derBits(sig)), nil
}
