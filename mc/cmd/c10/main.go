// C10 — the PKI graph is determined by its certificate set.
//
// Engine E1: explicit-state search over AddCert/AddRoot histories of the real
// verifier.Graph. The reference model is NOT an incremental graph: it is
// computed from the SET {(certificate, ever added as root)} only, exactly as
// the property statement describes the graph, with Go's standard library doing
// all parsing, hashing and signature verification.
package main

import (
	"bytes"
	"crypto/sha256"
	stdx509 "crypto/x509"
	"encoding/hex"
	"encoding/json"
	"fmt"
	"regexp"
	"runtime/debug"
	"sort"
	"strings"
	"sync"
	"time"

	"github.com/zmap/zcrypto/verifier"
	zx509 "github.com/zmap/zcrypto/x509"
	"verifmc/internal/ev"
	"verifmc/internal/fx"
)

// ---------------------------------------------------------------------------
// Universe of certificates
// ---------------------------------------------------------------------------

type ucert struct {
	name  string
	what  string
	z     *zx509.Certificate   // what the real graph is fed the FIRST time a history touches the certificate
	z2    *zx509.Certificate   // a second, independently parsed object of the same DER: every later AddCert/AddRoot of that certificate and every IsRoot query
	std   *stdx509.Certificate // what the model looks at
	fp    string               // hex SHA-256 of the DER (certificate identity)
	rawFp []byte
	subj  string // raw subject
	iss   string // raw issuer
	spki  string // raw SubjectPublicKeyInfo
	node  int    // index of the (subject, SPKI) node in universe.nodes
}

type unode struct {
	id    string // hex SHA-256(SPKI || subject): the "spki_subject_fingerprint" FindNode is keyed by
	rawID []byte
	label string
	subj  string
	spki  string
	rep   *stdx509.Certificate // some certificate carrying this key (for stdlib verification)
	// unusable != "": by construction the key can verify no signature at all (a key-agreement key, an algorithm
	// nobody implements) or none of the signatures in this universe (a key of another family than the issuer keys)
	unusable string
}

type universe struct {
	shape    string
	certs    []*ucert
	nodes    []*unode
	ver      [][]bool // ver[node][cert]: the node's key verifies the certificate's signature (stdlib)
	byName   map[string]int
	byRaw    map[string]int
	byFp     map[string]int
	nodeByID map[string]int
	nodeBySK map[string]int
	unusable []string // evidence: the unusable-key nodes and how zcrypto sees their keys
}

// key fixture names per shape: K1,K2 (subject R), K3,K4 (subject I), K5 (X), K6 (S).
var shapeKeys = map[string][6]string{
	"ed25519": {"c10-k1", "c10-k2", "c10-k3", "c10-k4", "c10-k5", "c10-k6"},
	"ecdsa":   {"p256", "p256b", "p384", "p224", "p521", "p384b"},
	"rsa":     {"rsa2048", "rsa2048b", "rsa1024", "rsa1024b", "rsa1025", "rsa3072"},
}

func sha256hex(parts ...[]byte) string {
	h := sha256.New()
	for _, p := range parts {
		h.Write(p)
	}
	return hex.EncodeToString(h.Sum(nil))
}

func buildUniverse(c *ev.Ctx, shape string) *universe {
	ks, ok := shapeKeys[shape]
	if !ok {
		c.Broken("unknown shape %q", shape)
	}
	k1, k2, k3, k4, k5, k6 := ks[0], ks[1], ks[2], ks[3], ks[4], ks[5]
	u := &universe{shape: shape, byName: map[string]int{}, byRaw: map[string]int{}, byFp: map[string]int{},
		nodeByID: map[string]int{}, nodeBySK: map[string]int{}}
	serial := int64(100)
	mint := func(cn, key string, ca bool, parent *fx.Cert) *fx.Cert {
		serial++
		m, err := fx.Mint(fx.CertSpec{CN: "c10 " + cn, Key: key, IsCA: ca, Serial: serial}, parent)
		if err != nil {
			c.Broken("minting: %v", err)
		}
		return m
	}
	unusableKind := map[string]string{} // node label -> kind of unusable key
	add := func(name, what, nodeLabel string, der []byte) {
		z, err := zx509.ParseCertificate(der)
		if err != nil {
			c.Broken("zcrypto cannot parse %s: %v", name, err)
		}
		s, err := stdx509.ParseCertificate(der)
		if err != nil {
			c.Broken("crypto/x509 cannot parse %s: %v", name, err)
		}
		z2, err := zx509.ParseCertificate(append([]byte(nil), der...))
		if err != nil || z2 == z {
			c.Broken("second parse of %s: %v", name, err)
		}
		uc := &ucert{name: name, what: what, z: z, z2: z2, std: s, fp: sha256hex(der),
			subj: string(s.RawSubject), iss: string(s.RawIssuer), spki: string(s.RawSubjectPublicKeyInfo)}
		uc.rawFp, _ = hex.DecodeString(uc.fp)
		if hex.EncodeToString(z.FingerprintSHA256) != uc.fp {
			c.Broken("%s: zcrypto FingerprintSHA256 is not SHA-256(DER): the certificate identity used by FindEdge changed", name)
		}
		if !bytes.Equal(z.RawSubject, s.RawSubject) || !bytes.Equal(z.RawIssuer, s.RawIssuer) || !bytes.Equal(z.RawSubjectPublicKeyInfo, s.RawSubjectPublicKeyInfo) {
			c.Broken("%s: zcrypto and crypto/x509 disagree on raw subject/issuer/SPKI", name)
		}
		if _, dup := u.byFp[uc.fp]; dup {
			c.Broken("%s duplicates another universe certificate", name)
		}
		sk := uc.subj + "\x00" + uc.spki
		ni, ok := u.nodeBySK[sk]
		if !ok {
			ni = len(u.nodes)
			id := sha256hex(s.RawSubjectPublicKeyInfo, s.RawSubject)
			if hex.EncodeToString(z.SPKISubjectFingerprint) != id {
				c.Broken("%s: zcrypto SPKISubjectFingerprint is not SHA-256(SPKI||subject): the node identity used by FindNode changed", name)
			}
			rawID, _ := hex.DecodeString(id)
			u.nodes = append(u.nodes, &unode{id: id, rawID: rawID, label: nodeLabel, subj: uc.subj, spki: uc.spki, rep: s, unusable: unusableKind[nodeLabel]})
			u.nodeBySK[sk] = ni
			u.nodeByID[id] = ni
		}
		uc.node = ni
		u.byName[name] = len(u.certs)
		u.byRaw[string(der)] = len(u.certs)
		u.byFp[uc.fp] = len(u.certs)
		u.certs = append(u.certs, uc)
	}

	leafKey := func(n string) string { return "c10-leaf-" + n } // leaves always carry Ed25519 keys
	R := mint("R", k1, true, nil)
	R2 := mint("R", k2, true, nil)
	Rp := mint("R", k2, true, R)  // N_R/K2 signed by K1: self-issued rollover old->new
	Rx := mint("R", k1, true, R2) // N_R/K1 signed by K2: self-issued rollover new->old
	S := mint("S", k6, true, nil)
	I := mint("I", k3, true, R)
	Ib := mint("I", k3, true, R) // same subject, key and issuer, other serial: parallel edge
	Ix := mint("I", k3, true, S) // cross-sign
	I2 := mint("I", k4, true, R) // same subject, other key
	L := mint("L", leafKey("L"), false, I)
	L2 := mint("L2", leafKey("L2"), false, I2)
	X := mint("X", k5, true, R)
	D := mint("D", leafKey("D"), false, X)
	B := mint("B", leafKey("B"), false, I)
	Y := mint("Y", k3, true, R) // the key of N_I/K3 under another subject name: verifies L, Bad's sibling ... but is not named as their issuer
	// Bad: a certificate naming N_I as issuer whose signature verifies under no key.
	bad := append([]byte(nil), B.DER...)
	bad[len(bad)-1] ^= 0x5a
	bad[len(bad)-9] ^= 0xa5

	// Nodes that carry the NAME of a real issuer and a key that cannot be one: whoever searches an issuer among the
	// nodes of a name meets them before, between or after the real issuer, depending on the insertion order.
	splice := func(cn string, ca bool, parent *fx.Cert, parentKey string, repl map[int][]byte) []byte {
		t := mint(cn, "c10-template", ca, parent)
		der, err := respliced(t.DER, repl, parentKey)
		if err != nil {
			c.Broken("splicing %s: %v", cn, err)
		}
		return der
	}
	fam1, fam2 := "rsa1024", "p256" // keys of a family other than that of K1..K6
	switch shape {
	case "rsa":
		fam1 = "c10-uf"
	case "ecdsa":
		fam2 = "c10-uf"
	}
	Ux := splice("R", true, R, k1, map[int][]byte{6: spkiX25519()})
	Uo := splice("R", true, R, k1, map[int][]byte{6: spkiUnknownOID()})
	Ud := splice("R", true, R, k1, map[int][]byte{6: spkiDSA()})
	Uf := mint("R", fam1, true, R)
	Ug := mint("R", fam2, true, R)
	Vx := splice("I", true, R, k1, map[int][]byte{6: spkiX25519()})
	Vo := splice("I", true, S, k6, map[int][]byte{6: spkiUnknownOID()})
	// Bu: a properly made child of N_I/K3 whose signature ALGORITHM nobody knows: no key verifies it, whatever the key.
	Bu := splice("Bu", false, I, k3, map[int][]byte{2: algUnknownSig()})
	unusableKind["N_R/X25519"] = "X25519 key"
	unusableKind["N_R/unknown-SPKI"] = "unknown SPKI algorithm"
	unusableKind["N_R/DSA"] = "key of another family"
	unusableKind["N_R/F1"] = "key of another family"
	unusableKind["N_R/F2"] = "key of another family"
	unusableKind["N_I/X25519"] = "X25519 key"
	unusableKind["N_I/unknown-SPKI"] = "unknown SPKI algorithm"

	add("R", "N_R/K1 self-signed", "N_R/K1", R.DER)
	add("Rp", "N_R/K2 signed by K1 (self-issued rollover)", "N_R/K2", Rp.DER)
	add("R2", "N_R/K2 self-signed", "N_R/K2", R2.DER)
	add("Rx", "N_R/K1 signed by K2 (self-issued rollover)", "N_R/K1", Rx.DER)
	add("S", "N_S/K6 self-signed", "N_S/K6", S.DER)
	add("I", "N_I/K3 by R(K1)", "N_I/K3", I.DER)
	add("Ib", "N_I/K3 by R(K1), second certificate (parallel edge)", "N_I/K3", Ib.DER)
	add("Ix", "N_I/K3 cross-signed by S(K6)", "N_I/K3", Ix.DER)
	add("I2", "N_I/K4 by R(K1): same subject, other key", "N_I/K4", I2.DER)
	add("L", "leaf by I(K3)", "N_L", L.DER)
	add("L2", "leaf by I2(K4)", "N_L2", L2.DER)
	add("X", "N_X/K5 by R(K1)", "N_X/K5", X.DER)
	add("D", "leaf by X(K5): issuer usually arrives later", "N_D", D.DER)
	add("Bad", "leaf naming N_I as issuer, signature corrupted", "N_B", bad)
	add("Y", "N_Y/K3 by R(K1): the key of N_I/K3 under another subject name", "N_Y/K3", Y.DER)
	add("Ux", "N_R with an X25519 SubjectPublicKeyInfo, by R(K1)", "N_R/X25519", Ux)
	add("Uo", "N_R with a SubjectPublicKeyInfo of an unknown algorithm OID, by R(K1)", "N_R/unknown-SPKI", Uo)
	add("Uf", "N_R with a "+fam1+" key (other family than K1..K6), by R(K1)", "N_R/F1", Uf.DER)
	add("Ug", "N_R with a "+fam2+" key (other family than K1..K6), by R(K1)", "N_R/F2", Ug.DER)
	add("Ud", "N_R with a DSA key, by R(K1)", "N_R/DSA", Ud)
	add("Vx", "N_I with an X25519 SubjectPublicKeyInfo, by R(K1)", "N_I/X25519", Vx)
	add("Vo", "N_I with a SubjectPublicKeyInfo of an unknown algorithm OID, by S(K6)", "N_I/unknown-SPKI", Vo)
	add("Bu", "leaf by I(K3) under a signature algorithm OID nobody knows", "N_Bu", Bu)

	// verification matrix with the standard library only
	u.ver = make([][]bool, len(u.nodes))
	for ni, n := range u.nodes {
		u.ver[ni] = make([]bool, len(u.certs))
		for ci, uc := range u.certs {
			err := n.rep.CheckSignature(uc.std.SignatureAlgorithm, uc.std.RawTBSCertificate, uc.std.Signature)
			u.ver[ni][ci] = err == nil
		}
	}
	// sanity of the fixture itself (a wrong fixture would make the search vacuous)
	want := map[string]string{"R": "R", "Rp": "R", "R2": "R2", "Rx": "R2", "S": "S", "I": "R", "Ib": "R", "Ix": "S", "I2": "R",
		"L": "I", "L2": "I2", "X": "R", "D": "X", "Bad": "", "Y": "R",
		"Ux": "R", "Uo": "R", "Uf": "R", "Ug": "R", "Ud": "R", "Vx": "R", "Vo": "S", "Bu": ""}
	if len(want) != len(u.certs) {
		c.Broken("fixture %s: %d certificates, %d expectations", shape, len(u.certs), len(want))
	}
	for name, signer := range want {
		ci := u.byName[name]
		n := 0
		for ni := range u.nodes {
			if u.ver[ni][ci] && u.nodes[ni].subj == u.certs[ci].iss {
				n++
				if signer == "" || ni != u.certs[u.byName[signer]].node {
					c.Broken("fixture %s/%s: unexpected verifying node %s", shape, name, u.nodes[ni].label)
				}
			}
		}
		if (signer == "") != (n == 0) {
			c.Broken("fixture %s/%s: %d verifying nodes in the full universe", shape, name, n)
		}
	}
	// the unusable-key nodes: verify nothing (stdlib), belong to a public-key algorithm other than that of the
	// key that signed them, and (evidence) what zcrypto makes of the key
	nUnusable := 0
	for ni, n := range u.nodes {
		if n.unusable == "" {
			continue
		}
		nUnusable++
		for ci := range u.certs {
			if u.ver[ni][ci] {
				c.Broken("fixture %s: node %s is meant to verify nothing but verifies %s", shape, n.label, u.certs[ci].name)
			}
		}
		if n.rep.PublicKeyAlgorithm == u.certs[u.byName["R"]].std.PublicKeyAlgorithm {
			c.Broken("fixture %s: node %s has a key of the issuers' own family", shape, n.label)
		}
	}
	if nUnusable != len(unusableKind) {
		c.Broken("fixture %s: %d unusable-key nodes, want %d", shape, nUnusable, len(unusableKind))
	}
	for _, uc := range u.certs {
		if n := u.nodes[uc.node]; n.unusable != "" {
			u.unusable = append(u.unusable, fmt.Sprintf("%s (%s): %s; zcrypto parses the key as %T", n.label, uc.name, n.unusable, uc.z.PublicKey))
		}
	}
	if yn, l := u.certs[u.byName["Y"]].node, u.byName["L"]; !u.ver[yn][l] || u.nodes[yn].subj == u.certs[l].iss {
		c.Broken("fixture %s: N_Y/K3 must verify L under a name that is not L's issuer name", shape)
	}
	return u
}

// ---------------------------------------------------------------------------
// Reference model: a function of the set only
// ---------------------------------------------------------------------------

// status per universe certificate: 0 absent, 1 present, 2 present and ever added as root.
type status []uint8

func (s status) key() string { return string(s) }

// presentNodes: distinct (subject, SPKI) pairs of the present certificates.
func (u *universe) presentNodes(st status) []bool {
	p := make([]bool, len(u.nodes))
	for ci, v := range st {
		if v != 0 {
			p[u.certs[ci].node] = true
		}
	}
	return p
}

// candidates(e): present nodes whose subject is e's issuer name and whose key verifies e.
func (u *universe) candidates(pn []bool, ci int) []int {
	var out []int
	for ni, n := range u.nodes {
		if pn[ni] && n.subj == u.certs[ci].iss && u.ver[ni][ci] {
			out = append(out, ni)
		}
	}
	return out
}

// ---------------------------------------------------------------------------
// Canonical form of the real state
// ---------------------------------------------------------------------------

func sortedKeys(m map[string][]string) []string {
	ks := make([]string, 0, len(m))
	for k, v := range m {
		if len(v) > 0 { // an empty edge set is the same as no set
			ks = append(ks, k)
		}
	}
	sort.Strings(ks)
	return ks
}

var canonPool = sync.Pool{New: func() any { b := new(bytes.Buffer); b.Grow(16 << 10); return b }}

func writeSet(b *bytes.Buffer, tag byte, key string, hexKey bool, v []string) {
	b.WriteByte(tag)
	if hexKey {
		var tmp [2]byte
		for i := 0; i < len(key); i++ {
			hex.Encode(tmp[:], []byte{key[i]})
			b.Write(tmp[:])
		}
	} else {
		b.WriteString(key)
	}
	b.WriteByte('=')
	if !sort.StringsAreSorted(v) {
		v = append([]string(nil), v...)
		sort.Strings(v)
	}
	for _, s := range v {
		b.WriteString(s)
		b.WriteByte(',')
	}
}

// canon is the order-free canonical form of the internal state: everything the
// hook reports, with every collection sorted (in particular the insertion order
// of the nodesBySubject index, which is not part of the graph) and empty edge
// sets dropped. Returned as a 128-bit digest.
func canon(d *verifier.VerifGraph) string {
	b := canonPool.Get().(*bytes.Buffer)
	b.Reset()
	defer canonPool.Put(b)
	nodes := d.Nodes
	if !sort.SliceIsSorted(nodes, func(i, j int) bool { return nodes[i].Fingerprint < nodes[j].Fingerprint }) {
		nodes = append([]verifier.VerifNode(nil), nodes...)
		sort.Slice(nodes, func(i, j int) bool { return nodes[i].Fingerprint < nodes[j].Fingerprint })
	}
	for _, n := range nodes {
		b.WriteByte('N')
		b.WriteString(n.Fingerprint)
		for _, k := range sortedKeys(n.Children) {
			writeSet(b, 'c', k, false, n.Children[k])
		}
		for _, k := range sortedKeys(n.Parents) {
			writeSet(b, 'p', k, false, n.Parents[k])
		}
		b.WriteByte('\n')
	}
	edges := d.Edges
	if !sort.SliceIsSorted(edges, func(i, j int) bool { return edges[i].Cert < edges[j].Cert }) {
		edges = append([]verifier.VerifEdge(nil), edges...)
		sort.Slice(edges, func(i, j int) bool { return edges[i].Cert < edges[j].Cert })
	}
	for _, e := range edges {
		b.WriteByte('E')
		b.WriteString(e.Cert)
		b.WriteByte(' ')
		b.WriteString(e.Child)
		b.WriteByte(' ')
		b.WriteString(e.Issuer)
		if e.Root {
			b.WriteString(" root")
		}
		b.WriteByte('\n')
	}
	writeSet(b, 'K', "", false, d.BySubjectAndKey)
	for _, k := range sortedKeys(d.BySubject) {
		writeSet(b, 'S', k, true, d.BySubject[k]) // index order is insertion order: sorted away
	}
	for _, k := range sortedKeys(d.MissingIssuer) {
		writeSet(b, 'M', k, true, d.MissingIssuer[k])
	}
	s := sha256.Sum256(b.Bytes())
	return string(s[:16])
}

// ---------------------------------------------------------------------------
// Oracle
// ---------------------------------------------------------------------------

type finding struct{ class, detail string }

func setDiff(got, want map[string]bool) (extra, missing []string) {
	for k := range got {
		if !want[k] {
			extra = append(extra, k)
		}
	}
	for k := range want {
		if !got[k] {
			missing = append(missing, k)
		}
	}
	sort.Strings(extra)
	sort.Strings(missing)
	return
}

func (u *universe) nodeName(id string) string {
	if id == "" {
		return "none"
	}
	if ni, ok := u.nodeByID[id]; ok {
		return u.nodes[ni].label
	}
	return "unknown-node:" + id[:8]
}
func (u *universe) certName(fp string) string {
	if ci, ok := u.byFp[fp]; ok {
		return u.certs[ci].name
	}
	if len(fp) > 8 {
		fp = fp[:8]
	}
	return "unknown-cert:" + fp
}
func (u *universe) names(fps []string, f func(string) string) string {
	out := make([]string, len(fps))
	for i, s := range fps {
		out[i] = f(s)
	}
	sort.Strings(out)
	return "[" + strings.Join(out, " ") + "]"
}

// check compares every observable of the real graph with what the property
// statement says the graph of the set st is. It returns the failed classes and
// whether every present edge has at most one candidate issuer.
func (u *universe) check(g *verifier.Graph, d *verifier.VerifGraph, st status) (fs []finding, unambiguous bool) {
	fail := func(class, format string, a ...any) {
		for _, f := range fs {
			if f.class == class {
				return
			}
		}
		fs = append(fs, finding{class, fmt.Sprintf(format, a...)})
	}
	pn := u.presentNodes(st)
	wantNodes := map[string]bool{}
	for ni, p := range pn {
		if p {
			wantNodes[u.nodes[ni].id] = true
		}
	}
	wantEdges := map[string]bool{}
	for ci, v := range st {
		if v != 0 {
			wantEdges[u.certs[ci].fp] = true
		}
	}

	// --- public accessors: Nodes / FindNode
	gotNodes := map[string]bool{}
	realNodes := g.Nodes()
	for _, n := range realNodes {
		if n == nil || n.SubjectAndKey == nil {
			fail("Nodes(): nil node or node without SubjectAndKey", "")
			continue
		}
		ni, ok := u.nodeBySK[string(n.SubjectAndKey.RawSubject)+"\x00"+string(n.SubjectAndKey.RawSubjectPublicKeyInfo)]
		if !ok {
			fail("Nodes(): node with a (subject,SPKI) of no inserted certificate", "")
			continue
		}
		id := u.nodes[ni].id
		if gotNodes[id] {
			fail("Nodes(): two nodes for one (subject,SPKI) pair", "%s", u.nodes[ni].label)
		}
		gotNodes[id] = true
		if hex.EncodeToString(n.SubjectAndKey.Fingerprint) != id {
			fail("Nodes(): node fingerprint is not that of its (subject,SPKI)", "%s", u.nodes[ni].label)
		}
	}
	if ex, mi := setDiff(gotNodes, wantNodes); len(ex)+len(mi) > 0 {
		fail("Nodes(): not one node per distinct (subject,SPKI) of the inserted certificates", "extra=%s missing=%s", u.names(ex, u.nodeName), u.names(mi, u.nodeName))
	}
	for ni, n := range u.nodes {
		fn := g.FindNode(zx509.CertificateFingerprint(n.rawID))
		if pn[ni] {
			if fn == nil {
				fail("FindNode: present node not found", "%s", n.label)
			} else if fn.SubjectAndKey == nil || string(fn.SubjectAndKey.RawSubject) != n.subj || string(fn.SubjectAndKey.RawSubjectPublicKeyInfo) != n.spki {
				fail("FindNode: returns a node with another (subject,SPKI)", "%s", n.label)
			} else {
				found := false
				for _, rn := range realNodes {
					if rn == fn {
						found = true
					}
				}
				if !found {
					fail("FindNode: returns a node that is not in Nodes()", "%s", n.label)
				}
			}
		} else if fn != nil {
			fail("FindNode: finds a node of no inserted certificate", "%s", n.label)
		}
	}

	// --- public accessors: Edges / FindEdge / IsRoot
	gotEdges := map[string]bool{}
	realEdges := g.Edges()
	for _, e := range realEdges {
		if e == nil || e.Certificate == nil {
			fail("Edges(): nil edge or edge without certificate", "")
			continue
		}
		ci, ok := u.byRaw[string(e.Certificate.Raw)]
		if !ok {
			fail("Edges(): edge for a certificate that was never inserted", "")
			continue
		}
		if gotEdges[u.certs[ci].fp] {
			fail("Edges(): two edges for one certificate", "%s", u.certs[ci].name)
		}
		gotEdges[u.certs[ci].fp] = true
	}
	if ex, mi := setDiff(gotEdges, wantEdges); len(ex)+len(mi) > 0 {
		fail("Edges(): not one edge per distinct inserted certificate", "extra=%s missing=%s", u.names(ex, u.certName), u.names(mi, u.certName))
	}
	for ci, uc := range u.certs {
		fe := g.FindEdge(zx509.CertificateFingerprint(uc.rawFp))
		if st[ci] != 0 {
			if fe == nil {
				fail("FindEdge: inserted certificate not found", "%s", uc.name)
			} else if fe.Certificate == nil || string(fe.Certificate.Raw) != string(uc.z.Raw) {
				fail("FindEdge: returns the edge of another certificate", "%s", uc.name)
			} else {
				found := false
				for _, re := range realEdges {
					if re == fe {
						found = true
					}
				}
				if !found {
					fail("FindEdge: returns an edge that is not in Edges()", "%s", uc.name)
				}
			}
		} else if fe != nil {
			fail("FindEdge: finds a certificate that was never inserted", "%s", uc.name)
		}
		// IsRoot is asked with the second object (never the one an edge was created from unless the history re-added
		// the certificate) and with the first: a certificate is identified by its bytes, not by the Go object
		got, want := g.IsRoot(uc.z2), st[ci] == 2
		if g.IsRoot(uc.z) != got {
			fail("IsRoot: two parsed objects of one certificate get different answers", "%s", uc.name)
		}
		if got != want {
			switch {
			case st[ci] == 0:
				fail("IsRoot: true for a certificate that was never inserted", "%s", uc.name)
			case want:
				fail("IsRoot: false for a certificate that was added as root", "%s", uc.name)
			default:
				fail("IsRoot: true for a certificate that was never added as root", "%s", uc.name)
			}
		}
	}

	// --- internal state (hook): node set and indexes
	dn := map[string]bool{}
	for _, n := range d.Nodes {
		if dn[n.Fingerprint] {
			fail("node list: duplicate node", "%s", u.nodeName(n.Fingerprint))
		}
		dn[n.Fingerprint] = true
	}
	if ex, mi := setDiff(dn, wantNodes); len(ex)+len(mi) > 0 {
		fail("node list: not one node per distinct (subject,SPKI)", "extra=%s missing=%s", u.names(ex, u.nodeName), u.names(mi, u.nodeName))
	}
	dk := map[string]bool{}
	for _, k := range d.BySubjectAndKey {
		dk[k] = true
	}
	if ex, mi := setDiff(dk, wantNodes); len(ex)+len(mi) > 0 {
		fail("nodesBySubjectAndKey index: differs from the node set", "extra=%s missing=%s", u.names(ex, u.nodeName), u.names(mi, u.nodeName))
	}
	{
		bad := ""
		seen := map[string]bool{}
		for subj, l := range d.BySubject {
			for _, id := range l {
				ni, ok := u.nodeByID[id]
				switch {
				case !ok || !wantNodes[id]:
					bad = "lists a node that is not in the graph: " + u.nodeName(id)
				case u.nodes[ni].subj != subj:
					bad = "lists " + u.nodeName(id) + " under another subject"
				case seen[id]:
					bad = "lists " + u.nodeName(id) + " twice"
				}
				seen[id] = true
			}
		}
		for id := range wantNodes {
			if !seen[id] {
				bad = "does not list " + u.nodeName(id)
			}
		}
		if bad != "" {
			fail("nodesBySubject index: differs from the node set grouped by subject", "%s", bad)
		}
	}

	// --- edges: endpoints, issuer choice, root flag
	de := map[string]bool{}
	issuerOf := map[string]string{} // cert fp -> chosen issuer node id ("" = none), as the real graph has it
	unambiguous = true
	for _, e := range d.Edges {
		if de[e.Cert] {
			fail("edge set: duplicate edge", "%s", u.certName(e.Cert))
		}
		de[e.Cert] = true
		ci, ok := u.byFp[e.Cert]
		if !ok || st[ci] == 0 {
			continue // reported by the set comparison below
		}
		uc := u.certs[ci]
		issuerOf[e.Cert] = e.Issuer
		if e.Child != u.nodes[uc.node].id {
			fail("edge child: not the node of the certificate's (subject,SPKI)", "%s: child=%s want %s", uc.name, u.nodeName(e.Child), u.nodes[uc.node].label)
		}
		if e.Root != (st[ci] == 2) {
			if e.Root {
				fail("edge root flag: set for a certificate that was never added as root", "%s", uc.name)
			} else {
				fail("edge root flag: clear for a certificate that was added as root", "%s", uc.name)
			}
		}
		cands := u.candidates(pn, ci)
		if len(cands) > 1 {
			unambiguous = false
		}
		if e.Issuer == "" {
			if len(cands) > 0 {
				fail("edge issuer: none although a node with the issuer name and a verifying key exists", "%s: candidates=%s", uc.name, u.nodeName(u.nodes[cands[0]].id))
			}
		} else {
			okc := false
			for _, ni := range cands {
				if u.nodes[ni].id == e.Issuer {
					okc = true
				}
			}
			if !okc {
				ni, known := u.nodeByID[e.Issuer]
				switch {
				case !known || !pn[ni]:
					fail("edge issuer: a node that is not in the graph", "%s: issuer=%s", uc.name, u.nodeName(e.Issuer))
				case u.nodes[ni].subj != uc.iss:
					fail("edge issuer: node whose subject is not the certificate's issuer name", "%s: issuer=%s", uc.name, u.nodeName(e.Issuer))
				default:
					fail("edge issuer: node whose key does not verify the certificate", "%s: issuer=%s", uc.name, u.nodeName(e.Issuer))
				}
			}
		}
	}
	if ex, mi := setDiff(de, wantEdges); len(ex)+len(mi) > 0 {
		fail("edge set: not one edge per distinct inserted certificate", "extra=%s missing=%s", u.names(ex, u.certName), u.names(mi, u.certName))
	}

	// --- adjacency: mutually consistent with the edge endpoints the graph itself records
	type pair struct{ a, b string }
	wantCh := map[pair]map[string]bool{} // (issuer node, child node) -> certs
	for _, e := range d.Edges {
		if e.Issuer == "" {
			continue
		}
		p := pair{e.Issuer, e.Child}
		if wantCh[p] == nil {
			wantCh[p] = map[string]bool{}
		}
		wantCh[p][e.Cert] = true
	}
	gotCh := map[pair]map[string]bool{}
	gotPa := map[pair]map[string]bool{}
	for _, n := range d.Nodes {
		for ch, l := range n.Children {
			if len(l) == 0 {
				continue
			}
			p := pair{n.Fingerprint, ch}
			gotCh[p] = map[string]bool{}
			for _, fp := range l {
				gotCh[p][fp] = true
			}
		}
		for pa, l := range n.Parents {
			if len(l) == 0 {
				continue
			}
			p := pair{pa, n.Fingerprint}
			gotPa[p] = map[string]bool{}
			for _, fp := range l {
				gotPa[p][fp] = true
			}
		}
	}
	cmpAdj := func(which string, got map[pair]map[string]bool) {
		for p, w := range wantCh {
			ex, mi := setDiff(got[p], w)
			if len(mi) > 0 {
				fail(which+" adjacency: lacks an edge whose endpoints are these nodes", "%s -> %s: missing %s", u.nodeName(p.a), u.nodeName(p.b), u.names(mi, u.certName))
			}
			if len(ex) > 0 {
				fail(which+" adjacency: holds an edge whose endpoints are other nodes", "%s -> %s: extra %s", u.nodeName(p.a), u.nodeName(p.b), u.names(ex, u.certName))
			}
		}
		for p, g := range got {
			if wantCh[p] == nil {
				var l []string
				for k := range g {
					l = append(l, k)
				}
				fail(which+" adjacency: holds an edge whose endpoints are other nodes", "%s -> %s: extra %s", u.nodeName(p.a), u.nodeName(p.b), u.names(l, u.certName))
			}
		}
	}
	cmpAdj("children", gotCh)
	cmpAdj("parents", gotPa)

	// --- missingIssuer index: exactly the issuer-less edges, under their issuer name
	wantMiss := map[string]bool{}
	for _, e := range d.Edges {
		if e.Issuer == "" {
			wantMiss[e.Cert] = true
		}
	}
	gotMiss := map[string]bool{}
	for name, l := range d.MissingIssuer {
		for _, fp := range l {
			if gotMiss[fp] {
				fail("missingIssuer index: an edge is listed twice", "%s", u.certName(fp))
			}
			gotMiss[fp] = true
			if ci, ok := u.byFp[fp]; ok && u.certs[ci].iss != name {
				fail("missingIssuer index: edge listed under a name that is not its issuer name", "%s", u.certName(fp))
			}
		}
	}
	if ex, mi := setDiff(gotMiss, wantMiss); len(ex)+len(mi) > 0 {
		if len(ex) > 0 {
			fail("missingIssuer index: lists an edge that has an issuer", "%s", u.names(ex, u.certName))
		}
		if len(mi) > 0 {
			fail("missingIssuer index: does not list an issuer-less edge", "%s", u.names(mi, u.certName))
		}
	}
	return fs, unambiguous
}

// ---------------------------------------------------------------------------
// Histories
// ---------------------------------------------------------------------------

type op struct {
	cert int
	root bool
}

func (u *universe) opName(o op) string {
	if o.root {
		return "AddRoot(" + u.certs[o.cert].name + ")"
	}
	return "AddCert(" + u.certs[o.cert].name + ")"
}

type witness struct {
	Shape   string   `json:"shape"`
	Ops     []string `json:"ops"`
	Detail  string   `json:"detail"`
	Other   []string `json:"other_history,omitempty"`
	Legend  string   `json:"legend,omitempty"`
	SetSize int      `json:"certificates_in_set"`
}

var hexRun = regexp.MustCompile(`[0-9a-fA-F]{8,}`)

// shared bookkeeping of a run of the check
type book struct {
	mu      sync.Mutex
	hist    ev.Hist
	order   map[string]orderEntry // shape|status -> canonical state first seen for that set
	sampled map[string]bool
}
type orderEntry struct {
	canon string
	ops   []string
}

func (b *book) count(classes ...string) {
	b.mu.Lock()
	for _, c := range classes {
		b.hist[c]++
	}
	b.mu.Unlock()
}

// classify the last operation of a history by what it has to do (from the model's point of view).
func (u *universe) classify(before status, o op) []string {
	prev := before[o.cert]
	if prev != 0 {
		switch {
		case !o.root && prev == 1:
			return []string{"op: AddCert of a present certificate (no-op)"}
		case !o.root && prev == 2:
			return []string{"op: AddCert of a root certificate (stays root)"}
		case o.root && prev == 1:
			return []string{"op: AddRoot of a present non-root certificate (becomes root)"}
		default:
			return []string{"op: AddRoot of a root certificate (no-op)"}
		}
	}
	var out []string
	kind := "AddCert"
	if o.root {
		kind = "AddRoot"
	}
	pnBefore := u.presentNodes(before)
	after := append(status(nil), before...)
	after[o.cert] = 1
	pnAfter := u.presentNodes(after)
	uc := u.certs[o.cert]
	newNode := !pnBefore[uc.node]
	nn := "existing node"
	if newNode {
		nn = "new node"
	}
	cands := u.candidates(pnAfter, o.cert)
	switch {
	case len(cands) > 0 && cands[0] == uc.node:
		out = append(out, "op: "+kind+" new edge, "+nn+", issuer = its own node (self-signed)")
	case len(cands) > 0:
		out = append(out, "op: "+kind+" new edge, "+nn+", issuer found at insertion")
	default:
		named := false
		for ni, n := range u.nodes {
			if pnAfter[ni] && n.subj == uc.iss {
				named = true
			}
		}
		if named {
			out = append(out, "op: "+kind+" new edge, "+nn+", dangling: nodes with the issuer name exist but none verifies")
		} else {
			out = append(out, "op: "+kind+" new edge, "+nn+", dangling: no node with the issuer name")
		}
	}
	// nodes that carry the issuer's name but a key that cannot verify (the issuer search has to look past them)
	{
		kinds := map[string]bool{}
		usable := false
		for ni, n := range u.nodes {
			if pnAfter[ni] && n.subj == uc.iss {
				if n.unusable != "" {
					kinds[n.unusable] = true
				} else {
					usable = true
				}
			}
		}
		var ks []string
		for k := range kinds {
			ks = append(ks, k)
		}
		sort.Strings(ks)
		for _, k := range ks {
			switch {
			case len(cands) > 0:
				out = append(out, "issuer search: issuer found; its name is also carried by a node with "+articleFor(k))
			case usable:
				out = append(out, "issuer search: none verifies; the issuer name is carried by usable keys and by a node with "+articleFor(k))
			default:
				out = append(out, "issuer search: none verifies; the issuer name is carried only by node(s) that cannot verify, one with "+articleFor(k))
			}
		}
	}
	if newNode {
		adopted, refused := 0, 0
		for ci, v := range before {
			if v == 0 || u.certs[ci].iss != uc.subj {
				continue
			}
			if len(u.candidates(pnBefore, ci)) > 0 {
				continue
			}
			if u.ver[uc.node][ci] {
				adopted++
			} else {
				refused++
			}
		}
		if adopted > 0 {
			out = append(out, fmt.Sprintf("fix-up: the new node becomes issuer of %d waiting edge(s)", adopted))
		}
		if refused > 0 {
			out = append(out, "fix-up: edges waiting for that name which the new key does not verify stay dangling")
			if k := u.nodes[uc.node].unusable; k != "" {
				out = append(out, "fix-up: the new node has "+articleFor(k)+": every edge waiting for its name stays dangling")
			}
		}
	}
	return out
}

// run replays one history on a fresh graph, evaluates the oracle on the state
// reached and returns the BFS key.
func (u *universe) run(c *ev.Ctx, bk *book, ops []op, hist []int, report bool) (string, bool) {
	names := make([]string, len(hist))
	for i, oi := range hist {
		names[i] = u.opName(ops[oi])
	}
	st := make(status, len(u.certs))
	var before status
	g := verifier.NewGraph()
	for step, oi := range hist {
		o := ops[oi]
		if step == len(hist)-1 {
			before = append(status(nil), st...)
		}
		obj := u.certs[o.cert].z
		if st[o.cert] != 0 {
			obj = u.certs[o.cert].z2 // re-insertion: another object with the same bytes (as AppendFromPEM would produce)
		}
		panicked, msg, site := ev.Try(func() {
			if o.root {
				g.AddRoot(obj)
			} else {
				g.AddCert(obj)
			}
		})
		if panicked {
			if report {
				kind := "AddCert"
				if o.root {
					kind = "AddRoot"
				}
				c.Violation("panic@"+site+" in "+kind+": "+ev.MsgClass(hexRun.ReplaceAllString(msg, "H")),
					witness{Shape: u.shape, Ops: names, Detail: fmt.Sprintf("step %d %s: %s", step, u.opName(o), msg), SetSize: len(hist)})
			}
			return "DIVERGED", false
		}
		if o.root {
			st[o.cert] = 2
		} else if st[o.cert] == 0 {
			st[o.cert] = 1
		}
	}
	var d verifier.VerifGraph
	if panicked, msg, site := ev.Try(func() { d = g.VerifDump() }); panicked {
		if report {
			c.Violation("panic@"+site+" while reading the graph: "+ev.MsgClass(hexRun.ReplaceAllString(msg, "H")),
				witness{Shape: u.shape, Ops: names, Detail: msg})
		}
		return "DIVERGED", false
	}
	var fs []finding
	var unamb bool
	if panicked, msg, site := ev.Try(func() { fs, unamb = u.check(g, &d, st) }); panicked {
		fs = append(fs, finding{"panic@" + site + " in an accessor: " + ev.MsgClass(hexRun.ReplaceAllString(msg, "H")), msg})
	}
	n := 0
	for _, v := range st {
		if v != 0 {
			n++
		}
	}
	if len(fs) > 0 {
		if report {
			for _, f := range fs {
				c.Violation(f.class, witness{Shape: u.shape, Ops: names, Detail: f.detail, SetSize: n, Legend: u.legend(st)})
			}
		}
		return "DIVERGED", false
	}
	cn := canon(&d)
	// order independence: one canonical state per set whenever no edge has two candidates
	if unamb {
		k := u.shape + "|" + st.key()
		bk.mu.Lock()
		e, ok := bk.order[k]
		if !ok {
			bk.order[k] = orderEntry{cn, names}
		}
		bk.mu.Unlock()
		if ok && e.canon != cn {
			if report {
				c.Violation("order dependence: two histories over the same (certificate, root) set reach different graphs",
					witness{Shape: u.shape, Ops: names, Other: e.ops, SetSize: n, Legend: u.legend(st)})
			}
			return "DIVERGED", false
		}
	} else {
		bk.count("state: some edge has several candidate issuers (choice not compared)")
	}
	if len(hist) > 0 && report {
		cl := u.classify(before, ops[hist[len(hist)-1]])
		bk.count(cl...)
		if len(cl) > 1 && c.WantSample() {
			bk.mu.Lock()
			fresh := !bk.sampled[cl[1]]
			bk.sampled[cl[1]] = true
			bk.mu.Unlock()
			if fresh {
				c.Sample(map[string]any{"shape": u.shape, "history": names, "last_op_class": cl, "graph": u.describe(&d)})
			}
		}
	}
	return st.key() + cn, true
}

func articleFor(kind string) string {
	if strings.HasPrefix(kind, "unknown") {
		return "an " + kind
	}
	return "a " + kind
}

func (u *universe) legend(st status) string {
	var l []string
	for ci, v := range st {
		if v != 0 {
			l = append(l, u.certs[ci].name+"="+u.certs[ci].what)
		}
	}
	return strings.Join(l, "; ")
}

func (u *universe) describe(d *verifier.VerifGraph) []string {
	var out []string
	for _, e := range d.Edges {
		r := ""
		if e.Root {
			r = " root"
		}
		out = append(out, fmt.Sprintf("%s: %s -> %s%s", u.certName(e.Cert), u.nodeName(e.Issuer), u.nodeName(e.Child), r))
	}
	sort.Strings(out)
	return out
}

// ---------------------------------------------------------------------------
// Sub-universes
// ---------------------------------------------------------------------------

// hand-picked 7-element sub-universes (quick tier; also the twin shapes in thorough)
var handPicked = [][]string{
	{"R", "I", "L", "D", "X", "Bad", "I2"},     // chain + dangling leaf + late issuer + same-subject CA
	{"R", "Rp", "R2", "Rx", "I", "L", "S"},     // both rollovers, both self-signed, a chain below
	{"R", "S", "I", "Ix", "L", "I2", "L2"},     // cross-sign, two keys under one name, a leaf per key
	{"R", "I", "Ib", "I2", "L", "L2", "Bad"},   // parallel edges; waiting edges of one name verified by different keys / by none
	{"Rp", "Rx", "R2", "D", "X", "Bad", "I"},   // rollovers without the old self-signed root
	{"R", "Rp", "I", "I2", "L2", "D", "X"},     // two-step dangling chain D->X->R
	{"R2", "Rx", "I", "Ix", "S", "L", "Bad"},   // new-key root only; intermediate reachable through the cross-sign only
	{"R", "R2", "Rp", "Rx", "D", "X", "Bad"},   // four certificates over two nodes of one name
	{"S", "Ix", "I", "Ib", "I2", "L", "L2"},    // three certificates of one node, from two issuers
	{"Rp", "R2", "S", "Ib", "Ix", "X", "D"},    // the next three complete the pair coverage (every two certificates meet)
	{"R2", "Rx", "Ib", "I2", "L", "L2", "X"},   //
	{"Rp", "Rx", "Ib", "Ix", "L2", "D", "Bad"}, // mostly dangling
	{"R", "Y", "I", "L", "Bad", "Ib", "I2"},    // one key under two names: N_Y/K3 verifies L but is not named by it; N_I/K4 is named but does not verify
	{"S", "Y", "Ix", "L", "L2", "X", "D"},      // the same with N_I/K3 arriving through the cross-sign only, Y dangling (no R)
}

// sub-universes around the nodes whose key cannot verify (run first in every tier)
var unusableSubs = [][]string{
	{"Ux", "Uo", "Uf", "R", "I", "X", "L"},    // N_R: the real key K1 among an X25519, an unknown-algorithm and an other-family key; six certificates name N_R
	{"Vx", "Vo", "I", "I2", "L", "Bu", "R"},   // N_I: the real key K3 among X25519, unknown-algorithm and a real key that does not verify; a child nobody can verify
	{"R2", "Rp", "Rx", "Ux", "Uo", "I", "Ud"}, // two real keys of N_R (rollover pair, K1 only through Rx) and three unusable ones
	{"Ug", "Ud", "Uf", "R", "Vx", "L", "I"},   // every other-family key; an unusable node on both levels of one chain
	{"S", "Ix", "Vo", "Vx", "Bu", "L", "Bad"}, // no N_R at all: N_I/K3 through the cross-sign, children that verify under K3 / under no key / under no algorithm
}

func (u *universe) opsFor(names []string, c *ev.Ctx) []op {
	var ops []op
	for _, n := range names {
		ci, ok := u.byName[n]
		if !ok {
			c.Broken("no certificate %q", n)
		}
		ops = append(ops, op{ci, false}, op{ci, true})
	}
	return ops
}

var opRe = regexp.MustCompile(`^(AddCert|AddRoot)\((\w+)\)$`)

func main() {
	debug.SetGCPercent(400) // allocation-heavy, tiny live heap
	ev.Main("C10", "model_checking", func(c *ev.Ctx) {
		bk := &book{hist: ev.Hist{}, order: map[string]orderEntry{}, sampled: map[string]bool{}}
		universes := map[string]*universe{}
		uni := func(shape string) *universe {
			if universes[shape] == nil {
				universes[shape] = buildUniverse(c, shape)
			}
			return universes[shape]
		}

		if c.Replay != nil {
			var w witness
			if err := json.Unmarshal(c.Replay, &w); err != nil {
				c.Broken("bad witness: %v", err)
			}
			u := uni(w.Shape)
			replay := func(names []string) {
				var ops []op
				var h []int
				for _, s := range names {
					m := opRe.FindStringSubmatch(s)
					if m == nil {
						c.Broken("bad op %q", s)
					}
					ci, ok := u.byName[m[2]]
					if !ok {
						c.Broken("no certificate %q", m[2])
					}
					h = append(h, len(ops))
					ops = append(ops, op{ci, m[1] == "AddRoot"})
				}
				u.run(c, bk, ops, h, true)
				c.Transitions.Add(int64(len(h)))
				c.States.Add(1)
			}
			if len(w.Other) > 0 {
				replay(w.Other)
			}
			replay(w.Ops)
			return
		}

		ed := uni("ed25519")
		nU := len(ed.certs)
		c.Rule(fmt.Sprintf("explicit-state BFS over histories (with repetition) of {AddCert(c),AddRoot(c)} on the real verifier.Graph: (A) c in a 7-element sub-universe of the %d-certificate universe (5 sub-universes around same-name nodes whose key cannot verify - X25519, unknown SPKI algorithm, RSA/ECDSA/Ed25519/DSA key of another family than the signature - and a child under an unknown signature algorithm, run first; then 14 around chains, cross-signs, rollovers, dangling and same-name CAs), 14 ops, to depth 8 (closes: 3^7 states); (B) c in the whole universe, %d ops, to depth 3 (quick) / 5 (thorough), and c among the 15 certificates with usable keys and known signature algorithm, 30 ops, to depth 4 (quick) / 7 (thorough: contains the depth-7 search of all C(15,7) sub-universes); the first", nU, 2*nU) + ` operation of a history on a certificate passes one parsed *x509.Certificate, every later operation on it and every IsRoot query passes a second object parsed from the same DER; a state is the canonical VerifDump (nodes, edges with child/issuer/root, adjacency sets, indexes; insertion order of nodesBySubject sorted away) + the (certificate,root) set; distinct = distinct states`)
		c.Assume("reference = the graph the statement defines for the SET {(certificate, ever root)}: computed with crypto/x509 parsing, crypto/sha256 identities and crypto/x509 CheckSignature; no incremental model",
			"node identity = SHA-256(SPKI||subject), certificate identity = SHA-256(DER) (both asserted equal to zcrypto's at start-up)",
			"VerifDump (hook, tag verif) faithfully reports the unexported fields; the public accessors are checked against the same expectations independently",
			"one key (K3) appears under two subject names (N_I, N_Y): a node that verifies a certificate without carrying its issuer name is not a candidate issuer",
			"seven nodes carry the name of a real issuer (N_R, N_I) and a key no signature of the universe verifies under (hand-encoded SubjectPublicKeyInfo spliced into a minted certificate, signed again by the real parent key): whether such a node verifies is decided by crypto/x509 like for every other node (it never does); a DSA key without parameters and an EC key on an unknown curve cannot be nodes, zcrypto and crypto/x509 both refuse to parse such certificates",
			"no two distinct (subject,SPKI) nodes with the issuer name verify the same certificate in this universe, so the permitted issuer ambiguity never arises (asserted: outcome class 'several candidate issuers' stays 0)")
		var legend []string
		for _, uc := range ed.certs {
			legend = append(legend, uc.name+": "+uc.what)
		}
		c.Set("universe", legend)
		c.Set("unusable_key_nodes", ed.unusable)

		bfs := func(u *universe, label string, ops []op, depth int) ev.BFSResult {
			res := c.BFS(len(ops), depth, func(h []int) (string, bool) { return u.run(c, bk, ops, h, true) })
			c.States.Add(int64(res.States))
			c.Transitions.Add(int64(res.Transitions))
			c.Traces.Add(int64(res.Edges))
			c.Evaluations.Add(int64(res.Edges) + 1)
			return res
		}
		type subRes struct {
			Shape  string `json:"shape"`
			Certs  string `json:"certs"`
			States int    `json:"states"`
			Edges  int    `json:"histories"`
			Depth  int    `json:"depth_completed"`
			Closed bool   `json:"closed_reachable_space"`
			Wall   string `json:"wall"`
		}
		var subs []subRes
		allClosed := true
		runSubs := func(u *universe, list [][]string, depth int) {
			for _, names := range list {
				if c.TimeUp() {
					c.Incomplete(fmt.Sprintf("budget hit before sub-universe %v of shape %s", names, u.shape))
					return
				}
				t0 := time.Now()
				res := bfs(u, strings.Join(names, ","), u.opsFor(names, c), depth)
				subs = append(subs, subRes{u.shape, strings.Join(names, " "), res.States, res.Edges, res.Depth, res.Closed, time.Since(t0).Round(10 * time.Millisecond).String()})
				if !res.Closed {
					allClosed = false
				}
			}
		}

		// pair coverage of the hand-picked list (evidence only)
		{
			pairs := map[[2]int]bool{}
			for _, names := range append(append([][]string{}, unusableSubs...), handPicked...) {
				if len(names) != 7 {
					c.Broken("sub-universe %v does not have 7 elements", names)
				}
				for _, a := range names {
					for _, b := range names {
						if ed.byName[a] < ed.byName[b] {
							pairs[[2]int{ed.byName[a], ed.byName[b]}] = true
						}
					}
				}
			}
			c.Set("handpicked_pair_coverage", fmt.Sprintf("%d of %d certificate pairs co-occur in a hand-picked sub-universe", len(pairs), nU*(nU-1)/2))
		}

		// Part A: 7-element sub-universes, depth 8 (one more than 7: the search then closes, every
		// reachable state has had every operation applied).
		// (the sub-universes with the keys that cannot verify and the two with the key under two names first: a
		// budget stop must not drop them)
		runSubs(ed, unusableSubs, 8)
		runSubs(ed, handPicked[12:], 8)
		runSubs(ed, handPicked[:12], 8)
		if !c.Quick() {
			// twin shapes: the CA keys K1..K6 are RSA (zcrypto's own rsa package verifies) resp. ECDSA on
			// four different curves (a waiting edge is then also tried against keys of another curve).
			runSubs(uni("rsa"), unusableSubs, 8)
			runSubs(uni("ecdsa"), unusableSubs, 8)
			runSubs(uni("rsa"), handPicked, 8)
			runSubs(uni("ecdsa"), handPicked[:6], 8)
		}
		// Part B (last, it is the expensive one in thorough): the whole universe, every history up to a depth (= the union of the searches of all
		// sub-universes of that size, states shared between them).
		wholeRes := map[string]any{}
		whole := func(label string, names []string, depth int) {
			t0 := time.Now()
			res := bfs(ed, label, ed.opsFor(names, c), depth)
			n := len(names)
			wholeRes[label] = map[string]any{"wall": time.Since(t0).Round(10 * time.Millisecond).String(), "ops": 2 * n, "depth": depth, "depth_completed": res.Depth, "states": res.States, "histories": res.Edges,
				"covers": fmt.Sprintf("every history of length <= %d over these %d operations, i.e. the depth-%d search of every one of the C(%d,%d) sub-universes of that size", res.Depth, 2*n, res.Depth, n, res.Depth)}
		}
		{
			var all, usable []string
			for _, uc := range ed.certs {
				all = append(all, uc.name)
				if ed.nodes[uc.node].unusable == "" && uc.name != "Bu" {
					usable = append(usable, uc.name)
				}
			}
			if c.Quick() {
				whole(fmt.Sprintf("all %d certificates", len(all)), all, 3)
				whole(fmt.Sprintf("the %d certificates with usable keys", len(usable)), usable, 4)
			} else {
				// the deeper search first: should the budget be hit, the shallower one over the larger universe is cut
				whole(fmt.Sprintf("the %d certificates with usable keys", len(usable)), usable, 7)
				whole(fmt.Sprintf("all %d certificates", len(all)), all, 5)
			}
		}
		c.Set("whole_universe", wholeRes)
		c.Set("sub_universes", subs)
		c.Set("all_sub_universe_searches_closed", allClosed)
		c.Set("sets_compared_for_order_independence", len(bk.order))
		c.Merge(bk.hist)
		c.Outcome("histories conforming", c.Traces.Load())
		if bk.hist["state: some edge has several candidate issuers (choice not compared)"] == 0 {
			c.Outcome("state: every edge has at most one candidate issuer (order independence asserted)", int64(len(bk.order)))
		}
	})
}
