// genkeys writes internal/fx/keys.json: the committed key fixtures (generated once; RSA key
// generation is deliberately non-deterministic in Go, so the fixtures are data, not code).
package main

import (
	"crypto/ecdsa"
	"crypto/elliptic"
	"crypto/rand"
	"encoding/json"
	"fmt"
	"math/big"
	"os"

	zdsa "github.com/zmap/zcrypto/dsa"
)

type rsaKey struct {
	N, E, D string
	Primes  []string
}
type ecKey struct{ Curve, D string }
type dsaKey struct{ P, Q, G, Y, X string }
type file struct {
	RSA map[string]rsaKey
	EC  map[string]ecKey
	DSA map[string]dsaKey
}

func h(x *big.Int) string { return x.Text(16) }

func genRSA(bits, nprimes int, e *big.Int) rsaKey {
	one := big.NewInt(1)
	for {
		primes := make([]*big.Int, nprimes)
		todo := bits
		ok := true
		for i := 0; i < nprimes; i++ {
			var err error
			primes[i], err = rand.Prime(rand.Reader, todo/(nprimes-i))
			if err != nil {
				panic(err)
			}
			todo -= primes[i].BitLen()
		}
		n := new(big.Int).Set(one)
		tot := new(big.Int).Set(one)
		for i, p := range primes {
			for j := 0; j < i; j++ {
				if p.Cmp(primes[j]) == 0 {
					ok = false
				}
			}
			n.Mul(n, p)
			tot.Mul(tot, new(big.Int).Sub(p, one))
		}
		if !ok || n.BitLen() != bits {
			continue
		}
		d := new(big.Int).ModInverse(e, tot)
		if d == nil {
			continue
		}
		k := rsaKey{N: h(n), E: h(e), D: h(d)}
		for _, p := range primes {
			k.Primes = append(k.Primes, h(p))
		}
		return k
	}
}

func main() {
	f := file{RSA: map[string]rsaKey{}, EC: map[string]ecKey{}, DSA: map[string]dsaKey{}}
	e65537 := big.NewInt(65537)
	for _, s := range []struct {
		name     string
		bits, np int
		e        *big.Int
	}{
		{"rsa512", 512, 2, e65537}, {"rsa1024", 1024, 2, e65537}, {"rsa1024b", 1024, 2, e65537}, {"rsa1025", 1025, 2, e65537},
		{"rsa2048", 2048, 2, e65537}, {"rsa2048b", 2048, 2, e65537}, {"rsa3072", 3072, 2, e65537}, {"rsa4096", 4096, 2, e65537},
		{"rsa1024p3", 1024, 3, e65537}, {"rsa2048p4", 2048, 4, e65537}, {"rsa2048p5", 2048, 5, e65537},
		{"rsa1024e3", 1024, 2, big.NewInt(3)}, {"rsa1024e31", 1024, 2, big.NewInt(1<<31 - 1)},
		{"rsa1024e33", 1024, 2, big.NewInt(1<<32 + 15)},
		{"rsa1024e256", 1024, 2, new(big.Int).Add(new(big.Int).Lsh(big.NewInt(1), 255), big.NewInt(1+2*0x1234567))},
	} {
		fmt.Fprintln(os.Stderr, s.name)
		f.RSA[s.name] = genRSA(s.bits, s.np, s.e)
	}
	for _, c := range []struct {
		n string
		c elliptic.Curve
	}{{"p224", elliptic.P224()}, {"p256", elliptic.P256()}, {"p384", elliptic.P384()}, {"p521", elliptic.P521()}} {
		for _, suf := range []string{"", "b"} {
			k, err := ecdsa.GenerateKey(c.c, rand.Reader)
			if err != nil {
				panic(err)
			}
			f.EC[c.n+suf] = ecKey{c.n, h(k.D)}
		}
	}
	for _, d := range []struct {
		n string
		s zdsa.ParameterSizes
	}{{"dsa1024", zdsa.L1024N160}, {"dsa2048", zdsa.L2048N256}} {
		fmt.Fprintln(os.Stderr, d.n)
		var priv zdsa.PrivateKey
		if err := zdsa.GenerateParameters(&priv.Parameters, rand.Reader, d.s); err != nil {
			panic(err)
		}
		if err := zdsa.GenerateKey(&priv, rand.Reader); err != nil {
			panic(err)
		}
		f.DSA[d.n] = dsaKey{h(priv.P), h(priv.Q), h(priv.G), h(priv.Y), h(priv.X)}
	}
	b, _ := json.MarshalIndent(f, "", " ")
	if err := os.WriteFile(os.Args[1], b, 0o644); err != nil {
		panic(err)
	}
}
