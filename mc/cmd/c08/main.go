// C08 — CertPool behaves as a fingerprint-keyed ordered set, and the parent
// lookup used by verification only returns pool members whose signature over
// the child verifies.
//
// Engine E1: explicit-state search (c.BFS) over histories of AddCert /
// AppendCertsFromPEM / Sum on a PAIR of real pools (p, q), against a reference
// model that is a Go slice + map keyed by the SHA-256 of the DER (computed here
// with crypto/sha256, never read from zcrypto). In every reached state every
// observer named by the property is compared with the model, the three internal
// index maps are checked against the list, and for every child certificate of
// the universe the candidate parents (findVerifiedParents through an overlay
// accessor, and Certificate.Verify with Roots=p, Intermediates=q) are checked
// against a signature-truth matrix computed with the Go standard library only.
package main

import (
	"bytes"
	"crypto"
	"crypto/ecdsa"
	"crypto/ed25519"
	stdrsa "crypto/rsa"
	"crypto/sha256"
	"crypto/sha512"
	stdx509 "crypto/x509"
	"encoding/hex"
	"encoding/json"
	"encoding/pem"
	"fmt"
	"os"
	"sort"
	"strings"
	"sync"

	"github.com/zmap/zcrypto/x509"
	"verifmc/internal/ev"
	"verifmc/internal/fx"
)

// ---------------------------------------------------------------- universe

type fpT = [32]byte

const nPool = 6 // the first nPool certificates are the ones added to pools

var uNames = []string{"A", "A2", "B", "B2", "C", "D", "E", "X"}

// static facts about the universe, all derived with the standard library.
type static struct {
	der     [][]byte
	fp      []fpT
	idx     map[fpT]int
	subject [][]byte // RawSubject per stdlib
	issuer  [][]byte
	skid    [][]byte
	akid    [][]byte
	sigOK   [][]bool // sigOK[parent][child]: parent's key verifies child's signature (stdlib crypto only)
}

var S static

// fakeParent: same issuer certificate, another signing key (a forged issuer).
// (zcrypto's CreateCertificate takes the AKID from the template only, so the
// AKIDs below are set explicitly in the specs.)
func fakeParent(p *fx.Cert, key crypto.Signer) *fx.Cert {
	return &fx.Cert{Spec: p.Spec, X: p.X, DER: p.DER, Key: key}
}

func mintUniverse() [][]byte {
	skidA := []byte("c08-skid-shared-A-A2")
	skidB := []byte("c08-skid-shared-B-B2")
	skidD := []byte("c08-skid-D")
	// A, A2: same subject, same SubjectKeyId, different keys, self-signed.
	A := fx.MustMint(fx.CertSpec{CN: "A", Key: "c08-kA", Serial: 1, IsCA: true, SKID: skidA}, nil)
	A2 := fx.MustMint(fx.CertSpec{CN: "A", Key: "c08-kA2", Serial: 1, IsCA: true, SKID: skidA}, nil)
	// B: issued by A (AKID = A's SKID, which A2 shares). ECDSA subject key.
	B := fx.MustMint(fx.CertSpec{CN: "B", Key: "p256", Serial: 2, IsCA: true, SKID: skidB, AKID: skidA}, A)
	// B2: same subject, same key and same SKID as B, other serial; issued by A2, WITHOUT an AKID (lookup by name).
	B2 := fx.MustMint(fx.CertSpec{CN: "B", Key: "p256", Serial: 3, IsCA: true, SKID: skidB}, A2)
	// C: no SubjectKeyId, RSA subject key, issued by B (AKID = SKID shared by B and B2; both verify).
	C := fx.MustMint(fx.CertSpec{CN: "C", Key: "rsa1024", Serial: 4, IsCA: true, AKID: skidB}, B)
	// D: AKID equals B's SKID but the issuer name is A's (and A's key signed it).
	D := fx.MustMint(fx.CertSpec{CN: "D", Key: "c08-kD", Serial: 5, IsCA: true, SKID: skidD, AKID: skidB}, A)
	// E: leaf issued by C (RSA signature, no AKID because C has no SKID). Child only.
	E := fx.MustMint(fx.CertSpec{CN: "E", Key: "c08-kE", Serial: 6}, C)
	// X: forged: claims issuer B and AKID = B's SKID, signed by an unrelated P-256 key. Child only.
	X := fx.MustMint(fx.CertSpec{CN: "X", Key: "c08-kX", Serial: 7, AKID: skidB}, fakeParent(B, fx.EC("p256b")))
	out := [][]byte{}
	for _, c := range []*fx.Cert{A, A2, B, B2, C, D, E, X} {
		out = append(out, c.DER)
	}
	return out
}

// stdVerifies: does parent's public key verify child's signature, per the Go
// standard library primitives only (no name / CA / key-usage conditions).
func stdVerifies(parent, child *stdx509.Certificate) bool {
	tbs, sig := child.RawTBSCertificate, child.Signature
	switch pub := parent.PublicKey.(type) {
	case ed25519.PublicKey:
		if child.SignatureAlgorithm != stdx509.PureEd25519 {
			return false
		}
		return ed25519.Verify(pub, tbs, sig)
	case *ecdsa.PublicKey:
		switch child.SignatureAlgorithm {
		case stdx509.ECDSAWithSHA256:
			h := sha256.Sum256(tbs)
			return ecdsa.VerifyASN1(pub, h[:], sig)
		case stdx509.ECDSAWithSHA384:
			h := sha512.Sum384(tbs)
			return ecdsa.VerifyASN1(pub, h[:], sig)
		case stdx509.ECDSAWithSHA512:
			h := sha512.Sum512(tbs)
			return ecdsa.VerifyASN1(pub, h[:], sig)
		}
		return false
	case *stdrsa.PublicKey:
		switch child.SignatureAlgorithm {
		case stdx509.SHA256WithRSA:
			h := sha256.Sum256(tbs)
			return stdrsa.VerifyPKCS1v15(pub, crypto.SHA256, h[:], sig) == nil
		case stdx509.SHA384WithRSA:
			h := sha512.Sum384(tbs)
			return stdrsa.VerifyPKCS1v15(pub, crypto.SHA384, h[:], sig) == nil
		case stdx509.SHA512WithRSA:
			h := sha512.Sum512(tbs)
			return stdrsa.VerifyPKCS1v15(pub, crypto.SHA512, h[:], sig) == nil
		}
		return false
	}
	return false
}

func buildStatic(c *ev.Ctx) {
	S.der = mintUniverse()
	S.idx = map[fpT]int{}
	std := make([]*stdx509.Certificate, len(S.der))
	for i, d := range S.der {
		sc, err := stdx509.ParseCertificate(d)
		if err != nil {
			c.Broken("stdlib cannot parse fixture %s: %v", uNames[i], err)
		}
		std[i] = sc
		f := sha256.Sum256(d)
		if _, dup := S.idx[f]; dup {
			c.Broken("fixture %s duplicates another fingerprint", uNames[i])
		}
		S.idx[f] = i
		S.fp = append(S.fp, f)
		S.subject = append(S.subject, sc.RawSubject)
		S.issuer = append(S.issuer, sc.RawIssuer)
		S.skid = append(S.skid, sc.SubjectKeyId)
		S.akid = append(S.akid, sc.AuthorityKeyId)
	}
	S.sigOK = make([][]bool, len(S.der))
	for p := range S.der {
		S.sigOK[p] = make([]bool, len(S.der))
		for ch := range S.der {
			S.sigOK[p][ch] = stdVerifies(std[p], std[ch])
		}
	}
	// fixture sanity (never a verdict): the collisions the design asks for are really there.
	const (
		A = iota
		A2
		B
		B2
		C
		D
		E
		X
	)
	must := func(ok bool, what string) {
		if !ok {
			c.Broken("fixture universe: %s", what)
		}
	}
	eq := bytes.Equal
	must(eq(S.subject[A], S.subject[A2]) && eq(S.skid[A], S.skid[A2]) && !eq(std[A].RawSubjectPublicKeyInfo, std[A2].RawSubjectPublicKeyInfo), "A/A2 same subject+SKID, different key")
	must(eq(S.subject[B], S.subject[B2]) && eq(S.skid[B], S.skid[B2]) && eq(std[B].RawSubjectPublicKeyInfo, std[B2].RawSubjectPublicKeyInfo) && std[B].SerialNumber.Cmp(std[B2].SerialNumber) != 0, "B/B2 same subject+SKID+key, different serial")
	must(len(S.skid[C]) == 0 && len(S.skid[B]) > 0, "C has no SKID")
	must(eq(S.akid[D], S.skid[B]) && eq(S.issuer[D], S.subject[A]) && !eq(S.issuer[D], S.subject[B]), "D: AKID = B's SKID, issuer name = A")
	must(len(S.akid[A]) == 0 && len(S.akid[B2]) == 0 && len(S.akid[E]) == 0 && eq(S.akid[B], S.skid[A]) && eq(S.akid[C], S.skid[B]) && eq(S.akid[X], S.skid[B]) && eq(S.issuer[X], S.subject[B]), "AKID layout")
	want := map[[2]int]bool{{A, A}: true, {A, B}: true, {A, D}: true, {A2, A2}: true, {A2, B2}: true, {B, C}: true, {B2, C}: true, {C, E}: true}
	for p := range S.der {
		for ch := range S.der {
			if S.sigOK[p][ch] != want[[2]int{p, ch}] {
				c.Broken("fixture universe: stdlib signature matrix [%s signs %s]=%v unexpected", uNames[p], uNames[ch], S.sigOK[p][ch])
			}
		}
	}
}

func nameOf(f fpT) string {
	if i, ok := S.idx[f]; ok {
		return uNames[i]
	}
	return "?" + hex.EncodeToString(f[:4])
}

// a private set of zcrypto certificate objects for one history execution
// (Verify / findVerifiedParents write ValidSignature into certificates).
type objs struct{ certs []*x509.Certificate }

// objFree is a free list that never drops objects (bounded by the number of
// concurrent history executions), so the per-object caches below stay small.
type objFreeList struct{ ch chan *objs }

var objPool = objFreeList{ch: make(chan *objs, 1024)}

func (l objFreeList) Get() *objs {
	select {
	case o := <-l.ch:
		return o
	default:
	}
	o := &objs{}
	for i, d := range S.der {
		x, err := x509.ParseCertificate(d)
		if err != nil {
			panic("zcrypto cannot parse fixture " + uNames[i] + ": " + err.Error())
		}
		o.certs = append(o.certs, x)
		universeObjects.Store(x, struct{}{})
	}
	return o
}

func (l objFreeList) Put(o *objs) {
	select {
	case l.ch <- o:
	default:
	}
}

// ---------------------------------------------------------------- PEM inputs

const (
	bkA = iota
	bkB
	bkBad
	bkPriv
	bkHdr
	bkGarbage
	nBlockKinds
)

var blockNames = []string{"cert(A)", "cert(B)", "CERTIFICATE(truncated DER)", "PRIVATE KEY(C's DER)", "CERTIFICATE+header(C)", "garbage-line"}

var blockBytes [nBlockKinds][]byte

type pemInput struct {
	kinds []int
	data  []byte
}

var pemInputs []pemInput

// hdrAdds: the statement is silent on CERTIFICATE blocks that carry PEM headers;
// the behaviour is probed once and then demanded consistently.
var hdrAdds bool

func buildPEM(c *ev.Ctx) {
	blockBytes[bkA] = pem.EncodeToMemory(&pem.Block{Type: "CERTIFICATE", Bytes: S.der[0]})
	blockBytes[bkB] = pem.EncodeToMemory(&pem.Block{Type: "CERTIFICATE", Bytes: S.der[2]})
	blockBytes[bkBad] = pem.EncodeToMemory(&pem.Block{Type: "CERTIFICATE", Bytes: S.der[0][:len(S.der[0])/2]})
	blockBytes[bkPriv] = pem.EncodeToMemory(&pem.Block{Type: "PRIVATE KEY", Bytes: S.der[4]})
	blockBytes[bkHdr] = pem.EncodeToMemory(&pem.Block{Type: "CERTIFICATE", Headers: map[string]string{"Comment": "c08"}, Bytes: S.der[4]})
	blockBytes[bkGarbage] = []byte("this line is not a PEM block\n")
	if _, err := stdx509.ParseCertificate(S.der[0][:len(S.der[0])/2]); err == nil {
		c.Broken("truncated DER parses with the standard library")
	}
	var rec func(prefix []int)
	rec = func(prefix []int) {
		in := pemInput{kinds: append([]int(nil), prefix...)}
		for _, k := range prefix {
			in.data = append(in.data, blockBytes[k]...)
		}
		pemInputs = append(pemInputs, in)
		if len(prefix) == 3 {
			return
		}
		for k := 0; k < nBlockKinds; k++ {
			rec(append(prefix, k))
		}
	}
	rec(nil)
	sort.SliceStable(pemInputs, func(i, j int) bool { return len(pemInputs[i].kinds) < len(pemInputs[j].kinds) })
	// sanity of the construction with the standard library's PEM decoder.
	for _, in := range pemInputs {
		rest := in.data
		var got []int
		for {
			var b *pem.Block
			b, rest = pem.Decode(rest)
			if b == nil {
				break
			}
			switch {
			case b.Type == "PRIVATE KEY":
				got = append(got, bkPriv)
			case b.Type == "CERTIFICATE" && len(b.Headers) > 0:
				got = append(got, bkHdr)
			case b.Type == "CERTIFICATE" && bytes.Equal(b.Bytes, S.der[0]):
				got = append(got, bkA)
			case b.Type == "CERTIFICATE" && bytes.Equal(b.Bytes, S.der[2]):
				got = append(got, bkB)
			case b.Type == "CERTIFICATE":
				got = append(got, bkBad)
			}
		}
		var want []int
		for _, k := range in.kinds {
			if k != bkGarbage {
				want = append(want, k)
			}
		}
		if fmt.Sprint(got) != fmt.Sprint(want) {
			c.Broken("PEM input %v decodes as %v with encoding/pem", in.kinds, got)
		}
	}
}

func (in pemInput) String() string {
	var s []string
	for _, k := range in.kinds {
		s = append(s, blockNames[k])
	}
	return "[" + strings.Join(s, " + ") + "]"
}

// expected effect of a PEM input, from its construction.
func (in pemInput) expect() (adds []fpT, ok bool) {
	for _, k := range in.kinds {
		switch k {
		case bkA:
			adds = append(adds, S.fp[0])
		case bkB:
			adds = append(adds, S.fp[2])
		case bkHdr:
			if hdrAdds {
				adds = append(adds, S.fp[4])
			}
		}
	}
	return adds, len(adds) > 0
}

// ---------------------------------------------------------------- reference model

type ref struct {
	order []fpT
	set   map[fpT]bool
}

func newRef() *ref { return &ref{set: map[fpT]bool{}} }
func (r *ref) add(f fpT) bool {
	if r.set[f] {
		return false
	}
	r.set[f] = true
	r.order = append(r.order, f)
	return true
}
func union(a, b *ref) *ref {
	s := newRef()
	if a != nil {
		for _, f := range a.order {
			s.add(f)
		}
	}
	if b != nil {
		for _, f := range b.order {
			s.add(f)
		}
	}
	return s
}
func (r *ref) covers(o *ref) bool {
	for _, f := range o.order {
		if !r.set[f] {
			return false
		}
	}
	return true
}
func (r *ref) String() string { return fpList(r.order) }
func fpList(l []fpT) string {
	s := make([]string, len(l))
	for i, f := range l {
		s[i] = nameOf(f)
	}
	return strings.Join(s, ",")
}
func (r *ref) clone() *ref { return union(r, nil) }

// ---------------------------------------------------------------- operations

type opKind int

const (
	opAddP opKind = iota
	opAddQ
	opSumPQ
	opSumQP
	opSumPNil
	opSumNilQ
	opPEM
	opSumPP
)

type op struct {
	kind opKind
	arg  int
}

func (o op) String() string {
	switch o.kind {
	case opAddP:
		return "p.AddCert(" + uNames[o.arg] + ")"
	case opAddQ:
		return "q.AddCert(" + uNames[o.arg] + ")"
	case opSumPQ:
		return "p=p.Sum(q)"
	case opSumQP:
		return "p=q.Sum(p)"
	case opSumPNil:
		return "p=p.Sum(nil)"
	case opSumNilQ:
		return "p=(nil).Sum(q)"
	case opSumPP:
		return "p=p.Sum(p)"
	}
	return "p.AppendCertsFromPEM(" + pemInputs[o.arg].String() + ")"
}

var ops []op

type witness struct {
	Ops    []string `json:"ops"`
	OpIdx  []int    `json:"op_idx"`
	Step   int      `json:"step"`
	Detail string   `json:"detail"`
}

// ---------------------------------------------------------------- observation of one real pool

// rawFP is the model-side fingerprint: SHA-256 of the DER, computed here (the
// FingerprintSHA256 field of zcrypto is never read). The result is cached per
// certificate object (Raw is immutable).
var fpCache sync.Map // *x509.Certificate -> fpT

func rawFP(x *x509.Certificate) fpT {
	if v, ok := fpCache.Load(x); ok {
		return v.(fpT)
	}
	f := sha256.Sum256(x.Raw)
	if _, known := S.idx[f]; known && isUniverseObject(x) {
		fpCache.Store(x, f)
	}
	return f
}

var universeObjects sync.Map // *x509.Certificate -> struct{} (long-lived objects of objPool)

func isUniverseObject(x *x509.Certificate) bool {
	_, ok := universeObjects.Load(x)
	return ok
}

// checkIndices: the three index maps agree with the list. Returns "" when consistent.
func checkIndices(p *x509.CertPool) string {
	certs, bySKID, byName, bySHA := x509.VerifC08Dump(p)
	if len(bySHA) != len(certs) {
		return fmt.Sprintf("bySHA256 has %d entries for %d certificates", len(bySHA), len(certs))
	}
	wantName := map[string][]int{}
	wantSKID := map[string][]int{}
	for i, x := range certs {
		if x == nil {
			return fmt.Sprintf("certs[%d] is nil", i)
		}
		f := rawFP(x)
		if j, ok := bySHA[string(f[:])]; !ok || j != i {
			return fmt.Sprintf("bySHA256[fp(certs[%d])] = %d,%v", i, j, ok)
		}
		wantName[string(x.RawSubject)] = append(wantName[string(x.RawSubject)], i)
		if len(x.SubjectKeyId) > 0 {
			wantSKID[string(x.SubjectKeyId)] = append(wantSKID[string(x.SubjectKeyId)], i)
		}
	}
	cmp := func(label string, got, want map[string][]int) string {
		for k, g := range got {
			gs := append([]int(nil), g...)
			sort.Ints(gs)
			if fmt.Sprint(gs) != fmt.Sprint(append([]int{}, want[k]...)) {
				return fmt.Sprintf("%s[%x] = %v, positions in list = %v", label, shortKey(k), g, want[k])
			}
		}
		for k, w := range want {
			if _, ok := got[k]; !ok {
				return fmt.Sprintf("%s[%x] missing, positions in list = %v", label, shortKey(k), w)
			}
		}
		return ""
	}
	if s := cmp("byName", byName, wantName); s != "" {
		return s
	}
	return cmp("bySubjectKeyId", bySKID, wantSKID)
}

func shortKey(k string) string {
	if len(k) > 12 {
		return k[len(k)-12:]
	}
	return k
}

func realList(p *x509.CertPool) []fpT {
	certs, _, _, _ := x509.VerifC08Dump(p)
	out := make([]fpT, len(certs))
	for i, x := range certs {
		if x != nil {
			out[i] = rawFP(x)
		}
	}
	return out
}

// observeList: the stored list (and its indices) is the model's list.
func observeList(label string, p *x509.CertPool, r *ref) (string, string) {
	if p == nil {
		return "pool is nil", label + " is nil"
	}
	if s := checkIndices(p); s != "" {
		return "internal index inconsistent with the list", label + ": " + s
	}
	if got := fpList(realList(p)); got != r.String() {
		return "contents/order differ from the set model", fmt.Sprintf("%s: pool=[%s] model=[%s]", label, got, r)
	}
	return "", ""
}

// observe compares every observer of the statement on pool p with model r.
// Returns (class, detail) of the first disagreement, or "".
func observe(o *objs, label string, p *x509.CertPool, r *ref, other *x509.CertPool, rother *ref) (string, string) {
	if cl, d := observeList(label, p, r); cl != "" {
		return cl, d
	}
	if cl, d := observeList("other", other, rother); cl != "" {
		return cl, d
	}
	if p.Size() != len(r.order) {
		return "Size disagrees", fmt.Sprintf("%s.Size()=%d model=%d", label, p.Size(), len(r.order))
	}
	cs := p.Certificates()
	cf := make([]fpT, len(cs))
	for i, x := range cs {
		if x != nil {
			cf[i] = rawFP(x)
		}
	}
	if fpList(cf) != r.String() {
		return "Certificates disagrees", fmt.Sprintf("%s.Certificates()=[%s] model=[%s]", label, fpList(cf), r)
	}
	subs := p.Subjects()
	if len(subs) != len(r.order) {
		return "Subjects disagrees", fmt.Sprintf("%s.Subjects() has %d entries, model %d", label, len(subs), len(r.order))
	}
	for i, f := range r.order {
		if !bytes.Equal(subs[i], S.subject[S.idx[f]]) {
			return "Subjects disagrees", fmt.Sprintf("%s.Subjects()[%d] is not the subject of %s", label, i, nameOf(f))
		}
	}
	for i, x := range o.certs {
		if got := p.Contains(x); got != r.set[S.fp[i]] {
			return "Contains disagrees", fmt.Sprintf("%s.Contains(%s)=%v model=%v (pool=[%s])", label, uNames[i], got, r.set[S.fp[i]], r)
		}
	}
	if got := p.Covers(other); got != r.covers(rother) {
		return "Covers disagrees", fmt.Sprintf("%s.Covers(other)=%v model=%v (pool=[%s] other=[%s])", label, got, r.covers(rother), r, rother)
	}
	if !p.Covers(nil) {
		return "Covers disagrees", label + ".Covers(nil)=false"
	}
	return "", ""
}

// ---------------------------------------------------------------- parent lookup oracle

var (
	memoParents sync.Map // list string -> struct{}
	memoVerify  sync.Map // "p|q" -> struct{}
)

type reporter func(class, detail string)

// checkParents: for every child of the universe, every index returned by
// findVerifiedParents designates a pool member whose key verifies the child.
func checkParents(o *objs, p *x509.CertPool, r *ref, h ev.Hist, rep reporter) {
	for ci, child := range o.certs {
		var parents []int
		var errCert *x509.Certificate
		pan, msg, site := ev.Try(func() { parents, errCert, _ = x509.VerifC08Parents(p, child) })
		if pan {
			rep("panic@"+site+": "+ev.MsgClass(msg), fmt.Sprintf("findVerifiedParents(%s) on pool [%s]: %s", uNames[ci], r, msg))
			continue
		}
		cs := p.Certificates()
		for _, pi := range parents {
			if pi < 0 || pi >= len(cs) || cs[pi] == nil {
				rep("findVerifiedParents: returned index designates no pool member", fmt.Sprintf("child %s pool [%s]: index %d", uNames[ci], r, pi))
				continue
			}
			f := rawFP(cs[pi])
			ui, known := S.idx[f]
			if !known || !r.set[f] {
				rep("findVerifiedParents: returned certificate is not a member of the pool", fmt.Sprintf("child %s pool [%s]: %s", uNames[ci], r, nameOf(f)))
				continue
			}
			if !S.sigOK[ui][ci] {
				rep(fmt.Sprintf("findVerifiedParents: returned a member whose key does not verify the child (child-has-AKID=%v parent-subject-is-issuer=%v)",
					len(S.akid[ci]) > 0, bytes.Equal(S.subject[ui], S.issuer[ci])),
					fmt.Sprintf("child %s pool [%s]: parent %s", uNames[ci], r, nameOf(f)))
			}
		}
		// vacuity classes
		trueParents := 0
		for _, f := range r.order {
			if S.sigOK[S.idx[f]][ci] {
				trueParents++
			}
		}
		switch {
		case len(parents) > 0 && errCert != nil:
			h["lookup: some candidates accepted, some rejected"]++
		case len(parents) > 1:
			h["lookup: several parents accepted"]++
		case len(parents) == 1:
			h["lookup: one parent accepted"]++
		case errCert != nil:
			h["lookup: every candidate rejected"]++
		default:
			h["lookup: no candidate"]++
		}
		if trueParents > len(parents) {
			h["lookup: a verifying member was not returned (allowed: AKID/name pre-filter)"]++
		}
	}
}

// checkVerify: chains returned by Verify(Roots=p, Intermediates=q) only use
// pool members, and every link verifies per stdlib.
func checkVerify(o *objs, p, q *x509.CertPool, rp, rq *ref, h ev.Hist, rep reporter) {
	for ci, child := range o.certs {
		var cur, exp, nev []x509.CertificateChain
		var err error
		pan, msg, site := ev.Try(func() {
			cur, exp, nev, err = child.Verify(x509.VerifyOptions{Roots: p, Intermediates: q, CurrentTime: fx.T0, KeyUsages: []x509.ExtKeyUsage{x509.ExtKeyUsageAny}})
		})
		if pan {
			rep("panic@"+site+": "+ev.MsgClass(msg), fmt.Sprintf("%s.Verify(Roots=[%s], Intermediates=[%s]): %s", uNames[ci], rp, rq, msg))
			continue
		}
		all := append(append(append([]x509.CertificateChain{}, cur...), exp...), nev...)
		if err != nil && len(all) == 0 {
			h["verify: no chain"]++
		}
		for _, ch := range all {
			var fs []fpT
			for _, x := range ch {
				if x == nil {
					fs = append(fs, fpT{})
				} else {
					fs = append(fs, rawFP(x))
				}
			}
			desc := fmt.Sprintf("child %s Roots=[%s] Intermediates=[%s] chain=[%s]", uNames[ci], rp, rq, fpList(fs))
			if len(fs) == 0 || fs[0] != S.fp[ci] {
				rep("Verify: chain does not start at the child", desc)
				continue
			}
			if !rp.set[fs[len(fs)-1]] {
				rep("Verify: chain ends in a certificate that is not a member of Roots", desc)
				continue
			}
			bad := false
			for k := 1; k < len(fs); k++ {
				if k < len(fs)-1 && !rq.set[fs[k]] {
					rep("Verify: intermediate is not a member of Intermediates", desc)
					bad = true
					break
				}
				pi, ok := S.idx[fs[k]]
				ki := S.idx[fs[k-1]]
				if !ok || !S.sigOK[pi][ki] {
					rep("Verify: chain link whose parent key does not verify the child", desc)
					bad = true
					break
				}
			}
			if !bad {
				switch {
				case len(fs) == 1:
					h["verify: chain of 1 (child is a root)"]++
				case len(fs) == 2:
					h["verify: chain of 2"]++
				default:
					h["verify: chain of 3+"]++
				}
			}
		}
	}
}

// ---------------------------------------------------------------- main

func opClass(o op, dup bool) string {
	switch o.kind {
	case opAddP, opAddQ:
		if dup {
			return "AddCert(already present)"
		}
		return "AddCert(new)"
	case opPEM:
		return "AppendCertsFromPEM"
	}
	return "Sum"
}

func main() {
	ev.Main("C08", "model_checking", func(c *ev.Ctx) {
		buildStatic(c)
		buildPEM(c)
		for u := 0; u < nPool; u++ {
			ops = append(ops, op{opAddP, u})
		}
		for u := 0; u < nPool; u++ {
			ops = append(ops, op{opAddQ, u})
		}
		ops = append(ops, op{kind: opSumPQ}, op{kind: opSumQP}, op{kind: opSumPNil}, op{kind: opSumNilQ})
		for i := range pemInputs {
			ops = append(ops, op{opPEM, i})
		}
		ops = append(ops, op{kind: opSumPP}) // last, so that the indices of older witnesses keep their meaning

		// CERTIFICATE block with headers: statement silent -> probe, then demand consistency.
		{
			pr := x509.NewCertPool()
			pr.AppendCertsFromPEM(blockBytes[bkHdr])
			hdrAdds = pr.Size() == 1
			c.Set("certificate_block_with_pem_header", map[bool]string{true: "added (accepted: statement silent)", false: "skipped (accepted: statement silent)"}[hdrAdds])
		}

		c.Rule(fmt.Sprintf("explicit-state BFS (two passes, same objects and oracles) over histories on a pair of real pools (p,q); pass 'full': all %d operations = p.AddCert(u), q.AddCert(u) for u in {A,A2,B,B2,C,D}, p=p.Sum(q), p=q.Sum(p), p=p.Sum(nil), p=(nil).Sum(q), p=p.Sum(p), p.AppendCertsFromPEM(x) for all %d concatenations of <=3 blocks of {cert A, cert B, truncated CERTIFICATE, PRIVATE KEY, CERTIFICATE with header, garbage line}; pass 'deep': the same with only the PEM inputs of <=1 block, searched deeper; state = (ordered fingerprint list of p, of q) read from the pool internals and checked against the three index maps; a state is distinct by that pair of lists; every history ending in a Sum is followed by an aliasing probe", len(ops), len(pemInputs)))
		c.Assume("reference = Go slice + map keyed by crypto/sha256 of the DER; PEM expectations follow from the construction of each input (cross-checked with encoding/pem + crypto/x509 at start)",
			"signature truth = crypto/ed25519, crypto/ecdsa, crypto/rsa over RawTBSCertificate parsed by crypto/x509 (8x8 matrix, asserted to be the intended one)",
			"CERTIFICATE blocks carrying PEM headers: either skipped or added is accepted (statement silent), consistency demanded",
			"nil receivers: only Size, Contains and Sum (explicit nil handling in the code) are exercised; Certificates/Subjects/AddCert/AppendCertsFromPEM on a nil pool are undefined and excluded",
			"parent lookup: soundness only (returned => member and signature verifies); a verifying member that is filtered out by the AKID/name pre-selection is not a violation")

		// run executes one history.
		everyStep := c.Replay != nil
		run := func(hist []int, final bool) (string, bool) {
			o := objPool.Get()
			defer objPool.Put(o)
			h := ev.Hist{}
			defer c.Merge(h)
			names := func() []string {
				s := make([]string, len(hist))
				for i, oi := range hist {
					s[i] = ops[oi].String()
				}
				return s
			}
			p, q := x509.NewCertPool(), x509.NewCertPool()
			rp, rq := newRef(), newRef()
			type old struct {
				pool *x509.CertPool
				r    *ref
				at   int
			}
			var grave []old
			step := -1
			diverged := false
			report := func(class, detail string) {
				diverged = true
				c.Violation(class, witness{names(), hist, step, detail})
			}
			check := func(kind string) bool {
				c.Evaluations.Add(1)
				if cl, d := observe(o, "p", p, rp, q, rq); cl != "" {
					report(kind+": "+cl, d)
					return false
				}
				if cl, d := observe(o, "q", q, rq, p, rp); cl != "" {
					report(kind+": "+cl, d)
					return false
				}
				for _, g := range grave {
					if s := checkIndices(g.pool); s != "" {
						report(kind+": a pool replaced by an earlier Sum result became inconsistent", s)
						return false
					}
					if got := fpList(realList(g.pool)); got != g.r.String() {
						report(kind+": a pool that was only an operand of an earlier Sum changed (result aliases operand)",
							fmt.Sprintf("pool replaced at step %d was [%s], now [%s]", g.at, g.r, got))
						return false
					}
				}
				// parent lookup, memoised per distinct pool content
				sp, sq := rp.String(), rq.String()
				rep := func(class, detail string) { report(class, detail) }
				if _, done := memoParents.LoadOrStore(sp, struct{}{}); !done {
					checkParents(o, p, rp, h, rep)
				}
				if _, done := memoParents.LoadOrStore(sq, struct{}{}); !done {
					checkParents(o, q, rq, h, rep)
				}
				if _, done := memoVerify.LoadOrStore(sp+"|"+sq, struct{}{}); !done {
					checkVerify(o, p, q, rp, rq, h, rep)
				}
				return !diverged
			}
			if !check("initial") {
				return "DIVERGED", false
			}
			for i, oi := range hist {
				step = i
				op := ops[oi]
				last := final && i == len(hist)-1
				dup := false
				var kind string
				pan, msg, site := ev.Try(func() {
					switch op.kind {
					case opAddP:
						dup = !rp.add(S.fp[op.arg])
						p.AddCert(o.certs[op.arg])
					case opAddQ:
						dup = !rq.add(S.fp[op.arg])
						q.AddCert(o.certs[op.arg])
					case opSumPQ, opSumQP, opSumPNil, opSumNilQ, opSumPP:
						grave = append(grave, old{p, rp.clone(), i})
						var np *x509.CertPool
						var nr *ref
						switch op.kind {
						case opSumPQ:
							np, nr = p.Sum(q), union(rp, rq)
						case opSumQP:
							np, nr = q.Sum(p), union(rq, rp)
						case opSumPNil:
							np, nr = p.Sum(nil), union(rp, nil)
						case opSumNilQ:
							np, nr = (*x509.CertPool)(nil).Sum(q), union(nil, rq)
						case opSumPP:
							np, nr = p.Sum(p), union(rp, rp) // both operands are the receiver itself
						}
						if last {
							switch {
							case op.kind == opSumPNil || op.kind == opSumNilQ:
								h["Sum: with nil"]++
							case op.kind == opSumPP:
								h["Sum: of a pool with itself"]++
							case len(nr.order) < len(rp.order)+len(rq.order):
								h["Sum: overlapping operands"]++
							default:
								h["Sum: disjoint operands"]++
							}
						}
						p, rp = np, nr
					case opPEM:
						in := pemInputs[op.arg]
						adds, wantOK := in.expect()
						added := 0
						for _, f := range adds {
							if rp.add(f) {
								added++
							}
						}
						gotOK := p.AppendCertsFromPEM(in.data)
						if gotOK != wantOK {
							report(fmt.Sprintf("AppendCertsFromPEM: ok flag %v, want %v", gotOK, wantOK),
								fmt.Sprintf("input %s (parseable-cert=%v unparseable-cert=%v non-cert-block=%v) giving p=[%s]",
									in, wantOK, hasKind(in, bkBad), hasKind(in, bkPriv) || hasKind(in, bkGarbage), rp))
						}
						if last {
							switch {
							case !wantOK:
								h["PEM: ok=false"]++
							case added == 0:
								h["PEM: ok=true, nothing new (all duplicates)"]++
							default:
								h["PEM: ok=true, certificates added"]++
							}
						}
					}
				})
				kind = opClass(op, dup)
				if pan {
					report("panic@"+site+" in "+kind+": "+ev.MsgClass(msg), msg)
					return "DIVERGED", false
				}
				if diverged {
					return "DIVERGED", false
				}
				if last && (op.kind == opAddP || op.kind == opAddQ) {
					h[kind]++
				}
				// Prefix steps were fully checked when the prefix itself was the
				// history under test (previous BFS level); replays check every step.
				if (i == len(hist)-1 || everyStep) && !check(kind) {
					return "DIVERGED", false
				}
				// Aliasing probe. The canonical state (two lists) cannot see whether a Sum
				// result shares storage with an operand, so right after a Sum that ends
				// the history (the objects are discarded afterwards) the result and the
				// operands are each extended with a certificate none of them holds and
				// must not influence each other.
				if i == len(hist)-1 && kind == "Sum" {
					oldp := grave[len(grave)-1]
					E, X := o.certs[6], o.certs[7]
					pan, msg, site := ev.Try(func() {
						p.AddCert(E)
						wantP := rp.clone()
						wantP.add(S.fp[6])
						bad := ""
						if got := fpList(realList(oldp.pool)); got != oldp.r.String() {
							bad = fmt.Sprintf("after result.AddCert(E): receiver/previous p was [%s], now [%s]", oldp.r, got)
						} else if got := fpList(realList(q)); got != rq.String() {
							bad = fmt.Sprintf("after result.AddCert(E): q was [%s], now [%s]", rq, got)
						}
						if bad == "" {
							oldp.pool.AddCert(X)
							q.AddCert(X)
							if got := fpList(realList(p)); got != wantP.String() {
								bad = fmt.Sprintf("after operand.AddCert(X): result was [%s], now [%s]", wantP, got)
							} else if s := checkIndices(p); s != "" {
								bad = "after operand.AddCert(X): result indices: " + s
							}
						}
						if bad != "" {
							report("Sum: result shares state with an operand (adding to one changes the other)", bad)
						}
					})
					if pan {
						report("panic@"+site+" in Sum aliasing probe: "+ev.MsgClass(msg), msg)
					}
					if diverged {
						return "DIVERGED", false
					}
				}
			}
			return stateKey(rp, rq), true
		}

		if c.Replay != nil {
			var w witness
			if err := json.Unmarshal(c.Replay, &w); err != nil {
				c.Broken("bad witness: %v", err)
			}
			for _, oi := range w.OpIdx {
				if oi < 0 || oi >= len(ops) {
					c.Broken("bad witness: op index %d", oi)
				}
			}
			run(w.OpIdx, true)
			c.States.Add(1)
			c.Transitions.Add(int64(len(w.OpIdx)))
			return
		}

		// nil-receiver behaviour that the code defines explicitly.
		{
			o := objPool.Get()
			var np *x509.CertPool
			pan, msg, site := ev.Try(func() {
				if np.Size() != 0 {
					c.Violation("nil pool: Size != 0", nil)
				}
				for i, x := range o.certs {
					if np.Contains(x) {
						c.Violation("nil pool: Contains = true", uNames[i])
					}
				}
				s := np.Sum(nil)
				if s == nil || s.Size() != 0 || len(s.Certificates()) != 0 {
					c.Violation("(nil).Sum(nil) is not an empty pool", nil)
				}
			})
			if pan {
				c.Violation("panic@"+site+" on nil pool: "+ev.MsgClass(msg), msg)
			}
			c.Outcome("nil-receiver observers", 3)
			objPool.Put(o)
		}

		// Two passes of the same engine over the same objects and oracles:
		//  full : every operation (all PEM inputs of <=3 blocks);
		//  deep : the set operations with the PEM inputs of <=1 block, deeper.
		// Witnesses always carry indices into the full operation list.
		var all, small []int
		for i, o := range ops {
			all = append(all, i)
			if o.kind != opPEM || len(pemInputs[o.arg].kinds) <= 1 {
				small = append(small, i)
			}
		}
		var distinct sync.Map
		var sampleMu sync.Mutex
		sampled := map[string]bool{}
		pass := func(name string, sub []int, maxDepth int) {
			res := c.BFS(len(sub), maxDepth, func(h []int) (string, bool) {
				hist := make([]int, len(h))
				for i, x := range h {
					hist[i] = sub[x]
				}
				k, ex := run(hist, true)
				if ex {
					distinct.LoadOrStore(k, struct{}{})
				}
				if ex && len(hist) == 4 && c.WantSample() {
					cls := fmt.Sprint(ops[hist[3]].kind, ops[hist[1]].kind)
					sampleMu.Lock()
					take := !sampled[cls]
					sampled[cls] = true
					sampleMu.Unlock()
					if take {
						s := make([]string, len(hist))
						for i, oi := range hist {
							s[i] = ops[oi].String()
						}
						c.Sample(map[string]any{"history": s, "state": readable(k)})
					}
				}
				return k, ex
			})
			c.Transitions.Add(int64(res.Transitions))
			c.Traces.Add(int64(res.Edges))
			c.Set("bfs_"+name, map[string]any{"states": res.States, "edges": res.Edges, "depth_completed": res.Depth, "max_depth": maxDepth, "closed_reachable_space": res.Closed, "operations": len(sub)})
			c.Outcome("edges-conforming", int64(res.Edges))
		}
		depthFull, depthDeep := ev.Pick(c, 4, 6), ev.Pick(c, 5, 7)
		if v := os.Getenv("C08_DEPTHS"); v != "" { // experiments only
			fmt.Sscanf(v, "%d,%d", &depthFull, &depthDeep)
		}
		pass("full", all, depthFull)
		if !c.TimeUp() {
			pass("deep", small, depthDeep)
		} else {
			c.Incomplete(fmt.Sprintf("budget hit after the full pass: the deep pass (%d operations to depth %d) was not run", len(small), depthDeep))
		}
		nd := 0
		distinct.Range(func(_, _ any) bool { nd++; return true })
		c.States.Add(int64(nd))
		c.Distinct.Add(int64(nd))
		c.Set("pem_inputs", len(pemInputs))
		np, nv := 0, 0
		memoParents.Range(func(_, _ any) bool { np++; return true })
		memoVerify.Range(func(_, _ any) bool { nv++; return true })
		c.Set("distinct_pool_contents_with_parent_lookup_checked", np)
		c.Set("distinct_pool_pairs_with_Verify_checked", nv)
		c.Set("children_per_lookup", len(uNames))
	})
}

func hasKind(in pemInput, k int) bool {
	for _, x := range in.kinds {
		if x == k {
			return true
		}
	}
	return false
}

// stateKey: compact canonical key (one byte per certificate, 0xff separator).
func stateKey(rp, rq *ref) string {
	b := make([]byte, 0, len(rp.order)+len(rq.order)+1)
	for _, f := range rp.order {
		b = append(b, byte(S.idx[f]))
	}
	b = append(b, 0xff)
	for _, f := range rq.order {
		b = append(b, byte(S.idx[f]))
	}
	return string(b)
}

func readable(k string) string {
	var sb strings.Builder
	sb.WriteString("p=[")
	first := true
	for i := 0; i < len(k); i++ {
		if k[i] == 0xff {
			sb.WriteString("] q=[")
			first = true
			continue
		}
		if !first {
			sb.WriteByte(',')
		}
		first = false
		sb.WriteString(uNames[k[i]])
	}
	sb.WriteString("]")
	return sb.String()
}
