package x509

// Thin accessors for check C08 (compiled into package x509 through -overlay;
// never part of /repo). No logic here: the oracle lives in verifmc/cmd/c08.

// VerifC08Parents calls the unexported parent lookup used by buildChains.
func VerifC08Parents(s *CertPool, c *Certificate) (parents []int, errCert *Certificate, err error) {
	return s.findVerifiedParents(c)
}

// VerifC08Dump returns the internal list and the three index maps (read-only views).
func VerifC08Dump(s *CertPool) (certs []*Certificate, bySubjectKeyId, byName map[string][]int, bySHA256 map[string]int) {
	return s.certs, s.bySubjectKeyId, s.byName, s.bySHA256
}
