package main

// Re-entrancy pass (internal/nohb): "a signature is accepted exactly when it is valid" is judged call by call in
// parts 1 and 2; a verifier that keeps a hasher, a digest buffer or a decoded (r,s) pair outside the call can accept
// or reject the wrong signature when two goroutines verify at once. Every ordered pair of the menu below is run as
// "first call to completion, then the second on another goroutine" WITHOUT a happens-before edge in a -race build:
// ThreadSanitizer reports every location both calls touch unsynchronised, for all interleavings at once.
//
// Menu: x509.CheckSignatureFromKey for every key family of part 1 under its algorithms (genuine signature, then the
// same signature with one bit flipped), two family mismatches, and the creation + verification APIs of part 2
// (every API with an Ed25519 signer, certificates / CRLs also with RSA and ECDSA). Every call loads its own key
// objects, mints its own CA and parses its own parent certificate; nothing is shared between the two calls.

import (
	"fmt"
	"io"
	"math/big"
	"os"
	"time"

	"github.com/zmap/zcrypto/x509"
	"github.com/zmap/zcrypto/x509/revocation/ocsp"
	"verifmc/internal/ev"
	"verifmc/internal/fx"
	"verifmc/internal/nohb"
)

func reentrantRepoDir() string {
	if v := os.Getenv("VERIF_REPO_DIR"); v != "" {
		return v
	}
	return "/repo"
}

func reSigner(n string) *signer {
	k := loadKey(n)
	s := &signer{name: n, kind: k.fam.String(), priv: fx.Signer(n), key: k, parent: caFor(n),
		rand: func(seed string) io.Reader { return fx.NewRand("c03-obj-" + seed) }}
	if k.fam == famECDSA {
		s.rand = func(string) io.Reader { return nil }
	}
	return s
}

func reentrantOps() []nohb.Op {
	var ops []nohb.Op
	msg := messages()[2]
	// ---- part 1: the verification primitive
	prim := func(keyName string, sigKey string, a algInfo) {
		sig, err := genuine(loadKey(sigKey), a, msg, "reentrant")
		if err != nil {
			// family mismatch: a genuine signature of the key's own family under another algorithm name
			for _, oa := range allAlgs {
				if s, e := genuine(loadKey(sigKey), oa, msg, "reentrant"); e == nil {
					sig = s
					break
				}
			}
		}
		ops = append(ops, nohb.Op{Name: fmt.Sprintf("CheckSignatureFromKey(%s, %s)", keyName, a.name), New: func() func() {
			k := loadKey(keyName)
			m := append([]byte{}, msg...)
			good := append([]byte{}, sig...)
			bad := append([]byte{}, sig...)
			if len(bad) > 0 {
				bad[len(bad)/2] ^= 0x10
			}
			return func() {
				x509.CheckSignatureFromKey(k.zpub, a.alg, m, good)
				if err := x509.CheckSignatureFromKey(k.zpub, a.alg, m, bad); err != nil {
					_ = err.Error()
				}
			}
		}})
	}
	for _, a := range allAlgs {
		switch {
		case a.fam == famRSA && a.usable:
			prim("rsa1024", "rsa1024", a)
		case a.alg == x509.ECDSAWithSHA1:
			prim("p224", "p224", a)
		case a.alg == x509.ECDSAWithSHA256:
			prim("p256", "p256", a)
			prim("p256aug", "p256", a)
		case a.alg == x509.ECDSAWithSHA384:
			prim("p384", "p384", a)
		case a.alg == x509.ECDSAWithSHA512:
			prim("p521", "p521", a)
		case a.alg == x509.DSAWithSHA1:
			prim("dsa1024", "dsa1024", a)
		case a.alg == x509.DSAWithSHA256:
			prim("dsa2048", "dsa2048", a)
			prim("dsa2048q224", "dsa2048q224", a)
		case a.fam == famEd:
			prim("ed-a", "ed-a", a)
		}
	}
	prim("rsa1024e33", "rsa1024e33", infoOf(x509.SHA256WithRSA))
	prim("rsa1024", "rsa1024", infoOf(x509.ECDSAWithSHA256)) // key of another family than the algorithm
	prim("p256", "p256", infoOf(x509.UnknownSignatureAlgorithm))

	// ---- part 2: creation and verification APIs, every call with its own signer / CA / parent parse
	objects := func(signerName string, which map[string]bool) {
		for _, a0 := range apis() {
			if !which[a0.name] || a0.delegated {
				continue
			}
			name := a0.name
			pick := func() *api {
				for _, a := range apis() { // fresh closures (and a fresh leaf key) per call
					if a.name == name {
						return &a
					}
				}
				return nil
			}
			s0 := reSigner(signerName)
			der, err := a0.create(s0, 0)
			if err != nil {
				continue
			}
			parentDER := s0.parent.DER
			ops = append(ops, nohb.Op{Name: name + "(" + signerName + ")", New: func() func() {
				a, s := pick(), reSigner(signerName)
				return func() { a.create(s, 0) }
			}})
			ops = append(ops, nohb.Op{Name: a0.verifier + " on a " + name + "(" + signerName + ") object", New: func() func() {
				a := pick()
				d := append([]byte{}, der...)
				parent, _ := x509.ParseCertificate(append([]byte{}, parentDER...))
				return func() {
					if parent != nil {
						a.verify(d, parent)
					}
				}
			}})
		}
	}
	all := map[string]bool{"CreateCertificate": true, "CreateCertificateRequest": true, "Certificate.CreateCRL": true, "CreateRevocationList": true, "ocsp.CreateResponse": true}
	objects("ed-a", all)
	objects("rsa1024", map[string]bool{"CreateCertificate": true, "Certificate.CreateCRL": true})
	objects("p256", map[string]bool{"CreateCertificate": true, "CreateRevocationList": true})

	// delegated OCSP responder (Ed25519): own issuer and own responder certificate per call (the check's
	// responderFor/ocspIssuer caches are shared objects and are not used here)
	mkDelegated := func() (issuer, responder *fx.Cert) {
		issuer = caFor("ed-a")
		responder = fx.MustMint(fx.CertSpec{CN: "C03 OCSP responder ed-b", Key: "ed-b", Serial: 0x0c5,
			EKU: []x509.ExtKeyUsage{x509.ExtKeyUsageOcspSigning}, KeyUsage: x509.KeyUsageDigitalSignature}, issuer)
		return
	}
	createDelegated := func(issuer, responder *fx.Cert) ([]byte, error) {
		t := ocsp.Response{Status: ocsp.Good, SerialNumber: big.NewInt(0xc03), ThisUpdate: tThis, NextUpdate: tNext, Certificate: responder.X}
		return ocsp.CreateResponse(issuer.X, responder.X, t, responder.Key)
	}
	if i0, r0 := mkDelegated(); true {
		if der, err := createDelegated(i0, r0); err == nil {
			issuerDER := i0.DER
			ops = append(ops, nohb.Op{Name: "ocsp.CreateResponse(delegated responder, ed-b)", New: func() func() {
				i, r := mkDelegated()
				return func() { createDelegated(i, r) }
			}})
			ops = append(ops, nohb.Op{Name: "ocsp.ParseResponse(issuer) with embedded responder certificate", New: func() func() {
				d := append([]byte{}, der...)
				issuer, _ := x509.ParseCertificate(append([]byte{}, issuerDER...))
				return func() {
					if issuer != nil {
						ocsp.ParseResponse(d, issuer)
					}
				}
			}})
		}
	}
	return ops
}

const reentrantMenuText = "CheckSignatureFromKey for every key family x its algorithms (genuine + one-bit-flipped signature), family mismatches, and every creation/verification API of part 2 (Ed25519 signer for all, RSA/ECDSA for certificates and CRLs, delegated OCSP responder); own keys, own CA, own parent parse per call"

func reentrantPhase(c *ev.Ctx) {
	if c.Replay != nil {
		return // --replay re-executes one recorded witness of the main phase only
	}
	t0 := time.Now()
	o := nohb.Run(os.Getenv("VERIF_RACE_BIN"), nil, 10*time.Minute)
	if o.Broken != "" {
		c.Broken("re-entrancy pass: %s", o.Broken)
	}
	for _, sig := range o.Sigs() {
		c.Violation("re-entrancy: two calls on different goroutines share unsynchronised state: "+sig, map[string]any{"pair": o.Races[sig], "kind": "nohb"})
	}
	for k, v := range o.Panics {
		c.Violation("re-entrancy: "+k, map[string]any{"pair": v, "kind": "nohb"})
	}
	c.Outcome("re-entrancy pairs without a report", int64(o.Pairs))
	c.States.Add(int64(o.Pairs))
	c.Traces.Add(int64(o.Pairs))
	c.Set("reentrancy", map[string]any{"calls": o.Ops, "ordered_pairs": o.Pairs, "race_signatures": len(o.Races), "harness_only_reports": o.Harness, "canary_ok": o.CanaryOK,
		"seconds": time.Since(t0).Seconds(), "menu": reentrantMenuText,
		"method": "every ordered pair (a, b) of the menu: a to completion on one goroutine, then b on another, without a happens-before edge, in a -race build; a ThreadSanitizer report with both accesses in the repository is a violation"})
}
