package main

// Part 1 — primitive level: x509.CheckSignatureFromKey against the standard
// library on genuine signatures and on every enumerated deviation of them.

import (
	"crypto/ed25519"
	stdasn1 "encoding/asn1"
	"encoding/hex"
	"fmt"
	"math/big"
	"strings"
	"sync"

	"github.com/zmap/zcrypto/x509"
	"verifmc/internal/ev"
)

// primWitness is the replayable form of one primitive-level evaluation.
type primWitness struct {
	Part     string `json:"part"` // "prim"
	Key      string `json:"key"`  // key the verifier is given
	Alg      int    `json:"alg"`  // algorithm the verifier is given
	AlgName  string `json:"alg_name"`
	MsgHex   string `json:"msg_hex"`
	SigHex   string `json:"sig_hex"`
	Mutation string `json:"mutation"` // how (key,alg,msg,sig) differs from the genuine tuple
	Genuine  string `json:"genuine"`  // "<key>/<alg>/msg#<i>"
	Zcrypto  string `json:"zcrypto"`  // verdict of x509.CheckSignatureFromKey
	Oracle   string `json:"oracle"`   // verdict of the standard library
	Baseline bool   `json:"is_genuine"`
	Mall     bool   `json:"is_valid_variant"`
	Class    string `json:"signature_class,omitempty"`
}

func violPrim(c *ev.Ctx, sig string, w primWitness) {
	w.Class = sig
	c.Violation(sig, w)
}

func messages() [][]byte {
	var out [][]byte
	for _, n := range []int{0, 1, 55, 56, 64, 1024} {
		m := make([]byte, n)
		for i := range m {
			m[i] = byte(31*i + 7 + n)
		}
		out = append(out, m)
	}
	return out
}

// zverify calls the code under test.
func zverify(k *pkey, a x509.SignatureAlgorithm, msg, sig []byte) (ok bool, class string, panicMsg string) {
	var err error
	p, m, site := ev.Try(func() { err = x509.CheckSignatureFromKey(k.zpub, a, msg, sig) })
	if p {
		return false, "panic", "panic@" + site + ": " + ev.MsgClass(m)
	}
	if err == nil {
		return true, "accept", ""
	}
	s := ev.MsgClass(err.Error())
	if len(s) > 70 {
		s = s[:70]
	}
	return false, s, ""
}

type smut struct {
	kind  string // class used in violation signatures
	label string // full description (witness)
	key   *pkey
	alg   algInfo
	msg   []byte
	sig   []byte
	mall  bool // a mathematically valid variant: rejecting it is a violation too
}

type pcase struct {
	key  *pkey
	alg  algInfo
	mi   int
	msg  []byte
	sig  []byte
	nSig int
	sigR bool // signature flips restricted to bits {0,7} of every byte
	msgR bool // message flips restricted to bits {0,7} of every enumerated byte
	msgP []int
	st   []smut
}

const primaryMsg = 4 // the 64-byte message

// speedClass (quick tier only): 0 = verification < 0.2 ms, 1 = slow (P-224, P-384, DSA), 2 = P-521 (≈ 1–3 ms).
func speedClass(k *pkey) int {
	switch {
	case k.fam == famECDSA && k.bits == 521:
		return 2
	case k.fam == famECDSA && k.bits != 256, k.fam == famDSA:
		return 1
	}
	return 0
}

func (pc *pcase) id() string {
	return fmt.Sprintf("%s/%s/msg#%d(len %d)", pc.key.name, pc.alg.name, pc.mi, len(pc.msg))
}

func derLen(n int, forceLong bool) []byte {
	switch {
	case n < 128 && !forceLong:
		return []byte{byte(n)}
	case n < 256:
		return []byte{0x81, byte(n)}
	}
	return []byte{0x82, byte(n >> 8), byte(n)}
}

func tlv(tag byte, content []byte, forceLong bool) []byte {
	out := append([]byte{tag}, derLen(len(content), forceLong)...)
	return append(out, content...)
}

func derInt(x *big.Int) []byte {
	b, err := stdasn1.Marshal(x)
	if err != nil {
		panic(err)
	}
	return b
}

func intContent(x *big.Int) []byte {
	b := derInt(x)
	var rv stdasn1.RawValue
	stdasn1.Unmarshal(b, &rv)
	return rv.Bytes
}

func seqRS(r, s *big.Int) []byte { return tlv(0x30, append(derInt(r), derInt(s)...), false) }

// rsStructured enumerates the (r,s) deviations of an ECDSA/DSA signature.
func rsStructured(pc *pcase, n *big.Int) []smut {
	var rs rsSig
	if rest, err := stdasn1.Unmarshal(pc.sig, &rs); err != nil || len(rest) != 0 {
		panic("genuine signature is not SEQUENCE{r,s}")
	}
	add := func(a, b *big.Int) *big.Int { return new(big.Int).Add(a, b) }
	zero := new(big.Int)
	type alt struct {
		n string
		v *big.Int
	}
	ralts := []alt{{"r", rs.R}, {"0", zero}, {"n", n}, {"n+r", add(n, rs.R)}, {"-r", new(big.Int).Neg(rs.R)}}
	salts := []alt{{"s", rs.S}, {"0", zero}, {"n", n}, {"n+s", add(n, rs.S)}, {"-s", new(big.Int).Neg(rs.S)}, {"n-s", new(big.Int).Sub(n, rs.S)}}
	var out []smut
	mk := func(kind, label string, sig []byte, mall bool) {
		out = append(out, smut{kind: kind, label: label, key: pc.key, alg: pc.alg, msg: pc.msg, sig: sig, mall: mall})
	}
	for _, ra := range ralts {
		for _, sa := range salts {
			if ra.n == "r" && sa.n == "s" {
				continue
			}
			kind := "rs-out-of-range"
			mall := false
			if ra.n == "r" && sa.n == "n-s" {
				kind, mall = "rs-malleable(n-s)", true
			}
			mk(kind, fmt.Sprintf("(r,s):=(%s,%s)", ra.n, sa.n), seqRS(ra.v, sa.v), mall)
		}
	}
	rI, sI := derInt(rs.R), derInt(rs.S)
	nonMin := func(x *big.Int) []byte { return tlv(0x02, append([]byte{0}, intContent(x)...), false) }
	mk("rs-der-nonminimal-int", "r with a redundant leading 00", tlv(0x30, append(nonMin(rs.R), sI...), false), false)
	mk("rs-der-nonminimal-int", "s with a redundant leading 00", tlv(0x30, append(append([]byte{}, rI...), nonMin(rs.S)...), false), false)
	mk("rs-der-trailing", "one byte 00 after the SEQUENCE", append(append([]byte{}, pc.sig...), 0), false)
	mk("rs-der-trailing", "INTEGER 0 appended inside the SEQUENCE", tlv(0x30, append(append(append([]byte{}, rI...), sI...), 2, 1, 0), false), false)
	mk("rs-der-trailing", "one byte 00 inside the SEQUENCE after s", tlv(0x30, append(append(append([]byte{}, rI...), sI...), 0), false), false)
	if len(rI)+len(sI) < 128 {
		mk("rs-der-nonminimal-length", "SEQUENCE length in long form 81 xx", tlv(0x30, append(append([]byte{}, rI...), sI...), true), false)
	} else {
		c := append(append([]byte{}, rI...), sI...)
		mk("rs-der-nonminimal-length", "SEQUENCE length in long form 82 00 xx", append([]byte{0x30, 0x82, 0, byte(len(c))}, c...), false)
	}
	mk("rs-der-nonminimal-length", "r length in long form 81 xx", tlv(0x30, append(tlv(0x02, intContent(rs.R), true), sI...), false), false)
	mk("rs-der-missing", "SEQUENCE{r} only", tlv(0x30, rI, false), false)
	mk("rs-der-missing", "empty signature", []byte{}, false)
	mk("rs-der-missing", "empty SEQUENCE", []byte{0x30, 0}, false)
	return out
}

// emStructured enumerates RSA signatures over deliberately wrong encoded
// messages, produced with the private key (math/big), for one genuine case.
func emStructured(pc *pcase) []smut {
	r := pc.key.ref
	h := pc.alg.hash
	dg := digestOf(h, pc.msg)
	var out []smut
	mk := func(kind, label string, em []byte) {
		if em == nil || len(em) != r.k || new(big.Int).SetBytes(em).Cmp(r.n) >= 0 {
			return
		}
		out = append(out, smut{kind: kind, label: label, key: pc.key, alg: pc.alg, msg: pc.msg, sig: r.private(em)})
	}
	// the genuine signature plus the modulus: the same residue, but not below n (RFC 8017 §5.2.2 step 1:
	// "signature representative out of range"); exists whenever s+n still has k octets.
	if sn := new(big.Int).Add(new(big.Int).SetBytes(pc.sig), r.n); len(pc.sig) == r.k && sn.BitLen() <= 8*r.k {
		out = append(out, smut{kind: "rsa-sig-not-below-n", label: "signature s replaced by s+n (same length)", key: pc.key, alg: pc.alg, msg: pc.msg, sig: sn.FillBytes(make([]byte, r.k))})
	}
	if !pc.alg.pss {
		t := digestInfoDER(h, dg, true)
		good, ok := emPKCS1(t, r.k)
		if !ok {
			return nil
		}
		mod := func(f func(em []byte)) []byte { em := append([]byte{}, good...); f(em); return em }
		mk("em-pkcs1-digest", "last digest byte ^01", mod(func(em []byte) { em[len(em)-1] ^= 1 }))
		mk("em-pkcs1-digest", "first digest byte ^80", mod(func(em []byte) { em[len(em)-len(dg)] ^= 0x80 }))
		mk("em-pkcs1-digestinfo", "DigestInfo header byte (hash OID arc) ^01", mod(func(em []byte) { em[len(em)-len(dg)-5] ^= 1 }))
		if e, ok := emPKCS1(digestInfoDER(h, dg, false), r.k); ok {
			mk("em-pkcs1-digestinfo", "DigestInfo without NULL parameters", e)
		}
		if e, ok := emPKCS1(dg, r.k); ok {
			mk("em-pkcs1-digestinfo", "bare digest without DigestInfo", e)
		}
		for _, lead := range []byte{0x01, 0x02, 0x80, 0xff} {
			mk("em-pkcs1-leading-octet", fmt.Sprintf("first octet %02x instead of 00", lead), mod(func(em []byte) { em[0] = lead }))
		}
		mk("em-pkcs1-padding", "block type 00", mod(func(em []byte) { em[1] = 0 }))
		mk("em-pkcs1-padding", "block type 02", mod(func(em []byte) { em[1] = 2 }))
		mk("em-pkcs1-padding", "PS octet 00 in the middle", mod(func(em []byte) { em[6] = 0 }))
		mk("em-pkcs1-padding", "PS octet fe", mod(func(em []byte) { em[3] = 0xfe }))
		mk("em-pkcs1-padding", "separator 01 instead of 00", mod(func(em []byte) { em[len(em)-len(t)-1] = 1 }))
		// Bleichenbacher-2006 shape: short padding, T not right-aligned, garbage after it.
		bb := make([]byte, r.k)
		bb[1] = 1
		for j := 2; j < 10; j++ {
			bb[j] = 0xff
		}
		copy(bb[11:], t)
		for j := 11 + len(t); j < r.k; j++ {
			bb[j] = 0xa5
		}
		mk("em-pkcs1-padding", "8 FF, T left-aligned, garbage tail", bb)
		return out
	}
	emBits := r.n.BitLen() - 1
	hl := h.Size()
	salt := make([]byte, hl)
	for j := range salt {
		salt[j] = byte(j*5 + 1)
	}
	pss := func(kind, label string, mh, sl []byte, tw pssTweak) {
		em, ok := emPSS(h, mh, sl, emBits, tw)
		if !ok {
			return
		}
		if len(em) < r.k {
			em = append(make([]byte, r.k-len(em)), em...)
		}
		mk(kind, label, em)
	}
	pss("em-pss-trailer", "trailer cc instead of bc", dg, salt, pssTweak{trailer: 0xcc})
	pss("em-pss-db", "DB separator 02", dg, salt, pssTweak{sepByte: 2})
	pss("em-pss-db", "non-zero octet inside PS", dg, salt, pssTweak{dirtyPad: true})
	pss("em-pss-db", "leftmost bits of maskedDB set", dg, salt, pssTweak{keepTopBt: true})
	for _, sl := range []int{0, 20, hl - 1, hl + 1, (emBits+7)/8 - hl - 2} {
		if sl < 0 || sl == hl {
			continue
		}
		pss("em-pss-saltlen", fmt.Sprintf("correct EMSA-PSS but salt length %d (hash length %d)", sl, hl), dg, make([]byte, sl), pssTweak{})
	}
	bad := append([]byte{}, dg...)
	bad[len(bad)-1] ^= 1
	pss("em-pss-mhash", "mHash last byte ^01", bad, salt, pssTweak{})

	// Representatives that differ from a CORRECT encoded message only outside its emBits bits: a non-zero
	// surplus octet in front of EM (moduli of 8k+1 bits, where emLen = k-1) and set bits among the
	// 8emLen-emBits leftmost bits of EM. RFC 8017 §8.1.2 step 2c (I2OSP to emLen octets fails) / §9.1.2
	// step 6 reject them. The representative must stay below n, which depends on the value of EM: the first
	// of 256 fixed salts whose deviating representative is below n is taken.
	emLen := (emBits + 7) / 8
	if emLen < hl+hl+2 {
		return out
	}
	saltN := func(try int) []byte {
		sl := make([]byte, hl)
		for j := range sl {
			sl[j] = byte(j*5 + 1 + 31*try)
		}
		return sl
	}
	if em, ok := emPSS(h, dg, saltN(0), emBits, pssTweak{}); ok {
		if len(em) < r.k {
			em = append(make([]byte, r.k-len(em)), em...)
		}
		// the unmodified harness-made encoding is a valid signature: it must verify (keeps the deviations below honest)
		out = append(out, smut{kind: "em-pss-valid(harness-made encoding, fixed salt)", label: "correct EMSA-PSS made by the harness", key: pc.key, alg: pc.alg, msg: pc.msg, sig: r.private(em), mall: true})
	}
	firstBelowN := func(kind, label string, f func(em []byte) []byte) {
		for try := 0; try < 256; try++ {
			em, ok := emPSS(h, dg, saltN(try), emBits, pssTweak{})
			if !ok {
				return
			}
			rep := f(append(make([]byte, r.k-len(em)), em...))
			if new(big.Int).SetBytes(rep).Cmp(r.n) < 0 {
				mk(kind, fmt.Sprintf("%s (fixed salt #%d)", label, try), rep)
				return
			}
		}
	}
	if emLen < r.k {
		for _, lead := range []byte{0x01, 0x02, 0x7f, 0x80, 0xff} {
			if new(big.Int).Lsh(big.NewInt(int64(lead)), uint(8*emLen)).Cmp(r.n) >= 0 {
				continue // no value of this shape is below n
			}
			firstBelowN("em-pss-surplus-octet", fmt.Sprintf("octet %02x in front of a correct EM (emLen = k-1)", lead), func(rep []byte) []byte { rep[0] = lead; return rep })
		}
	}
	nb := 8*emLen - emBits
	for j := 0; j <= nb && nb > 0; j++ {
		var bitsSet byte
		var label string
		if j < nb {
			bitsSet = 0x80 >> uint(j)
			label = fmt.Sprintf("bit %d (of the %d leftmost, masked bits) of a correct EM set", j, nb)
		} else {
			bitsSet = ^(byte(0xff) >> uint(nb))
			label = fmt.Sprintf("all %d leftmost, masked bits of a correct EM set", nb)
		}
		v := new(big.Int).Lsh(big.NewInt(int64(bitsSet)), uint(8*(emLen-1)))
		if v.Cmp(r.n) >= 0 {
			continue
		}
		firstBelowN("em-pss-masked-bits", label, func(rep []byte) []byte { rep[r.k-emLen] |= bitsSet; return rep })
	}
	return out
}

var nmCache sync.Map

func nearMiss(name string) *pkey {
	if v, ok := nmCache.Load(name); ok {
		return v.(*pkey)
	}
	k := loadKey(name)
	nmCache.Store(name, k)
	return k
}

func orderOf(k *pkey) *big.Int {
	switch k.fam {
	case famECDSA:
		return k.ec.Curve.Params().N
	case famDSA:
		return k.dsa.Q
	}
	return nil
}

// buildCase signs and lays out the mutant space of one (key, alg, msg).
func buildCase(c *ev.Ctx, keys []*pkey, k *pkey, a algInfo, mi int, msg []byte) (*pcase, error) {
	sig, err := genuine(k, a, msg, fmt.Sprintf("%s-%s-%d", k.name, a.name, mi))
	if err != nil {
		return nil, err
	}
	pc := &pcase{key: k, alg: a, mi: mi, msg: msg, sig: sig}
	sc := 0
	if c.Quick() {
		sc = speedClass(k)
	}
	pc.sigR = c.Quick() && (k.fam == famRSA && k.bits >= 2048 || sc >= 1 && mi != primaryMsg)
	pc.msgR = sc >= 1 && mi != primaryMsg
	noSweep := sc == 2 && mi != primaryMsg && a.alg != x509.ECDSAWithSHA512
	if pc.sigR {
		pc.nSig = 2 * len(sig)
	} else {
		pc.nSig = 8 * len(sig)
	}
	if noSweep {
		pc.nSig = 0
	}
	if noSweep {
		// quick tier, P-521: only baseline and structured deviations for this (alg,msg)
	} else if len(msg) <= 64 {
		for i := range msg {
			pc.msgP = append(pc.msgP, i)
		}
	} else {
		for i := 0; i < 32; i++ {
			pc.msgP = append(pc.msgP, i)
		}
		for i := len(msg) - 32; i < len(msg); i++ {
			pc.msgP = append(pc.msgP, i)
		}
	}
	for _, ok := range keys {
		if ok == k {
			continue
		}
		kind := "other-key(other type)"
		if ok.fam == k.fam {
			kind = "other-key(same type)"
		}
		if strings.TrimSuffix(ok.name, "aug") == strings.TrimSuffix(k.name, "aug") {
			// the SAME key in its other Go form (*ecdsa.PublicKey / *x509.AugmentedECDSA): must verify
			pc.st = append(pc.st, smut{kind: "same-key(other Go type)", label: "verify with key " + ok.name, key: ok, alg: a, msg: msg, sig: sig, mall: true})
			continue
		}
		pc.st = append(pc.st, smut{kind: kind, label: "verify with key " + ok.name, key: ok, alg: a, msg: msg, sig: sig})
	}
	// near-miss keys: the genuine key with one component changed to another VALID value.
	if !strings.HasPrefix(k.name, "nm-") {
		var nm *pkey
		var what string
		base := strings.TrimSuffix(k.name, "aug")
		switch k.fam {
		case famRSA:
			nm, what = nearMiss("nm-e:"+base), "same modulus, exponent e+2"
		case famECDSA:
			nm, what = nearMiss("nm-negy:"+base), "point (x, p-y)"
		case famDSA:
			nm, what = nearMiss("nm-y:"+base), "same (p,q,g), y*g mod p"
		}
		if nm != nil {
			pc.st = append(pc.st, smut{kind: "near-miss-key", label: "verify with " + nm.name + " (" + what + ")", key: nm, alg: a, msg: msg, sig: sig})
		}
	}
	for _, oa := range allAlgs {
		if oa.alg == a.alg {
			continue
		}
		pc.st = append(pc.st, smut{kind: "other-alg(" + oa.scheme() + ")", label: "claim algorithm " + oa.name, key: k, alg: oa, msg: msg, sig: sig})
	}
	lm := func(label string, s []byte) {
		pc.st = append(pc.st, smut{kind: "length±1", label: label, key: k, alg: a, msg: msg, sig: s})
	}
	if len(sig) > 0 {
		lm("last byte removed", append([]byte{}, sig[:len(sig)-1]...))
		lm("first byte removed", append([]byte{}, sig[1:]...))
	}
	lm("byte 00 appended", append(append([]byte{}, sig...), 0))
	lm("byte 00 prepended", append([]byte{0}, sig...))
	if n := orderOf(k); n != nil {
		pc.st = append(pc.st, rsStructured(pc, n)...)
	}
	if k.fam == famRSA {
		pc.st = append(pc.st, emStructured(pc)...)
	}
	return pc, nil
}

func (pc *pcase) msgBits() int {
	if pc.msgR {
		return 2
	}
	return 8
}

func (pc *pcase) nMut() int { return pc.nSig + pc.msgBits()*len(pc.msgP) + len(pc.st) }

// mutant materialises local mutant i of the case.
func (pc *pcase) mutant(i int) smut {
	if i < pc.nSig {
		var by, bit int
		if pc.sigR {
			by, bit = i/2, []int{0, 7}[i%2]
		} else {
			by, bit = i/8, i%8
		}
		s := append([]byte{}, pc.sig...)
		s[by] ^= 1 << uint(bit)
		return smut{kind: "sig-bitflip", label: fmt.Sprintf("signature byte %d bit %d flipped", by, bit), key: pc.key, alg: pc.alg, msg: pc.msg, sig: s}
	}
	i -= pc.nSig
	if mb := pc.msgBits(); i < mb*len(pc.msgP) {
		by, bit := pc.msgP[i/mb], i%mb
		if pc.msgR {
			bit = []int{0, 7}[i%mb]
		}
		m := append([]byte{}, pc.msg...)
		m[by] ^= 1 << uint(bit)
		return smut{kind: "msg-bitflip", label: fmt.Sprintf("message byte %d bit %d flipped", by, bit), key: pc.key, alg: pc.alg, msg: m, sig: pc.sig}
	}
	return pc.st[i-pc.msgBits()*len(pc.msgP)]
}

type primStats struct {
	h         ev.Hist
	trans     int64
	evals     int64
	nontriv   int64
	mutCount  int64
	lenient   int64
	validMut  int64
	stricter  int64
	strictSmp []primWitness
	lenSmp    []primWitness
}

func boolS(b bool) string {
	if b {
		return "accept"
	}
	return "reject"
}

// judge evaluates one tuple on both sides and applies the property.
func judge(c *ev.Ctx, st *primStats, pc string, baseScheme string, m smut, baseline bool) {
	zok, zclass, pan := zverify(m.key, m.alg.alg, m.msg, m.sig)
	st.trans++
	if m.key.fam == famRSA && m.alg.pss && m.alg.usable && m.kind != "sig-bitflip" && m.kind != "msg-bitflip" {
		directPSS(c, st, pc, m, baseline)
	}
	if c.Quick() && !zok && pan == "" && (m.kind == "sig-bitflip" || m.kind == "msg-bitflip") {
		// quick tier: a rejected bit flip already is what the property demands whatever the reference
		// says (no bit flip of a genuine signature is "produced by the key"); the standard library is
		// consulted on every acceptance, and on every case in the thorough tier.
		if strings.Contains(zclass, "erification") {
			st.nontriv++
		}
		st.h["rejected: "+m.kind+" (quick: stdlib consulted on acceptance only)"]++
		st.h["z-reject: "+zclass]++
		return
	}
	sok := strict(m.key, m.alg, m.msg, m.sig)
	st.evals++
	wit := func(o string) primWitness {
		msgHex := hex.EncodeToString(m.msg)
		return primWitness{Part: "prim", Key: m.key.name, Alg: int(m.alg.alg), AlgName: m.alg.name, MsgHex: msgHex,
			SigHex: hex.EncodeToString(m.sig), Mutation: m.label, Genuine: pc, Zcrypto: zclass, Oracle: o, Baseline: baseline, Mall: m.mall}
	}
	if pan != "" {
		// "verifies" / "verification fails" are the only two outcomes the statement knows: a panic is neither.
		st.h["VIOLATION: panic in CheckSignatureFromKey"]++
		violPrim(c, "prim "+baseScheme+": "+pan, wit(boolS(sok)))
		return
	}
	if zok || strings.Contains(zclass, "erification") {
		st.nontriv++
	}
	kind := m.kind
	if baseline {
		kind = "genuine"
	}
	switch {
	case zok && sok:
		if baseline {
			st.h["genuine: accepted by both"]++
		} else {
			st.validMut++
			st.h["mutant valid per stdlib, accepted by both: "+kind]++
		}
	case !zok && !sok:
		st.h["rejected by both: "+kind]++
		st.h["z-reject: "+zclass]++
	case zok && !sok:
		if m.alg.usable && m.alg.fam != m.key.fam && primitive(m.key, m.alg, m.msg, m.sig) {
			// "fails whenever ... the claimed algorithm is changed": the claimed algorithm belongs to another
			// key family (no key of this type can sign under it) and the signature is still accepted because
			// only the hash was taken from it. Named apart from forged acceptances.
			st.lenient++
			violPrim(c, fmt.Sprintf("prim %s: genuine signature still ACCEPTED after the claimed algorithm is changed to one of another key family (%s) with the same hash", baseScheme, m.alg.scheme()), wit("strict=reject primitive=accept"))
			return
		}
		violPrim(c, fmt.Sprintf("prim %s: %s ACCEPTED by CheckSignatureFromKey, rejected by the standard library", baseScheme, kind), wit("reject"))
	case !zok && sok:
		if baseline {
			violPrim(c, fmt.Sprintf("prim: genuine %s signature (%s) REJECTED by CheckSignatureFromKey: %s", m.alg.scheme(), m.alg.name, zclass), wit("accept"))
		} else if m.mall {
			violPrim(c, fmt.Sprintf("prim %s: valid signature variant %s REJECTED by CheckSignatureFromKey: %s", baseScheme, kind, zclass), wit("accept"))
		} else {
			st.stricter++
			st.h["stricter than stdlib (statement silent): "+kind]++
			if len(st.strictSmp) < 2 {
				st.strictSmp = append(st.strictSmp, wit("accept"))
			}
		}
	}
}

func quickKeys() []string {
	return []string{"rsa1024", "rsa1024b", "rsa1025", "rsadet1025", "rsadet1026", "rsadet1031", "rsa2048", "rsa1024e33",
		"p224", "p256", "p256b", "p384", "p521", "ed-a", "ed-b", "dsa1024", "dsa2048",
		"p256aug", "dsa2048q224"}
}

func thoroughKeys() []string {
	return append(quickKeys(), "rsa2048b", "rsa3072", "rsa4096", "rsa1024e256", "rsa1024e3", "rsa1024e31", "p224b", "p384b", "p521b",
		"p224aug", "p384aug", "p521aug")
}

func runPrim(c *ev.Ctx) {
	var keys []*pkey
	for _, n := range ev.Pick(c, quickKeys(), thoroughKeys()) {
		keys = append(keys, loadKey(n))
	}
	msgs := messages()

	// the reference RSA must agree with crypto/rsa wherever both exist.
	for _, k := range keys {
		if k.fam != famRSA || k.stdRSA == nil {
			continue
		}
		for _, a := range allAlgs {
			if a.fam != famRSA || !a.usable {
				continue
			}
			sig, err := genuine(k, a, msgs[2], "xv")
			if err != nil {
				continue
			}
			dg := digestOf(a.hash, msgs[2])
			var ok bool
			if a.pss {
				ok = k.ref.verifyPSS(a.hash, dg, sig)
			} else {
				rs, _ := k.ref.signPKCS1(a.hash, dg)
				ok = k.ref.verifyPKCS1(a.hash, dg, sig) && string(rs) == string(sig)
			}
			if !ok {
				c.Broken("reference RSA (RFC 8017, math/big) disagrees with crypto/rsa on %s %s", k.name, a.name)
			}
		}
	}

	// build all cases (signing is sequential and cheap next to the mutant sweep).
	type slot struct {
		k  *pkey
		a  algInfo
		mi int
	}
	var slots []slot
	for _, k := range keys {
		for _, a := range allAlgs {
			for mi := range msgs {
				slots = append(slots, slot{k, a, mi})
			}
		}
	}
	cases := make([]*pcase, len(slots))
	var incompat, signErr int64
	var mu sync.Mutex
	signErrs := map[string]bool{}
	c.Parallel(len(slots), func(w, i int) {
		s := slots[i]
		pc, err := buildCase(c, keys, s.k, s.a, s.mi, msgs[s.mi])
		mu.Lock()
		defer mu.Unlock()
		if err == errIncompatible {
			incompat++
			return
		}
		if err != nil {
			signErr++
			signErrs[fmt.Sprintf("%s/%s: %v", s.k.name, s.a.name, err)] = true
			return
		}
		cases[i] = pc
	})
	var live []*pcase
	for _, pc := range cases {
		if pc != nil {
			live = append(live, pc)
		}
	}
	// non-vacuity of the value-dependent RSA representatives: every key with emLen = k-1 must have got its
	// "octet in front of EM" forgery, every key with masked bits its "masked bit set" forgery, on every PSS case.
	for _, pc := range live {
		if pc.key.fam != famRSA || !pc.alg.pss {
			continue
		}
		var surplus, masked int
		for _, m := range pc.st {
			switch m.kind {
			case "em-pss-surplus-octet":
				surplus++
			case "em-pss-masked-bits":
				masked++
			}
		}
		nbits := pc.key.ref.n.BitLen()
		if nbits%8 == 1 && surplus == 0 {
			c.Incomplete(fmt.Sprintf("part 1: no representative 01||EM below n among 256 salts for %s", pc.id()))
		}
		if nbits%8 != 1 && masked == 0 {
			c.Incomplete(fmt.Sprintf("part 1: no EM with a masked bit set below n among 256 salts for %s", pc.id()))
		}
		c.Outcome("RSA-PSS case: representatives with a non-zero surplus octet in front of a correct EM", int64(surplus))
		c.Outcome("RSA-PSS case: representatives with masked leftmost bits of a correct EM set", int64(masked))
	}
	c.Outcome("(key,alg,msg) incompatible by family or unsupported algorithm: no genuine signature exists", incompat)
	if signErr > 0 {
		c.Outcome("(key,alg,msg) the standard library cannot sign (key too small for the encoding)", signErr)
		var l []string
		for s := range signErrs {
			l = append(l, s)
		}
		c.Set("prim_unsignable", l)
	}

	// incompatible pairs: nothing is a valid signature, everything must be rejected.
	// (covered from the genuine cases through other-key / other-alg; here the empty and a fixed signature.)
	type job struct{ ci, lo, hi int }
	var jobs []job
	const chunk = 96
	for ci, pc := range live {
		n := pc.nMut()
		for lo := -1; lo < n; lo += chunk { // -1 = the baseline itself
			hi := lo + chunk
			if hi > n {
				hi = n
			}
			jobs = append(jobs, job{ci, lo, hi})
		}
	}
	W := c.Workers()
	stats := make([]*primStats, W)
	for i := range stats {
		stats[i] = &primStats{h: ev.Hist{}}
	}
	done := c.Parallel(len(jobs), func(w, i int) {
		j := jobs[i]
		pc := live[j.ci]
		st := stats[w]
		for x := j.lo; x < j.hi; x++ {
			if x < 0 {
				judge(c, st, pc.id(), pc.alg.scheme(), smut{kind: "genuine", label: "none (genuine signature)", key: pc.key, alg: pc.alg, msg: pc.msg, sig: pc.sig}, true)
				continue
			}
			judge(c, st, pc.id(), pc.alg.scheme(), pc.mutant(x), false)
			st.mutCount++
		}
	})
	if !done {
		c.Incomplete("part 1: time budget hit before all primitive-level mutants were evaluated")
	}
	var tot primStats
	tot.h = ev.Hist{}
	for _, s := range stats {
		c.Merge(s.h)
		tot.trans += s.trans
		tot.evals += s.evals
		tot.nontriv += s.nontriv
		tot.mutCount += s.mutCount
		tot.lenient += s.lenient
		tot.validMut += s.validMut
		tot.stricter += s.stricter
		tot.strictSmp = append(tot.strictSmp, s.strictSmp...)
		tot.lenSmp = append(tot.lenSmp, s.lenSmp...)
	}
	c.States.Add(int64(len(live)) + tot.mutCount)
	c.Transitions.Add(tot.trans)
	c.Traces.Add(tot.trans)
	c.Evaluations.Add(tot.evals)
	c.Distinct.Add(tot.nontriv)
	perFam := map[string]int{}
	for _, pc := range live {
		perFam[pc.key.fam.String()+"/"+pc.alg.scheme()]++
	}
	c.Set("prim", map[string]any{
		"keys": len(keys), "algorithms": len(allAlgs), "messages": len(msgs),
		"genuine_cases": len(live), "genuine_cases_by_scheme": perFam, "mutants": tot.mutCount,
		"mutants_valid_per_stdlib_and_accepted":       tot.validMut,
		"accepted_cross_family_algorithm_same_digest(violations)": tot.lenient,
		"stricter_than_stdlib":                        tot.stricter,
	})
	if len(tot.strictSmp) > 0 {
		c.Set("prim_sample_stricter_than_stdlib", tot.strictSmp[0])
	}
	if len(live) > 0 {
		pc := live[len(live)/2]
		c.Sample(map[string]any{"part": "prim", "case": pc.id(), "sig_len": len(pc.sig), "mutants": pc.nMut(), "first_structured": pc.st[0].label})
	}

	// Observation only (C01 owns it): an Ed25519 public key of the wrong length.
	edk := loadKey("ed-a")
	om := []byte("c03")
	osig := ed25519.Sign(edk.ed, om)
	for _, n := range []int{31, 33, 0} {
		pub := make(ed25519.PublicKey, n)
		copy(pub, edk.zpub.(ed25519.PublicKey))
		var err error
		p, m, site := ev.Try(func() { err = x509.CheckSignatureFromKey(pub, x509.Ed25519Sig, om, osig) })
		c.Transitions.Add(1)
		if p {
			violPrim(c, "prim Ed25519: panic@"+site+": "+ev.MsgClass(m)+" (public key of wrong length)", primWitness{Part: "prim", Key: fmt.Sprintf("ed-a truncated/padded to %d bytes", n), Alg: int(x509.Ed25519Sig),
				MsgHex: hex.EncodeToString(om), SigHex: hex.EncodeToString(osig), Mutation: "public key " + hex.EncodeToString(pub)})
		} else if err == nil {
			violPrim(c, "prim Ed25519: signature ACCEPTED under a public key of wrong length", primWitness{Part: "prim", Key: fmt.Sprintf("ed-a truncated/padded to %d bytes", n), Alg: int(x509.Ed25519Sig)})
		} else {
			c.Outcome("Ed25519 public key of wrong length rejected", 1)
		}
	}
}
