package main

// Part 2 — object level: every creation API × every SignatureAlgorithm ×
// every signer key type. What the API accepts must verify with the object's
// own verification API, and must stop verifying after any one-byte
// substitution that touches the signed bytes, the algorithm or the signature.

import (
	"bytes"
	"crypto"
	stdpkix "crypto/x509/pkix"
	stdasn1 "encoding/asn1"
	"encoding/hex"
	"errors"
	"fmt"
	"io"
	"math/big"
	"strings"
	"sync"
	"time"

	zdsa "github.com/zmap/zcrypto/dsa"
	"github.com/zmap/zcrypto/x509"
	zpkix "github.com/zmap/zcrypto/x509/pkix"
	"github.com/zmap/zcrypto/x509/revocation/ocsp"
	"verifmc/internal/ev"
	"verifmc/internal/fx"
)

type objWitness struct {
	Part      string `json:"part"` // "obj"
	API       string `json:"api"`
	Signer    string `json:"signer"`
	Alg       int    `json:"requested_alg"`
	AlgName   string `json:"requested_alg_name"`
	DERHex    string `json:"der_hex"` // the object as handed to the verification API
	Offset    int    `json:"offset"`  // -1: unmodified object
	Old       string `json:"old_byte,omitempty"`
	New       string `json:"new_byte,omitempty"`
	Region    string `json:"region,omitempty"`
	ParentHex string `json:"issuer_cert_der_hex,omitempty"`
	Zcrypto   string `json:"zcrypto"`
	Oracle    string `json:"oracle"`
	Detail    string `json:"detail,omitempty"`
	Class     string `json:"signature_class,omitempty"`
}

type signer struct {
	name   string
	kind   string // family as seen by the API
	priv   crypto.Signer
	key    *pkey    // standard-library form of the same key (nil: API is expected to refuse the key type)
	parent *fx.Cert // CA certificate carrying the key (or a stand-in for refused key types)
	rand   func(seed string) io.Reader
}

// dsaSigner makes a DSA key a crypto.Signer, to learn whether an API takes it.
type dsaSigner struct{ k *zdsa.PrivateKey }

func (d dsaSigner) Public() crypto.PublicKey { return &d.k.PublicKey }
func (d dsaSigner) Sign(r io.Reader, digest []byte, _ crypto.SignerOpts) ([]byte, error) {
	n := d.k.Q.BitLen() / 8
	if len(digest) > n {
		digest = digest[:n]
	}
	rr, ss, err := zdsa.Sign(constReader(0x42), d.k, digest)
	if err != nil {
		return nil, err
	}
	return stdasn1.Marshal(rsSig{rr, ss})
}

func caFor(name string) *fx.Cert {
	return fx.MustMint(fx.CertSpec{CN: "C03 CA " + name, Key: name, IsCA: true,
		KeyUsage: x509.KeyUsageCertSign | x509.KeyUsageCRLSign | x509.KeyUsageDigitalSignature,
		SKID:     []byte{0xc0, 0x03, byte(len(name)), name[len(name)-1]}}, nil)
}

func buildSigners(c *ev.Ctx) []*signer {
	detRand := func(seed string) io.Reader { return fx.NewRand("c03-obj-" + seed) }
	nilRand := func(string) io.Reader { return nil } // ecdsa: nil rand = RFC 6979 deterministic nonce
	var out []*signer
	names := ev.Pick(c, []string{"rsa1024", "rsa2048", "p224", "p256", "p384", "p521", "ed-a"},
		[]string{"rsa1024", "rsa1025", "rsa2048", "rsa3072", "rsa1024e33", "p224", "p256", "p384", "p521", "ed-a"})
	for _, n := range names {
		k := loadKey(n)
		s := &signer{name: n, kind: k.fam.String(), priv: fx.Signer(n), key: k, parent: caFor(n), rand: detRand}
		if k.fam == famECDSA {
			s.rand = nilRand
		}
		out = append(out, s)
	}
	edCA := out[len(out)-1].parent
	out = append(out, &signer{name: "dsa1024", kind: "DSA(wrapped as crypto.Signer)", priv: dsaSigner{fx.DSA("dsa1024")}, parent: edCA, rand: detRand})
	// a crypto/rsa (not zcrypto/rsa) private key: refused today; were it accepted, it is the rsa1024 key and is judged as such.
	out = append(out, &signer{name: "rsa1024", kind: "crypto/rsa key (not zcrypto/rsa)", priv: fx.StdRSA("rsa1024"), key: loadKey("rsa1024"), parent: out[0].parent, rand: detRand})
	return out
}

// ---------------------------------------------------------------------------
// independent decoding of "SIGNED{ToBeSigned}" containers (encoding/asn1).

type signedWire struct {
	TBS    stdasn1.RawValue
	AlgRaw stdasn1.RawValue
	Sig    stdasn1.BitString
}

type signedOuter struct {
	signedWire
	Alg   stdpkix.AlgorithmIdentifier
	Certs [][]byte // OCSP only: the certificates embedded after the signature
}

func (s *signedOuter) decodeAlg() error {
	rest, err := stdasn1.Unmarshal(s.AlgRaw.FullBytes, &s.Alg)
	if err == nil && len(rest) != 0 {
		err = errors.New("trailing data in AlgorithmIdentifier")
	}
	return err
}

type ocspOuter struct {
	Status stdasn1.Enumerated
	Bytes  struct {
		Type     stdasn1.ObjectIdentifier
		Response []byte
	} `asn1:"explicit,tag:0,optional"`
}

type ocspBasic struct {
	TBS   stdasn1.RawValue
	Alg   stdasn1.RawValue
	Sig   stdasn1.BitString
	Certs []stdasn1.RawValue `asn1:"explicit,tag:0,optional"`
}

var oidOCSPBasic = stdasn1.ObjectIdentifier{1, 3, 6, 1, 5, 5, 7, 48, 1, 1}

func extractSigned(der []byte, isOCSP bool) (*signedOuter, error) {
	if isOCSP {
		var o ocspOuter
		rest, err := stdasn1.Unmarshal(der, &o)
		if err != nil {
			return nil, err
		}
		if len(rest) != 0 || o.Status != 0 || !o.Bytes.Type.Equal(oidOCSPBasic) {
			return nil, errors.New("not a successful basic OCSP response")
		}
		var b ocspBasic
		rest, err = stdasn1.Unmarshal(o.Bytes.Response, &b)
		if err != nil {
			return nil, err
		}
		if len(rest) != 0 {
			return nil, errors.New("trailing data")
		}
		s := &signedOuter{signedWire: signedWire{TBS: b.TBS, AlgRaw: b.Alg, Sig: b.Sig}}
		for _, c := range b.Certs {
			s.Certs = append(s.Certs, c.FullBytes)
		}
		return s, s.decodeAlg()
	}
	var s signedOuter
	rest, err := stdasn1.Unmarshal(der, &s.signedWire)
	if err != nil {
		return nil, err
	}
	if len(rest) != 0 {
		return nil, errors.New("trailing data")
	}
	return &s, s.decodeAlg()
}

// OID → algorithm, transcribed from RFC 3279 §2.2, RFC 4055 §5, RFC 5758 §3, RFC 8410 §3.
var sigOIDs = []struct {
	oid stdasn1.ObjectIdentifier
	alg x509.SignatureAlgorithm
}{
	{stdasn1.ObjectIdentifier{1, 2, 840, 113549, 1, 1, 2}, x509.MD2WithRSA},
	{stdasn1.ObjectIdentifier{1, 2, 840, 113549, 1, 1, 4}, x509.MD5WithRSA},
	{stdasn1.ObjectIdentifier{1, 2, 840, 113549, 1, 1, 5}, x509.SHA1WithRSA},
	{stdasn1.ObjectIdentifier{1, 3, 14, 3, 2, 29}, x509.SHA1WithRSA},
	{stdasn1.ObjectIdentifier{1, 2, 840, 113549, 1, 1, 11}, x509.SHA256WithRSA},
	{stdasn1.ObjectIdentifier{1, 2, 840, 113549, 1, 1, 12}, x509.SHA384WithRSA},
	{stdasn1.ObjectIdentifier{1, 2, 840, 113549, 1, 1, 13}, x509.SHA512WithRSA},
	{stdasn1.ObjectIdentifier{1, 2, 840, 10040, 4, 3}, x509.DSAWithSHA1},
	{stdasn1.ObjectIdentifier{2, 16, 840, 1, 101, 3, 4, 3, 2}, x509.DSAWithSHA256},
	{stdasn1.ObjectIdentifier{1, 2, 840, 10045, 4, 1}, x509.ECDSAWithSHA1},
	{stdasn1.ObjectIdentifier{1, 2, 840, 10045, 4, 3, 2}, x509.ECDSAWithSHA256},
	{stdasn1.ObjectIdentifier{1, 2, 840, 10045, 4, 3, 3}, x509.ECDSAWithSHA384},
	{stdasn1.ObjectIdentifier{1, 2, 840, 10045, 4, 3, 4}, x509.ECDSAWithSHA512},
	{stdasn1.ObjectIdentifier{1, 3, 101, 112}, x509.Ed25519Sig},
}

var (
	oidRSAPSS = stdasn1.ObjectIdentifier{1, 2, 840, 113549, 1, 1, 10}
	oidMGF1   = stdasn1.ObjectIdentifier{1, 2, 840, 113549, 1, 1, 8}
)

// RSASSA-PSS-params of RFC 4055 §3.1 (no defaults taken: they would mean SHA-1).
type pssParams struct {
	Hash    stdpkix.AlgorithmIdentifier `asn1:"explicit,tag:0"`
	MGF     stdpkix.AlgorithmIdentifier `asn1:"explicit,tag:1"`
	SaltLen int                         `asn1:"explicit,tag:2"`
	Trailer int                         `asn1:"optional,explicit,tag:3,default:1"`
}

func nullOrAbsent(p stdasn1.RawValue) bool {
	return len(p.FullBytes) == 0 || bytes.Equal(p.FullBytes, []byte{5, 0})
}

func decodeAlg(ai stdpkix.AlgorithmIdentifier) algInfo {
	if !ai.Algorithm.Equal(oidRSAPSS) {
		for _, e := range sigOIDs {
			if ai.Algorithm.Equal(e.oid) {
				return infoOf(e.alg)
			}
		}
		return infoOf(x509.UnknownSignatureAlgorithm)
	}
	unk := infoOf(x509.UnknownSignatureAlgorithm)
	var p pssParams
	if rest, err := stdasn1.Unmarshal(ai.Parameters.FullBytes, &p); err != nil || len(rest) != 0 {
		return unk
	}
	var mgfHash stdpkix.AlgorithmIdentifier
	if rest, err := stdasn1.Unmarshal(p.MGF.Parameters.FullBytes, &mgfHash); err != nil || len(rest) != 0 {
		return unk
	}
	if !p.MGF.Algorithm.Equal(oidMGF1) || !mgfHash.Algorithm.Equal(p.Hash.Algorithm) || p.Trailer != 1 ||
		!nullOrAbsent(p.Hash.Parameters) || !nullOrAbsent(mgfHash.Parameters) {
		return unk
	}
	for _, a := range []x509.SignatureAlgorithm{x509.SHA256WithRSAPSS, x509.SHA384WithRSAPSS, x509.SHA512WithRSAPSS} {
		i := infoOf(a)
		if p.Hash.Algorithm.Equal(hashOID[i.hash]) && p.SaltLen == i.hash.Size() {
			return i
		}
	}
	return unk
}

// tbsCertHead: the leading fields of TBSCertificate (RFC 5280 §4.1), enough to
// reach the inner "signature" AlgorithmIdentifier.
type tbsCertHead struct {
	Version int `asn1:"optional,explicit,default:0,tag:0"`
	Serial  *big.Int
	Alg     stdasn1.RawValue
}

// oracleObj: is der a container whose signature is valid under key k, judged
// by encoding/asn1 + the standard library primitives only? For certificates
// (innerAlg) the claimed algorithm may be read from the outer signatureAlgorithm
// or from the signed tbsCertificate.signature: RFC 5280 requires them to be
// equal, the property statement does not say which one a verifier must use,
// so a signature valid under either reading counts as valid (note tells which).
func oracleObj(der []byte, a *api, k *pkey) (valid bool, alg algInfo, so *signedOuter, why string) {
	so, err := extractSigned(der, a.isOCSP)
	if err != nil {
		return false, algInfo{}, nil, "independent decoder: " + err.Error()
	}
	alg = decodeAlg(so.Alg)
	if so.Sig.BitLength%8 != 0 {
		return false, alg, so, "signature BIT STRING is not a whole number of octets"
	}
	if a.delegated {
		// RFC 6960 §4.2.2.2: the response is signed by the responder certificate embedded in it, which
		// must itself be signed by the issuer. k is the responder's key; the embedded certificate is
		// judged like any certificate, under the issuer's key.
		if len(so.Certs) == 0 {
			return false, alg, so, "no embedded responder certificate"
		}
		if cv, _, _, cwhy := oracleObj(so.Certs[0], &api{innerAlg: true}, ocspIssuerKey()); !cv {
			return false, alg, so, "embedded responder certificate: " + cwhy
		}
	}
	if strict(k, alg, so.TBS.FullBytes, so.Sig.Bytes) {
		return true, alg, so, ""
	}
	if a.innerAlg {
		var h tbsCertHead
		var ai stdpkix.AlgorithmIdentifier
		if _, err := stdasn1.Unmarshal(so.TBS.FullBytes, &h); err == nil {
			if rest, err := stdasn1.Unmarshal(h.Alg.FullBytes, &ai); err == nil && len(rest) == 0 {
				inner := decodeAlg(ai)
				if strict(k, inner, so.TBS.FullBytes, so.Sig.Bytes) {
					return true, inner, so, "inner"
				}
			}
		}
	}
	return false, alg, so, "stdlib: not a valid " + alg.name + " signature by " + k.name + " over the to-be-signed bytes"
}

// whatIsIt names the algorithm under which (tbs,sig) does verify, if any.
func whatIsIt(k *pkey, so *signedOuter) string {
	if so == nil {
		return ""
	}
	var hits []string
	for _, a := range allAlgs {
		if a.usable && a.fam == k.fam && primitive(k, a, so.TBS.FullBytes, so.Sig.Bytes) {
			hits = append(hits, a.name)
		}
	}
	if len(hits) == 0 {
		return "the signature value verifies under no algorithm of the key's family"
	}
	return "the signature value is a valid " + strings.Join(hits, "/") + " signature"
}

// ---------------------------------------------------------------------------

const ocspIssuerName = "ed-c03-ocsp-issuer"

var (
	ocspIssuerOnce sync.Once
	ocspIssuerCA   *fx.Cert
	ocspIssuerPK   *pkey
	responderMu    sync.Mutex
	responders     = map[string]*fx.Cert{}
)

func ocspIssuer() *fx.Cert {
	ocspIssuerOnce.Do(func() {
		ocspIssuerCA = caFor(ocspIssuerName)
		ocspIssuerPK = loadKey(ocspIssuerName)
	})
	return ocspIssuerCA
}

func ocspIssuerKey() *pkey { ocspIssuer(); return ocspIssuerPK }

// responderFor: a delegated OCSP responder certificate for the signer's key, issued by ocspIssuer.
func responderFor(name string) *fx.Cert {
	responderMu.Lock()
	defer responderMu.Unlock()
	if r, ok := responders[name]; ok {
		return r
	}
	r := fx.MustMint(fx.CertSpec{CN: "C03 OCSP responder " + name, Key: name, Serial: 0x0c5,
		EKU: []x509.ExtKeyUsage{x509.ExtKeyUsageOcspSigning}, KeyUsage: x509.KeyUsageDigitalSignature}, ocspIssuer())
	responders[name] = r
	return r
}

type api struct {
	name      string
	verifier  string
	isOCSP    bool
	delegated bool // OCSP response signed by an embedded responder certificate; the verifier is given the ISSUER
	innerAlg bool // the verifier may read the algorithm from inside the signed bytes (tbsCertificate.signature)
	takesAlg bool
	create   func(s *signer, a x509.SignatureAlgorithm) ([]byte, error)
	// verify = the object's own parse + verification API. stage: "parse" or "verify".
	verify func(der []byte, parent *x509.Certificate) (stage string, err error)
}

var (
	tThis = fx.T0.Add(-time.Hour)
	tNext = fx.T0.Add(24 * time.Hour)
)

func apis() []api {
	leafPub := fx.Ed("c03-leaf").Public()
	return []api{
		{name: "CreateCertificate", verifier: "Certificate.CheckSignatureFrom", takesAlg: true, innerAlg: true,
			create: func(s *signer, a x509.SignatureAlgorithm) ([]byte, error) {
				t := &x509.Certificate{SerialNumber: big.NewInt(0xc03), Subject: zpkix.Name{CommonName: "c03 leaf"},
					NotBefore: tThis, NotAfter: tNext, DNSNames: []string{"leaf.example"}, SignatureAlgorithm: a}
				return x509.CreateCertificate(s.rand("cert"), t, s.parent.X, leafPub, s.priv)
			},
			verify: func(der []byte, parent *x509.Certificate) (string, error) {
				x, err := x509.ParseCertificate(der)
				if err != nil {
					return "parse", err
				}
				return "verify", x.CheckSignatureFrom(parent)
			}},
		{name: "CreateCertificateRequest", verifier: "CertificateRequest.CheckSignature", takesAlg: true,
			create: func(s *signer, a x509.SignatureAlgorithm) ([]byte, error) {
				t := &x509.CertificateRequest{Subject: zpkix.Name{CommonName: "c03 csr"}, DNSNames: []string{"csr.example"}, SignatureAlgorithm: a}
				return x509.CreateCertificateRequest(s.rand("csr"), t, s.priv)
			},
			verify: func(der []byte, _ *x509.Certificate) (string, error) {
				x, err := x509.ParseCertificateRequest(der)
				if err != nil {
					return "parse", err
				}
				return "verify", x.CheckSignature()
			}},
		{name: "Certificate.CreateCRL", verifier: "Certificate.CheckCRLSignature", takesAlg: false,
			create: func(s *signer, _ x509.SignatureAlgorithm) ([]byte, error) {
				rev := []zpkix.RevokedCertificate{{SerialNumber: big.NewInt(7), RevocationTime: tThis}}
				return s.parent.X.CreateCRL(s.rand("crl"), s.priv, rev, tThis, tNext)
			},
			verify: func(der []byte, parent *x509.Certificate) (string, error) {
				l, err := x509.ParseDERCRL(der)
				if err != nil {
					return "parse", err
				}
				return "verify", parent.CheckCRLSignature(l)
			}},
		{name: "CreateRevocationList", verifier: "RevocationList.CheckSignatureFrom", takesAlg: true,
			create: func(s *signer, a x509.SignatureAlgorithm) ([]byte, error) {
				t := &x509.RevocationList{SignatureAlgorithm: a, Number: big.NewInt(3), ThisUpdate: tThis, NextUpdate: tNext,
					RevokedCertificates: []x509.RevokedCertificate{{SerialNumber: big.NewInt(7), RevocationTime: tThis}}}
				return x509.CreateRevocationList(s.rand("rl"), t, s.parent.X, s.priv)
			},
			verify: func(der []byte, parent *x509.Certificate) (string, error) {
				l, err := x509.ParseRevocationList(der)
				if err != nil {
					return "parse", err
				}
				return "verify", l.CheckSignatureFrom(parent)
			}},
		{name: "ocsp.CreateResponse", verifier: "ocsp.ParseResponse(issuer)", isOCSP: true, takesAlg: true,
			create: func(s *signer, a x509.SignatureAlgorithm) ([]byte, error) {
				t := ocsp.Response{Status: ocsp.Good, SerialNumber: big.NewInt(0xc03), ThisUpdate: tThis, NextUpdate: tNext, SignatureAlgorithm: a}
				return ocsp.CreateResponse(s.parent.X, s.parent.X, t, s.priv)
			},
			verify: func(der []byte, parent *x509.Certificate) (string, error) {
				_, err := ocsp.ParseResponse(der, parent)
				if err != nil && strings.Contains(err.Error(), "bad OCSP signature") {
					return "verify", err
				}
				return "parse", err
			}},
		{name: "ocsp.CreateResponse(delegated responder)", verifier: "ocsp.ParseResponse(issuer) with embedded responder certificate", isOCSP: true, delegated: true, takesAlg: true,
			create: func(s *signer, a x509.SignatureAlgorithm) ([]byte, error) {
				if s.key == nil {
					return nil, errors.New("harness: no responder certificate for this signer kind")
				}
				r := responderFor(s.name)
				t := ocsp.Response{Status: ocsp.Good, SerialNumber: big.NewInt(0xc03), ThisUpdate: tThis, NextUpdate: tNext, SignatureAlgorithm: a, Certificate: r.X}
				return ocsp.CreateResponse(ocspIssuer().X, r.X, t, s.priv)
			},
			verify: func(der []byte, issuer *x509.Certificate) (string, error) {
				r, err := ocsp.ParseResponse(der, issuer)
				if err != nil && (strings.Contains(err.Error(), "bad OCSP signature") || strings.Contains(err.Error(), "bad signature on embedded certificate")) {
					return "verify", err
				}
				if err == nil && r.Certificate == nil {
					return "verify", errors.New("harness: the response was accepted without its embedded responder certificate")
				}
				return "parse", err
			}},
	}
}

// parentOf: the certificate handed to the object's verification API.
func (a *api) parentOf(s *signer) *fx.Cert {
	if a.delegated {
		return ocspIssuer()
	}
	return s.parent
}

type object struct {
	api   *api
	s     *signer
	par   *fx.Cert // what the verification API is given (issuer)
	alg   algInfo // requested
	enc   algInfo // encoded in the created object (independent decoder)
	der   []byte
	tbsLo int
	tbsHi int // [tbsLo,tbsHi) signed bytes
	algHi int // [tbsHi,algHi) algorithm identifier
	sigHi int // [algHi,sigHi) signature BIT STRING
}

func (o *object) region(off int) string {
	switch {
	case off < o.tbsLo:
		return "wrapper before the signed bytes"
	case off < o.tbsHi:
		return "signed bytes"
	case off < o.algHi:
		return "signatureAlgorithm"
	case off < o.sigHi:
		return "signature"
	}
	return "after the signature"
}

func errClass(err error) string {
	if err == nil {
		return "accept"
	}
	s := ev.MsgClass(err.Error())
	if len(s) > 70 {
		s = s[:70]
	}
	return s
}

func (o *object) witness(der []byte, off int, oldB, newB byte, z, orc, detail string) objWitness {
	w := objWitness{Part: "obj", API: o.api.name, Signer: o.s.name + " [" + o.s.kind + "]", Alg: int(o.alg.alg), AlgName: o.alg.name,
		DERHex: hex.EncodeToString(der), Offset: off, ParentHex: hex.EncodeToString(o.par.DER), Zcrypto: z, Oracle: orc, Detail: detail}
	if off >= 0 {
		w.Old, w.New, w.Region = fmt.Sprintf("%02x", oldB), fmt.Sprintf("%02x", newB), o.region(off)
	}
	return w
}

// zobj runs the object's own API under recover.
func zobj(a *api, der []byte, parent *x509.Certificate) (stage string, err error, pan string) {
	p, m, site := ev.Try(func() { stage, err = a.verify(der, parent) })
	if p {
		return "panic", errors.New("panic"), "panic@" + site + ": " + ev.MsgClass(m)
	}
	return stage, err, ""
}

func subValues(c *ev.Ctx, b byte) []byte {
	cand := []byte{0x00, 0xff, b ^ 0x01, b ^ 0x80}
	if !c.Quick() {
		cand = append(cand, 0x01, 0x7f, 0x80, b^0x02, b^0x04, b^0x08, b^0x10, b^0x20, b^0x40)
	}
	var out []byte
	seen := map[byte]bool{b: true}
	for _, v := range cand {
		if !seen[v] {
			seen[v] = true
			out = append(out, v)
		}
	}
	return out
}

type objStats struct {
	h       ev.Hist
	trans   int64
	evals   int64
	muts    int64
	nontriv int64
	benign  int64

	outerIgnored int64
	outerSample  *objWitness
	dead         map[string]int
}

// judgeObj evaluates one (possibly mutated) encoding of an object.
func judgeObj(c *ev.Ctx, st *objStats, o *object, der []byte, off int, oldB, newB byte) {
	stage, err, pan := zobj(o.api, der, o.par.X)
	st.trans++
	if pan != "" {
		// the statement knows "verifies" and "fails"; a panic of the parse+verify API is neither.
		st.h["VIOLATION: obj-mutant: panic"]++
		violObj(c, fmt.Sprintf("obj %s: %s on a 1-byte substitution", o.api.name, pan), o.witness(append([]byte{}, der...), off, oldB, newB, "panic", "", ""))
		return
	}
	if err != nil {
		if stage == "verify" {
			st.nontriv++
			st.h["obj-mutant: parsed, own verification rejects"]++
		} else {
			st.h["obj-mutant: does not parse"]++
		}
		return
	}
	st.nontriv++
	valid, alg, _, why := oracleObj(der, o.api, o.s.key)
	st.evals++
	reg := o.region(off)
	if valid {
		st.benign++
		switch reg {
		case "signed bytes", "signature":
			// cannot happen unless the independent decoder reads other bytes than zcrypto; say so loudly.
			violObj(c, fmt.Sprintf("obj %s: substitution inside the %s still verifies for zcrypto AND for the standard library (check the harness)", o.api.name, reg),
				o.witness(der, off, oldB, newB, "accept", "accept", ""))
		case "signatureAlgorithm":
			if alg.alg != o.enc.alg {
				violObj(c, fmt.Sprintf("obj %s: after a substitution in the signatureAlgorithm the signature verifies under ANOTHER algorithm than the one it was made with", o.api.name),
					o.witness(append([]byte{}, der...), off, oldB, newB, "accept", "accept under "+alg.name, "object signed with "+o.enc.name))
				return
			}
			if why == "inner" {
				st.outerIgnored++
				st.h["obj-mutant accepted: outer Certificate.signatureAlgorithm changed, the signed tbsCertificate.signature ("+alg.scheme()+") is what zcrypto verifies under and stdlib agrees under that reading (RFC 5280 §4.1.1.2 says they MUST match; statement silent)"]++
				if st.outerSample == nil {
					w := o.witness(der, off, oldB, newB, "accept", "valid under the inner algorithm only", "")
					st.outerSample = &w
				}
				return
			}
			st.h["obj-mutant accepted, still a valid "+alg.scheme()+" signature per stdlib: byte of the AlgorithmIdentifier that does not change the algorithm (parameters)"]++
		default:
			st.h["obj-mutant accepted, still valid per stdlib: dead byte "+reg]++
			if st.dead == nil {
				st.dead = map[string]int{}
			}
			st.dead[fmt.Sprintf("%s offset %d of %d: %02x->%02x", o.api.name, off, len(der), oldB, newB)]++
		}
		return
	}
	violObj(c, fmt.Sprintf("obj %s: 1-byte substitution in the %s still parses and verifies with %s; the standard library rejects", o.api.name, reg, o.api.verifier),
		o.witness(der, off, oldB, newB, "accept", "reject", "object signed with "+o.enc.name+"; "+why))
}

func runObj(c *ev.Ctx) {
	signers := buildSigners(c)
	as := apis()
	algs := append([]algInfo{}, allAlgs...)
	algs = append(algs, algInfo{alg: x509.SignatureAlgorithm(len(allAlgs)), name: fmt.Sprintf("out-of-range(%d)", len(allAlgs))})

	var objs []*object
	accepted := map[string][]string{}
	var created, refused int64
	for ai := range as {
		a := &as[ai]
		for _, s := range signers {
			for _, al := range algs {
				if !a.takesAlg && al.alg != 0 {
					continue
				}
				var der []byte
				var err error
				p, m, site := ev.Try(func() { der, err = a.create(s, al.alg) })
				c.Transitions.Add(1)
				if p {
					c.Outcome("VIOLATION: create: panic", 1)
					violObj(c, fmt.Sprintf("obj %s: panic@%s: %s while creating", a.name, site, ev.MsgClass(m)),
						objWitness{Part: "obj", API: a.name, Signer: s.name + " [" + s.kind + "]", Alg: int(al.alg), AlgName: al.name, Offset: -1, Zcrypto: "panic", Detail: m})
					continue
				}
				if err != nil {
					refused++
					c.Outcome("create refused: "+errClass(err), 1)
					continue
				}
				created++
				c.Outcome("create accepted: "+a.name, 1)
				accepted[a.name] = append(accepted[a.name], s.name+"["+s.kind+"]/"+al.name)
				o := &object{api: a, s: s, alg: al, der: der, par: a.parentOf(s)}
				if s.key == nil {
					// The API took a key type it documents as unsupported ("only RSA, ECDSA, Ed25519 ... keys
					// supported") and for which no issuer certificate can exist in this harness: the object
					// cannot be judged. 0 occurrences on the unchanged tree; must be looked at when it changes.
					violObj(c, fmt.Sprintf("obj %s: accepted a signer of kind %s, which the API documents as unsupported; no verification API can be exercised for it", a.name, s.kind),
						objWitness{Part: "obj", API: a.name, Signer: s.name + " [" + s.kind + "]", Alg: int(al.alg), AlgName: al.name, DERHex: hex.EncodeToString(der), Offset: -1})
					continue
				}
				// the object's own verification API must accept what the API produced.
				stage, verr, pan := zobj(a, der, o.par.X)
				c.Transitions.Add(1)
				valid, encAlg, so, why := oracleObj(der, a, s.key)
				if valid && why == "inner" {
					valid, why = false, "outer signatureAlgorithm of the freshly created certificate is not the algorithm the signature verifies under"
				}
				c.Evaluations.Add(1)
				keyClass := s.key.fam.String()
				reqClass := al.scheme()
				if al.alg == 0 {
					reqClass = "default(0)"
				}
				if pan != "" || verr != nil {
					detail := fmt.Sprintf("%s said: %v (stage %s). Encoded algorithm: %s. Standard library: %s; %s.", a.verifier, verr, stage, encAlg.name, map[bool]string{true: "valid", false: why}[valid], whatIsIt(s.key, so))
					violObj(c, fmt.Sprintf("obj %s: accepts SignatureAlgorithm class %s for a %s key but the result does not verify with %s: %s",
						a.name, reqClass, keyClass, a.verifier, errClass(verr)+pan), o.witness(der, -1, 0, 0, errClass(verr)+pan, boolS(valid), detail))
					c.Outcome("create→verify: own API REJECTS", 1)
					continue
				}
				if !valid {
					violObj(c, fmt.Sprintf("obj %s: object created with class %s for a %s key verifies with %s but is not a valid signature per the standard library",
						a.name, reqClass, keyClass, a.verifier), o.witness(der, -1, 0, 0, "accept", "reject", why+"; "+whatIsIt(s.key, so)))
					continue
				}
				if al.alg != 0 && encAlg.alg != al.alg {
					violObj(c, fmt.Sprintf("obj %s: requested class %s but the object encodes another algorithm", a.name, reqClass),
						o.witness(der, -1, 0, 0, "accept", "accept", "encoded "+encAlg.name))
					continue
				}
				o.enc = encAlg
				c.Outcome("create→verify: own API accepts, stdlib agrees", 1)
				lo := bytes.Index(der, so.TBS.FullBytes)
				if lo < 0 {
					c.Broken("cannot locate signed bytes in %s", a.name)
				}
				o.tbsLo, o.tbsHi = lo, lo+len(so.TBS.FullBytes)
				o.algHi = o.tbsHi + len(so.AlgRaw.FullBytes)
				sb, _ := stdasn1.Marshal(so.Sig)
				o.sigHi = o.algHi + len(sb)
				if c.Quick() && a.delegated && al.alg != 0 {
					// quick tier: delegated OCSP responses are swept for the default algorithm of every signer
					// (creation and self-verification above cover every algorithm).
					c.Outcome("create→verify ok, substitution sweep left to the thorough tier (delegated OCSP, non-default algorithm)", 1)
					continue
				}
				if c.Quick() && s.key.fam == famECDSA && s.key.bits != 256 && al.alg != 0 {
					// quick tier: P-224/P-384/P-521 objects are swept for the default algorithm only
					// (creation and self-verification above cover every algorithm); P-256 is swept for all.
					c.Outcome("create→verify ok, substitution sweep left to the thorough tier (slow curve, non-default algorithm)", 1)
					continue
				}
				objs = append(objs, o)
			}
		}
	}
	c.Set("obj_accepted_combinations", accepted)
	c.Set("obj", map[string]any{"apis": len(as), "signers": len(signers), "algorithm_values": len(algs), "created": created, "refused": refused, "swept_objects": len(objs)})
	if len(objs) > 0 {
		o := objs[len(objs)/3]
		c.Sample(map[string]any{"part": "obj", "api": o.api.name, "signer": o.s.name, "alg": o.alg.name, "der_len": len(o.der),
			"signed_bytes": []int{o.tbsLo, o.tbsHi}, "algorithm": []int{o.tbsHi, o.algHi}, "signature": []int{o.algHi, o.sigHi}})
	}

	type job struct{ oi, lo, hi int }
	var jobs []job
	const chunk = 48
	for oi, o := range objs {
		for lo := 0; lo < len(o.der); lo += chunk {
			hi := lo + chunk
			if hi > len(o.der) {
				hi = len(o.der)
			}
			jobs = append(jobs, job{oi, lo, hi})
		}
	}
	W := c.Workers()
	stats := make([]*objStats, W)
	for i := range stats {
		stats[i] = &objStats{h: ev.Hist{}}
	}
	done := c.Parallel(len(jobs), func(w, i int) {
		j := jobs[i]
		o := objs[j.oi]
		st := stats[w]
		buf := append([]byte{}, o.der...)
		for off := j.lo; off < j.hi; off++ {
			old := buf[off]
			for _, v := range subValues(c, old) {
				buf[off] = v
				judgeObj(c, st, o, buf, off, old, v)
				st.muts++
			}
			buf[off] = old
		}
	})
	if !done {
		c.Incomplete("part 2: time budget hit before all one-byte substitutions were evaluated")
	}
	var muts, benign, outerIgnored int64
	dead := map[string]int{}
	defer func() { c.Set("obj_dead_bytes_by_position", dead) }()
	for _, s := range stats {
		for k, v := range s.dead {
			dead[k] += v
		}
		outerIgnored += s.outerIgnored
		if s.outerSample != nil {
			c.Set("observation_outer_certificate_signatureAlgorithm_ignored_sample", s.outerSample)
		}
		c.Merge(s.h)
		c.Transitions.Add(s.trans)
		c.Traces.Add(s.trans)
		c.Evaluations.Add(s.evals)
		c.Distinct.Add(s.nontriv)
		c.States.Add(s.muts)
		muts += s.muts
		benign += s.benign
	}
	c.States.Add(created)
	c.Add("obj_substitutions", muts)
	c.Add("observation_outer_certificate_signatureAlgorithm_ignored", outerIgnored)
	c.Add("obj_substitutions_accepted_but_still_valid_per_stdlib", benign)
}

func violObj(c *ev.Ctx, sig string, w objWitness) {
	w.Class = sig
	c.Violation(sig, w)
}
