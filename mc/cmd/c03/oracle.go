package main

// The independent side of C03: key fixtures in standard-library form, an
// algorithm table transcribed from RFC 3279 / 4055 / 5758 / 8410, genuine
// signing with the Go standard library and the reference verdict
// ("is this (key, algorithm, bytes, signature) a valid signature?").
//
// Nothing in this file calls zcrypto's verification or signing code.

import (
	"bytes"
	"crypto"
	stddsa "crypto/dsa"
	"crypto/ecdsa"
	"crypto/ed25519"
	_ "crypto/md5"
	stdrsa "crypto/rsa"
	_ "crypto/sha1"
	_ "crypto/sha256"
	_ "crypto/sha512"
	"crypto/x509/pkix"
	stdasn1 "encoding/asn1"
	"errors"
	"fmt"
	"hash"
	"io"
	"math/big"
	"strings"

	"golang.org/x/crypto/cryptobyte"
	cbasn1 "golang.org/x/crypto/cryptobyte/asn1"

	zdsa "github.com/zmap/zcrypto/dsa"
	zrsa "github.com/zmap/zcrypto/rsa"
	"github.com/zmap/zcrypto/x509"
	"verifmc/internal/fx"
)

type family int

const (
	famNone family = iota
	famRSA
	famDSA
	famECDSA
	famEd
)

func (f family) String() string {
	return [...]string{"none", "RSA", "DSA", "ECDSA", "Ed25519"}[f]
}

// algInfo is what the RFCs say a signature algorithm identifier means.
type algInfo struct {
	alg    x509.SignatureAlgorithm
	name   string
	fam    family
	hash   crypto.Hash // 0 = the message itself is signed (Ed25519)
	pss    bool
	usable bool // false: Unknown and MD2 (no MD2 in Go; zcrypto documents both as always rejected)
}

// allAlgs lists every x509.SignatureAlgorithm constant, in declaration order.
var allAlgs = []algInfo{
	{x509.UnknownSignatureAlgorithm, "Unknown(0)", famNone, 0, false, false},
	{x509.MD2WithRSA, "MD2-RSA", famRSA, 0, false, false},
	{x509.MD5WithRSA, "MD5-RSA", famRSA, crypto.MD5, false, true},
	{x509.SHA1WithRSA, "SHA1-RSA", famRSA, crypto.SHA1, false, true},
	{x509.SHA256WithRSA, "SHA256-RSA", famRSA, crypto.SHA256, false, true},
	{x509.SHA384WithRSA, "SHA384-RSA", famRSA, crypto.SHA384, false, true},
	{x509.SHA512WithRSA, "SHA512-RSA", famRSA, crypto.SHA512, false, true},
	{x509.DSAWithSHA1, "DSA-SHA1", famDSA, crypto.SHA1, false, true},
	{x509.DSAWithSHA256, "DSA-SHA256", famDSA, crypto.SHA256, false, true},
	{x509.ECDSAWithSHA1, "ECDSA-SHA1", famECDSA, crypto.SHA1, false, true},
	{x509.ECDSAWithSHA256, "ECDSA-SHA256", famECDSA, crypto.SHA256, false, true},
	{x509.ECDSAWithSHA384, "ECDSA-SHA384", famECDSA, crypto.SHA384, false, true},
	{x509.ECDSAWithSHA512, "ECDSA-SHA512", famECDSA, crypto.SHA512, false, true},
	{x509.SHA256WithRSAPSS, "SHA256-RSAPSS", famRSA, crypto.SHA256, true, true},
	{x509.SHA384WithRSAPSS, "SHA384-RSAPSS", famRSA, crypto.SHA384, true, true},
	{x509.SHA512WithRSAPSS, "SHA512-RSAPSS", famRSA, crypto.SHA512, true, true},
	{x509.Ed25519Sig, "Ed25519", famEd, 0, false, true},
}

func infoOf(a x509.SignatureAlgorithm) algInfo {
	for _, i := range allAlgs {
		if i.alg == a {
			return i
		}
	}
	return algInfo{alg: a, name: fmt.Sprintf("alg(%d)", int(a))}
}

// scheme is the coarse class used in violation signatures.
func (i algInfo) scheme() string {
	switch {
	case !i.usable:
		return "unsupported"
	case i.fam == famRSA && i.pss:
		return "RSA-PSS"
	case i.fam == famRSA:
		return "RSA-PKCS1v15"
	}
	return i.fam.String()
}

// pkey is one key fixture in every form needed.
type pkey struct {
	name string
	fam  family
	bits int
	zpub any // the form zcrypto's CheckSignatureFromKey understands

	stdRSA *stdrsa.PrivateKey // nil when the exponent does not fit crypto/rsa
	ref    *refRSA            // math/big RSA (always set for RSA keys)
	ec     *ecdsa.PrivateKey
	ed     ed25519.PrivateKey
	dsa    *stddsa.PrivateKey
}

// dsa2048q224: a (L=2048, N=224) DSA key, generated once with crypto/dsa
// (GenerateParameters L2048N224 + GenerateKey) from a SHA-256 counter stream
// seeded "c03-dsa2048q224"; it exists for the digest truncation of FIPS 186-4
// §4.6 with a q that is shorter than SHA-256 and not 160 bits.
var dsa2048q224 = [5]string{
	"e0f81acf89aa4d5cc0a029a921e8ecb166312b68c12f36a9db46ed61043464953a574f86cf32e32861d09ae7f8d59f7d2ec4a2e5d978c42dcd072cc6c941ac37460ec46e9c6940761664041ddee29bf321c43bb9bd521531355e4a37f4e1789a2f3d1872eb9f3c8490af8be588ed43e0144b593bd0647de163be741c5518349de51fd74b043cf66c2222afece527c5981e8e40926de5d06c14f5a06fc233f5b59bcbf5df6ac6c7cfbca293aeb6a18e58e31b4d5d857377d08219f6189c7854a5f6e80a2183f42c6dc59d3cfa4ca7c0198b45b81733ddec806bc193eef97a2155f42d0082b5f72b45384999982a9e81bce519c1c3751bcee7a712ff91047ba21d",
	"cf0a6fecc639a497078368f1c5ef545ea0b9de2c9aa3dd38452b3647",
	"d96add4583826ce64f58027c14b7de0db1e3bc75cbcb4727a5fa523ad7f1153a5b5fa13b67add1fb0c92554bb60fa8ed065d131682a11c08c895706806d70f96f99cf2dc7ab0e5d5eabfec3a99fb6f9e551f059b53a49744816cc031572dc06988c41958312fd639a596ef7bdf450eb6cc5591e341a420b52c411cc2d2312f8469b33bf0e6476d35bff9c33973b7e598cd55f09ae976c89d5a392ac797976b0e591dce0fed0980f50cc41c1de2a519311666c8a0a06dba012c80af6ac9a513785ce1e610ae818c213aa1f56952929c0d88a2dcdebe0b569976c85770f06e7febbf90a04c88a8cb797b834306618de1f4ba9fa3ec4a7265dfb0247f7350c971a8",
	"91f1ae9958d586790792e1e41f39cf5ddf8137fe8ce302bbcd5af36e5939efe375eb189e8217b94de34a927dc2bd1cc7c5a8836548c54e3bee165a39f7138bbf3714a853f13a05b43b5e766845d06a98844be6ba2e48b7b70b9b000f10f28b9adcdf797bd4ee2b53717812d49dc8009bde2500b64c150bc483b125c477e4bb2fa08ed565f61bda9114105c94e0c8c1d3978bf1456579fbabe828eafa1b6491efb83a5a465b80e671708e87a109b87ebada1a07dc72f423008350bd8ef84f3b1637ac8e1a987be04f2e84bb88e3494b0a95c6ef7118ecdeebe66dc9cea07b94c2f3776a1ea14948a88bc61f9741a0ac37a2a7092a4437562bde50d489d52791af",
	"5b688c2dcefe21c7979fb92104dab70359a0d1caecadfd353c696d66",
}

func hexInt(s string) *big.Int {
	x, ok := new(big.Int).SetString(s, 16)
	if !ok {
		panic("bad hex constant")
	}
	return x
}

func dsaKey(name string, p, q, g, y, x *big.Int) *pkey {
	k := &pkey{name: name, fam: famDSA, bits: p.BitLen(),
		zpub: &zdsa.PublicKey{Parameters: zdsa.Parameters{P: p, Q: q, G: g}, Y: y}}
	k.dsa = &stddsa.PrivateKey{PublicKey: stddsa.PublicKey{Parameters: stddsa.Parameters{P: p, Q: q, G: g}, Y: y}, X: x}
	return k
}

// loadKey resolves a fixture name. Derived names:
//
//	<ec>aug        the same EC key handed over as *x509.AugmentedECDSA, the form
//	               every PARSED certificate/CSR carries (its own branch of CheckSignatureFromKey)
//	nm-e:<rsa>     near miss: same modulus, public exponent e+2 (verification only)
//	nm-negy:<ec>   near miss: the point (x, p-y), also on the curve (verification only)
//	nm-y:<dsa>     near miss: same (p,q,g), y' = y*g mod p (verification only)
//	rsadet<bits>   two-prime RSA key, e = 65537, modulus of exactly <bits> bits, found by a
//	               deterministic prime search from fx.NewRand (detkey.go)
func loadKey(name string) *pkey {
	switch {
	case strings.HasSuffix(name, "aug") && name[0] == 'p':
		k := loadKey(strings.TrimSuffix(name, "aug"))
		k.name = name
		k.zpub = &x509.AugmentedECDSA{Pub: &k.ec.PublicKey}
		return k
	case strings.HasPrefix(name, "nm-e:"):
		b := loadKey(name[5:])
		e := new(big.Int).Add(b.ref.e, big.NewInt(2))
		return &pkey{name: name, fam: famRSA, bits: b.bits, zpub: &zrsa.PublicKey{N: b.ref.n, E: e},
			ref: &refRSA{n: b.ref.n, e: e, k: b.ref.k}}
	case strings.HasPrefix(name, "nm-negy:"):
		b := loadKey(name[8:])
		pub := ecdsa.PublicKey{Curve: b.ec.Curve, X: b.ec.X, Y: new(big.Int).Sub(b.ec.Curve.Params().P, b.ec.Y)}
		k := &pkey{name: name, fam: famECDSA, bits: b.bits, ec: &ecdsa.PrivateKey{PublicKey: pub}}
		k.zpub = &k.ec.PublicKey
		return k
	case strings.HasPrefix(name, "nm-y:"):
		b := loadKey(name[5:])
		y := new(big.Int).Mul(b.dsa.Y, b.dsa.G)
		y.Mod(y, b.dsa.P)
		return dsaKey(name, b.dsa.P, b.dsa.Q, b.dsa.G, y, nil)
	case name == "dsa2048q224":
		c := dsa2048q224
		return dsaKey(name, hexInt(c[0]), hexInt(c[1]), hexInt(c[2]), hexInt(c[3]), hexInt(c[4]))
	}
	switch {
	case strings.HasPrefix(name, "rsadet"):
		return detKeyRSA(name)
	case len(name) >= 3 && name[:3] == "rsa":
		z := fx.ZRSA(name)
		k := &pkey{name: name, fam: famRSA, bits: z.N.BitLen(), zpub: &z.PublicKey}
		k.stdRSA = fx.StdRSA(name)
		k.ref = &refRSA{n: z.N, e: z.E, d: z.D, k: (z.N.BitLen() + 7) / 8}
		return k
	case len(name) >= 3 && name[:3] == "dsa":
		z := fx.DSA(name)
		k := &pkey{name: name, fam: famDSA, bits: z.P.BitLen(), zpub: &z.PublicKey}
		k.dsa = &stddsa.PrivateKey{PublicKey: stddsa.PublicKey{
			Parameters: stddsa.Parameters{P: z.P, Q: z.Q, G: z.G}, Y: z.Y}, X: z.X}
		return k
	case name[0] == 'p':
		e := fx.EC(name)
		return &pkey{name: name, fam: famECDSA, bits: e.Curve.Params().BitSize, zpub: &e.PublicKey, ec: e}
	}
	e := fx.Ed(name)
	return &pkey{name: name, fam: famEd, bits: 256, zpub: e.Public().(ed25519.PublicKey), ed: e}
}

func digestOf(h crypto.Hash, msg []byte) []byte {
	if h == 0 {
		return msg
	}
	d := h.New()
	d.Write(msg)
	return d.Sum(nil)
}

// dsaZ is FIPS 186-4 §4.6: z = the leftmost min(N, outlen) bits of Hash(M);
// crypto/dsa leaves that truncation to its caller.
func dsaZ(q *big.Int, digest []byte) []byte {
	n := q.BitLen() / 8
	if len(digest) > n {
		return digest[:n]
	}
	return digest
}

// constReader returns the same byte forever: crypto/dsa.Sign may or may not
// consume one extra byte first (randutil.MaybeReadByte), a constant stream
// makes the nonce - and so the fixture signature - independent of that.
type constReader byte

func (c constReader) Read(p []byte) (int, error) {
	for i := range p {
		p[i] = byte(c)
	}
	return len(p), nil
}

type rsSig struct{ R, S *big.Int }

var errIncompatible = errors.New("incompatible")

// genuine signs msg with key k under algorithm i using the standard library
// (math/big RSA from RFC 8017 only for the exponent crypto/rsa cannot hold).
func genuine(k *pkey, i algInfo, msg []byte, seed string) ([]byte, error) {
	if !i.usable || i.fam != k.fam {
		return nil, errIncompatible
	}
	dg := digestOf(i.hash, msg)
	switch k.fam {
	case famRSA:
		if k.stdRSA != nil {
			if i.pss {
				return stdrsa.SignPSS(fx.NewRand("pss-"+seed), k.stdRSA, i.hash, dg,
					&stdrsa.PSSOptions{SaltLength: stdrsa.PSSSaltLengthEqualsHash})
			}
			return stdrsa.SignPKCS1v15(nil, k.stdRSA, i.hash, dg)
		}
		if i.pss {
			salt := make([]byte, i.hash.Size())
			io.ReadFull(fx.NewRand("pss-"+seed), salt)
			return k.ref.signPSS(i.hash, dg, salt)
		}
		return k.ref.signPKCS1(i.hash, dg)
	case famECDSA:
		return k.ec.Sign(nil, dg, i.hash) // rand=nil: deterministic RFC 6979 nonce (Go ≥ 1.24), ASN.1 DER (r,s)
	case famEd:
		return ed25519.Sign(k.ed, msg), nil
	case famDSA:
		s := fx.NewRand("dsa-" + seed)
		var b [1]byte
		s.Read(b[:])
		r, ss, err := stddsa.Sign(constReader(1+b[0]%0x7e), k.dsa, dsaZ(k.dsa.Q, dg))
		if err != nil {
			return nil, err
		}
		return stdasn1.Marshal(rsSig{r, ss})
	}
	return nil, errIncompatible
}

// primitive is the verdict of the standard library primitive of k's own key
// type on (digest under i.hash, sig), PSS iff i.pss. It ignores i.fam.
func primitive(k *pkey, i algInfo, msg, sig []byte) bool {
	if !i.usable {
		return false
	}
	if i.hash != 0 && !i.hash.Available() {
		return false
	}
	dg := digestOf(i.hash, msg)
	switch k.fam {
	case famRSA:
		if k.stdRSA != nil {
			if i.hash == 0 {
				return k.ref.verifyPKCS1(0, dg, sig)
			}
			if i.pss {
				return stdrsa.VerifyPSS(&k.stdRSA.PublicKey, i.hash, dg, sig,
					&stdrsa.PSSOptions{SaltLength: stdrsa.PSSSaltLengthEqualsHash}) == nil
			}
			return stdrsa.VerifyPKCS1v15(&k.stdRSA.PublicKey, i.hash, dg, sig) == nil
		}
		if i.pss {
			return k.ref.verifyPSS(i.hash, dg, sig)
		}
		return k.ref.verifyPKCS1(i.hash, dg, sig)
	case famECDSA:
		return ecdsa.VerifyASN1(&k.ec.PublicKey, dg, sig)
	case famEd:
		if i.hash != 0 {
			// no such thing as a pre-hashed Ed25519 X.509 signature; the lenient reading
			// below still asks the primitive on the bytes zcrypto would hand to it.
		}
		return len(sig) == ed25519.SignatureSize && ed25519.Verify(k.ed.Public().(ed25519.PublicKey), dg, sig)
	case famDSA:
		// Dss-Sig-Value ::= SEQUENCE { r INTEGER, s INTEGER } in strict DER, nothing else inside or
		// after it: the same reading crypto/ecdsa.VerifyASN1 applies to ECDSA-Sig-Value.
		var rs rsSig
		rs.R, rs.S = new(big.Int), new(big.Int)
		var inner cryptobyte.String
		input := cryptobyte.String(sig)
		if !input.ReadASN1(&inner, cbasn1.SEQUENCE) || !input.Empty() ||
			!inner.ReadASN1Integer(rs.R) || !inner.ReadASN1Integer(rs.S) || !inner.Empty() {
			return false
		}
		if rs.R.Sign() <= 0 || rs.S.Sign() <= 0 {
			return false
		}
		return stddsa.Verify(&k.dsa.PublicKey, dsaZ(k.dsa.Q, dg), rs.R, rs.S)
	}
	return false
}

// strict: the algorithm must belong to the key's family (what RFC 5280 and
// crypto/x509 demand), then the primitive decides.
func strict(k *pkey, i algInfo, msg, sig []byte) bool {
	return i.usable && i.fam == k.fam && primitive(k, i, msg, sig)
}

// ---------------------------------------------------------------------------
// RSA straight from RFC 8017 with math/big (needed for exponents ≥ 2^31 and
// to produce signatures over deliberately malformed encoded messages).

type refRSA struct {
	n, e, d *big.Int
	k       int
}

func (r *refRSA) private(em []byte) []byte {
	m := new(big.Int).SetBytes(em)
	s := new(big.Int).Exp(m, r.d, r.n)
	return s.FillBytes(make([]byte, r.k))
}

func (r *refRSA) public(sig []byte) (*big.Int, bool) {
	if len(sig) != r.k {
		return nil, false
	}
	s := new(big.Int).SetBytes(sig)
	if s.Cmp(r.n) >= 0 {
		return nil, false
	}
	return s.Exp(s, r.e, r.n), true
}

var hashOID = map[crypto.Hash]stdasn1.ObjectIdentifier{
	crypto.MD5:    {1, 2, 840, 113549, 2, 5},
	crypto.SHA1:   {1, 3, 14, 3, 2, 26},
	crypto.SHA256: {2, 16, 840, 1, 101, 3, 4, 2, 1},
	crypto.SHA384: {2, 16, 840, 1, 101, 3, 4, 2, 2},
	crypto.SHA512: {2, 16, 840, 1, 101, 3, 4, 2, 3},
}

type digestInfo struct {
	Alg    pkix.AlgorithmIdentifier
	Digest []byte
}

// digestInfoDER is T of RFC 8017 §9.2 (DigestInfo with NULL parameters).
func digestInfoDER(h crypto.Hash, dg []byte, nullParams bool) []byte {
	if h == 0 {
		return dg
	}
	ai := pkix.AlgorithmIdentifier{Algorithm: hashOID[h]}
	if nullParams {
		ai.Parameters = stdasn1.NullRawValue
	}
	b, err := stdasn1.Marshal(digestInfo{ai, dg})
	if err != nil {
		panic(err)
	}
	return b
}

// emPKCS1 is EMSA-PKCS1-v1_5: 00 01 FF…FF 00 T, at least eight FF.
func emPKCS1(t []byte, k int) ([]byte, bool) {
	if k < len(t)+11 {
		return nil, false
	}
	em := make([]byte, k)
	em[1] = 1
	for j := 2; j < k-len(t)-1; j++ {
		em[j] = 0xff
	}
	copy(em[k-len(t):], t)
	return em, true
}

func (r *refRSA) signPKCS1(h crypto.Hash, dg []byte) ([]byte, error) {
	em, ok := emPKCS1(digestInfoDER(h, dg, true), r.k)
	if !ok {
		return nil, errors.New("message too long")
	}
	return r.private(em), nil
}

func (r *refRSA) verifyPKCS1(h crypto.Hash, dg, sig []byte) bool {
	if h != 0 && len(dg) != h.Size() {
		return false
	}
	m, ok := r.public(sig)
	if !ok {
		return false
	}
	em, ok := emPKCS1(digestInfoDER(h, dg, true), r.k)
	if !ok {
		return false
	}
	return bytes.Equal(m.FillBytes(make([]byte, r.k)), em)
}

func mgf1(h hash.Hash, seed []byte, n int) []byte {
	var out []byte
	for ctr := uint32(0); len(out) < n; ctr++ {
		h.Reset()
		h.Write(seed)
		h.Write([]byte{byte(ctr >> 24), byte(ctr >> 16), byte(ctr >> 8), byte(ctr)})
		out = h.Sum(out)
	}
	return out[:n]
}

// pssTweak lets the caller produce deliberately wrong encodings (part 1, RSA
// structured cases); the zero value is the correct EMSA-PSS-ENCODE.
type pssTweak struct {
	trailer   byte // 0 = 0xbc
	sepByte   byte // 0 = 0x01
	dirtyPad  bool // a non-zero octet inside PS
	keepTopBt bool // do not clear the leftmost 8emLen-emBits bits (sets them)
}

func emPSS(hf crypto.Hash, mHash, salt []byte, emBits int, tw pssTweak) ([]byte, bool) {
	hLen, sLen := hf.Size(), len(salt)
	emLen := (emBits + 7) / 8
	if emLen < hLen+sLen+2 {
		return nil, false
	}
	h := hf.New()
	h.Write(make([]byte, 8))
	h.Write(mHash)
	h.Write(salt)
	H := h.Sum(nil)
	db := make([]byte, emLen-hLen-1)
	sep := byte(1)
	if tw.sepByte != 0 {
		sep = tw.sepByte
	}
	db[len(db)-sLen-1] = sep
	if tw.dirtyPad && len(db)-sLen-1 > 1 {
		db[1] = 0x01
	}
	copy(db[len(db)-sLen:], salt)
	mask := mgf1(hf.New(), H, len(db))
	for j := range db {
		db[j] ^= mask[j]
	}
	top := byte(0xff) >> uint(8*emLen-emBits)
	if tw.keepTopBt {
		db[0] |= ^top
		if top == 0xff {
			return nil, false
		}
	} else {
		db[0] &= top
	}
	tr := byte(0xbc)
	if tw.trailer != 0 {
		tr = tw.trailer
	}
	em := append(append(db, H...), tr)
	return em, true
}

func (r *refRSA) signPSSTweaked(hf crypto.Hash, mHash, salt []byte, tw pssTweak) ([]byte, bool) {
	em, ok := emPSS(hf, mHash, salt, r.n.BitLen()-1, tw)
	if !ok {
		return nil, false
	}
	if new(big.Int).SetBytes(em).Cmp(r.n) >= 0 {
		return nil, false
	}
	return r.private(em), true
}

func (r *refRSA) signPSS(hf crypto.Hash, mHash, salt []byte) ([]byte, error) {
	s, ok := r.signPSSTweaked(hf, mHash, salt, pssTweak{})
	if !ok {
		return nil, errors.New("encoding error")
	}
	return s, nil
}

// verifyPSS is RSASSA-PSS-VERIFY with sLen = hLen (RFC 8017 §8.1.2, §9.1.2).
func (r *refRSA) verifyPSS(hf crypto.Hash, mHash, sig []byte) bool {
	m, ok := r.public(sig)
	if !ok {
		return false
	}
	emBits := r.n.BitLen() - 1
	emLen := (emBits + 7) / 8
	if (m.BitLen()+7)/8 > emLen {
		return false
	}
	em := m.FillBytes(make([]byte, emLen))
	hLen := hf.Size()
	sLen := hLen
	if len(mHash) != hLen || emLen < hLen+sLen+2 || em[emLen-1] != 0xbc {
		return false
	}
	db := append([]byte(nil), em[:emLen-hLen-1]...)
	H := em[emLen-hLen-1 : emLen-1]
	top := byte(0xff) >> uint(8*emLen-emBits)
	if db[0]&^top != 0 {
		return false
	}
	mask := mgf1(hf.New(), H, len(db))
	for j := range db {
		db[j] ^= mask[j]
	}
	db[0] &= top
	ps := emLen - hLen - sLen - 2
	for _, b := range db[:ps] {
		if b != 0 {
			return false
		}
	}
	if db[ps] != 1 {
		return false
	}
	salt := db[len(db)-sLen:]
	h := hf.New()
	h.Write(make([]byte, 8))
	h.Write(mHash)
	h.Write(salt)
	return bytes.Equal(h.Sum(nil), H)
}
