package main

// rsa.VerifyPSS called directly (x509.CheckSignatureFromKey reaches it with
// SaltLength = hash length only): every genuine tuple and every structured
// deviation of an RSA-PSS case, with PSSSaltLengthEqualsHash and
// PSSSaltLengthAuto, against crypto/rsa.VerifyPSS with the same options.

import (
	stdrsa "crypto/rsa"
	"encoding/hex"
	"fmt"

	zrsa "github.com/zmap/zcrypto/rsa"
	"verifmc/internal/ev"
)

func directPSS(c *ev.Ctx, st *primStats, pc string, m smut, baseline bool) {
	zpub, ok := m.key.zpub.(*zrsa.PublicKey)
	if !ok || !m.alg.hash.Available() {
		return
	}
	dg := digestOf(m.alg.hash, m.msg)
	type mode struct {
		name string
		z, s int
	}
	for _, md := range []mode{{"EqualsHash", zrsa.PSSSaltLengthEqualsHash, stdrsa.PSSSaltLengthEqualsHash}, {"Auto", zrsa.PSSSaltLengthAuto, stdrsa.PSSSaltLengthAuto}} {
		var sok bool
		switch {
		case m.key.stdRSA != nil:
			sok = stdrsa.VerifyPSS(&m.key.stdRSA.PublicKey, m.alg.hash, dg, m.sig, &stdrsa.PSSOptions{SaltLength: md.s}) == nil
		case md.name == "EqualsHash":
			sok = m.key.ref.verifyPSS(m.alg.hash, dg, m.sig)
		default:
			continue
		}
		st.evals++
		var err error
		p, pm, site := ev.Try(func() {
			err = zrsa.VerifyPSS(zpub, m.alg.hash, dg, m.sig, &zrsa.PSSOptions{SaltLength: md.z})
		})
		st.trans++
		zok := !p && err == nil
		kind := m.kind
		if baseline {
			kind = "genuine"
		}
		wit := func() primWitness {
			return primWitness{Part: "prim", Key: m.key.name, Alg: int(m.alg.alg), AlgName: m.alg.name, MsgHex: hex.EncodeToString(m.msg),
				SigHex: hex.EncodeToString(m.sig), Mutation: m.label + " [rsa.VerifyPSS called directly, SaltLength " + md.name + "]", Genuine: pc,
				Zcrypto: fmt.Sprintf("rsa.VerifyPSS: accept=%v err=%v", zok, err), Oracle: boolS(sok), Baseline: baseline, Mall: m.mall}
		}
		switch {
		case p:
			violPrim(c, "prim RSA-PSS: panic@"+site+": "+ev.MsgClass(pm)+" in rsa.VerifyPSS", wit())
		case zok && !sok:
			violPrim(c, fmt.Sprintf("prim RSA-PSS: %s ACCEPTED by rsa.VerifyPSS(SaltLength %s), rejected by crypto/rsa", kind, md.name), wit())
		case !zok && sok && (baseline || m.mall):
			violPrim(c, fmt.Sprintf("prim RSA-PSS: valid signature (%s) REJECTED by rsa.VerifyPSS(SaltLength %s)", kind, md.name), wit())
		case !zok && sok:
			st.h["rsa.VerifyPSS direct: stricter than crypto/rsa (statement silent): "+kind+" / "+md.name]++
		case zok:
			st.h["rsa.VerifyPSS direct: accepted by both / SaltLength "+md.name]++
		default:
			st.h["rsa.VerifyPSS direct: rejected by both / SaltLength "+md.name]++
		}
	}
}
