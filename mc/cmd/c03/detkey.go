package main

// Deterministic RSA keys with a modulus of an exact, unusual bit length
// (8k+1, 8k+2, 8k+7): the lengths at which the encoded message of RSASSA-PSS
// is one octet shorter than the modulus (8k+1) or carries 7 / 2 masked bits in
// its first octet. Fixture names: "rsadet<bits>".

import (
	stdrsa "crypto/rsa"
	"io"
	"math/big"
	"strconv"
	"sync"

	zrsa "github.com/zmap/zcrypto/rsa"
	"verifmc/internal/fx"
)

// detPrime: the first probable prime at or above a bits-bit odd candidate drawn
// from rnd with its two top bits set (the product of two such primes of b1 and
// b2 bits has exactly b1+b2 bits and lies in the upper 7/16 of that range).
// Fully deterministic in rnd.
func detPrime(rnd io.Reader, bits int) *big.Int {
	buf := make([]byte, (bits+7)/8)
	for {
		if _, err := io.ReadFull(rnd, buf); err != nil {
			panic(err)
		}
		p := new(big.Int).SetBytes(buf)
		p.Rsh(p, uint(8*len(buf)-bits))
		p.SetBit(p, bits-1, 1)
		p.SetBit(p, bits-2, 1)
		p.SetBit(p, 0, 1)
		for i := 0; i < 4096; i++ {
			if p.BitLen() != bits {
				break
			}
			if p.ProbablyPrime(32) {
				return p
			}
			p.Add(p, big.NewInt(2))
		}
	}
}

type detRSA struct {
	n, d *big.Int
	p, q *big.Int
}

var (
	detMu    sync.Mutex
	detCache = map[string]*detRSA{}
)

const detE = 65537

func detKeyRSA(name string) *pkey {
	bits, err := strconv.Atoi(name[len("rsadet"):])
	if err != nil || bits < 512 || bits > 4096 {
		panic("bad deterministic RSA fixture name " + name)
	}
	detMu.Lock()
	dk := detCache[name]
	if dk == nil {
		rnd := fx.NewRand("c03-detkey-" + name)
		e := big.NewInt(detE)
		one := big.NewInt(1)
		for {
			p := detPrime(rnd, (bits+1)/2)
			q := detPrime(rnd, bits-(bits+1)/2)
			if p.Cmp(q) == 0 {
				continue
			}
			n := new(big.Int).Mul(p, q)
			if n.BitLen() != bits {
				continue
			}
			tot := new(big.Int).Mul(new(big.Int).Sub(p, one), new(big.Int).Sub(q, one))
			d := new(big.Int).ModInverse(e, tot)
			if d == nil {
				continue
			}
			dk = &detRSA{n: n, d: d, p: p, q: q}
			break
		}
		detCache[name] = dk
	}
	detMu.Unlock()
	e := big.NewInt(detE)
	zpub := &zrsa.PublicKey{N: dk.n, E: e}
	k := &pkey{name: name, fam: famRSA, bits: bits, zpub: zpub}
	k.stdRSA = &stdrsa.PrivateKey{PublicKey: stdrsa.PublicKey{N: dk.n, E: detE}, D: dk.d, Primes: []*big.Int{dk.p, dk.q}}
	k.stdRSA.Precompute()
	k.ref = &refRSA{n: dk.n, e: e, d: dk.d, k: (bits + 7) / 8}
	return k
}
