// Reproducer (C03): a standard DSA signature with SHA-256 by a 1024-bit key (q = 160 bits) is rejected by
// x509.CheckSignatureFromKey(DSAWithSHA256): FIPS 186-4 §4.6 uses the leftmost min(N, outlen) bits of the
// digest, zcrypto passes the whole 32-byte digest to dsa.Verify (which documents that it does not truncate).
// Run: cd /verif/mc && GOFLAGS=-mod=mod GOPROXY=off go run ./cmd/c03/repro/dsa-sha256-q160 [cert.pem]  (exit 1 = defect present)
// With a PEM certificate argument (e.g. made by: openssl dsaparam -out p.pem 1024; openssl gendsa -out k.pem p.pem;
// openssl req -new -x509 -key k.pem -sha256 -subj /CN=x -out c.pem) it checks that certificate's self-signature.
package main

import (
	stddsa "crypto/dsa"
	"crypto/rand"
	"crypto/sha256"
	"encoding/asn1"
	"encoding/pem"
	"fmt"
	"math/big"
	"os"

	zdsa "github.com/zmap/zcrypto/dsa"
	"github.com/zmap/zcrypto/x509"
)

func main() {
	if len(os.Args) > 1 {
		raw, err := os.ReadFile(os.Args[1])
		if err != nil {
			panic(err)
		}
		b, _ := pem.Decode(raw)
		c, err := x509.ParseCertificate(b.Bytes)
		if err != nil {
			panic(err)
		}
		err = c.CheckSignature(c.SignatureAlgorithm, c.RawTBSCertificate, c.Signature)
		fmt.Printf("%v self-signature by %T: %v\n", c.SignatureAlgorithm, c.PublicKey, err)
		if err != nil {
			os.Exit(1)
		}
		return
	}
	var priv stddsa.PrivateKey
	if err := stddsa.GenerateParameters(&priv.Parameters, rand.Reader, stddsa.L1024N160); err != nil {
		panic(err)
	}
	if err := stddsa.GenerateKey(&priv, rand.Reader); err != nil {
		panic(err)
	}
	msg := []byte("to be signed")
	d := sha256.Sum256(msg)
	z := d[:priv.Q.BitLen()/8] // FIPS 186-4 §4.6: leftmost min(N, outlen) bits
	r, s, err := stddsa.Sign(rand.Reader, &priv, z)
	if err != nil {
		panic(err)
	}
	fmt.Println("crypto/dsa verifies the signature over the truncated digest:", stddsa.Verify(&priv.PublicKey, z, r, s))
	sig, _ := asn1.Marshal(struct{ R, S *big.Int }{r, s})
	pub := &zdsa.PublicKey{Parameters: zdsa.Parameters{P: priv.P, Q: priv.Q, G: priv.G}, Y: priv.Y}
	err = x509.CheckSignatureFromKey(pub, x509.DSAWithSHA256, msg, sig)
	fmt.Println("zcrypto CheckSignatureFromKey(DSAWithSHA256):", err)
	if err != nil {
		os.Exit(1)
	}
}
