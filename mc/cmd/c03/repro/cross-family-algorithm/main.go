// Reproducer (C03): x509.CheckSignatureFromKey takes only the HASH from the claimed
// SignatureAlgorithm and lets the key type pick the primitive, so a genuine signature still verifies
// after the claimed algorithm is changed to one of another key family (an ECDSA signature "under"
// SHA256-RSA or DSA-SHA256, an RSA PKCS#1 v1.5 signature "under" ECDSA-SHA256 ...). crypto/x509 refuses
// ("signature algorithm specifies an RSA public key, but have public key of type *ecdsa.PublicKey").
// Run: cd /verif/mc && GOFLAGS=-mod=mod GOPROXY=off go run ./cmd/c03/repro/cross-family-algorithm   (exit 1 = defect present)
package main

import (
	"crypto"
	"crypto/ecdsa"
	"crypto/elliptic"
	"crypto/rand"
	stdrsa "crypto/rsa"
	"crypto/sha256"
	"fmt"
	"math/big"
	"os"

	zrsa "github.com/zmap/zcrypto/rsa"
	"github.com/zmap/zcrypto/x509"
)

func main() {
	msg := []byte("c03 cross family")
	dg := sha256.Sum256(msg)
	bad := 0
	report := func(what string, err error) {
		fmt.Printf("%-70s -> %v\n", what, err)
		if err == nil {
			bad++
		}
	}

	ek, _ := ecdsa.GenerateKey(elliptic.P256(), rand.Reader)
	esig, _ := ecdsa.SignASN1(rand.Reader, ek, dg[:])
	fmt.Println("genuine ECDSA-SHA256 signature by a P-256 key:")
	fmt.Printf("%-70s -> %v\n", "  claimed ECDSA-SHA256 (genuine)", x509.CheckSignatureFromKey(&ek.PublicKey, x509.ECDSAWithSHA256, msg, esig))
	report("  claimed SHA256-RSA, *ecdsa.PublicKey", x509.CheckSignatureFromKey(&ek.PublicKey, x509.SHA256WithRSA, msg, esig))
	report("  claimed SHA256-RSAPSS, *ecdsa.PublicKey", x509.CheckSignatureFromKey(&ek.PublicKey, x509.SHA256WithRSAPSS, msg, esig))
	report("  claimed DSA-SHA256, *x509.AugmentedECDSA (parsed certificates)", x509.CheckSignatureFromKey(&x509.AugmentedECDSA{Pub: &ek.PublicKey}, x509.DSAWithSHA256, msg, esig))

	rk, _ := stdrsa.GenerateKey(rand.Reader, 2048)
	rsig, _ := stdrsa.SignPKCS1v15(nil, rk, crypto.SHA256, dg[:])
	zpub := &zrsa.PublicKey{N: rk.N, E: big.NewInt(int64(rk.E))}
	fmt.Println("genuine SHA256-RSA (PKCS#1 v1.5) signature by an RSA-2048 key:")
	fmt.Printf("%-70s -> %v\n", "  claimed SHA256-RSA (genuine)", x509.CheckSignatureFromKey(zpub, x509.SHA256WithRSA, msg, rsig))
	report("  claimed ECDSA-SHA256, *rsa.PublicKey", x509.CheckSignatureFromKey(zpub, x509.ECDSAWithSHA256, msg, rsig))
	report("  claimed DSA-SHA256, *rsa.PublicKey", x509.CheckSignatureFromKey(zpub, x509.DSAWithSHA256, msg, rsig))

	if bad > 0 {
		fmt.Printf("DEFECT: %d signatures verify under a claimed algorithm no key of that type can produce\n", bad)
		os.Exit(1)
	}
	fmt.Println("ok: every algorithm of another key family is refused")
}
