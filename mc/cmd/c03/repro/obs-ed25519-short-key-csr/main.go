// Observation (belongs to C01, met while sweeping C03 objects): a CSR whose Ed25519 subjectPublicKey BIT STRING
// is shortened by one byte still parses (the left-over byte inside SubjectPublicKeyInfo is ignored) and
// CertificateRequest.CheckSignature then panics in ed25519.Verify ("bad public key length: 31").
// Run: cd /verif/mc && GOFLAGS=-mod=mod GOPROXY=off go run ./cmd/c03/repro/obs-ed25519-short-key-csr   (exit 1 = panics)
package main

import (
	"crypto/ed25519"
	"crypto/rand"
	"fmt"
	"os"

	"github.com/zmap/zcrypto/x509"
	"github.com/zmap/zcrypto/x509/pkix"
)

func main() {
	_, priv, _ := ed25519.GenerateKey(rand.Reader)
	der, err := x509.CreateCertificateRequest(rand.Reader, &x509.CertificateRequest{Subject: pkix.Name{CommonName: "c03 csr"}}, priv)
	if err != nil {
		panic(err)
	}
	// find "03 21 00" (BIT STRING, 33 bytes, 0 unused bits) of the SubjectPublicKeyInfo and make it "03 20 00"
	for i := 0; i+2 < len(der); i++ {
		if der[i] == 0x03 && der[i+1] == 0x21 && der[i+2] == 0x00 {
			der[i+1] = 0x20
			break
		}
	}
	csr, err := x509.ParseCertificateRequest(der)
	if err != nil {
		fmt.Println("rejected at parse:", err)
		return
	}
	fmt.Printf("parsed; public key length %d\n", len(csr.PublicKey.(ed25519.PublicKey)))
	defer func() {
		if r := recover(); r != nil {
			fmt.Println("PANIC in CheckSignature:", r)
			os.Exit(1)
		}
	}()
	fmt.Println("CheckSignature:", csr.CheckSignature())
}
