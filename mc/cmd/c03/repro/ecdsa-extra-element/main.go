// Reproducer (C03): x509.CheckSignatureFromKey accepts an ECDSA (and DSA) signature whose SEQUENCE carries
// extra content after s (signature malleability); crypto/ecdsa.VerifyASN1 rejects it. Trailing data AFTER
// the SEQUENCE is rejected by zcrypto, data INSIDE it is not.
// Run: cd /verif/mc && GOFLAGS=-mod=mod GOPROXY=off go run ./cmd/c03/repro/ecdsa-extra-element   (exit 1 = defect present)
package main

import (
	"crypto/ecdsa"
	"crypto/elliptic"
	"crypto/rand"
	"crypto/sha256"
	"fmt"
	"os"

	"github.com/zmap/zcrypto/x509"
)

func main() {
	k, _ := ecdsa.GenerateKey(elliptic.P256(), rand.Reader)
	msg := []byte("to be signed")
	d := sha256.Sum256(msg)
	sig, _ := ecdsa.SignASN1(rand.Reader, k, d[:])
	// SEQUENCE{r,s}  ->  SEQUENCE{r,s,INTEGER 0}
	forged := append([]byte{0x30, sig[1] + 3}, sig[2:]...)
	forged = append(forged, 0x02, 0x01, 0x00)
	fmt.Println("genuine:  zcrypto", x509.CheckSignatureFromKey(&k.PublicKey, x509.ECDSAWithSHA256, msg, sig), "| crypto/ecdsa", ecdsa.VerifyASN1(&k.PublicKey, d[:], sig))
	err := x509.CheckSignatureFromKey(&k.PublicKey, x509.ECDSAWithSHA256, msg, forged)
	fmt.Println("extended: zcrypto", err, "| crypto/ecdsa", ecdsa.VerifyASN1(&k.PublicKey, d[:], forged))
	if err == nil {
		os.Exit(1)
	}
}
