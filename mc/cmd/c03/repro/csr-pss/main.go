// Reproducer (C03): x509.CreateCertificateRequest with an RSA-PSS SignatureAlgorithm writes the
// RSASSA-PSS AlgorithmIdentifier but signs with PKCS#1 v1.5, so the CSR fails its own CheckSignature.
// Run: cd /verif/mc && GOFLAGS=-mod=mod GOPROXY=off go run ./cmd/c03/repro/csr-pss   (exit 1 = defect present)
package main

import (
	"crypto"
	"crypto/rand"
	"crypto/sha256"
	stdx509 "crypto/x509"
	"fmt"
	"os"

	"github.com/zmap/zcrypto/rsa"
	"github.com/zmap/zcrypto/x509"
	"github.com/zmap/zcrypto/x509/pkix"
)

func main() {
	key, err := rsa.GenerateKey(rand.Reader, 2048)
	if err != nil {
		panic(err)
	}
	der, err := x509.CreateCertificateRequest(rand.Reader, &x509.CertificateRequest{
		Subject: pkix.Name{CommonName: "c03"}, SignatureAlgorithm: x509.SHA256WithRSAPSS}, key)
	if err != nil {
		fmt.Println("CreateCertificateRequest refused the algorithm:", err)
		return
	}
	csr, err := x509.ParseCertificateRequest(der)
	if err != nil {
		panic(err)
	}
	own := csr.CheckSignature()
	fmt.Printf("encoded algorithm: %v\nzcrypto CertificateRequest.CheckSignature: %v\n", csr.SignatureAlgorithm, own)
	d := sha256.Sum256(csr.RawTBSCertificateRequest)
	fmt.Println("signature value verifies as PKCS#1 v1.5 / SHA-256:", rsa.VerifyPKCS1v15(&key.PublicKey, crypto.SHA256, d[:], csr.Signature) == nil)
	if sc, err := stdx509.ParseCertificateRequest(der); err == nil {
		fmt.Println("crypto/x509 CheckSignature on the same DER:", sc.CheckSignature())
	}
	if own != nil {
		os.Exit(1)
	}
}
