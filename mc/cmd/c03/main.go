// C03 — signature verification accepts exactly the genuine signatures.
//
// Engine E2 (deviation-bounded enumeration), differential against the Go
// standard library.
//
// Part 1 (prim.go): x509.CheckSignatureFromKey on genuine signatures produced
// by crypto/rsa, crypto/ecdsa, crypto/ed25519 and crypto/dsa for every
// compatible (key, SignatureAlgorithm, message), then on every single-bit
// flip of signature and message, every other key, every other algorithm,
// length ±1, out-of-range / non-DER (r,s) and private-key signatures over
// malformed RSA encodings. Verdict = the standard library's.
//
// Part 2 (obj.go): every creation API × every SignatureAlgorithm value ×
// every signer key type; whatever the API accepts must verify with the
// object's own API and stop verifying after any 1-byte substitution, unless
// the substituted encoding is still a valid signature per encoding/asn1 +
// the standard library.
package main

import (
	"encoding/hex"
	"encoding/json"
	"strings"
	"time"

	"github.com/zmap/zcrypto/x509"
	"verifmc/internal/ev"
	"verifmc/internal/nohb"
)

func replay(c *ev.Ctx) {
	var head struct {
		Part string `json:"part"`
	}
	if err := json.Unmarshal(c.Replay, &head); err != nil {
		c.Broken("bad witness: %v", err)
	}
	switch head.Part {
	case "prim":
		var w primWitness
		if err := json.Unmarshal(c.Replay, &w); err != nil {
			c.Broken("bad witness: %v", err)
		}
		msg, _ := hex.DecodeString(w.MsgHex)
		sig, _ := hex.DecodeString(w.SigHex)
		k := loadKey(w.Key)
		a := infoOf(x509.SignatureAlgorithm(w.Alg))
		zok, zclass, pan := zverify(k, a.alg, msg, sig)
		sok := strict(k, a, msg, sig)
		c.Transitions.Add(1)
		c.Evaluations.Add(1)
		c.States.Add(1)
		w.Zcrypto, w.Oracle = zclass+pan, boolS(sok)
		switch {
		case pan != "":
			c.Violation(w.Class, w)
		case zok && !sok:
			c.Violation(w.Class, w)
		case !zok && sok && (w.Baseline || w.Mall):
			c.Violation(w.Class, w)
		default:
			c.Outcome("replay: verdicts agree (zcrypto "+boolS(zok)+", stdlib "+boolS(sok)+")", 1)
		}
	case "obj":
		var w objWitness
		if err := json.Unmarshal(c.Replay, &w); err != nil {
			c.Broken("bad witness: %v", err)
		}
		der, _ := hex.DecodeString(w.DERHex)
		name := w.Signer
		if i := strings.Index(name, " ["); i >= 0 {
			name = name[:i]
		}
		k := loadKey(name)
		var a *api
		as := apis()
		for i := range as {
			if as[i].name == w.API {
				a = &as[i]
			}
		}
		if a == nil {
			c.Broken("unknown api %q", w.API)
		}
		parent := caFor(name)
		if a.delegated {
			parent = ocspIssuer()
		}
		_, err, pan := zobj(a, der, parent.X)
		valid, _, _, why := oracleObj(der, a, k)
		c.Transitions.Add(1)
		c.Evaluations.Add(1)
		c.States.Add(1)
		w.Zcrypto, w.Oracle = errClass(err)+pan, boolS(valid)
		if pan != "" {
			c.Violation(w.Class, w)
			return
		}
		if w.Offset < 0 {
			if err != nil || !valid {
				w.Detail = "replayed: own API: " + errClass(err) + "; stdlib: " + boolS(valid) + " " + why
				c.Violation(w.Class, w)
				return
			}
		} else if err == nil && !valid {
			c.Violation(w.Class, w)
			return
		}
		c.Outcome("replay: no disagreement (own API "+errClass(err)+", stdlib "+boolS(valid)+")", 1)
	default:
		c.Broken("witness has no part")
	}
}

func main() {
	if nohb.IsWorker() {
		nohb.WorkerMain(reentrantOps(), reentrantRepoDir())
		return
	}
	ev.Main("C03", "model_checking", func(c *ev.Ctx) {
		c.Rule("part 1: K = 19 key fixtures (quick; 31 thorough; incl. three RSA keys found by a deterministic prime search whose moduli have exactly 1025, 1026 and 1031 bits (8k+1: the PSS encoded message is one octet shorter than the modulus; 8k+2 / 8k+7: 7 / 2 masked leftmost bits), P-256 handed over as *x509.AugmentedECDSA — the form and the branch of CheckSignatureFromKey every PARSED certificate/CSR/CRL/OCSP key goes through — (thorough: every curve) and a DSA (2048,224) key for the digest truncation with a q that is neither 160 nor 256 bits) × A = all 17 SignatureAlgorithm constants × M = 6 messages (0,1,55,56,64,1024 bytes); for every (k,a,m) that has a genuine standard-library signature: the genuine tuple, every single-bit flip of the signature, every single-bit flip of the message (≤ 64 bytes: all bytes; 1 KiB: first and last 32 bytes), every other key of K (the same key in its other Go type must verify), one near-miss key (RSA: same modulus, e+2; ECDSA: the point (x, p-y); DSA: same (p,q,g), y*g mod p), every other algorithm of A, one byte removed/added at either end, for ECDSA/DSA 29 (r,s) pairs from {r,0,n,n+r,-r}×{s,0,n,n+s,-s,n-s} + 11 non-DER encodings, for RSA 11–13 private-key signatures over malformed EMSA-PKCS1-v1_5 / EMSA-PSS encodings, plus for every RSA key: s+n in place of s (when it has k octets); PKCS#1 v1.5: first octet of EM ∈ {01,02,80,ff} (when below n); PSS: a correct harness-made EM (must verify) and, built from a CORRECT EM under the first of 256 fixed salts that keeps the representative below n, the representatives {01,02,7f,80,ff}||EM (moduli of 8k+1 bits; shapes that cannot be below n are skipped) and EM with each single one and with all of its 8emLen-emBits leftmost bits set — each turned into a signature with the private key; every genuine and every structured RSA-PSS tuple is also handed to rsa.VerifyPSS directly with SaltLength EqualsHash and Auto, verdict = crypto/rsa.VerifyPSS with the same options. Quick-tier reductions of the bit-flip sweeps only (thorough has none): RSA ≥ 2048 bits: signature bits {0,7} of every byte; P-224/P-384/P-521/DSA: all bits on the 64-byte message, bits {0,7} of every byte on the other five; P-521 additionally sweeps only (ECDSA-SHA512 × all messages) and (other hashes × 64-byte message). Verdicts part 1: genuine accepted; every deviation accepted exactly when the standard library accepts it under the SAME (key type, algorithm) — an algorithm of another key family is never accepted; a panic is a violation. part 2: 6 creation APIs (incl. an OCSP response signed by a delegated responder whose certificate is embedded and checked against the issuer) × 18 SignatureAlgorithm values (0..16, 17) × 9 signer keys (quick; 12 thorough); every accepted combination is created, self-verified and judged by the independent decoder; each object is then swept with every substitution from {00,ff,b^01,b^80} (thorough: +{01,7f,80} and all 8 bit flips) at every offset (quick: P-224/P-384/P-521 objects and delegated OCSP responses are swept for the default algorithm only); an accepted substitution must leave a signature that the independent decoder + standard library still verify under the algorithm the object was made with; a panic is a violation; a signer kind the APIs document as unsupported (DSA) being accepted is a violation. A case is non-trivial when it reaches cryptographic verification (accepted, or rejected with a verification error rather than a decoding error)")
		c.Assume("the Go standard library (crypto/rsa, crypto/ecdsa, crypto/ed25519, crypto/dsa, encoding/asn1) is the reference for 'valid signature'",
			"RSA with exponents ≥ 2^31 and signatures over malformed encodings use a math/big transcription of RFC 8017, cross-checked against crypto/rsa on every standard key and algorithm",
			"DSA: the digest is truncated to the byte length of q before crypto/dsa (FIPS 186-4 §4.6)",
			"certificates: zcrypto verifies under tbsCertificate.signature (inside the signed bytes) and does not read the outer Certificate.signatureAlgorithm, so a substitution there that still parses is accepted; it is counted apart and required to verify under the inner algorithm = the algorithm the object was made with (statement silent on which copy counts; RFC 5280 §4.1.1.2 wants them equal)",
			"delegated OCSP: valid = response signature valid under the responder key AND the embedded responder certificate's signature valid under the issuer key (both judged by encoding/asn1 + standard library)",
			"agreement with the standard library on enumerated deviations is not a cryptographic proof of unforgeability")
		if c.Replay != nil {
			replay(c)
			return
		}
		t0 := time.Now()
		runPrim(c)
		c.Set("wall_part1_s", time.Since(t0).Seconds())
		t1 := time.Now()
		defer func() { c.Set("wall_part2_s", time.Since(t1).Seconds()) }()
		if c.TimeUp() {
			c.Incomplete("part 2 not started: time budget exhausted by part 1")
			return
		}
		runObj(c)
		reentrantPhase(c)
	})
}
