// vrewrite produces the source overlay of engine E3: copies of zcrypto source
// files (read from the CURRENT working tree of the repository under test) in
// which synchronisation is redirected to the vsched shims, plus the vsched
// packages themselves as virtual packages of the zcrypto module.
//
//	vrewrite -repo /repo -src /verif/mc/vsched_src -out DIR -overlay FILE [-merge other.json] spec...
//
// spec = <glob relative to repo>:<mode>[:chans=a,b.C,...]
//
//	mode imports: only "sync" / "sync/atomic" imports are redirected
//	mode full:    also go statements, channel operations and time.Sleep/Now/Since/NewTicker
package main

import (
	"bytes"
	"encoding/json"
	"flag"
	"fmt"
	"go/ast"
	"go/parser"
	"go/printer"
	"go/token"
	"os"
	"path/filepath"
	"reflect"
	"strconv"
	"strings"
)

const (
	pkgVsched  = "github.com/zmap/zcrypto/vsched"
	pkgVsync   = "github.com/zmap/zcrypto/vsched/vsync"
	pkgVatomic = "github.com/zmap/zcrypto/vsched/vatomic"
	pkgVtime   = "github.com/zmap/zcrypto/vsched/vtime"
)

func die(format string, a ...any) {
	fmt.Fprintf(os.Stderr, "vrewrite: "+format+"\n", a...)
	os.Exit(2)
}

type rewriter struct {
	fset     *token.FileSet
	chans    map[string]bool
	full     bool
	usedSch  bool
	usedTime bool
	tmp      int
	file     string
}

func exprString(fset *token.FileSet, e ast.Expr) string {
	var b bytes.Buffer
	printer.Fprint(&b, fset, e)
	return b.String()
}

func sel(pkg, name string) ast.Expr {
	return &ast.SelectorExpr{X: ast.NewIdent(pkg), Sel: ast.NewIdent(name)}
}

func call(fun ast.Expr, args ...ast.Expr) *ast.CallExpr { return &ast.CallExpr{Fun: fun, Args: args} }

// apply walks n bottom-up through every field (reflection, like gofmt -r) and
// replaces expressions and statements through the two callbacks.
func (r *rewriter) apply(v reflect.Value) {
	switch v.Kind() {
	case reflect.Ptr, reflect.Interface:
		if v.IsNil() {
			return
		}
		r.apply(v.Elem())
	case reflect.Struct:
		for i := 0; i < v.NumField(); i++ {
			f := v.Field(i)
			if v.Type().Field(i).Name == "Obj" || v.Type().Field(i).Name == "Scope" || v.Type().Field(i).Name == "Unresolved" {
				continue
			}
			r.applyField(f)
		}
	case reflect.Slice:
		for i := 0; i < v.Len(); i++ {
			r.applyField(v.Index(i))
		}
	}
}

var (
	exprType = reflect.TypeOf((*ast.Expr)(nil)).Elem()
	stmtType = reflect.TypeOf((*ast.Stmt)(nil)).Elem()
)

func (r *rewriter) applyField(f reflect.Value) {
	// pre-order special cases that need the un-rewritten children
	if f.Kind() == reflect.Interface && !f.IsNil() && f.CanSet() {
		if f.Type() == stmtType {
			if ns := r.stmtPre(f.Interface().(ast.Stmt)); ns != nil {
				f.Set(reflect.ValueOf(ns))
			}
		}
	}
	r.apply(f)
	if f.Kind() == reflect.Interface && !f.IsNil() && f.CanSet() {
		switch f.Type() {
		case exprType:
			if ne := r.expr(f.Interface().(ast.Expr)); ne != nil {
				f.Set(reflect.ValueOf(ne))
			}
		case stmtType:
			if ns := r.stmt(f.Interface().(ast.Stmt)); ns != nil {
				f.Set(reflect.ValueOf(ns))
			}
		}
	}
}

// stmtPre handles `v, ok := <-ch` before the generic <-ch rewriting sees it.
func (r *rewriter) stmtPre(s ast.Stmt) ast.Stmt {
	if !r.full {
		return nil
	}
	if ss, ok := s.(*ast.SelectStmt); ok {
		return r.selectDefault(ss)
	}
	if as, ok := s.(*ast.AssignStmt); ok && len(as.Lhs) == 2 && len(as.Rhs) == 1 {
		if u, ok := as.Rhs[0].(*ast.UnaryExpr); ok && u.Op == token.ARROW {
			r.usedSch = true
			as.Rhs[0] = call(sel("vsched", "Recv2"), u.X)
		}
	}
	return nil
}

// selectDefault turns the one supported select form, a single communication case plus default,
// into an if statement on vsched.TrySend / vsched.TryRecv (done pre-order, so the bodies are still
// rewritten afterwards). Any other select is refused.
func (r *rewriter) selectDefault(ss *ast.SelectStmt) ast.Stmt {
	line := r.fset.Position(ss.Pos()).Line
	var comm, def *ast.CommClause
	for _, c := range ss.Body.List {
		cc := c.(*ast.CommClause)
		if cc.Comm == nil {
			def = cc
		} else if comm == nil {
			comm = cc
		} else {
			die("%s:%d: select with more than one communication case is not supported by the rewriter", r.file, line)
		}
	}
	if comm == nil || def == nil {
		die("%s:%d: select without a default case is not supported by the rewriter", r.file, line)
	}
	r.usedSch = true
	elseBlk := &ast.BlockStmt{List: def.Body}
	switch c := comm.Comm.(type) {
	case *ast.SendStmt:
		return &ast.IfStmt{Cond: call(sel("vsched", "TrySend"), c.Chan, c.Value), Body: &ast.BlockStmt{List: comm.Body}, Else: elseBlk}
	case *ast.ExprStmt: // case <-ch:
		u, ok := c.X.(*ast.UnaryExpr)
		if !ok || u.Op != token.ARROW {
			die("%s:%d: unsupported select case", r.file, line)
		}
		r.tmp++
		okID := ast.NewIdent(fmt.Sprintf("vschedS%d", r.tmp))
		init := &ast.AssignStmt{Lhs: []ast.Expr{ast.NewIdent("_"), ast.NewIdent("_"), okID}, Tok: token.DEFINE, Rhs: []ast.Expr{call(sel("vsched", "TryRecv"), u.X)}}
		return &ast.IfStmt{Init: init, Cond: okID, Body: &ast.BlockStmt{List: comm.Body}, Else: elseBlk}
	case *ast.AssignStmt: // case v := <-ch: / case v, ok := <-ch: / with = instead of :=
		u, ok := c.Rhs[0].(*ast.UnaryExpr)
		if !ok || u.Op != token.ARROW || len(c.Rhs) != 1 {
			die("%s:%d: unsupported select case", r.file, line)
		}
		r.tmp++
		vID, kID, sID := ast.NewIdent(fmt.Sprintf("vschedV%d", r.tmp)), ast.NewIdent(fmt.Sprintf("vschedK%d", r.tmp)), ast.NewIdent(fmt.Sprintf("vschedS%d", r.tmp))
		init := &ast.AssignStmt{Lhs: []ast.Expr{vID, kID, sID}, Tok: token.DEFINE, Rhs: []ast.Expr{call(sel("vsched", "TryRecv"), u.X)}}
		rhs := []ast.Expr{vID}
		if len(c.Lhs) == 2 {
			rhs = append(rhs, kID)
		}
		bind := &ast.AssignStmt{Lhs: c.Lhs, Tok: c.Tok, Rhs: rhs}
		use := &ast.AssignStmt{Lhs: []ast.Expr{ast.NewIdent("_"), ast.NewIdent("_")}, Tok: token.ASSIGN, Rhs: []ast.Expr{vID, kID}}
		body := append([]ast.Stmt{use, bind}, comm.Body...)
		return &ast.IfStmt{Init: init, Cond: sID, Body: &ast.BlockStmt{List: body}, Else: elseBlk}
	}
	die("%s:%d: unsupported select case", r.file, line)
	return nil
}

func (r *rewriter) isChan(e ast.Expr) bool {
	return r.chans[exprString(r.fset, e)]
}

func (r *rewriter) expr(e ast.Expr) ast.Expr {
	if !r.full {
		return nil
	}
	switch x := e.(type) {
	case *ast.UnaryExpr:
		if x.Op == token.ARROW {
			r.usedSch = true
			return call(sel("vsched", "Recv"), x.X)
		}
	case *ast.CallExpr:
		if id, ok := x.Fun.(*ast.Ident); ok && id.Name == "close" && len(x.Args) == 1 {
			r.usedSch = true
			return call(sel("vsched", "Close"), x.Args[0])
		}
		// make(chan T, <huge literal>): cap the capacity at 256 (a model reduction: the harnesses
		// never have that many elements in flight, and clearing a 30 MB buffer per execution
		// would dominate the exploration time)
		if id, ok := x.Fun.(*ast.Ident); ok && id.Name == "make" && len(x.Args) == 2 {
			if _, isChan := x.Args[0].(*ast.ChanType); isChan {
				if lit, ok := x.Args[1].(*ast.BasicLit); ok && lit.Kind == token.INT {
					if n, err := strconv.Atoi(lit.Value); err == nil && n > 256 {
						lit.Value = "256"
					}
				}
			}
		}
	case *ast.SelectorExpr:
		if id, ok := x.X.(*ast.Ident); ok && id.Name == "time" {
			switch x.Sel.Name {
			case "Sleep", "NewTicker", "Now", "Since":
				r.usedTime = true
				return sel("vtime", x.Sel.Name)
			case "After", "NewTimer", "Tick", "AfterFunc":
				die("%s: time.%s is not supported by the rewriter", r.file, x.Sel.Name)
			}
		}
	}
	return nil
}

func (r *rewriter) stmt(s ast.Stmt) ast.Stmt {
	if !r.full {
		return nil
	}
	switch x := s.(type) {
	case *ast.SelectStmt:
		die("%s:%d: select statements are not supported by the rewriter", r.file, r.fset.Position(x.Pos()).Line)
	case *ast.SendStmt:
		r.usedSch = true
		return &ast.ExprStmt{X: call(sel("vsched", "Send"), x.Chan, x.Value)}
	case *ast.RangeStmt:
		if r.isChan(x.X) {
			r.usedSch = true
			x.X = call(sel("vsched", "Range"), x.X)
		}
	case *ast.GoStmt:
		r.usedSch = true
		c := x.Call
		if fl, ok := c.Fun.(*ast.FuncLit); ok && len(c.Args) == 0 && fl.Type.Params.NumFields() == 0 {
			return &ast.ExprStmt{X: call(sel("vsched", "Go"), fl)}
		}
		// evaluate the function value and the arguments now, as a go statement does
		var list []ast.Stmt
		r.tmp++
		fn := ast.NewIdent(fmt.Sprintf("vschedF%d", r.tmp))
		list = append(list, &ast.AssignStmt{Lhs: []ast.Expr{fn}, Tok: token.DEFINE, Rhs: []ast.Expr{c.Fun}})
		var args []ast.Expr
		for i, a := range c.Args {
			id := ast.NewIdent(fmt.Sprintf("vschedA%d_%d", r.tmp, i))
			list = append(list, &ast.AssignStmt{Lhs: []ast.Expr{id}, Tok: token.DEFINE, Rhs: []ast.Expr{a}})
			args = append(args, id)
		}
		inner := &ast.CallExpr{Fun: fn, Args: args, Ellipsis: c.Ellipsis}
		lit := &ast.FuncLit{Type: &ast.FuncType{Params: &ast.FieldList{}}, Body: &ast.BlockStmt{List: []ast.Stmt{&ast.ExprStmt{X: inner}}}}
		list = append(list, &ast.ExprStmt{X: call(sel("vsched", "Go"), lit)})
		return &ast.BlockStmt{List: list}
	}
	return nil
}

// collectChans finds identifiers that are syntactically channels in this file.
func (r *rewriter) collectChans(f *ast.File) {
	isChanType := func(t ast.Expr) bool {
		_, ok := t.(*ast.ChanType)
		return ok
	}
	ast.Inspect(f, func(n ast.Node) bool {
		switch x := n.(type) {
		case *ast.Field:
			if x.Type != nil && isChanType(x.Type) {
				for _, nm := range x.Names {
					r.chans[nm.Name] = true
				}
			}
		case *ast.AssignStmt:
			if len(x.Lhs) == len(x.Rhs) {
				for i, rhs := range x.Rhs {
					if c, ok := rhs.(*ast.CallExpr); ok {
						if id, ok := c.Fun.(*ast.Ident); ok && id.Name == "make" && len(c.Args) > 0 && isChanType(c.Args[0]) {
							if l, ok := x.Lhs[i].(*ast.Ident); ok {
								r.chans[l.Name] = true
							}
						}
					}
				}
			}
		case *ast.ValueSpec:
			if x.Type != nil && isChanType(x.Type) {
				for _, nm := range x.Names {
					r.chans[nm.Name] = true
				}
			}
		}
		return true
	})
}

func rewriteFile(path, mode string, extraChans []string) []byte {
	fset := token.NewFileSet()
	f, err := parser.ParseFile(fset, path, nil, parser.ParseComments)
	if err != nil {
		die("%v", err)
	}
	r := &rewriter{fset: fset, chans: map[string]bool{}, full: mode == "full", file: path}
	for _, c := range extraChans {
		r.chans[c] = true
	}
	hasTime := false
	touched := false
	for _, is := range f.Imports {
		p, _ := strconv.Unquote(is.Path.Value)
		switch p {
		case "sync":
			is.Path.Value = strconv.Quote(pkgVsync)
			if is.Name == nil {
				is.Name = ast.NewIdent("sync")
			}
			touched = true
		case "sync/atomic":
			is.Path.Value = strconv.Quote(pkgVatomic)
			if is.Name == nil {
				is.Name = ast.NewIdent("atomic")
			}
			touched = true
		case "time":
			hasTime = true
		}
	}
	if r.full {
		r.collectChans(f)
		r.apply(reflect.ValueOf(f))
		add := func(path, name string) {
			spec := &ast.ImportSpec{Path: &ast.BasicLit{Kind: token.STRING, Value: strconv.Quote(path)}, Name: ast.NewIdent(name)}
			f.Decls = append([]ast.Decl{&ast.GenDecl{Tok: token.IMPORT, Specs: []ast.Spec{spec}}}, f.Decls...)
			touched = true
		}
		if r.usedTime {
			add(pkgVtime, "vtime")
		}
		if r.usedSch {
			add(pkgVsched, "vsched")
		}
		if hasTime {
			// keep "time" used even if every call was redirected
			f.Decls = append(f.Decls, &ast.GenDecl{Tok: token.VAR, Specs: []ast.Spec{&ast.ValueSpec{Names: []*ast.Ident{ast.NewIdent("_")}, Values: []ast.Expr{sel("time", "Second")}}}})
		}
	}
	if !touched {
		return nil
	}
	var out bytes.Buffer
	if err := (&printer.Config{Mode: printer.UseSpaces | printer.TabIndent, Tabwidth: 8}).Fprint(&out, fset, f); err != nil {
		die("print %s: %v", path, err)
	}
	return out.Bytes()
}

func main() {
	repo := flag.String("repo", "/repo", "repository under test")
	src := flag.String("src", "", "directory holding the vsched package tree (vsched/...)")
	out := flag.String("out", "", "output directory for rewritten files")
	overlay := flag.String("overlay", "", "overlay JSON to write")
	merge := flag.String("merge", "", "existing overlay JSON to merge in")
	flag.Parse()
	if *out == "" || *overlay == "" || *src == "" {
		die("need -src -out -overlay")
	}
	rep := map[string]string{}
	if *merge != "" {
		var m struct{ Replace map[string]string }
		b, err := os.ReadFile(*merge)
		if err == nil && json.Unmarshal(b, &m) == nil {
			for k, v := range m.Replace {
				rep[k] = v
			}
		}
	}
	os.MkdirAll(*out, 0o755)
	// virtual vsched packages
	filepath.Walk(*src, func(p string, fi os.FileInfo, err error) error {
		if err == nil && !fi.IsDir() && strings.HasSuffix(p, ".go") {
			rel, _ := filepath.Rel(*src, p)
			rep[filepath.Join(*repo, rel)] = p
		}
		return nil
	})
	n := 0
	for _, spec := range flag.Args() {
		parts := strings.Split(spec, ":")
		if len(parts) < 2 {
			die("bad spec %q", spec)
		}
		var chans []string
		for _, p := range parts[2:] {
			if strings.HasPrefix(p, "chans=") {
				chans = strings.Split(strings.TrimPrefix(p, "chans="), ",")
			}
		}
		matches, err := filepath.Glob(filepath.Join(*repo, parts[0]))
		if err != nil || len(matches) == 0 {
			die("spec %q matches no file", spec)
		}
		for _, m := range matches {
			if strings.HasSuffix(m, "_test.go") {
				continue
			}
			b := rewriteFile(m, parts[1], chans)
			if b == nil {
				continue
			}
			rel, _ := filepath.Rel(*repo, m)
			dst := filepath.Join(*out, strings.ReplaceAll(rel, "/", "__"))
			if err := os.WriteFile(dst, b, 0o644); err != nil {
				die("%v", err)
			}
			rep[m] = dst
			n++
		}
	}
	b, _ := json.MarshalIndent(map[string]any{"Replace": rep}, "", " ")
	if err := os.WriteFile(*overlay, b, 0o644); err != nil {
		die("%v", err)
	}
	fmt.Fprintf(os.Stderr, "vrewrite: %d files rewritten, overlay %s\n", n, *overlay)
}
