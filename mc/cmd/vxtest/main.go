// vxtest: canary scenarios for the E3 engine (scheduler + explorer + race build).
package main

import (
	"fmt"
	"os"
	"sort"

	"github.com/zmap/zcrypto/vsched"
	"github.com/zmap/zcrypto/vsched/vatomic"
	"github.com/zmap/zcrypto/vsched/vsync"
	"verifmc/internal/vx"
)

type scen struct {
	name string
	body func(out *[]int) func()
}

func main() {
	raceLog := os.Getenv("VX_RACELOG")
	scens := []scen{
		{"plain-counter (racy, no points inside x++)", func(out *[]int) func() {
			return func() {
				x := 0
				var wg vsync.WaitGroup
				wg.Add(2)
				for i := 0; i < 2; i++ {
					vsched.Go(func() { x++; wg.Done() })
				}
				wg.Wait()
				*out = append(*out, x)
			}
		}},
		{"mutex-counter", func(out *[]int) func() {
			return func() {
				x := 0
				var mu vsync.Mutex
				var wg vsync.WaitGroup
				wg.Add(2)
				for i := 0; i < 2; i++ {
					vsched.Go(func() { mu.Lock(); x++; mu.Unlock(); wg.Done() })
				}
				wg.Wait()
				*out = append(*out, x)
			}
		}},
		{"atomic load/store lost update", func(out *[]int) func() {
			return func() {
				var x int32
				var wg vsync.WaitGroup
				wg.Add(2)
				for i := 0; i < 2; i++ {
					vsched.Go(func() { v := vatomic.LoadInt32(&x); vatomic.StoreInt32(&x, v+1); wg.Done() })
				}
				wg.Wait()
				*out = append(*out, int(vatomic.LoadInt32(&x)))
			}
		}},
		{"lock-order deadlock", func(out *[]int) func() {
			return func() {
				var a, b vsync.Mutex
				var wg vsync.WaitGroup
				wg.Add(2)
				vsched.Go(func() { a.Lock(); b.Lock(); b.Unlock(); a.Unlock(); wg.Done() })
				vsched.Go(func() { b.Lock(); a.Lock(); a.Unlock(); b.Unlock(); wg.Done() })
				wg.Wait()
				*out = append(*out, 1)
			}
		}},
		{"channel producer/consumer", func(out *[]int) func() {
			return func() {
				ch := make(chan int, 2)
				vsched.Go(func() {
					for i := 1; i <= 3; i++ {
						vsched.Send(ch, i)
					}
					vsched.Close(ch)
				})
				sum := 0
				for v := range vsched.Range(ch) {
					sum += v
				}
				*out = append(*out, sum)
			}
		}},
	}
	for _, sc := range scens {
		for bound := 0; bound <= 2; bound++ {
			outcomes := map[string]int{}
			st := vx.Explore(vx.Options{PreemptBound: bound, RaceLog: raceLog}, func(prefix []int) (vsched.Result, any) {
				var out []int
				res := vsched.Run(prefix, sc.body(&out))
				return res, out
			}, func(x *vx.Exec) bool {
				k := fmt.Sprint(x.Obs)
				if x.Result.Deadlock {
					k = "DEADLOCK " + x.Result.DeadInfo
				}
				if x.Result.Panic != "" {
					k = "PANIC " + x.Result.Panic
				}
				outcomes[k]++
				return true
			})
			var ks []string
			for k, n := range outcomes {
				ks = append(ks, fmt.Sprintf("%s x%d", k, n))
			}
			sort.Strings(ks)
			fmt.Printf("%-46s bound=%d execs=%d points=%d complete=%v races=%d stragglers=%d outcomes=%v\n", sc.name, bound, st.Execs, st.Points, st.Complete, st.Races, st.Stragglers, ks)
		}
	}
}
