// C06 — certificate metadata is a faithful function of the DER bytes.
//
// Engine E2. The input stream is the one of C02 (package verifmc/cmd/c02/certs),
// parsed in STRICT mode by a pool of worker processes. For every accepted
// certificate an independent DER walker (oracle.go) locates the outer
// SEQUENCE, TBSCertificate, issuer, subject and SubjectPublicKeyInfo, and the
// raw fields, fingerprints, version, validity period and self-signed flag are
// recomputed from those bytes with the Go standard library. The CT-placement
// model (ct.go) checks that the no-CT fingerprint of canonical certificates
// does not depend on the presence or position of CT extensions.
//
// The standard library refuses RSA keys below 1024 bits by default; the oracle
// must be able to judge the old 512-bit fixtures of the repository:
//
//go:debug rsa1024min=0
package main

import (
	"bytes"
	"crypto/md5"
	"crypto/sha1"
	"crypto/sha256"
	"encoding/hex"
	"encoding/json"
	"fmt"
	"os"
	"sort"
	"strings"
	"time"

	"github.com/zmap/zcrypto/x509"
	"verifmc/cmd/c02/certs"
	"verifmc/internal/ev"
	"verifmc/internal/nohb"
	"verifmc/internal/xgen"
)

const id = "C06"

// streamConfig: the oracle is cheap, so already the quick tier takes the TLV
// menu of every certificate seed and the byte-level menu of the whole quick
// seed list; thorough = C02's thorough stream (every byte-level menu, third
// model level, pair menus).
func streamConfig(quick bool) certs.Config {
	if quick {
		return certs.Config{ModelDepth: 2, Shards: 96, AllSeeds: true, Bytes: certs.BytesQuickList, Bundles: 2}
	}
	return certs.DefaultConfig(false)
}

func mkUnits(quick bool) []certs.Unit {
	return certs.UnitsWith(streamConfig(quick), certs.CertSeeds(certs.RepoDir()), ctBundleElems())
}

func main() {
	if nohb.IsWorker() {
		nohb.WorkerMain(reentrantOps(), certs.RepoDir())
		return
	}
	if certs.IsWorker(id) {
		certs.WorkerMain(id, &handler{}, mkUnits)
		return
	}
	ev.Main(id, "model_checking", run)
}

type handler struct{}

func (h *handler) Init(w *certs.Worker) error {
	if w.Mode != "strict" {
		return fmt.Errorf("C06 runs in strict mode only")
	}
	return nil
}

func shortClass(s string) string {
	s = ev.MsgClass(s)
	if len(s) > 70 {
		s = s[:70]
	}
	return s
}

func (h *handler) Item(x *certs.ItemCtx) {
	a := x.A
	if x.U.IsBundle() {
		bundleItem(x)
		return
	}
	var c *x509.Certificate
	var err error
	if p, msg, site := ev.Try(func() { c, err = x509.ParseCertificate(x.DER) }); p {
		a.Outcome("parse:PANIC(C01's subject)@"+site+": "+shortClass(msg), 1)
		return
	}
	if err != nil || c == nil {
		if err != nil {
			a.Outcome("reject:"+shortClass(err.Error()), 1)
		}
		return
	}
	a.Accepted++
	a.Outcome("accept", 1)
	j := &judge{x: x, entry: "ParseCertificate", count: true}
	s, walked := j.certificate(c, x.DER)
	if walked && tbsEntryApplies(x) {
		j.tbsEntry(x.DER, s, c)
	}
	a.Count("evals", j.nEval)
	a.Count("ops", 1)
	if x.Idx == 0 {
		x.Sample(map[string]any{"unit": x.U.Name, "desc": x.Desc, "version": c.Version, "self_signed": c.SelfSigned, "validity_period": c.ValidityPeriod,
			"spki_subject_fingerprint": hex.EncodeToString(c.SPKISubjectFingerprint)})
	}
}

// judge compares the metadata of one parsed certificate with the oracle.
// entry names the exported function that produced it; for entry points other
// than ParseCertificate the violation signatures carry the entry point and the
// outcome classes are not counted again (count=false).
type judge struct {
	x     *certs.ItemCtx
	entry string
	count bool
	nEval int64
}

func (j *judge) bad(sig, detail string) {
	if j.entry != "ParseCertificate" {
		sig = "[" + j.entry + "] " + sig
	}
	j.x.Violation(sig, j.entry, detail)
	j.x.A.Outcome("VIOLATION: "+sig, 1)
}

func (j *judge) outcome(class string) {
	if j.count {
		j.x.A.Outcome(class, 1)
	}
}

func (j *judge) eq(field string, got, want []byte) {
	j.nEval++
	if !bytes.Equal(got, want) {
		j.bad(field+" is not the corresponding sub-encoding of the input", fmt.Sprintf("got %s want %s", hexs(got), hexs(want)))
	}
}

func (j *judge) fp(field string, got, want []byte) {
	j.nEval++
	if !bytes.Equal(got, want) {
		j.bad(field+" is not the named hash of the named bytes", fmt.Sprintf("got %x want %x", got, want))
	}
}

func h256(parts ...[]byte) []byte {
	hh := sha256.New()
	for _, p := range parts {
		hh.Write(p)
	}
	return hh.Sum(nil)
}

// certificate judges c, which an entry point returned for the complete certificate der.
func (j *judge) certificate(c *x509.Certificate, der []byte) (s skeleton, walked bool) {
	// --- fingerprints of the whole input need no walker
	j.eq("Raw", c.Raw, der)
	m5 := md5.Sum(der)
	s1 := sha1.Sum(der)
	s256 := sha256.Sum256(der)
	j.fp("FingerprintMD5", c.FingerprintMD5, m5[:])
	j.fp("FingerprintSHA1", c.FingerprintSHA1, s1[:])
	j.fp("FingerprintSHA256", c.FingerprintSHA256, s256[:])

	s, why := walk(der)
	if why != "" {
		j.outcome("walker: unsupported encoding (" + why + ")")
		return s, false
	}
	j.tbsFields(c, s)

	// --- self-signed
	same := bytes.Equal(s.issuer, s.subject)
	j.nEval++
	if c.SelfSigned && !same {
		j.bad("SelfSigned=true although issuer and subject differ", "")
	}
	if !same {
		j.outcome("selfsigned: issuer!=subject -> false")
	} else {
		v, reason := selfVerifies(s)
		switch v {
		case unjudged:
			j.outcome("selfsigned: issuer==subject, not judged: " + reason)
		case verifies:
			j.nEval++
			j.outcome("selfsigned: issuer==subject, signature verifies -> true")
			if !c.SelfSigned {
				j.bad("SelfSigned=false although issuer equals subject and the signature verifies under the certificate's own key", "algorithm "+hexs(s.innerAlg))
			}
		case fails:
			j.nEval++
			j.outcome("selfsigned: issuer==subject, signature does not verify -> false")
			if c.SelfSigned {
				j.bad("SelfSigned=true although the signature does not verify under the certificate's own key", "algorithm "+hexs(s.innerAlg))
			}
		}
	}
	return s, true
}

// tbsFields: everything that is a function of the TBSCertificate alone.
func (j *judge) tbsFields(c *x509.Certificate, s skeleton) {
	j.eq("RawTBSCertificate", c.RawTBSCertificate, s.tbs)
	j.eq("RawIssuer", c.RawIssuer, s.issuer)
	j.eq("RawSubject", c.RawSubject, s.subject)
	j.eq("RawSubjectPublicKeyInfo", c.RawSubjectPublicKeyInfo, s.spki)
	j.fp("SPKIFingerprint", c.SPKIFingerprint, h256(s.spki))
	j.fp("TBSCertificateFingerprint", c.TBSCertificateFingerprint, h256(s.tbs))
	j.fp("SPKISubjectFingerprint", c.SPKISubjectFingerprint, h256(s.spki, s.subject))
	j.nEval++
	if len(c.FingerprintNoCT) != sha256.Size {
		j.bad("FingerprintNoCT is not a SHA-256 value", fmt.Sprintf("%d bytes", len(c.FingerprintNoCT)))
	}

	// --- version
	if s.versionOK {
		j.nEval++
		if int64(c.Version) != s.version+1 {
			j.bad("Version is not the encoded version plus one", fmt.Sprintf("encoded %d, Version %d", s.version, c.Version))
		}
		j.outcome(fmt.Sprintf("version: encoded %d", s.version))
	} else {
		j.outcome("version: encoded INTEGER wider than 8 bytes (not judged)")
	}

	// --- validity period
	j.nEval++
	okOwn, sat := validityOK(c.ValidityPeriod, c.NotBefore, c.NotAfter)
	if !okOwn {
		j.bad("ValidityPeriod is not NotAfter-NotBefore in seconds", fmt.Sprintf("ValidityPeriod=%d NotBefore=%v NotAfter=%v", c.ValidityPeriod, c.NotBefore.UTC(), c.NotAfter.UTC()))
	}
	if nb, na, ok := stdValidity(s.validity); ok {
		j.nEval++
		if okStd, _ := validityOK(c.ValidityPeriod, nb, na); !okStd {
			j.bad("ValidityPeriod is not the difference of the encoded times as read by encoding/asn1", fmt.Sprintf("ValidityPeriod=%d, encoding/asn1 reads %v .. %v", c.ValidityPeriod, nb.UTC(), na.UTC()))
		}
		if sat {
			j.outcome("validity: span beyond time.Duration (exact or saturated value accepted)")
			if int64(c.ValidityPeriod) != na.Unix()-nb.Unix() {
				j.outcome("validity: ValidityPeriod is the saturated value, not the exact difference")
			}
		} else {
			j.outcome("validity: judged against encoding/asn1")
		}
	} else {
		j.outcome("validity: times not readable by encoding/asn1 (judged against NotBefore/NotAfter only)")
	}
}

func run(c *ev.Ctx) {
	cfg := streamConfig(c.Quick())
	c.Assume("the DER walker (one-byte tags, definite lengths) and the verification of self-signatures with crypto/rsa, crypto/ecdsa, crypto/dsa, crypto/ed25519 (GODEBUG rsa1024min=0) are the reference",
		"SelfSigned is compared only where the standard library can judge: inner = outer AlgorithmIdentifier, no unused bits in the signature, an algorithm OID of RFC 3279/4055/5758/8410 (RSA-PSS only with the three canonical parameter sets), a key that crypto/x509.ParsePKIXPublicKey accepts, DSA subgroup size a multiple of 8 bits; SelfSigned => issuer==subject is checked always",
		"ValidityPeriod: spans beyond +-2^63 ns (time.Duration) may be the exact difference or the saturated value (the statement is silent)",
		"FingerprintNoCT of arbitrary (non-canonical) stream certificates is only required to be a SHA-256 value; the CT model uses canonical harness-made bases only, as the statement says; across entry points it must be the SAME value for the same DER (function of the bytes)",
		"which inputs the other entry points accept is not judged (a bundle that ParseCertificates rejects although each element is accepted is counted); Raw, the whole-input fingerprints and SelfSigned of ParseTBSCertificate (no signature present) are counted, not judged; package ct/x509 is a separate copy outside the anchors of this property")

	if c.Replay != nil {
		replay(c)
		return
	}
	seeds := certs.CertSeeds(certs.RepoDir())
	work, cleanup := certs.WorkDir(id)
	defer cleanup()
	if err := certs.SaveSeeds(work+"/seeds.gob", seeds); err != nil {
		c.Broken("cannot write the seed file: %v", err)
	}
	units := certs.UnitsWith(cfg, seeds, ctBundleElems())
	if cfg.ModelDepth >= 3 {
		if got, want := certs.Level3Count(), xgen.CountAssignments(3)-xgen.CountAssignments(2); got != want {
			c.Broken("level-3 units enumerate %d assignments, the model has %d", got, want)
		}
	}
	c.Rule(certs.Describe(cfg, units) + " (check-specific bundle elements: 4 canonical CT-model bases, each also with the poison appended and with an SCT list in front). Every accepted certificate (strict mode) is compared field by field with the oracle. " +
		"ENTRY POINTS: for every bundle whose elements ParseCertificate accepts, EVERY certificate returned by x509.ParseCertificates(bundle) (each position), by JSONCertificateWithRaw.ParseRaw (each element, as a sub-slice of the bundle) and by CertPool.AppendCertsFromPEM (the bundle as PEM blocks; matched by Raw) " +
		"must agree with ParseCertificate(same DER) — itself judged by the oracle — in Raw, RawTBSCertificate, RawIssuer, RawSubject, RawSubjectPublicKeyInfo, the seven fingerprints (MD5, SHA1, SHA256, NoCT, SPKI, SPKISubject, TBS), Version, ValidityPeriod and SelfSigned; " +
		"for every accepted certificate of the model units and every unmutated seed, x509.ParseTBSCertificate(its TBSCertificate) must agree with ParseCertificate in the TBS-derived fields (RawTBSCertificate, RawIssuer, RawSubject, RawSubjectPublicKeyInfo, SPKI/SPKISubject/TBS/NoCT fingerprints, Version, ValidityPeriod). " +
		"CT-placement model: 8 canonical harness-made base certificates (extension lists of length 0..4; Ed25519, RSA, P-256 keys; self-issued and CA-issued) x every insertion of {poison, SCT list, SCT list with 2 entries} at every position and of {poison and SCT list} at every ordered pair of positions, re-signed; FingerprintNoCT must equal the base's. " +
		"distinct_nontrivial = accepted certificates")

	ctModel(c)

	budget := ev.Pick(c, 100*time.Second, 20*time.Minute)
	if v := os.Getenv("C06_BUDGET"); v != "" {
		if d, err := time.ParseDuration(v); err == nil {
			budget = d
		}
	}
	res := certs.RunPool(c, certs.PoolConfig{ID: id, Modes: []string{"strict"}, Procs: c.Workers(), Deadline: c.Start.Add(budget), Ops: []string{"", "ParseCertificate"}},
		units, certs.Order(units, c.Seed))
	if res.Broken != "" && len(res.Viol) == 0 {
		c.Broken("%s", res.Broken)
	}
	if res.Broken != "" {
		c.Incomplete("harness stopped early: " + res.Broken)
	}
	var sigs []string
	for s := range res.Viol {
		sigs = append(sigs, s)
	}
	sort.Strings(sigs)
	occ := map[string]int64{}
	for _, s := range sigs {
		c.Violation(s, res.Viol[s].W)
		occ[s] = res.Viol[s].N
	}
	if len(occ) > 0 {
		c.Set("violation_occurrences", occ)
	}
	for _, s := range res.Incomplete {
		c.Incomplete(s)
	}
	mr := res.Modes[0]
	t := mr.Total
	c.States.Add(t.Items)
	c.Traces.Add(t.Accepted)
	c.Distinct.Add(t.Accepted)
	c.Transitions.Add(t.Items)
	c.Evaluations.Add(t.Cnt["evals"])
	rejects := int64(0)
	nrej := 0
	for k, v := range t.Hist {
		if strings.HasPrefix(k, "reject:") {
			rejects += v
			nrej++
			continue
		}
		c.Outcome(k, v)
	}
	c.Outcome(fmt.Sprintf("reject (%d classes)", nrej), rejects)
	var notDone []string
	for i, u := range units {
		if !mr.Done[i] {
			notDone = append(notDone, u.Name)
		}
	}
	if len(notDone) > 0 {
		show := notDone
		if len(show) > 6 {
			show = append(append([]string(nil), show[:6]...), fmt.Sprintf("... (%d units)", len(notDone)))
		}
		c.Incomplete(fmt.Sprintf("budget reached, %d of %d units not (completely) enumerated: %s", len(notDone), len(units), strings.Join(show, ", ")))
	}
	for _, s := range t.Samples {
		c.Sample(s)
	}
	var nb int64
	for k, v := range t.Hist {
		if strings.HasPrefix(k, "bundle: ParseCertificates accepts") {
			nb += v
		}
	}
	c.Set("bundles_judged", nb)
	if nb == 0 {
		c.Incomplete("no bundle was accepted by ParseCertificates: the entry-point comparison did not run")
	}
	reentrantPhase(c)
	c.Set("units", len(units))
	c.Set("units_done", len(mr.Done))
	c.Set("candidates", t.Items)
	c.Set("accepted", t.Accepted)
	c.Set("worker_restarts", mr.Restarts)
}

// replay re-executes a witness: a stream item (in an isolated strict process) or a CT-model variant.
func replay(c *ev.Ctx) {
	var probe struct {
		Base    string `json:"base"`
		BaseDER string `json:"base_der_hex"`
		DER     string `json:"der_hex"`
	}
	json.Unmarshal(c.Replay, &probe)
	if probe.BaseDER != "" {
		bd, _ := hex.DecodeString(probe.BaseDER)
		vd, _ := hex.DecodeString(probe.DER)
		b, err1 := x509.ParseCertificate(bd)
		v, err2 := x509.ParseCertificate(vd)
		if err1 != nil || err2 != nil {
			c.Broken("CT witness does not parse: %v %v", err1, err2)
		}
		c.States.Add(1)
		if !bytes.Equal(b.FingerprintNoCT, v.FingerprintNoCT) {
			c.Violation("FingerprintNoCT differs from the base certificate's (replayed)", probe)
		}
		return
	}
	var w certs.Witness
	if err := json.Unmarshal(c.Replay, &w); err != nil || w.DER == "" {
		c.Broken("bad witness: %v", err)
	}
	acc, finished, site, msg := certs.RunSingle(c, id, "strict", w, xgen.Encode(xgen.Default()), "", false, 120*time.Second)
	c.States.Add(1)
	switch {
	case !finished:
		c.Violation("hang", w)
	case acc == nil:
		c.Violation(fmt.Sprintf("panic@%s: %s", site, certs.MsgClass(msg)), w)
	default:
		for s, v := range acc.Viol {
			c.Violation(s, v.W)
		}
		for k, v := range acc.Hist {
			c.Outcome(k, v)
		}
	}
}
