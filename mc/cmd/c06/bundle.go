package main

import (
	"bytes"
	"encoding/pem"
	"fmt"

	"github.com/zmap/zcrypto/x509"
	"verifmc/cmd/c02/certs"
	"verifmc/internal/ev"
	"verifmc/internal/xgen"
)

// Entry points. "Metadata is a function of the DER bytes": whichever exported
// function of package x509 turns the bytes of a certificate into a
// *Certificate — ParseCertificate, ParseCertificates (a concatenation: every
// position), JSONCertificateWithRaw.ParseRaw, CertPool.AppendCertsFromPEM (a
// PEM bundle), ParseTBSCertificate (the TBSCertificate alone) — the metadata
// must be that of THESE bytes, not of their neighbours in the input and not of
// what was parsed before. Every certificate an entry point returns is
// compared field by field with ParseCertificate's result for the same DER,
// which in turn is judged by the independent oracle (judge.certificate) — so a
// defect of the common parsing core keeps ONE signature, and an entry point
// that deviates gets its own. (The comparison is also what gives
// FingerprintNoCT, which has no closed-form oracle for non-canonical
// certificates, a verdict.)

// ctBundleElems: canonical CT-model certificates for the bundle alphabet — a
// base, its precertificate (poison appended) and its final certificate (SCT
// list in front), for an extension-less Ed25519 base, an Ed25519 base with
// extensions, the RSA base and the CA-issued P-256 base.
func ctBundleElems() []certs.BundleElem {
	poison := xgen.ModelExtension("poison", "critical")
	sct := xgen.ModelExtension("sct", "valid")
	var out []certs.BundleElem
	for _, b := range ctBases() {
		switch b.name {
		case "b0-ed-noext", "b3-ed-skid-akid-san", "b5-rsa-bc-skid-crldp-pol", "b6-p256-san-unknown":
		default:
			continue
		}
		out = append(out,
			certs.BundleElem{Name: "ct:" + b.name, DER: ctBuild(b, b.exts, 0x1001)},
			certs.BundleElem{Name: "ct:" + b.name + "+poison", DER: ctBuild(b, append(append([][]byte(nil), b.exts...), poison), 0x1001)},
			certs.BundleElem{Name: "ct:" + b.name + "+sct", DER: ctBuild(b, append([][]byte{sct}, b.exts...), 0x1001)})
	}
	return out
}

// tbsEntryApplies selects the stream items on which ParseTBSCertificate is driven as well: every certificate
// of the field model (all model units) and every unmutated seed.
func tbsEntryApplies(x *certs.ItemCtx) bool {
	switch x.U.Kind {
	case "model", "model3", "ties":
		return true
	}
	return x.Desc == "seed" || x.UnitIdx < 0
}

// sameAs compares every field C06 judges between the certificate an entry point returned and the result of
// ParseCertificate for the same DER (tbsOnly: the fields that are a function of the TBSCertificate alone).
// ParseCertificate's own result is judged against the independent oracle (judge.certificate), so agreement
// with it is agreement with the oracle — and a defect of the common parsing core keeps its one signature.
func (j *judge) sameAs(single, got *x509.Certificate, tbsOnly bool) {
	b := func(field string, a, g []byte) {
		j.nEval++
		if !bytes.Equal(a, g) {
			j.bad(field+" differs from what ParseCertificate gives for the same DER", fmt.Sprintf("ParseCertificate %s, %s %s", hexs(a), j.entry, hexs(g)))
		}
	}
	if !tbsOnly {
		b("Raw", single.Raw, got.Raw)
		b("FingerprintMD5", single.FingerprintMD5, got.FingerprintMD5)
		b("FingerprintSHA1", single.FingerprintSHA1, got.FingerprintSHA1)
		b("FingerprintSHA256", single.FingerprintSHA256, got.FingerprintSHA256)
	}
	b("RawTBSCertificate", single.RawTBSCertificate, got.RawTBSCertificate)
	b("RawIssuer", single.RawIssuer, got.RawIssuer)
	b("RawSubject", single.RawSubject, got.RawSubject)
	b("RawSubjectPublicKeyInfo", single.RawSubjectPublicKeyInfo, got.RawSubjectPublicKeyInfo)
	b("FingerprintNoCT", single.FingerprintNoCT, got.FingerprintNoCT)
	b("SPKIFingerprint", single.SPKIFingerprint, got.SPKIFingerprint)
	b("SPKISubjectFingerprint", single.SPKISubjectFingerprint, got.SPKISubjectFingerprint)
	b("TBSCertificateFingerprint", single.TBSCertificateFingerprint, got.TBSCertificateFingerprint)
	j.nEval += 2
	if single.Version != got.Version {
		j.bad("Version differs from what ParseCertificate gives for the same DER", fmt.Sprintf("%d vs %d", single.Version, got.Version))
	}
	if single.ValidityPeriod != got.ValidityPeriod {
		j.bad("ValidityPeriod differs from what ParseCertificate gives for the same DER", fmt.Sprintf("%d vs %d", single.ValidityPeriod, got.ValidityPeriod))
	}
	if !tbsOnly {
		j.nEval++
		if single.SelfSigned != got.SelfSigned {
			j.bad("SelfSigned differs from what ParseCertificate gives for the same DER", fmt.Sprintf("%v vs %v", single.SelfSigned, got.SelfSigned))
		}
	}
}

// tbsEntry drives ParseTBSCertificate with the TBSCertificate of an accepted certificate: the fields that are a
// function of the TBSCertificate must be those of these bytes, and the no-CT fingerprint (a hash of the
// re-encoded TBSCertificate) must be the one ParseCertificate gives. What Raw / the whole-input fingerprints /
// SelfSigned mean without a signature is not said by the statement: counted only.
func (j *judge) tbsEntry(der []byte, s skeleton, single *x509.Certificate) {
	a := j.x.A
	tbs := append([]byte(nil), s.tbs...)
	var t *x509.Certificate
	var err error
	if p, msg, site := ev.Try(func() { t, err = x509.ParseTBSCertificate(tbs) }); p {
		a.Outcome("tbs-entry: ParseTBSCertificate PANIC (C01's subject)@"+site+": "+shortClass(msg), 1)
		return
	}
	if err != nil || t == nil {
		a.Outcome("tbs-entry: ParseTBSCertificate rejects the TBSCertificate of an accepted certificate (not a subject)", 1)
		return
	}
	jt := &judge{x: j.x, entry: "ParseTBSCertificate"}
	jt.sameAs(single, t, true)
	cls := "tbs-entry: judged; Raw = the TBSCertificate"
	if !bytes.Equal(t.Raw, tbs) {
		cls = "tbs-entry: judged; Raw is not the input"
	}
	if t.SelfSigned {
		cls += ", SelfSigned=true"
	} else {
		cls += ", SelfSigned=false"
	}
	a.Outcome(cls, 1)
	j.nEval += jt.nEval
}

var singleCache = map[string]*x509.Certificate{}

// parseSingle is ParseCertificate(der), judged against the oracle the first time an element is seen by this
// worker process (the alphabet elements that are not stream items get their verdict here).
func parseSingle(x *certs.ItemCtx, der []byte) *x509.Certificate {
	if c, ok := singleCache[string(der)]; ok {
		return c
	}
	var c *x509.Certificate
	var err error
	if p, _, _ := ev.Try(func() { c, err = x509.ParseCertificate(append([]byte(nil), der...)) }); p || err != nil {
		c = nil
	}
	if c != nil {
		j := &judge{x: x, entry: "ParseCertificate"}
		j.certificate(c, der)
		x.A.Count("evals", j.nEval)
	}
	singleCache[string(der)] = c
	return c
}

func posClass(i int) string {
	if i == 0 {
		return "first position"
	}
	return "later position"
}

func bundleItem(x *certs.ItemCtx) {
	a := x.A
	var nEval int64
	defer func() { a.Count("evals", nEval); a.Count("ops", 1) }()
	parts, ok := certs.SplitBundle(x.DER)
	if !ok || len(parts) < 2 {
		x.Violation("harness: a bundle item is not a concatenation of DER elements", "ParseCertificates", "")
		return
	}
	singles := make([]*x509.Certificate, len(parts))
	for i, p := range parts {
		if singles[i] = parseSingle(x, p); singles[i] == nil {
			a.Outcome("bundle: an element is not accepted by ParseCertificate (not a subject)", 1)
			return
		}
	}

	// --- ParseCertificates: every position
	var bundle []*x509.Certificate
	var err error
	if p, msg, site := ev.Try(func() { bundle, err = x509.ParseCertificates(x.DER) }); p {
		a.Outcome("bundle: ParseCertificates PANIC (C01's subject)@"+site+": "+shortClass(msg), 1)
	} else if err != nil || len(bundle) != len(parts) {
		a.Outcome(fmt.Sprintf("bundle: ParseCertificates returns %d certificates, err=%v, for %d accepted elements (not judged)", len(bundle), err != nil, len(parts)), 1)
	} else {
		a.Accepted++
		a.Outcome(fmt.Sprintf("bundle: ParseCertificates accepts (%d certificates)", len(parts)), 1)
		for i, c := range bundle {
			j := &judge{x: x, entry: "ParseCertificates, " + posClass(i)}
			if c == nil {
				j.bad("nil certificate without an error", fmt.Sprintf("position %d", i+1))
				continue
			}
			j.sameAs(singles[i], c, false)
			nEval += j.nEval
		}
	}

	// --- JSONCertificateWithRaw.ParseRaw: every element (the same bytes as a slice of the bundle, not a copy)
	for i, p := range parts {
		var c *x509.Certificate
		jr := x509.JSONCertificateWithRaw{Raw: p}
		if pn, _, _ := ev.Try(func() { c, err = jr.ParseRaw() }); pn || err != nil || c == nil {
			a.Outcome("bundle: ParseRaw rejects an accepted element (not judged)", 1)
			continue
		}
		j := &judge{x: x, entry: "JSONCertificateWithRaw.ParseRaw"}
		j.sameAs(singles[i], c, false)
		nEval += j.nEval
	}

	// --- CertPool.AppendCertsFromPEM: the bundle as PEM blocks
	var pemBundle []byte
	for _, p := range parts {
		pemBundle = append(pemBundle, pem.EncodeToMemory(&pem.Block{Type: "CERTIFICATE", Bytes: p})...)
	}
	var got []*x509.Certificate
	if pn, msg, site := ev.Try(func() {
		pool := x509.NewCertPool()
		pool.AppendCertsFromPEM(pemBundle)
		got = pool.Certificates()
	}); pn {
		a.Outcome("bundle: AppendCertsFromPEM PANIC (C01's subject)@"+site+": "+shortClass(msg), 1)
		return
	}
	distinct := map[string]int{}
	for i, p := range parts {
		if _, ok := distinct[string(p)]; !ok {
			distinct[string(p)] = i
		}
	}
	if len(got) != len(distinct) {
		a.Outcome(fmt.Sprintf("bundle: AppendCertsFromPEM keeps %d certificates of %d distinct elements (not judged)", len(got), len(distinct)), 1)
	} else {
		a.Outcome("bundle: AppendCertsFromPEM keeps every distinct element", 1)
	}
	for _, c := range got {
		j := &judge{x: x, entry: "CertPool.AppendCertsFromPEM"}
		if c == nil {
			j.bad("nil certificate in the pool", "")
			continue
		}
		i, ok := distinct[string(c.Raw)]
		if !ok {
			j.bad("Raw is not one of the certificates of the PEM bundle", hexs(c.Raw))
			continue
		}
		j.sameAs(singles[i], c, false)
		nEval += j.nEval
	}
}
