package main

import (
	"bytes"
	"crypto"
	"crypto/ed25519"
	"crypto/elliptic"
	"crypto/rsa"
	"crypto/sha256"
	"encoding/hex"
	"fmt"
	"math/big"
	"time"

	"github.com/zmap/zcrypto/x509"
	"verifmc/internal/ev"
	"verifmc/internal/fx"
	"verifmc/internal/xgen"
)

// CT-placement model. The no-CT fingerprint is the SHA-256 of the
// TBSCertificate re-encoded WITHOUT the CT poison / SCT-list extensions (that
// is how a precertificate and its final certificate are linked). For a
// canonically (DER) encoded certificate the re-encoding reproduces every other
// byte, so the fingerprint must not depend on whether and where CT extensions
// occur. "Canonical" here: DER, v3, positive minimal serial, UTCTime validity
// before 2050, absent (not FALSE) critical flags, names and key taken verbatim
// — exactly what a re-encoder emits, so nothing else can move.

type ctBase struct {
	name  string
	exts  [][]byte // encoded Extension elements, none of them a CT extension
	key   string   // "ed" | "rsa" | "p256"
	issue bool     // issued by another name (issuer != subject)
}

func ctName(cn string) []byte {
	return xgen.Seq(xgen.Set(xgen.Seq(xgen.OID(2, 5, 4, 6), xgen.Printable("US"))), xgen.Set(xgen.Seq(xgen.OID(2, 5, 4, 3), xgen.UTF8(cn))))
}

func ctBases() []ctBase {
	bc := xgen.Extension([]int{2, 5, 29, 19}, true, xgen.Seq(xgen.Bool(true)))
	bcLeaf := xgen.Extension([]int{2, 5, 29, 19}, true, xgen.Seq())
	ku := xgen.Extension([]int{2, 5, 29, 15}, true, []byte{0x03, 0x02, 0x01, 0x06})
	kuLeaf := xgen.Extension([]int{2, 5, 29, 15}, true, []byte{0x03, 0x02, 0x07, 0x80})
	skid := xgen.Extension([]int{2, 5, 29, 14}, false, xgen.OctetString(bytes.Repeat([]byte{0xab}, 20)))
	akid := xgen.Extension([]int{2, 5, 29, 35}, false, xgen.Seq(xgen.Ctx(0, false, bytes.Repeat([]byte{0xcd}, 20))))
	san := xgen.Extension([]int{2, 5, 29, 17}, false, xgen.Seq(xgen.Ctx(2, false, []byte("ct.example")), xgen.Ctx(2, false, []byte("www.ct.example"))))
	sanCrit := xgen.Extension([]int{2, 5, 29, 17}, true, xgen.Seq(xgen.Ctx(2, false, []byte("ct.example"))))
	eku := xgen.Extension([]int{2, 5, 29, 37}, false, xgen.Seq(xgen.OID(1, 3, 6, 1, 5, 5, 7, 3, 1), xgen.OID(1, 3, 6, 1, 5, 5, 7, 3, 2)))
	aia := xgen.Extension([]int{1, 3, 6, 1, 5, 5, 7, 1, 1}, false, xgen.Seq(xgen.Seq(xgen.OID(1, 3, 6, 1, 5, 5, 7, 48, 1), xgen.Ctx(6, false, []byte("http://ocsp.ct.example/")))))
	crldp := xgen.Extension([]int{2, 5, 29, 31}, false, xgen.Seq(xgen.Seq(xgen.Ctx(0, true, xgen.Ctx(0, true, xgen.Ctx(6, false, []byte("http://crl.ct.example/a.crl")))))))
	pol := xgen.Extension([]int{2, 5, 29, 32}, false, xgen.Seq(xgen.Seq(xgen.OID(2, 23, 140, 1, 2, 1))))
	unk := xgen.Extension([]int{1, 2, 3, 4, 5}, false, xgen.OctetString([]byte{1, 2}))
	return []ctBase{
		{name: "b0-ed-noext", key: "ed"},
		{name: "b1-ed-bc", key: "ed", exts: [][]byte{bc}},
		{name: "b2-ed-ku-bc", key: "ed", exts: [][]byte{ku, bc}},
		{name: "b3-ed-skid-akid-san", key: "ed", exts: [][]byte{skid, akid, san}},
		{name: "b4-ed-ku-eku-san-aia", key: "ed", exts: [][]byte{kuLeaf, eku, san, aia}, issue: true},
		{name: "b5-rsa-bc-skid-crldp-pol", key: "rsa", exts: [][]byte{bc, skid, crldp, pol}},
		{name: "b6-p256-san-unknown", key: "p256", exts: [][]byte{sanCrit, unk}, issue: true},
		{name: "b7-ed-akid-bcleaf-san", key: "ed", exts: [][]byte{akid, bcLeaf, san}, issue: true},
	}
}

// ctBuild assembles and signs a certificate of a base with the given extension list.
func ctBuild(b ctBase, exts [][]byte, serial int64) []byte {
	subj := ctName("ct base " + b.name)
	issuer := subj
	if b.issue {
		issuer = ctName("ct issuing ca")
	}
	var spki, alg []byte
	switch b.key {
	case "rsa":
		k := fx.StdRSA("rsa1024")
		spki = xgen.Seq(xgen.Seq(xgen.OID(1, 2, 840, 113549, 1, 1, 1), xgen.Null()), xgen.BitString(xgen.Seq(xgen.BigInt(k.N), xgen.Int(int64(k.E)))))
		alg = xgen.Seq(xgen.OID(1, 2, 840, 113549, 1, 1, 11), xgen.Null())
	case "p256":
		k := fx.EC("p256")
		spki = xgen.Seq(xgen.Seq(xgen.OID(1, 2, 840, 10045, 2, 1), xgen.OID(1, 2, 840, 10045, 3, 1, 7)), xgen.BitString(elliptic.Marshal(k.Curve, k.X, k.Y)))
		alg = xgen.Seq(xgen.OID(1, 2, 840, 10045, 4, 3, 2))
	default:
		k := fx.Ed("c06-ct-" + b.name)
		spki = xgen.Seq(xgen.Seq(xgen.OID(1, 3, 101, 112)), xgen.BitString(k.Public().(ed25519.PublicKey)))
		alg = xgen.Seq(xgen.OID(1, 3, 101, 112))
	}
	if b.issue {
		alg = xgen.Seq(xgen.OID(1, 3, 101, 112)) // signed by the issuing CA's Ed25519 key
	}
	var extPart []byte
	if len(exts) > 0 {
		extPart = xgen.Explicit(3, xgen.Seq(exts...))
	}
	tbs := xgen.Seq(xgen.Explicit(0, xgen.Int(2)), xgen.BigInt(big.NewInt(serial)), alg, issuer,
		xgen.Seq(xgen.UTCTime(fx.T0.Add(-24*time.Hour)), xgen.UTCTime(fx.T0.Add(90*24*time.Hour))), subj, spki, extPart)
	var sig []byte
	switch {
	case b.issue:
		sig = ed25519.Sign(fx.Ed("c06-ct-issuing-ca"), tbs)
	case b.key == "rsa":
		d := sha256.Sum256(tbs)
		sig, _ = rsa.SignPKCS1v15(nil, fx.StdRSA("rsa1024"), crypto.SHA256, d[:])
	case b.key == "p256":
		d := sha256.Sum256(tbs)
		sig, _ = fx.EC("p256").Sign(nil, d[:], crypto.SHA256) // RFC 6979
	default:
		sig = ed25519.Sign(fx.Ed("c06-ct-"+b.name), tbs)
	}
	return xgen.AssembleCert(tbs, alg, sig)
}

type ctWitness struct {
	Base      string   `json:"base"`
	Placement string   `json:"placement"`
	Layout    []string `json:"extension_layout"`
	DER       string   `json:"der_hex"`
	BaseDER   string   `json:"base_der_hex"`
	Got       string   `json:"fingerprint_noct"`
	Want      string   `json:"fingerprint_noct_of_base"`
}

// ctModel runs the CT-placement model in this (strict) process.
func ctModel(c *ev.Ctx) {
	poison := xgen.ModelExtension("poison", "critical")
	sct := xgen.ModelExtension("sct", "valid")
	sct2 := xgen.ModelExtension("sct", "two")
	variants, bases := 0, 0
	for _, b := range ctBases() {
		baseDER := ctBuild(b, b.exts, 0x1001)
		var bc *x509.Certificate
		var err error
		if p, msg, site := ev.Try(func() { bc, err = x509.ParseCertificate(baseDER) }); p || err != nil {
			c.Broken("CT model: base %s is not accepted by the parser: %v %s %s", b.name, err, site, msg)
		}
		bases++
		// the harness's idea of "canonical": the walker finds the skeleton, and hashing the TBS after
		// removing nothing gives the same bytes back (checked through the property for the base itself
		// only when it has extensions: an absent extension list may be re-encoded either way)
		want := bc.FingerprintNoCT
		L := len(b.exts)
		type placement struct {
			name string
			ins  map[int][][]byte // slot -> CT extensions inserted before base extension #slot (slot L = at the end)
		}
		var pls []placement
		for p := 0; p <= L; p++ {
			pls = append(pls,
				placement{fmt.Sprintf("poison@%d", p), map[int][][]byte{p: {poison}}},
				placement{fmt.Sprintf("sct@%d", p), map[int][][]byte{p: {sct}}},
				placement{fmt.Sprintf("sct(2 entries)@%d", p), map[int][][]byte{p: {sct2}}})
			for q := 0; q <= L; q++ {
				switch {
				case p == q:
					pls = append(pls,
						placement{fmt.Sprintf("poison,sct@%d", p), map[int][][]byte{p: {poison, sct}}},
						placement{fmt.Sprintf("sct,poison@%d", p), map[int][][]byte{p: {sct, poison}}})
				default:
					pls = append(pls, placement{fmt.Sprintf("poison@%d+sct@%d", p, q), map[int][][]byte{p: {poison}, q: {sct}}})
				}
			}
		}
		for _, pl := range pls {
			var exts [][]byte
			var layout []string
			for slot := 0; slot <= L; slot++ {
				for _, e := range pl.ins[slot] {
					exts = append(exts, e)
					if bytes.Equal(e, poison) {
						layout = append(layout, "POISON")
					} else {
						layout = append(layout, "SCT")
					}
				}
				if slot < L {
					exts = append(exts, b.exts[slot])
					layout = append(layout, fmt.Sprintf("base#%d", slot))
				}
			}
			der := ctBuild(b, exts, 0x1001)
			variants++
			c.Transitions.Add(1)
			var vc *x509.Certificate
			if p, msg, site := ev.Try(func() { vc, err = x509.ParseCertificate(der) }); p {
				c.Outcome("ct-model: parser panic (C01's subject) "+site+": "+ev.MsgClass(msg), 1)
				continue
			} else if err != nil {
				c.Outcome("ct-model: variant rejected: "+ev.MsgClass(err.Error()), 1)
				continue
			}
			c.Evaluations.Add(1)
			if !bytes.Equal(vc.FingerprintNoCT, want) {
				class := "CT extensions added to an extension-less certificate"
				if L > 0 {
					class = "placement-dependent"
					// is it the same for every placement of the same kind at a different slot?
				}
				kind := "poison"
				switch {
				case len(pl.ins) == 2 || len(pl.ins[firstKey(pl.ins)]) == 2:
					kind = "poison+sct"
				case !bytes.Equal(pl.ins[firstKey(pl.ins)][0], poison):
					kind = "sct"
				}
				c.Violation(fmt.Sprintf("FingerprintNoCT differs from the base certificate's after inserting %s (%s)", kind, class),
					ctWitness{Base: b.name, Placement: pl.name, Layout: layout, DER: hex.EncodeToString(der), BaseDER: hex.EncodeToString(baseDER),
						Got: hex.EncodeToString(vc.FingerprintNoCT), Want: hex.EncodeToString(want)})
				c.Outcome("ct-model: FingerprintNoCT DIFFERS", 1)
			} else {
				c.Outcome("ct-model: FingerprintNoCT equal to base", 1)
			}
			// the ordinary fingerprints must of course differ from the base's (sanity of the model:
			// the variants really are different certificates)
			if bytes.Equal(vc.FingerprintSHA256, bc.FingerprintSHA256) {
				c.Broken("CT model: variant %s of %s is byte-identical to its base", pl.name, b.name)
			}
			if !vc.IsPrecert && bytes.Contains([]byte(pl.name), []byte("poison")) {
				c.Outcome("ct-model: poison present but IsPrecert=false", 1)
			}
		}
	}
	c.Set("ct_model", map[string]any{"bases": bases, "variants": variants})
}

func firstKey(m map[int][][]byte) int {
	k := -1
	for i := range m {
		if k < 0 || i < k {
			k = i
		}
	}
	return k
}
