package main

import (
	"bytes"
	"crypto"
	"crypto/dsa"
	"crypto/ecdsa"
	"crypto/ed25519"
	"crypto/md5"
	"crypto/rsa"
	"crypto/sha1"
	"crypto/sha256"
	"crypto/sha512"
	stdx509 "crypto/x509"
	stdasn1 "encoding/asn1"
	"fmt"
	"math"
	"math/big"
	"time"

	"golang.org/x/crypto/cryptobyte"
	cbasn1 "golang.org/x/crypto/cryptobyte/asn1"
)

// ---------------------------------------------------------------------------
// minimal DER walker (independent of zcrypto and of xgen): one-byte tags,
// definite lengths (short form or 1..4 length octets).

type tlv struct {
	tag        byte
	start      int // offset of the identifier octet
	body, end  int // content = b[body:end]
	minimalLen bool
}

func readTLV(b []byte, off int) (t tlv, ok bool) {
	if off < 0 || off+2 > len(b) {
		return t, false
	}
	t.start = off
	t.tag = b[off]
	if t.tag&0x1f == 0x1f {
		return t, false // multi-byte tag: not needed for the certificate skeleton
	}
	l := int(b[off+1])
	p := off + 2
	t.minimalLen = true
	if l&0x80 != 0 {
		n := l & 0x7f
		if n == 0 || n > 4 || p+n > len(b) {
			return t, false
		}
		l = 0
		for i := 0; i < n; i++ {
			l = l<<8 | int(b[p+i])
		}
		if l < 0x80 || b[p] == 0 {
			t.minimalLen = false
		}
		p += n
	}
	if l < 0 || p+l > len(b) {
		return t, false
	}
	t.body, t.end = p, p+l
	return t, true
}

// firstChildren reads the first n elements of the content of parent (what
// follows them is not looked at: the certificate parser ignores trailing
// elements of a SEQUENCE, and the skeleton only needs the leading ones).
func firstChildren(b []byte, parent tlv, n int) ([]tlv, bool) {
	var out []tlv
	off := parent.body
	for len(out) < n {
		if off >= parent.end {
			return out, false
		}
		c, ok := readTLV(b[:parent.end], off)
		if !ok {
			return out, false
		}
		out = append(out, c)
		off = c.end
	}
	return out, true
}

// skeleton are the byte ranges the property statement talks about.
type skeleton struct {
	whole, tbs, issuer, validity, subject, spki []byte
	innerAlg, outerAlg                          []byte // complete AlgorithmIdentifier TLVs
	sigBits                                     []byte // content of the signature BIT STRING (unused-bits octet + bytes)
	version                                     int64  // encoded version (0 when the [0] element is absent)
	versionOK                                   bool
}

func slice(b []byte, t tlv) []byte { return b[t.start:t.end] }

// walk locates the skeleton of a certificate; why != "" when the walker does
// not support the encoding (never a verdict, only counted).
func walk(der []byte) (s skeleton, why string) {
	outer, ok := readTLV(der, 0)
	if !ok || outer.tag != 0x30 {
		return s, "outer element is not a definite-length SEQUENCE"
	}
	if outer.end != len(der) {
		return s, "outer SEQUENCE does not span the input"
	}
	s.whole = der
	top, ok := firstChildren(der, outer, 3)
	if !ok {
		return s, "Certificate has fewer than 3 readable elements"
	}
	if top[0].tag != 0x30 || top[2].tag != 0x03 {
		return s, "Certificate elements have unexpected tags"
	}
	s.tbs = slice(der, top[0])
	s.outerAlg = slice(der, top[1])
	s.sigBits = der[top[2].body:top[2].end]
	i := 0
	s.versionOK = true
	if first, ok := firstChildren(der, top[0], 1); ok && first[0].tag == 0xa0 {
		vk, ok := firstChildren(der, first[0], 1)
		if !ok || vk[0].tag != 0x02 {
			return s, "version wrapper does not start with an INTEGER"
		}
		if vk[0].end != first[0].end {
			// e.g. a0 7f 02 01 02: the parser (like encoding/asn1) reads the INTEGER and continues right
			// after it, ignoring the length the EXPLICIT wrapper declares; by the DER rules the following
			// fields are somewhere else. Such an input has no agreed skeleton: not judged (parser
			// strictness is the subject of C19/C20).
			return s, "EXPLICIT version wrapper whose declared length differs from its INTEGER (non-DER input accepted by the parser)"
		}
		c := der[vk[0].body:vk[0].end]
		if len(c) == 0 || len(c) > 8 {
			s.versionOK = false
		} else {
			v := int64(int8(c[0]))
			for _, x := range c[1:] {
				v = v<<8 | int64(x)
			}
			s.version = v
		}
		i = 1
	}
	k, ok := firstChildren(der, top[0], i+6)
	if !ok {
		return s, "TBSCertificate has fewer than the mandatory elements in readable form"
	}
	// serial k[i], signature k[i+1], issuer k[i+2], validity k[i+3], subject k[i+4], spki k[i+5]
	s.innerAlg = slice(der, k[i+1])
	s.issuer = slice(der, k[i+2])
	s.validity = slice(der, k[i+3])
	s.subject = slice(der, k[i+4])
	s.spki = slice(der, k[i+5])
	return s, ""
}

// ---------------------------------------------------------------------------
// "the signature verifies under the certificate's own key" per the Go
// standard library

type verdict int

const (
	unjudged verdict = iota // the standard library cannot judge this key/algorithm: no comparison
	verifies
	fails
)

var (
	oidMD5RSA    = stdasn1.ObjectIdentifier{1, 2, 840, 113549, 1, 1, 4}
	oidSHA1RSA   = stdasn1.ObjectIdentifier{1, 2, 840, 113549, 1, 1, 5}
	oidSHA1RSAi  = stdasn1.ObjectIdentifier{1, 3, 14, 3, 2, 29}
	oidSHA256RSA = stdasn1.ObjectIdentifier{1, 2, 840, 113549, 1, 1, 11}
	oidSHA384RSA = stdasn1.ObjectIdentifier{1, 2, 840, 113549, 1, 1, 12}
	oidSHA512RSA = stdasn1.ObjectIdentifier{1, 2, 840, 113549, 1, 1, 13}
	oidPSS       = stdasn1.ObjectIdentifier{1, 2, 840, 113549, 1, 1, 10}
	oidDSASHA1   = stdasn1.ObjectIdentifier{1, 2, 840, 10040, 4, 3}
	oidDSASHA256 = stdasn1.ObjectIdentifier{2, 16, 840, 1, 101, 3, 4, 3, 2}
	oidECSHA1    = stdasn1.ObjectIdentifier{1, 2, 840, 10045, 4, 1}
	oidECSHA256  = stdasn1.ObjectIdentifier{1, 2, 840, 10045, 4, 3, 2}
	oidECSHA384  = stdasn1.ObjectIdentifier{1, 2, 840, 10045, 4, 3, 3}
	oidECSHA512  = stdasn1.ObjectIdentifier{1, 2, 840, 10045, 4, 3, 4}
	oidEd25519   = stdasn1.ObjectIdentifier{1, 3, 101, 112}
	oidSHA256    = stdasn1.ObjectIdentifier{2, 16, 840, 1, 101, 3, 4, 2, 1}
	oidSHA384    = stdasn1.ObjectIdentifier{2, 16, 840, 1, 101, 3, 4, 2, 2}
	oidSHA512    = stdasn1.ObjectIdentifier{2, 16, 840, 1, 101, 3, 4, 2, 3}
	oidMGF1      = stdasn1.ObjectIdentifier{1, 2, 840, 113549, 1, 1, 8}
	derNull      = []byte{0x05, 0x00}
)

type algID struct {
	Algorithm  stdasn1.ObjectIdentifier
	Parameters stdasn1.RawValue `asn1:"optional"`
}

type pssParams struct {
	Hash    algID `asn1:"explicit,tag:0"`
	MGF     algID `asn1:"explicit,tag:1"`
	Salt    int   `asn1:"explicit,tag:2"`
	Trailer int   `asn1:"optional,explicit,tag:3,default:1"`
}

func digest(h crypto.Hash, msg []byte) []byte {
	switch h {
	case crypto.MD5:
		d := md5.Sum(msg)
		return d[:]
	case crypto.SHA1:
		d := sha1.Sum(msg)
		return d[:]
	case crypto.SHA256:
		d := sha256.Sum256(msg)
		return d[:]
	case crypto.SHA384:
		d := sha512.Sum384(msg)
		return d[:]
	case crypto.SHA512:
		d := sha512.Sum512(msg)
		return d[:]
	}
	return nil
}

// selfVerifies decides whether the signature over tbs verifies under the key
// in spki. It returns unjudged (with a reason class) whenever the standard
// library has no opinion: unknown algorithm, a key crypto/x509 does not parse,
// inner/outer algorithm mismatch, an algorithm of another key family than the
// key, unused bits in the signature, non-canonical
// RSA-PSS parameters, DSA subgroup sizes that are not a multiple of 8 bits.
func selfVerifies(s skeleton) (verdict, string) {
	if !bytes.Equal(s.innerAlg, s.outerAlg) {
		return unjudged, "inner and outer signature algorithm differ"
	}
	if len(s.sigBits) < 1 || s.sigBits[0] != 0 {
		return unjudged, "signature BIT STRING with unused bits or without the unused-bits octet"
	}
	sig := s.sigBits[1:]
	var ai algID
	if rest, err := stdasn1.Unmarshal(s.innerAlg, &ai); err != nil || len(rest) != 0 {
		return unjudged, "AlgorithmIdentifier not readable by encoding/asn1"
	}
	type scheme int
	const (
		sRSA scheme = iota
		sPSS
		sDSA
		sEC
		sEd
	)
	var sc scheme
	var h crypto.Hash
	a := ai.Algorithm
	switch {
	case a.Equal(oidMD5RSA):
		sc, h = sRSA, crypto.MD5
	case a.Equal(oidSHA1RSA), a.Equal(oidSHA1RSAi):
		sc, h = sRSA, crypto.SHA1
	case a.Equal(oidSHA256RSA):
		sc, h = sRSA, crypto.SHA256
	case a.Equal(oidSHA384RSA):
		sc, h = sRSA, crypto.SHA384
	case a.Equal(oidSHA512RSA):
		sc, h = sRSA, crypto.SHA512
	case a.Equal(oidDSASHA1):
		sc, h = sDSA, crypto.SHA1
	case a.Equal(oidDSASHA256):
		sc, h = sDSA, crypto.SHA256
	case a.Equal(oidECSHA1):
		sc, h = sEC, crypto.SHA1
	case a.Equal(oidECSHA256):
		sc, h = sEC, crypto.SHA256
	case a.Equal(oidECSHA384):
		sc, h = sEC, crypto.SHA384
	case a.Equal(oidECSHA512):
		sc, h = sEC, crypto.SHA512
	case a.Equal(oidEd25519):
		sc = sEd
	case a.Equal(oidPSS):
		var p pssParams
		if rest, err := stdasn1.Unmarshal(ai.Parameters.FullBytes, &p); err != nil || len(rest) != 0 {
			return unjudged, "RSA-PSS parameters not canonical"
		}
		var mh algID
		if rest, err := stdasn1.Unmarshal(p.MGF.Parameters.FullBytes, &mh); err != nil || len(rest) != 0 {
			return unjudged, "RSA-PSS parameters not canonical"
		}
		switch {
		case p.Hash.Algorithm.Equal(oidSHA256) && p.Salt == 32:
			h = crypto.SHA256
		case p.Hash.Algorithm.Equal(oidSHA384) && p.Salt == 48:
			h = crypto.SHA384
		case p.Hash.Algorithm.Equal(oidSHA512) && p.Salt == 64:
			h = crypto.SHA512
		default:
			return unjudged, "RSA-PSS parameters not canonical"
		}
		if !bytes.Equal(p.Hash.Parameters.FullBytes, derNull) || !p.MGF.Algorithm.Equal(oidMGF1) || !mh.Algorithm.Equal(p.Hash.Algorithm) ||
			!bytes.Equal(mh.Parameters.FullBytes, derNull) || p.Trailer != 1 {
			return unjudged, "RSA-PSS parameters not canonical"
		}
		sc = sPSS
	default:
		return unjudged, "signature algorithm unknown to the oracle"
	}
	pub, err := stdx509.ParsePKIXPublicKey(s.spki)
	if err != nil {
		return unjudged, "crypto/x509 does not parse the public key"
	}
	switch k := pub.(type) {
	case *rsa.PublicKey:
		if sc != sRSA && sc != sPSS {
			return unjudged, crossFamily
		}
		d := digest(h, s.tbs)
		if sc == sPSS {
			if rsa.VerifyPSS(k, h, d, sig, &rsa.PSSOptions{SaltLength: rsa.PSSSaltLengthEqualsHash}) == nil {
				return verifies, ""
			}
			return fails, ""
		}
		if rsa.VerifyPKCS1v15(k, h, d, sig) == nil {
			return verifies, ""
		}
		return fails, ""
	case *ecdsa.PublicKey:
		if sc != sEC {
			return unjudged, crossFamily
		}
		if ecdsa.VerifyASN1(k, digest(h, s.tbs), sig) {
			return verifies, ""
		}
		return fails, ""
	case ed25519.PublicKey:
		if sc != sEd {
			return unjudged, crossFamily
		}
		if len(k) == ed25519.PublicKeySize && ed25519.Verify(k, s.tbs, sig) {
			return verifies, ""
		}
		return fails, ""
	case *dsa.PublicKey:
		if sc != sDSA {
			return unjudged, crossFamily
		}
		if k.Q == nil || k.Q.Sign() <= 0 || k.Q.BitLen()%8 != 0 {
			return unjudged, "DSA subgroup size is not a multiple of 8 bits"
		}
		// strict DER SEQUENCE { r INTEGER, s INTEGER }, both positive (as ecdsa.VerifyASN1 reads it)
		var r, sv big.Int
		in := cryptobyte.String(sig)
		var inner cryptobyte.String
		if !in.ReadASN1(&inner, cbasn1.SEQUENCE) || !in.Empty() || !inner.ReadASN1Integer(&r) || !inner.ReadASN1Integer(&sv) || !inner.Empty() {
			return fails, ""
		}
		if r.Sign() <= 0 || sv.Sign() <= 0 {
			return fails, ""
		}
		d := digest(h, s.tbs)
		if n := k.Q.BitLen() / 8; len(d) > n {
			d = d[:n] // FIPS 186-4 4.6: leftmost min(N, outlen) bits
		}
		if dsa.Verify(k, d, &r, &sv) {
			return verifies, ""
		}
		return fails, ""
	}
	// a key kind that cannot sign (X25519 ...)
	return fails, ""
}

// crossFamily: the declared algorithm belongs to another key family than the
// key (e.g. sha256WithRSAEncryption on a certificate with an ECDSA key).
// crypto/x509 refuses such certificates before any verification; "verifies
// under its own key" has no agreed meaning there (zcrypto lets the key type
// pick the primitive — C03 counts that leniency separately), so no comparison.
const crossFamily = "the declared algorithm belongs to another key family than the key"

// stdValidity reads the Validity SEQUENCE with encoding/asn1.
func stdValidity(validity []byte) (nb, na time.Time, ok bool) {
	var v struct{ NotBefore, NotAfter time.Time }
	rest, err := stdasn1.Unmarshal(validity, &v)
	if err != nil || len(rest) != 0 {
		return nb, na, false
	}
	return v.NotBefore, v.NotAfter, true
}

// validityOK: ValidityPeriod must be NotAfter-NotBefore in seconds. time.Time.Sub saturates at
// +-2^63 ns (~292 years); the statement is silent on spans beyond that, so the saturated value is
// accepted as well there.
func validityOK(period int, nb, na time.Time) (ok bool, saturating bool) {
	exact := na.Unix() - nb.Unix()
	lim := int64(math.MaxInt64 / int64(time.Second))
	if exact > lim || exact < -lim {
		sat := int64(time.Duration(math.MaxInt64).Seconds())
		if exact < 0 {
			sat = int64(time.Duration(math.MinInt64).Seconds())
		}
		return int64(period) == exact || int64(period) == sat, true
	}
	return int64(period) == exact, false
}

func hexs(b []byte) string {
	if len(b) > 24 {
		return fmt.Sprintf("%x…(%d bytes)", b[:24], len(b))
	}
	return fmt.Sprintf("%x", b)
}
