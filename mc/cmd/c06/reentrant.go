package main

// Re-entrancy pass (internal/nohb): "metadata is a function of the DER bytes" must also hold when two
// certificates are parsed (or serialised) by different goroutines. Every ordered pair of the call menu below is
// run as "first call to completion, then the second on another goroutine" without a happens-before edge, in a
// -race build: ThreadSanitizer reports every location both calls touch unsynchronised, i.e. every hidden shared
// state through which concurrent parses could mix their results — for all interleavings at once.

import (
	"encoding/json"
	"os"
	"sort"
	"time"

	"github.com/zmap/zcrypto/x509"
	"verifmc/cmd/c02/certs"
	"verifmc/internal/ev"
	"verifmc/internal/nohb"
	"verifmc/internal/xgen"
)

// reentrantSeeds: the minted CA/leaf pairs (every key kind) and the largest, the smallest and two middle
// repository fixtures that parse.
func reentrantSeeds() []xgen.Seed {
	var out []xgen.Seed
	out = append(out, xgen.MintedSeeds()...)
	var fixtures []xgen.Seed
	for _, s := range xgen.OfKind(xgen.LoadSeeds(certs.RepoDir()), "cert") {
		if _, err := x509.ParseCertificate(s.Data); err == nil {
			fixtures = append(fixtures, s)
		}
	}
	sort.SliceStable(fixtures, func(i, j int) bool { return len(fixtures[i].Data) < len(fixtures[j].Data) })
	if n := len(fixtures); n > 0 {
		for _, i := range []int{0, n / 3, 2 * n / 3, n - 1} {
			out = append(out, fixtures[i])
		}
	}
	return out
}

func reentrantOps() []nohb.Op {
	var ops []nohb.Op
	for _, s := range reentrantSeeds() {
		der := s.Data
		ops = append(ops, nohb.Op{Name: "ParseCertificate(" + s.Name + ")", New: func() func() {
			d := append([]byte(nil), der...)
			return func() { x509.ParseCertificate(d) }
		}})
		// called directly: encoding/json takes its encoder state from a sync.Pool around MarshalJSON, and that
		// Put/Get pair is a happens-before edge that would hide races inside the method
		ops = append(ops, nohb.Op{Name: "(*Certificate).MarshalJSON(own parse of " + s.Name + ")", New: func() func() {
			c, err := x509.ParseCertificate(append([]byte(nil), der...))
			return func() {
				if err == nil {
					c.MarshalJSON()
				}
			}
		}})
		ops = append(ops, nohb.Op{Name: "json.Marshal(own parse of " + s.Name + ")", New: func() func() {
			c, err := x509.ParseCertificate(append([]byte(nil), der...))
			return func() {
				if err == nil {
					json.Marshal(c)
				}
			}
		}})
	}
	return ops
}

func reentrantPhase(c *ev.Ctx) {
	o := nohb.Run(os.Getenv("VERIF_RACE_BIN"), nil, 10*time.Minute)
	if o.Broken != "" {
		c.Broken("re-entrancy pass: %s", o.Broken)
	}
	for _, sig := range o.Sigs() {
		c.Violation("re-entrancy: two calls on different goroutines share unsynchronised state: "+sig, map[string]any{"pair": o.Races[sig], "kind": "nohb"})
	}
	for k, v := range o.Panics {
		c.Violation("re-entrancy: "+k, map[string]any{"pair": v, "kind": "nohb"})
	}
	c.Outcome("re-entrancy pairs without a report", int64(o.Pairs))
	c.States.Add(int64(o.Pairs))
	c.Traces.Add(int64(o.Pairs))
	c.Set("reentrancy", map[string]any{"calls": o.Ops, "ordered_pairs": o.Pairs, "race_signatures": len(o.Races), "harness_only_reports": o.Harness, "canary_ok": o.CanaryOK})
}
