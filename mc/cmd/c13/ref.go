// Reference side of C13: an independent RFC 6960 decoder/encoder written on the
// Go STANDARD library (encoding/asn1, crypto/rsa, crypto/ecdsa, crypto/ed25519,
// crypto/x509 for SubjectPublicKeyInfo decoding only). Nothing in this file
// imports zcrypto.
package main

import (
	"bytes"
	"crypto"
	"crypto/ecdsa"
	"crypto/ed25519"
	_ "crypto/md5"
	"crypto/rsa"
	_ "crypto/sha1"
	_ "crypto/sha256"
	_ "crypto/sha512"
	stdx509 "crypto/x509"
	"encoding/asn1"
	"errors"
	"fmt"
	"math/big"
	"time"
)

// ---- RFC 6960 structures (standard encoding/asn1) ----

type sAlgID struct {
	Algorithm  asn1.ObjectIdentifier
	Parameters asn1.RawValue `asn1:"optional"`
}

type sCertID struct {
	Hash     sAlgID
	NameHash []byte
	KeyHash  []byte
	Serial   *big.Int
}

type sExt struct {
	ID       asn1.ObjectIdentifier
	Critical bool `asn1:"optional"`
	Value    []byte
}

type sSingle struct {
	CertID     sCertID
	Status     asn1.RawValue
	ThisUpdate time.Time `asn1:"generalized"`
	NextUpdate time.Time `asn1:"generalized,explicit,tag:0,optional"`
	Exts       []sExt    `asn1:"explicit,tag:1,optional"`
}

type sRespData struct {
	Raw         asn1.RawContent
	Version     int `asn1:"optional,default:0,explicit,tag:0"`
	ResponderID asn1.RawValue
	ProducedAt  time.Time `asn1:"generalized"`
	Responses   []sSingle
	RespExts    []sExt `asn1:"explicit,tag:1,optional"`
}

// sBasicRaw is BasicOCSPResponse with the tbsResponseData kept as raw bytes
// (used both for decoding and for assembling harness-built bodies).
type sBasicRaw struct {
	TBS    asn1.RawValue
	SigAlg sAlgID
	Sig    asn1.BitString
	Certs  []asn1.RawValue `asn1:"explicit,tag:0,optional"`
}

type sRespBytes struct {
	Type     asn1.ObjectIdentifier
	Response []byte
}

type sOCSP struct {
	Status asn1.Enumerated
	Bytes  sRespBytes `asn1:"explicit,tag:0,optional"`
}

type sRevoked struct {
	Time   time.Time       `asn1:"generalized"`
	Reason asn1.Enumerated `asn1:"explicit,tag:0,optional"`
}

type sRequestCert struct {
	Cert sCertID
}
type sTBSRequest struct {
	Version     int           `asn1:"explicit,tag:0,default:0,optional"`
	Requestor   asn1.RawValue `asn1:"explicit,tag:1,optional"`
	RequestList []sRequestCert
}
type sRequest struct {
	TBS sTBSRequest
}

var (
	oidBasic  = asn1.ObjectIdentifier{1, 3, 6, 1, 5, 5, 7, 48, 1, 1}
	oidSHA1   = asn1.ObjectIdentifier{1, 3, 14, 3, 2, 26}
	oidSHA256 = asn1.ObjectIdentifier{2, 16, 840, 1, 101, 3, 4, 2, 1}
	oidSHA384 = asn1.ObjectIdentifier{2, 16, 840, 1, 101, 3, 4, 2, 2}
	oidSHA512 = asn1.ObjectIdentifier{2, 16, 840, 1, 101, 3, 4, 2, 3}

	oidMD5RSA      = asn1.ObjectIdentifier{1, 2, 840, 113549, 1, 1, 4}
	oidSHA1RSA     = asn1.ObjectIdentifier{1, 2, 840, 113549, 1, 1, 5}
	oidSHA256RSA   = asn1.ObjectIdentifier{1, 2, 840, 113549, 1, 1, 11}
	oidSHA384RSA   = asn1.ObjectIdentifier{1, 2, 840, 113549, 1, 1, 12}
	oidSHA512RSA   = asn1.ObjectIdentifier{1, 2, 840, 113549, 1, 1, 13}
	oidECDSASHA1   = asn1.ObjectIdentifier{1, 2, 840, 10045, 4, 1}
	oidECDSASHA256 = asn1.ObjectIdentifier{1, 2, 840, 10045, 4, 3, 2}
	oidECDSASHA384 = asn1.ObjectIdentifier{1, 2, 840, 10045, 4, 3, 3}
	oidECDSASHA512 = asn1.ObjectIdentifier{1, 2, 840, 10045, 4, 3, 4}
	oidEd25519     = asn1.ObjectIdentifier{1, 3, 101, 112}
)

func hashByOID(o asn1.ObjectIdentifier) crypto.Hash {
	switch {
	case o.Equal(oidSHA1):
		return crypto.SHA1
	case o.Equal(oidSHA256):
		return crypto.SHA256
	case o.Equal(oidSHA384):
		return crypto.SHA384
	case o.Equal(oidSHA512):
		return crypto.SHA512
	}
	return 0
}

func oidOfHash(h crypto.Hash) asn1.ObjectIdentifier {
	switch h {
	case crypto.SHA1:
		return oidSHA1
	case crypto.SHA256:
		return oidSHA256
	case crypto.SHA384:
		return oidSHA384
	case crypto.SHA512:
		return oidSHA512
	}
	return nil
}

// sigOID gives the signature algorithm identifier for (key kind, hash).
func sigOID(kind string, h crypto.Hash) (asn1.ObjectIdentifier, bool) {
	switch kind {
	case "rsa":
		switch h {
		case crypto.MD5:
			return oidMD5RSA, true
		case crypto.SHA1:
			return oidSHA1RSA, true
		case crypto.SHA256:
			return oidSHA256RSA, true
		case crypto.SHA384:
			return oidSHA384RSA, true
		case crypto.SHA512:
			return oidSHA512RSA, true
		}
	case "ec":
		switch h {
		case crypto.SHA1:
			return oidECDSASHA1, true
		case crypto.SHA256:
			return oidECDSASHA256, true
		case crypto.SHA384:
			return oidECDSASHA384, true
		case crypto.SHA512:
			return oidECDSASHA512, true
		}
	case "ed":
		return oidEd25519, true
	}
	return nil, false
}

// refSingle is the decoded meaning of one SingleResponse.
type refSingle struct {
	Status     int // 0 good, 1 revoked, 2 unknown
	Serial     *big.Int
	ThisUpdate time.Time
	NextUpdate time.Time
	RevokedAt  time.Time
	Reason     int
	HashOID    asn1.ObjectIdentifier
	NameHash   []byte
	KeyHash    []byte
	Exts       []sExt
}

type refTBS struct {
	ProducedAt    time.Time
	ResponderTag  int
	ResponderBody []byte // content of the explicit [1]/[2] wrapper
	Singles       []refSingle
}

// decodeTBS decodes a DER ResponseData.
func decodeTBS(tbs []byte) (*refTBS, error) {
	var rd sRespData
	rest, err := asn1.Unmarshal(tbs, &rd)
	if err != nil {
		return nil, err
	}
	if len(rest) != 0 {
		return nil, errors.New("trailing bytes after ResponseData")
	}
	out := &refTBS{ProducedAt: rd.ProducedAt}
	if rd.ResponderID.Class != asn1.ClassContextSpecific {
		return nil, errors.New("responderID is not context-specific")
	}
	out.ResponderTag = rd.ResponderID.Tag
	out.ResponderBody = rd.ResponderID.Bytes
	for _, s := range rd.Responses {
		rs := refSingle{Serial: s.CertID.Serial, ThisUpdate: s.ThisUpdate, NextUpdate: s.NextUpdate,
			HashOID: s.CertID.Hash.Algorithm, NameHash: s.CertID.NameHash, KeyHash: s.CertID.KeyHash, Exts: s.Exts}
		if s.Status.Class != asn1.ClassContextSpecific {
			return nil, errors.New("certStatus is not context-specific")
		}
		switch s.Status.Tag {
		case 0:
			rs.Status = 0
		case 2:
			rs.Status = 2
		case 1:
			rs.Status = 1
			var ri sRevoked
			rest, err := asn1.UnmarshalWithParams(s.Status.FullBytes, &ri, "tag:1")
			if err != nil || len(rest) != 0 {
				return nil, fmt.Errorf("revokedInfo: %v", err)
			}
			rs.RevokedAt = ri.Time
			rs.Reason = int(ri.Reason)
		default:
			return nil, fmt.Errorf("certStatus tag %d", s.Status.Tag)
		}
		out.Singles = append(out.Singles, rs)
	}
	return out, nil
}

// decodeOuter splits a DER OCSPResponse into its BasicOCSPResponse parts.
func decodeOuter(der []byte) (*sBasicRaw, error) {
	var o sOCSP
	rest, err := asn1.Unmarshal(der, &o)
	if err != nil {
		return nil, err
	}
	if len(rest) != 0 {
		return nil, errors.New("trailing bytes after OCSPResponse")
	}
	if o.Status != 0 {
		return nil, fmt.Errorf("responseStatus %d", o.Status)
	}
	if !o.Bytes.Type.Equal(oidBasic) {
		return nil, errors.New("not id-pkix-ocsp-basic")
	}
	var b sBasicRaw
	rest, err = asn1.Unmarshal(o.Bytes.Response, &b)
	if err != nil {
		return nil, err
	}
	if len(rest) != 0 {
		return nil, errors.New("trailing bytes after BasicOCSPResponse")
	}
	return &b, nil
}

// assemble builds a DER OCSPResponse from BasicOCSPResponse parts.
func assemble(b sBasicRaw) ([]byte, error) {
	inner, err := asn1.Marshal(b)
	if err != nil {
		return nil, err
	}
	return asn1.Marshal(sOCSP{Status: 0, Bytes: sRespBytes{Type: oidBasic, Response: inner}})
}

// ---- signature verification by the standard library ----

var tryHashes = []crypto.Hash{crypto.SHA256, crypto.SHA384, crypto.SHA512, crypto.SHA1, crypto.MD5, crypto.SHA224}

func digestOf(h crypto.Hash, msg []byte) []byte {
	hh := h.New()
	hh.Write(msg)
	return hh.Sum(nil)
}

// lenientECDSASig reads SEQUENCE{INTEGER r, INTEGER s} without the DER
// strictness of ecdsa.VerifyASN1: long-form / non-minimal lengths, leading zero
// octets, and bytes after s or after the SEQUENCE are tolerated (they are
// outside the signed data and do not change r and s). Negative values are not.
func lenientECDSASig(sig []byte) (r, s *big.Int, ok bool) {
	rd := func(b []byte) (tag byte, content, rest []byte, ok bool) {
		if len(b) < 2 {
			return
		}
		tag = b[0]
		l := int(b[1])
		p := 2
		if l&0x80 != 0 {
			n := l & 0x7f
			if n == 0 || n > 3 || len(b) < 2+n {
				return
			}
			l = 0
			for i := 0; i < n; i++ {
				l = l<<8 | int(b[2+i])
			}
			p = 2 + n
		}
		if len(b) < p+l {
			return
		}
		return tag, b[p : p+l], b[p+l:], true
	}
	tag, body, _, k := rd(sig)
	if !k || tag != 0x30 {
		return nil, nil, false
	}
	t1, c1, rest, k := rd(body)
	if !k || t1 != 0x02 || len(c1) == 0 || c1[0]&0x80 != 0 {
		return nil, nil, false
	}
	t2, c2, _, k := rd(rest)
	if !k || t2 != 0x02 || len(c2) == 0 || c2[0]&0x80 != 0 {
		return nil, nil, false
	}
	return new(big.Int).SetBytes(c1), new(big.Int).SetBytes(c2), true
}

// stdVerify reports whether sig is a valid signature over msg under pub for ANY
// of the hash functions / paddings in use, as decided by the standard library.
// how names the scheme that verified.
func stdVerify(pub crypto.PublicKey, msg, sig []byte) (ok bool, how string) {
	switch k := pub.(type) {
	case *rsa.PublicKey:
		for _, h := range tryHashes {
			d := digestOf(h, msg)
			if rsa.VerifyPKCS1v15(k, h, d, sig) == nil {
				return true, "rsa-pkcs1v15-" + h.String()
			}
		}
		for _, h := range []crypto.Hash{crypto.SHA256, crypto.SHA384, crypto.SHA512} {
			d := digestOf(h, msg)
			if rsa.VerifyPSS(k, h, d, sig, &rsa.PSSOptions{SaltLength: rsa.PSSSaltLengthAuto}) == nil {
				return true, "rsa-pss-" + h.String()
			}
		}
	case *ecdsa.PublicKey:
		for _, h := range tryHashes {
			d := digestOf(h, msg)
			if ecdsa.VerifyASN1(k, d, sig) {
				return true, "ecdsa-" + h.String()
			}
		}
		if r, s, ok := lenientECDSASig(sig); ok && r.Sign() > 0 && s.Sign() > 0 {
			for _, h := range tryHashes {
				d := digestOf(h, msg)
				if ecdsa.Verify(k, d, r, s) {
					return true, "ecdsa-nonDER-sig-" + h.String()
				}
			}
		}
	case ed25519.PublicKey:
		if ed25519.Verify(k, msg, sig) {
			return true, "ed25519"
		}
	}
	return false, ""
}

// tbsCertLite pulls the SubjectPublicKeyInfo out of a TBSCertificate.
type tbsCertLite struct {
	Raw      asn1.RawContent
	Version  int `asn1:"optional,explicit,default:0,tag:0"`
	Serial   *big.Int
	SigAlg   asn1.RawValue
	Issuer   asn1.RawValue
	Validity asn1.RawValue
	Subject  asn1.RawValue
	SPKI     asn1.RawValue
}

func pubFromTBSCert(tbs []byte) (crypto.PublicKey, error) {
	var t tbsCertLite
	if _, err := asn1.Unmarshal(tbs, &t); err != nil {
		return nil, err
	}
	return stdx509.ParsePKIXPublicKey(t.SPKI.FullBytes)
}

type certLite struct {
	TBS    asn1.RawValue
	SigAlg asn1.RawValue
	Sig    asn1.BitString
}

// issuerRef is what the oracle knows about an issuer: only its DER.
type issuerRef struct {
	DER         []byte
	Pub         crypto.PublicKey
	RawSubject  []byte
	KeyBits     []byte // content of the subjectPublicKey BIT STRING
	KeyKindName string
}

func newIssuerRef(der []byte) (*issuerRef, error) {
	var cl certLite
	if _, err := asn1.Unmarshal(der, &cl); err != nil {
		return nil, err
	}
	var t tbsCertLite
	if _, err := asn1.Unmarshal(cl.TBS.FullBytes, &t); err != nil {
		return nil, err
	}
	pub, err := stdx509.ParsePKIXPublicKey(t.SPKI.FullBytes)
	if err != nil {
		return nil, err
	}
	var spki struct {
		Alg asn1.RawValue
		Key asn1.BitString
	}
	if _, err := asn1.Unmarshal(t.SPKI.FullBytes, &spki); err != nil {
		return nil, err
	}
	r := &issuerRef{DER: der, Pub: pub, RawSubject: t.Subject.FullBytes, KeyBits: spki.Key.RightAlign()}
	switch pub.(type) {
	case *rsa.PublicKey:
		r.KeyKindName = "rsa"
	case *ecdsa.PublicKey:
		r.KeyKindName = "ec"
	case ed25519.PublicKey:
		r.KeyKindName = "ed"
	}
	return r, nil
}

// binding is the verdict of the acceptance oracle.
type binding struct {
	OK   bool
	How  string // "direct:<scheme>" or "delegated:<scheme>/<cert scheme>"
	Fail string // class of failure when !OK
}

// checkBinding decides, with the standard library only, whether (tbs, sig)
// verify under the issuer key directly (certTBS == nil) or under the key of the
// embedded certificate (certTBS, certSig) which itself verifies under the issuer.
func checkBinding(iss *issuerRef, tbs, sig, certTBS, certSig []byte) binding {
	if certTBS == nil {
		if ok, how := stdVerify(iss.Pub, tbs, sig); ok {
			return binding{OK: true, How: "direct:" + how}
		}
		return binding{Fail: "response signature does not verify under the issuer key"}
	}
	okc, howc := stdVerify(iss.Pub, certTBS, certSig)
	if !okc {
		return binding{Fail: "embedded certificate is not signed by the issuer"}
	}
	pub, err := pubFromTBSCert(certTBS)
	if err != nil {
		return binding{Fail: "embedded certificate key not decodable by the standard library"}
	}
	if ok, how := stdVerify(pub, tbs, sig); ok {
		return binding{OK: true, How: "delegated:" + how + "/" + howc}
	}
	return binding{Fail: "response signature does not verify under the embedded certificate"}
}

func sameInstantToSecond(a, b time.Time) bool {
	d := a.Sub(b)
	if d < 0 {
		d = -d
	}
	return d < time.Second
}

func sub(b, s []byte) bool { return len(s) > 0 && bytes.Contains(b, s) }
