// Standalone reproducer (no harness code): ocsp.CreateResponse signs a
// SingleResponse WITHOUT the mandatory certStatus CHOICE when
//   - template.Status is not Good, Revoked or Unknown (e.g. the exported
//     constant ocsp.ServerFailed = 3, or -1): the switch has no default;
//   - template.Status is Revoked with a zero RevokedAt and reason 0: the zero
//     revokedInfo struct is "optional" and therefore omitted by asn1.Marshal.
// The library's own parser reads the missing CHOICE as Revoked, so a template
// with Status=ServerFailed comes back as a signed "revoked" answer; other
// decoders (encoding/asn1 below, OpenSSL) refuse the response as malformed.
//
//	cd /verif/mc && GOFLAGS=-mod=mod GOPROXY=off go run ./cmd/c13/repro/nocertstatus
//
// exit 1 = defect present, exit 0 = every case is refused by CreateResponse or well-formed.
package main

import (
	"crypto/ecdsa"
	"crypto/elliptic"
	"crypto/rand"
	stdasn1 "encoding/asn1"
	"fmt"
	"math/big"
	"os"
	"time"

	"github.com/zmap/zcrypto/x509"
	"github.com/zmap/zcrypto/x509/pkix"
	"github.com/zmap/zcrypto/x509/revocation/ocsp"
)

// certStatusTag digs the tag of the element following the CertID of the first
// SingleResponse out of the DER with the standard library.
func certStatusTag(der []byte) (string, error) {
	var outer struct {
		Status stdasn1.Enumerated
		Bytes  struct {
			Type     stdasn1.ObjectIdentifier
			Response []byte
		} `asn1:"explicit,tag:0"`
	}
	if _, err := stdasn1.Unmarshal(der, &outer); err != nil {
		return "", err
	}
	var basic struct {
		TBS struct {
			ResponderID stdasn1.RawValue
			ProducedAt  time.Time `asn1:"generalized"`
			Responses   []struct {
				CertID stdasn1.RawValue
				Next   stdasn1.RawValue
				Rest   []stdasn1.RawValue `asn1:"optional"`
			}
		}
		Alg stdasn1.RawValue
		Sig stdasn1.BitString
	}
	if _, err := stdasn1.Unmarshal(outer.Bytes.Response, &basic); err != nil {
		// a SingleResponse of only two elements does not fit the struct either
		return "", err
	}
	n := basic.TBS.Responses[0].Next
	if n.Class == stdasn1.ClassContextSpecific {
		return fmt.Sprintf("certStatus [%d]", n.Tag), nil
	}
	return fmt.Sprintf("NO certStatus (next element is universal tag %d = thisUpdate)", n.Tag), nil
}

func main() {
	key, err := ecdsa.GenerateKey(elliptic.P256(), rand.Reader)
	if err != nil {
		panic(err)
	}
	tpl := &x509.Certificate{SerialNumber: big.NewInt(1), Subject: pkix.Name{CommonName: "issuer"}, NotBefore: time.Now().Add(-time.Hour),
		NotAfter: time.Now().Add(time.Hour), IsCA: true, BasicConstraintsValid: true, KeyUsage: x509.KeyUsageCertSign | x509.KeyUsageDigitalSignature}
	der, err := x509.CreateCertificate(rand.Reader, tpl, tpl, &key.PublicKey, key)
	if err != nil {
		panic(err)
	}
	iss, err := x509.ParseCertificate(der)
	if err != nil {
		panic(err)
	}
	now := time.Now()
	cases := []struct {
		name string
		t    ocsp.Response
	}{
		{"Status=Good (control)", ocsp.Response{Status: ocsp.Good, SerialNumber: big.NewInt(5), ThisUpdate: now}},
		{"Status=ServerFailed(3)", ocsp.Response{Status: ocsp.ServerFailed, SerialNumber: big.NewInt(5), ThisUpdate: now}},
		{"Status=-1", ocsp.Response{Status: -1, SerialNumber: big.NewInt(5), ThisUpdate: now}},
		{"Status=Revoked, RevokedAt zero, reason 0", ocsp.Response{Status: ocsp.Revoked, SerialNumber: big.NewInt(5), ThisUpdate: now}},
	}
	bad := 0
	for _, c := range cases {
		out, err := ocsp.CreateResponse(iss, iss, c.t, key)
		if err != nil {
			fmt.Printf("%-42s CreateResponse error: %v\n", c.name, err)
			continue
		}
		tag, terr := certStatusTag(out)
		if terr != nil {
			tag = "undecodable: " + terr.Error()
		}
		r, perr := ocsp.ParseResponse(out, iss)
		if perr != nil {
			fmt.Printf("%-42s signed; DER has %s; ParseResponse error: %v\n", c.name, tag, perr)
		} else {
			fmt.Printf("%-42s signed; DER has %s; ParseResponse: Status=%d IsRevoked=%v\n", c.name, tag, r.Status, r.IsRevoked)
		}
		if terr != nil || tag[:2] == "NO" || (perr == nil && r.Status != c.t.Status) {
			bad++
		}
	}
	if bad > 0 {
		fmt.Printf("DEFECT: %d templates produced a signed SingleResponse without certStatus\n", bad)
		os.Exit(1)
	}
}
