// Observation made while building C13 (NOT counted as a violation by the check):
// ParseResponse accepts an ECDSA-signed response whose signature BIT STRING
// carries extra bytes after the DER Ecdsa-Sig-Value. x509.CheckSignatureFromKey
// rejects that for *ecdsa.PublicKey ("trailing data after ECDSA signature") but
// parsed certificates always hold *x509.AugmentedECDSA, whose branch
// (x509/x509.go, case *AugmentedECDSA) drops the rest returned by asn1.Unmarshal.
// The signed bytes are still bound (r,s verify); only the signature encoding is malleable.
//
//	cd /verif/mc && GOFLAGS=-mod=mod GOPROXY=off go run ./cmd/c13/repro/ecdsa-trailing
package main

import (
	"crypto/ecdsa"
	"crypto/sha256"
	stdx509 "crypto/x509"
	"encoding/asn1"
	"fmt"
	"math/big"

	"github.com/zmap/zcrypto/x509"
	"github.com/zmap/zcrypto/x509/revocation/ocsp"
	"verifmc/internal/fx"
)

type algID struct {
	Algorithm  asn1.ObjectIdentifier
	Parameters asn1.RawValue `asn1:"optional"`
}
type basic struct {
	TBS    asn1.RawValue
	SigAlg algID
	Sig    asn1.BitString
	Certs  []asn1.RawValue `asn1:"explicit,tag:0,optional"`
}
type respBytes struct {
	Type     asn1.ObjectIdentifier
	Response []byte
}
type outer struct {
	Status asn1.Enumerated
	Bytes  respBytes `asn1:"explicit,tag:0,optional"`
}

func main() {
	iss := fx.MustMint(fx.CertSpec{CN: "issuer", Key: "p256", IsCA: true, KeyUsage: x509.KeyUsageCertSign}, nil)
	der, err := ocsp.CreateResponse(iss.X, iss.X, ocsp.Response{Status: ocsp.Good, SerialNumber: big.NewInt(1), ThisUpdate: fx.T0, NextUpdate: fx.T0.Add(3600e9)}, iss.Key)
	if err != nil {
		panic(err)
	}
	var o outer
	if _, err := asn1.Unmarshal(der, &o); err != nil {
		panic(err)
	}
	var b basic
	if _, err := asn1.Unmarshal(o.Bytes.Response, &b); err != nil {
		panic(err)
	}
	b.Sig.Bytes = append(append([]byte{}, b.Sig.Bytes...), 0xde, 0xad)
	b.Sig.BitLength += 16
	inner, _ := asn1.Marshal(b)
	o.Bytes.Response = inner
	mut, _ := asn1.Marshal(o)

	r, err := ocsp.ParseResponse(mut, iss.X)
	fmt.Printf("ParseResponse(signature||dead, issuer): err=%v\n", err)
	if err == nil {
		std, _ := stdx509.ParseCertificate(iss.DER)
		d := sha256.Sum256(r.TBSResponseData)
		fmt.Printf("returned Signature ends with %x; crypto/ecdsa.VerifyASN1 says %v\n", r.Signature[len(r.Signature)-2:],
			ecdsa.VerifyASN1(std.PublicKey.(*ecdsa.PublicKey), d[:], r.Signature))
	}
}
