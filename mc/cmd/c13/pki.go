// PKI scenarios and response templates of C13.
package main

import (
	"crypto"
	"crypto/ecdsa"
	"encoding/asn1"
	"fmt"
	"io"
	"math/big"
	"time"

	zasn1 "github.com/zmap/zcrypto/encoding/asn1"
	"github.com/zmap/zcrypto/x509"
	"github.com/zmap/zcrypto/x509/pkix"
	"github.com/zmap/zcrypto/x509/revocation/crl"
	"github.com/zmap/zcrypto/x509/revocation/ocsp"
	"verifmc/internal/fx"
)

// detSigner makes the signatures inside CreateResponse reproducible: ECDSA is
// signed per RFC 6979 (rand == nil), RSA PKCS#1 v1.5 is deterministic anyway.
type detSigner struct{ inner crypto.Signer }

func (d detSigner) Public() crypto.PublicKey { return d.inner.Public() }
func (d detSigner) Sign(_ io.Reader, digest []byte, opts crypto.SignerOpts) ([]byte, error) {
	if k, ok := d.inner.(*ecdsa.PrivateKey); ok {
		return k.Sign(nil, digest, opts)
	}
	return d.inner.Sign(fx.NewRand("c13-sign"), digest, opts)
}

func keyKind(name string) string {
	switch {
	case len(name) >= 3 && name[:3] == "rsa":
		return "rsa"
	case name[0] == 'p':
		return "ec"
	}
	return "ed"
}

// scenario: who issued, who signs, what is embedded.
type scenario struct {
	ID          string
	Kind        string // issuer | deleg | deleg-otherCA | deleg-notembedded | deleg-wrongkey
	IssuerKey   string
	SignKey     string // fixture name of the key that signs the response
	Issuer      *fx.Cert
	IssRef      *issuerRef
	Responder   *fx.Cert // responderCert argument (names the responder)
	Embed       *fx.Cert // template.Certificate, nil = none
	RespSubject []byte   // DER subject of Responder, read with the standard library
	Positive    bool     // the response really is authorised by Issuer
	MustAcc     bool     // Positive and every algorithm involved is RSA/ECDSA
	FaultSet    bool     // member of the quick fault-injection subset
}

var issuerKeys = []string{"rsa2048", "p256", "p384", "ed-issuer"}
var signKeys = []string{"rsa2048b", "p256b", "p384b"}
var wrongKey = map[string]string{"rsa2048b": "rsa2048", "p256b": "p256", "p384b": "p384"}

type pki struct {
	issuers   map[string]*fx.Cert
	issRefs   map[string]*issuerRef
	scenarios []*scenario
}

func buildPKI() (*pki, error) {
	p := &pki{issuers: map[string]*fx.Cert{}, issRefs: map[string]*issuerRef{}}
	quickFault := map[string]bool{
		"issuer/rsa2048": true, "issuer/p256": true, "issuer/p384": true,
		"deleg/rsa2048/p256b": true, "deleg/p256/rsa2048b": true, "deleg/p384/p384b": true, "deleg/ed-issuer/p256b": true,
		"deleg-otherCA/p256/p256b": true, "deleg-otherCA/rsa2048/rsa2048b": true,
		"deleg-notembedded/p256/p256b": true, "deleg-wrongkey/p256/p256b": true,
	}
	for _, ik := range issuerKeys {
		iss, err := fx.Mint(fx.CertSpec{CN: "issuer-" + ik, Key: ik, IsCA: true, Serial: 7,
			KeyUsage: x509.KeyUsageCertSign | x509.KeyUsageCRLSign | x509.KeyUsageDigitalSignature}, nil)
		if err != nil {
			return nil, err
		}
		ref, err := newIssuerRef(iss.DER)
		if err != nil {
			return nil, fmt.Errorf("standard library cannot read issuer %s: %v", ik, err)
		}
		p.issuers[ik], p.issRefs[ik] = iss, ref
		// the impostor CA carries the SAME subject as the issuer but another key
		other, err := fx.Mint(fx.CertSpec{CN: "issuer-" + ik, Key: "ed-otherca-" + ik, IsCA: true, Serial: 8,
			KeyUsage: x509.KeyUsageCertSign | x509.KeyUsageDigitalSignature}, nil)
		if err != nil {
			return nil, err
		}
		add := func(s *scenario) {
			s.IssuerKey, s.Issuer, s.IssRef = ik, iss, ref
			// the only waiver: a response signed directly by an Ed25519 issuer key
			// (the package has no Ed25519 response signatures; the statement is
			// "accepts only if", so refusing it is not a violation). Responses
			// delegated by an Ed25519 issuer to an RSA/ECDSA responder must be accepted.
			s.MustAcc = s.Positive && !(s.Kind == "issuer" && keyKind(ik) == "ed")
			s.FaultSet = quickFault[s.ID]
			rr, err := newIssuerRef(s.Responder.DER)
			if err != nil {
				panic("standard library cannot read responder certificate: " + err.Error())
			}
			s.RespSubject = rr.RawSubject
			p.scenarios = append(p.scenarios, s)
		}
		add(&scenario{ID: "issuer/" + ik, Kind: "issuer", SignKey: ik, Responder: iss, Positive: true})
		for _, sk := range signKeys {
			spec := fx.CertSpec{CN: "ocsp-" + ik + "-" + sk, Key: sk, Serial: 21, EKU: []x509.ExtKeyUsage{x509.ExtKeyUsageOcspSigning},
				KeyUsage: x509.KeyUsageDigitalSignature}
			good, err := fx.Mint(spec, iss)
			if err != nil {
				return nil, err
			}
			bad, err := fx.Mint(spec, other)
			if err != nil {
				return nil, err
			}
			add(&scenario{ID: "deleg/" + ik + "/" + sk, Kind: "deleg", SignKey: sk, Responder: good, Embed: good, Positive: true})
			add(&scenario{ID: "deleg-otherCA/" + ik + "/" + sk, Kind: "deleg-otherCA", SignKey: sk, Responder: bad, Embed: bad})
			add(&scenario{ID: "deleg-notembedded/" + ik + "/" + sk, Kind: "deleg-notembedded", SignKey: sk, Responder: good})
			add(&scenario{ID: "deleg-wrongkey/" + ik + "/" + sk, Kind: "deleg-wrongkey", SignKey: wrongKey[sk], Responder: good, Embed: good})
		}
	}
	return p, nil
}

func (p *pki) byID(id string) *scenario {
	for _, s := range p.scenarios {
		if s.ID == id {
			return s
		}
	}
	return nil
}

// ---- template content ----

type content struct {
	Status int `json:"status"` // index into statusAlts
	Times  int `json:"times"`  // index into time shapes
	Hash   int `json:"hash"`   // index into hashAlts
	Serial int `json:"serial"` // index into serialAlts
	Ext    int `json:"ext"`    // 0 none, 1 non-critical, 2 critical, 3 two non-critical
}

// contentDims bounds the IN-DOMAIN product; statusAlts, hashAlts and serialAlts
// continue past these bounds with the out-of-domain alternatives (see domainAlts).
var contentDims = []int{6, 4, 5, 3, 4}

func (c content) get(d int) int {
	return []int{c.Status, c.Times, c.Hash, c.Serial, c.Ext}[d]
}
func (c *content) set(d, v int) {
	*([]*int{&c.Status, &c.Times, &c.Hash, &c.Serial, &c.Ext}[d]) = v
}
func (c content) deviations() int {
	n := 0
	for d := range contentDims {
		if c.get(d) != 0 {
			n++
		}
	}
	return n
}

// allContents enumerates every content with at most maxDev non-default fields
// (maxDev >= number of fields: the full product).
func allContents(maxDev int) []content {
	var out []content
	var rec func(d int, cur content)
	rec = func(d int, cur content) {
		if d == len(contentDims) {
			if cur.deviations() <= maxDev {
				out = append(out, cur)
			}
			return
		}
		for v := 0; v < contentDims[d]; v++ {
			c := cur
			c.set(d, v)
			rec(d+1, c)
		}
	}
	rec(0, content{})
	return out
}

var statusAlts = []struct {
	Status, Reason int
	ZeroAt         bool // RevokedAt left at the zero time
}{
	{ocsp.Good, 0, false}, {ocsp.Unknown, 0, false}, {ocsp.Revoked, 0, false}, {ocsp.Revoked, 1, false}, {ocsp.Revoked, 6, false}, {ocsp.Revoked, 10, false},
	// out of the documented domain
	{ocsp.ServerFailed, 0, false}, {-1, 0, false}, {ocsp.Revoked, 0, true}, {ocsp.Revoked, 1, true},
}
var hashAlts = []crypto.Hash{crypto.SHA1, crypto.SHA256, crypto.SHA384, crypto.SHA512, 0,
	crypto.MD5, crypto.SHA224}
var serialAlts = []*big.Int{big.NewInt(1), new(big.Int).Lsh(big.NewInt(1), 70), big.NewInt(128),
	nil, big.NewInt(-1), big.NewInt(0)}

// Template values outside the documented domain of CreateResponse ("Status is
// one of {Good, Revoked, Unknown}", "Valid values [of IssuerHash] are
// crypto.SHA1, crypto.SHA256, crypto.SHA384, and crypto.SHA512", a serial
// number). mustErr: nothing faithful can be produced, an error is demanded.
// Otherwise: an error OR a well-formed, faithful round trip.
type domainAlt struct {
	C       content
	Label   string
	MustErr bool
}

var domainAlts = []domainAlt{
	{content{Status: 6}, "Status ServerFailed(3), not one of Good/Revoked/Unknown", true},
	{content{Status: 7}, "Status -1, not one of Good/Revoked/Unknown", true},
	{content{Status: 8}, "Revoked with zero RevokedAt, reason 0", false},
	{content{Status: 9}, "Revoked with zero RevokedAt, reason 1", false},
	{content{Hash: 5}, "IssuerHash MD5, not a documented value", true},
	{content{Hash: 6}, "IssuerHash SHA-224, not a documented value", true},
	{content{Serial: 3}, "nil SerialNumber", true},
	{content{Serial: 4}, "negative SerialNumber", false},
	{content{Serial: 5}, "zero SerialNumber", false},
}

// domainOf returns the out-of-domain alternative a content uses, if any.
func domainOf(c content) *domainAlt {
	for i := range domainAlts {
		d := &domainAlts[i]
		if (d.C.Status != 0 && c.Status == d.C.Status) || (d.C.Hash != 0 && c.Hash == d.C.Hash) || (d.C.Serial != 0 && c.Serial == d.C.Serial) {
			return d
		}
	}
	return nil
}

func timesOf(shape int) (this, next, revoked time.Time) {
	this = fx.T0.Add(-time.Hour)
	next = fx.T0.Add(95 * time.Hour)
	revoked = fx.T0.Add(-50*time.Hour + 7*time.Minute + 9*time.Second)
	switch shape {
	case 1: // sub-second parts
		this = this.Add(999999999 * time.Nanosecond)
		next = next.Add(500 * time.Millisecond)
		revoked = revoked.Add(time.Nanosecond)
	case 2: // zoned (and other instants, so that the DER differs from shape 0)
		this = this.Add(3 * time.Hour).In(time.FixedZone("east", 5*3600+1800))
		next = next.Add(3 * time.Hour).In(time.FixedZone("west", -8*3600))
		revoked = revoked.Add(3 * time.Hour).In(time.FixedZone("far", 14*3600))
	case 3: // no NextUpdate
		next = time.Time{}
	}
	return
}

var oidExtNonCrit = zasn1.ObjectIdentifier{1, 3, 6, 1, 4, 1, 99999, 13, 1}
var oidExtCrit = zasn1.ObjectIdentifier{1, 3, 6, 1, 4, 1, 99999, 13, 2}
var oidExtNonCrit2 = zasn1.ObjectIdentifier{1, 3, 6, 1, 4, 1, 99999, 13, 3}

func copyInt(n *big.Int) *big.Int {
	if n == nil {
		return nil
	}
	return new(big.Int).Set(n)
}

// tmpl identifies one CreateResponse call.
type tmpl struct {
	Scenario string  `json:"scenario"`
	C        content `json:"content"`
	SigAlg   int     `json:"sigalg"` // requested x509.SignatureAlgorithm (0 = default)
}

func (t tmpl) String() string {
	return fmt.Sprintf("%s status=%d times=%d hash=%d serial=%d ext=%d sigalg=%d", t.Scenario, t.C.Status, t.C.Times, t.C.Hash, t.C.Serial, t.C.Ext, t.SigAlg)
}

// build returns the ocsp.Response template and what a faithful round trip must give back.
func (t tmpl) build(sc *scenario) (ocsp.Response, refSingle) {
	st := statusAlts[t.C.Status]
	this, next, rev := timesOf(t.C.Times)
	r := ocsp.Response{
		Status:             st.Status,
		SerialNumber:       copyInt(serialAlts[t.C.Serial]),
		ThisUpdate:         this,
		NextUpdate:         next,
		RevokedAt:          rev,
		RevocationReason:   crl.RevocationReasonCode(st.Reason),
		IssuerHash:         hashAlts[t.C.Hash],
		SignatureAlgorithm: x509.SignatureAlgorithm(t.SigAlg),
	}
	if st.ZeroAt {
		r.RevokedAt, rev = time.Time{}, time.Time{}
	}
	if st.Status != ocsp.Revoked {
		// must be ignored for good/unknown
		r.RevocationReason = 1
	}
	switch t.C.Ext {
	case 1:
		r.ExtraExtensions = []pkix.Extension{{Id: oidExtNonCrit, Critical: false, Value: []byte{0x05, 0x00}}}
	case 2:
		r.ExtraExtensions = []pkix.Extension{{Id: oidExtCrit, Critical: true, Value: []byte{0x01, 0x01, 0xff}}}
	case 3:
		r.ExtraExtensions = []pkix.Extension{{Id: oidExtNonCrit2, Critical: false, Value: []byte{0x04, 0x03, 0x01, 0x02, 0x03}},
			{Id: oidExtNonCrit, Critical: false, Value: []byte{0x05, 0x00}}}
	}
	if sc.Embed != nil {
		r.Certificate = sc.Embed.X
	}
	h := hashAlts[t.C.Hash]
	if h == 0 {
		h = crypto.SHA1
	}
	want := refSingle{
		Status:     st.Status,
		Serial:     serialAlts[t.C.Serial],
		ThisUpdate: this,
		NextUpdate: next,
		HashOID:    oidOfHash(h),
		NameHash:   digestOf(h, sc.IssRef.RawSubject),
		KeyHash:    digestOf(h, sc.IssRef.KeyBits),
	}
	if st.Status == ocsp.Revoked {
		want.RevokedAt = rev
		want.Reason = st.Reason
	}
	// the singleExtensions a faithful encoder writes, in template order
	for _, e := range r.ExtraExtensions {
		want.Exts = append(want.Exts, sExt{ID: asn1.ObjectIdentifier(e.Id), Critical: e.Critical, Value: e.Value})
	}
	return r, want
}
