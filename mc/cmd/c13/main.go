// C13 — OCSP messages round-trip and bind to the issuer's signature.
//
// Engine E2 (deviation-bounded input enumeration): response templates
// (status x reason x time shape x issuer hash x serial x extensions x PKI
// scenario x requested signature algorithm) go through CreateResponse and
// ParseResponse; every produced DER is then mutated (all single-byte
// substitutions from {00, ff, b^01, b^80}, all truncations, a TLV operator menu
// on every node, component splices between responses); harness-built
// multi-response bodies exercise ParseResponseForCert.
//
// Oracle (standard library only, see ref.go): round-trip field equality, and
// for EVERY input: ParseResponse(m, issuer) errors OR the returned
// TBSResponseData+Signature verify under the issuer key, directly or under the
// embedded certificate which itself verifies under the issuer; the returned
// fields must be what those signed bytes say.
package main

import (
	"bytes"
	"crypto"
	"encoding/asn1"
	"encoding/hex"
	"encoding/json"
	"fmt"
	"math/big"
	"sort"
	"strings"
	"sync"
	"time"

	"github.com/zmap/zcrypto/x509"
	"github.com/zmap/zcrypto/x509/pkix"
	"github.com/zmap/zcrypto/x509/revocation/ocsp"
	"verifmc/internal/ev"
	"verifmc/internal/fx"
	"verifmc/internal/nohb"
)

type witness struct {
	Kind       string   `json:"kind"` // parse | template | request
	Fault      string   `json:"fault,omitempty"`
	Issuer     string   `json:"issuer_der,omitempty"`     // hex, "" = nil issuer
	CertSerial string   `json:"forcert_serial,omitempty"` // hex, "" = ParseResponse
	Input      string   `json:"input_der,omitempty"`
	Tmpl       *tmpl    `json:"template,omitempty"`
	Req        *reqCase `json:"request,omitempty"`
	Detail     string   `json:"detail"`
}

// wk is worker-local accounting.
type wk struct {
	hist                             ev.Hist
	parses, creates, oracle, nontriv int64
	distinctTBS                      int64
}

func newWk() *wk { return &wk{hist: ev.Hist{}} }

type harness struct {
	c       *ev.Ctx
	p       *pki
	signers map[string]crypto.Signer

	mu        sync.Mutex
	malleable map[string]any
}

// noteMalleable keeps a few examples of accepted ECDSA signatures that
// ecdsa.VerifyASN1 refuses for their encoding only.
func (h *harness) noteMalleable(p pcase, sig []byte) {
	h.mu.Lock()
	defer h.mu.Unlock()
	key := p.kind
	if h.malleable == nil {
		h.malleable = map[string]any{}
	}
	if _, ok := h.malleable[key]; ok || len(h.malleable) >= 12 {
		return
	}
	f := ""
	if p.fault != nil {
		f = p.fault()
	}
	h.malleable[key] = map[string]string{"fault": f, "returned_signature": hex.EncodeToString(sig)}
}

func (h *harness) merge(w *wk) {
	h.c.Merge(w.hist)
	h.c.Transitions.Add(w.parses + w.creates)
	h.c.Traces.Add(w.parses)
	h.c.Evaluations.Add(w.oracle)
	h.c.Distinct.Add(w.nontriv)
}

func errClass(err error) string {
	s := err.Error()
	cut := func(n int) string {
		idx := -1
		for i := 0; i < n; i++ {
			j := strings.IndexByte(s[idx+1:], ':')
			if j < 0 {
				return s
			}
			idx += j + 1
		}
		return s[:idx]
	}
	var out string
	if strings.HasPrefix(s, "parsing time") {
		return "parsing time (malformed GeneralizedTime)"
	}
	if strings.HasPrefix(s, "asn1:") || strings.HasPrefix(s, "x509:") || strings.HasPrefix(s, "ocsp:") {
		out = cut(2)
	} else {
		out = cut(1)
	}
	out = ev.MsgClass(out)
	if len(out) > 70 {
		out = out[:70]
	}
	return out
}

// sigStage: the rejection (or acceptance) happened at or after the signature checks.
func sigStage(class string) bool {
	switch class {
	case "bad OCSP signature", "bad signature on embedded certificate", "unsupported critical extension", "unsupported issuer hash algorithm":
		return true
	}
	return false
}

type pcase struct {
	input   []byte
	serial  *big.Int // nil = ParseResponse
	issuer  *x509.Certificate
	ref     *issuerRef
	kind    string // outcome prefix: base | byte | trunc | tlv | splice | multi ...
	fault   func() string
	baseTBS []byte // signed bytes of the unmutated input (may be nil)
}

func (h *harness) wit(p pcase, detail string) witness {
	w := witness{Kind: "parse", Input: hex.EncodeToString(p.input), Detail: detail}
	if p.fault != nil {
		w.Fault = p.fault()
	}
	if p.ref != nil && p.issuer != nil {
		w.Issuer = hex.EncodeToString(p.ref.DER)
	}
	if p.serial != nil {
		w.CertSerial = p.serial.Text(16)
	}
	return w
}

// cmpFields lists the fields of r that do not say what (rt, rs) say.
func cmpFields(r *ocsp.Response, rt *refTBS, rs refSingle, produced bool) []string {
	var bad []string
	add := func(f string, ok bool) {
		if !ok {
			bad = append(bad, f)
		}
	}
	tEq := func(got, want time.Time) bool {
		if want.IsZero() {
			return got.IsZero()
		}
		return !got.IsZero() && sameInstantToSecond(got, want)
	}
	add("Status", r.Status == rs.Status && r.IsRevoked == (rs.Status == ocsp.Revoked))
	add("SerialNumber", r.SerialNumber != nil && rs.Serial != nil && r.SerialNumber.Cmp(rs.Serial) == 0)
	add("ThisUpdate", tEq(r.ThisUpdate, rs.ThisUpdate))
	add("NextUpdate", tEq(r.NextUpdate, rs.NextUpdate))
	if rs.Status == ocsp.Revoked {
		add("RevokedAt", tEq(r.RevokedAt, rs.RevokedAt))
		add("RevocationReason", int(r.RevocationReason) == rs.Reason)
	}
	add("IssuerHash", r.IssuerHash != 0 && r.IssuerHash == hashByOID(rs.HashOID))
	add("Extensions", sameExts(r.Extensions, rs.Exts))
	if rt != nil {
		if produced {
			add("ProducedAt", tEq(r.ProducedAt, rt.ProducedAt))
		}
		switch rt.ResponderTag {
		case 1:
			add("RawResponderName", bytes.Equal(r.RawResponderName, rt.ResponderBody))
		case 2:
			var kh []byte
			if rest, err := asn1.Unmarshal(rt.ResponderBody, &kh); err == nil && len(rest) == 0 {
				add("ResponderKeyHash", bytes.Equal(r.ResponderKeyHash, kh))
			}
		}
	}
	return bad
}

// sameExts: the parsed Extensions are exactly the singleExtensions of the
// SingleResponse (same order, id, critical flag and value).
func sameExts(got []pkix.Extension, want []sExt) bool {
	if len(got) != len(want) {
		return false
	}
	for i := range want {
		if !asn1.ObjectIdentifier(got[i].Id).Equal(want[i].ID) || got[i].Critical != want[i].Critical || !bytes.Equal(got[i].Value, want[i].Value) {
			return false
		}
	}
	return true
}

func sameSExts(got, want []sExt) bool {
	if len(got) != len(want) {
		return false
	}
	for i := range want {
		if !got[i].ID.Equal(want[i].ID) || got[i].Critical != want[i].Critical || !bytes.Equal(got[i].Value, want[i].Value) {
			return false
		}
	}
	return true
}

// evalParse runs the real parser on one input and applies the acceptance oracle.
func (h *harness) evalParse(p pcase, w *wk) (*ocsp.Response, error) {
	var r *ocsp.Response
	var err error
	pan, msg, site := ev.Try(func() {
		if p.serial == nil {
			r, err = ocsp.ParseResponse(p.input, p.issuer)
		} else {
			r, err = ocsp.ParseResponseForCert(p.input, &x509.Certificate{SerialNumber: p.serial}, p.issuer)
		}
	})
	w.parses++
	if pan {
		w.hist[p.kind+" PANIC"]++
		h.c.Violation("panic@"+site+": "+ev.MsgClass(msg), h.wit(p, msg))
		return nil, fmt.Errorf("panic: %s", msg)
	}
	if err != nil {
		cl := errClass(err)
		fk := p.kind
		if i := strings.IndexByte(fk, '['); i > 0 && !strings.HasPrefix(fk, "base") {
			fk = fk[:i]
		}
		w.hist[fk+" reject: "+cl]++
		if sigStage(cl) {
			w.nontriv++
		}
		return nil, err
	}
	if r == nil {
		h.c.Violation("nil response without error", h.wit(p, ""))
		return nil, fmt.Errorf("nil response")
	}
	w.nontriv++
	w.oracle++
	if !sub(p.input, r.TBSResponseData) {
		h.c.Violation("accepted response: returned TBSResponseData is not a part of the input", h.wit(p, hex.EncodeToString(r.TBSResponseData)))
	}
	// the signature the library verified and returns must be the one on the wire: the VALUE of the input's signature
	// BIT STRING as the reference decoder reads it (the bits right-aligned; with no unused bits, its octets) -- otherwise
	// a response whose signature field was altered after signing is accepted on the strength of other bits
	if ws, ok := wireSignature(p.input); !ok {
		w.hist["accept: the reference decoder cannot read the input's signature field (returned Signature not compared)"]++
	} else if !bytes.Equal(ws, r.Signature) {
		h.c.Violation("accepted response: returned Signature is not the value of the input's signature BIT STRING", h.wit(p, "wire "+hex.EncodeToString(ws)+" returned "+hex.EncodeToString(r.Signature)))
	}
	if p.issuer != nil {
		var certTBS, certSig []byte
		if r.Certificate != nil {
			certTBS, certSig = r.Certificate.RawTBSCertificate, r.Certificate.Signature
			if certTBS == nil {
				certTBS = []byte{}
			}
			if !sub(p.input, r.Certificate.Raw) || !sub(r.Certificate.Raw, certTBS) {
				h.c.Violation("accepted response: returned certificate is not a part of the input", h.wit(p, ""))
			}
		}
		b := checkBinding(p.ref, r.TBSResponseData, r.Signature, certTBS, certSig)
		if !b.OK {
			w.hist[p.kind+" ACCEPTED-UNVERIFIED"]++
			h.c.Violation("accepted with issuer although: "+b.Fail, h.wit(p, "standard library verification of the returned TBSResponseData/Signature failed"))
		} else {
			how := b.How[:strings.IndexByte(b.How, ':')]
			same := ""
			if p.baseTBS != nil {
				if bytes.Equal(p.baseTBS, r.TBSResponseData) {
					same = ", signed bytes unchanged"
				} else {
					same = ", SIGNED BYTES CHANGED"
				}
			}
			w.hist[p.kind+" accept: verifies "+how+same]++
			if strings.Contains(b.How, "nonDER") {
				// (r,s) verify but the bytes are not the DER ECDSA-Sig-Value: the
				// response was altered after signing and still accepted
				w.hist[p.kind+" ACCEPTED-NONDER-ECDSA-SIGNATURE"]++
				h.noteMalleable(p, r.Signature)
				h.c.Violation("accepted with issuer although the ECDSA signature is not the strict DER encoding of (r,s) [crypto/ecdsa.VerifyASN1 refuses it]", h.wit(p, "returned signature "+hex.EncodeToString(r.Signature)))
			}
		}
	} else {
		w.hist[p.kind+" accept: nil issuer (no binding asserted)"]++
	}
	// the returned fields must be what the returned (signed) bytes say
	rt, derr := decodeTBS(r.TBSResponseData)
	if derr != nil {
		w.hist[p.kind+" accept-note: TBS not decodable by encoding/asn1, fields not compared"]++
		return r, nil
	}
	idx := -1
	if p.serial == nil {
		if len(rt.Singles) > 0 {
			idx = 0
		}
		if len(rt.Singles) > 1 {
			w.hist[p.kind+" accept-note: ParseResponse accepted a multi-status body"]++
		}
	} else {
		for i, s := range rt.Singles {
			if s.Serial != nil && s.Serial.Cmp(p.serial) == 0 {
				idx = i
				break
			}
		}
		if idx < 0 {
			h.c.Violation("ParseResponseForCert returned a response although no SingleResponse has the serial", h.wit(p, ""))
			return r, nil
		}
	}
	if idx >= 0 {
		if bad := cmpFields(r, rt, rt.Singles[idx], true); len(bad) > 0 {
			what := "ParseResponse"
			if p.serial != nil {
				what = "ParseResponseForCert(first matching serial)"
			}
			// one signature per defect: named after the first differing field (fixed field order), all of them in the witness
			h.c.Violation(what+": field "+bad[0]+" differs from the signed TBSResponseData", h.wit(p, fmt.Sprintf("single #%d of %d; differing fields %v", idx, len(rt.Singles), bad)))
		}
	}
	return r, nil
}

// runTemplate: CreateResponse -> independent decode -> ParseResponse with and without issuer.
func (h *harness) runTemplate(t tmpl, w *wk) (der []byte, tbs []byte) {
	sc := h.p.byID(t.Scenario)
	if sc == nil {
		h.c.Broken("unknown scenario %q", t.Scenario)
	}
	resp, want := t.build(sc)
	dom := domainOf(t.C)
	signer := detSigner{h.signers[sc.SignKey]}
	var err error
	viol := func(sig, detail string) {
		tt := t
		h.c.Violation(sig, witness{Kind: "template", Tmpl: &tt, Detail: detail})
	}
	t0 := time.Now()
	pan, msg, site := ev.Try(func() { der, err = ocsp.CreateResponse(sc.Issuer.X, sc.Responder.X, resp, signer) })
	t1 := time.Now()
	w.creates++
	if pan {
		viol("panic@"+site+": "+ev.MsgClass(msg), msg)
		return nil, nil
	}
	kk := keyKind(sc.SignKey)
	if err != nil {
		if dom != nil {
			w.hist["create reject (out of domain: "+dom.Label+"): "+errClass(err)]++
			return nil, nil
		}
		w.hist[fmt.Sprintf("create reject (%s key, sigalg %d): %s", kk, t.SigAlg, errClass(err))]++
		if t.SigAlg == 0 && kk != "ed" {
			viol("CreateResponse fails with the default signature algorithm ("+kk+" key): "+errClass(err), err.Error())
		}
		return nil, nil
	}
	if dom != nil {
		if dom.MustErr {
			w.hist["create OK ALTHOUGH OUT OF DOMAIN: "+dom.Label]++
			detail := hex.EncodeToString(der)
			if r, perr := ocsp.ParseResponse(der, nil); perr == nil && r != nil {
				detail = fmt.Sprintf("the signed output parses as Status=%d IsRevoked=%v serial=%v; %s", r.Status, r.IsRevoked, r.SerialNumber, detail)
			}
			viol("CreateResponse signs a response for a template outside the documented domain: "+dom.Label, detail)
			return nil, nil
		}
		// otherwise everything below applies: well-formed DER, faithful round trip
		w.hist["create ok (out of domain, round trip demanded: "+dom.Label+")"]++
	}
	w.hist["create ok ("+kk+" key)"]++

	// --- independent decode of the produced DER ---
	w.oracle++
	outer, derr := decodeOuter(der)
	var rt *refTBS
	if derr == nil {
		rt, derr = decodeTBS(outer.TBS.FullBytes)
	}
	if derr != nil {
		viol("CreateResponse output is not decodable by encoding/asn1", derr.Error()+" "+hex.EncodeToString(der))
		return der, nil
	}
	tbs = outer.TBS.FullBytes
	if len(rt.Singles) != 1 {
		viol("CreateResponse output does not hold exactly one SingleResponse", hex.EncodeToString(der))
		return der, tbs
	}
	got := rt.Singles[0]
	{
		var bad []string
		add := func(f string, ok bool) {
			if !ok {
				bad = append(bad, f)
			}
		}
		tEq := func(g, wnt time.Time) bool {
			if wnt.IsZero() {
				return g.IsZero()
			}
			return sameInstantToSecond(g, wnt)
		}
		// "The ProducedAt date is automatically set to the current date, to the
		// nearest minute": a whole minute, within the instants read around the
		// call (5 minutes of slack either side: machine load stretches t1-t0, which
		// the window follows; only a clock step of minutes could matter)
		pa := rt.ProducedAt
		add("producedAt (current time to the minute)", pa.Second() == 0 && pa.Nanosecond() == 0 &&
			!pa.Before(t0.Add(-5*time.Minute)) && !pa.After(t1.Add(5*time.Minute)))
		add("certStatus", got.Status == want.Status)
		add("serialNumber", got.Serial != nil && got.Serial.Cmp(want.Serial) == 0)
		add("thisUpdate", tEq(got.ThisUpdate, want.ThisUpdate))
		add("nextUpdate", tEq(got.NextUpdate, want.NextUpdate))
		if want.Status == ocsp.Revoked {
			add("revocationTime", tEq(got.RevokedAt, want.RevokedAt))
			add("revocationReason", got.Reason == want.Reason)
		}
		add("hashAlgorithm", got.HashOID.Equal(want.HashOID))
		add("issuerNameHash", bytes.Equal(got.NameHash, want.NameHash))
		add("issuerKeyHash", bytes.Equal(got.KeyHash, want.KeyHash))
		add("singleExtensions", sameSExts(got.Exts, want.Exts))
		add("responderID byName", rt.ResponderTag == 1 && bytes.Equal(rt.ResponderBody, sc.RespSubject))
		if sc.Embed != nil {
			add("certs", len(outer.Certs) == 1 && bytes.Equal(outer.Certs[0].FullBytes, sc.Embed.DER))
		} else {
			add("certs", len(outer.Certs) == 0)
		}
		if len(bad) > 0 {
			viol("CreateResponse: "+bad[0]+" in the DER differs from the template", fmt.Sprintf("differing fields %v; %x", bad, der))
		}
	}
	// produced signature, judged by the standard library
	var certTBS, certSig []byte
	if len(outer.Certs) > 0 {
		var cl certLite
		if _, e := asn1.Unmarshal(outer.Certs[0].FullBytes, &cl); e == nil {
			certTBS, certSig = cl.TBS.FullBytes, cl.Sig.RightAlign()
		} else {
			certTBS = []byte{}
		}
	}
	b := checkBinding(sc.IssRef, tbs, outer.Sig.RightAlign(), certTBS, certSig)
	if sc.Positive && !b.OK {
		viol("CreateResponse: produced signature does not verify (standard library): "+b.Fail, hex.EncodeToString(der))
	}
	if !sc.Positive && b.OK {
		h.c.Broken("negative scenario %s verifies: %s", sc.ID, b.How)
	}
	if t.SigAlg != 0 {
		if hh, ok := sigAlgHash[t.SigAlg]; ok {
			if o, ok2 := sigOID(kk, hh); ok2 && o.Equal(outer.SigAlg.Algorithm) {
				w.hist["create note: requested SignatureAlgorithm is the one in the DER"]++
			} else {
				w.hist["create note: requested SignatureAlgorithm NOT the one in the DER"]++
			}
		}
	}

	// --- parse back with the issuer ---
	r, perr := h.evalParse(pcase{input: der, issuer: sc.Issuer.X, ref: sc.IssRef, kind: "base[" + sc.Kind + "]", baseTBS: tbs,
		fault: func() string { return "unmodified CreateResponse output of " + t.String() }}, w)
	switch {
	case perr != nil && strings.HasPrefix(perr.Error(), "panic"):
	case perr != nil:
		if t.C.Ext == 2 && errClass(perr) == "unsupported critical extension" {
			// expected: an unknown critical singleExtension
		} else if sc.MustAcc {
			viol("valid response rejected with issuer ("+sc.Kind+"): "+errClass(perr), perr.Error()+" "+hex.EncodeToString(der))
		}
	default:
		if t.C.Ext == 2 {
			viol("response with an unknown critical singleExtension accepted", hex.EncodeToString(der))
		}
		if bad := cmpFields(r, &refTBS{ResponderTag: 1, ResponderBody: sc.RespSubject}, want, false); len(bad) > 0 {
			viol("round trip: field "+bad[0]+" differs from the template", fmt.Sprintf("differing fields %v; got status=%d serial=%v this=%v next=%v revokedAt=%v reason=%d hash=%v name=%x",
				bad, r.Status, r.SerialNumber, r.ThisUpdate, r.NextUpdate, r.RevokedAt, r.RevocationReason, r.IssuerHash, r.RawResponderName))
		}
	}
	// --- parse back without issuer (no binding asserted, same fields) ---
	r2, perr2 := h.evalParse(pcase{input: der, kind: "base-nil-issuer[" + sc.Kind + "]", baseTBS: tbs,
		fault: func() string { return "unmodified CreateResponse output of " + t.String() + " (issuer nil)" }}, w)
	if perr2 == nil {
		if t.C.Ext == 2 {
			viol("response with an unknown critical singleExtension accepted", hex.EncodeToString(der))
		}
		if bad := cmpFields(r2, &refTBS{ResponderTag: 1, ResponderBody: sc.RespSubject}, want, false); len(bad) > 0 {
			viol("round trip (issuer nil): field "+bad[0]+" differs from the template", fmt.Sprintf("differing fields %v; %x", bad, der))
		}
	} else if sc.Positive && !strings.HasPrefix(perr2.Error(), "panic") && !(t.C.Ext == 2 && errClass(perr2) == "unsupported critical extension") {
		viol("valid response rejected without issuer ("+sc.Kind+"): "+errClass(perr2), perr2.Error()+" "+hex.EncodeToString(der))
	}
	return der, tbs
}

// sigAlgHash: hash named by each zcrypto x509.SignatureAlgorithm constant (from their names).
var sigAlgHash = map[int]crypto.Hash{
	int(x509.MD5WithRSA): crypto.MD5, int(x509.SHA1WithRSA): crypto.SHA1, int(x509.SHA256WithRSA): crypto.SHA256,
	int(x509.SHA384WithRSA): crypto.SHA384, int(x509.SHA512WithRSA): crypto.SHA512,
	int(x509.ECDSAWithSHA1): crypto.SHA1, int(x509.ECDSAWithSHA256): crypto.SHA256, int(x509.ECDSAWithSHA384): crypto.SHA384,
	int(x509.ECDSAWithSHA512): crypto.SHA512,
}

type baseDER struct {
	t   tmpl
	sc  *scenario
	der []byte
	tbs []byte
}

// wireSignature reads the signature field of an OCSPResponse with the standard library's decoder.
func wireSignature(in []byte) ([]byte, bool) {
	var o sOCSP
	if _, err := asn1.Unmarshal(in, &o); err != nil {
		return nil, false
	}
	var b sBasicRaw
	if _, err := asn1.Unmarshal(o.Bytes.Response, &b); err != nil {
		return nil, false
	}
	return b.Sig.RightAlign(), true
}

func subVals(b byte) []byte {
	out := make([]byte, 0, 4)
	for _, v := range []byte{0x00, 0xff, b ^ 0x01, b ^ 0x80} {
		if v == b {
			continue
		}
		dup := false
		for _, o := range out {
			if o == v {
				dup = true
			}
		}
		if !dup {
			out = append(out, v)
		}
	}
	return out
}

func main() {
	if nohb.IsWorker() {
		nohb.WorkerMain(reentrantOps(), reentrantRepoDir())
		return
	}
	ev.Main("C13", "model_checking", func(c *ev.Ctx) {
		p, err := buildPKI()
		if err != nil {
			c.Broken("pki: %v", err)
		}
		h := &harness{c: c, p: p, signers: map[string]crypto.Signer{}}
		for _, k := range []string{"rsa2048", "rsa2048b", "p256", "p256b", "p384", "p384b", "ed-issuer"} {
			h.signers[k] = fx.Signer(k)
		}
		c.Rule("G-field over response templates {status/reason(6) x time shape(4) x IssuerHash(5) x serial(3) x extensions(4: none, one non-critical, one critical, two non-critical)} with <=2 non-default fields (quick) or the full product (thorough) x 52 PKI scenarios {issuer itself | delegated+embedded | delegated by an impostor CA with the issuer's name | delegated not embedded | embedded but signed with another key} x issuer key {RSA-2048,P-256,P-384,Ed25519} x signer key x every requested SignatureAlgorithm the API accepts; G-tlv + every single-byte substitution {00,ff,b^01,b^80} + every truncation of each produced DER of the fault subset; component splices between responses; harness-built 1-3 status bodies for ParseResponseForCert x singleExtensions {none | a distinct non-critical one per single | additionally an unknown critical one on single #0, #1 or #2}: the answer (fields AND Extensions) must come from the first matching single, a critical extension rejects exactly when it sits on that single; singleExtensions in the produced DER and Response.Extensions after parsing equal the template's ExtraExtensions (order, id, critical, value); producedAt in the DER of CreateResponse is a whole minute between the instants read around the call (+-5 min); templates outside the documented domain {Status 3 / -1, IssuerHash MD5 / SHA-224, nil serial: an error is demanded | Revoked with zero RevokedAt, negative serial, zero serial: an error or a well-formed faithful round trip} x every authorised RSA/ECDSA-signed scenario; an accepted response whose ECDSA signature bytes crypto/ecdsa.VerifyASN1 refuses is a violation even if (r,s) verify; the Signature an accepted response returns must be the value of the input's signature BIT STRING as the standard decoder reads it (unused bits included); requests hash x serial x issuer. A case is non-trivial when the parser reached the signature checks (accepted, or rejected by a signature/critical-extension/hash check)")
		c.Assume("the Go standard library (crypto/rsa, crypto/ecdsa, crypto/ed25519, encoding/asn1, crypto/x509.ParsePKIXPublicKey) decides signature validity and decodes DER for the oracle",
			"a signature counts as valid if it verifies under ANY of MD5/SHA-1/SHA-2 with PKCS#1 v1.5, PSS, ECDSA or Ed25519: the property only forbids accepting what does not verify",
			"ProducedAt is time.Now() inside CreateResponse (documented: the current date to the minute): the check reads the clock immediately before and after the call and allows 5 minutes either side, so only a clock step of several minutes during the run could disturb it; ECDSA certificate signatures minted by fx.Mint are randomised by Go: byte counts of individual outcome classes may differ by a few units between runs, verdicts do not depend on them",
			"ParseResponse with issuer==nil skips the issuer binding by design: only field equality is asserted there",
			"a valid response signed directly with an Ed25519 issuer key may be refused (CreateResponse cannot produce it, the statement only says 'accepts only if'); every other authorised scenario, including delegation by an Ed25519 issuer, must be accepted",
			"an unknown critical singleExtension on the answering SingleResponse must be refused (RFC 6960 4.4 / RFC 5280 4.2 semantics of 'critical'), on another SingleResponse it must not matter")

		if c.Replay != nil {
			h.replay()
			return
		}

		// ---- phase A: which requested SignatureAlgorithm values does the API accept ----
		wA := newWk()
		accepted := map[string][]int{}
		for _, ik := range issuerKeys {
			for alg := 0; alg <= int(x509.Ed25519Sig)+1; alg++ {
				der, _ := h.runTemplate(tmpl{Scenario: "issuer/" + ik, SigAlg: alg}, wA)
				c.States.Add(1)
				if der != nil {
					accepted[ik] = append(accepted[ik], alg)
				}
			}
		}
		h.merge(wA)
		c.Set("accepted_signature_algorithms_by_signer_key", accepted)
		algsFor := func(signKey string) []int { return accepted[strings.TrimSuffix(signKey, "b")] }

		// ---- phase B: templates ----
		var tmpls []tmpl
		isFault := map[int]bool{}
		if c.Quick() {
			for _, sc := range p.scenarios {
				for _, ct := range allContents(2) {
					if sc.FaultSet && ct.deviations() <= 1 {
						isFault[len(tmpls)] = true
					}
					tmpls = append(tmpls, tmpl{Scenario: sc.ID, C: ct})
				}
				for _, ct := range allContents(1) {
					for _, a := range algsFor(sc.SignKey) {
						if a != 0 {
							if sc.Kind == "issuer" && ct.deviations() == 0 {
								isFault[len(tmpls)] = true
							}
							tmpls = append(tmpls, tmpl{Scenario: sc.ID, C: ct, SigAlg: a})
						}
					}
				}
			}
		} else {
			for _, sc := range p.scenarios {
				for _, ct := range allContents(99) {
					for _, a := range algsFor(sc.SignKey) {
						dv := ct.deviations()
						if (a == 0 && dv <= 1) || (a == 0 && dv <= 2 && sc.FaultSet) || (dv == 0) {
							isFault[len(tmpls)] = true
						}
						tmpls = append(tmpls, tmpl{Scenario: sc.ID, C: ct, SigAlg: a})
					}
				}
			}
		}
		// templates outside the documented domain: every alternative alone on the
		// default content, every authorised scenario whose signer CreateResponse supports
		nDom := 0
		for _, sc := range p.scenarios {
			if !sc.Positive || keyKind(sc.SignKey) == "ed" {
				continue
			}
			for _, d := range domainAlts {
				tmpls = append(tmpls, tmpl{Scenario: sc.ID, C: d.C})
				nDom++
			}
		}
		c.Set("templates_outside_documented_domain", nDom)
		c.Set("templates", len(tmpls))
		c.Set("scenarios", len(p.scenarios))
		W := c.Workers()
		wks := make([]*wk, W)
		for i := range wks {
			wks[i] = newWk()
		}
		bases := make([]*baseDER, len(tmpls))
		done := c.Parallel(len(tmpls), func(w, i int) {
			der, tbs := h.runTemplate(tmpls[i], wks[w])
			if der != nil && tbs != nil && isFault[i] {
				bases[i] = &baseDER{t: tmpls[i], sc: p.byID(tmpls[i].Scenario), der: der, tbs: tbs}
			}
		})
		c.States.Add(int64(len(tmpls)))
		if !done {
			c.Incomplete("budget hit during the template round trips")
		}
		var fb []*baseDER
		for _, b := range bases {
			if b != nil {
				fb = append(fb, b)
			}
		}
		c.Set("fault_bases", len(fb))
		if c.WantSample() && len(fb) > 0 {
			c.Sample(map[string]any{"template": fb[0].t.String(), "der": hex.EncodeToString(fb[0].der)})
		}

		// ---- phase C: byte-level and TLV faults on every fault base ----
		type item struct {
			b     int
			tlv   bool
			start int
		}
		const chunk = 96
		const nodeChunk = 6
		var items []item
		type tree struct {
			roots, flat []*node
		}
		trees := make([]tree, len(fb))
		var nByte, nTLV int64
		for bi, b := range fb {
			for s := 0; s < len(b.der); s += chunk {
				items = append(items, item{bi, false, s})
			}
			roots, flat, ok := tlvTree(b.der)
			if !ok {
				c.Broken("CreateResponse output is not a clean TLV tree: %x", b.der)
			}
			trees[bi] = tree{roots, flat}
			if c.Quick() && (b.t.C.Hash != 0 || b.t.C.Serial != 0) {
				continue // quick: same TLV shape as the baseline content; the thorough tier does them all
			}
			for s := 0; s < len(flat); s += nodeChunk {
				items = append(items, item{bi, true, s})
			}
		}
		if done {
			done = c.Parallel(len(items), func(w, i int) {
				it := items[i]
				b := fb[it.b]
				k := wks[w]
				pc := pcase{issuer: b.sc.Issuer.X, ref: b.sc.IssRef, baseTBS: b.tbs}
				if !it.tlv {
					buf := make([]byte, len(b.der))
					for off := it.start; off < it.start+chunk && off < len(b.der); off++ {
						copy(buf, b.der)
						for _, v := range subVals(b.der[off]) {
							buf[off] = v
							off, v := off, v
							pc.input, pc.kind = buf, "byte-sub["+b.sc.Kind+"]"
							pc.fault = func() string {
								return fmt.Sprintf("byte %d: %02x -> %02x in the output of %s", off, b.der[off], v, b.t.String())
							}
							h.evalParse(pc, k)
							k.hist["#mutants byte-substitution"]++
						}
						buf[off] = b.der[off]
						pc.input, pc.kind = b.der[:off], "truncate["+b.sc.Kind+"]"
						off := off
						pc.fault = func() string { return fmt.Sprintf("truncated to %d bytes: output of %s", off, b.t.String()) }
						h.evalParse(pc, k)
						k.hist["#mutants truncation"]++
					}
					return
				}
				tr := trees[it.b]
				for ni := it.start; ni < it.start+nodeChunk && ni < len(tr.flat); ni++ {
					for op := 0; op < nTLVOps; op++ {
						m := tlvMutant(tr.roots, tr.flat[ni], op)
						if bytes.Equal(m, b.der) {
							continue
						}
						ni, op := ni, op
						pc.input, pc.kind = m, "tlv-"+tlvOpName(op)+"["+b.sc.Kind+"]"
						pc.fault = func() string {
							return fmt.Sprintf("TLV node #%d (tag %02x) op %d(%s) on the output of %s", ni, tr.flat[ni].id, op, tlvOpName(op), b.t.String())
						}
						h.evalParse(pc, k)
						k.hist["#mutants tlv"]++
					}
				}
			})
			if !done {
				c.Incomplete("budget hit during byte/TLV fault injection: not every (base DER, offset) pair was evaluated")
			}
		}
		for _, k := range wks {
			nByte += k.hist["#mutants byte-substitution"] + k.hist["#mutants truncation"]
			nTLV += k.hist["#mutants tlv"]
		}
		c.States.Add(nByte + nTLV)

		// ---- phase D: splices between responses ----
		wD := newWk()
		if done {
			h.splices(fb, wD)
		}
		// ---- phase E: harness-built multi-status bodies ----
		h.multi(wD)
		// ---- phase F: requests ----
		h.requests(wD)
		h.merge(wD)
		for _, k := range wks {
			h.merge(k)
		}
		if h.malleable != nil {
			c.Set("accepted_ecdsa_signatures_refused_by_VerifyASN1_for_encoding_only", h.malleable)
		}
		reentrantPhase(c)
		c.Set("mutants_byte_level", nByte)
		c.Set("mutants_tlv", nTLV)
	})
}

// splices: every mix of {tbs, signatureAlgorithm, signature, certs} taken from
// two different responses.
func (h *harness) splices(fb []*baseDER, w *wk) {
	// pairs: within a scenario baseline x each other content; across scenarios at baseline content
	var pairs [][2]*baseDER
	byScen := map[string][]*baseDER{}
	var baselines []*baseDER
	for _, b := range fb {
		if b.t.SigAlg != 0 {
			continue
		}
		byScen[b.sc.ID] = append(byScen[b.sc.ID], b)
		if b.t.C.deviations() == 0 {
			baselines = append(baselines, b)
		}
	}
	ids := make([]string, 0, len(byScen))
	for id := range byScen {
		ids = append(ids, id)
	}
	sort.Strings(ids)
	for _, id := range ids {
		var base *baseDER
		for _, b := range byScen[id] {
			if b.t.C.deviations() == 0 {
				base = b
			}
		}
		if base == nil {
			continue
		}
		for _, b := range byScen[id] {
			if b != base && b.t.C.deviations() == 1 && b.sc.FaultSet {
				pairs = append(pairs, [2]*baseDER{base, b})
			}
		}
	}
	for _, a := range baselines {
		for _, b := range baselines {
			if a != b && a.sc.FaultSet && b.sc.FaultSet {
				pairs = append(pairs, [2]*baseDER{a, b})
			}
		}
	}
	n := int64(0)
	for _, pr := range pairs {
		if h.c.TimeUp() {
			h.c.Incomplete("budget hit during splices")
			return
		}
		a, e1 := decodeOuter(pr[0].der)
		b, e2 := decodeOuter(pr[1].der)
		if e1 != nil || e2 != nil {
			continue
		}
		for mask := 1; mask < 15; mask++ {
			mix := *a
			if mask&1 != 0 {
				mix.TBS = b.TBS
			}
			if mask&2 != 0 {
				mix.SigAlg = b.SigAlg
			}
			if mask&4 != 0 {
				mix.Sig = b.Sig
			}
			if mask&8 != 0 {
				mix.Certs = b.Certs
			}
			m, err := assemble(mix)
			if err != nil {
				h.c.Broken("assemble: %v", err)
			}
			for side := 0; side < 2; side++ {
				sc := pr[side].sc
				mask, side := mask, side
				h.evalParse(pcase{input: m, issuer: sc.Issuer.X, ref: sc.IssRef, kind: "splice",
					fault: func() string {
						return fmt.Sprintf("splice mask %04b (bit set = component of B; tbs,sigalg,sig,certs) A=%s B=%s, issuer of %c", mask, pr[0].t.String(), pr[1].t.String(), 'A'+rune(side))
					}}, w)
				n++
			}
		}
	}
	h.c.States.Add(n)
	h.c.Set("splice_inputs", n)
}

// ---------------------------------------------------------------------------
// multi-status bodies (built with encoding/asn1, signed with the standard library)

func stdSign(keyName string, msg []byte) ([]byte, sAlgID) {
	null := asn1.RawValue{Tag: 5}
	switch keyKind(keyName) {
	case "rsa":
		k := fx.StdRSA(keyName)
		sig, err := k.Sign(nil, digestOf(crypto.SHA256, msg), crypto.SHA256)
		if err != nil {
			panic(err)
		}
		return sig, sAlgID{Algorithm: oidSHA256RSA, Parameters: null}
	case "ec":
		k := fx.EC(keyName)
		hh := crypto.SHA256
		o := oidECDSASHA256
		if k.Curve.Params().BitSize == 384 {
			hh, o = crypto.SHA384, oidECDSASHA384
		}
		sig, err := k.Sign(nil, digestOf(hh, msg), hh) // RFC 6979, deterministic
		if err != nil {
			panic(err)
		}
		return sig, sAlgID{Algorithm: o}
	}
	k := fx.Ed(keyName)
	sig, err := k.Sign(nil, msg, crypto.Hash(0))
	if err != nil {
		panic(err)
	}
	return sig, sAlgID{Algorithm: oidEd25519}
}

func mustMarshal(v any, params string) []byte {
	b, err := asn1.MarshalWithParams(v, params)
	if err != nil {
		panic(err)
	}
	return b
}

var (
	oidMultiExt  = asn1.ObjectIdentifier{1, 3, 6, 1, 4, 1, 99999, 13, 10}
	oidMultiCrit = asn1.ObjectIdentifier{1, 3, 6, 1, 4, 1, 99999, 13, 11}
)

// multiExtModes: 0 = no singleExtensions; 1 = single #i carries a non-critical
// extension whose value names i; 2+k = as 1 and single #k also carries an
// unknown CRITICAL extension.
const multiExtModes = 5

// buildMulti assembles a signed response with one SingleResponse per serial.
// Single #i: status by i%3 (good, revoked reason 1, unknown), thisUpdate T0+i h.
func buildMulti(sc *scenario, serials []*big.Int, byKey bool, extMode int) (der []byte, singles []refSingle) {
	var rd sRespData
	if byKey {
		kh := digestOf(crypto.SHA1, []byte("responder key"))
		rd.ResponderID = asn1.RawValue{Class: asn1.ClassContextSpecific, Tag: 2, IsCompound: true, Bytes: mustMarshal(kh, "")}
	} else {
		rd.ResponderID = asn1.RawValue{Class: asn1.ClassContextSpecific, Tag: 1, IsCompound: true, Bytes: sc.RespSubject}
	}
	rd.ProducedAt = fx.T0
	for i, s := range serials {
		hh := crypto.SHA1
		if i == 1 {
			hh = crypto.SHA256
		}
		rs := refSingle{Serial: s, Status: i % 3, ThisUpdate: fx.T0.Add(time.Duration(i) * time.Hour), NextUpdate: fx.T0.Add(100 * time.Hour),
			HashOID: oidOfHash(hh), NameHash: digestOf(hh, sc.IssRef.RawSubject), KeyHash: digestOf(hh, sc.IssRef.KeyBits)}
		var st asn1.RawValue
		switch rs.Status {
		case 0:
			st = asn1.RawValue{Class: asn1.ClassContextSpecific, Tag: 0}
		case 2:
			st = asn1.RawValue{Class: asn1.ClassContextSpecific, Tag: 2}
		case 1:
			rs.RevokedAt = fx.T0.Add(-time.Duration(10+i) * time.Hour)
			rs.Reason = 1
			rs.NextUpdate = time.Time{}
			st = asn1.RawValue{FullBytes: mustMarshal(sRevoked{Time: rs.RevokedAt, Reason: 1}, "tag:1")}
		}
		if extMode >= 1 {
			rs.Exts = append(rs.Exts, sExt{ID: oidMultiExt, Value: []byte{0x04, 0x01, byte(i)}})
		}
		if extMode >= 2 && extMode-2 == i {
			rs.Exts = append(rs.Exts, sExt{ID: oidMultiCrit, Critical: true, Value: []byte{0x01, 0x01, 0xff}})
		}
		rd.Responses = append(rd.Responses, sSingle{
			CertID:     sCertID{Hash: sAlgID{Algorithm: rs.HashOID, Parameters: asn1.RawValue{Tag: 5}}, NameHash: rs.NameHash, KeyHash: rs.KeyHash, Serial: s},
			Status:     st,
			ThisUpdate: rs.ThisUpdate, NextUpdate: rs.NextUpdate, Exts: rs.Exts})
		singles = append(singles, rs)
	}
	tbs := mustMarshal(rd, "")
	sig, alg := stdSign(sc.SignKey, tbs)
	b := sBasicRaw{TBS: asn1.RawValue{FullBytes: tbs}, SigAlg: alg, Sig: asn1.BitString{Bytes: sig, BitLength: 8 * len(sig)}}
	if sc.Embed != nil {
		b.Certs = []asn1.RawValue{{FullBytes: sc.Embed.DER}}
	}
	der, err := assemble(b)
	if err != nil {
		panic(err)
	}
	return der, singles
}

func (h *harness) multi(w *wk) {
	c := h.c
	A := new(big.Int).Lsh(big.NewInt(1), 70)
	B := new(big.Int).Add(A, big.NewInt(1))
	C := big.NewInt(1)
	D := big.NewInt(2)
	alphabet := []*big.Int{A, B, C}
	var patterns [][]*big.Int
	for n := 1; n <= 3; n++ {
		total := 1
		for i := 0; i < n; i++ {
			total *= 3
		}
		for x := 0; x < total; x++ {
			var pt []*big.Int
			y := x
			for i := 0; i < n; i++ {
				pt = append(pt, alphabet[y%3])
				y /= 3
			}
			patterns = append(patterns, pt)
		}
	}
	queries := []*big.Int{nil, A, B, C, D}
	var scs []*scenario
	for _, sc := range h.p.scenarios {
		if sc.Kind == "issuer" || (sc.Kind == "deleg" && sc.SignKey == "p256b") || (sc.Kind == "deleg-otherCA" && sc.SignKey == "p256b" && sc.IssuerKey == "p256") {
			scs = append(scs, sc)
		}
	}
	// unit = (scenario, serial pattern); each unit is crossed with the responder
	// id form, the extension mode and every query
	type unit struct {
		sc *scenario
		pi int
	}
	var units []unit
	for _, sc := range scs {
		for pi := range patterns {
			units = append(units, unit{sc, pi})
		}
	}
	W0 := c.Workers()
	uwk := make([]*wk, W0)
	for i := range uwk {
		uwk[i] = newWk()
	}
	unitSeeds := make([][]pcase, len(units))
	unitN := make([]int64, len(units))
	doneU := c.Parallel(len(units), func(wi, ui int) {
		w := uwk[wi]
		sc, pi := units[ui].sc, units[ui].pi
		pt := patterns[pi]
		for _, byKey := range []bool{false, true} {
			if byKey && pi%7 != 0 {
				continue // the responderID form is independent of the serial matching: a fixed seventh of the patterns
			}
			for extMode := 0; extMode < multiExtModes; extMode++ {
				critAt := -1
				if extMode >= 2 {
					critAt = extMode - 2
					if critAt >= len(pt) {
						continue
					}
				}
				der, singles := buildMulti(sc, pt, byKey, extMode)
				outer, oerr := decodeOuter(der)
				if oerr != nil {
					c.Broken("harness-built body not decodable: %v", oerr)
				}
				tbsDER := outer.TBS.FullBytes
				for _, q := range queries {
					q := q
					pc := pcase{input: der, serial: q, issuer: sc.Issuer.X, ref: sc.IssRef, kind: "multi[" + sc.Kind + "]", baseTBS: tbsDER,
						fault: func() string {
							return fmt.Sprintf("harness-built body, scenario %s, serials %v, responder byKey=%v, extension mode %d (0 none, 1 per-single non-critical, 2+k also a critical one on single #k), query %v", sc.ID, pt, byKey, extMode, q)
						}}
					r, err := h.evalParse(pc, w)
					unitN[ui]++
					want := -1
					if q == nil {
						if len(pt) == 1 {
							want = 0
						} else {
							want = -2 // statement silent for ParseResponse on several statuses
						}
					} else {
						for i, s := range pt {
							if s.Cmp(q) == 0 {
								want = i
								break
							}
						}
					}
					edDirect := sc.Kind == "issuer" && keyKind(sc.IssuerKey) == "ed"
					switch {
					case err != nil && strings.HasPrefix(err.Error(), "panic"):
					case want == -1 && err == nil:
						c.Violation("ParseResponseForCert: response returned although no SingleResponse has the requested serial", h.wit(pc, ""))
					case want >= 0 && want == critAt:
						// the single that answers the query carries an unknown critical extension
						if err == nil {
							c.Violation("response accepted although the SingleResponse it is answered from carries an unknown critical extension", h.wit(pc, fmt.Sprintf("single #%d of %d", want, len(pt))))
						} else {
							w.hist["multi: critical extension on the answering single -> error"]++
						}
					case want >= 0 && err != nil:
						if sc.MustAcc && !edDirect {
							what := "ParseResponseForCert: valid body with a matching serial rejected: "
							if q == nil {
								what = "ParseResponse: valid single-status body rejected: "
							}
							if critAt >= 0 {
								what += "[unknown critical extension on ANOTHER single] "
							}
							c.Violation(what+errClass(err), h.wit(pc, err.Error()))
						}
					case want >= 0 && err == nil:
						if bad := cmpFields(r, nil, singles[want], false); len(bad) > 0 {
							c.Violation("ParseResponseForCert: field "+bad[0]+" is not that of the FIRST SingleResponse with the serial", h.wit(pc, fmt.Sprintf("expected single #%d; differing fields %v", want, bad)))
						}
						w.hist[fmt.Sprintf("multi: returned the first match (position %d of %d)", want, len(pt))]++
						if critAt >= 0 {
							w.hist["multi: critical extension on another single -> answered from the matching one"]++
						}
					case want == -1 && err != nil:
						w.hist["multi: no matching serial -> error"]++
					}
					if extMode == 0 && len(pt) == 3 && pi%13 == 0 && q != nil && q.Cmp(A) == 0 && !byKey {
						unitSeeds[ui] = append(unitSeeds[ui], pc)
					}
				}
			}
		}
	})
	if !doneU {
		c.Incomplete("budget hit during the multi-status bodies")
	}
	n := int64(0)
	var faultSeeds []pcase
	for ui := range units {
		n += unitN[ui]
		faultSeeds = append(faultSeeds, unitSeeds[ui]...)
	}
	for _, k := range uwk {
		h.merge(k)
	}
	c.Set("multi_status_cases", n)
	// byte-level faults on a fixed subset of the multi-status bodies, through ParseResponseForCert
	nm := int64(0)
	limit := ev.Pick(c, 8, len(faultSeeds))
	if limit > len(faultSeeds) {
		limit = len(faultSeeds)
	}
	seeds := faultSeeds[:limit]
	W := c.Workers()
	wks := make([]*wk, W)
	for i := range wks {
		wks[i] = newWk()
	}
	type it struct{ s, off int }
	var items []it
	for si, s := range seeds {
		for off := 0; off < len(s.input); off += 64 {
			items = append(items, it{si, off})
		}
	}
	done := c.Parallel(len(items), func(wi, i int) {
		seed := seeds[items[i].s]
		k := wks[wi]
		buf := make([]byte, len(seed.input))
		for off := items[i].off; off < items[i].off+64 && off < len(seed.input); off++ {
			copy(buf, seed.input)
			for _, v := range subVals(seed.input[off]) {
				buf[off] = v
				pc := seed
				pc.input, pc.kind = buf, "multi-byte-sub"
				off, v := off, v
				base := seed.fault
				pc.fault = func() string { return fmt.Sprintf("byte %d -> %02x in %s", off, v, base()) }
				h.evalParse(pc, k)
				k.hist["#mutants multi-status byte-substitution"]++
			}
			pc := seed
			pc.input, pc.kind = seed.input[:off], "multi-truncate"
			h.evalParse(pc, k)
			k.hist["#mutants multi-status truncation"]++
		}
	})
	if !done {
		c.Incomplete("budget hit during faults on multi-status bodies")
	}
	for _, k := range wks {
		nm += k.hist["#mutants multi-status byte-substitution"] + k.hist["#mutants multi-status truncation"]
		h.merge(k)
	}
	c.States.Add(n + nm)
	c.Set("mutants_multi_status", nm)
}

// ---------------------------------------------------------------------------
// requests

type reqCase struct {
	IssuerKey string `json:"issuer_key"`
	Serial    int    `json:"serial"`
	Opt       int    `json:"opt"` // index into reqOpts
}

var reqOpts = []struct {
	name string
	opts *ocsp.RequestOptions
	want crypto.Hash // 0 = unsupported
}{
	{"nil", nil, crypto.SHA1}, {"zero", &ocsp.RequestOptions{}, crypto.SHA1},
	{"SHA1", &ocsp.RequestOptions{Hash: crypto.SHA1}, crypto.SHA1}, {"SHA256", &ocsp.RequestOptions{Hash: crypto.SHA256}, crypto.SHA256},
	{"SHA384", &ocsp.RequestOptions{Hash: crypto.SHA384}, crypto.SHA384}, {"SHA512", &ocsp.RequestOptions{Hash: crypto.SHA512}, crypto.SHA512},
	{"MD5", &ocsp.RequestOptions{Hash: crypto.MD5}, 0}, {"SHA224", &ocsp.RequestOptions{Hash: crypto.SHA224}, 0},
}

func (h *harness) runRequest(rc reqCase, w *wk, faults bool) {
	c := h.c
	iss := h.p.issuers[rc.IssuerKey]
	ref := h.p.issRefs[rc.IssuerKey]
	serial := serialAlts[rc.Serial]
	o := reqOpts[rc.Opt]
	viol := func(sig, detail string) {
		r := rc
		c.Violation(sig, witness{Kind: "request", Req: &r, Detail: detail})
	}
	var der []byte
	var err error
	pan, msg, site := ev.Try(func() { der, err = ocsp.CreateRequest(&x509.Certificate{SerialNumber: serial}, iss.X, o.opts) })
	w.creates++
	if pan {
		viol("panic@"+site+": "+ev.MsgClass(msg), msg)
		return
	}
	if err != nil {
		w.hist["request create reject (hash "+o.name+"): "+errClass(err)]++
		if o.want != 0 {
			viol("CreateRequest fails for hash "+o.name+": "+errClass(err), err.Error())
		}
		return
	}
	if o.want == 0 {
		w.hist["request create ok with a hash outside SHA-1/SHA-2 ("+o.name+")"]++
		return
	}
	w.hist["request create ok"]++
	wantName, wantKey := digestOf(o.want, ref.RawSubject), digestOf(o.want, ref.KeyBits)
	// independent decode
	w.oracle++
	var sr sRequest
	if rest, e := asn1.Unmarshal(der, &sr); e != nil || len(rest) != 0 || len(sr.TBS.RequestList) != 1 {
		viol("CreateRequest output is not a one-entry OCSPRequest for encoding/asn1", hex.EncodeToString(der))
	} else {
		ci := sr.TBS.RequestList[0].Cert
		if !ci.Hash.Algorithm.Equal(oidOfHash(o.want)) || !bytes.Equal(ci.NameHash, wantName) || !bytes.Equal(ci.KeyHash, wantKey) || ci.Serial.Cmp(serial) != 0 {
			viol("CreateRequest: CertID in the DER differs from hash/issuer/serial given", hex.EncodeToString(der))
		}
	}
	var rq *ocsp.Request
	pan, msg, site = ev.Try(func() { rq, err = ocsp.ParseRequest(der) })
	w.parses++
	if pan {
		viol("panic@"+site+": "+ev.MsgClass(msg), msg)
		return
	}
	if err != nil {
		viol("ParseRequest rejects the output of CreateRequest: "+errClass(err), err.Error())
		return
	}
	w.hist["request round trip ok"]++
	chk := func(f string, ok bool) {
		if !ok {
			viol("request round trip: "+f+" differs", hex.EncodeToString(der))
		}
	}
	chk("HashAlgorithm", rq.HashAlgorithm == o.want)
	chk("IssuerNameHash", bytes.Equal(rq.IssuerNameHash, wantName))
	chk("IssuerKeyHash", bytes.Equal(rq.IssuerKeyHash, wantKey))
	chk("SerialNumber", rq.SerialNumber != nil && rq.SerialNumber.Cmp(serial) == 0)
	// Request.Marshal is the inverse of ParseRequest
	var der2 []byte
	pan, msg, site = ev.Try(func() { der2, err = rq.Marshal() })
	if pan {
		viol("panic@"+site+": "+ev.MsgClass(msg), msg)
	} else if err != nil || !bytes.Equal(der2, der) {
		viol("Request.Marshal of a parsed request differs from the bytes parsed", hex.EncodeToString(der)+" vs "+hex.EncodeToString(der2))
	}
	if !faults {
		return
	}
	// requests are unsigned: a mutant may parse, but what it yields must be what encoding/asn1 reads; no panics
	buf := make([]byte, len(der))
	try := func(m []byte, kind string) {
		var q *ocsp.Request
		var e error
		pan, msg, site := ev.Try(func() { q, e = ocsp.ParseRequest(m) })
		w.parses++
		c.States.Add(1)
		if pan {
			c.Violation("panic@"+site+": "+ev.MsgClass(msg), witness{Kind: "request-bytes", Input: hex.EncodeToString(m), Detail: msg})
			return
		}
		if e != nil {
			w.hist["request "+kind+" reject: "+errClass(e)]++
			return
		}
		w.nontriv++
		var s2 sRequest
		if rest, e2 := asn1.Unmarshal(m, &s2); e2 == nil && len(rest) == 0 && len(s2.TBS.RequestList) >= 1 {
			w.oracle++
			ci := s2.TBS.RequestList[0].Cert
			if q.HashAlgorithm != hashByOID(ci.Hash.Algorithm) || !bytes.Equal(q.IssuerNameHash, ci.NameHash) || !bytes.Equal(q.IssuerKeyHash, ci.KeyHash) ||
				q.SerialNumber == nil || q.SerialNumber.Cmp(ci.Serial) != 0 {
				c.Violation("ParseRequest: fields differ from what encoding/asn1 reads in the same bytes", witness{Kind: "request-bytes", Input: hex.EncodeToString(m)})
			}
			w.hist["request "+kind+" accept (fields as in the bytes)"]++
		} else {
			w.hist["request "+kind+" accept (not decodable by encoding/asn1, not compared)"]++
		}
	}
	for off := range der {
		copy(buf, der)
		for _, v := range subVals(der[off]) {
			buf[off] = v
			try(buf, "byte-sub")
		}
		try(der[:off], "truncate")
	}
}

func (h *harness) requests(w *wk) {
	n := 0
	for _, ik := range []string{"rsa2048", "p256", "ed-issuer"} {
		for s := 0; s < contentDims[3]; s++ {
			for o := range reqOpts {
				if h.c.TimeUp() {
					h.c.Incomplete("budget hit during request cases")
					return
				}
				h.runRequest(reqCase{ik, s, o}, w, true)
				n++
			}
		}
	}
	h.c.States.Add(int64(n))
	h.c.Set("request_cases", n)
}

// ---------------------------------------------------------------------------

func (h *harness) replay() {
	c := h.c
	var wt witness
	if err := json.Unmarshal(c.Replay, &wt); err != nil {
		c.Broken("bad witness: %v", err)
	}
	w := newWk()
	defer h.merge(w)
	c.States.Add(1)
	switch wt.Kind {
	case "template":
		if wt.Tmpl == nil {
			c.Broken("witness without template")
		}
		h.runTemplate(*wt.Tmpl, w)
	case "request":
		if wt.Req == nil {
			c.Broken("witness without request case")
		}
		h.runRequest(*wt.Req, w, false)
	case "request-bytes":
		m, _ := hex.DecodeString(wt.Input)
		pan, msg, site := ev.Try(func() { ocsp.ParseRequest(m) })
		if pan {
			c.Violation("panic@"+site+": "+ev.MsgClass(msg), wt)
		}
	case "parse":
		in, err := hex.DecodeString(wt.Input)
		if err != nil {
			c.Broken("bad input hex")
		}
		pc := pcase{input: in, kind: "replay", fault: func() string { return wt.Fault }}
		if wt.Issuer != "" {
			der, _ := hex.DecodeString(wt.Issuer)
			x, err := x509.ParseCertificate(der)
			if err != nil {
				c.Broken("issuer: %v", err)
			}
			ref, err := newIssuerRef(der)
			if err != nil {
				c.Broken("issuer (std): %v", err)
			}
			pc.issuer, pc.ref = x, ref
		}
		if wt.CertSerial != "" {
			s, ok := new(big.Int).SetString(wt.CertSerial, 16)
			if !ok {
				c.Broken("bad serial")
			}
			pc.serial = s
		}
		r, err := h.evalParse(pc, w)
		fmt.Printf("replay: err=%v accepted=%v\n", err, r != nil)
	default:
		c.Broken("unknown witness kind %q", wt.Kind)
	}
}
