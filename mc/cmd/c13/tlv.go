// G-tlv: every (node, operator) pair of a fixed operator menu on the TLV tree
// of a DER blob. Definite lengths, single-octet identifiers (all that occurs in
// the seeds). A primitive OCTET STRING whose content is exactly one SEQUENCE
// is descended into (ResponseBytes.response wraps the BasicOCSPResponse).
package main

import "bytes"

type node struct {
	id      byte
	content []byte // primitive content (nil when kids are used)
	kids    []*node
	hasKids bool
}

func readLen(b []byte) (l, n int, ok bool) {
	if len(b) < 1 {
		return
	}
	if b[0]&0x80 == 0 {
		return int(b[0]), 1, true
	}
	k := int(b[0] & 0x7f)
	if k == 0 || k > 3 || len(b) < 1+k {
		return
	}
	for i := 0; i < k; i++ {
		l = l<<8 | int(b[1+i])
	}
	return l, 1 + k, true
}

func parseSeq(b []byte) ([]*node, bool) {
	var out []*node
	for len(b) > 0 {
		if len(b) < 2 || b[0]&0x1f == 0x1f {
			return nil, false
		}
		l, n, ok := readLen(b[1:])
		if !ok || len(b) < 1+n+l {
			return nil, false
		}
		body := b[1+n : 1+n+l]
		nd := &node{id: b[0]}
		if b[0]&0x20 != 0 {
			kids, ok := parseSeq(body)
			if !ok {
				return nil, false
			}
			nd.kids, nd.hasKids = kids, true
		} else if b[0] == 0x04 && len(body) > 2 && body[0] == 0x30 {
			if kids, ok := parseSeq(body); ok && len(kids) == 1 {
				nd.kids, nd.hasKids = kids, true
			} else {
				nd.content = body
			}
		} else {
			nd.content = body
		}
		out = append(out, nd)
		b = b[1+n+l:]
	}
	return out, true
}

func encLen(l int) []byte {
	switch {
	case l < 0x80:
		return []byte{byte(l)}
	case l < 0x100:
		return []byte{0x81, byte(l)}
	case l < 0x10000:
		return []byte{0x82, byte(l >> 8), byte(l)}
	}
	return []byte{0x83, byte(l >> 16), byte(l >> 8), byte(l)}
}

// TLV operators.
const (
	opDelete = iota
	opDup
	opEmpty
	opSwapNext
	opTrunc1
	opExtend1
	opLenPlus1
	opLenMinus1
	opLenNonMinimal
	opLenIndefinite
	opRetag0 // .. opRetag0+len(retags)-1
)

var retags = []byte{0x02, 0x04, 0x03, 0x30, 0x31, 0xa0, 0xa1, 0x05}
var payloads = [][]byte{{0x00}, {0xff}, {0x80}, {0x7f, 0xff}}

var opPayload0 = opRetag0 + len(retags)
var nTLVOps = opPayload0 + len(payloads)

func tlvOpName(op int) string {
	names := []string{"delete", "duplicate", "empty", "swap-next", "truncate-1", "extend-1", "len+1", "len-1", "len-nonminimal", "len-indefinite"}
	if op < opRetag0 {
		return names[op]
	}
	if op < opPayload0 {
		return "retag"
	}
	return "payload"
}

type tlvMut struct {
	target *node
	op     int
}

func countNodes(ns []*node) int {
	n := 0
	for _, k := range ns {
		n++
		if k.hasKids {
			n += countNodes(k.kids)
		}
	}
	return n
}

func flatten(ns []*node, out *[]*node) {
	for _, k := range ns {
		*out = append(*out, k)
		if k.hasKids {
			flatten(k.kids, out)
		}
	}
}

func encodeSeq(ns []*node, m *tlvMut, buf *bytes.Buffer) {
	for i := 0; i < len(ns); i++ {
		k := ns[i]
		if m != nil && k == m.target {
			switch m.op {
			case opDelete:
				continue
			case opDup:
				encodeNode(k, nil, buf)
				encodeNode(k, nil, buf)
				continue
			case opSwapNext:
				if i+1 < len(ns) {
					encodeNode(ns[i+1], nil, buf)
					encodeNode(k, nil, buf)
					i++
					continue
				}
			}
		}
		encodeNode(k, m, buf)
	}
}

func encodeNode(n *node, m *tlvMut, buf *bytes.Buffer) {
	var content []byte
	if n.hasKids {
		var cb bytes.Buffer
		encodeSeq(n.kids, m, &cb)
		content = cb.Bytes()
	} else {
		content = n.content
	}
	id := n.id
	lenBytes := []byte(nil)
	tail := []byte(nil)
	if m != nil && n == m.target {
		switch {
		case m.op == opEmpty:
			content = nil
		case m.op == opTrunc1:
			if len(content) > 0 {
				content = content[:len(content)-1]
			}
		case m.op == opExtend1:
			content = append(append([]byte{}, content...), 0x00)
		case m.op == opLenPlus1:
			lenBytes = encLen(len(content) + 1)
		case m.op == opLenMinus1:
			if len(content) > 0 {
				lenBytes = encLen(len(content) - 1)
			}
		case m.op == opLenNonMinimal:
			if len(content) < 0x80 {
				lenBytes = []byte{0x81, byte(len(content))}
			} else if len(content) < 0x100 {
				lenBytes = []byte{0x82, 0x00, byte(len(content))}
			} else {
				lenBytes = []byte{0x83, 0x00, byte(len(content) >> 8), byte(len(content))}
			}
		case m.op == opLenIndefinite:
			lenBytes = []byte{0x80}
			tail = []byte{0x00, 0x00}
		case m.op >= opRetag0 && m.op < opPayload0:
			id = retags[m.op-opRetag0]
		case m.op >= opPayload0:
			content = payloads[m.op-opPayload0]
		}
	}
	if lenBytes == nil {
		lenBytes = encLen(len(content))
	}
	buf.WriteByte(id)
	buf.Write(lenBytes)
	buf.Write(content)
	buf.Write(tail)
}

// tlvTree parses der; ok=false when it is not a clean TLV forest.
func tlvTree(der []byte) (roots []*node, flat []*node, ok bool) {
	roots, ok = parseSeq(der)
	if !ok {
		return nil, nil, false
	}
	var buf bytes.Buffer
	encodeSeq(roots, nil, &buf)
	if !bytes.Equal(buf.Bytes(), der) {
		return nil, nil, false
	}
	flatten(roots, &flat)
	return roots, flat, true
}

func tlvMutant(roots []*node, target *node, op int) []byte {
	var buf bytes.Buffer
	encodeSeq(roots, &tlvMut{target, op}, &buf)
	return buf.Bytes()
}
