package main

// Re-entrancy pass (internal/nohb): an OCSP responder / client creates and parses responses on many goroutines;
// "the parsed response equals what was signed, and only authorised responses are accepted" must not depend on what
// another goroutine is creating or parsing at the same time. Every ordered pair of the menu below is run as "first
// call to completion, then the second on another goroutine" WITHOUT a happens-before edge in a -race build:
// ThreadSanitizer reports every location both calls touch unsynchronised, for all interleavings at once.
//
// Menu: ocsp.CreateResponse for the scenarios of the quick fault subset (issuer itself RSA/P-256/P-384, delegated
// responders incl. an Ed25519 issuer, the impostor-CA and wrong-key negatives) with the default content, plus
// revoked + two extensions / unknown + critical extension / SHA-256 CertID contents; ocsp.ParseResponse(issuer) on
// the DER of each of those, ParseResponse(nil), ParseResponseForCert, CreateRequest (SHA-1, SHA-256), ParseRequest,
// Request.Marshal. Every call parses its OWN issuer / responder / embedded certificates from DER and loads its own
// signer key; the PKI objects of the main phase are only used to obtain those DER bytes.

import (
	"crypto"
	"math/big"
	"os"
	"time"

	"github.com/zmap/zcrypto/x509"
	"github.com/zmap/zcrypto/x509/revocation/ocsp"
	"verifmc/internal/ev"
	"verifmc/internal/fx"
	"verifmc/internal/nohb"
)

func reentrantRepoDir() string {
	if v := os.Getenv("VERIF_REPO_DIR"); v != "" {
		return v
	}
	return "/repo"
}

// reOwn returns a copy of the scenario whose certificates are private parses.
func reOwn(sc *scenario) *scenario {
	own := func(c *fx.Cert) *fx.Cert {
		if c == nil {
			return nil
		}
		x, err := x509.ParseCertificate(append([]byte{}, c.DER...))
		if err != nil {
			x = c.X // the parser refuses a minted certificate (the main phase reports that): fall back to the shared parse
		}
		return &fx.Cert{Spec: c.Spec, X: x, DER: c.DER}
	}
	s := *sc
	s.Issuer, s.Responder = own(sc.Issuer), own(sc.Responder)
	s.Embed = own(sc.Embed)
	return &s
}

func reentrantOps() []nohb.Op {
	p, err := buildPKI()
	if err != nil {
		panic(err)
	}
	var ops []nohb.Op
	create := func(id string, ct content, label string) []byte {
		sc := p.byID(id)
		if sc == nil {
			return nil
		}
		t := tmpl{Scenario: id, C: ct}
		mk := func() (func() ([]byte, error), *scenario) {
			s := reOwn(sc)
			resp, _ := t.build(s)
			signer := detSigner{fx.Signer(sc.SignKey)}
			return func() ([]byte, error) { return ocsp.CreateResponse(s.Issuer.X, s.Responder.X, resp, signer) }, s
		}
		f, _ := mk()
		der, err := f()
		ops = append(ops, nohb.Op{Name: "ocsp.CreateResponse(" + id + ", " + label + ")", New: func() func() {
			f, _ := mk()
			return func() { f() }
		}})
		if err != nil {
			return nil
		}
		return der
	}
	parse := func(id string, der []byte, label string) {
		sc := p.byID(id)
		if sc == nil || der == nil {
			return
		}
		ops = append(ops, nohb.Op{Name: "ocsp.ParseResponse(" + label + " of " + id + ", issuer)", New: func() func() {
			s := reOwn(sc)
			d := append([]byte{}, der...)
			return func() {
				if _, err := ocsp.ParseResponse(d, s.Issuer.X); err != nil {
					_ = err.Error()
				}
			}
		}})
	}
	var def content
	var firstDER []byte
	firstID := ""
	for _, id := range []string{"issuer/rsa2048", "issuer/p256", "issuer/p384", "deleg/rsa2048/p256b", "deleg/p256/rsa2048b", "deleg/p384/p384b",
		"deleg/ed-issuer/p256b", "deleg-otherCA/p256/p256b", "deleg-wrongkey/p256/p256b", "deleg-notembedded/p256/p256b"} {
		der := create(id, def, "default content")
		parse(id, der, "default response")
		if firstDER == nil && der != nil {
			firstDER, firstID = der, id
		}
	}
	revoked := content{}
	revoked.set(0, 3) // revoked, reason keyCompromise
	revoked.set(4, 3) // two non-critical extensions
	critical := content{}
	critical.set(0, 1) // unknown
	critical.set(4, 2) // one critical extension
	sha256ID := content{}
	sha256ID.set(2, 1)
	sha256ID.set(3, 1) // 2^70 serial
	for _, v := range []struct {
		id, label string
		c         content
	}{{"issuer/p256", "revoked, two extensions", revoked}, {"deleg/rsa2048/p256b", "critical extension", critical}, {"issuer/rsa2048", "SHA-256 CertID, 2^70 serial", sha256ID}} {
		parse(v.id, create(v.id, v.c, v.label), v.label)
	}
	if firstDER != nil {
		sc := p.byID(firstID)
		ops = append(ops, nohb.Op{Name: "ocsp.ParseResponse(default response of " + firstID + ", nil)", New: func() func() {
			d := append([]byte{}, firstDER...)
			return func() { ocsp.ParseResponse(d, nil) }
		}})
		for _, serial := range []int64{1, 99} {
			ops = append(ops, nohb.Op{Name: "ocsp.ParseResponseForCert(default response of " + firstID + ", serial " + big.NewInt(serial).String() + ")", New: func() func() {
				s := reOwn(sc)
				d := append([]byte{}, firstDER...)
				cert := &x509.Certificate{SerialNumber: big.NewInt(serial)}
				return func() { ocsp.ParseResponseForCert(d, cert, s.Issuer.X) }
			}})
		}
	}
	// requests
	var reqDER []byte
	for _, h := range []crypto.Hash{crypto.SHA1, crypto.SHA256} {
		sc := p.byID("issuer/p256")
		mk := func() func() ([]byte, error) {
			s := reOwn(sc)
			cert := &x509.Certificate{SerialNumber: new(big.Int).Lsh(big.NewInt(1), 70)}
			opts := &ocsp.RequestOptions{Hash: h}
			return func() ([]byte, error) { return ocsp.CreateRequest(cert, s.Issuer.X, opts) }
		}
		if d, err := mk()(); err == nil {
			reqDER = d
		}
		ops = append(ops, nohb.Op{Name: "ocsp.CreateRequest(hash " + h.String() + ")", New: func() func() {
			f := mk()
			return func() { f() }
		}})
	}
	if reqDER != nil {
		ops = append(ops, nohb.Op{Name: "ocsp.ParseRequest + Request.Marshal", New: func() func() {
			d := append([]byte{}, reqDER...)
			return func() {
				if rq, err := ocsp.ParseRequest(d); err == nil {
					rq.Marshal()
				}
			}
		}})
	}
	return ops
}

const reentrantMenuText = "ocsp.CreateResponse for 10 scenarios (issuer RSA/P-256/P-384, delegated incl. Ed25519 issuer, impostor CA, wrong key, not embedded) + 3 content variants, ParseResponse(issuer) on each produced DER, ParseResponse(nil), ParseResponseForCert, CreateRequest SHA-1/SHA-256, ParseRequest+Marshal; own certificate parses and own signer per call"

func reentrantPhase(c *ev.Ctx) {
	if c.Replay != nil {
		return // --replay re-executes one recorded witness of the main phase only
	}
	t0 := time.Now()
	o := nohb.Run(os.Getenv("VERIF_RACE_BIN"), nil, 10*time.Minute)
	if o.Broken != "" {
		c.Broken("re-entrancy pass: %s", o.Broken)
	}
	for _, sig := range o.Sigs() {
		c.Violation("re-entrancy: two calls on different goroutines share unsynchronised state: "+sig, map[string]any{"pair": o.Races[sig], "kind": "nohb"})
	}
	for k, v := range o.Panics {
		c.Violation("re-entrancy: "+k, map[string]any{"pair": v, "kind": "nohb"})
	}
	c.Outcome("re-entrancy pairs without a report", int64(o.Pairs))
	c.States.Add(int64(o.Pairs))
	c.Traces.Add(int64(o.Pairs))
	c.Set("reentrancy", map[string]any{"calls": o.Ops, "ordered_pairs": o.Pairs, "race_signatures": len(o.Races), "harness_only_reports": o.Harness, "canary_ok": o.CanaryOK,
		"seconds": time.Since(t0).Seconds(), "menu": reentrantMenuText,
		"method": "every ordered pair (a, b) of the menu: a to completion on one goroutine, then b on another, without a happens-before edge, in a -race build; a ThreadSanitizer report with both accesses in the repository is a violation"})
}
