package main

// Faults of the LOCAL transport (the net.Conn handed to tls.Client / tls.Server), as environment answers:
// a transport Write of the writer fails (timeout, temporary error, permanent error, short write) at the k-th
// underlying write call of the data phase, or a write deadline expires (through Conn.SetWriteDeadline / SetDeadline);
// a transport Read of the reader fails in the middle of a record (or at a record boundary) and the application
// retries after clearing / extending the deadline. The wire itself is never touched in these runs.
//
// All runs are sequential (the writer performs every Write and Close before the reader starts; the in-memory
// pipe is unbounded), so the outcome of a run is a function of the fault plan only.

import (
	"bytes"
	"errors"
	"fmt"
	"io"
	"net"
	"os"
	"sync"
	"syscall"
	"time"

	"github.com/zmap/zcrypto/tls"
	"verifmc/internal/ev"
	"verifmc/internal/tlsx"
)

// ---------------------------------------------------------------------------------------------------------
// error kinds

type tmpErr struct{ msg string }

func (e *tmpErr) Error() string   { return e.msg }
func (e *tmpErr) Timeout() bool   { return false }
func (e *tmpErr) Temporary() bool { return true }

var _ net.Error = (*tmpErr)(nil)

// mkErr builds the error a transport call answers with.
//
//	timeout   : what an expired deadline gives on a real net.Conn: *net.OpError wrapping os.ErrDeadlineExceeded (Timeout() and Temporary() true)
//	temporary : a net.Error with Temporary()=true, Timeout()=false
//	permanent : io.ErrClosedPipe (not a net.Error)
//	reset     : *net.OpError wrapping ECONNRESET (a net.Error, neither timeout nor temporary)
func mkErr(kind, op string) error {
	switch kind {
	case "timeout":
		return &net.OpError{Op: op, Net: "tlsx", Err: os.ErrDeadlineExceeded}
	case "temporary":
		return &tmpErr{"tlsx: resource temporarily unavailable"}
	case "reset":
		return &net.OpError{Op: op, Net: "tlsx", Err: syscall.ECONNRESET}
	}
	return io.ErrClosedPipe
}

// Virtual deadlines, no wall clock: a non-zero deadline before the year 2000 has expired, any other non-zero
// deadline lies in the future and fires only where the fault plan says the transport would have blocked.
var (
	pastTime   = time.Unix(1, 0)
	futureTime = time.Date(2100, 1, 1, 0, 0, 0, 0, time.UTC)
)

func expiredDeadline(t time.Time) bool { return !t.IsZero() && t.Year() < 2000 }

// ---------------------------------------------------------------------------------------------------------
// the wrapped transport

type faultConn struct {
	inner net.Conn

	mu    sync.Mutex
	armed bool // data phase: faults may fire, write calls are counted

	// write side
	wK      int    // index of the data-phase transport Write call at which the fault starts (-1: none)
	wKind   string // error kind
	wShort  string // "", "1", "hdr", "half", "len-1": that many bytes reach the wire before the error
	wActive bool   // the fault is in force (from call wK until the application clears it)
	wDone   bool
	wDl     bool // an expired write deadline is set
	wCalls  int
	wLens   []int
	wFired  int
	wFirstK int // index of the first transport write that failed (-1)

	// read side
	rPos      int // bytes handed to the TLS layer since the start of the connection
	rOff      int // the transport has nothing more to give when rPos == rOff (-1: none) ...
	rLeft     int // ... that many times
	rKind     string
	rWithData bool // the error is returned together with the last bytes before rOff ((n>0, err)), not by the next call
	rViaDl    bool // the stall surfaces as a timeout because the application armed a read deadline
	rDlArmed  bool
	rExpired  bool // the (virtual) read deadline has passed: every Read times out until a new deadline is set
	rFired    int
	rCalls    int

	// reader BEHAVIOUR (no fault: legal answers of an io.Reader)
	rbMode  string // "eof-with-data": from offset rbOff on the transport returns the last bytes of the stream TOGETHER with io.EOF; "zero-read": one (0, nil) answer at offset rbOff; "one-byte": one byte per Read
	rbOff   int
	rbTotal int // length of the whole stream towards this reader (the writer has finished: sequential runs)
	rbDone  bool
	rbFired int
	rbFinal int // number of bytes returned together with io.EOF
}

func newFaultConn(inner net.Conn) *faultConn {
	return &faultConn{inner: inner, wK: -1, rOff: -1, wFirstK: -1}
}

func (f *faultConn) Write(p []byte) (int, error) {
	f.mu.Lock()
	if !f.armed {
		f.mu.Unlock()
		return f.inner.Write(p)
	}
	idx := f.wCalls
	f.wCalls++
	f.wLens = append(f.wLens, len(p))
	if f.wDl {
		f.wFired++
		if f.wFirstK < 0 {
			f.wFirstK = idx
		}
		f.mu.Unlock()
		return 0, mkErr("timeout", "write")
	}
	first := false
	if f.wK >= 0 && idx == f.wK && !f.wDone {
		f.wActive, f.wDone, first = true, true, true
	}
	if f.wActive {
		f.wFired++
		if f.wFirstK < 0 {
			f.wFirstK = idx
		}
		err := mkErr(f.wKind, "write")
		h := 0
		if first && f.wShort != "" && len(p) > 1 {
			switch f.wShort {
			case "1":
				h = 1
			case "hdr":
				h = 5
			case "half":
				h = len(p) / 2
			case "len-1":
				h = len(p) - 1
			}
			if h < 1 {
				h = 1
			}
			if h > len(p)-1 {
				h = len(p) - 1
			}
		}
		f.mu.Unlock()
		if h > 0 {
			n, _ := f.inner.Write(p[:h])
			return n, err
		}
		return 0, err
	}
	f.mu.Unlock()
	return f.inner.Write(p)
}

func (f *faultConn) clearWrite() {
	f.mu.Lock()
	f.wActive = false
	f.mu.Unlock()
}

func (f *faultConn) Read(p []byte) (int, error) {
	f.mu.Lock()
	f.rCalls++
	if f.armed && f.rbMode != "" && len(p) > 0 {
		switch f.rbMode {
		case "one-byte":
			p = p[:1]
			f.rbFired++
		case "zero-read":
			if f.rPos == f.rbOff && !f.rbDone {
				f.rbDone = true
				f.rbFired++
				f.mu.Unlock()
				return 0, nil
			}
			if f.rPos < f.rbOff && len(p) > f.rbOff-f.rPos {
				p = p[:f.rbOff-f.rPos]
			}
		case "eof-with-data":
			if f.rPos < f.rbOff && len(p) > f.rbOff-f.rPos {
				p = p[:f.rbOff-f.rPos]
			}
		}
		f.mu.Unlock()
		n, err := f.inner.Read(p)
		f.mu.Lock()
		defer f.mu.Unlock()
		f.rPos += n
		if f.rbMode == "eof-with-data" && err == nil && n > 0 && f.rPos == f.rbTotal && !f.rbDone {
			// io.Reader: "a Reader returning a non-zero number of bytes at the end of the input stream may return either err == EOF or err == nil"
			f.rbDone = true
			f.rbFired++
			f.rbFinal = n
			return n, io.EOF
		}
		return n, err
	}
	if f.armed {
		if f.rExpired {
			f.rFired++
			f.mu.Unlock()
			return 0, mkErr("timeout", "read")
		}
		if f.rOff >= 0 && f.rLeft > 0 && (!f.rViaDl || f.rDlArmed) {
			if f.rPos == f.rOff {
				f.rLeft--
				f.rFired++
				if f.rViaDl {
					f.rExpired = true
				}
				f.mu.Unlock()
				return 0, mkErr(f.rKind, "read")
			}
			if f.rPos < f.rOff && len(p) > f.rOff-f.rPos {
				p = p[:f.rOff-f.rPos]
			}
		}
	}
	f.mu.Unlock()
	n, err := f.inner.Read(p)
	f.mu.Lock()
	defer f.mu.Unlock()
	f.rPos += n
	if f.armed && f.rWithData && err == nil && n > 0 && f.rOff >= 0 && f.rLeft > 0 && f.rPos == f.rOff && (!f.rViaDl || f.rDlArmed) {
		f.rLeft--
		f.rFired++
		if f.rViaDl {
			f.rExpired = true
		}
		return n, mkErr(f.rKind, "read")
	}
	return n, err
}

func (f *faultConn) fired() (w, r int) {
	f.mu.Lock()
	defer f.mu.Unlock()
	return f.wFired, f.rFired
}

func (f *faultConn) Close() error         { return f.inner.Close() }
func (f *faultConn) LocalAddr() net.Addr  { return f.inner.LocalAddr() }
func (f *faultConn) RemoteAddr() net.Addr { return f.inner.RemoteAddr() }

func (f *faultConn) SetWriteDeadline(t time.Time) error {
	f.mu.Lock()
	f.wDl = expiredDeadline(t)
	f.mu.Unlock()
	return nil
}

func (f *faultConn) SetReadDeadline(t time.Time) error {
	f.mu.Lock()
	switch {
	case t.IsZero():
		f.rDlArmed, f.rExpired = false, false
	case expiredDeadline(t):
		f.rDlArmed, f.rExpired = true, true
	default:
		f.rDlArmed, f.rExpired = true, false
	}
	f.mu.Unlock()
	return nil
}

func (f *faultConn) SetDeadline(t time.Time) error {
	f.SetWriteDeadline(t)
	return f.SetReadDeadline(t)
}

var _ net.Conn = (*faultConn)(nil)

// handshakeWrapped is tlsx.Handshake with both transports wrapped.
func handshakeWrapped(cc, sc *tls.Config, prep func(n *tlsx.Net)) (*tlsx.Session, *faultConn, *faultConn) {
	cp, sp, n := tlsx.NewPipe()
	if prep != nil {
		prep(n)
	}
	fc, fs := newFaultConn(cp), newFaultConn(sp)
	s := &tlsx.Session{Net: n}
	s.Client.Conn = tls.Client(fc, cc)
	s.Server.Conn = tls.Server(fs, sc)
	var wg sync.WaitGroup
	run := func(side *tlsx.Side, party int) {
		defer wg.Done()
		p, msg, site := ev.Try(func() { side.Err = side.Conn.Handshake() })
		if p {
			side.Panic = fmt.Sprintf("%s @ %s", msg, site)
			side.Conn.Close()
			return
		}
		if side.Err != nil {
			side.Conn.Close()
			return
		}
		side.OKDone = true
		n.SetIdle(party, true)
	}
	wg.Add(2)
	go run(&s.Server, 1)
	run(&s.Client, 0)
	wg.Wait()
	n.SetIdle(0, false)
	n.SetIdle(1, false)
	return s, fc, fs
}

// ---------------------------------------------------------------------------------------------------------
// fault plans

const (
	contCloseUncleared = iota // the application gives up: Close while the fault is still in force
	contClearClose            // the fault is cleared (deadline reset), then Close
	contClearRetry            // the fault is cleared, the application writes the rest of the failed payload and further payloads, then Close
)

var contNames = []string{"close-with-fault-in-force", "clear-then-close", "clear-retry-rest-and-write-on"}

type wfault struct {
	K          int    // transport write call index (-1 when the fault is a deadline set by the application)
	Kind       string // timeout / temporary / permanent / reset
	Short      string
	Cont       int
	DeadlineAt int  // before application Write #DeadlineAt the application sets an expired write deadline (-1: no)
	Both       bool // ... through SetDeadline instead of SetWriteDeadline
}

func (w *wfault) class() string {
	switch {
	case w.DeadlineAt >= 0 && w.Both:
		return "SetDeadline(past)"
	case w.DeadlineAt >= 0:
		return "SetWriteDeadline(past)"
	case w.Short != "":
		return "short(" + w.Short + ")+" + w.Kind
	}
	return w.Kind
}

type rfault struct {
	Off      int // absolute offset in the writer->reader stream
	Rec      int // record index (post-handshake) and offset in it, for the description
	D        int
	Kind     string
	WithData bool
	ViaDl    bool
	Repeat   int
}

func (r *rfault) class() string {
	s := r.Kind
	if r.ViaDl {
		s = "read-deadline-expires"
	}
	if r.WithData {
		s += "+data-in-same-call"
	}
	if r.Repeat > 1 {
		s += fmt.Sprintf("x%d", r.Repeat)
	}
	return s
}

// rbehav: a legal behaviour of the reader's transport (nothing is faulty): see faultConn.rbMode.
type rbehav struct {
	Mode string
	Off  int // absolute offset in the writer->reader stream
	Rec  int
	D    int
	Last bool // Rec is the last record of the stream
}

type localJob struct {
	cf    connConf
	rev   bool
	sizes []int
	wf    *wfault
	rf    *rfault
	rb    *rbehav
	rbuf  int
	seg   int
	nWr   int // transport writes of the baseline (writer faults: K == nWr-1 is close_notify)
	pos   string
}

type wcall struct {
	Off, Len, N int
	Err         string
	ok          bool
	fired       bool // an injected transport fault fired during this call
	end         int  // length of the accepted stream after this call
}

type localResult struct {
	hsOK      bool
	panics    []string
	calls     []wcall
	accepted  []byte // concatenation of p[:n] over all Write calls (what io.Writer reported as written)
	faultCall int    // index of the application Write during which the transport first failed (-1: none / during Close)
	closeErr  error
	wFired    int
	rFired    int
	rbFired   int
	rbFinal   int
	wFirstK   int
	got       []byte
	rerr      error
	readErrs  []string
	reads     int
	badRead   string
	badWrite  string
	wire      []byte
	hsEnd     int
	wLens     []int
	recs      []tlsx.Record
	stalled   bool
}

// masterStream: position-dependent bytes without a short period (a shifted, duplicated or dropped piece is visible).
func masterStream(n int) []byte {
	b := make([]byte, n)
	for i := range b {
		b[i] = byte(i*131 + (i>>8)*17 + (i>>16)*5 + 1)
	}
	return b
}

const extraWrite = 77 // a further payload written after a fault in the last Write of the baseline

func runLocal(j localJob) *localResult {
	r := &localResult{faultCall: -1, wFirstK: -1}
	cc, sc := j.cf.configs()
	s, fc, fs := handshakeWrapped(cc, sc, func(n *tlsx.Net) {
		if j.seg > 0 {
			n.MaxRd[tlsx.C2S], n.MaxRd[tlsx.S2C] = j.seg, j.seg
		}
	})
	if s.Client.Panic != "" || s.Server.Panic != "" {
		r.panics = append(r.panics, s.Client.Panic, s.Server.Panic)
	}
	r.hsOK = s.Client.OKDone && s.Server.OKDone
	dir := runOpts{rev: j.rev}.dir()
	r.hsEnd = len(s.Net.Stream(dir))
	wr, rd, fw, fr := s.Client.Conn, s.Server.Conn, fc, fs
	if j.rev {
		wr, rd, fw, fr = rd, wr, fs, fc
	}
	if !r.hsOK {
		s.Close()
		return r
	}
	total := sum(j.sizes)
	master := masterStream(total + extraWrite)
	fw.mu.Lock()
	fw.armed = true
	if j.wf != nil && j.wf.DeadlineAt < 0 {
		fw.wK, fw.wKind, fw.wShort = j.wf.K, j.wf.Kind, j.wf.Short
	}
	fw.mu.Unlock()
	fr.mu.Lock()
	fr.armed = true
	if j.rf != nil {
		fr.rOff, fr.rLeft, fr.rKind, fr.rWithData, fr.rViaDl = j.rf.Off, j.rf.Repeat, j.rf.Kind, j.rf.WithData, j.rf.ViaDl
	}
	fr.mu.Unlock()

	// ---- the writer: every Write, the continuation after a fault, Close
	p, msg, site := ev.Try(func() {
		type piece struct{ off, n int }
		var pending []piece
		o := 0
		for _, sz := range j.sizes {
			pending = append(pending, piece{o, sz})
			o += sz
		}
		handled := false
		clear := func() {
			switch {
			case j.wf.DeadlineAt >= 0 && j.wf.Both:
				wr.SetDeadline(time.Time{})
			case j.wf.DeadlineAt >= 0:
				wr.SetWriteDeadline(time.Time{})
			default:
				fw.clearWrite()
			}
		}
		for app := 0; len(pending) > 0; app++ {
			pc := pending[0]
			pending = pending[1:]
			if j.wf != nil && j.wf.DeadlineAt == app && !handled {
				if j.wf.Both {
					wr.SetDeadline(pastTime)
				} else {
					wr.SetWriteDeadline(pastTime)
				}
			}
			before, _ := fw.fired()
			n, err := wr.Write(master[pc.off : pc.off+pc.n])
			if n < 0 || n > pc.n {
				r.badWrite = fmt.Sprintf("Write of %d bytes returned n=%d", pc.n, n)
				n = 0
			}
			if err == nil && n != pc.n {
				r.badWrite = fmt.Sprintf("Write of %d bytes returned n=%d with a nil error", pc.n, n)
			}
			r.accepted = append(r.accepted, master[pc.off:pc.off+n]...)
			after, _ := fw.fired()
			wc := wcall{Off: pc.off, Len: pc.n, N: n, Err: fmt.Sprint(err), ok: err == nil, fired: after > before, end: len(r.accepted)}
			r.calls = append(r.calls, wc)
			if wc.fired && !handled {
				handled = true
				r.faultCall = len(r.calls) - 1
				switch j.wf.Cont {
				case contCloseUncleared:
					pending = nil
				case contClearClose:
					clear()
					pending = nil
				case contClearRetry:
					clear()
					var np []piece
					if n < pc.n {
						np = append(np, piece{pc.off + n, pc.n - n})
					}
					np = append(np, pending...)
					if len(pending) == 0 {
						np = append(np, piece{total, extraWrite})
					}
					pending = np
				}
			}
		}
		r.closeErr = wr.Close()
	})
	if p {
		r.panics = append(r.panics, "writer: "+msg+" @ "+site)
	}
	r.wFired, _ = fw.fired()
	fw.mu.Lock()
	r.wLens = append([]int(nil), fw.wLens...)
	r.wFirstK = fw.wFirstK
	fw.mu.Unlock()

	if j.rb != nil {
		fr.mu.Lock()
		fr.rbMode, fr.rbOff, fr.rbTotal = j.rb.Mode, j.rb.Off, len(s.Net.Stream(dir))
		fr.mu.Unlock()
	}

	// ---- the reader: reads to the end; after an injected transport fault it clears / extends the deadline and retries
	p, msg, site = ev.Try(func() {
		if j.rf != nil && j.rf.ViaDl {
			rd.SetReadDeadline(futureTime)
		}
		sched := []int{j.rbuf}
		if j.rbuf == rbufMixed {
			sched = mixedSched
		}
		buf := make([]byte, 70000)
		retries := 0
		for k := 0; ; k++ {
			sz := sched[k%len(sched)]
			_, before := fr.fired()
			n, err := rd.Read(buf[:sz])
			r.reads++
			if n < 0 || n > sz {
				r.badRead = fmt.Sprintf("Read(buf[:%d]) returned n=%d", sz, n)
				break
			}
			r.got = append(r.got, buf[:n]...)
			if err != nil {
				if len(r.readErrs) < 8 {
					r.readErrs = append(r.readErrs, fmt.Sprint(err))
				}
				_, after := fr.fired()
				if after > before && retries < 6 {
					// the application knows its transport hiccuped: first extend the deadline, later remove it
					retries++
					if j.rf != nil && j.rf.ViaDl && retries == 1 {
						rd.SetReadDeadline(futureTime)
					} else {
						rd.SetReadDeadline(time.Time{})
					}
					continue
				}
				r.rerr = err
				break
			}
		}
		rd.Close()
	})
	if p {
		r.panics = append(r.panics, "reader: "+msg+" @ "+site)
	}
	_, r.rFired = fr.fired()
	fr.mu.Lock()
	r.rbFired, r.rbFinal = fr.rbFired, fr.rbFinal
	fr.mu.Unlock()
	s.Close()
	r.wire = s.Net.Stream(dir)
	r.stalled = s.Net.Stalled
	for _, rec := range tlsx.ParseRecords(r.wire) {
		if rec.Off >= r.hsEnd {
			r.recs = append(r.recs, rec)
		}
	}
	return r
}

// explain decides whether got is a prefix of a stream p_0[:m_0] p_1[:m_1] ... with n_i <= m_i <= len(p_i) for every Write call i
// (n_i = the count the call reported; m_i = len(p_i) is forced for successful calls), the last touched call being cut anywhere.
// covered is the largest index i (over all such explanations) such that every call <= i had at least its reported n bytes delivered (-1: none).
func explain(got []byte, calls []wcall, master []byte) (covered int, valid bool) {
	const invalid = -2
	var dec func(i, pos int) int
	dec = func(i, pos int) int {
		if i == len(calls) {
			if pos == len(got) {
				return len(calls) - 1
			}
			return invalid
		}
		p := master[calls[i].Off : calls[i].Off+calls[i].Len]
		L := 0
		for L < len(p) && pos+L < len(got) && got[pos+L] == p[L] {
			L++
		}
		best := invalid
		if pos+L == len(got) {
			// got ends inside (or exactly at the end of) call i
			best = i - 1
			if L >= calls[i].N {
				best = i
				for best+1 < len(calls) && calls[best+1].N == 0 {
					best++
				}
			}
		}
		for m := calls[i].N; m <= L && pos+m < len(got); m++ {
			if r := dec(i+1, pos+m); r > best {
				best = r
			}
		}
		return best
	}
	if len(calls) == 0 {
		return -1, len(got) == 0
	}
	b := dec(0, 0)
	return b, b != invalid
}

func readerClass(err error) string {
	var a tls.Alert
	var op *net.OpError
	switch {
	case err == nil:
		return "no-error"
	case errors.Is(err, io.EOF):
		return "clean-eof"
	case errors.Is(err, io.ErrUnexpectedEOF):
		return "unexpected-eof"
	case tlsx.IsTimeout(err):
		return "timeout"
	case errors.As(err, &a) && a == tls.AlertBadRecordMAC:
		return "bad_record_mac"
	case errors.As(err, &a):
		return "alert"
	case errors.As(err, &op):
		return "op-error"
	case errors.Is(err, io.ErrClosedPipe):
		return "closed-pipe"
	}
	var rh tls.RecordHeaderError
	if errors.As(err, &rh) {
		return "record-header-error"
	}
	return "error"
}

// localJobs enumerates the fault plans over one baseline (configuration, direction, write sizes).
func localJobs(c *ev.Ctx, cf connConf, rev bool, sizes []int, multi bool) []localJob {
	thorough := !c.Quick()
	bj := localJob{cf: cf, rev: rev, sizes: sizes, rbuf: 70000}
	base, b2 := runLocal(bj), runLocal(bj)
	c.Traces.Add(2)
	dn := map[bool]string{false: "c2s", true: "s2c"}[rev]
	want := masterStream(sum(sizes))
	if !base.hsOK || !bytes.Equal(base.got, want) || !bytes.Equal(base.accepted, want) || !isCleanEOF(base.rerr) || base.closeErr != nil {
		c.Violation(fmt.Sprintf("no fault: stream not delivered intact (%s)", dn),
			map[string]any{"config": cf.Name, "protection": cf.Kind, "direction": runOpts{rev: rev}.dirName(), "write_sizes": sizes, "mode": "sequential (writer completes before the reader starts)",
				"handshake_ok": base.hsOK, "delivered": len(base.got), "sent": len(want), "read_error": fmt.Sprint(base.rerr), "close_error": fmt.Sprint(base.closeErr)})
		return nil
	}
	if !bytes.Equal(base.wire, b2.wire) || len(base.wLens) != len(b2.wLens) {
		c.Broken("sequential baseline transcript of %s (%s) is not reproducible", cf.Name, dn)
	}
	var jobs []localJob
	nWr := len(base.wLens)
	// ---- (1) writer-side faults: every k, every kind, every continuation
	type kd struct{ kind, short string }
	kinds := []kd{{"timeout", ""}, {"temporary", ""}, {"permanent", ""}, {"timeout", "1"}, {"timeout", "hdr"}, {"timeout", "len-1"}, {"permanent", "half"}}
	if thorough {
		kinds = append(kinds, kd{"reset", ""}, kd{"temporary", "half"}, kd{"permanent", "1"}, kd{"permanent", "len-1"}, kd{"reset", "hdr"})
	}
	for k := 0; k < nWr; k++ {
		for _, kn := range kinds {
			for cont := 0; cont < 3; cont++ {
				if k == nWr-1 && cont != contClearClose {
					continue // close_notify: the application has nothing more to do
				}
				jobs = append(jobs, localJob{cf: cf, rev: rev, sizes: sizes, rbuf: 70000, nWr: nWr,
					wf: &wfault{K: k, Kind: kn.kind, Short: kn.short, Cont: cont, DeadlineAt: -1}})
			}
		}
	}
	// the realistic origin of a write timeout: the application sets a write deadline that has expired
	for app := range sizes {
		for _, both := range []bool{false, true} {
			for cont := 0; cont < 3; cont++ {
				jobs = append(jobs, localJob{cf: cf, rev: rev, sizes: sizes, rbuf: 70000, nWr: nWr,
					wf: &wfault{K: -1, Kind: "timeout", Cont: cont, DeadlineAt: app, Both: both}})
			}
		}
	}
	// ---- (3) reader-side faults: the transport has nothing more to give at offset d of record ri
	type rk struct {
		kind           string
		withData, viaD bool
		repeat         int
	}
	basic := []rk{{"timeout", false, true, 1}, {"timeout", true, false, 1}, {"temporary", false, false, 1}, {"permanent", false, false, 1}}
	midKinds := append(append([]rk(nil), basic...), rk{"timeout", false, true, 2}, rk{"timeout", true, true, 1})
	allKinds := append(append([]rk(nil), midKinds...), rk{"temporary", true, false, 2}, rk{"reset", false, false, 1}, rk{"permanent", true, false, 1})
	type shape struct{ rbuf, seg int }
	plain := []shape{{70000, 0}}
	shapes := []shape{{70000, 0}, {1, 0}}
	if multi {
		shapes = plain
	}
	if thorough {
		shapes = []shape{{70000, 0}, {1, 0}, {rbufMixed, 3}, {7, 3}}
		if multi {
			shapes = []shape{{70000, 0}, {7, 1000}}
		}
	}
	last := len(base.recs) - 1
	for ri, rec := range base.recs {
		full := !multi || ri <= 1 || ri >= last-1
		for d := 0; d < 5+rec.Len; d++ {
			mid := d == 5+rec.Len/2
			edge := d <= 6 || mid || d >= 5+rec.Len-2
			var sel bool
			switch {
			case thorough && !multi:
				sel = true
			case thorough:
				sel = d < 24 || d >= 5+rec.Len-16 || d%512 == 0
			case full:
				sel = d <= 1 || d == 4 || d == 5 || d == 6 || mid || d == 5+rec.Len-1
			default:
				sel = d == 3 || mid
			}
			if !sel {
				continue
			}
			// quick: the four basic kinds everywhere, the repeated / combined ones in the middle of a record, every Read buffer shape.
			// thorough: all kinds x all shapes at the edges and the middle of a record, the basic kinds with the large buffer at every other byte.
			ks, shs := basic, shapes
			switch {
			case !thorough && mid:
				ks = midKinds
			case thorough && edge:
				ks = allKinds
			case thorough:
				shs = plain
			}
			for _, k := range ks {
				for _, sh := range shs {
					jobs = append(jobs, localJob{cf: cf, rev: rev, sizes: sizes, rbuf: sh.rbuf, seg: sh.seg, nWr: nWr,
						rf: &rfault{Off: rec.Off + d, Rec: ri, D: d, Kind: k.kind, WithData: k.withData, ViaDl: k.viaD, Repeat: k.repeat}})
				}
			}
		}
	}
	// ---- (4) reader-side BEHAVIOURS of a healthy transport (io.Reader contract), nothing is faulty:
	// (a) the last transport Read returns the final bytes of the stream together with io.EOF, the final segment starting at offset d of record ri
	// (b) one (0, nil) answer at that position   (c) one byte per transport Read
	rbShapes := []int{70000, 1}
	if multi {
		rbShapes = []int{70000}
	}
	if thorough {
		rbShapes = []int{70000, 1, 7, rbufMixed}
	}
	for ri, rec := range base.recs {
		tail := ri >= last-1 // the last record (close_notify) and the last data record: every split point; earlier records: their boundary
		for d := 0; d < 5+rec.Len; d++ {
			sel := d == 0
			if tail {
				sel = d <= 1 || d == 4 || d == 5 || d == 6 || d == 5+rec.Len/2 || d == 5+rec.Len-1
			}
			switch {
			case thorough && (!multi || ri == last):
				sel = true
			case thorough && tail:
				sel = d < 24 || d >= 5+rec.Len-16 || d%512 == 0
			}
			if !sel {
				continue
			}
			for _, mode := range []string{"eof-with-data", "zero-read"} {
				for _, rb := range rbShapes {
					jobs = append(jobs, localJob{cf: cf, rev: rev, sizes: sizes, rbuf: rb, nWr: nWr,
						rb: &rbehav{Mode: mode, Off: rec.Off + d, Rec: ri, D: d, Last: ri == last}})
				}
			}
		}
	}
	for _, rb := range rbShapes {
		jobs = append(jobs, localJob{cf: cf, rev: rev, sizes: sizes, rbuf: rb, nWr: nWr, rb: &rbehav{Mode: "one-byte", Off: -1, Rec: -1}})
	}
	return jobs
}

func localLevel(c *ev.Ctx) {
	thorough := !c.Quick()
	confs := connConfs(thorough)
	type bspec struct {
		cf    connConf
		rev   bool
		sizes []int
		multi bool
	}
	var specs []bspec
	for _, cf := range confs {
		for _, rev := range []bool{false, true} {
			specs = append(specs, bspec{cf, rev, []int{100, 300, 50}, false}, bspec{cf, rev, []int{40000}, true})
		}
	}
	lj := make([][]localJob, len(specs))
	c.Parallel(len(specs), func(w, i int) {
		lj[i] = localJobs(c, specs[i].cf, specs[i].rev, specs[i].sizes, specs[i].multi)
	})
	var jobs []localJob
	for _, l := range lj {
		jobs = append(jobs, l...)
	}
	nW, nR, nB := 0, 0, 0
	for _, j := range jobs {
		switch {
		case j.wf != nil:
			nW++
		case j.rb != nil:
			nB++
		default:
			nR++
		}
	}
	c.Set("local_transport_write_fault_cases", nW)
	c.Set("local_transport_read_fault_cases", nR)
	c.Set("local_transport_reader_behaviour_cases", nB)
	hists := make([]ev.Hist, c.Workers())
	for i := range hists {
		hists[i] = ev.Hist{}
	}
	done := c.Parallel(len(jobs), func(w, i int) {
		j := jobs[i]
		r := runLocal(j)
		c.States.Add(1)
		c.Traces.Add(1)
		c.Transitions.Add(int64(len(r.recs) + r.reads + len(r.calls)))
		dn := "c2s"
		if j.rev {
			dn = "s2c"
		}
		b := "A"
		if len(j.sizes) == 1 {
			b = "B"
		}
		wit := map[string]any{"config": j.cf.Name, "protection": j.cf.Kind, "direction": runOpts{rev: j.rev}.dirName(), "write_sizes": j.sizes,
			"read_buffer": rbufName(j.rbuf), "transport_read_segment": j.seg, "delivered": len(r.got), "accepted_by_write": len(r.accepted),
			"read_error": fmt.Sprint(r.rerr), "close_error": fmt.Sprint(r.closeErr), "write_calls": r.calls, "wire": "untouched", "mode": "sequential (writer completes before the reader starts)"}
		if j.wf != nil {
			wit["writer_transport_fault"] = map[string]any{"at_data_phase_transport_write": j.wf.K, "of": j.nWr, "kind": j.wf.class(), "continuation": contNames[j.wf.Cont],
				"deadline_before_app_write": j.wf.DeadlineAt, "first_failed_transport_write": r.wFirstK}
		}
		if j.rb != nil {
			wit["reader_transport_behaviour"] = map[string]any{"mode": j.rb.Mode, "record": j.rb.Rec, "offset_in_record": j.rb.D, "record_is_last_of_stream": j.rb.Last,
				"bytes_returned_together_with_EOF": r.rbFinal, "read_errors_seen": r.readErrs}
		}
		if j.rf != nil {
			wit["reader_transport_fault"] = map[string]any{"record": j.rf.Rec, "offset_in_record": j.rf.D, "kind": j.rf.class(), "read_errors_seen": r.readErrs}
		}
		for _, p := range r.panics {
			if p != "" {
				c.Violation("panic in data phase: "+ev.MsgClass(p), wit)
			}
		}
		if !r.hsOK {
			c.Violation("handshake of a data-phase configuration failed", wit)
			return
		}
		if r.badRead != "" {
			wit["bad_read"] = r.badRead
			c.Violation("Read returned a byte count outside its buffer", wit)
			return
		}
		if r.badWrite != "" {
			wit["bad_write"] = r.badWrite
			c.Violation("Write returned a byte count inconsistent with its argument and error", wit)
			return
		}
		// (a) never deliver anything but a prefix of what the writer wrote, in order. For a Write that failed after reporting n
		// bytes the statement does not say whether "wrote" means the n reported bytes or more of the payload (a short transport
		// write can be completed by the next bytes on the wire): every stream p1[:m1] p2[:m2] ... with n_i <= m_i <= len(p_i) is accepted.
		cov, valid := explain(r.got, r.calls, masterStream(sum(j.sizes)+extraWrite))
		if !valid {
			c.Violation(fmt.Sprintf("reader delivered bytes that differ from what was written (local transport fault, %s)", dn), wit)
			hists[w]["local:DIFFERENT-DATA"]++
			return
		}
		if len(r.got) > len(r.accepted) {
			hists[w]["local:delivered-more-than-the-failed-Write-reported (accepted)"]++
		}
		if j.wf != nil {
			if r.wFired == 0 {
				hists[w]["wfault:fault-not-reached"]++
				c.Broken("writer fault plan not reached: %s %s %v k=%d", j.cf.Name, dn, j.sizes, j.wf.K)
				return
			}
			c.Distinct.Add(1)
			// position of the failed transport write
			pos := "during Close (close_notify)"
			later := "n/a"
			if r.faultCall >= 0 {
				fcall := r.calls[r.faultCall]
				pos = "first record of a Write"
				if fcall.N > 0 {
					pos = "later record of a Write"
				}
				// (b1) what Write reported as written up to and including the failed call was on the untouched wire before anything went wrong
				if cov < r.faultCall {
					wit["needed_at_least"] = fcall.end
					c.Violation(fmt.Sprintf("bytes reported as written before/at a failed transport write never reached the reader over an untouched wire (%s)", pos), wit)
				}
				// (b2) a Write that reports success although the transport failed during it, or after an earlier transport failure, must be delivered
				lastOK := -1
				for i := r.faultCall; i < len(r.calls); i++ {
					if r.calls[i].ok {
						lastOK = i
					}
				}
				if r.faultCall+1 < len(r.calls) {
					later = "all-fail"
				}
				if lastOK >= 0 {
					later = "SUCCESS"
					if cov < lastOK {
						wit["needed_at_least"] = r.calls[lastOK].end
						wit["successful_write_call"] = lastOK
						c.Violation(fmt.Sprintf("Write reported success after a failed transport write (%s) but its bytes never reached the reader over an untouched wire", pos), wit)
					}
				}
			} else if cov < len(r.calls)-1 {
				c.Violation("bytes reported as written before/at a failed transport write never reached the reader over an untouched wire (close_notify)", wit)
			}
			hists[w][fmt.Sprintf("wfault:%s:%s:later-writes=%s:reader=%s", j.wf.class(), contNames[j.wf.Cont], later, readerClass(r.rerr))]++
			hists[w][fmt.Sprintf("wfault:position:%s:%s:%s", b, dn, pos)]++
		} else {
			// no writer fault: every Write succeeded
			if !bytes.Equal(r.accepted, masterStream(sum(j.sizes))) || r.closeErr != nil {
				c.Violation(fmt.Sprintf("no fault: stream not delivered intact (%s)", dn), wit)
				return
			}
			if j.rb != nil {
				// nothing is faulty and nothing was tampered with: exactly the written bytes, then a clean EOF (close_notify was sent)
				if r.rbFired == 0 {
					hists[w]["rbehaviour:not-reached"]++
					c.Broken("reader behaviour plan not reached: %s %s %v %s rec=%d d=%d", j.cf.Name, dn, j.sizes, j.rb.Mode, j.rb.Rec, j.rb.D)
					return
				}
				c.Distinct.Add(1)
				where := "n/a"
				if j.rb.Rec >= 0 {
					where = "body"
					switch {
					case j.rb.D == 0:
						where = "record-boundary"
					case j.rb.D < 5:
						where = "header"
					}
					if j.rb.Last {
						where += "-of-last-record"
					}
				}
				if !bytes.Equal(r.got, r.accepted) || !errors.Is(r.rerr, io.EOF) {
					wit["needed"] = len(r.accepted)
					what := "stream not delivered intact with a clean EOF"
					if len(r.got) < len(r.accepted) || !bytes.Equal(r.got, r.accepted) {
						what = "bytes lost or changed"
					}
					c.Violation(fmt.Sprintf("no fault, healthy transport answering %s: %s, reader ends with %s (%s)", j.rb.Mode, what, readerClass(r.rerr), dn), wit)
					hists[w]["rbehaviour:"+j.rb.Mode+":"+where+":NOT-INTACT"]++
					return
				}
				hists[w]["rbehaviour:"+j.rb.Mode+":"+where+":intact-clean-eof"]++
				if i%211 == 0 {
					c.Sample(wit)
				}
				return
			}
			if r.rFired == 0 {
				hists[w]["rfault:fault-not-reached"]++
				return
			}
			c.Distinct.Add(1)
			// (c) after a transport read error that the application retried the stream continues without loss or duplication, or fails:
			// a clean end of stream with bytes missing is a silent truncation
			cls := "failed:" + readerClass(r.rerr)
			if isCleanEOF(r.rerr) {
				cls = "recovered-intact"
				if !bytes.Equal(r.got, r.accepted) {
					wit["needed"] = len(r.accepted)
					c.Violation(fmt.Sprintf("clean end of stream with bytes missing after a retried transport read error (%s)", dn), wit)
					cls = "LOSS"
				}
			}
			where := "body"
			switch {
			case j.rf.D == 0:
				where = "record-boundary"
			case j.rf.D < 5:
				where = "header"
			}
			hists[w][fmt.Sprintf("rfault:%s:%s:%s", j.rf.class(), where, cls)]++
		}
		if i%1013 == 0 {
			c.Sample(wit)
		}
	})
	for _, h := range hists {
		c.Merge(h)
	}
	if !done {
		c.Incomplete("local transport faults: time budget reached")
	}
}
