package tls

import (
	"crypto/cipher"
	"errors"
	"io"
)

// Thin accessors for the C25 harness (compiled into package tls through -overlay).

type VerifC25Suite struct {
	ID                    uint16
	KeyLen, MacLen, IVLen int
	Flags                 int
	TLS13                 bool
	Kind                  string // "aead", "cbc", "stream"
	TLS12Only             bool
	Table                 string // "implemented", "default", "tls13"
}

func verifC25Kind(s *cipherSuite) string {
	if s.aead != nil {
		return "aead"
	}
	c := s.cipher(make([]byte, s.keyLen), make([]byte, s.ivLen), false)
	if _, ok := c.(cipher.Stream); ok {
		return "stream"
	}
	return "cbc"
}

// VerifC25Suites lists both pre-1.3 suite tables (deduplicated by id, first entry wins as in cipherSuiteByID) and the 1.3 table.
func VerifC25Suites() []VerifC25Suite {
	var out []VerifC25Suite
	seen := map[uint16]bool{}
	for _, s := range implementedCipherSuites {
		if seen[s.id] {
			continue
		}
		seen[s.id] = true
		out = append(out, VerifC25Suite{ID: s.id, KeyLen: s.keyLen, MacLen: s.macLen, IVLen: s.ivLen, Flags: s.flags, Kind: verifC25Kind(s), TLS12Only: s.flags&suiteTLS12 != 0, Table: "implemented"})
	}
	for _, s := range cipherSuites {
		if seen[s.id] {
			continue
		}
		seen[s.id] = true
		out = append(out, VerifC25Suite{ID: s.id, KeyLen: s.keyLen, MacLen: s.macLen, IVLen: s.ivLen, Flags: s.flags, Kind: verifC25Kind(s), TLS12Only: s.flags&suiteTLS12 != 0, Table: "default"})
	}
	for _, s := range cipherSuitesTLS13 {
		out = append(out, VerifC25Suite{ID: s.id, KeyLen: s.keyLen, TLS13: true, Kind: "aead", Table: "tls13"})
	}
	return out
}

// VerifC25Half wraps one direction of the record layer.
type VerifC25Half struct{ hc halfConn }

// VerifC25NewHalf prepares a halfConn exactly as the handshake does: for TLS <= 1.2 from (key, iv, macKey)
// through the suite's constructors + prepareCipherSpec/changeCipherSpec; for TLS 1.3 from a traffic secret.
func VerifC25NewHalf(version, suiteID uint16, key, iv, macKey, trafficSecret []byte, isRead bool) (*VerifC25Half, error) {
	h := &VerifC25Half{}
	if version == VersionTLS13 {
		s := cipherSuiteTLS13ByID(suiteID)
		if s == nil {
			return nil, errors.New("no such tls13 suite")
		}
		h.hc.version = version
		h.hc.setTrafficSecret(s, trafficSecret)
		return h, nil
	}
	s := cipherSuiteByID(suiteID)
	if s == nil {
		for _, x := range cipherSuites {
			if x.id == suiteID {
				s = x
			}
		}
	}
	if s == nil {
		return nil, errors.New("no such suite")
	}
	if s.cipher != nil {
		h.hc.prepareCipherSpec(version, s.cipher(key, iv, isRead), s.mac(macKey))
	} else {
		h.hc.prepareCipherSpec(version, s.aead(key, iv), nil)
	}
	if err := h.hc.changeCipherSpec(); err != nil {
		return nil, err
	}
	return h, nil
}

// VerifC25TrafficKey exposes the TLS 1.3 traffic key derivation (for the independent record reference).
func VerifC25TrafficKey(suiteID uint16, secret []byte) (key, iv []byte) {
	return cipherSuiteTLS13ByID(suiteID).trafficKey(secret)
}

func (h *VerifC25Half) SetSeq(seq uint64) {
	for i := 7; i >= 0; i-- {
		h.hc.seq[i] = byte(seq)
		seq >>= 8
	}
}

func (h *VerifC25Half) Seq() uint64 {
	var s uint64
	for _, b := range h.hc.seq {
		s = s<<8 | uint64(b)
	}
	return s
}

// Encrypt frames payload in a record of the given type/version and protects it.
func (h *VerifC25Half) Encrypt(typ uint8, recVersion uint16, payload []byte, rand io.Reader) ([]byte, error) {
	rec := []byte{typ, byte(recVersion >> 8), byte(recVersion), byte(len(payload) >> 8), byte(len(payload))}
	return h.hc.encrypt(rec, payload, rand)
}

// Decrypt authenticates and decrypts one complete record (header included). The input is copied first.
func (h *VerifC25Half) Decrypt(record []byte) ([]byte, uint8, error) {
	r := append([]byte(nil), record...)
	p, t, err := h.hc.decrypt(r)
	if err != nil {
		return nil, 0, err
	}
	return append([]byte(nil), p...), uint8(t), nil
}

func VerifC25ExtractPadding(payload []byte) (int, byte) { return extractPadding(payload) }

const VerifC25MaxPlaintext = maxPlaintext
