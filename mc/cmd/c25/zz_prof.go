package main

import (
	"os"
	"runtime/pprof"
)

var profStop = func() {}

func init() {
	if p := os.Getenv("C25_PPROF"); p != "" {
		f, _ := os.Create(p)
		pprof.StartCPUProfile(f)
		profStop = func() { pprof.StopCPUProfile(); f.Close() }
	}
}
