package main

import (
	"bytes"
	"crypto/aes"
	"crypto/cipher"
	"crypto/des"
	"crypto/hmac"
	"crypto/rc4"
	"crypto/sha1"
	"crypto/sha256"
	"crypto/sha512"
	"encoding/binary"
	"errors"
	"fmt"
	"hash"

	"golang.org/x/crypto/chacha20poly1305"

	"github.com/zmap/zcrypto/tls"
	"verifmc/internal/ev"
	"verifmc/internal/fx"
)

// hkdfExpandLabel is RFC 8446 §7.1 HKDF-Expand-Label over RFC 5869 HKDF-Expand, written with crypto/hmac only.
func hkdfExpandLabel(h func() hash.Hash, secret []byte, label string, context []byte, length int) []byte {
	full := "tls13 " + label
	info := []byte{byte(length >> 8), byte(length), byte(len(full))}
	info = append(info, full...)
	info = append(info, byte(len(context)))
	info = append(info, context...)
	var out, t []byte
	for i := byte(1); len(out) < length; i++ {
		m := hmac.New(h, secret)
		m.Write(t)
		m.Write(info)
		m.Write([]byte{i})
		t = m.Sum(nil)
		out = append(out, t...)
	}
	return out[:length]
}

// refTrafficKey13 derives the TLS 1.3 record key and iv from a traffic secret (RFC 8446 §7.3), independently of zcrypto.
func refTrafficKey13(suite uint16, secret []byte) (key, iv []byte) {
	h, kl := sha256.New, 16
	switch suite {
	case tls.TLS_AES_256_GCM_SHA384:
		h, kl = sha512.New384, 32
	case tls.TLS_CHACHA20_POLY1305_SHA256:
		kl = 32
	}
	return hkdfExpandLabel(h, secret, "key", nil, kl), hkdfExpandLabel(h, secret, "iv", nil, 12)
}

// sealOpt are the choices a PEER may make when protecting a record and that zcrypto's own encrypt never makes.
type sealOpt struct {
	PadLen    int    // cbc: value of the padding_length byte (that many padding bytes precede it); must make the block input a block multiple
	BadPadAt  int    // cbc: -1, or the index in [0,PadLen) of one padding byte that gets BadPadXor xored in (SSLv3-style arbitrary padding content)
	BadPadXor byte   //
	BadPadAll bool   // cbc: every padding byte (not the length byte) gets BadPadXor xored in
	Explicit  []byte // cbc at TLS >= 1.1: the explicit IV (block size); RFC 5288 gcm: the 8 explicit nonce bytes
	Zeros     int    // TLS 1.3: zero bytes after the content type
	RawInner  []byte // TLS 1.3: when non-nil the TLSInnerPlaintext verbatim (payload/typ/Zeros ignored)
}

// refSeal is an independent record SEALER: RFC 2246/4346/5246 §6.2.3.1-3, RFC 5288 §3, RFC 7905 §2, RFC 8446 §5.2-5.4.
// It protects one record under sequence number seq as the first record after key installation.
func refSeal(version uint16, s tls.VerifC25Suite, key, iv, macKey []byte, seq uint64, typ uint8, recVers uint16, payload []byte, o sealOpt) ([]byte, error) {
	var seqb [8]byte
	binary.BigEndian.PutUint64(seqb[:], seq)
	xorNonce := func() []byte {
		n := append([]byte(nil), iv...)
		for i := 0; i < 8; i++ {
			n[len(n)-8+i] ^= seqb[i]
		}
		return n
	}
	newAEAD := func() (cipher.AEAD, error) {
		if s.ID == tls.TLS_CHACHA20_POLY1305_SHA256 || (!s.TLS13 && s.IVLen == 12) {
			return chacha20poly1305.New(key)
		}
		b, err := aes.NewCipher(key)
		if err != nil {
			return nil, err
		}
		return cipher.NewGCM(b)
	}
	frame := func(t uint8, v uint16, body []byte) []byte {
		out := []byte{t, byte(v >> 8), byte(v), byte(len(body) >> 8), byte(len(body))}
		return append(out, body...)
	}
	if version == tls.VersionTLS13 {
		a, err := newAEAD()
		if err != nil {
			return nil, err
		}
		inner := o.RawInner
		if inner == nil {
			inner = append(append([]byte(nil), payload...), typ)
			inner = append(inner, make([]byte, o.Zeros)...)
		}
		n := len(inner) + 16
		hdr := []byte{23, 3, 3, byte(n >> 8), byte(n)}
		return append(hdr, a.Seal(nil, xorNonce(), inner, hdr)...), nil
	}
	aad := append(append([]byte(nil), seqb[:]...), typ, byte(recVers>>8), byte(recVers), byte(len(payload)>>8), byte(len(payload)))
	switch s.Kind {
	case "aead":
		a, err := newAEAD()
		if err != nil {
			return nil, err
		}
		if s.IVLen == 4 {
			if len(o.Explicit) != 8 {
				return nil, errors.New("refSeal: need 8 explicit nonce bytes")
			}
			nonce := append(append([]byte(nil), iv...), o.Explicit...)
			return frame(typ, recVers, append(append([]byte(nil), o.Explicit...), a.Seal(nil, nonce, payload, aad)...)), nil
		}
		return frame(typ, recVers, a.Seal(nil, xorNonce(), payload, aad)), nil
	case "cbc", "stream":
		var newMac func() hash.Hash
		switch s.MacLen {
		case 20:
			newMac = sha1.New
		case 32:
			newMac = sha256.New
		default:
			return nil, fmt.Errorf("refSeal: unknown mac length %d", s.MacLen)
		}
		m := hmac.New(newMac, macKey)
		m.Write(aad)
		m.Write(payload)
		data := m.Sum(append([]byte(nil), payload...))
		if s.Kind == "stream" {
			c, err := rc4.NewCipher(key)
			if err != nil {
				return nil, err
			}
			c.XORKeyStream(data, data)
			return frame(typ, recVers, data), nil
		}
		var blk cipher.Block
		var err error
		if s.KeyLen == 24 {
			blk, err = des.NewTripleDESCipher(key)
		} else {
			blk, err = aes.NewCipher(key)
		}
		if err != nil {
			return nil, err
		}
		bs := blk.BlockSize()
		data = append(make([]byte, 0, len(data)+o.PadLen+1), data...)
		for i := 0; i <= o.PadLen; i++ {
			b := byte(o.PadLen)
			if i == o.BadPadAt || (o.BadPadAll && i < o.PadLen) {
				b ^= o.BadPadXor
			}
			data = append(data, b)
		}
		if len(data)%bs != 0 {
			return nil, fmt.Errorf("refSeal: %d bytes are not a multiple of the block size", len(data))
		}
		civ := iv
		var body []byte
		if version >= tls.VersionTLS11 {
			if len(o.Explicit) != bs {
				return nil, errors.New("refSeal: need an explicit IV of one block")
			}
			civ = o.Explicit
			body = append(body, civ...)
		}
		ct := make([]byte, len(data))
		cipher.NewCBCEncrypter(blk, civ).CryptBlocks(ct, data)
		return frame(typ, recVers, append(body, ct...)), nil
	}
	return nil, errors.New("refSeal: unknown kind")
}

func recCases() []recCase {
	var cases []recCase
	for _, s := range tls.VerifC25Suites() {
		if s.TLS13 {
			cases = append(cases, recCase{s, tls.VersionTLS13})
			continue
		}
		for _, v := range []uint16{tls.VersionTLS10, tls.VersionTLS11, tls.VersionTLS12} {
			if s.TLS12Only && v != tls.VersionTLS12 {
				continue
			}
			cases = append(cases, recCase{s, v})
		}
	}
	return cases
}

// caseKeys are the deterministic keys of a (suite, version) pair; the TLS 1.3 key and iv are derived by the reference.
func caseKeys(s tls.VerifC25Suite, v uint16) (key, iv, mk, secret []byte) {
	r := fx.NewRand(fmt.Sprintf("c25-%x-%x", s.ID, v))
	key = make([]byte, s.KeyLen)
	iv = make([]byte, s.IVLen)
	mk = make([]byte, s.MacLen)
	secret = make([]byte, 48)
	r.Read(key)
	r.Read(iv)
	r.Read(mk)
	r.Read(secret)
	if s.TLS13 {
		secret = secret[:32]
		if s.ID == tls.TLS_AES_256_GCM_SHA384 {
			secret = append(secret, secret[:16]...)
		}
		key, iv = refTrafficKey13(s.ID, secret)
	}
	return
}

func blockSizeOf(s tls.VerifC25Suite) int {
	if s.KeyLen == 24 {
		return 8
	}
	return 16
}

type sealWitness struct {
	Suite   string `json:"suite"`
	Version string `json:"version"`
	Len     int    `json:"payload_len"`
	Seq     uint64 `json:"seq"`
	Type    uint8  `json:"record_type"`
	Peer    string `json:"peer_choice"`
	Detail  string `json:"detail"`
	Record  string `json:"record_hex,omitempty"`
}

// sealLevel feeds halfConn.decrypt records protected by the reference sealer with every choice a conforming PEER
// may make (padding length, explicit IV / nonce, TLS 1.3 zero padding) and the non-conforming ones the statement
// cares about (padding bytes that differ from the padding length, inner plaintext without content type).
func sealLevel(c *ev.Ctx) {
	cases := recCases()
	thorough := !c.Quick()
	type unit struct {
		rc      recCase
		primary bool // full padding product in the quick tier
		p       int  // cbc: padding length; otherwise -1
	}
	var units []unit
	primary := map[uint16]bool{}
	for _, rc := range cases {
		if rc.S.Kind != "cbc" {
			units = append(units, unit{rc, true, -1})
			continue
		}
		// quick: one CBC suite at each version (AES-128-CBC-SHA) gets every padding length and every position,
		// the others the boundary padding lengths
		prim := thorough || rc.S.ID == tls.TLS_RSA_WITH_AES_128_CBC_SHA
		if rc.S.ID == tls.TLS_RSA_WITH_AES_128_CBC_SHA {
			primary[rc.Version] = true
		}
		bs := blockSizeOf(rc.S)
		for p := 0; p < 256; p++ {
			boundary := p <= 2 || p >= 253 || (p%bs <= 1 || p%bs == bs-1) && (p < 3*bs || p > 255-2*bs) || p == 127 || p == 128
			if prim || boundary {
				units = append(units, unit{rc, prim, p})
			}
		}
	}
	if len(primary) != 3 {
		c.Broken("seal level: no primary CBC suite at every version: %v", primary)
	}
	c.Set("seal_level_units", len(units))
	hists := make([]ev.Hist, c.Workers())
	for i := range hists {
		hists[i] = ev.Hist{}
	}
	seqs := []uint64{0, 0xfedcba9876f5}
	payloadBuf := make([]byte, 16384)
	fx.NewRand("payload").Read(payloadBuf)
	done := c.Parallel(len(units), func(w, i int) {
		u := units[i]
		s, v := u.rc.S, u.rc.Version
		key, iv, mk, secret := caseKeys(s, v)
		recVers := v
		if v == tls.VersionTLS13 {
			recVers = tls.VersionTLS12
		}
		sname := fmt.Sprintf("%04x(%s)", s.ID, s.Kind)
		clsCache := map[string]string{}
		// one: seal with the reference, open with the real decrypt. wantOK: a conforming record that must be delivered exactly.
		one := func(l int, seq uint64, typ uint8, o sealOpt, peer string, wantOK bool, observe string) {
			payload := payloadBuf[:l]
			wit := func(detail string, rec []byte) sealWitness {
				h := ""
				if len(rec) <= 400 {
					h = fmt.Sprintf("%x", rec)
				}
				return sealWitness{sname, vname(v), l, seq, typ, peer, detail, h}
			}
			rec, err := refSeal(v, s, key, iv, mk, seq, typ, recVers, payload, o)
			if err != nil {
				c.Broken("reference sealer failed for %s %s (%s): %v", sname, vname(v), peer, err)
				return
			}
			h, err := tls.VerifC25NewHalf(v, s.ID, key, iv, mk, secret, true)
			if err != nil {
				c.Broken("cannot build halfConn for suite %04x version %x: %v", s.ID, v, err)
				return
			}
			h.SetSeq(seq)
			var got []byte
			var gt uint8
			p, msg, site := ev.Try(func() { got, gt, err = h.Decrypt(rec) })
			c.Transitions.Add(1)
			c.States.Add(1)
			if p {
				c.Violation("panic in record decrypt: "+ev.MsgClass(msg)+" @ "+site, wit(msg, rec))
				return
			}
			cls := clsCache[peer]
			if cls == "" {
				cls = peerClass(peer)
				clsCache[peer] = cls
			}
			switch {
			case observe != "":
				// the statement is silent here (nothing different from what was sealed can be delivered): outcome only
				if err != nil {
					hists[w][observe+":rejected"]++
				} else if len(got) == 0 || (o.RawInner == nil && bytes.Equal(got, payload) && gt == typ) {
					hists[w][observe+":accepted-as-sealed"]++
				} else {
					c.Violation(fmt.Sprintf("peer-sealed record delivered with DIFFERENT content (%s) kind=%s %s", cls, s.Kind, vname(v)), wit(fmt.Sprintf("typ=%d len=%d", gt, len(got)), rec))
				}
			case wantOK:
				if err != nil {
					c.Violation(fmt.Sprintf("conforming peer-sealed record rejected (%s) kind=%s %s", cls, s.Kind, vname(v)), wit("decrypt: "+err.Error(), rec))
					hists[w]["peer-sealed:REJECTED"]++
				} else if !bytes.Equal(got, payload) || gt != typ {
					c.Violation(fmt.Sprintf("peer-sealed record delivered with DIFFERENT content (%s) kind=%s %s", cls, s.Kind, vname(v)), wit(fmt.Sprintf("typ=%d (want %d) len=%d (want %d)", gt, typ, len(got), l), rec))
					hists[w]["peer-sealed:DIFFERENT"]++
				} else {
					hists[w]["peer-sealed:delivered-exactly:"+cls]++
					if h.Seq() != seq+1 {
						c.Violation("decrypt does not advance the sequence number by one", wit(fmt.Sprint(h.Seq()), rec))
					}
				}
			default:
				if err == nil {
					c.Violation(fmt.Sprintf("malformed peer-sealed record accepted (%s) kind=%s %s", cls, s.Kind, vname(v)), wit(fmt.Sprintf("delivered typ=%d len=%d", gt, len(got)), rec))
					hists[w]["malformed:ACCEPTED"]++
				} else {
					hists[w]["malformed:rejected:"+cls]++
				}
			}
		}
		switch {
		case s.TLS13:
			for _, l := range []int{0, 1, 16, 1000, 16383, 16384} {
				seenK := map[int]bool{}
				for _, k := range []int{0, 1, 2, 15, 16, 255, 16384 - l} {
					if l+1+k > 16385 || seenK[k] {
						continue
					}
					seenK[k] = true
					for _, typ := range []uint8{23, 22, 21} {
						if typ != 23 && l > 1000 && !thorough {
							continue
						}
						for _, sq := range seqs {
							one(l, sq, typ, sealOpt{Zeros: k}, fmt.Sprintf("tls13 %d zero bytes after the content type", k), true, "")
						}
					}
				}
			}
			// RFC 8446 5.4: no non-zero octet in the cleartext -> unexpected_message, never delivered
			for _, n := range []int{1, 2, 15, 16, 17, 255, 256, 16384, 16385} {
				for _, sq := range seqs {
					one(0, sq, 23, sealOpt{RawInner: make([]byte, n)}, fmt.Sprintf("tls13 all-zero inner plaintext of %d bytes", n), false, "")
				}
			}
			// empty inner plaintext (no content type octet at all) and inner plaintext beyond 2^14+1: observed only
			one(0, 0, 23, sealOpt{RawInner: []byte{}}, "tls13 empty inner plaintext", false, "tls13-empty-inner")
			one(16384, 0, 23, sealOpt{Zeros: 1}, "tls13 inner plaintext of 2^14+2 bytes", false, "tls13-inner-over-limit")
			one(16384, 0, 23, sealOpt{Zeros: 200}, "tls13 inner plaintext of 2^14+201 bytes", false, "tls13-inner-over-limit")
		case s.Kind == "stream":
			for _, l := range []int{0, 1, 16, 1000, 16384} {
				for _, typ := range []uint8{23, 22} {
					for _, sq := range seqs {
						one(l, sq, typ, sealOpt{}, "stream", true, "")
					}
				}
			}
		case s.Kind == "aead":
			for _, l := range []int{0, 1, 16, 1000, 16384} {
				for _, typ := range []uint8{23, 22} {
					for _, sq := range seqs {
						if s.IVLen != 4 {
							one(l, sq, typ, sealOpt{}, "aead implicit nonce", true, "")
							continue
						}
						var sb [8]byte
						binary.BigEndian.PutUint64(sb[:], sq)
						// RFC 5288 3: the explicit part is chosen by the sender and carried in the record
						for ni, nonce := range [][]byte{sb[:], bytes.Repeat([]byte{0xa5}, 8), make([]byte, 8), {0xff, 0xff, 0xff, 0xff, 0xff, 0xff, 0xff, 0xff}} {
							one(l, sq, typ, sealOpt{Explicit: nonce}, []string{"gcm explicit nonce = seq", "gcm explicit nonce = pattern", "gcm explicit nonce = zero", "gcm explicit nonce = all-ones"}[ni], true, "")
						}
					}
				}
			}
		case s.Kind == "cbc":
			bs := blockSizeOf(s)
			p := u.p
			// payload lengths that make payload+mac+padding a block multiple: small, medium, maximal
			adj := func(base int) int { // smallest l >= base with (l+mac+p+1) % bs == 0
				return base + (bs-(base+s.MacLen+p+1)%bs)%bs
			}
			small, medium := adj(0), adj(1000)
			large := adj(16384 - bs + 1)
			if large > 16384 {
				c.Broken("no maximal payload length for padding %d", p)
			}
			// maximal-length records: every padding length for the primary suite, the extremes for the others (quick)
			doLarge := thorough || u.primary || p == 0 || p == bs-1 || p == 255
			ivs := [][]byte{bytes.Repeat([]byte{0x3c}, bs)}
			if u.primary {
				ivs = append(ivs, make([]byte, bs), bytes.Repeat([]byte{0xff}, bs))
			}
			for ii, xiv := range ivs {
				o := sealOpt{PadLen: p, BadPadAt: -1}
				if v >= tls.VersionTLS11 {
					o.Explicit = xiv
				} else if ii > 0 {
					break
				}
				for _, l := range []int{small, medium, large} {
					if l == large && !doLarge {
						continue
					}
					for _, sq := range seqs {
						for _, typ := range []uint8{23, 22} {
							if typ == 22 && (l != small || !u.primary) {
								continue
							}
							one(l, sq, typ, o, fmt.Sprintf("cbc padding length %d", p), true, "")
						}
					}
				}
			}
			// SSLv3-style padding: MAC and padding length are right, ONE padding byte differs from the padding length
			masks := []byte{0x01}
			if thorough {
				masks = []byte{0x01, 0x80, 0xff, byte(p)} // xor with p: the byte becomes 0x00 (SSLv3 implementations zero-fill)
			}
			badDesc := fmt.Sprintf("cbc padding length %d with a wrong padding byte", p)
			if p > 0 {
				// SSLv3 layout: only the length byte is defined, the padding bytes are arbitrary (here: zero / complemented)
				for _, mask := range []byte{byte(p), 0xff} {
					if mask != 0 {
						one(small, 0, 23, sealOpt{PadLen: p, BadPadAt: -1, BadPadAll: true, BadPadXor: mask, Explicit: ivs[0]}, fmt.Sprintf("cbc padding length %d with arbitrary padding bytes below a correct length byte", p), false, "")
					}
				}
			}
			for pos := 0; pos < p; pos++ {
				for _, mask := range masks {
					o := sealOpt{PadLen: p, BadPadAt: pos, BadPadXor: mask, Explicit: ivs[0]}
					if mask == 0 {
						continue
					}
					if !thorough && u.primary && (pos == 0 || pos == p-1) {
						o2 := o
						o2.BadPadXor = 0x80
						one(small, seqs[pos%2], 23, o2, badDesc, false, "")
					}
					one(small, seqs[pos%2], 23, o, badDesc, false, "")
					if doLarge && (pos == 0 || pos == p-1 || pos == p/2) {
						one(large, 0, 23, o, badDesc, false, "")
					}
				}
			}
		}
		if i%211 == 0 {
			c.Sample(map[string]any{"seal_level": sname, "version": vname(v), "cbc_padding_length": u.p})
		}
	})
	for _, h := range hists {
		c.Merge(h)
	}
	if !done {
		c.Incomplete("seal level: time budget reached")
	}
}

// peerClass strips the numbers from a peer-choice description so that signatures name the class.
func peerClass(peer string) string {
	out := make([]byte, 0, len(peer))
	prevDigit := false
	for i := 0; i < len(peer); i++ {
		ch := peer[i]
		if ch >= '0' && ch <= '9' && !(i >= 3 && peer[:3] == "tls" && i < 5) {
			if !prevDigit {
				out = append(out, 'N')
			}
			prevDigit = true
			continue
		}
		prevDigit = false
		out = append(out, ch)
	}
	return string(out)
}
