// C25 — TLS application data arrives intact or not at all.
//
// Record level (in-package accessors over halfConn): every (version, suite) of both suite tables and the
// TLS 1.3 table x payload lengths x sequence numbers: the sealed record must open under an independent
// RFC transcription (nonce construction included), decrypt(encrypt(p)) == p, replay/any single-bit flip/any
// truncation must be rejected; extractPadding against a reference loop on every padding shape.
// Seal level: records protected by an independent reference sealer with every peer-chosen padding length,
// explicit IV/nonce and TLS 1.3 zero padding must be delivered exactly; wrong padding bytes and inner
// plaintexts without content type must be rejected.
// Connection level (E4), both directions: all write-size sequences x transport segmentations x Read buffer
// sizes x negotiated protection classes, then every wire fault of the menu on the post-handshake records
// of a single-record and of a multi-record baseline.
// Local transport (local.go): the net.Conn under each endpoint is wrapped; every transport Write call of the writer fails
// in turn (timeout / temporary / permanent / short write / expired write deadline) and the application closes or carries on;
// the reader's transport times out at offsets inside and between records and the application retries; a healthy reader transport
// answers with data+io.EOF in one call / (0, nil) / one byte per call.
package main

import (
	"encoding/json"
	"fmt"
	"syscall"
	"time"

	"verifmc/internal/ev"
)

func main() {
	ev.Main("C25", "model_checking", func(c *ev.Ctx) {
		c.Rule("record level: all (suite,version) pairs of the implemented/default/TLS1.3 tables x payload lengths {0,1,7,8,15,16,17,31,32,33,47,255,256,1000,16383,16384} x seq {0,1,0x80,2^32,2^40+5,0xfedcba9876f5} (quick: 2) x type {23,22}; per record: independent RFC open (TLS 1.3 key/iv from the reference's own HKDF-Expand-Label; nonce = iv XOR seq computed by the reference), RFC 5288 explicit nonce == sequence number, round trip, replay, every single-bit flip (all bits of records <= 100 bytes, first 45/last 40 bytes otherwise; quick: bits 0 and 7 in long bodies), every truncation, one-byte extension. " +
			"seal level (records protected by an independent reference SEALER, opened by the real decrypt): CBC suites x TLS 1.0/1.1/1.2 x EVERY padding length 0..255 (quick: all 256 for AES-128-CBC-SHA at each version, boundary lengths for the other suites; thorough: all for all) x payload lengths small/~1000/maximal (<= 2^14) x explicit IVs x seq x type must be delivered exactly; the same records with ONE padding byte wrong at EVERY position (xor 01; extremes also 80; thorough: 01,80,ff,->00) and with all padding bytes arbitrary below a correct length byte must be rejected; RFC 5288 records with 4 peer-chosen explicit nonces, RC4 and implicit-nonce AEAD records; TLS 1.3 records with k in {0,1,2,15,16,255,2^14-len} zero bytes after the content type x len {0,1,16,1000,16383,16384} x type {23,22,21; quick: 22,21 for len <= 1000} delivered exactly, all-zero inner plaintexts of 1..16385 bytes rejected (empty inner plaintext and inner plaintext > 2^14+1: observed only). " +
			"extractPadding: all payloads <= 3 bytes + structured paddings for 11 lengths x 256 padding values x each corrupted byte. " +
			"connection level, BOTH directions (client writes/server reads and server writes/client reads): all write-size sequences (len<=2 quick, <=3 thorough) over {0,1,2,16383,16384,16385,40000} x transport read segmentation {0,1,1000; thorough +5} x Read buffer {1,7,16384,70000, mixed schedule with zero-length reads} (quick: full product for single writes, each value once for two writes) x 8 (thorough 14) protection classes: concatenation of everything read == everything written, clean EOF, every record <= 2^14 plaintext (wire length + record count), GCM explicit nonces on the wire == sequence numbers. " +
			"faults on the writer->reader stream after the handshake, both directions, baseline A = writes {100,300,50} and baseline B = one write of 40000 bytes (multi-record): xor 01/80 at every byte (quick: A every 3rd byte inside bodies split between the directions; B header, first, middle, last byte of the first two/last two records) incl. headers, cut at a record boundary (clean EOF allowed: documented in readRecordOrCCS, same as crypto/tls) vs cut INSIDE a record (must be an error other than io.EOF), drop/dup/swap of every record, forged records with length field max+1 and 0xffff (must be record_overflow) and with the maximal legal length (any error), Read buffers {70000,1} (thorough +7, mixed), thorough: fault pairs. In every run what was read is a prefix of what was written and nothing from the faulted record on is delivered. distinct = fault cases whose edit was reached. " +
			"LOCAL transport faults (the net.Conn under tls.Client/tls.Server is wrapped; the wire is never touched; runs are sequential: the writer finishes before the reader starts), both directions, same 8 (14) protection classes, baselines A {100,300,50} and B {40000}: " +
			"(w) the k-th transport Write call of the data phase fails, for EVERY k of the baseline (every record of single-record, TLS 1.0 1/n-1 split, multi-record and TLS 1.3 writes, and close_notify) x error {timeout = *net.OpError(os.ErrDeadlineExceeded), temporary net.Error, permanent io.ErrClosedPipe, short write of 1 / 5 / len-1 bytes + timeout, short write of len/2 bytes + permanent; thorough + ECONNRESET and 4 more short-write shapes} x continuation {Close with the fault still in force, clear the fault then Close, clear the fault then Write the rest of the failed payload and every further payload (at least one) then Close}; plus, as the realistic origin, SetWriteDeadline(past) and SetDeadline(past) on the tls.Conn before every application Write (virtual deadlines) x the 3 continuations (reset with the zero time). Verdicts: the reader gets only a prefix of p1[:m1] p2[:m2].. with reported n_i <= m_i <= len(p_i); everything Write reported as written up to and including the failed call reaches the reader; a Write that returns nil during/after a failed transport write must reach the reader (success followed by bad_record_mac / truncation on an untouched wire is the writer corrupting its own stream). Whether later Writes fail (they all do: 'later-writes=all-fail') is an outcome. " +
			"(r) the reader's transport has nothing more to give at offset d of record r (quick: d in {0,1,4,5,6,middle,last} of every record of A and of the first two/last two of B, {3,middle} of the others; thorough: every byte of A, first 24/last 16/every 512th of B) x {read deadline armed through SetReadDeadline expires (then extended, then removed), timeout returned together with the last bytes (n>0,err), temporary error, permanent error; at the middle of a record also two consecutive expiries and deadline+data} x Read buffer {70000,1} (thorough: at the edges and the middle of each record 9 kinds x {70000, 1, mixed with 3-byte transport reads, 7 with 3-byte transport reads}, the 4 basic kinds with the large buffer at every other byte), the application retries Read after each injected error: the stream must continue without loss or duplication (clean EOF requires every byte) or fail; recovered-intact vs failed are outcomes. " +
			"(b) reader-side BEHAVIOURS of a healthy transport (io.Reader contract; nothing is faulty, nothing tampered), same baselines/directions/classes x Read buffer {70000,1} (B: 70000; thorough + 7, mixed): the last transport Read returns the final bytes of the stream TOGETHER with io.EOF, the final segment starting at offset d of record r (d in {0,1,4,5,6,middle,last} of the last record = close_notify and of the last data record, d = 0 of every earlier record; thorough: every byte of A and of B's close_notify, first 24 / last 16 / every 512th byte of B's last data record; the transport hands out at most what the TLS layer's buffer takes, the witness reports the size of the final segment); one (0, nil) answer at each of these positions; one byte per transport Read for the whole data phase. Verdict: exactly the written bytes, then io.EOF.")
		c.Assume("independent record reference (opener AND sealer) transcribed from RFC 2246/4346/5246 6.2.3, RFC 5288, RFC 7905, RFC 8446 5.2-5.4/7.1/7.3 using crypto/aes, crypto/cipher, crypto/des, crypto/rc4, crypto/hmac, x/crypto/chacha20poly1305",
			"plaintext bytes carried by the records before record k are measured by cutting the authentic stream at record k",
			"records with at most 2^14 plaintext bytes: checked as wire length <= 2^14 + maximal expansion of the protection class AND number of records >= ceil(n/2^14) per Write",
			"transport EOF exactly at a record boundary without close_notify may surface as io.EOF (zcrypto conn.go readRecordOrCCS comment, identical in GOROOT crypto/tls); anywhere inside a record it must not",
			"the explicit nonce of RFC 5288 suites is the record sequence number (documented in halfConn.encrypt)",
			"local transport faults: 'written' for a failed Write is anything between the reported n and the whole payload (a short transport write may be completed by the following bytes); Write success is what io.Writer reports (nil error); a transport whose Write failed wrote exactly the bytes it reported; deadlines are virtual (a non-zero time before 2000 has expired, later ones fire only where the plan says the transport blocks)",
			"io.Reader contract: a Read may return n > 0 together with io.EOF at the end of the stream, and (0, nil) at any time; neither is an error of the transport")
		if c.Replay != nil {
			var w map[string]any
			json.Unmarshal(c.Replay, &w)
			fmt.Println("C25 replay: re-running the full quick check is the replay for this witness:", w)
		}
		phase := func(name string, f func(*ev.Ctx)) {
			t0, c0 := time.Now(), cpuSeconds()
			f(c)
			c.Set("phase_"+name, fmt.Sprintf("wall %.1fs cpu %.1fs", time.Since(t0).Seconds(), cpuSeconds()-c0)) // informational only
		}
		phase("record", recordLevel)
		phase("seal", sealLevel)
		phase("padding", paddingLevel)
		phase("connection", connLevel)
		phase("local", localLevel)
		c.Evaluations.Store(c.Transitions.Load())
		if c.Distinct.Load() == 0 {
			c.Distinct.Store(c.States.Load())
		}
	})
}

func cpuSeconds() float64 {
	var ru syscall.Rusage
	if syscall.Getrusage(syscall.RUSAGE_SELF, &ru) != nil {
		return 0
	}
	tv := func(t syscall.Timeval) float64 { return float64(t.Sec) + float64(t.Usec)/1e6 }
	return tv(ru.Utime) + tv(ru.Stime)
}
