// C25 — TLS application data arrives intact or not at all.
//
// Record level (in-package accessors over halfConn): every (version, suite) of both suite tables and the
// TLS 1.3 table x payload lengths x sequence numbers: the sealed record must open under an independent
// RFC transcription, decrypt(encrypt(p)) == p, replay/any single-bit flip/any truncation must be rejected;
// extractPadding against a reference loop on every padding shape.
// Connection level (E4): all write-size sequences x transport segmentations x negotiated protection classes,
// then every wire fault of the menu on the application records.
package main

import (
	"encoding/json"
	"fmt"
	"syscall"
	"time"

	"verifmc/internal/ev"
)

func main() {
	ev.Main("C25", "model_checking", func(c *ev.Ctx) {
		c.Rule("record level: all (suite,version) pairs of the implemented/default/TLS1.3 tables x payload lengths {0,1,7,8,15,16,17,31,32,33,47,255,256,1000,16383,16384} x seq {0,1,2^32,2^40+5} x type {23,22}; per record: independent RFC open, round trip, replay, every single-bit flip (all bits of records <= 100 bytes, first 45/last 40 bytes otherwise; quick: bits 0 and 7 in long bodies), every truncation, one-byte extension. extractPadding: all payloads <= 3 bytes + structured paddings for 11 lengths x 256 padding values x each corrupted byte. connection level: all write-size sequences (len<=2 quick, <=3 thorough) over {0,1,2,16383,16384,16385,40000} x read segmentation x protection classes; faults: xor 01/80 at every byte (quick: stride 3 inside bodies) of the 3 application records + close_notify, truncation at every (quick: 4th) byte, drop/dup/swap records (thorough: fault pairs). distinct = fault cases whose edit was reached.")
		c.Assume("independent record reference transcribed from RFC 2246/4346/5246 6.2.3, RFC 5288, RFC 7905, RFC 8446 5.2-5.3 using crypto/aes, crypto/cipher, crypto/des, crypto/rc4, crypto/hmac, x/crypto/chacha20poly1305",
			"plaintext bytes carried by the records before record k are measured by cutting the authentic stream at record k",
			"records with at most 2^14 plaintext bytes: checked as wire length <= 2^14 + maximal expansion of the protection class AND number of records >= ceil(n/2^14) per Write")
		if c.Replay != nil {
			var w map[string]any
			json.Unmarshal(c.Replay, &w)
			fmt.Println("C25 replay: re-running the full quick check is the replay for this witness:", w)
		}
		phase := func(name string, f func(*ev.Ctx)) {
			t0, c0 := time.Now(), cpuSeconds()
			f(c)
			c.Set("phase_"+name, fmt.Sprintf("wall %.1fs cpu %.1fs", time.Since(t0).Seconds(), cpuSeconds()-c0)) // informational only
		}
		phase("record", recordLevel)
		phase("seal", sealLevel)
		phase("padding", paddingLevel)
		phase("connection", connLevel)
		profStop()
		c.Evaluations.Store(c.Transitions.Load())
		if c.Distinct.Load() == 0 {
			c.Distinct.Store(c.States.Load())
		}
	})
}

func cpuSeconds() float64 {
	var ru syscall.Rusage
	if syscall.Getrusage(syscall.RUSAGE_SELF, &ru) != nil {
		return 0
	}
	tv := func(t syscall.Timeval) float64 { return float64(t.Sec) + float64(t.Usec)/1e6 }
	return tv(ru.Utime) + tv(ru.Stime)
}
