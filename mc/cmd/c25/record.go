package main

import (
	"bytes"
	"crypto/aes"
	"crypto/cipher"
	"crypto/des"
	"crypto/hmac"
	"crypto/rc4"
	"crypto/sha1"
	"crypto/sha256"
	"encoding/binary"
	"errors"
	"fmt"
	"hash"

	"golang.org/x/crypto/chacha20poly1305"

	"github.com/zmap/zcrypto/tls"
	"verifmc/internal/ev"
	"verifmc/internal/fx"
)

// refOpen is an independent transcription of the record protection of
// RFC 2246/4346/5246 §6.2.3, RFC 5288, RFC 7905 and RFC 8446 §5.2-5.3.
// It opens ONE record protected as the first record after key installation
// with sequence number seq, and returns (plaintext, inner content type).
func refOpen(version uint16, s tls.VerifC25Suite, key, iv, macKey []byte, seq uint64, rec []byte) ([]byte, uint8, error) {
	if len(rec) < 5 {
		return nil, 0, errors.New("short")
	}
	hdr, body := rec[:5], rec[5:]
	if int(hdr[3])<<8|int(hdr[4]) != len(body) {
		return nil, 0, errors.New("length field mismatch")
	}
	var seqb [8]byte
	binary.BigEndian.PutUint64(seqb[:], seq)
	xorNonce := func(iv []byte) []byte {
		n := append([]byte(nil), iv...)
		for i := 0; i < 8; i++ {
			n[len(n)-8+i] ^= seqb[i]
		}
		return n
	}
	newAEAD := func() (cipher.AEAD, error) {
		if s.ID == tls.TLS_CHACHA20_POLY1305_SHA256 || (!s.TLS13 && s.IVLen == 12) {
			return chacha20poly1305.New(key)
		}
		b, err := aes.NewCipher(key)
		if err != nil {
			return nil, err
		}
		return cipher.NewGCM(b)
	}
	if version == tls.VersionTLS13 {
		a, err := newAEAD()
		if err != nil {
			return nil, 0, err
		}
		pt, err := a.Open(nil, xorNonce(iv), body, hdr)
		if err != nil {
			return nil, 0, err
		}
		i := len(pt) - 1
		for i >= 0 && pt[i] == 0 {
			i--
		}
		if i < 0 {
			return nil, 0, errors.New("no content type")
		}
		return pt[:i], pt[i], nil
	}
	aad := func(n int) []byte {
		out := append([]byte(nil), seqb[:]...)
		out = append(out, hdr[0], hdr[1], hdr[2], byte(n>>8), byte(n))
		return out
	}
	switch s.Kind {
	case "aead":
		a, err := newAEAD()
		if err != nil {
			return nil, 0, err
		}
		if s.IVLen == 4 { // RFC 5288: salt(4) || explicit(8)
			if len(body) < 8+16 {
				return nil, 0, errors.New("short gcm record")
			}
			nonce := append(append([]byte(nil), iv...), body[:8]...)
			ct := body[8:]
			pt, err := a.Open(nil, nonce, ct, aad(len(ct)-16))
			return pt, hdr[0], err
		}
		pt, err := a.Open(nil, xorNonce(iv), body, aad(len(body)-16)) // RFC 7905
		return pt, hdr[0], err
	case "cbc", "stream":
		var newMac func() hash.Hash
		switch s.MacLen {
		case 20:
			newMac = sha1.New
		case 32:
			newMac = sha256.New
		default:
			return nil, 0, fmt.Errorf("reference: unknown mac length %d", s.MacLen)
		}
		var pt []byte
		if s.Kind == "stream" {
			c, err := rc4.NewCipher(key)
			if err != nil {
				return nil, 0, err
			}
			pt = make([]byte, len(body))
			c.XORKeyStream(pt, body)
		} else {
			var blk cipher.Block
			var err error
			if s.KeyLen == 24 {
				blk, err = des.NewTripleDESCipher(key)
			} else {
				blk, err = aes.NewCipher(key)
			}
			if err != nil {
				return nil, 0, err
			}
			bs := blk.BlockSize()
			civ := iv
			ct := body
			if version >= tls.VersionTLS11 {
				if len(body) < bs {
					return nil, 0, errors.New("short cbc record")
				}
				civ, ct = body[:bs], body[bs:]
			}
			if len(ct) == 0 || len(ct)%bs != 0 {
				return nil, 0, errors.New("cbc length")
			}
			pt = make([]byte, len(ct))
			cipher.NewCBCDecrypter(blk, civ).CryptBlocks(pt, ct)
			p := int(pt[len(pt)-1])
			if p+1 > len(pt) {
				return nil, 0, errors.New("bad padding length")
			}
			for _, b := range pt[len(pt)-1-p:] {
				if int(b) != p {
					return nil, 0, errors.New("bad padding bytes")
				}
			}
			pt = pt[:len(pt)-1-p]
		}
		if len(pt) < s.MacLen {
			return nil, 0, errors.New("short for mac")
		}
		data, tag := pt[:len(pt)-s.MacLen], pt[len(pt)-s.MacLen:]
		m := hmac.New(newMac, macKey)
		m.Write(aad(len(data)))
		m.Write(data)
		if !hmac.Equal(m.Sum(nil), tag) {
			return nil, 0, errors.New("bad mac")
		}
		return data, hdr[0], nil
	}
	return nil, 0, errors.New("reference: unknown kind")
}

type recCase struct {
	S       tls.VerifC25Suite
	Version uint16
}

type recWitness struct {
	Suite   string `json:"suite"`
	Version string `json:"version"`
	Len     int    `json:"payload_len"`
	Seq     uint64 `json:"seq"`
	Type    uint8  `json:"record_type"`
	Detail  string `json:"detail"`
	Record  string `json:"record_hex,omitempty"`
}

func vname(v uint16) string {
	return map[uint16]string{0x0301: "TLS1.0", 0x0302: "TLS1.1", 0x0303: "TLS1.2", 0x0304: "TLS1.3"}[v]
}

func recordLevel(c *ev.Ctx) {
	cases := recCases()
	c.Set("record_level_suite_version_pairs", len(cases))
	lens := []int{0, 1, 7, 8, 15, 16, 17, 31, 32, 33, 47, 255, 256, 1000, 16383, 16384}
	seqs := []uint64{0, 1, 0x80, 1 << 32, 1<<40 + 5, 0xfedcba9876f5}
	if c.Quick() {
		seqs = []uint64{0, 0xfedcba9876f5}
	}
	types := []uint8{23, 22}
	type unit struct {
		rc  recCase
		l   int
		seq uint64
		typ uint8
	}
	var units []unit
	for _, rc := range cases {
		for _, l := range lens {
			for _, sq := range seqs {
				for _, t := range types {
					if c.Quick() && t == 22 && l > 33 {
						continue
					}
					units = append(units, unit{rc, l, sq, t})
				}
			}
		}
	}
	hists := make([]ev.Hist, c.Workers())
	for i := range hists {
		hists[i] = ev.Hist{}
	}
	done := c.Parallel(len(units), func(w, i int) {
		u := units[i]
		s := u.rc.S
		v := u.rc.Version
		key, iv, mk, secret := caseKeys(s, v) // TLS 1.3: key and iv derived by the reference (RFC 8446 7.3)
		if s.TLS13 {
			if zk, ziv := tls.VerifC25TrafficKey(s.ID, secret); !bytes.Equal(zk, key) || !bytes.Equal(ziv, iv) {
				c.Violation("TLS 1.3 traffic key/iv differ from HKDF-Expand-Label(secret, key|iv)", map[string]any{"suite": fmt.Sprintf("%04x", s.ID)})
			}
		}
		payload := make([]byte, u.l)
		fx.NewRand("payload").Read(payload)
		recVers := v
		if v == tls.VersionTLS13 {
			recVers = tls.VersionTLS12
		}
		sname := fmt.Sprintf("%04x(%s)", s.ID, s.Kind)
		wit := func(detail string, rec []byte) recWitness {
			h := ""
			if len(rec) <= 200 {
				h = fmt.Sprintf("%x", rec)
			}
			return recWitness{sname, vname(v), u.l, u.seq, u.typ, detail, h}
		}
		mk2 := func(isRead bool) *tls.VerifC25Half {
			h, err := tls.VerifC25NewHalf(v, s.ID, key, iv, mk, secret, isRead)
			if err != nil {
				c.Broken("cannot build halfConn for suite %04x version %x: %v", s.ID, v, err)
			}
			h.SetSeq(u.seq)
			return h
		}
		wr := mk2(false)
		rec, err := wr.Encrypt(u.typ, recVers, payload, fx.NewRand("iv"))
		c.Transitions.Add(1)
		if err != nil {
			c.Violation(fmt.Sprintf("record encrypt fails kind=%s %s", s.Kind, vname(v)), wit(err.Error(), nil))
			return
		}
		if wr.Seq() != u.seq+1 {
			c.Violation("encrypt does not advance the sequence number by one", wit(fmt.Sprint(wr.Seq()), rec))
		}
		// independent reference must open what zcrypto sealed
		pt, it, err := refOpen(v, s, key, iv, mk, u.seq, rec)
		if err != nil || !bytes.Equal(pt, payload) || it != u.typ {
			c.Violation(fmt.Sprintf("sealed record is not what the RFC layout defines kind=%s %s", s.Kind, vname(v)), wit(fmt.Sprintf("reference open: err=%v typ=%d len=%d", err, it, len(pt)), rec))
			hists[w]["ref-open-mismatch"]++
		} else {
			hists[w]["ref-open-ok"]++
		}
		// nonce construction. Implicit-nonce AEADs (RFC 7905, RFC 8446 5.3): the reference opener computes
		// iv XOR seq itself, so ref-open-ok above IS the assertion. RFC 5288 suites carry 8 explicit bytes which the
		// opener reads from the record: they must be the sequence number (documented in halfConn.encrypt; distinct
		// sequence numbers then give distinct nonces under one key).
		if s.Kind == "aead" && !s.TLS13 && s.IVLen == 4 {
			var sb [8]byte
			binary.BigEndian.PutUint64(sb[:], u.seq)
			if len(rec) < 13 || !bytes.Equal(rec[5:13], sb[:]) {
				c.Violation(fmt.Sprintf("explicit GCM nonce is not the record sequence number %s", vname(v)), wit(fmt.Sprintf("explicit=%x seq=%x", rec[5:min(13, len(rec))], sb), rec))
				hists[w]["explicit-nonce-NOT-seq"]++
			} else {
				hists[w]["explicit-nonce-is-seq"]++
			}
		} else if s.Kind == "aead" && err == nil {
			hists[w]["implicit-nonce-is-iv-xor-seq"]++
		}
		rd := mk2(true)
		got, gt, err := rd.Decrypt(rec)
		c.Transitions.Add(1)
		if err != nil || !bytes.Equal(got, payload) || gt != u.typ {
			c.Violation(fmt.Sprintf("decrypt(encrypt(p)) != p kind=%s %s", s.Kind, vname(v)), wit(fmt.Sprintf("err=%v typ=%d len=%d", err, gt, len(got)), rec))
			return
		}
		hists[w]["roundtrip-ok"]++
		// replay under the next sequence number must fail
		if _, _, err := rd.Decrypt(rec); err == nil {
			c.Violation(fmt.Sprintf("replayed record accepted under next sequence number kind=%s %s", s.Kind, vname(v)), wit("second decrypt of the same record succeeded", rec))
		} else {
			hists[w]["replay-rejected"]++
		}
		c.Transitions.Add(1)
		// tampering: every single-bit flip (all bytes for short records; first/last 40 bytes otherwise), header length bytes excluded
		tamper := func(mut []byte, what string) {
			h := mk2(true)
			p2, t2, err := h.Decrypt(mut)
			c.Transitions.Add(1)
			if err == nil {
				// accepted: only a violation if what is delivered differs from what was sent
				cls := "tampered record accepted with ORIGINAL plaintext"
				if !bytes.Equal(p2, payload) || t2 != u.typ {
					cls = "tampered record accepted with DIFFERENT plaintext"
				}
				c.Violation(fmt.Sprintf("%s (%s) kind=%s %s", cls, whatClass(what), s.Kind, vname(v)), wit(what, mut))
				hists[w]["tamper-accepted"]++
			} else {
				hists[w]["tamper-rejected"]++
			}
		}
		scratch := append([]byte(nil), rec...)
		for o := 0; o < len(rec); o++ {
			if o == 3 || o == 4 {
				continue
			}
			if len(rec) > 100 && o >= 45 && o < len(rec)-40 {
				continue
			}
			for b := 0; b < 8; b++ {
				if c.Quick() && o >= 5 && b != 0 && b != 7 && len(rec) > 60 {
					continue
				}
				// Decrypt works on its own copy: flip in a scratch copy of the record and restore afterwards
				scratch[o] ^= 1 << b
				where := "body"
				if o < 3 {
					where = "header type/version"
				}
				tamper(scratch, fmt.Sprintf("flip bit %d of byte %d (%s)", b, o, where))
				scratch[o] ^= 1 << b
			}
		}
		// truncations and extension (length field adjusted, as a framing layer would see them)
		fixlen := func(m []byte) []byte {
			n := len(m) - 5
			m[3], m[4] = byte(n>>8), byte(n)
			return m
		}
		for n := 5; n < len(rec); n++ {
			if len(rec) > 100 && n > 45 && n < len(rec)-40 {
				continue
			}
			tamper(fixlen(scratch[:n]), fmt.Sprintf("truncate to %d of %d bytes", n, len(rec)))
			scratch[3], scratch[4] = rec[3], rec[4]
		}
		if !bytes.Equal(scratch, rec) {
			c.Broken("record level: scratch record not restored")
		}
		tamper(fixlen(append(append([]byte(nil), rec...), 0)), "extend by one zero byte")
		c.States.Add(1)
		if i%997 == 0 {
			c.Sample(map[string]any{"record_level": wit("encrypt/decrypt/reference/tamper", nil), "record_len": len(rec)})
		}
	})
	for _, h := range hists {
		c.Merge(h)
	}
	if !done {
		c.Incomplete("record level: time budget reached")
	}
}

func whatClass(what string) string {
	switch {
	case len(what) > 8 && what[:8] == "truncate":
		return "truncation"
	case len(what) > 6 && what[:6] == "extend":
		return "extension"
	case bytes.Contains([]byte(what), []byte("header")):
		return "header bit flip"
	}
	return "body bit flip"
}

// paddingLevel compares extractPadding with a plain reference loop on every
// padding shape for block sizes 8 and 16.
func paddingLevel(c *ev.Ctx) {
	ref := func(p []byte) (int, bool) {
		if len(p) == 0 {
			return 0, false
		}
		n := int(p[len(p)-1])
		if n+1 > len(p) {
			return 0, false
		}
		for _, b := range p[len(p)-1-n:] {
			if int(b) != n {
				return 0, false
			}
		}
		return n + 1, true
	}
	var n, good, bad int64
	check := func(p []byte, desc string) {
		n++
		tr, g := tls.VerifC25ExtractPadding(p)
		rt, rg := ref(p)
		if rg {
			good++
		} else {
			bad++
		}
		if (g == 255) != rg || (g != 255 && g != 0) {
			c.Violation("extractPadding verdict differs from reference", map[string]any{"payload_hex": fmt.Sprintf("%x", p), "good": g, "ref_good": rg, "case": desc})
			return
		}
		if rg && tr != rt {
			c.Violation("extractPadding length differs from reference on valid padding", map[string]any{"payload_hex": fmt.Sprintf("%x", p), "toRemove": tr, "ref": rt})
		}
	}
	// exhaustive: every payload of length 0..2 over all bytes, and length 3 over all bytes
	check(nil, "empty")
	for a := 0; a < 256; a++ {
		check([]byte{byte(a)}, "len1")
		for b := 0; b < 256; b++ {
			check([]byte{byte(a), byte(b)}, "len2")
			if !c.Quick() || a < 8 || a > 250 {
				for d := 0; d < 256; d++ {
					check([]byte{byte(a), byte(b), byte(d)}, "len3")
				}
			}
		}
	}
	// structured: lengths 8..288 step block, every padding length byte, correct padding and each single corrupted byte
	for _, total := range []int{8, 16, 24, 32, 48, 64, 256, 264, 272, 288, 512} {
		for p := 0; p < 256; p++ {
			buf := make([]byte, total)
			for i := range buf {
				buf[i] = 0xA5
			}
			for i := 0; i <= p && i < total; i++ {
				buf[total-1-i] = byte(p)
			}
			check(buf, "well-formed-or-too-long")
			for i := 1; i <= p && i < total; i++ {
				m := append([]byte(nil), buf...)
				m[total-1-i] ^= 0x01
				check(m, "one padding byte corrupted (low bit)")
				m[total-1-i] = buf[total-1-i] ^ 0x80
				check(m, "one padding byte corrupted (high bit)")
			}
		}
	}
	c.Transitions.Add(n)
	c.Outcome("padding-valid", good)
	c.Outcome("padding-invalid", bad)
	c.Set("extract_padding_cases", n)
}
