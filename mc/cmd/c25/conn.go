package main

import (
	"bytes"
	"errors"
	"fmt"
	"io"
	"sync"

	"github.com/zmap/zcrypto/tls"
	"verifmc/internal/ev"
	"verifmc/internal/tlsx"
)

type connConf struct {
	Name    string
	Key     string
	Vers    uint16
	Suite   uint16
	Kind    string // aead / cbc / stream
	MacLen  int
	Block   int // cbc block size
	NoBEAST bool
	DynOff  bool
}

func connConfs(thorough bool) []connConf {
	out := []connConf{
		{Name: "tls13-aes128gcm", Key: "p256", Vers: tls.VersionTLS13, Suite: tls.TLS_AES_128_GCM_SHA256, Kind: "aead13"},
		{Name: "tls12-ecdhe-gcm", Key: "p256", Vers: tls.VersionTLS12, Suite: tls.TLS_ECDHE_ECDSA_WITH_AES_128_GCM_SHA256, Kind: "gcm12"},
		{Name: "tls12-chacha", Key: "p256", Vers: tls.VersionTLS12, Suite: tls.TLS_ECDHE_ECDSA_WITH_CHACHA20_POLY1305, Kind: "chacha12"},
		{Name: "tls10-cbc-beast-split", Key: "p256", Vers: tls.VersionTLS10, Suite: tls.TLS_ECDHE_ECDSA_WITH_AES_128_CBC_SHA, Kind: "cbc", MacLen: 20, Block: 16},
		{Name: "tls12-cbc-sha256", Key: "rsa2048", Vers: tls.VersionTLS12, Suite: tls.TLS_RSA_WITH_AES_128_CBC_SHA256, Kind: "cbc", MacLen: 32, Block: 16},
		{Name: "tls11-rc4", Key: "rsa2048", Vers: tls.VersionTLS11, Suite: tls.TLS_RSA_WITH_RC4_128_SHA, Kind: "stream", MacLen: 20},
		{Name: "tls12-gcm-dynoff", Key: "p256", Vers: tls.VersionTLS12, Suite: tls.TLS_ECDHE_ECDSA_WITH_AES_256_GCM_SHA384, Kind: "gcm12", DynOff: true},
		{Name: "tls11-cbc-dynoff", Key: "p256", Vers: tls.VersionTLS11, Suite: tls.TLS_ECDHE_ECDSA_WITH_AES_256_CBC_SHA, Kind: "cbc", MacLen: 20, Block: 16, DynOff: true},
	}
	if thorough {
		out = append(out,
			connConf{Name: "tls13-chacha", Key: "p256", Vers: tls.VersionTLS13, Suite: tls.TLS_CHACHA20_POLY1305_SHA256, Kind: "aead13"},
			connConf{Name: "tls13-aes256gcm", Key: "p256", Vers: tls.VersionTLS13, Suite: tls.TLS_AES_256_GCM_SHA384, Kind: "aead13"},
			connConf{Name: "tls10-cbc-nobeast", Key: "p256", Vers: tls.VersionTLS10, Suite: tls.TLS_ECDHE_ECDSA_WITH_AES_128_CBC_SHA, Kind: "cbc", MacLen: 20, Block: 16, NoBEAST: true},
			connConf{Name: "tls11-3des", Key: "rsa2048", Vers: tls.VersionTLS11, Suite: tls.TLS_RSA_WITH_3DES_EDE_CBC_SHA, Kind: "cbc", MacLen: 20, Block: 8},
			connConf{Name: "tls13-gcm-dynoff", Key: "p256", Vers: tls.VersionTLS13, Suite: tls.TLS_AES_128_GCM_SHA256, Kind: "aead13", DynOff: true},
			connConf{Name: "tls12-dhe-cbc", Key: "rsa2048", Vers: tls.VersionTLS12, Suite: tls.TLS_DHE_RSA_WITH_AES_256_CBC_SHA, Kind: "cbc", MacLen: 20, Block: 16},
		)
	}
	return out
}

func (cf connConf) configs() (*tls.Config, *tls.Config) {
	id := tlsx.ServerIdentity(cf.Key)
	cc, sc := tlsx.BaseConfigs(id, "c25-"+cf.Name)
	cc.MinVersion, cc.MaxVersion = cf.Vers, cf.Vers
	sc.MinVersion, sc.MaxVersion = tls.VersionTLS10, tls.VersionTLS13
	cc.CipherSuites = []uint16{cf.Suite}
	sc.CipherSuites = []uint16{cf.Suite}
	cc.ForceSuites = true
	sc.SessionTicketsDisabled = true
	cc.DisableTLS10BEASTMitigation = cf.NoBEAST
	sc.DisableTLS10BEASTMitigation = cf.NoBEAST
	cc.DynamicRecordSizingDisabled = cf.DynOff
	sc.DynamicRecordSizingDisabled = cf.DynOff
	return cc, sc
}

// maxWire is the largest record body (bytes after the 5-byte header) that can
// carry at most 2^14 plaintext bytes under the negotiated protection.
func (cf connConf) maxWire() int {
	switch cf.Kind {
	case "aead13":
		return 16384 + 1 + 16
	case "gcm12":
		return 16384 + 8 + 16
	case "chacha12":
		return 16384 + 16
	case "stream":
		return 16384 + cf.MacLen
	case "cbc":
		n := 16384 + cf.MacLen
		n += cf.Block - n%cf.Block // 1..block padding bytes
		if cf.Vers >= tls.VersionTLS11 {
			n += cf.Block
		}
		return n
	}
	return 0
}

type connResult struct {
	sent     []byte // client -> server application bytes
	got      []byte // what the server's Read calls delivered
	rerr     error  // final error of the reading side (nil if it stopped because everything expected arrived)
	werr     error
	hsOK     bool
	panics   []string
	c2s      []byte
	appRecs  []tlsx.Record
	stalled  bool
	reached  int
	hsEndC2S int // offset in the c2s stream where application records start
}

// runConn: handshake, then the client performs the writes (sizes), closes; the server reads until error/EOF.
func runConn(cf connConf, sizes []int, seg int, mkEdits func(base *connResult) []tlsx.Edit, base *connResult) *connResult {
	r := &connResult{}
	cc, sc := cf.configs()
	var applied *int
	s := tlsx.Handshake(cc, sc, func(n *tlsx.Net) {
		if seg > 0 {
			n.MaxRd[tlsx.C2S], n.MaxRd[tlsx.S2C] = seg, seg
		}
		if mkEdits != nil {
			applied = tlsx.InstallEdits(n, mkEdits(base))
		}
	})
	if s.Client.Panic != "" || s.Server.Panic != "" {
		r.panics = append(r.panics, s.Client.Panic, s.Server.Panic)
	}
	r.hsOK = s.Client.OKDone && s.Server.OKDone
	r.hsEndC2S = len(s.Net.Stream(tlsx.C2S))
	if r.hsOK {
		var wg sync.WaitGroup
		wg.Add(1)
		go func() {
			defer wg.Done()
			p, msg, site := ev.Try(func() {
				buf := make([]byte, 70000)
				for {
					n, err := s.Server.Conn.Read(buf)
					r.got = append(r.got, buf[:n]...)
					if err != nil {
						r.rerr = err
						break
					}
				}
				s.Server.Conn.Close()
			})
			if p {
				r.panics = append(r.panics, "server Read: "+msg+" @ "+site)
			}
		}()
		p, msg, site := ev.Try(func() {
			ctr := byte(0)
			for _, sz := range sizes {
				b := make([]byte, sz)
				for i := range b {
					ctr++
					b[i] = ctr ^ byte(i>>8)
				}
				r.sent = append(r.sent, b...)
				if _, err := s.Client.Conn.Write(b); err != nil {
					r.werr = err
					break
				}
			}
			s.Client.Conn.Close()
		})
		if p {
			r.panics = append(r.panics, "client Write: "+msg+" @ "+site)
		}
		wg.Wait()
	}
	s.Close()
	r.c2s = s.Net.Stream(tlsx.C2S)
	r.stalled = s.Net.Stalled
	if applied != nil {
		r.reached = *applied
	}
	for _, rec := range tlsx.ParseRecords(r.c2s) {
		if rec.Off >= r.hsEndC2S {
			r.appRecs = append(r.appRecs, rec)
		}
	}
	return r
}

func allSizeSeqs(alpha []int, maxLen int) [][]int {
	out := [][]int{}
	var rec func(cur []int)
	rec = func(cur []int) {
		if len(cur) > 0 {
			out = append(out, append([]int(nil), cur...))
		}
		if len(cur) == maxLen {
			return
		}
		for _, a := range alpha {
			rec(append(cur, a))
		}
	}
	rec(nil)
	return out
}

func isCleanEOF(err error) bool { return err == nil || errors.Is(err, io.EOF) }

func connLevel(c *ev.Ctx) {
	thorough := !c.Quick()
	confs := connConfs(thorough)
	alpha := []int{0, 1, 2, 16383, 16384, 16385, 40000}
	seqs := allSizeSeqs(alpha, ev.Pick(c, 2, 3))
	segs := []int{0, 1, 5, 1000}
	if c.Quick() {
		segs = []int{0, 1, 1000}
	}
	type job struct {
		cf     connConf
		sizes  []int
		seg    int
		fault  func(base *connResult) []tlsx.Edit
		fdesc  string
		kind   string
		base   *connResult
		lim    int  // index into limits: first application record whose data must NOT be delivered
		tail   bool // the fault only cuts off the tail of the stream: a clean EOF is acceptable
		limits []int
	}
	var jobs []job
	// (1) no-fault stream integrity + record size bound
	for _, cf := range confs {
		for _, sz := range seqs {
			for _, sg := range segs {
				if sg == 1 && (len(sz) > 2 || sum(sz) > 45000) {
					continue // 1-byte transport reads of large streams only for short sequences
				}
				jobs = append(jobs, job{cf: cf, sizes: sz, seg: sg, kind: "nofault"})
			}
		}
	}
	// (2) faults after the handshake: baseline = writes {100, 300, 50} (3 application records + close_notify)
	faultSizes := []int{100, 300, 50}
	for _, cf := range confs {
		cf := cf
		base := runConn(cf, faultSizes, 0, nil, nil)
		b2 := runConn(cf, faultSizes, 0, nil, nil)
		if !base.hsOK || !bytes.Equal(base.got, base.sent) || !isCleanEOF(base.rerr) {
			c.Violation(fmt.Sprintf("no fault: stream not delivered intact (%s)", cf.Kind),
				map[string]any{"config": cf.Name, "write_sizes": faultSizes, "handshake_ok": base.hsOK, "delivered": len(base.got), "sent": len(base.sent), "read_error": fmt.Sprint(base.rerr)})
			continue
		}
		if !bytes.Equal(base.c2s, b2.c2s) {
			c.Broken("baseline transcript of %s is not reproducible", cf.Name)
		}
		c.Traces.Add(2)
		recs := base.appRecs
		// limits[k] = number of plaintext bytes carried by the application records before record k,
		// measured by cutting the authentic stream exactly at the start of record k.
		limits := make([]int, len(recs)+1)
		for k := range recs {
			off := recs[k].Off
			t := runConn(cf, faultSizes, 0, func(*connResult) []tlsx.Edit { return []tlsx.Edit{{Dir: tlsx.C2S, Kind: tlsx.Trunc, A: off}} }, base)
			limits[k] = len(t.got)
			c.Traces.Add(1)
		}
		limits[len(recs)] = len(base.sent)
		for k := 1; k <= len(recs); k++ {
			if limits[k] < limits[k-1] {
				c.Broken("non-monotone record limits for %s: %v", cf.Name, limits)
			}
		}
		if limits[0] != 0 || limits[len(recs)-1] != len(base.sent) {
			c.Broken("unexpected record limits for %s: %v (sent %d)", cf.Name, limits, len(base.sent))
		}
		for ri, rec := range recs {
			ri, rec := ri, rec
			for o := rec.Off; o < rec.End(); o++ {
				o := o
				stride := ev.Pick(c, 3, 1)
				if o >= rec.Off+16 && o < rec.End()-8 && (o-rec.Off)%stride != 0 {
					continue
				}
				for _, m := range []byte{0x01, 0x80} {
					m := m
					jobs = append(jobs, job{cf: cf, sizes: faultSizes, kind: "modify", base: base, lim: ri, limits: limits,
						fdesc: fmt.Sprintf("xor %02x at byte %d of app record %d (offset %d in record)", m, o, ri, o-rec.Off),
						fault: func(*connResult) []tlsx.Edit { return []tlsx.Edit{{Dir: tlsx.C2S, Kind: tlsx.Xor, A: o, Val: m}} }})
				}
				if thorough || (o-rec.Off)%4 == 0 {
					jobs = append(jobs, job{cf: cf, sizes: faultSizes, kind: "truncate", base: base, lim: ri, limits: limits, tail: true,
						fdesc: fmt.Sprintf("truncate stream at byte %d (app record %d, offset %d)", o, ri, o-rec.Off),
						fault: func(*connResult) []tlsx.Edit { return []tlsx.Edit{{Dir: tlsx.C2S, Kind: tlsx.Trunc, A: o}} }})
				}
			}
			jobs = append(jobs, job{cf: cf, sizes: faultSizes, kind: "drop", base: base, lim: ri, limits: limits, tail: ri == len(recs)-1, fdesc: fmt.Sprintf("drop app record %d of %d", ri, len(recs)),
				fault: func(*connResult) []tlsx.Edit {
					return []tlsx.Edit{{Dir: tlsx.C2S, Kind: tlsx.Drop, A: rec.Off, B: rec.End()}}
				}})
			jobs = append(jobs, job{cf: cf, sizes: faultSizes, kind: "dup", base: base, lim: ri + 1, limits: limits, tail: ri == len(recs)-1 /* a copy of close_notify arrives after the stream has ended */, fdesc: fmt.Sprintf("duplicate app record %d of %d", ri, len(recs)),
				fault: func(*connResult) []tlsx.Edit {
					return []tlsx.Edit{{Dir: tlsx.C2S, Kind: tlsx.Dup, A: rec.Off, B: rec.End()}}
				}})
			if ri+1 < len(recs) {
				nx := recs[ri+1]
				jobs = append(jobs, job{cf: cf, sizes: faultSizes, kind: "swap", base: base, lim: ri, limits: limits, fdesc: fmt.Sprintf("swap app records %d and %d", ri, ri+1),
					fault: func(*connResult) []tlsx.Edit {
						return []tlsx.Edit{{Dir: tlsx.C2S, Kind: tlsx.Swap, A: rec.Off, B: rec.End(), C: nx.End()}}
					}})
			}
			// pairs of faults (thorough): modify this record and drop/dup a later one
			if thorough {
				for rj := ri + 1; rj < len(recs); rj++ {
					r2 := recs[rj]
					for _, o := range []int{rec.Off + 5, rec.End() - 1} {
						o := o
						jobs = append(jobs, job{cf: cf, sizes: faultSizes, kind: "modify", base: base, lim: ri, limits: limits, fdesc: fmt.Sprintf("xor 01 at %d in record %d AND drop record %d", o, ri, rj),
							fault: func(*connResult) []tlsx.Edit {
								return []tlsx.Edit{{Dir: tlsx.C2S, Kind: tlsx.Xor, A: o, Val: 1}, {Dir: tlsx.C2S, Kind: tlsx.Drop, A: r2.Off, B: r2.End()}}
							}})
					}
				}
			}
		}
	}
	c.Set("connection_level_cases", len(jobs))
	hists := make([]ev.Hist, c.Workers())
	for i := range hists {
		hists[i] = ev.Hist{}
	}
	done := c.Parallel(len(jobs), func(w, i int) {
		j := jobs[i]
		r := runConn(j.cf, j.sizes, j.seg, j.fault, j.base)
		c.States.Add(1)
		c.Traces.Add(1)
		c.Transitions.Add(int64(len(tlsx.ParseRecords(r.c2s))))
		wit := map[string]any{"config": j.cf.Name, "write_sizes": j.sizes, "read_segment": j.seg, "fault": j.fdesc,
			"delivered": len(r.got), "sent": len(r.sent), "read_error": fmt.Sprint(r.rerr)}
		for _, p := range r.panics {
			if p != "" {
				c.Violation("panic in data phase: "+ev.MsgClass(p), wit)
			}
		}
		if !r.hsOK {
			c.Violation("handshake of a data-phase configuration failed", wit)
			return
		}
		// never deliver anything that is not a prefix of what was sent
		if !bytes.HasPrefix(r.sent, r.got) {
			c.Violation(fmt.Sprintf("reader delivered bytes that differ from what was written (%s, %s)", j.kind, j.cf.Kind), wit)
			hists[w][j.kind+":DIFFERENT-DATA"]++
			return
		}
		switch j.kind {
		case "nofault":
			if !bytes.Equal(r.got, r.sent) || !isCleanEOF(r.rerr) || r.werr != nil {
				c.Violation(fmt.Sprintf("no fault: stream not delivered intact (%s)", j.cf.Kind), wit)
			}
			// record sizing
			appBytes, nApp := 0, 0
			for _, rec := range r.appRecs {
				if rec.Type == 23 || (j.cf.Vers != tls.VersionTLS13 && rec.Type == 23) {
					nApp++
				}
				if rec.Len > j.cf.maxWire() {
					wit["record_len"] = rec.Len
					wit["max_wire"] = j.cf.maxWire()
					c.Violation(fmt.Sprintf("record on the wire larger than 2^14 plaintext allows (%s)", j.cf.Kind), wit)
				}
				appBytes += rec.Len
			}
			// at least ceil(n/2^14) application records per Write (TLS 1.3: close_notify is also type 23)
			need := 0
			for _, sz := range j.sizes {
				need += (sz + 16383) / 16384
			}
			if nApp < need {
				wit["app_records"] = nApp
				wit["needed_at_least"] = need
				c.Violation(fmt.Sprintf("fewer records than ceil(n/2^14) per write: some record carries more than 2^14 plaintext bytes (%s)", j.cf.Kind), wit)
			}
			hists[w][fmt.Sprintf("nofault:intact:%s", j.cf.Kind)]++
		default:
			// a fault was injected in or before application record k: nothing from that record on may be delivered
			if r.reached == 0 {
				hists[w][j.kind+":fault-not-reached"]++
				return
			}
			c.Distinct.Add(1)
			limit := j.limits[j.lim]
			if len(r.got) > limit {
				wit["limit"] = limit
				c.Violation(fmt.Sprintf("data from a faulted or later record was delivered (%s, %s)", j.kind, j.cf.Kind), wit)
			}
			// the reader must end with an error; a clean EOF is only acceptable when the fault merely cut off the tail
			if r.rerr == nil {
				c.Violation(fmt.Sprintf("reader returned no error after a wire fault (%s, %s)", j.kind, j.cf.Kind), wit)
			} else if errors.Is(r.rerr, io.EOF) && !j.tail {
				c.Violation(fmt.Sprintf("wire fault surfaced as clean EOF (%s, %s)", j.kind, j.cf.Kind), wit)
			}
			cls := "error"
			if errors.Is(r.rerr, io.EOF) {
				cls = "eof"
			}
			hists[w][fmt.Sprintf("%s:%s:delivered-prefix", j.kind, cls)]++
		}
		if i%1013 == 0 {
			c.Sample(wit)
		}
	})
	for _, h := range hists {
		c.Merge(h)
	}
	if !done {
		c.Incomplete("connection level: time budget reached")
	}
}

func sum(a []int) int {
	t := 0
	for _, x := range a {
		t += x
	}
	return t
}
