package main

import (
	"bytes"
	"encoding/binary"
	"errors"
	"fmt"
	"io"
	"strings"
	"sync"

	"github.com/zmap/zcrypto/tls"
	"verifmc/internal/ev"
	"verifmc/internal/tlsx"
)

type connConf struct {
	Name    string
	Key     string
	Vers    uint16
	Suite   uint16
	Kind    string // aead / cbc / stream
	MacLen  int
	Block   int // cbc block size
	NoBEAST bool
	DynOff  bool
}

func connConfs(thorough bool) []connConf {
	out := []connConf{
		{Name: "tls13-aes128gcm", Key: "p256", Vers: tls.VersionTLS13, Suite: tls.TLS_AES_128_GCM_SHA256, Kind: "aead13"},
		{Name: "tls12-ecdhe-gcm", Key: "p256", Vers: tls.VersionTLS12, Suite: tls.TLS_ECDHE_ECDSA_WITH_AES_128_GCM_SHA256, Kind: "gcm12"},
		{Name: "tls12-chacha", Key: "p256", Vers: tls.VersionTLS12, Suite: tls.TLS_ECDHE_ECDSA_WITH_CHACHA20_POLY1305, Kind: "chacha12"},
		{Name: "tls10-cbc-beast-split", Key: "p256", Vers: tls.VersionTLS10, Suite: tls.TLS_ECDHE_ECDSA_WITH_AES_128_CBC_SHA, Kind: "cbc", MacLen: 20, Block: 16},
		{Name: "tls12-cbc-sha256", Key: "rsa2048", Vers: tls.VersionTLS12, Suite: tls.TLS_RSA_WITH_AES_128_CBC_SHA256, Kind: "cbc", MacLen: 32, Block: 16},
		{Name: "tls11-rc4", Key: "rsa2048", Vers: tls.VersionTLS11, Suite: tls.TLS_RSA_WITH_RC4_128_SHA, Kind: "stream", MacLen: 20},
		{Name: "tls12-gcm-dynoff", Key: "p256", Vers: tls.VersionTLS12, Suite: tls.TLS_ECDHE_ECDSA_WITH_AES_256_GCM_SHA384, Kind: "gcm12", DynOff: true},
		{Name: "tls11-cbc-dynoff", Key: "p256", Vers: tls.VersionTLS11, Suite: tls.TLS_ECDHE_ECDSA_WITH_AES_256_CBC_SHA, Kind: "cbc", MacLen: 20, Block: 16, DynOff: true},
	}
	if thorough {
		out = append(out,
			connConf{Name: "tls13-chacha", Key: "p256", Vers: tls.VersionTLS13, Suite: tls.TLS_CHACHA20_POLY1305_SHA256, Kind: "aead13"},
			connConf{Name: "tls13-aes256gcm", Key: "p256", Vers: tls.VersionTLS13, Suite: tls.TLS_AES_256_GCM_SHA384, Kind: "aead13"},
			connConf{Name: "tls10-cbc-nobeast", Key: "p256", Vers: tls.VersionTLS10, Suite: tls.TLS_ECDHE_ECDSA_WITH_AES_128_CBC_SHA, Kind: "cbc", MacLen: 20, Block: 16, NoBEAST: true},
			connConf{Name: "tls11-3des", Key: "rsa2048", Vers: tls.VersionTLS11, Suite: tls.TLS_RSA_WITH_3DES_EDE_CBC_SHA, Kind: "cbc", MacLen: 20, Block: 8},
			connConf{Name: "tls13-gcm-dynoff", Key: "p256", Vers: tls.VersionTLS13, Suite: tls.TLS_AES_128_GCM_SHA256, Kind: "aead13", DynOff: true},
			connConf{Name: "tls12-dhe-cbc", Key: "rsa2048", Vers: tls.VersionTLS12, Suite: tls.TLS_DHE_RSA_WITH_AES_256_CBC_SHA, Kind: "cbc", MacLen: 20, Block: 16},
		)
	}
	return out
}

func (cf connConf) configs() (*tls.Config, *tls.Config) {
	id := tlsx.ServerIdentity(cf.Key)
	cc, sc := tlsx.BaseConfigs(id, "c25-"+cf.Name)
	cc.MinVersion, cc.MaxVersion = cf.Vers, cf.Vers
	sc.MinVersion, sc.MaxVersion = tls.VersionTLS10, tls.VersionTLS13
	cc.CipherSuites = []uint16{cf.Suite}
	sc.CipherSuites = []uint16{cf.Suite}
	cc.ForceSuites = true
	sc.SessionTicketsDisabled = true
	cc.DisableTLS10BEASTMitigation = cf.NoBEAST
	sc.DisableTLS10BEASTMitigation = cf.NoBEAST
	cc.DynamicRecordSizingDisabled = cf.DynOff
	sc.DynamicRecordSizingDisabled = cf.DynOff
	return cc, sc
}

// maxWire is the largest record body (bytes after the 5-byte header) that can
// carry at most 2^14 plaintext bytes under the negotiated protection.
func (cf connConf) maxWire() int {
	switch cf.Kind {
	case "aead13":
		return 16384 + 1 + 16
	case "gcm12":
		return 16384 + 8 + 16
	case "chacha12":
		return 16384 + 16
	case "stream":
		return 16384 + cf.MacLen
	case "cbc":
		n := 16384 + cf.MacLen
		n += cf.Block - n%cf.Block // 1..block padding bytes
		if cf.Vers >= tls.VersionTLS11 {
			n += cf.Block
		}
		return n
	}
	return 0
}

// maxCipher is the largest TLSCiphertext.length a receiver may accept (RFC 5246 6.2.3, RFC 8446 5.2).
func (cf connConf) maxCipher() int {
	if cf.Vers == tls.VersionTLS13 {
		return 16384 + 256
	}
	return 16384 + 2048
}

// recVers is the version field of protected records.
func (cf connConf) recVers() uint16 {
	if cf.Vers == tls.VersionTLS13 {
		return tls.VersionTLS12
	}
	return cf.Vers
}

const rbufMixed = 0 // read-buffer axis value: cycle through mixedSched (includes zero-length reads)

var mixedSched = []int{0, 1, 7, 0, 0, 3, 16384, 2, 5, 0, 70000, 1}

func rbufName(n int) string {
	if n == rbufMixed {
		return "mixed 0/1/7/0/0/3/16384/2/5/0/70000/1"
	}
	return fmt.Sprint(n)
}

type runOpts struct {
	sizes []int
	seg   int  // transport read segmentation (0 = unlimited)
	rev   bool // false: client writes, server reads; true: server writes, client reads
	rbuf  int  // length of the buffer passed to Read (rbufMixed: schedule)
	edits func() []tlsx.Edit
}

func (o runOpts) dir() tlsx.Dir {
	if o.rev {
		return tlsx.S2C
	}
	return tlsx.C2S
}

func (o runOpts) dirName() string {
	if o.rev {
		return "server writes, client reads"
	}
	return "client writes, server reads"
}

type connResult struct {
	sent     []byte // application bytes the writer passed to Write
	got      []byte // concatenation of everything the reader's Read calls delivered
	rerr     error  // final error of the reading side
	werr     error
	hsOK     bool
	panics   []string
	wire     []byte // writer -> reader stream as written by the writer
	appRecs  []tlsx.Record
	stalled  bool
	reached  int
	hsEnd    int // offset in the wire stream where post-handshake records start
	reads    int
	badRead  string // a Read call that broke the io.Reader contract (n > len(buf), n != 0 for an empty buffer)
	zeroRead int
}

// runConn: handshake, then the writer performs the writes (sizes) and closes; the reader reads until error/EOF.
func runConn(cf connConf, o runOpts) *connResult {
	r := &connResult{}
	cc, sc := cf.configs()
	var applied *int
	s := tlsx.Handshake(cc, sc, func(n *tlsx.Net) {
		if o.seg > 0 {
			n.MaxRd[tlsx.C2S], n.MaxRd[tlsx.S2C] = o.seg, o.seg
		}
		if o.edits != nil {
			applied = tlsx.InstallEdits(n, o.edits())
		}
	})
	if s.Client.Panic != "" || s.Server.Panic != "" {
		r.panics = append(r.panics, s.Client.Panic, s.Server.Panic)
	}
	r.hsOK = s.Client.OKDone && s.Server.OKDone
	r.hsEnd = len(s.Net.Stream(o.dir()))
	wr, rd := s.Client.Conn, s.Server.Conn
	if o.rev {
		wr, rd = rd, wr
	}
	if r.hsOK {
		var wg sync.WaitGroup
		wg.Add(1)
		go func() {
			defer wg.Done()
			p, msg, site := ev.Try(func() {
				sched := []int{o.rbuf}
				if o.rbuf == rbufMixed {
					sched = mixedSched
				}
				buf := make([]byte, 70000)
				for k := 0; ; k++ {
					sz := sched[k%len(sched)]
					n, err := rd.Read(buf[:sz])
					r.reads++
					if n < 0 || n > sz {
						r.badRead = fmt.Sprintf("Read(buf[:%d]) returned n=%d", sz, n)
						break
					}
					if sz == 0 {
						r.zeroRead++
					}
					r.got = append(r.got, buf[:n]...)
					if err != nil {
						r.rerr = err
						break
					}
				}
				rd.Close()
			})
			if p {
				r.panics = append(r.panics, "reader Read: "+msg+" @ "+site)
			}
		}()
		p, msg, site := ev.Try(func() {
			ctr := byte(0)
			for _, sz := range o.sizes {
				b := make([]byte, sz)
				for i := range b {
					ctr++
					b[i] = ctr ^ byte(i>>8)
				}
				r.sent = append(r.sent, b...)
				if _, err := wr.Write(b); err != nil {
					r.werr = err
					break
				}
			}
			wr.Close()
		})
		if p {
			r.panics = append(r.panics, "writer Write: "+msg+" @ "+site)
		}
		wg.Wait()
	}
	s.Close()
	r.wire = s.Net.Stream(o.dir())
	r.stalled = s.Net.Stalled
	if applied != nil {
		r.reached = *applied
	}
	for _, rec := range tlsx.ParseRecords(r.wire) {
		if rec.Off >= r.hsEnd {
			r.appRecs = append(r.appRecs, rec)
		}
	}
	return r
}

func allSizeSeqs(alpha []int, maxLen int) [][]int {
	out := [][]int{}
	var rec func(cur []int)
	rec = func(cur []int) {
		if len(cur) > 0 {
			out = append(out, append([]int(nil), cur...))
		}
		if len(cur) == maxLen {
			return
		}
		for _, a := range alpha {
			rec(append(cur, a))
		}
	}
	rec(nil)
	return out
}

func isCleanEOF(err error) bool { return err == nil || errors.Is(err, io.EOF) }

// isRecordOverflow: the receiver named the failure record_overflow (alert 22; zcrypto reports a RecordHeaderError
// "oversized record received" after sending that alert when the length field alone is beyond the limit).
func isRecordOverflow(err error) bool {
	var rh tls.RecordHeaderError
	if errors.As(err, &rh) && strings.Contains(rh.Msg, "oversized record") {
		return true
	}
	var a tls.Alert
	return errors.As(err, &a) && a == tls.AlertRecordOverflow
}

type connJob struct {
	cf     connConf
	o      runOpts
	fdesc  string
	kind   string
	lim    int  // index into limits: first post-handshake record whose data must NOT be delivered
	eofOK  bool // the fault is indistinguishable from the transport ending at a record boundary / after close_notify: a clean EOF is acceptable
	wantRO bool // the error must be record_overflow
	limits []int
	base   string
}

// faultJobs builds the fault menu over the post-handshake records of one baseline (configuration, direction, writes).
func faultJobs(c *ev.Ctx, cf connConf, rev bool, sizes []int, multi bool) []connJob {
	thorough := !c.Quick()
	dir := runOpts{rev: rev}.dir()
	bo := runOpts{sizes: sizes, rev: rev, rbuf: 70000}
	base := runConn(cf, bo)
	b2 := runConn(cf, bo)
	c.Traces.Add(2)
	if !base.hsOK || !bytes.Equal(base.got, base.sent) || !isCleanEOF(base.rerr) {
		c.Violation(fmt.Sprintf("no fault: stream not delivered intact (%s)", map[bool]string{false: "c2s", true: "s2c"}[rev]),
			map[string]any{"config": cf.Name, "protection": cf.Kind, "direction": bo.dirName(), "write_sizes": sizes, "handshake_ok": base.hsOK, "delivered": len(base.got), "sent": len(base.sent), "read_error": fmt.Sprint(base.rerr)})
		return nil
	}
	if !bytes.Equal(base.wire, b2.wire) {
		c.Broken("baseline transcript of %s (%s) is not reproducible", cf.Name, bo.dirName())
	}
	recs := base.appRecs
	with := func(rbuf int, e ...tlsx.Edit) runOpts {
		return runOpts{sizes: sizes, rev: rev, rbuf: rbuf, edits: func() []tlsx.Edit { return e }}
	}
	// limits[k] = number of plaintext bytes carried by the post-handshake records before record k,
	// measured by cutting the authentic stream exactly at the start of record k.
	limits := make([]int, len(recs)+1)
	for k := range recs {
		t := runConn(cf, with(70000, tlsx.Edit{Dir: dir, Kind: tlsx.Trunc, A: recs[k].Off}))
		limits[k] = len(t.got)
		c.Traces.Add(1)
	}
	limits[len(recs)] = len(base.sent)
	for k := 1; k <= len(recs); k++ {
		if limits[k] < limits[k-1] {
			c.Broken("non-monotone record limits for %s: %v", cf.Name, limits)
		}
	}
	if limits[0] != 0 || limits[len(recs)-1] != len(base.sent) {
		c.Broken("unexpected record limits for %s: %v (sent %d)", cf.Name, limits, len(base.sent))
	}
	bname := fmt.Sprint(sizes)
	var jobs []connJob
	add := func(kind string, lim int, eofOK bool, desc string, rbufs []int, e ...tlsx.Edit) {
		for _, rb := range rbufs {
			jobs = append(jobs, connJob{cf: cf, o: with(rb, e...), kind: kind, lim: lim, eofOK: eofOK, limits: limits, fdesc: desc, base: bname})
		}
	}
	big := []int{70000}
	all := []int{70000, 1}
	if thorough {
		big = []int{70000, 7}
		all = []int{70000, 1, 7, rbufMixed}
	}
	last := len(recs) - 1
	for ri, rec := range recs {
		// positions of single-byte modifications and of cuts inside this record
		type pos struct {
			o     int
			rbufs []int
			masks []byte
		}
		var xorAt, cutAt []pos
		both := []byte{0x01, 0x80}
		if !multi {
			for o := rec.Off; o < rec.End(); o++ {
				d := o - rec.Off
				edge := d < 16 || o >= rec.End()-8
				rb := big
				if d == 3 || d == 5 || o == rec.End()-1 {
					rb = all
				}
				switch {
				case thorough || edge:
					xorAt = append(xorAt, pos{o, rb, both})
				case d%3 == 0 && (d/3)%2 == map[bool]int{false: 0, true: 1}[rev]:
					// quick, inside the body: every 3rd byte, alternating between the two directions
					xorAt = append(xorAt, pos{o, rb, both})
				}
				switch {
				case thorough, d == 0, d == 1, d == 4, d == 5, o == rec.End()-1:
					cutAt = append(cutAt, pos{o, all, nil})
				case d%4 == 0:
					cutAt = append(cutAt, pos{o, big, nil})
				}
			}
		} else {
			// large records of a multi-record Write. quick: full menu on the first two, the last data record and
			// close_notify, header/first/middle/last byte there; the records in between get one header and one body fault.
			// thorough: the first 24 and last 16 bytes and every 512th byte of every record.
			full := ri <= 1 || ri >= last-1
			for o := rec.Off; o < rec.End(); o++ {
				d := o - rec.Off
				var sel bool
				switch {
				case thorough:
					sel = d < 24 || o >= rec.End()-16 || d%512 == 0
				case full:
					sel = d <= 5 || o == rec.End()-1 || d == 5+rec.Len/2
				default:
					sel = d == 3 || d == 5+rec.Len/2
				}
				if !sel {
					continue
				}
				m := []byte{0x01}
				if thorough || d == 3 {
					m = both
				}
				rb := big
				if full && (d == 3 || d == 5) {
					rb = all
				}
				xorAt = append(xorAt, pos{o, rb, m})
				if thorough || full || d != 3 {
					cutAt = append(cutAt, pos{o, rb, nil})
				}
			}
			if !thorough && !full {
				cutAt = append(cutAt, pos{rec.Off, big, nil})
			}
		}
		for _, x := range xorAt {
			for _, m := range x.masks {
				add("modify", ri, false, fmt.Sprintf("xor %02x at byte %d of record %d of %d (offset %d in record)", m, x.o, ri, len(recs), x.o-rec.Off), x.rbufs,
					tlsx.Edit{Dir: dir, Kind: tlsx.Xor, A: x.o, Val: m})
			}
		}
		for _, x := range cutAt {
			o := x.o
			if o == rec.Off {
				// the transport ends exactly at a record boundary without close_notify: zcrypto documents (conn.go readRecordOrCCS,
				// same as crypto/tls) that it reports io.EOF there; the statement only forbids delivering different data
				add("truncate-at-boundary", ri, true, fmt.Sprintf("truncate stream at the start of record %d of %d", ri, len(recs)), x.rbufs,
					tlsx.Edit{Dir: dir, Kind: tlsx.Trunc, A: o})
			} else {
				// a cut inside a record: the bytes of that record never arrive whole; a clean EOF here would hide a truncation
				add("truncate-mid-record", ri, false, fmt.Sprintf("truncate stream inside record %d of %d (offset %d in record)", ri, len(recs), o-rec.Off), x.rbufs,
					tlsx.Edit{Dir: dir, Kind: tlsx.Trunc, A: o})
			}
		}
		add("drop", ri, ri == last, fmt.Sprintf("drop record %d of %d", ri, len(recs)), all, tlsx.Edit{Dir: dir, Kind: tlsx.Drop, A: rec.Off, B: rec.End()})
		add("dup", ri+1, ri == last /* a copy of close_notify arrives after the stream has ended */, fmt.Sprintf("duplicate record %d of %d", ri, len(recs)), all,
			tlsx.Edit{Dir: dir, Kind: tlsx.Dup, A: rec.Off, B: rec.End()})
		if ri < last {
			nx := recs[ri+1]
			add("swap", ri, false, fmt.Sprintf("swap records %d and %d of %d", ri, ri+1, len(recs)), all, tlsx.Edit{Dir: dir, Kind: tlsx.Swap, A: rec.Off, B: rec.End(), C: nx.End()})
		}
		// a forged record whose length field is beyond what any legal record can have (garbage body of that length follows)
		if !multi || ri == 0 || ri == last {
			forged := func(n int) []byte {
				h := []byte{23, byte(cf.recVers() >> 8), byte(cf.recVers()), byte(n >> 8), byte(n)}
				body := make([]byte, n)
				for i := range body {
					body[i] = byte(i*7 + 3)
				}
				return append(h, body...)
			}
			mc := cf.maxCipher()
			for _, n := range []int{mc + 1, 0xffff} {
				jobs = append(jobs, connJob{cf: cf, o: with(70000, tlsx.Edit{Dir: dir, Kind: tlsx.Insert, A: rec.Off, Data: forged(n)}), kind: "oversize", lim: ri, wantRO: true, limits: limits, base: bname,
					fdesc: fmt.Sprintf("insert a record with length field max+%d before record %d of %d", n-mc, ri, len(recs))})
			}
			if cf.Vers != tls.VersionTLS13 && ri == 0 {
				jobs = append(jobs, connJob{cf: cf, o: with(70000, tlsx.Edit{Dir: dir, Kind: tlsx.Insert, A: rec.Off, Data: forged(16384 + 256 + 1)}), kind: "forged-legal-length", lim: ri, limits: limits, base: bname,
					fdesc: fmt.Sprintf("insert a forged record with length field 2^14+257 before record %d of %d", ri, len(recs))})
			}
			jobs = append(jobs, connJob{cf: cf, o: with(70000, tlsx.Edit{Dir: dir, Kind: tlsx.Insert, A: rec.Off, Data: forged(mc)}), kind: "forged-legal-length", lim: ri, limits: limits, base: bname,
				fdesc: fmt.Sprintf("insert a forged record with the maximal legal length field before record %d of %d", ri, len(recs))})
		}
		// pairs of faults (thorough): modify this record and drop/dup a later one
		if thorough && !multi {
			for rj := ri + 1; rj < len(recs); rj++ {
				r2 := recs[rj]
				for _, o := range []int{rec.Off + 5, rec.End() - 1} {
					add("modify", ri, false, fmt.Sprintf("xor 01 at %d in record %d AND drop record %d", o, ri, rj), big,
						tlsx.Edit{Dir: dir, Kind: tlsx.Xor, A: o, Val: 1}, tlsx.Edit{Dir: dir, Kind: tlsx.Drop, A: r2.Off, B: r2.End()})
				}
			}
		}
	}
	return jobs
}

func connLevel(c *ev.Ctx) {
	thorough := !c.Quick()
	confs := connConfs(thorough)
	alpha := []int{0, 1, 2, 16383, 16384, 16385, 40000}
	seqs := allSizeSeqs(alpha, ev.Pick(c, 2, 3))
	type rdShape struct{ seg, rbuf int }
	var shapes []rdShape
	if thorough {
		for _, sg := range []int{0, 1, 5, 1000} {
			for _, rb := range []int{70000, 16384, 7, 1, rbufMixed} {
				shapes = append(shapes, rdShape{sg, rb})
			}
		}
	} else {
		// every read-buffer size with unsegmented transport, every transport segmentation with the large buffer,
		// and the small x small corners
		shapes = []rdShape{{0, 70000}, {0, 16384}, {0, 7}, {0, 1}, {0, rbufMixed}, {1, 70000}, {1000, 70000}, {1, 7}, {1000, 1}, {1000, rbufMixed}}
	}
	// quick: sequences of two writes get every read-buffer size and every segmentation once, not their product
	twoWriteShape := map[int]bool{0: true, 1: true, 2: true, 4: true, 5: true, 6: true, 8: true}
	var jobs []connJob
	// (1) no-fault stream integrity + record size bound, both directions
	for _, cf := range confs {
		for _, rev := range []bool{false, true} {
			for _, sz := range seqs {
				for si, sh := range shapes {
					if !thorough && len(sz) > 1 && !twoWriteShape[si] {
						continue
					}
					if (sh.seg == 1 || sh.rbuf == 1) && (len(sz) > 2 || sum(sz) > 45000) {
						continue // 1-byte transport reads / 1-byte Read buffers of large streams only for short sequences
					}
					jobs = append(jobs, connJob{cf: cf, o: runOpts{sizes: sz, seg: sh.seg, rev: rev, rbuf: sh.rbuf}, kind: "nofault"})
				}
			}
		}
	}
	nNoFault := len(jobs)
	// (2) faults after the handshake, both directions: baseline A = writes {100, 300, 50} (3 single-record writes + close_notify),
	// baseline B = one write of 40000 bytes (several records, growing sizes under dynamic record sizing)
	type bspec struct {
		cf    connConf
		rev   bool
		sizes []int
		multi bool
	}
	var specs []bspec
	for _, cf := range confs {
		for _, rev := range []bool{false, true} {
			specs = append(specs, bspec{cf, rev, []int{100, 300, 50}, false}, bspec{cf, rev, []int{40000}, true})
		}
	}
	fj := make([][]connJob, len(specs))
	c.Parallel(len(specs), func(w, i int) {
		fj[i] = faultJobs(c, specs[i].cf, specs[i].rev, specs[i].sizes, specs[i].multi)
	})
	for _, f := range fj {
		jobs = append(jobs, f...)
	}
	c.Set("connection_level_cases", len(jobs))
	c.Set("connection_level_nofault_cases", nNoFault)
	hists := make([]ev.Hist, c.Workers())
	for i := range hists {
		hists[i] = ev.Hist{}
	}
	done := c.Parallel(len(jobs), func(w, i int) {
		j := jobs[i]
		r := runConn(j.cf, j.o)
		c.States.Add(1)
		c.Traces.Add(1)
		c.Transitions.Add(int64(len(tlsx.ParseRecords(r.wire)) + r.reads))
		wit := map[string]any{"config": j.cf.Name, "protection": j.cf.Kind, "direction": j.o.dirName(), "write_sizes": j.o.sizes, "transport_read_segment": j.o.seg, "read_buffer": rbufName(j.o.rbuf),
			"fault": j.fdesc, "delivered": len(r.got), "sent": len(r.sent), "read_error": fmt.Sprint(r.rerr)}
		dn := "c2s"
		if j.o.rev {
			dn = "s2c"
		}
		for _, p := range r.panics {
			if p != "" {
				c.Violation("panic in data phase: "+ev.MsgClass(p), wit)
			}
		}
		if !r.hsOK {
			c.Violation("handshake of a data-phase configuration failed", wit)
			return
		}
		if r.badRead != "" {
			wit["bad_read"] = r.badRead
			c.Violation("Read returned a byte count outside its buffer", wit)
			return
		}
		// never deliver anything that is not a prefix of what was sent
		if !bytes.HasPrefix(r.sent, r.got) {
			c.Violation(fmt.Sprintf("reader delivered bytes that differ from what was written (%s)", dn), wit)
			hists[w][j.kind+":DIFFERENT-DATA"]++
			return
		}
		switch j.kind {
		case "nofault":
			if !bytes.Equal(r.got, r.sent) || !isCleanEOF(r.rerr) || r.werr != nil {
				c.Violation(fmt.Sprintf("no fault: stream not delivered intact (%s)", dn), wit)
			}
			// record sizing
			nApp := 0
			for k, rec := range r.appRecs {
				if rec.Type == 23 {
					nApp++
				}
				if rec.Len > j.cf.maxWire() {
					wit["record_len"] = rec.Len
					wit["max_wire"] = j.cf.maxWire()
					c.Violation(fmt.Sprintf("record on the wire larger than 2^14 plaintext allows (%s)", dn), wit)
				}
				// RFC 5288 explicit nonce on the wire: the sequence number of the record (Finished was record 0 of the epoch)
				if j.cf.Kind == "gcm12" {
					var sb [8]byte
					binary.BigEndian.PutUint64(sb[:], uint64(k+1))
					if rec.Len < 8 || !bytes.Equal(rec.Payload[:8], sb[:]) {
						wit["record_index"] = k
						c.Violation(fmt.Sprintf("explicit GCM nonce on the wire is not the record sequence number (%s)", dn), wit)
					}
				}
			}
			// at least ceil(n/2^14) application records per Write (TLS 1.3: close_notify is also type 23)
			need := 0
			for _, sz := range j.o.sizes {
				need += (sz + 16383) / 16384
			}
			if nApp < need {
				wit["app_records"] = nApp
				wit["needed_at_least"] = need
				c.Violation(fmt.Sprintf("fewer records than ceil(n/2^14) per write: some record carries more than 2^14 plaintext bytes (%s)", dn), wit)
			}
			hists[w][fmt.Sprintf("nofault:intact:%s:%s", j.cf.Kind, dn)]++
			hists[w][fmt.Sprintf("nofault:intact:read-buffer=%s", strings.SplitN(rbufName(j.o.rbuf), " ", 2)[0])]++
			if r.zeroRead > 0 {
				hists[w]["nofault:zero-length-reads-interleaved"]++
			}
		default:
			// a fault was injected in or before record k: nothing from that record on may be delivered
			if r.reached == 0 {
				hists[w][j.kind+":fault-not-reached"]++
				return
			}
			c.Distinct.Add(1)
			limit := j.limits[j.lim]
			if len(r.got) > limit {
				wit["limit"] = limit
				c.Violation(fmt.Sprintf("data from a faulted or later record was delivered (%s, %s)", j.kind, j.cf.Kind), wit)
			}
			// the reader must end with an error; a clean EOF is only acceptable when the fault is a cut at a record boundary
			switch {
			case r.rerr == nil:
				c.Violation(fmt.Sprintf("reader returned no error after a wire fault (%s, %s)", j.kind, j.cf.Kind), wit)
			case errors.Is(r.rerr, io.EOF) && !j.eofOK:
				c.Violation(fmt.Sprintf("wire fault surfaced as clean EOF (%s, %s)", j.kind, j.cf.Kind), wit)
			case j.wantRO && !isRecordOverflow(r.rerr):
				c.Violation("record with a length field beyond the limit not rejected as record_overflow", wit)
			}
			cls := "error"
			if errors.Is(r.rerr, io.EOF) {
				cls = "eof"
			} else if isRecordOverflow(r.rerr) {
				cls = "record-overflow"
			} else if errors.Is(r.rerr, io.ErrUnexpectedEOF) {
				cls = "unexpected-eof"
			}
			b := "A"
			if len(j.o.sizes) == 1 {
				b = "B"
			}
			hists[w][fmt.Sprintf("%s:%s:%s:%s", j.kind, b, dn, cls)]++
		}
		if i%1013 == 0 {
			c.Sample(wit)
		}
	})
	for _, h := range hists {
		c.Merge(h)
	}
	if !done {
		c.Incomplete("connection level: time budget reached")
	}
}

func sum(a []int) int {
	t := 0
	for _, x := range a {
		t += x
	}
	return t
}
