// C28 — the client handshake log records what was actually exchanged.
//
// Engine E4 (tlsx): a real zcrypto tls.Client handshakes with a real tls.Server
// over the deterministic in-memory duplex; the captured wire transcript is
// parsed by the harness' own record/handshake parser (wire.go); the pre-master
// and master secret are recomputed from the wire and the SERVER side's keys
// (oracle2.go), TLS 1.3 traffic secrets come from tls.Config.KeyLogWriter;
// reference cryptography is in ref.go; oracle.go / oracle2.go compare every
// populated part of conn.GetHandshakeLog() (and its JSON encoding) with them,
// also for handshakes that are made to fail (alerts, refused hellos, bad
// certificates, man-in-the-middle edits).
package main

import (
	"bytes"
	"crypto/ecdsa"
	"crypto/ed25519"
	stdrsa "crypto/rsa"
	"encoding/json"
	"fmt"
	"os"
	"sort"
	"strings"
	"sync"
	"time"

	"github.com/zmap/zcrypto/tls"
	"github.com/zmap/zcrypto/x509"
	"verifmc/internal/ev"
	"verifmc/internal/fx"
	"verifmc/internal/tlsx"
)

// ---- cipher suites of the space (ids are the IANA code points) ----

type suiteInfo struct {
	ID        uint16 `json:"id"`
	Name      string `json:"name"`
	Kx        string `json:"kx"` // RSA, ECDHE_RSA, ECDHE_ECDSA, DHE_RSA, TLS13
	TLS12Only bool   `json:"tls12_only,omitempty"`
	SHA384    bool   `json:"sha384,omitempty"` // PRF / transcript hash is SHA-384
	Force     bool   `json:"force,omitempty"`  // only offered by the client with Config.ForceSuites
}

var suites = []suiteInfo{
	{0x002f, "RSA_AES128_CBC_SHA", "RSA", false, false, false},
	{0x0035, "RSA_AES256_CBC_SHA", "RSA", false, false, false},
	{0x000a, "RSA_3DES_CBC_SHA", "RSA", false, false, false},
	{0x0005, "RSA_RC4_SHA", "RSA", false, false, false},
	{0x003c, "RSA_AES128_CBC_SHA256", "RSA", true, false, false},
	{0x003d, "RSA_AES256_CBC_SHA256", "RSA", true, false, true},
	{0x009c, "RSA_AES128_GCM_SHA256", "RSA", true, false, false},
	{0x009d, "RSA_AES256_GCM_SHA384", "RSA", true, true, false},

	{0xc013, "ECDHE_RSA_AES128_CBC_SHA", "ECDHE_RSA", false, false, false},
	{0xc014, "ECDHE_RSA_AES256_CBC_SHA", "ECDHE_RSA", false, false, false},
	{0xc012, "ECDHE_RSA_3DES_CBC_SHA", "ECDHE_RSA", false, false, false},
	{0xc011, "ECDHE_RSA_RC4_SHA", "ECDHE_RSA", false, false, false},
	{0xc027, "ECDHE_RSA_AES128_CBC_SHA256", "ECDHE_RSA", true, false, false},
	{0xc02f, "ECDHE_RSA_AES128_GCM_SHA256", "ECDHE_RSA", true, false, false},
	{0xc030, "ECDHE_RSA_AES256_GCM_SHA384", "ECDHE_RSA", true, true, false},
	{0xcca8, "ECDHE_RSA_CHACHA20_POLY1305", "ECDHE_RSA", true, false, false},

	{0xc009, "ECDHE_ECDSA_AES128_CBC_SHA", "ECDHE_ECDSA", false, false, false},
	{0xc00a, "ECDHE_ECDSA_AES256_CBC_SHA", "ECDHE_ECDSA", false, false, false},
	{0xc008, "ECDHE_ECDSA_3DES_CBC_SHA", "ECDHE_ECDSA", false, false, true},
	{0xc007, "ECDHE_ECDSA_RC4_SHA", "ECDHE_ECDSA", false, false, false},
	{0xc023, "ECDHE_ECDSA_AES128_CBC_SHA256", "ECDHE_ECDSA", true, false, false},
	{0xc02b, "ECDHE_ECDSA_AES128_GCM_SHA256", "ECDHE_ECDSA", true, false, false},
	{0xc02c, "ECDHE_ECDSA_AES256_GCM_SHA384", "ECDHE_ECDSA", true, true, false},
	{0xcca9, "ECDHE_ECDSA_CHACHA20_POLY1305", "ECDHE_ECDSA", true, false, false},

	{0x0033, "DHE_RSA_AES128_CBC_SHA", "DHE_RSA", false, false, true},
	{0x0039, "DHE_RSA_AES256_CBC_SHA", "DHE_RSA", false, false, true},
	{0x0016, "DHE_RSA_3DES_CBC_SHA", "DHE_RSA", false, false, true},
	{0x0067, "DHE_RSA_AES128_CBC_SHA256", "DHE_RSA", true, false, true},
	{0x006b, "DHE_RSA_AES256_CBC_SHA256", "DHE_RSA", true, false, true},
	{0x009e, "DHE_RSA_AES128_GCM_SHA256", "DHE_RSA", true, false, true},
	{0x009f, "DHE_RSA_AES256_GCM_SHA384", "DHE_RSA", true, true, true},
	{0xccaa, "DHE_RSA_CHACHA20_POLY1305", "DHE_RSA", true, false, true},

	{0x1301, "TLS13_AES128_GCM_SHA256", "TLS13", false, false, false},
	{0x1302, "TLS13_AES256_GCM_SHA384", "TLS13", false, true, false},
	{0x1303, "TLS13_CHACHA20_POLY1305_SHA256", "TLS13", false, false, false},
}

func su0(id uint16) suiteInfo { s, _ := suiteByID(id); return s }

func suiteByID(id uint16) (suiteInfo, bool) {
	for _, s := range suites {
		if s.ID == id {
			return s, true
		}
	}
	return suiteInfo{}, false
}

// ---- configuration ----

// cfg is one point of the space; it is also the replay witness.
type cfg struct {
	Mode   string `json:"mode"`    // "std": Config-driven ClientHello, "fp": ClientFingerprintConfiguration
	Vers   uint16 `json:"version"` // negotiated version (server Min=Max)
	Suite  uint16 `json:"suite"`
	Cert   string `json:"cert_key"` // fixture name of the leaf key
	Curve  uint16 `json:"curve"`    // the group the server insists on
	HRR    bool   `json:"hello_retry,omitempty"`
	SigAlg uint16 `json:"sig_alg,omitempty"` // fp mode, TLS 1.2: the single signature algorithm offered

	SNI    bool `json:"sni"`
	ALPN   bool `json:"alpn"`
	OCSP   bool `json:"ocsp_staple"` // server has a staple
	SCT    bool `json:"sct_list"`    // server has SCTs
	Ticket bool `json:"ticket"`      // std: session cache => fresh + resumed connection; fp: session_ticket extension
	Max13  bool `json:"client_max_tls13,omitempty"`
	Chain2 bool `json:"chain2"` // server sends leaf + intermediate

	// fp mode only: which request extensions the ClientHello carries
	ReqOCSP bool `json:"req_status,omitempty"`
	ReqSCT  bool `json:"req_sct,omitempty"`
	EMS     bool `json:"ems,omitempty"`
	HB      bool `json:"heartbeat,omitempty"`
	Renego  bool `json:"renegotiation_info,omitempty"`

	// std mode only: Config.ForceSessionTicketExt (empty session_ticket extension without a session cache)
	ForceTicket bool `json:"force_ticket_ext,omitempty"`

	// mitm mode only (std client): extensions a man-in-the-middle appends to the ServerHello. The handshake
	// then fails at the Finished check; the plaintext parts of the log are compared with the delivered bytes.
	InjEMS bool `json:"inject_ems,omitempty"`
	InjHB  bool `json:"inject_heartbeat,omitempty"`
	InjUnk bool `json:"inject_unknown,omitempty"`
	// mitm: a renegotiation_info extension with a non-empty renegotiated_connection appended to the ServerHello
	InjRenego bool `json:"inject_renegotiation_info,omitempty"`
	// mitm: the last byte of the ServerKeyExchange signature is inverted in flight
	BadSig bool `json:"corrupt_skx_signature,omitempty"`
	// the ServerKeyExchange signature fault family. mitm + BadSig: which byte of the signature is inverted in flight
	// ("first", "middle", "last"; "" = last). std: "other-key" = the server signs with SrvKey, a key of the same type that is
	// not the key of its certificate (the wire is untouched). Whether the client enforces the verification of the
	// server (InsecureSkipVerify off / on) is the Enforce switch with PKI = "trusted".
	SigFault string `json:"skx_signature_fault,omitempty"`
	SrvKey   string `json:"server_signing_key,omitempty"`

	// std mode: certificate scenario ("" = chain to the client's root, valid, name srv.example;
	// "untrusted" = the client trusts another root; "expired" = leaf expired; "wrongname" = the client names
	// other.example) and whether the client enforces the verification (then it aborts) or only records it.
	PKI     string `json:"pki,omitempty"`
	Enforce bool   `json:"enforce_verification,omitempty"`

	// fp mode: the ClientHello carries an extended_random extension (draft-rescorla-tls-extended-random)
	ExtRandom bool `json:"extended_random,omitempty"`

	// alert mode (std client): a man-in-the-middle replaces the server's first flight (AlertPos 0) or everything
	// after the ServerHello record (AlertPos 1) by one plaintext alert record {AlertLevel, AlertDesc}.
	AlertPos   int   `json:"alert_position,omitempty"`
	AlertLevel uint8 `json:"alert_level,omitempty"`
	AlertDesc  uint8 `json:"alert_description,omitempty"`

	// reject mode (std client): the server refuses the ClientHello: "suite" = no common cipher suite,
	// "version-low" = the server accepts only a newer version, "version-high" = only an older one.
	Refuse string `json:"refuse,omitempty"`
}

// aborts reports whether the handshake of the case is meant to fail (the log of the failed handshake is compared).
func (c cfg) aborts() bool {
	return c.Mode == "mitm" || c.Mode == "alert" || c.Mode == "reject" || (c.PKI != "" && c.PKI != "trusted" && c.Enforce)
}

func (c cfg) key() string { b, _ := json.Marshal(c); return string(b) }

func (c cfg) String() string {
	s, _ := suiteByID(c.Suite)
	var sw []string
	for _, p := range []struct {
		on bool
		n  string
	}{{c.SNI, "sni"}, {c.ALPN, "alpn"}, {c.OCSP, "ocsp"}, {c.SCT, "sct"}, {c.Ticket, "ticket"}, {c.Max13, "max13"}, {c.Chain2, "chain2"},
		{c.ReqOCSP, "req-status"}, {c.ReqSCT, "req-sct"}, {c.EMS, "ems"}, {c.HB, "hb"}, {c.Renego, "renego"}, {c.HRR, "hrr"},
		{c.ForceTicket, "force-ticket-ext"}, {c.InjEMS, "inject-ems"}, {c.InjHB, "inject-hb"}, {c.InjUnk, "inject-unknown"},
		{c.InjRenego, "inject-renego"}, {c.BadSig, "corrupt-skx-signature"}, {c.SigFault != "", "skx-signature-fault=" + c.SigFault}, {c.SrvKey != "", "server-signs-with=" + c.SrvKey}, {c.PKI != "", "pki=" + c.PKI}, {c.Enforce, "enforce"},
		{c.ExtRandom, "extended-random"}, {c.Refuse != "", "refuse=" + c.Refuse},
		{c.Mode == "alert", fmt.Sprintf("alert(pos=%d,level=%d,desc=%d)", c.AlertPos, c.AlertLevel, c.AlertDesc)}} {
		if p.on {
			sw = append(sw, p.n)
		}
	}
	return fmt.Sprintf("%s %04x %s cert=%s curve=%d sigalg=%04x [%s]", c.Mode, c.Vers, s.Name, c.Cert, c.Curve, c.SigAlg, strings.Join(sw, ","))
}

// ---- identities ----

type ident struct {
	cert    tls.Certificate
	pool    *x509.CertPool
	pk      pubKeys
	rsaPriv *stdrsa.PrivateKey
	rootDER []byte
	// another root the server chain does not lead to (scenario "untrusted")
	otherPool *x509.CertPool
	otherDER  []byte
}

var (
	identMu sync.Mutex
	idents  = map[string]*ident{}
)

var ocspStaple = []byte("C28 pretend OCSP response: the TLS layer treats it as opaque bytes (RFC 6066 section 8)")

// two SCTs: one well-formed v1 structure (RFC 6962 3.2), one that does not parse.
func sctList() [][]byte {
	s := []byte{0}
	for i := 0; i < 32; i++ {
		s = append(s, byte(0xa0+i))
	}
	s = append(s, 0, 0, 1, 0x9b, 0x2c, 0x1f, 0x33, 0x44) // timestamp
	s = append(s, 0, 0)                                  // no extensions
	s = append(s, 4, 3, 0, 8, 0x30, 0x06, 0x02, 0x01, 0x01, 0x02, 0x01, 0x01)
	return [][]byte{s, []byte("not-an-sct")}
}

func getIdent(leafKey string, chain2 bool) *ident { return getIdentPKI(leafKey, chain2, false) }

func identOf(cf cfg) *ident { return getIdentPKI(cf.Cert, cf.Chain2, cf.PKI == "expired") }

func getIdentPKI(leafKey string, chain2 bool, expired bool) *ident {
	identMu.Lock()
	defer identMu.Unlock()
	k := fmt.Sprintf("%s/%v", leafKey, chain2)
	if expired {
		k += "/expired"
	}
	if id, ok := idents[k]; ok {
		return id
	}
	root := fx.MustMint(fx.CertSpec{CN: "c28 root", Key: "ed-c28-root", IsCA: true,
		KeyUsage: x509.KeyUsageCertSign | x509.KeyUsageDigitalSignature}, nil)
	parent := root
	id := &ident{pool: x509.NewCertPool(), rootDER: root.DER, otherPool: x509.NewCertPool()}
	id.pool.AddCert(root.X)
	other := fx.MustMint(fx.CertSpec{CN: "c28 other root", Key: "ed-c28-other-root", IsCA: true,
		KeyUsage: x509.KeyUsageCertSign | x509.KeyUsageDigitalSignature}, nil)
	id.otherPool.AddCert(other.X)
	id.otherDER = other.DER
	var inter *fx.Cert
	if chain2 {
		inter = fx.MustMint(fx.CertSpec{CN: "c28 intermediate", Key: "p256b", IsCA: true, Serial: 7,
			KeyUsage: x509.KeyUsageCertSign | x509.KeyUsageDigitalSignature}, root)
		parent = inter
	}
	spec := fx.CertSpec{CN: "srv.example " + k, Key: leafKey, DNS: []string{"srv.example"}, Serial: 2,
		EKU:      []x509.ExtKeyUsage{x509.ExtKeyUsageServerAuth},
		KeyUsage: x509.KeyUsageDigitalSignature | x509.KeyUsageKeyEncipherment}
	if expired {
		spec.NotBefore, spec.NotAfter = fx.T0.Add(-48*time.Hour), fx.T0.Add(-time.Hour)
	}
	leaf := fx.MustMint(spec, parent)
	id.cert.Certificate = [][]byte{leaf.DER}
	if inter != nil {
		id.cert.Certificate = append(id.cert.Certificate, inter.DER)
	}
	id.cert.PrivateKey = leaf.Key
	id.cert.Leaf = leaf.X
	switch {
	case strings.HasPrefix(leafKey, "rsa"):
		id.rsaPriv = fx.StdRSA(leafKey)
		id.pk.rsa = &id.rsaPriv.PublicKey
	case strings.HasPrefix(leafKey, "p"):
		id.pk.ec = &fx.EC(leafKey).PublicKey
	default:
		id.pk.ed = fx.Ed(leafKey).Public().(ed25519.PublicKey)
	}
	idents[k] = id
	return id
}

var _ = ecdsa.PublicKey{}

// rawExt is a ClientExtension of the harness: arbitrary type and payload.
type rawExt struct {
	typ  uint16
	data []byte
}

func (e *rawExt) Marshal() []byte {
	out := []byte{byte(e.typ >> 8), byte(e.typ), byte(len(e.data) >> 8), byte(len(e.data))}
	return append(out, e.data...)
}
func (e *rawExt) CheckImplemented() error         { return nil }
func (e *rawExt) WriteToConfig(*tls.Config) error { return nil }

// ---- running one case ----

type connResult struct {
	C2S, S2C   []byte
	DetS2C     []byte // the part of S2C that two runs must reproduce byte for byte
	ClientKL   string
	ServerKL   string
	Log        *tls.ServerHandshake
	ServerLog  *tls.ServerHandshake
	OK         bool
	Err        string
	Resumed    bool
	NRecords   int
	ServerALPN string
}

// build returns fresh client/server configs for a case (deterministic Rand, fixed Time).
func build(cf cfg) (cc, sc *tls.Config, id *ident, ckl, skl *bytes.Buffer) {
	id = identOf(cf)
	seed := cf.key()
	ckl, skl = &bytes.Buffer{}, &bytes.Buffer{}
	cc = &tls.Config{Rand: tlsx.NewDetRand("c-" + seed), Time: tlsx.Now, RootCAs: id.pool, KeyLogWriter: ckl}
	sc = &tls.Config{Rand: tlsx.NewDetRand("s-" + seed), Time: tlsx.Now, KeyLogWriter: skl}
	crt := id.cert
	if cf.OCSP {
		crt.OCSPStaple = ocspStaple
	}
	if cf.SCT {
		crt.SignedCertificateTimestamps = sctList()
	}
	if cf.SrvKey != "" {
		// the certificate stays, the signing key is another one of the same type
		crt.PrivateKey = fx.Signer(cf.SrvKey)
	}
	sc.Certificates = []tls.Certificate{crt}
	sc.MinVersion, sc.MaxVersion = cf.Vers, cf.Vers
	sc.NextProtos = []string{"http/1.1", "h2"}
	sc.CurvePreferences = []tls.CurveID{tls.CurveID(cf.Curve)}
	su, _ := suiteByID(cf.Suite)
	if su.Kx != "TLS13" {
		sc.CipherSuites = []uint16{cf.Suite}
	}
	if cf.SNI {
		cc.ServerName = "srv.example"
	} else {
		cc.InsecureSkipVerify = true
	}
	if cf.PKI != "" {
		// certificate scenarios: the client names a server and either enforces the verification or records it only
		cc.ServerName = "srv.example"
		cc.InsecureSkipVerify = !cf.Enforce
		switch cf.PKI {
		case "untrusted":
			cc.RootCAs = id.otherPool
		case "wrongname":
			cc.ServerName = "other.example"
		}
	}
	switch cf.Refuse {
	case "suite":
		for _, o := range suites {
			if o.ID != cf.Suite && o.Kx == su0(cf.Suite).Kx && !o.Force && !o.TLS12Only {
				sc.CipherSuites = []uint16{o.ID}
				break
			}
		}
	case "version-low":
		sc.MinVersion, sc.MaxVersion = tls.VersionTLS13, tls.VersionTLS13
	case "version-high":
		sc.MinVersion, sc.MaxVersion = tls.VersionTLS10, tls.VersionTLS10
	}
	others := []tls.CurveID{tls.X25519, tls.CurveP256, tls.CurveP384, tls.CurveP521}
	prefs := []tls.CurveID{tls.CurveID(cf.Curve)}
	for _, o := range others {
		if o != tls.CurveID(cf.Curve) {
			prefs = append(prefs, o)
		}
	}
	if cf.HRR {
		// the client's first key share is for a group the server refuses
		prefs[0], prefs[1] = prefs[1], prefs[0]
	}
	if cf.Mode != "fp" {
		cc.ForceSessionTicketExt = cf.ForceTicket
		cc.MinVersion, cc.MaxVersion = cf.Vers, cf.Vers
		if cf.Max13 {
			cc.MinVersion, cc.MaxVersion = tls.VersionTLS10, tls.VersionTLS13
		}
		cc.CipherSuites = []uint16{cf.Suite}
		cc.ForceSuites = su.Force
		cc.CurvePreferences = prefs
		if cf.ALPN {
			cc.NextProtos = []string{"h2", "http/1.1"}
		}
		if cf.Ticket {
			cc.ClientSessionCache = tls.NewLRUClientSessionCache(4)
		}
		return
	}
	// fp mode: the ClientHello is assembled from a ClientFingerprintConfiguration.
	if su.Kx == "DHE_RSA" && cf.SigAlg != 0 {
		// zcrypto's DHE server signs with SHA-256 only unless told otherwise
		sc.SignatureAndHashes = []tls.SigAndHash{{Signature: byte(cf.SigAlg), Hash: byte(cf.SigAlg >> 8)}}
	}
	cc.MinVersion = tls.VersionTLS10
	cc.ForceSuites = su.Force
	fp := &tls.ClientFingerprintConfiguration{HandshakeVersion: cf.Vers, CipherSuites: []uint16{cf.Suite}, CompressionMethods: []uint8{0}}
	add := func(e tls.ClientExtension) { fp.Extensions = append(fp.Extensions, e) }
	if cf.SNI {
		add(&tls.SNIExtension{Domains: []string{"srv.example"}})
	}
	if cf.ReqOCSP {
		add(&tls.StatusRequestExtension{})
	}
	add(&tls.SupportedCurvesExtension{Curves: []tls.CurveID{tls.CurveID(cf.Curve)}})
	add(&tls.PointFormatExtension{Formats: []uint8{0}})
	if cf.Ticket {
		add(&tls.SessionTicketExtension{})
	}
	if cf.Vers >= tls.VersionTLS12 && cf.SigAlg != 0 {
		add(&rawExt{extSigAlgs, []byte{0, 2, byte(cf.SigAlg >> 8), byte(cf.SigAlg)}})
	}
	if cf.Renego {
		add(&tls.SecureRenegotiationExtension{})
	}
	if cf.ALPN {
		add(&tls.ALPNExtension{Protocols: []string{"h2", "http/1.1"}})
	}
	if cf.EMS {
		add(&tls.ExtendedMasterSecretExtension{})
	}
	if cf.ReqSCT {
		add(&tls.SCTExtension{})
	}
	if cf.HB {
		add(&rawExt{extHeartbeat, []byte{1}})
	}
	if cf.ExtRandom {
		er := []byte{0, 32}
		for i := 0; i < 32; i++ {
			er = append(er, byte(0xe0+i))
		}
		add(&rawExt{extExtRandom, er})
	}
	cc.ClientFingerprintConfiguration = fp
	return
}

// injectedExts is the extension bytes the man-in-the-middle appends to the ServerHello.
func injectedExts(cf cfg) []byte {
	var out []byte
	if cf.InjEMS {
		out = append(out, 0x00, 0x17, 0x00, 0x00)
	}
	if cf.InjHB {
		out = append(out, 0x00, 0x0f, 0x00, 0x01, 0x01)
	}
	if cf.InjUnk {
		out = append(out, 0xfe, 0x00, 0x00, 0x03, 0xaa, 0xbb, 0xcc)
	}
	if cf.InjRenego {
		out = append(out, 0xff, 0x01, 0x00, 0x03, 0x02, 0x5a, 0xa5)
	}
	return out
}

// corruptSKXSignature inverts the last byte of the ServerKeyExchange message (the end of its signature) inside the
// plaintext handshake records of one server write. The handshake messages of the first flight are not fragmented
// across records by the server, but several messages may share a record.
func corruptSKXSignature(data []byte, where string, dhe, tls12 bool) []byte {
	out := append([]byte(nil), data...)
	off := 0
	for off+5 <= len(out) {
		rl := int(out[off+3])<<8 | int(out[off+4])
		if off+5+rl > len(out) {
			break
		}
		if out[off] == recHandshake {
			p := off + 5
			end := off + 5 + rl
			for p+4 <= end {
				ml := int(out[p+1])<<16 | int(out[p+2])<<8 | int(out[p+3])
				if p+4+ml > end {
					break
				}
				if out[p] == hsServerKeyExchange && ml > 0 {
					at := p + 4 + ml - 1
					if where == "first" || where == "middle" {
						// the signature is the last vector of the message (RFC 5246 7.4.3): located by the harness' own parser
						if sk, err := parseSKX(out[p+4:p+4+ml], dhe, tls12); err == nil && len(sk.SigBytes) > 0 {
							at = p + 4 + ml - len(sk.SigBytes)
							if where == "middle" {
								at += len(sk.SigBytes) / 2
							}
						}
					}
					out[at] ^= 0xff
					return out
				}
				p += 4 + ml
			}
		}
		off += 5 + rl
	}
	return out
}

// alertInsteadOfFlight keeps the first pos records of a server write and puts one plaintext alert record after them.
func alertInsteadOfFlight(data []byte, pos int, level, desc uint8) []byte {
	off := 0
	vers := []byte{3, 1}
	for i := 0; i < pos && off+5 <= len(data); i++ {
		rl := int(data[off+3])<<8 | int(data[off+4])
		if off+5+rl > len(data) {
			break
		}
		vers = []byte{data[off+1], data[off+2]}
		off += 5 + rl
	}
	if pos == 0 && len(data) >= 3 {
		vers = []byte{data[1], data[2]}
	}
	out := append([]byte(nil), data[:off]...)
	return append(out, recAlert, vers[0], vers[1], 0, 2, level, desc)
}

// injectsRenego: the injected block ends with the 7-byte renegotiation_info of injectedExts.
func injectsRenego(exts []byte) bool {
	return len(exts) >= 7 && bytes.Equal(exts[len(exts)-7:], []byte{0xff, 0x01, 0x00, 0x03, 0x02, 0x5a, 0xa5})
}

// injectIntoServerHello appends extensions to the ServerHello that starts the
// first server write (its own record), fixing the three enclosing lengths.
func injectIntoServerHello(data, exts []byte) []byte {
	if len(exts) == 0 || len(data) < 9 || data[0] != recHandshake || data[5] != hsServerHello {
		return data
	}
	rl := int(data[3])<<8 | int(data[4])
	ml := int(data[6])<<16 | int(data[7])<<8 | int(data[8])
	if ml+4 != rl || 5+rl > len(data) {
		return data
	}
	body := data[9 : 9+ml]
	rest := data[5+rl:]
	if len(body) < 35 {
		return data
	}
	fixed := 2 + 32 + 1 + int(body[34]) + 2 + 1
	if fixed > len(body) {
		return data
	}
	var nb []byte
	if fixed < len(body) && injectsRenego(exts) {
		// a renegotiation_info is being injected: it replaces the server's own one (an extension type
		// appears once in a hello), every other extension stays where it is
		if old, err := parseExts(body[fixed+2:]); err == nil {
			var kept []byte
			for _, e := range old {
				if e.Typ != extRenego {
					kept = append(kept, e.Raw...)
				}
			}
			nb = append([]byte(nil), body[:fixed]...)
			el := len(kept) + len(exts)
			nb = append(nb, byte(el>>8), byte(el))
			nb = append(nb, kept...)
			nb = append(nb, exts...)
		}
	}
	if nb != nil {
	} else if fixed == len(body) {
		nb = append(append([]byte(nil), body...), byte(len(exts)>>8), byte(len(exts)))
		nb = append(nb, exts...)
	} else {
		el := (int(body[fixed])<<8 | int(body[fixed+1])) + len(exts)
		nb = append([]byte(nil), body...)
		nb[fixed], nb[fixed+1] = byte(el>>8), byte(el)
		nb = append(nb, exts...)
	}
	out := []byte{recHandshake, data[1], data[2], byte((len(nb) + 4) >> 8), byte(len(nb) + 4), hsServerHello, byte(len(nb) >> 16), byte(len(nb) >> 8), byte(len(nb))}
	out = append(out, nb...)
	return append(out, rest...)
}

// runCase executes the connections of a case once: the fresh one and, with a
// session cache, the resumed one.
func runCase(cf cfg) []connResult {
	cc, sc, _, ckl, skl := build(cf)
	n := 1
	if cf.Mode == "std" && cf.Ticket {
		n = 2
	}
	var out []connResult
	for i := 0; i < n; i++ {
		ckl.Reset()
		skl.Reset()
		var delivered, firstFlight []byte
		var prep func(n *tlsx.Net)
		if cf.Mode == "mitm" || cf.Mode == "alert" {
			inj := injectedExts(cf)
			prep = func(n *tlsx.Net) {
				first := true
				n.Mitm = func(d tlsx.Dir, nth int, data []byte) [][]byte {
					if d == tlsx.S2C {
						if first {
							first = false
							if cf.Mode == "alert" {
								data = alertInsteadOfFlight(data, cf.AlertPos, cf.AlertLevel, cf.AlertDesc)
							} else {
								data = injectIntoServerHello(data, inj)
								if cf.BadSig {
									data = corruptSKXSignature(data, cf.SigFault, su0(cf.Suite).Kx == "DHE_RSA", cf.Vers >= 0x0303)
								}
							}
							firstFlight = append([]byte(nil), data...)
						} else if cf.Mode == "alert" {
							return nil // the rest of what the server says never arrives
						}
						delivered = append(delivered, data...)
					}
					return [][]byte{data}
				}
			}
		}
		s := tlsx.Handshake(cc, sc, prep)
		r := connResult{OK: s.Client.OKDone && s.Server.OKDone}
		if !r.OK {
			r.Err = fmt.Sprintf("client: %v %s / server: %v %s stalled=%v", s.Client.Err, s.Client.Panic, s.Server.Err, s.Server.Panic, s.Net.Stalled)
		}
		// transcript of the handshake proper
		r.C2S, r.S2C = s.Net.Stream(tlsx.C2S), s.Net.Stream(tlsx.S2C)
		r.DetS2C = r.S2C
		if cf.Mode == "mitm" || cf.Mode == "alert" {
			r.S2C = delivered // what the client actually received
			// The server's reaction to the client's abort (an alert) is delivered or not depending on who
			// closes first; the reproducible part of this direction is the flight that carries the ServerHello.
			r.DetS2C = firstFlight
		}
		r.ClientKL, r.ServerKL = ckl.String(), skl.String()
		r.Log = s.Client.Conn.GetHandshakeLog()
		r.ServerLog = s.Server.Conn.GetHandshakeLog()
		if r.OK {
			r.Resumed = s.Client.State.DidResume
			r.ServerALPN = s.Server.State.NegotiatedProtocol
			if cf.Vers == tls.VersionTLS13 && n == 2 {
				// TLS 1.3 tickets arrive after the handshake: one byte of application data makes the client read them.
				if _, err := s.Server.Conn.Write([]byte{'x'}); err == nil {
					b := make([]byte, 1)
					s.Client.Conn.Read(b)
				}
			}
		}
		r.NRecords = len(tlsx.ParseRecords(r.C2S)) + len(tlsx.ParseRecords(r.DetS2C))
		s.Close()
		out = append(out, r)
		if !r.OK {
			break
		}
	}
	return out
}

type caseOut struct {
	cf         cfg
	finds      []map[string]any // finding + connection index
	sigs       []string
	outcomes   map[string]int64
	evals      int64
	msgs       int64
	traces     int64
	negotiable bool
	note       string
}

// evalCase runs a case twice, requires identical transcripts and checks both connections.
func evalCase(cf cfg) (o caseOut) {
	o.cf = cf
	o.outcomes = map[string]int64{}
	a := runCase(cf)
	b := runCase(cf)
	if len(a) != len(b) {
		o.outcomes["nondeterministic:connection-count"]++
		o.sigs = append(o.sigs, "harness: two runs of one configuration differ (connection count)")
		o.finds = append(o.finds, map[string]any{"config": cf})
		return
	}
	for i := range a {
		if !bytes.Equal(a[i].C2S, b[i].C2S) || !bytes.Equal(a[i].DetS2C, b[i].DetS2C) || a[i].OK != b[i].OK {
			if os.Getenv("C28_DEBUG") != "" {
				fmt.Printf("debug nondeterminism %s\n a.c2s=%x\n b.c2s=%x\n a.s2c=%d b.s2c=%d\n a.err=%s\n b.err=%s\n", cf, a[i].C2S, b[i].C2S, len(a[i].S2C), len(b[i].S2C), a[i].Err, b[i].Err)
			}
			o.outcomes["nondeterministic:transcript"]++
			o.sigs = append(o.sigs, "harness: two runs of one configuration differ (wire transcript)")
			o.finds = append(o.finds, map[string]any{"config": cf, "connection": i})
			return
		}
		o.traces++
	}
	if cf.aborts() || (cf.SigFault != "" && !a[0].OK) {
		// (a ServerKeyExchange signed by another key: whether the client goes on is its decision; the log is compared either way)
		evalMitm(cf, &o, a[0])
		return
	}
	if !a[0].OK {
		o.outcomes["not-negotiable"]++
		o.outcomes["not-negotiable: "+ev.MsgClass(a[0].Err)]++
		o.note = a[0].Err
		return
	}
	o.negotiable = true
	id := identOf(cf)
	su, _ := suiteByID(cf.Suite)
	var prev *prevConn
	for i, r := range a {
		if !r.OK {
			o.outcomes["resumed-connection-failed"]++
			o.note = r.Err
			break
		}
		w, err := parseWire(r.C2S, r.S2C)
		if err != nil {
			o.outcomes["harness:wire-unparsed"]++
			o.note = err.Error()
			continue
		}
		o.msgs += int64(len(w.C2S)+len(w.S2C)) + int64(r.NRecords)
		if w.TLS13 {
			o.msgs += open13Flights(w, r.ClientKL, r.ServerKL, o.outcomes, false)
		}
		ctx := &connCtx{W: w, Log: r.Log, ClientKL: r.ClientKL, ServerKL: r.ServerKL, PK: id.pk, RSAPriv: id.rsaPriv,
			Suite: su, Prev: prev, ServerLog: r.ServerLog, SrvALPN: r.ServerALPN}
		ctx.Roots, ctx.VerifyName = trustOf(cf, id)
		t := check(ctx)
		o.evals += t.evals
		for k, v := range t.outcomes {
			o.outcomes[k] += v
		}
		kind := "fresh"
		if r.Resumed {
			kind = "resumed"
		}
		if cf.SigFault != "" {
			kind = "skx-signed-by-another-key(InsecureSkipVerify=" + fmt.Sprint(!cf.Enforce) + "):completed"
		}
		vn := map[uint16]string{0x0301: "1.0", 0x0302: "1.1", 0x0303: "1.2", 0x0304: "1.3"}[w.Vers]
		o.outcomes["connection:"+kind+":TLS"+vn+":"+su.Kx]++
		if len(t.finds) == 0 {
			o.outcomes["log-equals-wire"]++
		} else {
			o.outcomes["log-differs-from-wire"]++
		}
		for _, f := range t.finds {
			o.sigs = append(o.sigs, f.Sig)
			o.finds = append(o.finds, map[string]any{"config": cf, "config_text": cf.String(), "connection": i, "connection_kind": kind, "detail": f.Detail})
		}
		// what a later resumed connection inherits: the master secret of the full handshake (the independently
		// recomputed one where check derived it, else the key log's)
		if !w.TLS13 {
			if t.master != nil && !w.Resumed {
				prev = &prevConn{Master: t.master, NST: w.NST}
			} else if m, ok := keylogLookup(r.ClientKL, "CLIENT_RANDOM", w.CH.Random); ok && !w.Resumed {
				prev = &prevConn{Master: m, NST: w.NST}
			} else if prev != nil && w.NST != nil {
				prev = &prevConn{Master: prev.Master, NST: w.NST}
			}
		}
	}
	return
}

// trustOf returns what the client of a case verifies the server certificates against.
func trustOf(cf cfg, id *ident) (roots [][]byte, name string) {
	roots = [][]byte{id.rootDER}
	if cf.PKI == "untrusted" {
		roots = [][]byte{id.otherDER}
	}
	if cf.Mode == "fp" {
		// a fingerprinted ClientHello carries its own SNI; Config.ServerName is what the verification uses
		if cf.SNI {
			name = "srv.example"
		}
		return
	}
	if cf.SNI || cf.PKI != "" {
		name = "srv.example"
	}
	if cf.PKI == "wrongname" {
		name = "other.example"
	}
	return
}

// open13Flights opens the protected TLS 1.3 records of both directions with the handshake traffic secrets of the key
// logs (the client's first: it is what the client under test used; the server's as a fallback for a transcript a
// man-in-the-middle split) and files what they carry: EncryptedExtensions, Certificate, Finished, alerts.
func open13Flights(w *wire, clientKL, serverKL string, outcomes map[string]int64, aborted bool) (nmsgs int64) {
	try := func(label string, recs []tlsx.Record, dir string) ([]hsMsg, bool) {
		if len(recs) == 0 {
			return nil, true
		}
		for _, kl := range []string{clientKL, serverKL} {
			sec, ok := keylogLookup(kl, label, w.CH.Random)
			if !ok && len(w.CHs) > 1 {
				sec, ok = keylogLookup(kl, label, w.CHs[len(w.CHs)-1].Random)
			}
			if !ok {
				continue
			}
			msgs, alerts, n, err := open13(w.SH.Suite, sec, recs)
			if n == 0 {
				continue
			}
			for _, a := range alerts {
				a.Dir = dir
				w.Alerts = append(w.Alerts, a)
			}
			if err != nil {
				return nil, false
			}
			return msgs, true
		}
		w.Unopened += len(recs)
		return nil, false
	}
	if msgs, ok := try("SERVER_HANDSHAKE_TRAFFIC_SECRET", w.EncS2C, "s2c"); ok && len(msgs) > 0 {
		w.EEok = true
		nmsgs += int64(len(msgs))
		for _, m := range msgs {
			switch m.Typ {
			case hsEncryptedExts:
				rr := rd{b: m.Body}
				if exts, err := parseExts(rr.vec16()); err == nil {
					if e, ok := findExt(exts, extALPN); ok {
						if p, ok := decALPN(e.Data); ok && len(p) == 1 {
							w.EEALPN = p[0]
						}
					}
				}
			case hsCertificate:
				w.HasCrt = true
				w.Certs, _ = parseCertificate13(m.Body)
			case hsFinished:
				w.Fin13S = m.Body
			}
		}
		outcomes["tls13-server-flight-decrypted"]++
	} else if len(w.EncS2C) > 0 {
		if aborted {
			outcomes["tls13-server-flight-not-opened (aborted handshake)"]++
		} else {
			outcomes["harness:tls13-flight-not-opened"]++
		}
	}
	if msgs, ok := try("CLIENT_HANDSHAKE_TRAFFIC_SECRET", w.EncC2S, "c2s"); ok {
		nmsgs += int64(len(msgs))
		for _, m := range msgs {
			if m.Typ == hsFinished {
				w.Fin13C = m.Body
			}
		}
		if len(w.EncC2S) > 0 {
			outcomes["tls13-client-flight-decrypted"]++
		}
	} else if len(w.EncC2S) > 0 {
		outcomes["tls13-client-flight-not-opened"]++
	}
	return
}

// evalMitm compares the log of a handshake that is meant to fail (man-in-the-middle edits, refusals, enforced
// verification of a bad certificate): the plaintext parts, the certificate validation and the alert.
func evalMitm(cf cfg, o *caseOut, r connResult) {
	kindName := map[string]string{"mitm": "mitm-extended-ServerHello", "alert": "mitm-alert", "reject": "server-refuses"}[cf.Mode]
	if kindName == "" {
		kindName = "client-rejects-certificate"
	}
	if cf.BadSig {
		kindName = "mitm-corrupt-skx-signature"
	}
	if cf.SigFault != "" {
		vf := "verification-enforced"
		if !cf.Enforce {
			vf = "InsecureSkipVerify"
		}
		if cf.BadSig {
			kindName = "mitm-corrupt-skx-signature(" + cf.SigFault + " byte," + vf + ")"
		} else {
			kindName = "skx-signed-by-another-key(" + vf + "):aborted"
		}
	}
	if r.OK {
		o.outcomes["aborting-scenario:handshake-unexpectedly-completed"]++
	}
	w, err := parseWire(r.C2S, r.S2C)
	if err != nil {
		o.outcomes["harness:wire-unparsed"]++
		o.note = err.Error()
		return
	}
	o.negotiable = true
	o.note = r.Err
	o.msgs += int64(len(w.C2S)+len(w.S2C)) + int64(r.NRecords)
	id := identOf(cf)
	su, _ := suiteByID(cf.Suite)
	if w.TLS13 {
		o.msgs += open13Flights(w, r.ClientKL, r.ServerKL, o.outcomes, true)
	}
	ctx := &connCtx{W: w, Log: r.Log, PK: id.pk, RSAPriv: id.rsaPriv, Suite: su, PlainOnly: true}
	ctx.Roots, ctx.VerifyName = trustOf(cf, id)
	t := check(ctx)
	o.evals += t.evals
	for k, v := range t.outcomes {
		o.outcomes[k] += v
	}
	vn := map[uint16]string{0: "none", 0x0301: "1.0", 0x0302: "1.1", 0x0303: "1.2", 0x0304: "1.3"}[w.Vers]
	o.outcomes["connection:"+kindName+":TLS"+vn+":"+su.Kx]++
	if len(t.finds) == 0 {
		o.outcomes["log-equals-wire"]++
	} else {
		o.outcomes["log-differs-from-wire"]++
	}
	for _, f := range t.finds {
		o.sigs = append(o.sigs, f.Sig)
		o.finds = append(o.finds, map[string]any{"config": cf, "config_text": cf.String(), "connection": 0, "connection_kind": kindName, "detail": f.Detail})
	}
}

// ---- the space ----

// oaRows returns on/off assignments for k binary factors: every combination
// (full) or a strength-2 orthogonal array (every pair of factors takes all four
// value combinations) plus the all-on row.
func oaRows(k int, full bool) [][]bool {
	var rows [][]bool
	if full {
		for r := 0; r < 1<<k; r++ {
			row := make([]bool, k)
			for c := 0; c < k; c++ {
				row[c] = r>>c&1 == 1
			}
			rows = append(rows, row)
		}
		return rows
	}
	n := 1
	for n <= k {
		n <<= 1
	}
	for r := 0; r < n; r++ {
		row := make([]bool, k)
		for c := 1; c <= k; c++ {
			x := r & c
			p := 0
			for x != 0 {
				p ^= x & 1
				x >>= 1
			}
			row[c-1] = p == 1
		}
		rows = append(rows, row)
	}
	all := make([]bool, k)
	for i := range all {
		all[i] = true
	}
	return append(rows, all)
}

func space(thorough bool) []cfg {
	var out []cfg
	seen := map[string]bool{}
	add := func(c cfg) {
		if c.Vers == 0x0304 {
			c.Max13 = false
		}
		if k := c.key(); !seen[k] {
			seen[k] = true
			out = append(out, c)
		}
	}
	stdRows := oaRows(8, thorough)
	expandStd := func(b cfg) {
		b.Mode = "std"
		for _, r := range stdRows {
			c := b
			c.SNI, c.ALPN, c.OCSP, c.SCT, c.Ticket, c.Max13, c.Chain2, c.ForceTicket = r[0], r[1], r[2], r[3], r[4], r[5], r[6], r[7]
			add(c)
		}
	}
	// 12 switches of the fingerprinted ClientHello; the full product (thorough) covers the first 11, the
	// extended_random switch rides on the orthogonal array in both tiers
	fpRowsOA := oaRows(12, false)
	fpRowsFull := fpRowsOA
	if thorough {
		fpRowsFull = nil
		for _, r := range oaRows(11, true) {
			fpRowsFull = append(fpRowsFull, append(append([]bool(nil), r...), false))
		}
		fpRowsFull = append(fpRowsFull, fpRowsOA...)
	}
	expandFpRows := func(b cfg, rows [][]bool) {
		b.Mode = "fp"
		for _, r := range rows {
			c := b
			c.SNI, c.ALPN, c.OCSP, c.SCT, c.Ticket, c.Chain2 = r[0], r[1], r[2], r[3], r[4], r[5]
			c.ReqOCSP, c.ReqSCT, c.EMS, c.HB, c.Renego, c.ExtRandom = r[6], r[7], r[8], r[9], r[10], r[11]
			add(c)
		}
	}
	expandFp := func(b cfg) { expandFpRows(b, fpRowsFull) }
	defCert := map[string]string{"RSA": "rsa2048", "ECDHE_RSA": "rsa2048", "DHE_RSA": "rsa2048", "ECDHE_ECDSA": "p256"}
	defSuite := map[string]uint16{"RSA": 0x002f, "ECDHE_RSA": 0xc013, "ECDHE_ECDSA": 0xc009, "DHE_RSA": 0x0033}
	old := []uint16{0x0303, 0x0302, 0x0301}

	// std, TLS <= 1.2: every suite of every key-exchange class at every version it exists in
	for _, v := range old {
		for _, s := range suites {
			if s.Kx == "TLS13" || (s.TLS12Only && v != 0x0303) {
				continue
			}
			expandStd(cfg{Vers: v, Suite: s.ID, Cert: defCert[s.Kx], Curve: 29})
		}
		// every curve for the ECDHE classes
		for _, kx := range []string{"ECDHE_RSA", "ECDHE_ECDSA"} {
			for _, cu := range []uint16{23, 24, 25} {
				expandStd(cfg{Vers: v, Suite: defSuite[kx], Cert: defCert[kx], Curve: cu})
			}
		}
		// further certificate keys
		for _, ck := range []string{"p384", "p521"} {
			expandStd(cfg{Vers: v, Suite: 0xc009, Cert: ck, Curve: 23})
		}
		for _, kx := range []string{"RSA", "ECDHE_RSA", "DHE_RSA"} {
			expandStd(cfg{Vers: v, Suite: defSuite[kx], Cert: "rsa1024", Curve: 29})
			if thorough {
				expandStd(cfg{Vers: v, Suite: defSuite[kx], Cert: "rsa3072", Curve: 24})
			}
		}
	}
	for _, su := range []uint16{0xc009, 0xc02b} { // Ed25519 certificates exist from TLS 1.2 on
		expandStd(cfg{Vers: 0x0303, Suite: su, Cert: "ed-c28-leaf", Curve: 29})
	}
	// std, TLS 1.3
	for _, su := range []uint16{0x1301, 0x1302, 0x1303} {
		for _, ck := range []string{"rsa2048", "p256", "ed-c28-leaf"} {
			expandStd(cfg{Vers: 0x0304, Suite: su, Cert: ck, Curve: 29})
		}
	}
	for _, ck := range []string{"p384", "p521", "rsa1024"} {
		expandStd(cfg{Vers: 0x0304, Suite: 0x1301, Cert: ck, Curve: 29})
	}
	for _, cu := range []uint16{23, 24, 25} {
		expandStd(cfg{Vers: 0x0304, Suite: 0x1301, Cert: "p256", Curve: cu})
	}
	expandStd(cfg{Vers: 0x0304, Suite: 0x1301, Cert: "p256", Curve: 23, HRR: true})
	expandStd(cfg{Vers: 0x0304, Suite: 0x1302, Cert: "rsa2048", Curve: 24, HRR: true})

	// fp, TLS <= 1.2: every key-exchange class; at TLS 1.2 every signature algorithm the certificate key can produce
	for _, v := range old {
		for _, kx := range []string{"RSA", "ECDHE_RSA", "ECDHE_ECDSA", "DHE_RSA"} {
			b := cfg{Vers: v, Suite: defSuite[kx], Cert: defCert[kx], Curve: 23}
			if v != 0x0303 {
				expandFp(b)
				continue
			}
			var algs []uint16
			switch kx {
			case "RSA":
				algs = []uint16{0x0401}
			case "ECDHE_RSA":
				algs = []uint16{0x0401, 0x0501, 0x0601, 0x0201, 0x0804, 0x0805, 0x0806}
			case "ECDHE_ECDSA":
				algs = []uint16{0x0403, 0x0503, 0x0603, 0x0203}
			case "DHE_RSA":
				algs = []uint16{0x0401, 0x0501, 0x0601, 0x0201}
			}
			for i, a := range algs {
				b.SigAlg = a
				if i == 0 {
					expandFp(b)
				} else {
					// further signature algorithms: the switches stay on the orthogonal array in both tiers
					expandFpRows(b, fpRowsOA)
				}
			}
		}
	}
	expandFpRows(cfg{Vers: 0x0303, Suite: 0xc02b, Cert: "ed-c28-leaf", Curve: 29, SigAlg: 0x0807}, fpRowsOA)

	// mitm: every non-empty subset of {EMS, heartbeat, unknown} appended to the ServerHello, per version and class
	mitmBases := []cfg{{Vers: 0x0304, Suite: 0x1301, Cert: "p256", Curve: 29}}
	for _, v := range old {
		for _, kx := range []string{"RSA", "ECDHE_RSA", "ECDHE_ECDSA", "DHE_RSA"} {
			mitmBases = append(mitmBases, cfg{Vers: v, Suite: defSuite[kx], Cert: defCert[kx], Curve: 23})
		}
	}
	for _, b := range mitmBases {
		b.Mode, b.SNI, b.ALPN = "mitm", true, true
		for m := 1; m < 16; m++ {
			c := b
			c.InjEMS, c.InjHB, c.InjUnk, c.InjRenego = m&1 != 0, m&2 != 0, m&4 != 0, m&8 != 0
			add(c)
		}
		// the ServerKeyExchange signature fault family (nothing injected), every class with a signed ServerKeyExchange x version:
		// one signature byte (first / middle / last) inverted in flight, or the server signing with a key that is not its
		// certificate's (wire untouched) x client {enforces the verification, InsecureSkipVerify}
		if k := su0(b.Suite).Kx; k != "RSA" && k != "TLS13" {
			for _, enforce := range []bool{true, false} {
				for _, where := range []string{"first", "middle", "last"} {
					c := b
					c.BadSig, c.SigFault, c.PKI, c.Enforce = true, where, "trusted", enforce
					add(c)
				}
				c := b
				c.Mode, c.SigFault, c.PKI, c.Enforce = "std", "other-key", "trusted", enforce
				c.SrvKey = map[string]string{"rsa2048": "rsa2048b", "p256": "p256b"}[c.Cert]
				add(c)
			}
		}
	}

	// certificate scenarios (std client): {trusted, untrusted root, expired leaf, wrong name} x {recorded only,
	// enforced (the client aborts on a bad certificate)} x {leaf only, leaf + intermediate}, per version
	pkiBases := []cfg{{Vers: 0x0304, Suite: 0x1301, Cert: "p256", Curve: 29}, {Vers: 0x0303, Suite: 0x002f, Cert: "rsa2048", Curve: 29}}
	for _, v := range old {
		pkiBases = append(pkiBases, cfg{Vers: v, Suite: 0xc009, Cert: "p256", Curve: 23})
	}
	for _, b := range pkiBases {
		b.Mode, b.SNI = "std", true
		for _, pki := range []string{"trusted", "untrusted", "expired", "wrongname"} {
			for _, enforce := range []bool{false, true} {
				for _, chain2 := range []bool{false, true} {
					c := b
					c.PKI, c.Enforce, c.Chain2 = pki, enforce, chain2
					add(c)
				}
			}
		}
	}

	// alert mode: the server's answer replaced by one plaintext alert. TLS 1.2: every description at the levels
	// warning and fatal after the ServerHello and in place of it; the undefined levels 0, 3 and 255 with every
	// description (thorough) or a few (quick). TLS 1.0 / 1.3: a few descriptions at both positions.
	someDesc := []uint8{0, 10, 20, 40, 42, 70, 80, 90, 100, 255}
	alertCase := func(v uint16, pos int, level, desc uint8) {
		c := cfg{Mode: "alert", Vers: v, Suite: 0x002f, Cert: "rsa2048", Curve: 29, SNI: true, AlertPos: pos, AlertLevel: level, AlertDesc: desc}
		if v == 0x0304 {
			c.Suite, c.Cert = 0x1301, "p256"
		}
		add(c)
	}
	for d := 0; d < 256; d++ {
		for _, lv := range []uint8{1, 2} {
			alertCase(0x0303, 1, lv, uint8(d))
			alertCase(0x0303, 0, lv, uint8(d))
		}
		if thorough {
			for _, lv := range []uint8{0, 3, 255} {
				alertCase(0x0303, 1, lv, uint8(d))
			}
		}
	}
	for _, d := range someDesc {
		for _, lv := range []uint8{0, 3, 255} {
			alertCase(0x0303, 1, lv, d)
		}
		for _, v := range []uint16{0x0301, 0x0304} {
			for _, lv := range []uint8{1, 2} {
				alertCase(v, 0, lv, d)
				alertCase(v, 1, lv, d)
			}
		}
	}

	// reject mode: the server refuses the ClientHello by itself
	for _, v := range []uint16{0x0301, 0x0302, 0x0303, 0x0304} {
		b := cfg{Mode: "reject", Vers: v, Suite: 0x002f, Cert: "rsa2048", Curve: 29, SNI: true}
		if v == 0x0304 {
			b.Suite, b.Cert = 0x1301, "p256"
		}
		for _, why := range []string{"suite", "version-low", "version-high"} {
			if (why == "version-low" || why == "suite") && v == 0x0304 || why == "version-high" && v == 0x0301 {
				continue
			}
			c := b
			c.Refuse = why
			add(c)
		}
	}
	return out
}

type witness struct {
	Config     cfg            `json:"config"`
	ConfigText string         `json:"config_text"`
	Connection int            `json:"connection"`
	Kind       string         `json:"connection_kind"`
	Detail     map[string]any `json:"detail"`
}

func main() {
	ev.Main("C28", "model_checking", func(c *ev.Ctx) {
		c.Rule("every configuration of the lattice {TLS 1.0..1.3} x {every implemented suite of RSA / ECDHE-RSA / ECDHE-ECDSA / DHE-RSA / TLS 1.3} x certificate key x curve x {fresh, resumed via ticket} x extension switches (quick: strength-2 orthogonal array over the switches + all-on row; thorough: full product; fingerprinted hellos also with heartbeat / EMS / extended_random / renegotiation_info) is run twice on a real client+server pair; plus handshakes that are meant to fail and whose log is still compared: ServerHello extended in flight by every non-empty subset of {EMS, heartbeat, unknown, non-empty renegotiation_info}, the ServerKeyExchange signature fault family for every class with a signed ServerKeyExchange (ECDHE-RSA, ECDHE-ECDSA, DHE-RSA with ForceSuites) x TLS 1.0/1.1/1.2 x {first, middle, last signature byte inverted in flight; server signs with another key of the same type than its certificate's, wire untouched} x client {verification enforced, InsecureSkipVerify}: whatever ServerKeyExchange log exists afterwards equals the wire (params, complete signature bytes, signature/hash type) with valid=false and a signature_error (independent verification), and where the client carries on (DHE with InsecureSkipVerify; with the other key the handshake completes) the rest of the log is compared as for any other connection, server answer replaced by a plaintext alert (TLS 1.2: all 256 descriptions x {warning, fatal} x {instead of, after the ServerHello}; undefined levels 0/3/255; TLS 1.0 and 1.3: 10 descriptions), server refusing suite / version, and certificate scenarios {trusted, untrusted root, expired leaf, wrong name} x {recorded, enforced} x {leaf, leaf+intermediate} per version; a case is distinct by its configuration; non-trivial = log compared with the wire")
		c.Assume(
			"the wire transcript is what tlsx.Net recorded from the endpoints' Write calls (man-in-the-middle cases: what was delivered to the client)",
			"pre-master and master secret of full handshakes are recomputed without the client: RSA by decrypting the wire ClientKeyExchange with the server key; (EC)DHE from the SERVER endpoint's ephemeral private value (its own handshake log), accepted only if crypto/ecdh / math/big derive the ServerKeyExchange public value on the wire from it, combined with the client's public value on the wire; master = harness PRF (RFC 5246 8.1). Both key logs must name that master secret. Resumed connections inherit it. TLS 1.3 flights are opened with the key-log traffic secrets by the harness' own AEAD code (a wrong secret cannot open them)",
			"Finished verify_data (<= 1.2) is compared with a reference PRF over the plaintext wire messages; both peers accepted each other's Finished, so this equals the encrypted bytes on the wire; TLS 1.3 Finished (if logged) is compared with the decrypted wire message",
			"a logged field that is empty/nil is 'not populated' and is not compared; booleans are compared both ways (flag iff extension on the wire) except ClientHello.sct_enabled, which mirrors Config.SignedCertificateTimestampExt and not the wire (one-way), and secure_renegotiation, which tls_handshake.go defines as 'extension present with a non-empty renegotiated_connection' (compared both ways against exactly that)",
			"a logged SignatureAndHash matches the wire if its numeric fields equal the two wire bytes OR the names of its JSON encoding are the IANA names of those bytes",
			"the logged alert (a description; the log has no level) must be the description of an alert the client sent or was delivered; an alert on the wire with no logged alert is not a violation (populated parts only)",
			"ServerCertificates.Validation is compared with crypto/x509 (Go standard library) verifying the wire certificates under the client's roots, clock and ServerName: browser_trusted, presence of browser_error, its class (expired / unknown authority) and matches_domain",
			"the JSON encoding of the log is decoded generically and its core fields (versions, randoms, session ids, suites, compression, extension flags and identifiers, certificates raw, signature raw, Finished, master secret, ticket, alert) are compared with the wire",
			"this fork has no NPN (no field, no extension) and no ServerHello extended_random field: nothing to compare there",
		)

		if c.Replay != nil {
			var w witness
			if err := json.Unmarshal(c.Replay, &w); err != nil {
				c.Broken("bad witness: %v", err)
			}
			o := evalCase(w.Config)
			c.States.Add(1)
			c.Evaluations.Add(o.evals)
			c.Transitions.Add(o.msgs)
			for i, s := range o.sigs {
				c.Violation(s, o.finds[i])
			}
			fmt.Printf("replayed %s: %d finding(s), negotiable=%v %s\n", w.Config, len(o.sigs), o.negotiable, o.note)
			return
		}

		cases := space(!c.Quick())
		outs := make([]caseOut, len(cases))
		done := c.Parallel(len(cases), func(_, i int) {
			outs[i] = evalCase(cases[i])
		})
		if !done {
			c.Incomplete("time budget hit before every configuration of the lattice was run")
		}
		total := ev.Hist{}
		var failedStd []string
		for i := range outs {
			o := &outs[i]
			if o.outcomes == nil {
				continue // not run (budget)
			}
			c.States.Add(1)
			c.Traces.Add(o.traces)
			c.Evaluations.Add(o.evals)
			c.Transitions.Add(o.msgs)
			if o.negotiable {
				c.Distinct.Add(1)
			} else if o.cf.Mode == "std" && len(o.sigs) == 0 {
				failedStd = append(failedStd, o.cf.String()+": "+o.note)
			}
			for k, v := range o.outcomes {
				total[k] += v
				if dbg := os.Getenv("C28_DEBUG"); dbg != "" && strings.Contains(k, dbg) {
					fmt.Printf("debug %q: %s :: %s\n", k, o.cf, o.note)
				}
			}
			for j, s := range o.sigs {
				f := o.finds[j]
				w := witness{Config: o.cf, ConfigText: o.cf.String()}
				if v, ok := f["connection"].(int); ok {
					w.Connection = v
				}
				if v, ok := f["connection_kind"].(string); ok {
					w.Kind = v
				}
				if v, ok := f["detail"].(map[string]any); ok {
					w.Detail = v
				}
				c.Violation(s, w)
			}
			if c.WantSample() && o.negotiable && i%97 == 0 {
				c.Sample(map[string]any{"config": o.cf.String(), "comparisons": o.evals, "findings": len(o.sigs)})
			}
		}
		c.Merge(total)
		if total["tls13-key-material-or-ticket-logged:no-reference"] > 0 {
			c.Incomplete("the TLS 1.3 client log carries key material or a session ticket: this check has no independent reference for them and did not compare them")
		}
		if len(failedStd) > 0 {
			sort.Strings(failedStd)
			if len(failedStd) > 5 {
				failedStd = failedStd[:5]
			}
			c.Incomplete("configurations of the standard lattice did not complete their handshake and were not compared: " + strings.Join(failedStd, " | "))
		}
		c.Set("configurations", len(cases))
	})
}
