// C28 — the client handshake log records what was actually exchanged.
//
// Engine E4 (tlsx): a real zcrypto tls.Client handshakes with a real tls.Server
// over the deterministic in-memory duplex; the captured wire transcript is
// parsed by the harness' own record/handshake parser (wire.go), secrets come
// from tls.Config.KeyLogWriter, reference cryptography is in ref.go; oracle.go
// compares every populated part of conn.GetHandshakeLog() with them.
package main

import (
	"bytes"
	"crypto/ecdsa"
	"crypto/ed25519"
	stdrsa "crypto/rsa"
	"encoding/json"
	"fmt"
	"os"
	"sort"
	"strings"
	"sync"

	"github.com/zmap/zcrypto/tls"
	"github.com/zmap/zcrypto/x509"
	"verifmc/internal/ev"
	"verifmc/internal/fx"
	"verifmc/internal/tlsx"
)

// ---- cipher suites of the space (ids are the IANA code points) ----

type suiteInfo struct {
	ID        uint16 `json:"id"`
	Name      string `json:"name"`
	Kx        string `json:"kx"` // RSA, ECDHE_RSA, ECDHE_ECDSA, DHE_RSA, TLS13
	TLS12Only bool   `json:"tls12_only,omitempty"`
	SHA384    bool   `json:"sha384,omitempty"` // PRF / transcript hash is SHA-384
	Force     bool   `json:"force,omitempty"`  // only offered by the client with Config.ForceSuites
}

var suites = []suiteInfo{
	{0x002f, "RSA_AES128_CBC_SHA", "RSA", false, false, false},
	{0x0035, "RSA_AES256_CBC_SHA", "RSA", false, false, false},
	{0x000a, "RSA_3DES_CBC_SHA", "RSA", false, false, false},
	{0x0005, "RSA_RC4_SHA", "RSA", false, false, false},
	{0x003c, "RSA_AES128_CBC_SHA256", "RSA", true, false, false},
	{0x003d, "RSA_AES256_CBC_SHA256", "RSA", true, false, true},
	{0x009c, "RSA_AES128_GCM_SHA256", "RSA", true, false, false},
	{0x009d, "RSA_AES256_GCM_SHA384", "RSA", true, true, false},

	{0xc013, "ECDHE_RSA_AES128_CBC_SHA", "ECDHE_RSA", false, false, false},
	{0xc014, "ECDHE_RSA_AES256_CBC_SHA", "ECDHE_RSA", false, false, false},
	{0xc012, "ECDHE_RSA_3DES_CBC_SHA", "ECDHE_RSA", false, false, false},
	{0xc011, "ECDHE_RSA_RC4_SHA", "ECDHE_RSA", false, false, false},
	{0xc027, "ECDHE_RSA_AES128_CBC_SHA256", "ECDHE_RSA", true, false, false},
	{0xc02f, "ECDHE_RSA_AES128_GCM_SHA256", "ECDHE_RSA", true, false, false},
	{0xc030, "ECDHE_RSA_AES256_GCM_SHA384", "ECDHE_RSA", true, true, false},
	{0xcca8, "ECDHE_RSA_CHACHA20_POLY1305", "ECDHE_RSA", true, false, false},

	{0xc009, "ECDHE_ECDSA_AES128_CBC_SHA", "ECDHE_ECDSA", false, false, false},
	{0xc00a, "ECDHE_ECDSA_AES256_CBC_SHA", "ECDHE_ECDSA", false, false, false},
	{0xc008, "ECDHE_ECDSA_3DES_CBC_SHA", "ECDHE_ECDSA", false, false, true},
	{0xc007, "ECDHE_ECDSA_RC4_SHA", "ECDHE_ECDSA", false, false, false},
	{0xc023, "ECDHE_ECDSA_AES128_CBC_SHA256", "ECDHE_ECDSA", true, false, false},
	{0xc02b, "ECDHE_ECDSA_AES128_GCM_SHA256", "ECDHE_ECDSA", true, false, false},
	{0xc02c, "ECDHE_ECDSA_AES256_GCM_SHA384", "ECDHE_ECDSA", true, true, false},
	{0xcca9, "ECDHE_ECDSA_CHACHA20_POLY1305", "ECDHE_ECDSA", true, false, false},

	{0x0033, "DHE_RSA_AES128_CBC_SHA", "DHE_RSA", false, false, true},
	{0x0039, "DHE_RSA_AES256_CBC_SHA", "DHE_RSA", false, false, true},
	{0x0016, "DHE_RSA_3DES_CBC_SHA", "DHE_RSA", false, false, true},
	{0x0067, "DHE_RSA_AES128_CBC_SHA256", "DHE_RSA", true, false, true},
	{0x006b, "DHE_RSA_AES256_CBC_SHA256", "DHE_RSA", true, false, true},
	{0x009e, "DHE_RSA_AES128_GCM_SHA256", "DHE_RSA", true, false, true},
	{0x009f, "DHE_RSA_AES256_GCM_SHA384", "DHE_RSA", true, true, true},
	{0xccaa, "DHE_RSA_CHACHA20_POLY1305", "DHE_RSA", true, false, true},

	{0x1301, "TLS13_AES128_GCM_SHA256", "TLS13", false, false, false},
	{0x1302, "TLS13_AES256_GCM_SHA384", "TLS13", false, true, false},
	{0x1303, "TLS13_CHACHA20_POLY1305_SHA256", "TLS13", false, false, false},
}

func suiteByID(id uint16) (suiteInfo, bool) {
	for _, s := range suites {
		if s.ID == id {
			return s, true
		}
	}
	return suiteInfo{}, false
}

// ---- configuration ----

// cfg is one point of the space; it is also the replay witness.
type cfg struct {
	Mode   string `json:"mode"`    // "std": Config-driven ClientHello, "fp": ClientFingerprintConfiguration
	Vers   uint16 `json:"version"` // negotiated version (server Min=Max)
	Suite  uint16 `json:"suite"`
	Cert   string `json:"cert_key"` // fixture name of the leaf key
	Curve  uint16 `json:"curve"`    // the group the server insists on
	HRR    bool   `json:"hello_retry,omitempty"`
	SigAlg uint16 `json:"sig_alg,omitempty"` // fp mode, TLS 1.2: the single signature algorithm offered

	SNI    bool `json:"sni"`
	ALPN   bool `json:"alpn"`
	OCSP   bool `json:"ocsp_staple"` // server has a staple
	SCT    bool `json:"sct_list"`    // server has SCTs
	Ticket bool `json:"ticket"`      // std: session cache => fresh + resumed connection; fp: session_ticket extension
	Max13  bool `json:"client_max_tls13,omitempty"`
	Chain2 bool `json:"chain2"` // server sends leaf + intermediate

	// fp mode only: which request extensions the ClientHello carries
	ReqOCSP bool `json:"req_status,omitempty"`
	ReqSCT  bool `json:"req_sct,omitempty"`
	EMS     bool `json:"ems,omitempty"`
	HB      bool `json:"heartbeat,omitempty"`
	Renego  bool `json:"renegotiation_info,omitempty"`

	// std mode only: Config.ForceSessionTicketExt (empty session_ticket extension without a session cache)
	ForceTicket bool `json:"force_ticket_ext,omitempty"`

	// mitm mode only (std client): extensions a man-in-the-middle appends to the ServerHello. The handshake
	// then fails at the Finished check; the plaintext parts of the log are compared with the delivered bytes.
	InjEMS bool `json:"inject_ems,omitempty"`
	InjHB  bool `json:"inject_heartbeat,omitempty"`
	InjUnk bool `json:"inject_unknown,omitempty"`
}

func (c cfg) key() string { b, _ := json.Marshal(c); return string(b) }

func (c cfg) String() string {
	s, _ := suiteByID(c.Suite)
	var sw []string
	for _, p := range []struct {
		on bool
		n  string
	}{{c.SNI, "sni"}, {c.ALPN, "alpn"}, {c.OCSP, "ocsp"}, {c.SCT, "sct"}, {c.Ticket, "ticket"}, {c.Max13, "max13"}, {c.Chain2, "chain2"},
		{c.ReqOCSP, "req-status"}, {c.ReqSCT, "req-sct"}, {c.EMS, "ems"}, {c.HB, "hb"}, {c.Renego, "renego"}, {c.HRR, "hrr"},
		{c.ForceTicket, "force-ticket-ext"}, {c.InjEMS, "inject-ems"}, {c.InjHB, "inject-hb"}, {c.InjUnk, "inject-unknown"}} {
		if p.on {
			sw = append(sw, p.n)
		}
	}
	return fmt.Sprintf("%s %04x %s cert=%s curve=%d sigalg=%04x [%s]", c.Mode, c.Vers, s.Name, c.Cert, c.Curve, c.SigAlg, strings.Join(sw, ","))
}

// ---- identities ----

type ident struct {
	cert    tls.Certificate
	pool    *x509.CertPool
	pk      pubKeys
	rsaPriv *stdrsa.PrivateKey
}

var (
	identMu sync.Mutex
	idents  = map[string]*ident{}
)

var ocspStaple = []byte("C28 pretend OCSP response: the TLS layer treats it as opaque bytes (RFC 6066 section 8)")

// two SCTs: one well-formed v1 structure (RFC 6962 3.2), one that does not parse.
func sctList() [][]byte {
	s := []byte{0}
	for i := 0; i < 32; i++ {
		s = append(s, byte(0xa0+i))
	}
	s = append(s, 0, 0, 1, 0x9b, 0x2c, 0x1f, 0x33, 0x44) // timestamp
	s = append(s, 0, 0)                                  // no extensions
	s = append(s, 4, 3, 0, 8, 0x30, 0x06, 0x02, 0x01, 0x01, 0x02, 0x01, 0x01)
	return [][]byte{s, []byte("not-an-sct")}
}

func getIdent(leafKey string, chain2 bool) *ident {
	identMu.Lock()
	defer identMu.Unlock()
	k := fmt.Sprintf("%s/%v", leafKey, chain2)
	if id, ok := idents[k]; ok {
		return id
	}
	root := fx.MustMint(fx.CertSpec{CN: "c28 root", Key: "ed-c28-root", IsCA: true,
		KeyUsage: x509.KeyUsageCertSign | x509.KeyUsageDigitalSignature}, nil)
	parent := root
	id := &ident{pool: x509.NewCertPool()}
	id.pool.AddCert(root.X)
	var inter *fx.Cert
	if chain2 {
		inter = fx.MustMint(fx.CertSpec{CN: "c28 intermediate", Key: "p256b", IsCA: true, Serial: 7,
			KeyUsage: x509.KeyUsageCertSign | x509.KeyUsageDigitalSignature}, root)
		parent = inter
	}
	leaf := fx.MustMint(fx.CertSpec{CN: "srv.example " + k, Key: leafKey, DNS: []string{"srv.example"}, Serial: 2,
		EKU:      []x509.ExtKeyUsage{x509.ExtKeyUsageServerAuth},
		KeyUsage: x509.KeyUsageDigitalSignature | x509.KeyUsageKeyEncipherment}, parent)
	id.cert.Certificate = [][]byte{leaf.DER}
	if inter != nil {
		id.cert.Certificate = append(id.cert.Certificate, inter.DER)
	}
	id.cert.PrivateKey = leaf.Key
	id.cert.Leaf = leaf.X
	switch {
	case strings.HasPrefix(leafKey, "rsa"):
		id.rsaPriv = fx.StdRSA(leafKey)
		id.pk.rsa = &id.rsaPriv.PublicKey
	case strings.HasPrefix(leafKey, "p"):
		id.pk.ec = &fx.EC(leafKey).PublicKey
	default:
		id.pk.ed = fx.Ed(leafKey).Public().(ed25519.PublicKey)
	}
	idents[k] = id
	return id
}

var _ = ecdsa.PublicKey{}

// rawExt is a ClientExtension of the harness: arbitrary type and payload.
type rawExt struct {
	typ  uint16
	data []byte
}

func (e *rawExt) Marshal() []byte {
	out := []byte{byte(e.typ >> 8), byte(e.typ), byte(len(e.data) >> 8), byte(len(e.data))}
	return append(out, e.data...)
}
func (e *rawExt) CheckImplemented() error         { return nil }
func (e *rawExt) WriteToConfig(*tls.Config) error { return nil }

// ---- running one case ----

type connResult struct {
	C2S, S2C   []byte
	DetS2C     []byte // the part of S2C that two runs must reproduce byte for byte
	ClientKL   string
	ServerKL   string
	Log        *tls.ServerHandshake
	ServerLog  *tls.ServerHandshake
	OK         bool
	Err        string
	Resumed    bool
	NRecords   int
	ServerALPN string
}

// build returns fresh client/server configs for a case (deterministic Rand, fixed Time).
func build(cf cfg) (cc, sc *tls.Config, id *ident, ckl, skl *bytes.Buffer) {
	id = getIdent(cf.Cert, cf.Chain2)
	seed := cf.key()
	ckl, skl = &bytes.Buffer{}, &bytes.Buffer{}
	cc = &tls.Config{Rand: tlsx.NewDetRand("c-" + seed), Time: tlsx.Now, RootCAs: id.pool, KeyLogWriter: ckl}
	sc = &tls.Config{Rand: tlsx.NewDetRand("s-" + seed), Time: tlsx.Now, KeyLogWriter: skl}
	crt := id.cert
	if cf.OCSP {
		crt.OCSPStaple = ocspStaple
	}
	if cf.SCT {
		crt.SignedCertificateTimestamps = sctList()
	}
	sc.Certificates = []tls.Certificate{crt}
	sc.MinVersion, sc.MaxVersion = cf.Vers, cf.Vers
	sc.NextProtos = []string{"http/1.1", "h2"}
	sc.CurvePreferences = []tls.CurveID{tls.CurveID(cf.Curve)}
	su, _ := suiteByID(cf.Suite)
	if su.Kx != "TLS13" {
		sc.CipherSuites = []uint16{cf.Suite}
	}
	if cf.SNI {
		cc.ServerName = "srv.example"
	} else {
		cc.InsecureSkipVerify = true
	}
	others := []tls.CurveID{tls.X25519, tls.CurveP256, tls.CurveP384, tls.CurveP521}
	prefs := []tls.CurveID{tls.CurveID(cf.Curve)}
	for _, o := range others {
		if o != tls.CurveID(cf.Curve) {
			prefs = append(prefs, o)
		}
	}
	if cf.HRR {
		// the client's first key share is for a group the server refuses
		prefs[0], prefs[1] = prefs[1], prefs[0]
	}
	if cf.Mode != "fp" {
		cc.ForceSessionTicketExt = cf.ForceTicket
		cc.MinVersion, cc.MaxVersion = cf.Vers, cf.Vers
		if cf.Max13 {
			cc.MinVersion, cc.MaxVersion = tls.VersionTLS10, tls.VersionTLS13
		}
		cc.CipherSuites = []uint16{cf.Suite}
		cc.ForceSuites = su.Force
		cc.CurvePreferences = prefs
		if cf.ALPN {
			cc.NextProtos = []string{"h2", "http/1.1"}
		}
		if cf.Ticket {
			cc.ClientSessionCache = tls.NewLRUClientSessionCache(4)
		}
		return
	}
	// fp mode: the ClientHello is assembled from a ClientFingerprintConfiguration.
	if su.Kx == "DHE_RSA" && cf.SigAlg != 0 {
		// zcrypto's DHE server signs with SHA-256 only unless told otherwise
		sc.SignatureAndHashes = []tls.SigAndHash{{Signature: byte(cf.SigAlg), Hash: byte(cf.SigAlg >> 8)}}
	}
	cc.MinVersion = tls.VersionTLS10
	cc.ForceSuites = su.Force
	fp := &tls.ClientFingerprintConfiguration{HandshakeVersion: cf.Vers, CipherSuites: []uint16{cf.Suite}, CompressionMethods: []uint8{0}}
	add := func(e tls.ClientExtension) { fp.Extensions = append(fp.Extensions, e) }
	if cf.SNI {
		add(&tls.SNIExtension{Domains: []string{"srv.example"}})
	}
	if cf.ReqOCSP {
		add(&tls.StatusRequestExtension{})
	}
	add(&tls.SupportedCurvesExtension{Curves: []tls.CurveID{tls.CurveID(cf.Curve)}})
	add(&tls.PointFormatExtension{Formats: []uint8{0}})
	if cf.Ticket {
		add(&tls.SessionTicketExtension{})
	}
	if cf.Vers >= tls.VersionTLS12 && cf.SigAlg != 0 {
		add(&rawExt{extSigAlgs, []byte{0, 2, byte(cf.SigAlg >> 8), byte(cf.SigAlg)}})
	}
	if cf.Renego {
		add(&tls.SecureRenegotiationExtension{})
	}
	if cf.ALPN {
		add(&tls.ALPNExtension{Protocols: []string{"h2", "http/1.1"}})
	}
	if cf.EMS {
		add(&tls.ExtendedMasterSecretExtension{})
	}
	if cf.ReqSCT {
		add(&tls.SCTExtension{})
	}
	if cf.HB {
		add(&rawExt{extHeartbeat, []byte{1}})
	}
	cc.ClientFingerprintConfiguration = fp
	return
}

// injectedExts is the extension bytes the man-in-the-middle appends to the ServerHello.
func injectedExts(cf cfg) []byte {
	var out []byte
	if cf.InjEMS {
		out = append(out, 0x00, 0x17, 0x00, 0x00)
	}
	if cf.InjHB {
		out = append(out, 0x00, 0x0f, 0x00, 0x01, 0x01)
	}
	if cf.InjUnk {
		out = append(out, 0xfe, 0x00, 0x00, 0x03, 0xaa, 0xbb, 0xcc)
	}
	return out
}

// injectIntoServerHello appends extensions to the ServerHello that starts the
// first server write (its own record), fixing the three enclosing lengths.
func injectIntoServerHello(data, exts []byte) []byte {
	if len(exts) == 0 || len(data) < 9 || data[0] != recHandshake || data[5] != hsServerHello {
		return data
	}
	rl := int(data[3])<<8 | int(data[4])
	ml := int(data[6])<<16 | int(data[7])<<8 | int(data[8])
	if ml+4 != rl || 5+rl > len(data) {
		return data
	}
	body := data[9 : 9+ml]
	rest := data[5+rl:]
	if len(body) < 35 {
		return data
	}
	fixed := 2 + 32 + 1 + int(body[34]) + 2 + 1
	if fixed > len(body) {
		return data
	}
	var nb []byte
	if fixed == len(body) {
		nb = append(append([]byte(nil), body...), byte(len(exts)>>8), byte(len(exts)))
		nb = append(nb, exts...)
	} else {
		el := (int(body[fixed])<<8 | int(body[fixed+1])) + len(exts)
		nb = append([]byte(nil), body...)
		nb[fixed], nb[fixed+1] = byte(el>>8), byte(el)
		nb = append(nb, exts...)
	}
	out := []byte{recHandshake, data[1], data[2], byte((len(nb) + 4) >> 8), byte(len(nb) + 4), hsServerHello, byte(len(nb) >> 16), byte(len(nb) >> 8), byte(len(nb))}
	out = append(out, nb...)
	return append(out, rest...)
}

// runCase executes the connections of a case once: the fresh one and, with a
// session cache, the resumed one.
func runCase(cf cfg) []connResult {
	cc, sc, _, ckl, skl := build(cf)
	n := 1
	if cf.Mode == "std" && cf.Ticket {
		n = 2
	}
	var out []connResult
	for i := 0; i < n; i++ {
		ckl.Reset()
		skl.Reset()
		var delivered, firstFlight []byte
		var prep func(n *tlsx.Net)
		if cf.Mode == "mitm" {
			inj := injectedExts(cf)
			prep = func(n *tlsx.Net) {
				first := true
				n.Mitm = func(d tlsx.Dir, nth int, data []byte) [][]byte {
					if d == tlsx.S2C {
						if first {
							first = false
							data = injectIntoServerHello(data, inj)
							firstFlight = append([]byte(nil), data...)
						}
						delivered = append(delivered, data...)
					}
					return [][]byte{data}
				}
			}
		}
		s := tlsx.Handshake(cc, sc, prep)
		r := connResult{OK: s.Client.OKDone && s.Server.OKDone}
		if !r.OK {
			r.Err = fmt.Sprintf("client: %v %s / server: %v %s stalled=%v", s.Client.Err, s.Client.Panic, s.Server.Err, s.Server.Panic, s.Net.Stalled)
		}
		// transcript of the handshake proper
		r.C2S, r.S2C = s.Net.Stream(tlsx.C2S), s.Net.Stream(tlsx.S2C)
		r.DetS2C = r.S2C
		if cf.Mode == "mitm" {
			r.S2C = delivered // what the client actually received
			// The server's reaction to the client's abort (an alert) is delivered or not depending on who
			// closes first; the reproducible part of this direction is the flight that carries the ServerHello.
			r.DetS2C = firstFlight
		}
		r.ClientKL, r.ServerKL = ckl.String(), skl.String()
		r.Log = s.Client.Conn.GetHandshakeLog()
		r.ServerLog = s.Server.Conn.GetHandshakeLog()
		if r.OK {
			r.Resumed = s.Client.State.DidResume
			r.ServerALPN = s.Server.State.NegotiatedProtocol
			if cf.Vers == tls.VersionTLS13 && n == 2 {
				// TLS 1.3 tickets arrive after the handshake: one byte of application data makes the client read them.
				if _, err := s.Server.Conn.Write([]byte{'x'}); err == nil {
					b := make([]byte, 1)
					s.Client.Conn.Read(b)
				}
			}
		}
		r.NRecords = len(tlsx.ParseRecords(r.C2S)) + len(tlsx.ParseRecords(r.DetS2C))
		s.Close()
		out = append(out, r)
		if !r.OK {
			break
		}
	}
	return out
}

type caseOut struct {
	cf         cfg
	finds      []map[string]any // finding + connection index
	sigs       []string
	outcomes   map[string]int64
	evals      int64
	msgs       int64
	traces     int64
	negotiable bool
	note       string
}

// evalCase runs a case twice, requires identical transcripts and checks both connections.
func evalCase(cf cfg) (o caseOut) {
	o.cf = cf
	o.outcomes = map[string]int64{}
	a := runCase(cf)
	b := runCase(cf)
	if len(a) != len(b) {
		o.outcomes["nondeterministic:connection-count"]++
		o.sigs = append(o.sigs, "harness: two runs of one configuration differ (connection count)")
		o.finds = append(o.finds, map[string]any{"config": cf})
		return
	}
	for i := range a {
		if !bytes.Equal(a[i].C2S, b[i].C2S) || !bytes.Equal(a[i].DetS2C, b[i].DetS2C) || a[i].OK != b[i].OK {
			if os.Getenv("C28_DEBUG") != "" {
				fmt.Printf("debug nondeterminism %s\n a.c2s=%x\n b.c2s=%x\n a.s2c=%d b.s2c=%d\n a.err=%s\n b.err=%s\n", cf, a[i].C2S, b[i].C2S, len(a[i].S2C), len(b[i].S2C), a[i].Err, b[i].Err)
			}
			o.outcomes["nondeterministic:transcript"]++
			o.sigs = append(o.sigs, "harness: two runs of one configuration differ (wire transcript)")
			o.finds = append(o.finds, map[string]any{"config": cf, "connection": i})
			return
		}
		o.traces++
	}
	if cf.Mode == "mitm" {
		evalMitm(cf, &o, a[0])
		return
	}
	if !a[0].OK {
		o.outcomes["not-negotiable"]++
		o.outcomes["not-negotiable: "+ev.MsgClass(a[0].Err)]++
		o.note = a[0].Err
		return
	}
	o.negotiable = true
	id := getIdent(cf.Cert, cf.Chain2)
	su, _ := suiteByID(cf.Suite)
	var prev *prevConn
	for i, r := range a {
		if !r.OK {
			o.outcomes["resumed-connection-failed"]++
			o.note = r.Err
			break
		}
		w, err := parseWire(r.C2S, r.S2C)
		if err != nil {
			o.outcomes["harness:wire-unparsed"]++
			o.note = err.Error()
			continue
		}
		o.msgs += int64(len(w.C2S)+len(w.S2C)) + int64(r.NRecords)
		if w.TLS13 {
			if sec, ok := keylogLookup(r.ClientKL, "SERVER_HANDSHAKE_TRAFFIC_SECRET", w.CH.Random); ok {
				msgs, _, err := open13(w.SH.Suite, sec, w.EncS2C)
				if err == nil && len(msgs) > 0 {
					w.EEok = true
					o.msgs += int64(len(msgs))
					for _, m := range msgs {
						switch m.Typ {
						case hsEncryptedExts:
							rr := rd{b: m.Body}
							if exts, err := parseExts(rr.vec16()); err == nil {
								if e, ok := findExt(exts, extALPN); ok {
									if p, ok := decALPN(e.Data); ok && len(p) == 1 {
										w.EEALPN = p[0]
									}
								}
							}
						case hsCertificate:
							w.HasCrt = true
							w.Certs, _ = parseCertificate13(m.Body)
						}
					}
					o.outcomes["tls13-server-flight-decrypted"]++
				} else {
					o.outcomes["harness:tls13-flight-not-opened"]++
				}
			} else {
				o.outcomes["harness:tls13-keylog-missing"]++
			}
		}
		ctx := &connCtx{W: w, Log: r.Log, ClientKL: r.ClientKL, ServerKL: r.ServerKL, PK: id.pk, RSAPriv: id.rsaPriv,
			Suite: su, Prev: prev, ServerLog: r.ServerLog, SrvALPN: r.ServerALPN}
		t := check(ctx)
		o.evals += t.evals
		for k, v := range t.outcomes {
			o.outcomes[k] += v
		}
		kind := "fresh"
		if r.Resumed {
			kind = "resumed"
		}
		vn := map[uint16]string{0x0301: "1.0", 0x0302: "1.1", 0x0303: "1.2", 0x0304: "1.3"}[w.Vers]
		o.outcomes["connection:"+kind+":TLS"+vn+":"+su.Kx]++
		if len(t.finds) == 0 {
			o.outcomes["log-equals-wire"]++
		} else {
			o.outcomes["log-differs-from-wire"]++
		}
		for _, f := range t.finds {
			o.sigs = append(o.sigs, f.Sig)
			o.finds = append(o.finds, map[string]any{"config": cf, "config_text": cf.String(), "connection": i, "connection_kind": kind, "detail": f.Detail})
		}
		// what a later resumed connection inherits
		if !w.TLS13 {
			if m, ok := keylogLookup(r.ClientKL, "CLIENT_RANDOM", w.CH.Random); ok {
				prev = &prevConn{Master: m, NST: w.NST}
			} else if prev != nil && w.NST != nil {
				prev = &prevConn{Master: prev.Master, NST: w.NST}
			}
		}
	}
	return
}

// evalMitm compares the plaintext parts of the log of a handshake whose ServerHello was extended in flight.
func evalMitm(cf cfg, o *caseOut, r connResult) {
	if r.OK {
		o.outcomes["mitm:handshake-unexpectedly-completed"]++
	}
	w, err := parseWire(r.C2S, r.S2C)
	if err != nil {
		o.outcomes["harness:wire-unparsed"]++
		o.note = err.Error()
		return
	}
	o.negotiable = true
	o.note = r.Err
	o.msgs += int64(len(w.C2S)+len(w.S2C)) + int64(r.NRecords)
	id := getIdent(cf.Cert, cf.Chain2)
	su, _ := suiteByID(cf.Suite)
	ctx := &connCtx{W: w, Log: r.Log, PK: id.pk, RSAPriv: id.rsaPriv, Suite: su, PlainOnly: true}
	t := check(ctx)
	o.evals += t.evals
	for k, v := range t.outcomes {
		o.outcomes[k] += v
	}
	vn := map[uint16]string{0x0301: "1.0", 0x0302: "1.1", 0x0303: "1.2", 0x0304: "1.3"}[w.Vers]
	o.outcomes["connection:mitm-extended-ServerHello:TLS"+vn+":"+su.Kx]++
	if len(t.finds) == 0 {
		o.outcomes["log-equals-wire"]++
	} else {
		o.outcomes["log-differs-from-wire"]++
	}
	for _, f := range t.finds {
		o.sigs = append(o.sigs, f.Sig)
		o.finds = append(o.finds, map[string]any{"config": cf, "config_text": cf.String(), "connection": 0, "connection_kind": "mitm", "detail": f.Detail})
	}
}

// ---- the space ----

// oaRows returns on/off assignments for k binary factors: every combination
// (full) or a strength-2 orthogonal array (every pair of factors takes all four
// value combinations) plus the all-on row.
func oaRows(k int, full bool) [][]bool {
	var rows [][]bool
	if full {
		for r := 0; r < 1<<k; r++ {
			row := make([]bool, k)
			for c := 0; c < k; c++ {
				row[c] = r>>c&1 == 1
			}
			rows = append(rows, row)
		}
		return rows
	}
	n := 1
	for n <= k {
		n <<= 1
	}
	for r := 0; r < n; r++ {
		row := make([]bool, k)
		for c := 1; c <= k; c++ {
			x := r & c
			p := 0
			for x != 0 {
				p ^= x & 1
				x >>= 1
			}
			row[c-1] = p == 1
		}
		rows = append(rows, row)
	}
	all := make([]bool, k)
	for i := range all {
		all[i] = true
	}
	return append(rows, all)
}

func space(thorough bool) []cfg {
	var out []cfg
	seen := map[string]bool{}
	add := func(c cfg) {
		if c.Vers == 0x0304 {
			c.Max13 = false
		}
		if k := c.key(); !seen[k] {
			seen[k] = true
			out = append(out, c)
		}
	}
	stdRows := oaRows(8, thorough)
	expandStd := func(b cfg) {
		b.Mode = "std"
		for _, r := range stdRows {
			c := b
			c.SNI, c.ALPN, c.OCSP, c.SCT, c.Ticket, c.Max13, c.Chain2, c.ForceTicket = r[0], r[1], r[2], r[3], r[4], r[5], r[6], r[7]
			add(c)
		}
	}
	fpRowsFull, fpRowsOA := oaRows(11, thorough), oaRows(11, false)
	expandFpRows := func(b cfg, rows [][]bool) {
		b.Mode = "fp"
		for _, r := range rows {
			c := b
			c.SNI, c.ALPN, c.OCSP, c.SCT, c.Ticket, c.Chain2 = r[0], r[1], r[2], r[3], r[4], r[5]
			c.ReqOCSP, c.ReqSCT, c.EMS, c.HB, c.Renego = r[6], r[7], r[8], r[9], r[10]
			add(c)
		}
	}
	expandFp := func(b cfg) { expandFpRows(b, fpRowsFull) }
	defCert := map[string]string{"RSA": "rsa2048", "ECDHE_RSA": "rsa2048", "DHE_RSA": "rsa2048", "ECDHE_ECDSA": "p256"}
	defSuite := map[string]uint16{"RSA": 0x002f, "ECDHE_RSA": 0xc013, "ECDHE_ECDSA": 0xc009, "DHE_RSA": 0x0033}
	old := []uint16{0x0303, 0x0302, 0x0301}

	// std, TLS <= 1.2: every suite of every key-exchange class at every version it exists in
	for _, v := range old {
		for _, s := range suites {
			if s.Kx == "TLS13" || (s.TLS12Only && v != 0x0303) {
				continue
			}
			expandStd(cfg{Vers: v, Suite: s.ID, Cert: defCert[s.Kx], Curve: 29})
		}
		// every curve for the ECDHE classes
		for _, kx := range []string{"ECDHE_RSA", "ECDHE_ECDSA"} {
			for _, cu := range []uint16{23, 24, 25} {
				expandStd(cfg{Vers: v, Suite: defSuite[kx], Cert: defCert[kx], Curve: cu})
			}
		}
		// further certificate keys
		for _, ck := range []string{"p384", "p521"} {
			expandStd(cfg{Vers: v, Suite: 0xc009, Cert: ck, Curve: 23})
		}
		for _, kx := range []string{"RSA", "ECDHE_RSA", "DHE_RSA"} {
			expandStd(cfg{Vers: v, Suite: defSuite[kx], Cert: "rsa1024", Curve: 29})
			if thorough {
				expandStd(cfg{Vers: v, Suite: defSuite[kx], Cert: "rsa3072", Curve: 24})
			}
		}
	}
	for _, su := range []uint16{0xc009, 0xc02b} { // Ed25519 certificates exist from TLS 1.2 on
		expandStd(cfg{Vers: 0x0303, Suite: su, Cert: "ed-c28-leaf", Curve: 29})
	}
	// std, TLS 1.3
	for _, su := range []uint16{0x1301, 0x1302, 0x1303} {
		for _, ck := range []string{"rsa2048", "p256", "ed-c28-leaf"} {
			expandStd(cfg{Vers: 0x0304, Suite: su, Cert: ck, Curve: 29})
		}
	}
	for _, ck := range []string{"p384", "p521", "rsa1024"} {
		expandStd(cfg{Vers: 0x0304, Suite: 0x1301, Cert: ck, Curve: 29})
	}
	for _, cu := range []uint16{23, 24, 25} {
		expandStd(cfg{Vers: 0x0304, Suite: 0x1301, Cert: "p256", Curve: cu})
	}
	expandStd(cfg{Vers: 0x0304, Suite: 0x1301, Cert: "p256", Curve: 23, HRR: true})
	expandStd(cfg{Vers: 0x0304, Suite: 0x1302, Cert: "rsa2048", Curve: 24, HRR: true})

	// fp, TLS <= 1.2: every key-exchange class; at TLS 1.2 every signature algorithm the certificate key can produce
	for _, v := range old {
		for _, kx := range []string{"RSA", "ECDHE_RSA", "ECDHE_ECDSA", "DHE_RSA"} {
			b := cfg{Vers: v, Suite: defSuite[kx], Cert: defCert[kx], Curve: 23}
			if v != 0x0303 {
				expandFp(b)
				continue
			}
			var algs []uint16
			switch kx {
			case "RSA":
				algs = []uint16{0x0401}
			case "ECDHE_RSA":
				algs = []uint16{0x0401, 0x0501, 0x0601, 0x0201, 0x0804, 0x0805, 0x0806}
			case "ECDHE_ECDSA":
				algs = []uint16{0x0403, 0x0503, 0x0603, 0x0203}
			case "DHE_RSA":
				algs = []uint16{0x0401, 0x0501, 0x0601, 0x0201}
			}
			for i, a := range algs {
				b.SigAlg = a
				if i == 0 {
					expandFp(b)
				} else {
					// further signature algorithms: the switches stay on the orthogonal array in both tiers
					expandFpRows(b, fpRowsOA)
				}
			}
		}
	}
	expandFpRows(cfg{Vers: 0x0303, Suite: 0xc02b, Cert: "ed-c28-leaf", Curve: 29, SigAlg: 0x0807}, fpRowsOA)

	// mitm: every non-empty subset of {EMS, heartbeat, unknown} appended to the ServerHello, per version and class
	mitmBases := []cfg{{Vers: 0x0304, Suite: 0x1301, Cert: "p256", Curve: 29}}
	for _, v := range old {
		for _, kx := range []string{"RSA", "ECDHE_RSA", "ECDHE_ECDSA", "DHE_RSA"} {
			mitmBases = append(mitmBases, cfg{Vers: v, Suite: defSuite[kx], Cert: defCert[kx], Curve: 23})
		}
	}
	for _, b := range mitmBases {
		b.Mode, b.SNI, b.ALPN = "mitm", true, true
		for m := 1; m < 8; m++ {
			c := b
			c.InjEMS, c.InjHB, c.InjUnk = m&1 != 0, m&2 != 0, m&4 != 0
			add(c)
		}
	}
	return out
}

type witness struct {
	Config     cfg            `json:"config"`
	ConfigText string         `json:"config_text"`
	Connection int            `json:"connection"`
	Kind       string         `json:"connection_kind"`
	Detail     map[string]any `json:"detail"`
}

func main() {
	ev.Main("C28", "model_checking", func(c *ev.Ctx) {
		c.Rule("every configuration of the lattice {TLS 1.0..1.3} x {every implemented suite of RSA / ECDHE-RSA / ECDHE-ECDSA / DHE-RSA / TLS 1.3} x certificate key x curve x {fresh, resumed via ticket} x extension switches (quick: strength-2 orthogonal array over the switches + all-on row; thorough: full product) is run twice on a real client+server pair; a case is distinct by its configuration; non-trivial = handshake completed and log compared")
		c.Assume(
			"the wire transcript is what tlsx.Net recorded from the endpoints' Write calls",
			"master / traffic secrets are taken from tls.Config.KeyLogWriter of both endpoints (they must agree); TLS 1.3 server flight is opened with them by the harness' own AEAD code (a wrong secret cannot open it)",
			"Finished verify_data is compared with a reference PRF over the plaintext wire messages; both peers accepted each other's Finished, so this equals the encrypted bytes on the wire",
			"a logged field that is empty/false/nil is 'not populated' and is not compared, except fields that are always emitted and plainly mirror one wire field (version, random, suites, ServerHello session id, verify_data, signature bytes, ocsp/ticket/sct/ems presence flags)",
			"a logged SignatureAndHash matches the wire if its numeric fields equal the two wire bytes OR the names of its JSON encoding are the IANA names of those bytes",
		)

		if c.Replay != nil {
			var w witness
			if err := json.Unmarshal(c.Replay, &w); err != nil {
				c.Broken("bad witness: %v", err)
			}
			o := evalCase(w.Config)
			c.States.Add(1)
			c.Evaluations.Add(o.evals)
			c.Transitions.Add(o.msgs)
			for i, s := range o.sigs {
				c.Violation(s, o.finds[i])
			}
			fmt.Printf("replayed %s: %d finding(s), negotiable=%v %s\n", w.Config, len(o.sigs), o.negotiable, o.note)
			return
		}

		cases := space(!c.Quick())
		outs := make([]caseOut, len(cases))
		done := c.Parallel(len(cases), func(_, i int) {
			outs[i] = evalCase(cases[i])
		})
		if !done {
			c.Incomplete("time budget hit before every configuration of the lattice was run")
		}
		total := ev.Hist{}
		var failedStd []string
		for i := range outs {
			o := &outs[i]
			if o.outcomes == nil {
				continue // not run (budget)
			}
			c.States.Add(1)
			c.Traces.Add(o.traces)
			c.Evaluations.Add(o.evals)
			c.Transitions.Add(o.msgs)
			if o.negotiable {
				c.Distinct.Add(1)
			} else if o.cf.Mode == "std" && len(o.sigs) == 0 {
				failedStd = append(failedStd, o.cf.String()+": "+o.note)
			}
			for k, v := range o.outcomes {
				total[k] += v
				if dbg := os.Getenv("C28_DEBUG"); dbg != "" && strings.Contains(k, dbg) {
					fmt.Printf("debug %q: %s :: %s\n", k, o.cf, o.note)
				}
			}
			for j, s := range o.sigs {
				f := o.finds[j]
				w := witness{Config: o.cf, ConfigText: o.cf.String()}
				if v, ok := f["connection"].(int); ok {
					w.Connection = v
				}
				if v, ok := f["connection_kind"].(string); ok {
					w.Kind = v
				}
				if v, ok := f["detail"].(map[string]any); ok {
					w.Detail = v
				}
				c.Violation(s, w)
			}
			if c.WantSample() && o.negotiable && i%97 == 0 {
				c.Sample(map[string]any{"config": o.cf.String(), "comparisons": o.evals, "findings": len(o.sigs)})
			}
		}
		c.Merge(total)
		if len(failedStd) > 0 {
			sort.Strings(failedStd)
			if len(failedStd) > 5 {
				failedStd = failedStd[:5]
			}
			c.Incomplete("configurations of the standard lattice did not complete their handshake and were not compared: " + strings.Join(failedStd, " | "))
		}
		c.Set("configurations", len(cases))
	})
}
