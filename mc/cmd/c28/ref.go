package main

// Reference cryptography written from the RFCs on top of the Go standard
// library only: TLS 1.0-1.2 PRF and Finished (RFC 2246 §5, RFC 5246 §5/§7.4.9),
// TLS 1.3 record protection (RFC 8446 §5.2/§7.3) to open the encrypted server
// flight with the SERVER_HANDSHAKE_TRAFFIC_SECRET of the key log, and
// verification of the ServerKeyExchange signature (RFC 5246 §7.4.3, RFC 4492 §5.4).

import (
	"crypto"
	"crypto/aes"
	"crypto/cipher"
	"crypto/ecdh"
	"crypto/ecdsa"
	"crypto/ed25519"
	"crypto/hkdf"
	"crypto/hmac"
	"crypto/md5"
	stdrsa "crypto/rsa"
	"crypto/sha1"
	"crypto/sha256"
	"crypto/sha512"
	"encoding/hex"
	"errors"
	"fmt"
	"hash"
	"math/big"
	"strings"

	"golang.org/x/crypto/chacha20poly1305"

	"verifmc/internal/tlsx"
)

func pHash(h func() hash.Hash, secret, seed []byte, n int) []byte {
	var out []byte
	mac := hmac.New(h, secret)
	mac.Write(seed)
	a := mac.Sum(nil)
	for len(out) < n {
		mac.Reset()
		mac.Write(a)
		mac.Write(seed)
		out = mac.Sum(out)
		mac.Reset()
		mac.Write(a)
		a = mac.Sum(nil)
	}
	return out[:n]
}

// prf computes the TLS PRF for the negotiated version and suite hash.
func prf(vers uint16, sha384 bool, secret []byte, label string, seed []byte, n int) []byte {
	ls := append([]byte(label), seed...)
	if vers >= 0x0303 {
		if sha384 {
			return pHash(sha512.New384, secret, ls, n)
		}
		return pHash(sha256.New, secret, ls, n)
	}
	half := (len(secret) + 1) / 2
	s1, s2 := secret[:half], secret[len(secret)-half:]
	a := pHash(md5.New, s1, ls, n)
	b := pHash(sha1.New, s2, ls, n)
	for i := range a {
		a[i] ^= b[i]
	}
	return a
}

// transcriptHash is Hash(handshake_messages) of the Finished computation.
func transcriptHash(vers uint16, sha384 bool, msgs ...[]byte) []byte {
	if vers >= 0x0303 {
		var h hash.Hash = sha256.New()
		if sha384 {
			h = sha512.New384()
		}
		for _, m := range msgs {
			h.Write(m)
		}
		return h.Sum(nil)
	}
	m5, s1 := md5.New(), sha1.New()
	for _, m := range msgs {
		m5.Write(m)
		s1.Write(m)
	}
	return s1.Sum(m5.Sum(nil))
}

func finishedMsg(vd []byte) []byte {
	return append([]byte{hsFinished, 0, 0, byte(len(vd))}, vd...)
}

// refFinished returns the reference verify_data of both sides from the master
// secret and the plaintext handshake messages on the wire.
func refFinished(w *wire, sha384 bool, master []byte) (client, server []byte) {
	var pre [][]byte
	// wire order of a full handshake: CH, SH..SHD, client flight (CKX..), [client Finished], NST, [server Finished]
	// abbreviated:                   CH, SH, [NST], [server Finished], [client Finished]
	add := func(ms []hsMsg) {
		for _, m := range ms {
			pre = append(pre, m.Raw)
		}
	}
	if w.Resumed {
		add(w.C2S[:1])
		add(w.S2C)
		server = prf(w.Vers, sha384, master, "server finished", transcriptHash(w.Vers, sha384, pre...), 12)
		pre = append(pre, finishedMsg(server))
		client = prf(w.Vers, sha384, master, "client finished", transcriptHash(w.Vers, sha384, pre...), 12)
		return
	}
	// full: server messages up to and including ServerHelloDone come before the client's second flight.
	add(w.C2S[:1])
	i := 0
	for ; i < len(w.S2C); i++ {
		pre = append(pre, w.S2C[i].Raw)
		if w.S2C[i].Typ == hsServerHelloDone {
			i++
			break
		}
	}
	add(w.C2S[1:])
	client = prf(w.Vers, sha384, master, "client finished", transcriptHash(w.Vers, sha384, pre...), 12)
	pre = append(pre, finishedMsg(client))
	add(w.S2C[i:]) // NewSessionTicket, if any
	server = prf(w.Vers, sha384, master, "server finished", transcriptHash(w.Vers, sha384, pre...), 12)
	return
}

// ---- key log ----

// keylogLookup returns the secret of "<label> <client_random> <secret>".
func keylogLookup(log string, label string, clientRandom []byte) ([]byte, bool) {
	cr := hex.EncodeToString(clientRandom)
	for _, line := range strings.Split(log, "\n") {
		f := strings.Fields(line)
		if len(f) == 3 && f[0] == label && f[1] == cr {
			b, err := hex.DecodeString(f[2])
			if err == nil {
				return b, true
			}
		}
	}
	return nil, false
}

// ---- TLS 1.3 record layer ----

type suite13 struct {
	keyLen int
	h      func() hash.Hash
	chacha bool
}

var suites13 = map[uint16]suite13{
	0x1301: {16, sha256.New, false},
	0x1302: {32, sha512.New384, false},
	0x1303: {32, sha256.New, true},
}

func expandLabel(h func() hash.Hash, secret []byte, label string, ctx []byte, n int) []byte {
	full := "tls13 " + label
	info := []byte{byte(n >> 8), byte(n), byte(len(full))}
	info = append(info, full...)
	info = append(info, byte(len(ctx)))
	info = append(info, ctx...)
	out, err := hkdf.Expand(h, secret, string(info), n)
	if err != nil {
		panic(err)
	}
	return out
}

// open13 decrypts the protected records of one direction under a traffic
// secret, starting at sequence number 0, and returns the handshake messages of
// the records it could open (it stops at the first record that does not open:
// that one belongs to the next epoch). alerts: the alerts found inside the opened records.
func open13(suite uint16, secret []byte, recs []tlsx.Record) (msgs []hsMsg, alerts []wAlert, nOpened int, err error) {
	s, ok := suites13[suite]
	if !ok {
		return nil, nil, 0, fmt.Errorf("unknown TLS 1.3 suite %04x", suite)
	}
	key := expandLabel(s.h, secret, "key", nil, s.keyLen)
	iv := expandLabel(s.h, secret, "iv", nil, 12)
	var aead cipher.AEAD
	if s.chacha {
		aead, err = chacha20poly1305.New(key)
	} else {
		var blk cipher.Block
		if blk, err = aes.NewCipher(key); err == nil {
			aead, err = cipher.NewGCM(blk)
		}
	}
	if err != nil {
		return nil, nil, 0, err
	}
	var buf []byte
	seq := uint64(0)
	opened := 0
	for _, r := range recs {
		if r.Type != recAppData {
			break
		}
		nonce := append([]byte(nil), iv...)
		for i := 0; i < 8; i++ {
			nonce[11-i] ^= byte(seq >> (8 * i))
		}
		hdr := []byte{r.Type, byte(r.Vers >> 8), byte(r.Vers), byte(r.Len >> 8), byte(r.Len)}
		pt, err := aead.Open(nil, nonce, r.Payload, hdr)
		if err != nil {
			break
		}
		seq++
		opened++
		// strip zero padding, last non-zero byte is the content type
		i := len(pt) - 1
		for i >= 0 && pt[i] == 0 {
			i--
		}
		if i < 0 {
			return nil, alerts, opened, errors.New("TLSInnerPlaintext without content type")
		}
		if pt[i] == recHandshake {
			buf = append(buf, pt[:i]...)
		}
		if pt[i] == recAlert && i == 2 {
			alerts = append(alerts, wAlert{Level: pt[0], Desc: pt[1], Protected: true})
		}
	}
	m, err := splitMessages(buf)
	return m, alerts, opened, err
}

// ---- ServerKeyExchange signature ----

type pubKeys struct {
	rsa *stdrsa.PublicKey
	ec  *ecdsa.PublicKey
	ed  ed25519.PublicKey
}

func hashByID(id byte) (crypto.Hash, bool) {
	switch id {
	case 1:
		return crypto.MD5, true
	case 2:
		return crypto.SHA1, true
	case 3:
		return crypto.SHA224, true
	case 4:
		return crypto.SHA256, true
	case 5:
		return crypto.SHA384, true
	case 6:
		return crypto.SHA512, true
	}
	return 0, false
}

// skxSigned returns what is signed in ServerKeyExchange and the digest of it
// under the algorithm named on the wire (nil digest = signed directly).
// Returns ok=false for an algorithm this reference does not know.
func skxDigest(w *wire, s *wSKX, pk pubKeys) (signed, digest []byte, h crypto.Hash, scheme string, ok bool) {
	signed = append(append(append([]byte(nil), w.CH.Random...), w.SH.Random...), s.Params...)
	if !s.HasAlg {
		// RFC 4346 7.4.3: RSA signs MD5+SHA1, (EC)DSA signs SHA1.
		if pk.rsa != nil {
			m, sh := md5.Sum(signed), sha1.Sum(signed)
			return signed, append(m[:], sh[:]...), crypto.MD5SHA1, "rsa-md5sha1", true
		}
		if pk.ec != nil {
			sh := sha1.Sum(signed)
			return signed, sh[:], crypto.SHA1, "ecdsa-sha1", true
		}
		return signed, nil, 0, "", false
	}
	alg := uint16(s.Hash)<<8 | uint16(s.Sig)
	switch alg {
	case 0x0807:
		return signed, nil, 0, "ed25519", true
	case 0x0804, 0x0805, 0x0806:
		hh := map[uint16]crypto.Hash{0x0804: crypto.SHA256, 0x0805: crypto.SHA384, 0x0806: crypto.SHA512}[alg]
		d := hh.New()
		d.Write(signed)
		return signed, d.Sum(nil), hh, "rsa-pss", true
	}
	hh, okh := hashByID(s.Hash)
	if !okh {
		return signed, nil, 0, "", false
	}
	d := hh.New()
	d.Write(signed)
	switch s.Sig {
	case 1:
		return signed, d.Sum(nil), hh, "rsa-pkcs1", true
	case 3:
		return signed, d.Sum(nil), hh, "ecdsa", true
	}
	return signed, nil, 0, "", false
}

func verifySKX(signed, digest []byte, h crypto.Hash, scheme string, sig []byte, pk pubKeys) (valid bool, known bool) {
	switch scheme {
	case "ed25519":
		if pk.ed == nil {
			return false, true
		}
		return ed25519.Verify(pk.ed, signed, sig), true
	case "rsa-pss":
		if pk.rsa == nil {
			return false, true
		}
		return stdrsa.VerifyPSS(pk.rsa, h, digest, sig, &stdrsa.PSSOptions{SaltLength: stdrsa.PSSSaltLengthEqualsHash}) == nil, true
	case "rsa-pkcs1", "rsa-md5sha1":
		if pk.rsa == nil {
			return false, true
		}
		return stdrsa.VerifyPKCS1v15(pk.rsa, h, digest, sig) == nil, true
	case "ecdsa", "ecdsa-sha1":
		if pk.ec == nil {
			return false, true
		}
		return ecdsa.VerifyASN1(pk.ec, digest, sig), true
	}
	return false, false
}

// ---- EC helpers ----

func curveByID(id uint16) (ecdh.Curve, int) {
	switch id {
	case 23:
		return ecdh.P256(), 32
	case 24:
		return ecdh.P384(), 48
	case 25:
		return ecdh.P521(), 66
	case 29:
		return ecdh.X25519(), 32
	}
	return nil, 0
}

// pointXY splits an uncompressed SEC1 point into its coordinates.
func pointXY(id uint16, pt []byte) (x, y *big.Int, ok bool) {
	_, n := curveByID(id)
	if n == 0 {
		return nil, nil, false
	}
	if id == 29 {
		if len(pt) != 32 {
			return nil, nil, false
		}
		return new(big.Int).SetBytes(pt), nil, true
	}
	if len(pt) != 1+2*n || pt[0] != 4 {
		return nil, nil, false
	}
	return new(big.Int).SetBytes(pt[1 : 1+n]), new(big.Int).SetBytes(pt[1+n:]), true
}

// publicFromPrivate computes the public share of a private scalar with crypto/ecdh.
func publicFromPrivate(id uint16, priv []byte) ([]byte, error) {
	c, _ := curveByID(id)
	if c == nil {
		return nil, errors.New("unknown curve")
	}
	k, err := c.NewPrivateKey(priv)
	if err != nil {
		return nil, err
	}
	return k.PublicKey().Bytes(), nil
}
