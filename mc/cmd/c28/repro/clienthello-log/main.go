// Standalone reproducer for the C28 findings about the ClientHello / ServerHello part
// of the client handshake log:
//
//	cd /verif/mc && GOFLAGS=-mod=mod GOPROXY=off go run ./cmd/c28/repro/clienthello-log
//
//  1. A fingerprinted ClientHello that carries extended_master_secret (type 23),
//     extended_random (type 0x28) and heartbeat (type 15): the log says
//     extended_master_secret=false, no extended_random, heartbeat=false.
//  2. A resumed TLS 1.2 connection: the ClientHello offers the session ticket; the
//     log gives session_ticket.length = N and an EMPTY session_ticket.value.
//
// The ClientHello bytes are found by offset arithmetic in what the client wrote.
// Exit status 1 when a logged value differs from the wire.
package main

import (
	"bytes"
	"fmt"
	"net"
	"os"
	"sync"

	"github.com/zmap/zcrypto/tls"
	"verifmc/internal/tlsx"
)

type tap struct {
	net.Conn
	mu  sync.Mutex
	out []byte
}

func (t *tap) Write(p []byte) (int, error) {
	t.mu.Lock()
	t.out = append(t.out, p...)
	t.mu.Unlock()
	return t.Conn.Write(p)
}

// extensions of the ClientHello that starts the stream: type -> data
func helloExts(stream []byte) map[uint16][]byte {
	b := stream[5+4:] // record header, handshake header
	b = b[2+32:]
	b = b[1+int(b[0]):]
	b = b[2+(int(b[0])<<8|int(b[1])):]
	b = b[1+int(b[0]):]
	out := map[uint16][]byte{}
	if len(b) < 2 {
		return out
	}
	b = b[2 : 2+(int(b[0])<<8|int(b[1]))]
	for len(b) >= 4 {
		t := uint16(b[0])<<8 | uint16(b[1])
		n := int(b[2])<<8 | int(b[3])
		out[t] = b[4 : 4+n]
		b = b[4+n:]
	}
	return out
}

type raw struct {
	typ  uint16
	data []byte
}

func (e *raw) Marshal() []byte {
	return append([]byte{byte(e.typ >> 8), byte(e.typ), byte(len(e.data) >> 8), byte(len(e.data))}, e.data...)
}
func (e *raw) CheckImplemented() error         { return nil }
func (e *raw) WriteToConfig(*tls.Config) error { return nil }

func handshake(cc, sc *tls.Config) (*tls.Conn, []byte, error) {
	cp, sp := net.Pipe()
	ct := &tap{Conn: cp}
	client, server := tls.Client(ct, cc), tls.Server(sp, sc)
	done := make(chan error, 1)
	go func() { done <- server.Handshake() }()
	if err := client.Handshake(); err != nil {
		return nil, nil, fmt.Errorf("client: %v", err)
	}
	if err := <-done; err != nil {
		return nil, nil, fmt.Errorf("server: %v", err)
	}
	go func() { // drain so that Close does not block
		buf := make([]byte, 1024)
		for {
			if _, err := server.Read(buf); err != nil {
				return
			}
		}
	}()
	return client, ct.out, nil
}

func main() {
	bad := false
	id := tlsx.ServerIdentity("p256")

	// 1. fingerprinted hello with EMS, extended_random, heartbeat
	cc, sc := tlsx.BaseConfigs(id, "repro-ch-1")
	sc.MinVersion, sc.MaxVersion = tls.VersionTLS12, tls.VersionTLS12
	er := append([]byte{0, 4}, 0xe0, 0xe1, 0xe2, 0xe3)
	cc.ClientFingerprintConfiguration = &tls.ClientFingerprintConfiguration{
		HandshakeVersion: tls.VersionTLS12, CipherSuites: []uint16{0xc02b}, CompressionMethods: []uint8{0},
		Extensions: []tls.ClientExtension{
			&tls.SNIExtension{Domains: []string{"srv.example"}},
			&tls.SupportedCurvesExtension{Curves: []tls.CurveID{tls.CurveP256}},
			&tls.PointFormatExtension{Formats: []uint8{0}},
			&raw{13, []byte{0, 2, 4, 3}},
			&tls.ExtendedMasterSecretExtension{},
			&raw{0x28, er},
			&raw{15, []byte{1}},
		}}
	c, out, err := handshake(cc, sc)
	if err != nil {
		fmt.Println(err)
		os.Exit(2)
	}
	ex := helloExts(out)
	l := c.GetHandshakeLog().ClientHello
	_, ems := ex[23]
	_, hb := ex[15]
	fmt.Printf("wire: extended_master_secret present=%v  extended_random=%x  heartbeat present=%v\n", ems, ex[0x28], hb)
	fmt.Printf("log : extended_master_secret=%v  extended_random=%x  heartbeat=%v\n", l.ExtendedMasterSecret, l.ExtendedRandom, l.HeartbeatSupported)
	if l.ExtendedMasterSecret != ems {
		fmt.Println("  MISMATCH: extended_master_secret")
		bad = true
	}
	if len(ex[0x28]) >= 2 && !bytes.Equal(l.ExtendedRandom, ex[0x28][2:]) {
		fmt.Println("  MISMATCH (unpopulated): extended_random")
	}
	if l.HeartbeatSupported != hb {
		fmt.Println("  MISMATCH: heartbeat (known finding: the fork has no heartbeat support left)")
		bad = true
	}
	c.Close()

	// 2. resumed connection: the offered ticket
	cc, sc = tlsx.BaseConfigs(id, "repro-ch-2")
	cc.MinVersion, cc.MaxVersion = tls.VersionTLS12, tls.VersionTLS12
	sc.MinVersion, sc.MaxVersion = tls.VersionTLS12, tls.VersionTLS12
	cc.ClientSessionCache = tls.NewLRUClientSessionCache(2)
	c, _, err = handshake(cc, sc)
	if err != nil {
		fmt.Println(err)
		os.Exit(2)
	}
	c.Close()
	c, out, err = handshake(cc, sc)
	if err != nil {
		fmt.Println(err)
		os.Exit(2)
	}
	ex = helloExts(out)
	st := c.GetHandshakeLog().ClientHello.SessionTicket
	fmt.Printf("wire: session_ticket extension of the resuming ClientHello: %d bytes\n", len(ex[35]))
	if st == nil {
		fmt.Println("log : session_ticket not logged")
	} else {
		fmt.Printf("log : session_ticket.length=%d len(session_ticket.value)=%d\n", st.Length, len(st.Value))
		if !bytes.Equal(st.Value, ex[35]) {
			fmt.Println("  MISMATCH: session_ticket.value is not the ticket on the wire")
			bad = true
		}
	}
	c.Close()
	if bad {
		os.Exit(1)
	}
}
