// Standalone reproducer for the C28 findings: the client handshake log names
// signature/hash algorithms that are not the ones on the wire.
//
//	cd /verif/mc && GOFLAGS=-mod=mod GOPROXY=off go run ./cmd/c28/repro/sighash
//
// It runs a zcrypto tls.Client against a zcrypto tls.Server over net.Pipe
// (TLS 1.2, ECDHE), records the bytes the server wrote, finds the
// ServerKeyExchange and the ClientHello signature_algorithms extension by
// plain offset arithmetic and prints them next to conn.GetHandshakeLog().
// Exit status 1 when a logged value differs from the wire.
package main

import (
	"encoding/json"
	"fmt"
	"net"
	"os"
	"sync"

	"github.com/zmap/zcrypto/tls"
	"verifmc/internal/tlsx"
)

type tap struct {
	net.Conn
	mu  sync.Mutex
	out []byte
}

func (t *tap) Write(p []byte) (int, error) {
	t.mu.Lock()
	t.out = append(t.out, p...)
	t.mu.Unlock()
	return t.Conn.Write(p)
}

// messages returns the plaintext handshake messages (type, body) at the start of a stream.
func messages(stream []byte) (out [][]byte) {
	var hs []byte
	for len(stream) >= 5 && stream[0] == 22 {
		n := int(stream[3])<<8 | int(stream[4])
		hs = append(hs, stream[5:5+n]...)
		stream = stream[5+n:]
	}
	for len(hs) >= 4 {
		n := int(hs[1])<<16 | int(hs[2])<<8 | int(hs[3])
		out = append(out, hs[:4+n])
		hs = hs[4+n:]
	}
	return
}

func run(certKey string, suite uint16) (bad bool) {
	id := tlsx.ServerIdentity(certKey)
	cc, sc := tlsx.BaseConfigs(id, "repro-"+certKey)
	cc.MinVersion, cc.MaxVersion = tls.VersionTLS12, tls.VersionTLS12
	sc.MinVersion, sc.MaxVersion = tls.VersionTLS12, tls.VersionTLS12
	cc.CipherSuites, sc.CipherSuites = []uint16{suite}, []uint16{suite}
	cp, sp := net.Pipe()
	ct, st := &tap{Conn: cp}, &tap{Conn: sp}
	client, server := tls.Client(ct, cc), tls.Server(st, sc)
	done := make(chan error, 1)
	go func() { done <- server.Handshake() }()
	if err := client.Handshake(); err != nil {
		fmt.Println("client handshake:", err)
		return true
	}
	if err := <-done; err != nil {
		fmt.Println("server handshake:", err)
		return true
	}
	log := client.GetHandshakeLog()

	// ServerKeyExchange (type 12): curve_type(1) curve(2) point<1..255> hash(1) sig(1) signature<2>
	for _, m := range messages(st.out) {
		if m[0] != 12 {
			continue
		}
		b := m[4:]
		off := 4 + int(b[3])
		wireHash, wireSig := b[off], b[off+1]
		sh := log.ServerKeyExchange.Signature.SigHashExtension
		js, _ := json.Marshal(log.ServerKeyExchange.Signature.SigHashExtension)
		fmt.Printf("[%s] ServerKeyExchange wire SignatureAndHashAlgorithm = hash 0x%02x, signature 0x%02x\n", certKey, wireHash, wireSig)
		fmt.Printf("[%s]   logged SigHashExtension = {Signature:%d Hash:%d}  JSON %s  type=%q\n", certKey, sh.Signature, sh.Hash, js, log.ServerKeyExchange.Signature.Type)
		if sh.Hash != wireHash || sh.Signature != wireSig {
			fmt.Printf("[%s]   MISMATCH: the log does not hold the two bytes that were on the wire\n", certKey)
			bad = true
		}
	}
	// ClientHello signature_algorithms (extension 13)
	ch := messages(ct.out)[0][4:]
	p := 2 + 32
	p += 1 + int(ch[p])
	p += 2 + (int(ch[p])<<8 | int(ch[p+1]))
	p += 1 + int(ch[p])
	p += 2
	for p+4 <= len(ch) {
		typ, n := int(ch[p])<<8|int(ch[p+1]), int(ch[p+2])<<8|int(ch[p+3])
		if typ == 13 {
			list := ch[p+6 : p+4+n]
			fmt.Printf("[%s] ClientHello wire signature_algorithms = %x\n", certKey, list)
			for i, l := range log.ClientHello.SignatureAndHashes {
				if i*2+1 < len(list) && (l.Hash != list[2*i] || l.Signature != list[2*i+1]) {
					j, _ := json.Marshal(&l)
					fmt.Printf("[%s]   entry %d: wire %02x%02x logged {Signature:%d Hash:%d} JSON %s\n", certKey, i, list[2*i], list[2*i+1], l.Signature, l.Hash, j)
					bad = true
				}
			}
		}
		p += 4 + n
	}
	client.Close()
	server.Close()
	return
}

func main() {
	bad := run("rsa2048", tls.TLS_ECDHE_RSA_WITH_AES_128_GCM_SHA256)
	bad = run("p256", tls.TLS_ECDHE_ECDSA_WITH_AES_128_GCM_SHA256) || bad
	bad = run("ed-leaf", tls.TLS_ECDHE_ECDSA_WITH_AES_128_GCM_SHA256) || bad
	if bad {
		os.Exit(1)
	}
}
