package main

// The oracle: field-by-field comparison of the client handshake log with the
// independently parsed wire transcript and with the secrets of the key log.

import (
	"bytes"
	stdrsa "crypto/rsa"
	"encoding/hex"
	"encoding/json"
	"fmt"
	"math/big"
	"sort"
	"strings"

	"github.com/zmap/zcrypto/tls"
)

// finding is one mismatch; Sig is the class signature (stable, no per-input data).
type finding struct {
	Sig    string         `json:"signature"`
	Detail map[string]any `json:"detail"`
}

// connCtx is everything the oracle knows about one connection.
type connCtx struct {
	W         *wire
	Log       *tls.ServerHandshake
	ClientKL  string // key log of the client config (this connection only)
	ServerKL  string
	PK        pubKeys
	RSAPriv   *stdrsa.PrivateKey // server key, to open the RSA ClientKeyExchange
	Suite     suiteInfo
	Prev      *prevConn // the connection that issued the ticket (resumption)
	ServerLog *tls.ServerHandshake
	SrvALPN   string
	PlainOnly bool // failed (man-in-the-middle) handshake: compare the plaintext flights only
	// what the client verifies the server certificates against (for the Validation part of the log)
	Roots      [][]byte // DER of the client's trust anchors
	VerifyName string   // the client's Config.ServerName ("" = none)
}

// prevConn is what a resumed connection inherits from the one that created the session.
type prevConn struct {
	Master []byte
	NST    *wNST
}

type tally struct {
	evals    int64
	outcomes map[string]int64
	finds    []finding
	master   []byte // the reference master secret check settled on (<= TLS 1.2)
}

func (t *tally) out(class string) { t.outcomes[class]++ }

func (t *tally) fail(sig string, detail map[string]any) {
	t.finds = append(t.finds, finding{Sig: sig, Detail: detail})
}

func hx(b []byte) string {
	if len(b) > 80 {
		return fmt.Sprintf("%s…(%d bytes)", hex.EncodeToString(b[:80]), len(b))
	}
	return hex.EncodeToString(b)
}

// cmpBytes compares a logged byte string with the wire. required=false: an empty
// logged value is an unpopulated field (not a violation).
func (t *tally) cmpBytes(part, field string, logged, wire []byte, required bool) {
	t.evals++
	if len(logged) == 0 && !required {
		if len(wire) > 0 {
			t.out("unpopulated:" + part + "." + field)
		}
		return
	}
	if len(logged) != len(wire) {
		t.fail(part+" log: "+field+" length differs from wire", map[string]any{"logged": hx(logged), "wire": hx(wire), "logged_len": len(logged), "wire_len": len(wire)})
		return
	}
	if !bytes.Equal(logged, wire) {
		t.fail(part+" log: "+field+" content differs from wire", map[string]any{"logged": hx(logged), "wire": hx(wire)})
	}
}

func (t *tally) cmpInt(part, field string, logged, wire int64) {
	t.evals++
	if logged != wire {
		t.fail(part+" log: "+field+" differs from wire", map[string]any{"logged": logged, "wire": wire})
	}
}

func (t *tally) cmpBig(part, field string, logged, wire *big.Int) {
	t.evals++
	if logged == nil {
		if wire != nil {
			t.out("unpopulated:" + part + "." + field)
		}
		return
	}
	if wire == nil || logged.Cmp(wire) != 0 {
		ws := "<absent>"
		if wire != nil {
			ws = wire.Text(16)
		}
		t.fail(part+" log: "+field+" differs from wire", map[string]any{"logged": logged.Text(16), "wire": ws})
	}
}

// cmpBoolIff: the field plainly means "the extension is present".
func (t *tally) cmpBoolIff(part, field string, logged, wire bool) {
	t.evals++
	if logged != wire {
		t.fail(part+" log: "+field+" does not match the extension on the wire", map[string]any{"logged": logged, "on_wire": wire})
	}
}

// cmpBoolImplies: fields that the log may leave at false; true must be backed by the wire.
func (t *tally) cmpBoolImplies(part, field string, logged, wire bool) {
	t.evals++
	if logged && !wire {
		t.fail(part+" log: "+field+" set but nothing on the wire", map[string]any{"logged": logged, "on_wire": wire})
	} else if !logged && wire {
		t.out("unpopulated:" + part + "." + field)
	}
}

func u16s[T ~uint16](in []T) []uint16 {
	out := make([]uint16, len(in))
	for i, v := range in {
		out[i] = uint16(v)
	}
	return out
}

func (t *tally) cmpU16List(part, field string, logged, wire []uint16, required bool) {
	t.evals++
	if len(logged) == 0 && !required {
		if len(wire) > 0 {
			t.out("unpopulated:" + part + "." + field)
		}
		return
	}
	if len(logged) != len(wire) {
		t.fail(part+" log: "+field+" length differs from wire", map[string]any{"logged": fmt.Sprintf("%04x", logged), "wire": fmt.Sprintf("%04x", wire)})
		return
	}
	for i := range logged {
		if logged[i] != wire[i] {
			t.fail(part+" log: "+field+" content differs from wire", map[string]any{"logged": fmt.Sprintf("%04x", logged), "wire": fmt.Sprintf("%04x", wire)})
			return
		}
	}
}

// IANA names of the TLS 1.2 HashAlgorithm / SignatureAlgorithm registries
// (RFC 5246 7.4.1.4.1, RFC 8422, RFC 8446 appendix B.3.1.3).
var ianaHash = map[byte]string{0: "none", 1: "md5", 2: "sha1", 3: "sha224", 4: "sha256", 5: "sha384", 6: "sha512", 8: "intrinsic"}
var ianaSig = map[byte]string{0: "anonymous", 1: "rsa", 2: "dsa", 3: "ecdsa", 7: "ed25519", 8: "ed448"}

func isIanaName(m map[byte]string, n string) bool {
	for _, v := range m {
		if v == n {
			return true
		}
	}
	return false
}

// sigHashJSON returns the two names zcrypto's JSON encoding gives a logged pair.
func sigHashJSON(sh *tls.SignatureAndHash) (sig, hash string, err error) {
	b, err := json.Marshal(sh)
	if err != nil {
		return "", "", err
	}
	var aux struct {
		S string `json:"signature_algorithm"`
		H string `json:"hash_algorithm"`
	}
	if err := json.Unmarshal(b, &aux); err != nil {
		return "", "", err
	}
	return aux.S, aux.H, nil
}

// sigHashMatches decides whether a logged SignatureAndHash names the two wire
// bytes (hash, sig). It accepts either reading of "names": the numeric fields
// equal the wire bytes, or the names of its JSON encoding are the IANA names of
// the wire bytes. Returns per-field verdicts.
func sigHashMatches(sh *tls.SignatureAndHash, wireHash, wireSig byte) (sigOK, hashOK bool, info map[string]any) {
	js, jh, _ := sigHashJSON(sh)
	sigOK = sh.Signature == wireSig || (ianaSig[wireSig] != "" && js == ianaSig[wireSig])
	hashOK = sh.Hash == wireHash || (ianaHash[wireHash] != "" && jh == ianaHash[wireHash])
	info = map[string]any{
		"logged_signature": sh.Signature, "logged_hash": sh.Hash,
		"logged_json": map[string]string{"signature_algorithm": js, "hash_algorithm": jh},
		"wire_bytes":  fmt.Sprintf("%02x%02x", wireHash, wireSig),
		"wire_names":  map[string]string{"signature_algorithm": ianaSig[wireSig], "hash_algorithm": ianaHash[wireHash]},
	}
	return
}

func (t *tally) checkClientHello(l *tls.ClientHello, h *wClientHello) {
	const P = "ClientHello"
	t.cmpInt(P, "version", int64(l.Version), int64(h.Vers))
	t.cmpBytes(P, "random", l.Random, h.Random, true)
	t.cmpBytes(P, "session_id", l.SessionID, h.SessionID, false)
	t.cmpU16List(P, "cipher_suites", u16s(l.CipherSuites), h.Suites, true)
	comp := make([]byte, len(l.CompressionMethods))
	for i, c := range l.CompressionMethods {
		comp[i] = byte(c)
	}
	t.cmpBytes(P, "compression_methods", comp, h.Comp, true)

	e, ok := findExt(h.Exts, extStatusRequest)
	t.cmpBoolIff(P, "ocsp_stapling", l.OcspStapling, ok && len(e.Data) >= 1 && e.Data[0] == 1)
	tk, hasTk := findExt(h.Exts, extTicket)
	t.cmpBoolIff(P, "ticket", l.TicketSupported, hasTk)
	rn, hasRn := findExt(h.Exts, extRenego)
	rnData, _ := decVec8(rn.Data)
	// tls_handshake.go documents this flag as "the extension is present AND carries a non-empty
	// renegotiated_connection" (MakeLog: secureRenegotiationSupported && len(secureRenegotiation) > 0)
	t.cmpBoolIff(P, "secure_renegotiation", l.SecureRenegotiation, hasRn && len(rnData) > 0)
	_, hasHB := findExt(h.Exts, extHeartbeat)
	t.cmpBoolIff(P, "heartbeat", l.HeartbeatSupported, hasHB)
	if er, hasER := findExt(h.Exts, extExtRandom); hasER {
		// draft-rescorla-tls-extended-random: opaque extended_random_value<0..2^16-1>
		if v, ok := decVec16(er.Data); ok {
			// omitted from the JSON when empty: an unpopulated value is tolerated, a populated one must be the wire value
			t.cmpBytes(P, "extended_random", l.ExtendedRandom, v, false)
		} else {
			t.out("harness:extended-random-unparsed")
		}
	} else {
		t.cmpBytes(P, "extended_random", l.ExtendedRandom, nil, true)
	}
	_, hasEMS := findExt(h.Exts, extEMS)
	t.cmpBoolIff(P, "extended_master_secret", l.ExtendedMasterSecret, hasEMS)
	sni, hasSNI := findExt(h.Exts, extSNI)
	name, _ := decSNI(sni.Data)
	if !hasSNI {
		name = ""
	}
	t.cmpBytes(P, "server_name", []byte(l.ServerName), []byte(name), false)
	_, hasSCT := findExt(h.Exts, extSCT)
	t.cmpBoolIff(P, "scts", l.Scts, hasSCT)
	// sct_enabled is not a wire field: it mirrors Config.SignedCertificateTimestampExt (handshake_client.go sets
	// clientHelloMsg.sctEnabled from the config; the extension itself is logged in "scts"). One-way only.
	t.cmpBoolImplies(P, "sct_enabled", l.SctEnabled, hasSCT)

	g, _ := findExt(h.Exts, extGroups)
	groups, _ := decU16Vec16(g.Data)
	t.cmpU16List(P, "supported_curves", u16s(l.SupportedCurves), groups, false)
	pf, _ := findExt(h.Exts, extPointFormats)
	pfs, _ := decVec8(pf.Data)
	lp := make([]byte, len(l.SupportedPoints))
	for i, p := range l.SupportedPoints {
		lp[i] = byte(p)
	}
	t.cmpBytes(P, "supported_point_formats", lp, pfs, false)
	sv, _ := findExt(h.Exts, extSuppVersions)
	vers, _ := decCHVersions(sv.Data)
	t.cmpU16List(P, "supported_versions", u16s(l.SupportedVersions), vers, false)

	if l.SessionTicket != nil {
		t.cmpInt(P, "session_ticket.length", int64(l.SessionTicket.Length), int64(len(tk.Data)))
		// "logged byte strings are complete": a ticket logged with its length carries its bytes
		t.cmpBytes(P, "session_ticket.value", l.SessionTicket.Value, tk.Data, true)
		t.cmpInt(P, "session_ticket.lifetime_hint", int64(l.SessionTicket.LifetimeHint), 0)
	} else if len(tk.Data) > 0 {
		t.out("unpopulated:ClientHello.session_ticket")
	}

	sa, _ := findExt(h.Exts, extSigAlgs)
	algs, _ := decU16Vec16(sa.Data)
	if len(l.SignatureAndHashes) > 0 {
		t.evals++
		var bad []map[string]any
		if len(l.SignatureAndHashes) != len(algs) {
			bad = append(bad, map[string]any{"logged_entries": len(l.SignatureAndHashes), "wire_entries": len(algs)})
		} else {
			for i := range algs {
				sh := l.SignatureAndHashes[i]
				so, ho, info := sigHashMatches(&sh, byte(algs[i]>>8), byte(algs[i]))
				if !so || !ho {
					info["index"] = i
					info["signature_ok"], info["hash_ok"] = so, ho
					bad = append(bad, info)
				}
			}
		}
		if len(bad) > 0 {
			t.fail(P+" log: signature_and_hashes entries differ from the wire signature_algorithms", map[string]any{
				"wire": fmt.Sprintf("%04x", algs), "mismatching_entries": bad})
		}
	} else if len(algs) > 0 {
		t.out("unpopulated:ClientHello.signature_and_hashes")
	}

	al, _ := findExt(h.Exts, extALPN)
	protos, _ := decALPN(al.Data)
	if len(l.AlpnProtocols) > 0 {
		t.cmpBytes(P, "alpn_protocols", []byte(strings.Join(l.AlpnProtocols, "\x00")), []byte(strings.Join(protos, "\x00")), true)
	} else if len(protos) > 0 {
		t.out("unpopulated:ClientHello.alpn_protocols")
	}
	t.checkUnknownExts(P, l.UnknownExtensions, h.Exts)
}

// every logged unknown extension must be one of the wire extensions, whole, in wire order.
func (t *tally) checkUnknownExts(part string, logged [][]byte, exts []wext) {
	i := 0
	for _, u := range logged {
		t.evals++
		found := false
		for ; i < len(exts); i++ {
			if bytes.Equal(exts[i].Raw, u) {
				found = true
				i++
				break
			}
		}
		if !found {
			t.fail(part+" log: unknown_extensions entry not on the wire", map[string]any{"logged": hx(u)})
			return
		}
	}
}

func (t *tally) checkServerHello(l *tls.ServerHello, h *wServerHello, eeALPN string, eeKnown bool) {
	const P = "ServerHello"
	t.cmpInt(P, "version", int64(l.Version), int64(h.Vers))
	t.cmpBytes(P, "random", l.Random, h.Random, true)
	t.cmpBytes(P, "session_id", l.SessionID, h.SessionID, true)
	t.cmpInt(P, "cipher_suite", int64(l.CipherSuite), int64(h.Suite))
	t.cmpInt(P, "compression_method", int64(l.CompressionMethod), int64(h.Comp))
	_, has := findExt(h.Exts, extStatusRequest)
	t.cmpBoolIff(P, "ocsp_stapling", l.OcspStapling, has)
	_, has = findExt(h.Exts, extTicket)
	t.cmpBoolIff(P, "ticket", l.TicketSupported, has)
	rn, hasRn := findExt(h.Exts, extRenego)
	rnData, _ := decVec8(rn.Data)
	// documented in tls_handshake.go as "present with a non-empty renegotiated_connection" (see ClientHello)
	t.cmpBoolIff(P, "secure_renegotiation", l.SecureRenegotiation, hasRn && len(rnData) > 0)
	_, has = findExt(h.Exts, extHeartbeat)
	t.cmpBoolIff(P, "heartbeat", l.HeartbeatSupported, has)
	_, has = findExt(h.Exts, extEMS)
	t.cmpBoolIff(P, "extended_master_secret", l.ExtendedMasterSecret, has)
	if len(l.ExtendedRandom) > 0 {
		er, _ := findExt(h.Exts, extExtRandom)
		t.evals++
		if !bytes.HasSuffix(er.Data, l.ExtendedRandom) || len(er.Data) == 0 {
			t.fail(P+" log: extended_random not on the wire", map[string]any{"logged": hx(l.ExtendedRandom)})
		}
	}
	sc, _ := findExt(h.Exts, extSCT)
	scts, _ := decSCTList(sc.Data)
	if len(l.SignedCertificateTimestamps) > 0 {
		t.cmpInt(P, "scts count", int64(len(l.SignedCertificateTimestamps)), int64(len(scts)))
		for i := range l.SignedCertificateTimestamps {
			if i < len(scts) {
				t.cmpBytes(P, "scts raw", l.SignedCertificateTimestamps[i].Raw, scts[i], true)
			}
		}
	} else if len(scts) > 0 {
		t.out("unpopulated:ServerHello.scts")
	}
	// ALPN: ServerHello extension up to TLS 1.2, EncryptedExtensions in TLS 1.3.
	al, hasAl := findExt(h.Exts, extALPN)
	wireALPN := ""
	if hasAl {
		if p, ok := decALPN(al.Data); ok && len(p) == 1 {
			wireALPN = p[0]
		}
	} else if eeKnown {
		wireALPN = eeALPN
	}
	t.cmpBytes(P, "alpn_protocol", []byte(l.AlpnProtocol), []byte(wireALPN), false)

	sv, hasSV := findExt(h.Exts, extSuppVersions)
	if l.SupportedVersions != nil {
		wv := int64(-1)
		if hasSV && len(sv.Data) == 2 {
			wv = int64(sv.Data[0])<<8 | int64(sv.Data[1])
		}
		t.cmpInt(P, "supported_versions.selected_version", int64(l.SupportedVersions.SelectedVersion), wv)
	} else if hasSV {
		t.out("unpopulated:ServerHello.supported_versions")
	}
	ks, hasKS := findExt(h.Exts, extKeyShare)
	if l.KeyShare != nil && l.KeyShare.KeyExchange != nil {
		wg := int64(-1)
		if hasKS && len(ks.Data) >= 2 {
			wg = int64(ks.Data[0])<<8 | int64(ks.Data[1])
		}
		t.cmpInt(P, "key_share group", int64(*l.KeyShare.KeyExchange), wg)
	} else if hasKS {
		t.out("unpopulated:ServerHello.key_share")
	}
	if len(l.ExtensionIdentifiers) > 0 {
		var ids []uint16
		for _, e := range h.Exts {
			ids = append(ids, e.Typ)
		}
		t.cmpU16List(P, "extension_identifiers", l.ExtensionIdentifiers, ids, true)
	} else if len(h.Exts) > 0 {
		t.out("unpopulated:ServerHello.extension_identifiers")
	}
	t.checkUnknownExts(P, l.UnknownExtensions, h.Exts)
}

func (t *tally) checkCertificates(l *tls.Certificates, certs [][]byte) {
	const P = "ServerCertificates"
	if len(certs) == 0 {
		t.evals++
		t.fail(P+" log: populated but no Certificate message on the wire", map[string]any{"logged_leaf": hx(l.Certificate.Raw)})
		return
	}
	t.cmpBytes(P, "leaf raw", l.Certificate.Raw, certs[0], true)
	if l.Certificate.Parsed != nil {
		t.cmpBytes(P, "leaf parsed.Raw", l.Certificate.Parsed.Raw, certs[0], true)
	}
	t.cmpInt(P, "chain length", int64(len(l.Chain)), int64(len(certs)-1))
	for i := range l.Chain {
		if i+1 < len(certs) {
			t.cmpBytes(P, "chain raw", l.Chain[i].Raw, certs[i+1], true)
			if l.Chain[i].Parsed != nil {
				t.cmpBytes(P, "chain parsed.Raw", l.Chain[i].Parsed.Raw, certs[i+1], true)
			}
		}
	}
}

func (t *tally) checkSKX(c *connCtx) {
	l := c.Log.ServerKeyExchange
	w := c.W
	dhe := c.Suite.Kx == "DHE_RSA"
	P := "ECDHE ServerKeyExchange"
	if dhe {
		P = "DHE ServerKeyExchange"
	}
	if w.SKX == nil {
		t.evals++
		t.fail(P+" log: populated but no ServerKeyExchange on the wire", nil)
		return
	}
	s, err := parseSKX(w.SKX.Body, dhe, w.Vers >= 0x0303)
	if err != nil {
		t.out("harness:skx-unparsed")
		return
	}
	t.cmpBytes(P, "raw", l.Raw, s.Body, false)
	if dhe {
		if l.DHParams != nil {
			t.cmpBig(P, "dh prime", l.DHParams.Prime, s.P)
			t.cmpBig(P, "dh generator", l.DHParams.Generator, s.G)
			t.cmpBig(P, "dh server public", l.DHParams.ServerPublic, s.Ys)
			if l.DHParams.ServerPrivate != nil {
				t.evals++
				if new(big.Int).Exp(s.G, l.DHParams.ServerPrivate, s.P).Cmp(s.Ys) != 0 {
					t.fail(P+" log: dh server private does not yield the wire Ys", nil)
				}
			}
		} else {
			t.out("unpopulated:ServerKeyExchange.dh_params")
		}
		if l.ECDHParams != nil {
			t.evals++
			t.fail(P+" log: ecdh_params populated for a DHE exchange", nil)
		}
	} else {
		if l.ECDHParams != nil {
			t.cmpInt(P, "curve id", int64(l.ECDHParams.TLSCurveID), int64(s.Curve))
			x, y, ok := pointXY(s.Curve, s.Point)
			if ok && l.ECDHParams.ServerPublic != nil {
				t.cmpBig(P, "server public x", l.ECDHParams.ServerPublic.X, x)
				if y != nil {
					t.cmpBig(P, "server public y", l.ECDHParams.ServerPublic.Y, y)
				} else if l.ECDHParams.ServerPublic.Y != nil {
					t.evals++
					t.fail(P+" log: server public y populated for x25519", nil)
				}
			} else if l.ECDHParams.ServerPublic == nil {
				t.out("unpopulated:ServerKeyExchange.server_public")
			}
			if pr := l.ECDHParams.ServerPrivate; pr != nil && len(pr.Value) > 0 {
				t.evals++
				pub, err := publicFromPrivate(s.Curve, pr.Value)
				if err != nil || !bytes.Equal(pub, s.Point) {
					t.fail(P+" log: server private does not yield the wire public point", nil)
				}
			}
		} else {
			t.out("unpopulated:ServerKeyExchange.ecdh_params")
		}
		if l.DHParams != nil {
			t.evals++
			t.fail(P+" log: dh_params populated for an ECDHE exchange", nil)
		}
	}
	signed, digest, hh, scheme, known := skxDigest(w, s, c.PK)
	if known {
		want := digest
		if digest == nil {
			want = signed // Ed25519 signs the message itself
		}
		t.cmpBytes(P, "digest", l.Digest, want, false)
	} else {
		t.out("harness:skx-unknown-algorithm")
	}
	sg := l.Signature
	if sg == nil {
		t.out("unpopulated:ServerKeyExchange.signature")
		return
	}
	t.cmpBytes(P, "signature raw", sg.Raw, s.SigBytes, true)
	t.cmpInt(P, "signature tls_version", int64(sg.Version), int64(w.Vers))
	if known {
		valid, _ := verifySKX(signed, digest, hh, scheme, s.SigBytes, c.PK)
		t.evals++
		if sg.Valid != valid {
			t.fail(P+" log: signature valid flag differs from an independent verification", map[string]any{"logged": sg.Valid, "reference": valid, "scheme": scheme})
		}
		if valid {
			t.out("skx-signature-verified:" + scheme)
		} else {
			t.out("skx-signature-invalid:" + scheme)
		}
		// signature_error is the verification error: present exactly when the signature on the wire does not verify
		t.evals++
		if (l.SignatureError != "") != !valid {
			t.fail(P+" log: signature_error presence differs from an independent verification", map[string]any{
				"logged_error": l.SignatureError, "reference_valid": valid, "scheme": scheme})
		}
	}
	if s.HasAlg {
		if sg.SigHashExtension == nil {
			t.out("unpopulated:ServerKeyExchange.signature_and_hash_type")
		} else {
			t.evals++
			so, ho, info := sigHashMatches(sg.SigHashExtension, s.Hash, s.Sig)
			if !so || !ho {
				info["signature_ok"], info["hash_ok"] = so, ho
				t.fail(P+" log: signature/hash algorithm differs from wire", info)
			} else {
				t.out("skx-sighash-equals-wire")
			}
		}
		// The free-form "type" string: if it is an IANA signature name it must be the one on the wire.
		if sg.Type != "" && isIanaName(ianaSig, sg.Type) && ianaSig[s.Sig] != "" {
			t.evals++
			if sg.Type != ianaSig[s.Sig] {
				t.fail(P+" log: signature type names a different algorithm than the wire", map[string]any{
					"logged_type": sg.Type, "wire_bytes": fmt.Sprintf("%02x%02x", s.Hash, s.Sig), "wire_signature": ianaSig[s.Sig]})
			}
		}
	} else {
		t.evals++
		if sg.SigHashExtension != nil {
			t.fail(P+" log: signature/hash algorithm logged although none is on the wire (< TLS 1.2)", map[string]any{
				"logged_signature": sg.SigHashExtension.Signature, "logged_hash": sg.SigHashExtension.Hash})
		} else {
			t.out("skx-no-sighash-before-tls12")
		}
	}
}

func (t *tally) checkCKX(c *connCtx) {
	const P = "ClientKeyExchange"
	l := c.Log.ClientKeyExchange
	w := c.W
	if w.CKX == nil {
		t.evals++
		t.fail(P+" log: populated but no ClientKeyExchange on the wire", nil)
		return
	}
	t.cmpBytes(P, "raw", l.Raw, w.CKX.Raw, false)
	r := rd{b: w.CKX.Body}
	switch c.Suite.Kx {
	case "RSA":
		ct := r.vec16()
		if r.bad || !r.empty() {
			t.out("harness:ckx-unparsed")
			return
		}
		if l.RSAParams != nil {
			t.cmpInt(P, "rsa length", int64(l.RSAParams.Length), int64(len(ct)))
			t.cmpBytes(P, "rsa encrypted_pre_master_secret", l.RSAParams.EncryptedPMS, ct, false)
		} else {
			t.out("unpopulated:ClientKeyExchange.rsa_params")
		}
	case "DHE_RSA":
		yc := r.vec16()
		if r.bad || !r.empty() {
			t.out("harness:ckx-unparsed")
			return
		}
		if l.DHParams != nil {
			t.cmpBig(P, "dh client public", l.DHParams.ClientPublic, new(big.Int).SetBytes(yc))
			if w.SKX != nil {
				if s, err := parseSKX(w.SKX.Body, true, w.Vers >= 0x0303); err == nil {
					t.cmpBig(P, "dh prime", l.DHParams.Prime, s.P)
					t.cmpBig(P, "dh generator", l.DHParams.Generator, s.G)
					if l.DHParams.ClientPrivate != nil {
						t.evals++
						if new(big.Int).Exp(s.G, l.DHParams.ClientPrivate, s.P).Cmp(new(big.Int).SetBytes(yc)) != 0 {
							t.fail(P+" log: dh client private does not yield the wire Yc", nil)
						}
					}
				}
			}
		} else {
			t.out("unpopulated:ClientKeyExchange.dh_params")
		}
	default: // ECDHE
		pt := r.vec8()
		if r.bad || !r.empty() || w.SKX == nil {
			t.out("harness:ckx-unparsed")
			return
		}
		s, err := parseSKX(w.SKX.Body, false, w.Vers >= 0x0303)
		if err != nil {
			return
		}
		if l.ECDHParams != nil {
			t.cmpInt(P, "curve id", int64(l.ECDHParams.TLSCurveID), int64(s.Curve))
			x, y, ok := pointXY(s.Curve, pt)
			if ok && l.ECDHParams.ClientPublic != nil {
				t.cmpBig(P, "client public x", l.ECDHParams.ClientPublic.X, x)
				if y != nil {
					t.cmpBig(P, "client public y", l.ECDHParams.ClientPublic.Y, y)
				}
			}
			if pr := l.ECDHParams.ClientPrivate; pr != nil && len(pr.Value) > 0 {
				t.evals++
				t.cmpInt(P, "client private length", int64(pr.Length), int64(len(pr.Value)))
				pub, err := publicFromPrivate(s.Curve, pr.Value)
				if err != nil || !bytes.Equal(pub, pt) {
					t.fail(P+" log: client private does not yield the wire public point", map[string]any{"err": fmt.Sprint(err)})
				}
			}
		} else {
			t.out("unpopulated:ClientKeyExchange.ecdh_params")
		}
	}
}

// masterOf returns the master secret the connection used, from the key logs.
func (c *connCtx) masterOf(t *tally) []byte {
	if c.W.Resumed {
		if c.Prev != nil {
			return c.Prev.Master
		}
		return nil
	}
	mc, okc := keylogLookup(c.ClientKL, "CLIENT_RANDOM", c.W.CH.Random)
	ms, oks := keylogLookup(c.ServerKL, "CLIENT_RANDOM", c.W.CH.Random)
	if !okc || !oks {
		t.out("harness:keylog-missing")
		if okc {
			return mc
		}
		return ms
	}
	if !bytes.Equal(mc, ms) {
		t.out("harness:keylogs-disagree")
		return nil
	}
	return mc
}

// check runs every comparison for one connection.
func check(c *connCtx) *tally {
	t := &tally{outcomes: map[string]int64{}}
	l, w := c.Log, c.W
	if l == nil {
		t.out("no-log")
		return t
	}
	if l.ClientHello != nil {
		t.checkClientHello(l.ClientHello, w.CH)
	} else {
		t.out("unpopulated:client_hello")
	}
	if l.ServerHello != nil && len(w.SHs) == 0 {
		t.evals++
		t.fail("ServerHello log: populated but no ServerHello on the wire", nil)
	} else if l.ServerHello != nil {
		// The log may hold the HelloRetryRequest or the ServerHello: both are ServerHello messages on the wire.
		best := (*tally)(nil)
		for _, sh := range w.SHs {
			tt := &tally{outcomes: map[string]int64{}}
			tt.checkServerHello(l.ServerHello, sh, w.EEALPN, w.EEok)
			if best == nil || len(tt.finds) < len(best.finds) {
				best = tt
			}
			if len(tt.finds) == 0 {
				if isHRR(sh) {
					t.out("server_hello-log-is-HelloRetryRequest")
				}
				break
			}
		}
		t.evals += best.evals
		t.finds = append(t.finds, best.finds...)
		for k, v := range best.outcomes {
			t.outcomes[k] += v
		}
	} else if len(w.SHs) > 0 {
		t.out("unpopulated:server_hello")
	}
	if l.ServerCertificates != nil {
		if w.TLS13 && !w.HasCrt {
			// the Certificate message of a TLS 1.3 flight the harness could not open
			t.out("harness:tls13-certificate-not-readable")
		} else {
			t.checkCertificates(l.ServerCertificates, w.Certs)
			t.checkValidation(c)
		}
	} else if len(w.Certs) > 0 {
		t.out("unpopulated:server_certificates")
	}
	if l.ServerKeyExchange != nil {
		t.checkSKX(c)
	} else if w.SKX != nil {
		t.out("unpopulated:server_key_exchange")
	}
	if l.ClientKeyExchange != nil {
		t.checkCKX(c)
	} else if w.CKX != nil {
		t.out("unpopulated:client_key_exchange")
	}

	var master, refCF, refSF []byte
	if c.PlainOnly {
		t.out("plaintext-parts-only")
	} else if !w.TLS13 {
		klMaster := c.masterOf(t)
		pre, indep, okI := c.independentSecrets(t)
		master = klMaster
		if okI {
			// The connection worked (both Finished were accepted), so the master secret in use is the one both key
			// logs name. It must be the RFC 5246 8.1 derivation of the independently recomputed pre-master secret,
			// unless extended_master_secret (RFC 7627) was negotiated, which changes the derivation.
			_, ems := findExt(w.SH.Exts, extEMS)
			t.evals++
			switch {
			case klMaster == nil || bytes.Equal(klMaster, indep):
				master = indep
				t.out("master-secret-reference:independent")
			case ems:
				t.out("master-secret-reference:keylog (extended_master_secret negotiated)")
			default:
				t.fail("harness: independently recomputed master secret differs from both key logs", map[string]any{"kx": c.Suite.Kx})
			}
		} else if w.Resumed {
			t.out("master-secret-reference:of the session's first connection")
		} else {
			t.out("master-secret-reference:keylog")
		}
		if master != nil {
			cf, sf := refFinished(w, c.Suite.SHA384, master)
			refCF, refSF = cf, sf
			if l.ClientFinished != nil {
				t.cmpBytes("ClientFinished", "verify_data", l.ClientFinished.VerifyData, cf, true)
				if c.ServerLog != nil && c.ServerLog.ClientFinished != nil && bytes.Equal(c.ServerLog.ClientFinished.VerifyData, cf) {
					t.out("finished-reference-equals-peer-received")
				}
			} else {
				t.out("unpopulated:client_finished")
			}
			if l.ServerFinished != nil {
				t.cmpBytes("ServerFinished", "verify_data", l.ServerFinished.VerifyData, sf, true)
			} else {
				t.out("unpopulated:server_finished")
			}
			if km := l.KeyMaterial; km != nil {
				if km.MasterSecret != nil {
					t.cmpBytes("KeyMaterial", "master_secret", km.MasterSecret.Value, master, false)
					if len(km.MasterSecret.Value) > 0 || km.MasterSecret.Length != 0 {
						t.cmpInt("KeyMaterial", "master_secret length field", int64(km.MasterSecret.Length), int64(len(master)))
					}
				}
				if pm := km.PreMasterSecret; pm != nil && len(pm.Value) > 0 {
					t.cmpInt("KeyMaterial", "pre_master_secret length field", int64(pm.Length), int64(len(pm.Value)))
					// the pre-master secret is the one that yields the master secret in use (RFC 5246 8.1)
					t.evals++
					seed := append(append([]byte(nil), w.CH.Random...), w.SH.Random...)
					if !bytes.Equal(prf(w.Vers, c.Suite.SHA384, pm.Value, "master secret", seed, 48), master) {
						t.fail("KeyMaterial log: pre_master_secret does not derive the master secret in use", nil)
					}
					if okI {
						t.cmpBytes("KeyMaterial", "pre_master_secret (recomputed from the wire and the server's key)", pm.Value, pre, true)
					}
				} else if !w.Resumed {
					t.out("unpopulated:key_material.pre_master_secret")
				}
			} else {
				t.out("unpopulated:key_material")
			}
		}
		if st := l.SessionTicket; st != nil {
			if w.NST != nil {
				t.cmpBytes("SessionTicket", "value", st.Value, w.NST.Ticket, false)
				t.cmpInt("SessionTicket", "length", int64(st.Length), int64(len(w.NST.Ticket)))
				t.cmpInt("SessionTicket", "lifetime_hint", int64(st.LifetimeHint), int64(w.NST.Lifetime))
				t.out("session-ticket:new-on-wire")
			} else {
				// No NewSessionTicket in this connection: the session in use is the one whose ticket the
				// client offered in its ClientHello (the statement is silent here: accept exactly that).
				tk, _ := findExt(w.CH.Exts, extTicket)
				t.cmpBytes("SessionTicket", "value (offered ticket)", st.Value, tk.Data, false)
				t.cmpInt("SessionTicket", "length (offered ticket)", int64(st.Length), int64(len(tk.Data)))
				if c.Prev != nil && c.Prev.NST != nil {
					t.cmpInt("SessionTicket", "lifetime_hint (of the issuing connection)", int64(st.LifetimeHint), int64(c.Prev.NST.Lifetime))
				}
				t.out("session-ticket:resumed-session")
			}
		} else if w.NST != nil {
			t.out("unpopulated:session_ticket")
		}
	} else {
		// TLS 1.3: the Finished messages travel in the protected flights the harness opened with the handshake
		// traffic secrets: whatever the log offers is compared with them.
		if l.ServerFinished != nil {
			if w.Fin13S != nil {
				t.cmpBytes("ServerFinished", "verify_data (TLS 1.3, protected flight opened)", l.ServerFinished.VerifyData, w.Fin13S, true)
				refSF = w.Fin13S
			} else {
				t.out("harness:tls13-server-finished-not-readable")
			}
		}
		if l.ClientFinished != nil {
			if w.Fin13C != nil {
				t.cmpBytes("ClientFinished", "verify_data (TLS 1.3, protected flight opened)", l.ClientFinished.VerifyData, w.Fin13C, true)
				refCF = w.Fin13C
			} else {
				t.out("harness:tls13-client-finished-not-readable")
			}
		}
		if l.KeyMaterial != nil || l.SessionTicket != nil {
			// TLS 1.3 has no 48-byte master secret in the key log and its tickets follow the handshake under the
			// application traffic keys: this check has no reference for them (counted; the run is marked incomplete).
			t.out("tls13-key-material-or-ticket-logged:no-reference")
		}
		if l.ServerFinished == nil && l.ClientFinished == nil && l.KeyMaterial == nil && l.SessionTicket == nil {
			t.out("tls13-log-offers-no-finished-or-key-material")
		}
	}
	t.checkAlert(c)
	t.checkJSON(c, master, refCF, refSF)
	t.master = master
	return t
}

func sortedKeys(m map[string]int64) []string {
	out := make([]string, 0, len(m))
	for k := range m {
		out = append(out, k)
	}
	sort.Strings(out)
	return out
}
