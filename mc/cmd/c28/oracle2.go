package main

// Second part of the oracle: the alert, the certificate validation verdict, the
// independent recomputation of the (EC)DHE / RSA pre-master and master secret, the
// TLS 1.3 Finished messages and the JSON encoding of the log, each against the
// wire transcript.

import (
	"bytes"
	"crypto/ecdh"
	stdrsa "crypto/rsa"
	stdx509 "crypto/x509"
	"encoding/base64"
	"encoding/json"
	"errors"
	"fmt"
	"math/big"
	"strings"

	"github.com/zmap/zcrypto/tls"
	"verifmc/internal/tlsx"
)

// ---- alert ----

// checkAlert: a logged alert is the description of an alert that was exchanged: one the client sent or one
// that was delivered to it (RFC 5246 7.2: level, description). The log has a single number (tls.Alert), the
// description; there is no level field.
func (t *tally) checkAlert(c *connCtx) {
	l, w := c.Log, c.W
	if l.Alert == nil {
		if len(w.Alerts) > 0 {
			// the statement covers populated parts only; an alert the client sent while returning a non-alert
			// error, or a warning it dropped, is not logged
			t.out("unpopulated:alert (alert on the wire)")
		}
		return
	}
	logged := byte(*l.Alert)
	t.evals++
	if len(w.Alerts) == 0 {
		if w.OpaqueAlerts > 0 || w.Unopened > 0 {
			t.out("alert-logged:protected-records-not-readable")
			return
		}
		t.fail("Alert log: populated but no alert on the wire", map[string]any{"logged": logged})
		return
	}
	for _, a := range w.Alerts {
		if a.Desc == logged {
			cls := "alert-equals-wire:" + a.Dir
			if a.Protected {
				cls += ":protected"
			}
			t.out(cls)
			t.out(fmt.Sprintf("alert-equals-wire:level=%d", a.Level))
			return
		}
	}
	if w.OpaqueAlerts > 0 || w.Unopened > 0 {
		t.out("alert-logged:protected-records-not-readable")
		return
	}
	t.fail("Alert log: description differs from every alert on the wire", map[string]any{"logged": logged, "wire_alerts": w.Alerts})
}

// ---- certificate validation ----

func classifyStdVerifyErr(err error) string {
	var inv stdx509.CertificateInvalidError
	if errors.As(err, &inv) && inv.Reason == stdx509.Expired {
		return "expired"
	}
	var ua stdx509.UnknownAuthorityError
	if errors.As(err, &ua) {
		return "unknown-authority"
	}
	return "other"
}

func classifyBrowserError(s string) string {
	switch {
	case strings.Contains(s, "expired"):
		return "expired"
	case strings.Contains(s, "unknown authority"):
		return "unknown-authority"
	}
	return "other"
}

// checkValidation compares ServerCertificates.Validation with a verification of the certificates on the wire by
// the Go standard library under the client's trust anchors, clock and server name.
func (t *tally) checkValidation(c *connCtx) {
	const P = "ServerCertificates"
	v := c.Log.ServerCertificates.Validation
	if v == nil {
		t.out("unpopulated:ServerCertificates.validation")
		return
	}
	if len(c.Roots) == 0 || len(c.W.Certs) == 0 {
		return
	}
	var parsed []*stdx509.Certificate
	for _, der := range c.W.Certs {
		x, err := stdx509.ParseCertificate(der)
		if err != nil {
			t.out("harness:std-x509-cannot-parse-wire-certificate")
			return
		}
		parsed = append(parsed, x)
	}
	opts := stdx509.VerifyOptions{Roots: stdx509.NewCertPool(), Intermediates: stdx509.NewCertPool(), CurrentTime: tlsx.Now()}
	for _, der := range c.Roots {
		x, err := stdx509.ParseCertificate(der)
		if err != nil {
			t.out("harness:std-x509-cannot-parse-root")
			return
		}
		opts.Roots.AddCert(x)
	}
	for _, x := range parsed[1:] {
		opts.Intermediates.AddCert(x)
	}
	_, verr := parsed[0].Verify(opts)
	trusted := verr == nil
	t.evals++
	if v.BrowserTrusted != trusted {
		t.fail(P+" log: validation.browser_trusted differs from an independent chain verification", map[string]any{
			"logged": v.BrowserTrusted, "reference": trusted, "reference_error": fmt.Sprint(verr), "logged_error": v.BrowserError})
	}
	t.evals++
	if (v.BrowserError != "") != !trusted {
		t.fail(P+" log: validation.browser_error presence does not match the verification result", map[string]any{
			"logged_error": v.BrowserError, "reference_trusted": trusted})
	}
	if !trusted && v.BrowserError != "" {
		a, b := classifyStdVerifyErr(verr), classifyBrowserError(v.BrowserError)
		if a != "other" && b != "other" {
			t.evals++
			if a != b {
				t.fail(P+" log: validation.browser_error names a different failure than an independent verification", map[string]any{
					"logged_error": v.BrowserError, "reference_error": fmt.Sprint(verr)})
			}
		}
	}
	matches := c.VerifyName != "" && parsed[0].VerifyHostname(c.VerifyName) == nil
	t.evals++
	if v.MatchesDomain != matches {
		t.fail(P+" log: validation.matches_domain differs from an independent host name check", map[string]any{
			"logged": v.MatchesDomain, "reference": matches, "server_name": c.VerifyName})
	}
	cls := "validation:"
	if trusted {
		cls += "trusted"
	} else {
		cls += "untrusted(" + classifyStdVerifyErr(verr) + ")"
	}
	if matches {
		cls += ",name-matches"
	} else if c.VerifyName == "" {
		cls += ",no-name"
	} else {
		cls += ",name-mismatch"
	}
	t.out(cls)
}

// ---- independent key exchange ----

// independentSecrets recomputes the pre-master secret without any secret produced by the client under test:
//   - RSA: the ClientKeyExchange ciphertext on the wire, decrypted with the server's certificate key (crypto/rsa);
//   - ECDHE: the SERVER endpoint's ephemeral private scalar (from the server connection's own handshake log),
//     accepted only if crypto/ecdh derives the ServerKeyExchange point on the wire from it, combined by crypto/ecdh
//     with the client's public point of the ClientKeyExchange on the wire (RFC 8422 5.10);
//   - DHE: likewise with math/big (RFC 5246 8.1.2: leading zero bytes of Z are stripped);
//
// and the master secret from it with the harness' PRF (RFC 5246 8.1). ok=false: not derivable (why is an outcome).
func (c *connCtx) independentSecrets(t *tally) (pre, master []byte, ok bool) {
	w := c.W
	if w.TLS13 || w.Resumed || w.CKX == nil || w.SH == nil {
		return nil, nil, false
	}
	r := rd{b: w.CKX.Body}
	switch c.Suite.Kx {
	case "RSA":
		ct := r.vec16()
		if r.bad || !r.empty() || c.RSAPriv == nil {
			t.out("independent-secrets:not-derivable(rsa ckx)")
			return nil, nil, false
		}
		pt, err := stdrsa.DecryptPKCS1v15(nil, c.RSAPriv, ct)
		if err != nil || len(pt) != 48 {
			t.out("independent-secrets:not-derivable(rsa decrypt)")
			return nil, nil, false
		}
		pre = pt
	case "DHE_RSA":
		yc := r.vec16()
		if r.bad || !r.empty() || w.SKX == nil {
			return nil, nil, false
		}
		s, err := parseSKX(w.SKX.Body, true, w.Vers >= 0x0303)
		if err != nil {
			return nil, nil, false
		}
		var x *big.Int
		if c.ServerLog != nil && c.ServerLog.ServerKeyExchange != nil && c.ServerLog.ServerKeyExchange.DHParams != nil {
			x = c.ServerLog.ServerKeyExchange.DHParams.ServerPrivate
		}
		if x == nil || s.P.Sign() <= 0 || new(big.Int).Exp(s.G, x, s.P).Cmp(s.Ys) != 0 {
			t.out("independent-secrets:not-derivable(server dh private unavailable)")
			return nil, nil, false
		}
		pre = new(big.Int).Exp(new(big.Int).SetBytes(yc), x, s.P).Bytes()
	case "ECDHE_RSA", "ECDHE_ECDSA":
		pt := r.vec8()
		if r.bad || !r.empty() || w.SKX == nil {
			return nil, nil, false
		}
		s, err := parseSKX(w.SKX.Body, false, w.Vers >= 0x0303)
		if err != nil {
			return nil, nil, false
		}
		var priv []byte
		if c.ServerLog != nil && c.ServerLog.ServerKeyExchange != nil && c.ServerLog.ServerKeyExchange.ECDHParams != nil &&
			c.ServerLog.ServerKeyExchange.ECDHParams.ServerPrivate != nil {
			priv = c.ServerLog.ServerKeyExchange.ECDHParams.ServerPrivate.Value
		}
		curve, _ := curveByID(s.Curve)
		if curve == nil || len(priv) == 0 {
			t.out("independent-secrets:not-derivable(server ecdh private unavailable)")
			return nil, nil, false
		}
		var k *ecdh.PrivateKey
		if k, err = curve.NewPrivateKey(priv); err != nil || !bytes.Equal(k.PublicKey().Bytes(), s.Point) {
			t.out("independent-secrets:not-derivable(server ecdh private does not match the wire point)")
			return nil, nil, false
		}
		peer, err := curve.NewPublicKey(pt)
		if err != nil {
			t.out("independent-secrets:not-derivable(client point)")
			return nil, nil, false
		}
		if pre, err = k.ECDH(peer); err != nil {
			t.out("independent-secrets:not-derivable(ecdh)")
			return nil, nil, false
		}
	default:
		return nil, nil, false
	}
	seed := append(append([]byte(nil), w.CH.Random...), w.SH.Random...)
	master = prf(w.Vers, c.Suite.SHA384, pre, "master secret", seed, 48)
	t.out("independent-secrets:derived:" + c.Suite.Kx)
	return pre, master, true
}

// ---- JSON ----

type jsonView struct {
	t    *tally
	root map[string]any
}

func (j *jsonView) get(path string) (any, bool) {
	var cur any = j.root
	for _, k := range strings.Split(path, ".") {
		m, ok := cur.(map[string]any)
		if !ok {
			return nil, false
		}
		if cur, ok = m[k]; !ok {
			return nil, false
		}
	}
	return cur, cur != nil
}

func (j *jsonView) fail(path, what string, detail map[string]any) {
	if detail == nil {
		detail = map[string]any{}
	}
	detail["json_path"] = path
	// one signature per top-level part and kind of mismatch
	part := path
	if i := strings.IndexByte(path, '.'); i > 0 {
		part = path[:i]
	}
	j.t.fail("JSON of the log: "+part+": "+what, detail)
}

// num: the number at path equals want; must=false tolerates an absent key.
func (j *jsonView) num(path string, want int64, must bool) {
	v, ok := j.get(path)
	if !ok {
		if must {
			j.t.evals++
			j.fail(path, "number absent", map[string]any{"wire": want})
		}
		return
	}
	j.t.evals++
	f, isNum := v.(float64)
	if !isNum || int64(f) != want || f != float64(int64(f)) {
		j.fail(path, "number differs from wire", map[string]any{"json": v, "wire": want})
	}
}

func (j *jsonView) boolean(path string, want bool) {
	v, ok := j.get(path)
	j.t.evals++
	b, isBool := v.(bool)
	if !ok && !want {
		return // omitempty
	}
	if !ok || !isBool || b != want {
		j.fail(path, "boolean differs from wire", map[string]any{"json": v, "wire": want})
	}
}

// b64: the base64 byte string at path equals want. must=false tolerates an absent/empty value.
func (j *jsonView) b64(path string, want []byte, must bool) {
	v, ok := j.get(path)
	if !ok {
		if must && len(want) > 0 {
			j.t.evals++
			j.fail(path, "byte string absent", map[string]any{"wire": hx(want)})
		}
		return
	}
	j.t.evals++
	s, isStr := v.(string)
	dec, err := base64.StdEncoding.DecodeString(s)
	if !isStr || err != nil {
		j.fail(path, "byte string is not base64", map[string]any{"json": v})
		return
	}
	if len(dec) == 0 && !must {
		return
	}
	if !bytes.Equal(dec, want) {
		j.fail(path, "byte string differs from wire", map[string]any{"json": hx(dec), "wire": hx(want)})
	}
}

func (j *jsonView) str(path, want string, must bool) {
	v, ok := j.get(path)
	if !ok {
		if must && want != "" {
			j.t.evals++
			j.fail(path, "string absent", map[string]any{"wire": want})
		}
		return
	}
	j.t.evals++
	if s, isStr := v.(string); !isStr || s != want {
		j.fail(path, "string differs from wire", map[string]any{"json": v, "wire": want})
	}
}

// numList: an array whose elements are numbers, or objects with a numeric "value", equals want.
func (j *jsonView) numList(path string, want []uint16, must bool) {
	v, ok := j.get(path)
	if !ok {
		if must && len(want) > 0 {
			j.t.evals++
			j.fail(path, "list absent", map[string]any{"wire": fmt.Sprintf("%04x", want)})
		}
		return
	}
	j.t.evals++
	arr, isArr := v.([]any)
	if !isArr {
		j.fail(path, "list is not an array", nil)
		return
	}
	if len(arr) == 0 && !must {
		return
	}
	var got []int64
	for _, e := range arr {
		switch x := e.(type) {
		case float64:
			got = append(got, int64(x))
		case map[string]any:
			f, _ := x["value"].(float64)
			if _, has := x["value"]; !has {
				f = -1
			}
			got = append(got, int64(f))
		default:
			got = append(got, -1)
		}
	}
	same := len(got) == len(want)
	for i := 0; same && i < len(got); i++ {
		same = got[i] == int64(want[i])
	}
	if !same {
		j.fail(path, "list differs from wire", map[string]any{"json": got, "wire": fmt.Sprintf("%04x", want)})
	}
}

func (j *jsonView) b64List(path string, want [][]byte) {
	v, ok := j.get(path)
	if !ok {
		return
	}
	arr, _ := v.([]any)
	j.t.evals++
	if len(arr) != len(want) {
		j.fail(path, "list length differs from the log structure", map[string]any{"json": len(arr), "structure": len(want)})
		return
	}
	for i, e := range arr {
		s, _ := e.(string)
		dec, err := base64.StdEncoding.DecodeString(s)
		if err != nil || !bytes.Equal(dec, want[i]) {
			j.fail(path, "list entry differs", map[string]any{"index": i})
			return
		}
	}
}

// checkJSON decodes json.Marshal(log) generically and compares a core set of its fields with the wire: a reader of
// the JSON (the form the log is published in) must see what was exchanged.
func (t *tally) checkJSON(c *connCtx, master []byte, cf, sf []byte) {
	l, w := c.Log, c.W
	t.evals++
	blob, err := json.Marshal(l)
	if err != nil {
		t.fail("json.Marshal(handshake log) fails", map[string]any{"error": err.Error()})
		return
	}
	var generic map[string]any
	if err := json.Unmarshal(blob, &generic); err != nil {
		t.fail("json.Marshal(handshake log) is not valid JSON", map[string]any{"error": err.Error()})
		return
	}
	j := &jsonView{t: t, root: generic}
	present := func(k string) bool { _, ok := generic[k]; return ok }
	t.evals++
	for k, has := range map[string]bool{"client_hello": l.ClientHello != nil, "server_hello": l.ServerHello != nil,
		"server_certificates": l.ServerCertificates != nil, "server_key_exchange": l.ServerKeyExchange != nil,
		"client_key_exchange": l.ClientKeyExchange != nil, "client_finished": l.ClientFinished != nil,
		"server_finished": l.ServerFinished != nil, "session_ticket": l.SessionTicket != nil,
		"key_material": l.KeyMaterial != nil, "alert": l.Alert != nil} {
		if has != present(k) {
			t.fail("JSON of the log: a populated part is missing (or an empty one present)", map[string]any{"part": k, "populated": has, "in_json": present(k)})
		}
	}
	if l.ClientHello != nil {
		h := w.CH
		j.num("client_hello.version.value", int64(h.Vers), true)
		j.b64("client_hello.random", h.Random, true)
		j.b64("client_hello.session_id", h.SessionID, false)
		j.numList("client_hello.cipher_suites", h.Suites, true)
		comp := make([]uint16, len(h.Comp))
		for i, b := range h.Comp {
			comp[i] = uint16(b)
		}
		j.numList("client_hello.compression_methods", comp, true)
		e, ok := findExt(h.Exts, extStatusRequest)
		j.boolean("client_hello.ocsp_stapling", ok && len(e.Data) >= 1 && e.Data[0] == 1)
		_, ok = findExt(h.Exts, extTicket)
		j.boolean("client_hello.ticket", ok)
		_, ok = findExt(h.Exts, extSCT)
		j.boolean("client_hello.scts", ok)
		_, ok = findExt(h.Exts, extEMS)
		j.boolean("client_hello.extended_master_secret", ok)
		if sni, ok := findExt(h.Exts, extSNI); ok {
			name, _ := decSNI(sni.Data)
			j.str("client_hello.server_name", name, false)
		} else {
			j.str("client_hello.server_name", "", false)
		}
		g, _ := findExt(h.Exts, extGroups)
		groups, _ := decU16Vec16(g.Data)
		j.numList("client_hello.supported_curves", groups, false)
		sv, _ := findExt(h.Exts, extSuppVersions)
		vers, _ := decCHVersions(sv.Data)
		j.numList("client_hello.supported_versions", vers, false)
		if er, ok := findExt(h.Exts, extExtRandom); ok {
			if v, ok := decVec16(er.Data); ok {
				j.b64("client_hello.extended_random", v, false)
			}
		}
	}
	if l.ServerHello != nil && w.SH != nil {
		// the log holds the HelloRetryRequest or the ServerHello (see check): compare with the one whose random it carries
		h := w.SH
		for _, sh := range w.SHs {
			if bytes.Equal(sh.Random, l.ServerHello.Random) {
				h = sh
				break
			}
		}
		j.num("server_hello.version.value", int64(h.Vers), true)
		j.b64("server_hello.random", h.Random, true)
		j.b64("server_hello.session_id", h.SessionID, true)
		j.num("server_hello.cipher_suite.value", int64(h.Suite), true)
		j.str("server_hello.cipher_suite.hex", fmt.Sprintf("0x%04X", h.Suite), true)
		j.num("server_hello.compression_method.value", int64(h.Comp), true)
		_, ok := findExt(h.Exts, extStatusRequest)
		j.boolean("server_hello.ocsp_stapling", ok)
		_, ok = findExt(h.Exts, extTicket)
		j.boolean("server_hello.ticket", ok)
		_, ok = findExt(h.Exts, extEMS)
		j.boolean("server_hello.extended_master_secret", ok)
		var ids []uint16
		for _, e := range h.Exts {
			ids = append(ids, e.Typ)
		}
		j.numList("server_hello.extension_identifiers", ids, false)
		if sv, ok := findExt(h.Exts, extSuppVersions); ok && len(sv.Data) == 2 {
			j.num("server_hello.supported_versions.selected_version.value", int64(sv.Data[0])<<8|int64(sv.Data[1]), false)
		}
		if ks, ok := findExt(h.Exts, extKeyShare); ok && len(ks.Data) >= 2 {
			j.num("server_hello.key_share.value", int64(ks.Data[0])<<8|int64(ks.Data[1]), false)
		}
		if al, ok := findExt(h.Exts, extALPN); ok {
			if p, ok := decALPN(al.Data); ok && len(p) == 1 {
				j.str("server_hello.alpn_protocol", p[0], false)
			}
		} else if w.EEok {
			j.str("server_hello.alpn_protocol", w.EEALPN, false)
		}
		j.b64List("server_hello.unknown_extensions", l.ServerHello.UnknownExtensions)
	}
	if l.ServerCertificates != nil && len(w.Certs) > 0 {
		j.b64("server_certificates.certificate.raw", w.Certs[0], true)
		if v, ok := j.get("server_certificates.chain"); ok || len(w.Certs) > 1 {
			arr, _ := v.([]any)
			t.evals++
			if len(arr) != len(w.Certs)-1 {
				j.fail("server_certificates.chain", "chain length differs from wire", map[string]any{"json": len(arr), "wire": len(w.Certs) - 1})
			} else {
				for i, e := range arr {
					m, _ := e.(map[string]any)
					s, _ := m["raw"].(string)
					dec, err := base64.StdEncoding.DecodeString(s)
					t.evals++
					if err != nil || !bytes.Equal(dec, w.Certs[i+1]) {
						j.fail("server_certificates.chain", "chain raw differs from wire", map[string]any{"index": i})
						break
					}
				}
			}
		}
		if vv := l.ServerCertificates.Validation; vv != nil {
			j.boolean("server_certificates.validation.browser_trusted", vv.BrowserTrusted)
			j.boolean("server_certificates.validation.matches_domain", vv.MatchesDomain)
		}
	}
	if l.ServerKeyExchange != nil && w.SKX != nil && w.SH != nil {
		if s, err := parseSKX(w.SKX.Body, c.Suite.Kx == "DHE_RSA", w.Vers >= 0x0303); err == nil {
			j.b64("server_key_exchange.signature.raw", s.SigBytes, l.ServerKeyExchange.Signature != nil)
			if l.ServerKeyExchange.Signature != nil {
				j.num("server_key_exchange.signature.tls_version.value", int64(w.Vers), true)
			}
			if c.Suite.Kx != "DHE_RSA" {
				j.num("server_key_exchange.ecdh_params.curve_id.id", int64(s.Curve), false)
			}
		}
	}
	if l.ClientFinished != nil && cf != nil {
		j.b64("client_finished.verify_data", cf, true)
	}
	if l.ServerFinished != nil && sf != nil {
		j.b64("server_finished.verify_data", sf, true)
	}
	if l.KeyMaterial != nil && l.KeyMaterial.MasterSecret != nil && master != nil && len(l.KeyMaterial.MasterSecret.Value) > 0 {
		j.b64("key_material.master_secret.value", master, true)
		j.num("key_material.master_secret.length", int64(len(master)), true)
	}
	if l.SessionTicket != nil && w.NST != nil && !w.TLS13 {
		j.b64("session_ticket.value", w.NST.Ticket, false)
		if len(w.NST.Ticket) > 0 {
			j.num("session_ticket.length", int64(len(w.NST.Ticket)), true)
		}
		if w.NST.Lifetime != 0 {
			j.num("session_ticket.lifetime_hint", int64(w.NST.Lifetime), true)
		}
	}
	if l.Alert != nil {
		j.num("alert", int64(*l.Alert), true)
	}
	t.out("json-compared")
}

func decVec16(d []byte) ([]byte, bool) {
	r := rd{b: d}
	v := r.vec16()
	if r.bad || !r.empty() {
		return nil, false
	}
	return v, true
}

var _ = tls.VersionTLS12
