package main

// Independent parser for the TLS wire transcript: records -> handshake
// messages -> message fields. Written from RFC 5246 / 8446 / 4492 / 5077 /
// 6066 / 6962 / 7301; it shares no code with zcrypto.

import (
	"errors"
	"fmt"
	"math/big"

	"verifmc/internal/tlsx"
)

const (
	recCCS       = 20
	recAlert     = 21
	recHandshake = 22
	recAppData   = 23

	hsClientHello       = 1
	hsServerHello       = 2
	hsNewSessionTicket  = 4
	hsEncryptedExts     = 8
	hsCertificate       = 11
	hsServerKeyExchange = 12
	hsCertRequest       = 13
	hsServerHelloDone   = 14
	hsCertVerify        = 15
	hsClientKeyExchange = 16
	hsFinished          = 20
	hsCertStatus        = 22

	extSNI           = 0
	extStatusRequest = 5
	extGroups        = 10
	extPointFormats  = 11
	extSigAlgs       = 13
	extHeartbeat     = 15
	extALPN          = 16
	extSCT           = 18
	extEMS           = 23
	extTicket        = 35
	extExtRandom     = 0x28
	extPSK           = 41
	extSuppVersions  = 43
	extKeyShare      = 51
	extRenego        = 0xff01
)

// rd is a bounds-checked big-endian reader.
type rd struct {
	b   []byte
	bad bool
}

func (r *rd) take(n int) []byte {
	if r.bad || n < 0 || n > len(r.b) {
		r.bad = true
		return nil
	}
	out := r.b[:n]
	r.b = r.b[n:]
	return out
}
func (r *rd) u8() int {
	b := r.take(1)
	if b == nil {
		return 0
	}
	return int(b[0])
}
func (r *rd) u16() int {
	b := r.take(2)
	if b == nil {
		return 0
	}
	return int(b[0])<<8 | int(b[1])
}
func (r *rd) u24() int {
	b := r.take(3)
	if b == nil {
		return 0
	}
	return int(b[0])<<16 | int(b[1])<<8 | int(b[2])
}
func (r *rd) u32() uint32 {
	b := r.take(4)
	if b == nil {
		return 0
	}
	return uint32(b[0])<<24 | uint32(b[1])<<16 | uint32(b[2])<<8 | uint32(b[3])
}
func (r *rd) vec8() []byte  { return r.take(r.u8()) }
func (r *rd) vec16() []byte { return r.take(r.u16()) }
func (r *rd) vec24() []byte { return r.take(r.u24()) }
func (r *rd) empty() bool   { return len(r.b) == 0 }

// hsMsg is one handshake message: Raw includes the 4-byte header.
type hsMsg struct {
	Typ  byte
	Body []byte
	Raw  []byte
}

// splitMessages cuts a concatenation of handshake-record payloads into messages.
func splitMessages(buf []byte) ([]hsMsg, error) {
	var out []hsMsg
	for len(buf) > 0 {
		if len(buf) < 4 {
			return out, errors.New("truncated handshake header")
		}
		n := int(buf[1])<<16 | int(buf[2])<<8 | int(buf[3])
		if 4+n > len(buf) {
			return out, errors.New("truncated handshake body")
		}
		out = append(out, hsMsg{Typ: buf[0], Body: buf[4 : 4+n], Raw: buf[:4+n]})
		buf = buf[4+n:]
	}
	return out, nil
}

// plainFlight returns the plaintext handshake messages of one direction.
// tls13=false: all handshake records before the first ChangeCipherSpec.
// tls13=true:  all records of type handshake (encrypted ones carry the outer type application_data).
// encrypted: the records that follow and are protected (<=1.2: after CCS; 1.3: type 23).
//
// alerts: the plaintext alert records (RFC 5246 7.2: two bytes, level and description). An alert record that
// follows the ChangeCipherSpec (<= 1.2) is protected; it is counted in opaque and never interpreted.
func plainFlight(recs []tlsx.Record, tls13 bool) (msgs []hsMsg, encrypted []tlsx.Record, alerts []wAlert, opaque int, nCCS int, err error) {
	var buf []byte
	afterCCS := false
	for _, r := range recs {
		switch {
		case r.Type == recCCS:
			nCCS++
			if !tls13 {
				afterCCS = true
			}
		case r.Type == recHandshake && !afterCCS:
			buf = append(buf, r.Payload...)
		case r.Type == recAlert && !afterCCS && len(r.Payload) == 2:
			// plaintext alert (failed handshakes only): not a handshake message
			alerts = append(alerts, wAlert{Level: r.Payload[0], Desc: r.Payload[1]})
		case r.Type == recAlert:
			opaque++
			encrypted = append(encrypted, r)
		default:
			encrypted = append(encrypted, r)
		}
	}
	m, e := splitMessages(buf)
	if e != nil && err == nil {
		err = e
	}
	return m, encrypted, alerts, opaque, nCCS, err
}

// wAlert is one alert seen on the wire.
type wAlert struct {
	Dir       string `json:"direction"` // "c2s" (sent by the client) or "s2c" (delivered to the client)
	Level     byte   `json:"level"`
	Desc      byte   `json:"description"`
	Protected bool   `json:"protected,omitempty"` // was inside a protected record the harness opened
}

type wext struct {
	Typ  uint16
	Data []byte
	Raw  []byte // type + length + data
}

func parseExts(b []byte) ([]wext, error) {
	var out []wext
	r := rd{b: b}
	for !r.empty() {
		start := r.b
		t := r.u16()
		d := r.vec16()
		if r.bad {
			return out, errors.New("bad extension block")
		}
		out = append(out, wext{Typ: uint16(t), Data: d, Raw: start[:4+len(d)]})
	}
	return out, nil
}

func findExt(exts []wext, t uint16) (wext, bool) {
	for _, e := range exts {
		if e.Typ == t {
			return e, true
		}
	}
	return wext{}, false
}

type wClientHello struct {
	Vers      uint16
	Random    []byte
	SessionID []byte
	Suites    []uint16
	Comp      []byte
	Exts      []wext
	Raw       []byte
}

func parseClientHello(m hsMsg) (*wClientHello, error) {
	r := rd{b: m.Body}
	h := &wClientHello{Raw: m.Raw}
	h.Vers = uint16(r.u16())
	h.Random = r.take(32)
	h.SessionID = r.vec8()
	cs := rd{b: r.vec16()}
	for !cs.empty() {
		h.Suites = append(h.Suites, uint16(cs.u16()))
	}
	h.Comp = r.vec8()
	if r.bad || cs.bad {
		return nil, errors.New("bad ClientHello")
	}
	if !r.empty() {
		eb := r.vec16()
		if r.bad || !r.empty() {
			return nil, errors.New("bad ClientHello extensions")
		}
		var err error
		if h.Exts, err = parseExts(eb); err != nil {
			return nil, err
		}
	}
	return h, nil
}

type wServerHello struct {
	Vers      uint16
	Random    []byte
	SessionID []byte
	Suite     uint16
	Comp      byte
	Exts      []wext
	Raw       []byte
}

func parseServerHello(m hsMsg) (*wServerHello, error) {
	r := rd{b: m.Body}
	h := &wServerHello{Raw: m.Raw}
	h.Vers = uint16(r.u16())
	h.Random = r.take(32)
	h.SessionID = r.vec8()
	h.Suite = uint16(r.u16())
	h.Comp = byte(r.u8())
	if r.bad {
		return nil, errors.New("bad ServerHello")
	}
	if !r.empty() {
		eb := r.vec16()
		if r.bad || !r.empty() {
			return nil, errors.New("bad ServerHello extensions")
		}
		var err error
		if h.Exts, err = parseExts(eb); err != nil {
			return nil, err
		}
	}
	return h, nil
}

// negotiated version of a ServerHello: supported_versions if present, else legacy_version.
func (h *wServerHello) version() uint16 {
	if e, ok := findExt(h.Exts, extSuppVersions); ok && len(e.Data) == 2 {
		return uint16(e.Data[0])<<8 | uint16(e.Data[1])
	}
	return h.Vers
}

func u16list(b []byte) ([]uint16, bool) {
	if len(b)%2 != 0 {
		return nil, false
	}
	var out []uint16
	for i := 0; i < len(b); i += 2 {
		out = append(out, uint16(b[i])<<8|uint16(b[i+1]))
	}
	return out, true
}

// extension payload decoders (nil/false when malformed)
func decSNI(d []byte) (string, bool) {
	r := rd{b: d}
	l := rd{b: r.vec16()}
	if r.bad || !r.empty() {
		return "", false
	}
	for !l.empty() {
		t := l.u8()
		n := l.vec16()
		if l.bad {
			return "", false
		}
		if t == 0 {
			return string(n), true
		}
	}
	return "", false
}

func decU16Vec16(d []byte) ([]uint16, bool) { // supported_groups, signature_algorithms
	r := rd{b: d}
	v := r.vec16()
	if r.bad || !r.empty() {
		return nil, false
	}
	return u16list(v)
}

func decVec8(d []byte) ([]byte, bool) { // ec_point_formats, renegotiation_info
	r := rd{b: d}
	v := r.vec8()
	if r.bad || !r.empty() {
		return nil, false
	}
	return v, true
}

func decALPN(d []byte) ([]string, bool) {
	r := rd{b: d}
	l := rd{b: r.vec16()}
	if r.bad || !r.empty() {
		return nil, false
	}
	var out []string
	for !l.empty() {
		p := l.vec8()
		if l.bad {
			return nil, false
		}
		out = append(out, string(p))
	}
	return out, true
}

func decCHVersions(d []byte) ([]uint16, bool) {
	r := rd{b: d}
	v := r.vec8()
	if r.bad || !r.empty() {
		return nil, false
	}
	return u16list(v)
}

func decSCTList(d []byte) ([][]byte, bool) {
	r := rd{b: d}
	l := rd{b: r.vec16()}
	if r.bad || !r.empty() {
		return nil, false
	}
	var out [][]byte
	for !l.empty() {
		s := l.vec16()
		if l.bad {
			return nil, false
		}
		out = append(out, s)
	}
	return out, true
}

// Certificate (<= TLS 1.2)
func parseCertificate12(body []byte) ([][]byte, error) {
	r := rd{b: body}
	l := rd{b: r.vec24()}
	if r.bad || !r.empty() {
		return nil, errors.New("bad Certificate")
	}
	var out [][]byte
	for !l.empty() {
		c := l.vec24()
		if l.bad {
			return nil, errors.New("bad Certificate entry")
		}
		out = append(out, c)
	}
	return out, nil
}

// Certificate (TLS 1.3): context, then entries of cert_data + extensions.
func parseCertificate13(body []byte) ([][]byte, error) {
	r := rd{b: body}
	r.vec8()
	l := rd{b: r.vec24()}
	if r.bad || !r.empty() {
		return nil, errors.New("bad Certificate (1.3)")
	}
	var out [][]byte
	for !l.empty() {
		c := l.vec24()
		l.vec16()
		if l.bad {
			return nil, errors.New("bad CertificateEntry")
		}
		out = append(out, c)
	}
	return out, nil
}

type wSKX struct {
	Body []byte
	// ECDHE
	CurveType int
	Curve     uint16
	Point     []byte
	// DHE
	P, G, Ys *big.Int
	Params   []byte // the signed ServerECDHParams / ServerDHParams bytes
	HasAlg   bool
	Hash     byte // first byte on the wire (HashAlgorithm / high byte of SignatureScheme)
	Sig      byte // second byte on the wire
	SigBytes []byte
}

// parseSKX parses ServerKeyExchange for an ECDHE or DHE suite. tls12: a
// SignatureAndHashAlgorithm precedes the signature (RFC 5246 7.4.3).
func parseSKX(body []byte, dhe bool, tls12 bool) (*wSKX, error) {
	s := &wSKX{Body: body}
	r := rd{b: body}
	if dhe {
		p, g, y := r.vec16(), r.vec16(), r.vec16()
		if r.bad {
			return nil, errors.New("bad ServerDHParams")
		}
		s.P, s.G, s.Ys = new(big.Int).SetBytes(p), new(big.Int).SetBytes(g), new(big.Int).SetBytes(y)
	} else {
		s.CurveType = r.u8()
		s.Curve = uint16(r.u16())
		s.Point = r.vec8()
		if r.bad || s.CurveType != 3 {
			return nil, errors.New("bad ServerECDHParams")
		}
	}
	s.Params = body[:len(body)-len(r.b)]
	if tls12 {
		s.HasAlg = true
		s.Hash = byte(r.u8())
		s.Sig = byte(r.u8())
	}
	s.SigBytes = r.vec16()
	if r.bad || !r.empty() {
		return nil, errors.New("bad ServerKeyExchange signature")
	}
	return s, nil
}

type wNST struct {
	Lifetime uint32
	Ticket   []byte
}

func parseNST(body []byte) (*wNST, error) {
	r := rd{b: body}
	n := &wNST{}
	n.Lifetime = r.u32()
	n.Ticket = r.vec16()
	if r.bad || !r.empty() {
		return nil, errors.New("bad NewSessionTicket")
	}
	return n, nil
}

// wire12 is the parsed plaintext part of a TLS <= 1.2 connection.
type wire struct {
	Vers   uint16 // negotiated
	TLS13  bool
	CH     *wClientHello   // first ClientHello
	CHs    []*wClientHello // all (2 after a HelloRetryRequest)
	SHs    []*wServerHello // all ServerHello-typed messages (HRR first if any)
	SH     *wServerHello   // the real ServerHello (last)
	Certs  [][]byte
	HasCrt bool
	SKX    *hsMsg
	CKX    *hsMsg
	NST    *wNST
	Status []byte
	// handshake messages in wire order of both directions, for the Finished reference
	C2S, S2C []hsMsg
	EncS2C   []tlsx.Record
	EncC2S   []tlsx.Record
	Resumed  bool // abbreviated handshake (<=1.2): server Finished precedes client Finished
	EEALPN   string
	EEok     bool
	// alerts of both directions in wire order per direction (plaintext ones; protected ones once opened)
	Alerts []wAlert
	// alert-typed or protected records the harness could not read (a protected alert may hide in them)
	OpaqueAlerts int
	Unopened     int  // TLS 1.3: protected records no available traffic secret opened
	NoSH         bool // the server never sent a ServerHello (it refused the ClientHello)
	// TLS 1.3: Finished verify_data of both sides once the protected flights were opened
	Fin13S, Fin13C []byte
}

func isHRR(h *wServerHello) bool {
	hrr := []byte{0xCF, 0x21, 0xAD, 0x74, 0xE5, 0x9A, 0x61, 0x11, 0xBE, 0x1D, 0x8C, 0x02, 0x1E, 0x65, 0xB8, 0x91,
		0xC2, 0xA2, 0x11, 0x16, 0x7A, 0xBB, 0x8C, 0x5E, 0x07, 0x9E, 0x09, 0xE2, 0xC8, 0xA8, 0x33, 0x9C}
	return string(h.Random) == string(hrr)
}

// parseWire parses both directions of a captured transcript.
func parseWire(c2s, s2c []byte) (*wire, error) {
	w := &wire{}
	sr := tlsx.ParseRecords(s2c)
	cr := tlsx.ParseRecords(c2s)
	if n := len(sr); n == 0 || sr[n-1].End() != len(s2c) {
		return nil, errors.New("s2c stream does not split into whole records")
	}
	if n := len(cr); n == 0 || cr[n-1].End() != len(c2s) {
		return nil, errors.New("c2s stream does not split into whole records")
	}
	// The first server record carries the ServerHello: it decides the version. A server that refuses the
	// ClientHello answers with a plaintext alert instead.
	var err error
	if sr[0].Type == recAlert && len(sr[0].Payload) == 2 {
		w.NoSH = true
	} else {
		if sr[0].Type != recHandshake {
			return nil, fmt.Errorf("first server record has type %d", sr[0].Type)
		}
		first, err := splitMessages(sr[0].Payload)
		if (err != nil && len(first) == 0) || len(first) == 0 || first[0].Typ != hsServerHello {
			return nil, errors.New("first server message is not a ServerHello")
		}
		sh0, err := parseServerHello(first[0])
		if err != nil {
			return nil, err
		}
		w.Vers = sh0.version()
		w.TLS13 = w.Vers == 0x0304
	}
	var e1, e2 error
	var as, ac []wAlert
	var nos, noc int
	w.S2C, w.EncS2C, as, nos, _, e1 = plainFlight(sr, w.TLS13)
	w.C2S, w.EncC2S, ac, noc, _, e2 = plainFlight(cr, w.TLS13)
	for _, a := range ac {
		a.Dir = "c2s"
		w.Alerts = append(w.Alerts, a)
	}
	for _, a := range as {
		a.Dir = "s2c"
		w.Alerts = append(w.Alerts, a)
	}
	w.OpaqueAlerts = nos + noc
	if e1 != nil {
		return nil, fmt.Errorf("s2c: %v", e1)
	}
	if e2 != nil {
		return nil, fmt.Errorf("c2s: %v", e2)
	}
	for _, m := range w.C2S {
		switch m.Typ {
		case hsClientHello:
			h, err := parseClientHello(m)
			if err != nil {
				return nil, err
			}
			w.CHs = append(w.CHs, h)
		case hsClientKeyExchange:
			mm := m
			w.CKX = &mm
		}
	}
	for _, m := range w.S2C {
		switch m.Typ {
		case hsServerHello:
			h, err := parseServerHello(m)
			if err != nil {
				return nil, err
			}
			w.SHs = append(w.SHs, h)
		case hsCertificate:
			w.HasCrt = true
			if w.Certs, err = parseCertificate12(m.Body); err != nil {
				return nil, err
			}
		case hsServerKeyExchange:
			mm := m
			w.SKX = &mm
		case hsNewSessionTicket:
			if w.NST, err = parseNST(m.Body); err != nil {
				return nil, err
			}
		case hsCertStatus:
			w.Status = m.Body
		}
	}
	if len(w.CHs) == 0 || (len(w.SHs) == 0 && !w.NoSH) {
		return nil, errors.New("no hello on the wire")
	}
	w.CH = w.CHs[0]
	if w.NoSH {
		return w, nil
	}
	w.SH = w.SHs[len(w.SHs)-1]
	if !w.TLS13 {
		// abbreviated handshake: no Certificate/ServerHelloDone in the plaintext server flight
		done := false
		for _, m := range w.S2C {
			if m.Typ == hsServerHelloDone {
				done = true
			}
		}
		w.Resumed = !done
	}
	return w, nil
}
