package main

// Value alphabets of check C30, one spec per codec type.
//
// Every size below is derived from the TLS wire format (length-prefix widths
// and extension framing of RFC 5246 §7.4, RFC 5077 §3.3, RFC 6066, RFC 7301,
// RFC 6962 §3.3, RFC 8446 §4, draft-rescorla-tls-extended-random), not from
// zcrypto's code.  `cost` is the number of bytes an alternative occupies in
// the type's shared 16-bit container (the extensions block), so that a
// combination whose sum exceeds 65535 is known to be unrepresentable.

import "fmt"

type status int

const (
	In  status = iota // representable: must marshal, decode and compare equal
	Amb               // RFC-forbidden edge a codec may tolerate: reject or round-trip, never decode differently
	Out               // not representable on the wire (gated-off data, over-capacity): observed only
)

func (s status) String() string {
	return [...]string{"in-domain", "borderline", "not-representable"}[s]
}

type kv struct {
	path string
	val  any
}

type alt struct {
	name string
	st   status
	cost int
	set  []kv
	rich bool
	// sparse: a size-boundary value of >= 64 KiB: the prefix walks visit only the cut points within 2 bytes of
	// every length field of the encoding, the first 5 and the last 8 (see sparseCuts), not every byte
	sparse bool
}

type slot struct {
	name string
	alts []alt // alts[0] is the default
}

type spec struct {
	name         string
	slots        []slot
	capacity     int // of the shared container the costs refer to (0: none)
	domain       func(sel func(slot string) string) status
	ctx          []string // decode-context fields handed to the receiver
	strictPrefix bool     // false: optional tail, prefix verdicts observed only
	noHeader     bool     // not a handshake message: the encoding has no type+uint24 length header
}

func a(name string, st status, cost int, kvs ...any) alt {
	al := alt{name: name, st: st, cost: cost}
	for i := 0; i+1 < len(kvs); i += 2 {
		al.set = append(al.set, kv{kvs[i].(string), kvs[i+1]})
	}
	return al
}

func rich(al alt) alt { al.rich = true; return al }

// bz: n deterministic bytes (never all equal, last byte never '.').
func bz(n int, seed int) []byte {
	b := make([]byte, n)
	for i := range b {
		b[i] = byte(seed + i*29 + i>>8)
	}
	if n > 0 && b[n-1] == '.' {
		b[n-1] = '/'
	}
	return b
}

func fill(n int, v byte) []byte {
	b := make([]byte, n)
	for i := range b {
		b[i] = v
	}
	return b
}

func str(n int) string {
	b := make([]byte, n)
	for i := range b {
		b[i] = byte('a' + i%26)
	}
	return string(b)
}

func u16s(n int, first uint16) []uint16 {
	o := make([]uint16, n)
	for i := range o {
		o[i] = first + uint16(i)*3
		if o[i] == 0x00ff { // never the renegotiation SCSV by accident
			o[i] = 0x0100
		}
	}
	return o
}

const extCap = 65535 // extensions<0..2^16-1>

// ---- slots shared by several types -------------------------------------------

func u16slot(name, path string, def uint16, others ...uint16) slot {
	s := slot{name: name, alts: []alt{a(fmt.Sprintf("%#04x", def), In, 0, path, def)}}
	for i, o := range others {
		al := a(fmt.Sprintf("%#04x", o), In, 0, path, o)
		if i == len(others)-1 {
			al = rich(al)
		}
		s.alts = append(s.alts, al)
	}
	return s
}

func u32slot(name, path string) slot {
	return slot{name, []alt{
		a("0", In, 0, path, uint32(0)),
		a("1", In, 0, path, uint32(1)),
		rich(a("0x01020304", In, 0, path, uint32(0x01020304))),
		a("max", In, 0, path, uint32(0xffffffff)),
	}}
}

func u64slot(name, path string) slot {
	return slot{name, []alt{
		a("1700000000", In, 0, path, uint64(1700000000)),
		a("0", In, 0, path, uint64(0)),
		a("1", In, 0, path, uint64(1)),
		a("2^32-1", In, 0, path, uint64(0xffffffff)),
		a("2^32", In, 0, path, uint64(1)<<32),
		rich(a("0x0102030405060708", In, 0, path, uint64(0x0102030405060708))),
		a("max", In, 0, path, ^uint64(0)),
	}}
}

func randomSlot() slot {
	return slot{"random", []alt{
		a("pattern", In, 0, "random", bz(32, 1)),
		a("all-00", In, 0, "random", fill(32, 0)),
		rich(a("all-ff", In, 0, "random", fill(32, 0xff))),
		a("31B", Out, 0, "random", bz(31, 1)), // Random is exactly 32 bytes
		a("33B", Out, 0, "random", bz(33, 1)),
	}}
}

func sessionIDSlot() slot {
	return slot{"sessionId", []alt{
		a("empty", In, 0, "sessionId", []byte(nil)),
		a("1B", In, 0, "sessionId", bz(1, 7)),
		rich(a("32B", In, 0, "sessionId", bz(32, 7))),
		a("255B", In, 0, "sessionId", bz(255, 7)), // opaque<0..32> by RFC, the 8-bit prefix carries 255
		a("256B", Out, 0, "sessionId", bz(256, 7)),
	}}
}

// renegotiation_info: ext(4) + opaque<0..255> (1+n)
func renegSlot() slot {
	f, d := "secureRenegotiationSupported", "secureRenegotiation"
	return slot{"renegotiation", []alt{
		a("absent", In, 0, f, false, d, []byte(nil)),
		a("present-empty", In, 5, f, true, d, []byte(nil)),
		a("present-1B", In, 6, f, true, d, bz(1, 9)),
		rich(a("present-36B", In, 41, f, true, d, bz(36, 9))),
		a("present-255B", In, 260, f, true, d, bz(255, 9)),
		a("present-256B", Out, 261, f, true, d, bz(256, 9)),
		a("gated-off-1B", Out, 0, f, false, d, bz(1, 9)),
	}}
}

// ec_point_formats: ext(4) + u8 list (1+n), list non-empty when present
func pointsSlot() slot {
	p := "supportedPoints"
	return slot{p, []alt{
		a("absent", In, 0, p, []byte(nil)),
		a("[0]", In, 6, p, []byte{0}),
		rich(a("[0,1,2]", In, 8, p, []byte{0, 1, 2})),
		a("255B", In, 260, p, bz(255, 3)),
		a("256B", Out, 261, p, bz(256, 3)),
	}}
}

// cookie: ext(4) + opaque<1..2^16-1> (2+n)
func cookieSlot() slot {
	p := "cookie"
	fit := extCap - 6
	return slot{p, []alt{
		a("absent", In, 0, p, []byte(nil)),
		a("1B", In, 7, p, bz(1, 5)),
		rich(a("32B", In, 38, p, bz(32, 5))),
		a(fmt.Sprintf("%dB-fills-extensions", fit), In, 6+fit, p, bz(fit, 5)),
		a(fmt.Sprintf("%dB-overflows-extensions", fit+1), Out, 6+fit+1, p, bz(fit+1, 5)),
		a("65536B", Out, 6+65536, p, bz(65536, 5)),
	}}
}

func boolSlot(name string, cost int) slot {
	return slot{name, []alt{a("false", In, 0, name, false), rich(a("true", In, cost, name, true))}}
}

// signature_algorithms(_cert): ext(4) + u16 list (2+2k), non-empty when present
func sigAlgSlot(p string) slot {
	return slot{p, []alt{
		a("absent", In, 0, p, []uint16(nil)),
		a("[0x0403]", In, 8, p, []uint16{0x0403}),
		rich(a("[0,1,0xffff]", In, 12, p, []uint16{0, 1, 0xffff})),
		a("300", In, 606, p, u16s(300, 0x0201)),
	}}
}

// a certificate_authorities extension / list: ext(4)+list(2)+Σ(2+n)
func casAlts(p string, extHdr int, capacity int) []alt {
	fit := capacity - extHdr - 2 - 2
	return []alt{
		a("none", In, 0, p, [][]byte(nil)),
		a("[1B]", In, extHdr+2+3, p, [][]byte{bz(1, 11)}),
		rich(a("[1B,32B,300B]", In, extHdr+2+3+34+302, p, [][]byte{bz(1, 11), bz(32, 12), bz(300, 13)})),
		a("40x10B", In, extHdr+2+40*12, p, many(40, 10)),
		a(fmt.Sprintf("[%dB]-fills-list", fit), In, capacity, p, [][]byte{bz(fit, 14)}),
		a(fmt.Sprintf("[%dB]-overflows-list", fit+1), Out, capacity+1, p, [][]byte{bz(fit+1, 14)}),
	}
}

func many(k, n int) [][]byte {
	o := make([][]byte, k)
	for i := range o {
		o[i] = bz(n, 40+i)
	}
	return o
}

// certificate list of opaque<1..2^24-1> entries
// carryLengths: values at which a 24-bit length field carries into its top byte (2^16, 2^17) and their
// neighbours. A length field that sits `off` bytes of framing above an opaque element reaches L when the
// element has L-off bytes.
var carryLengths = []int{65535, 65536, 65537, 65538, 65539, 131071, 131072, 131073}

// carrySizes: every element size that puts one of the length fields (given by its framing offset above the
// element) on one of carryLengths; ascending, without duplicates.
func carrySizes(offsets ...int) []int {
	seen := map[int]bool{}
	var out []int
	for _, L := range carryLengths {
		for _, o := range offsets {
			if n := L - o; n > 0 && !seen[n] {
				seen[n] = true
				out = append(out, n)
			}
		}
	}
	for i := range out {
		for j := i + 1; j < len(out); j++ {
			if out[j] < out[i] {
				out[i], out[j] = out[j], out[i]
			}
		}
	}
	return out
}

func sparseAlt(al alt) alt { al.sparse = true; return al }

// addAlts appends the alternatives whose name is not in the list yet (a size that the base alphabet already
// has keeps its base form, with the full prefix walk).
func addAlts(list []alt, more ...alt) []alt {
	for _, m := range more {
		dup := false
		for _, l := range list {
			dup = dup || l.name == m.name
		}
		if !dup {
			list = append(list, m)
		}
	}
	return list
}

// certListAlts: perEntry = framing bytes of one list entry (3: uint24 cert length; TLS 1.3: +2 for the
// entry's extensions length), aboveList = bytes between the handshake header and the list's own uint24
// length inclusive of that length (3; TLS 1.3: +1 for the empty request context).
func certListAlts(p string, perEntry, aboveList int) []alt {
	out := certListBase(p)
	// one certificate: its own length, the list length and the header length each on every carry value
	for _, n := range carrySizes(0, perEntry, perEntry+aboveList) {
		out = addAlts(out, sparseAlt(a(fmt.Sprintf("[%dB]", n), In, 0, p, [][]byte{bz(n, 24)})))
	}
	// two certificates: the list length and the header length on every carry value; the first certificate is
	// 30000 bytes below 2^16+4 and exactly 2^16 bytes (its own length field carries) above
	for _, n := range carrySizes(2*perEntry, 2*perEntry+aboveList) {
		first := 30000
		if n > 100000 {
			first = 65536
		}
		out = addAlts(out, sparseAlt(a(fmt.Sprintf("[%dB,%dB]", first, n-first), In, 0, p, [][]byte{bz(first, 24), bz(n-first, 25)})))
	}
	return out
}

func certListBase(p string) []alt {
	return []alt{
		a("[1B]", In, 0, p, [][]byte{bz(1, 21)}),
		a("none", In, 0, p, [][]byte(nil)),
		rich(a("[1B,32B,300B]", In, 0, p, [][]byte{bz(1, 21), bz(32, 22), bz(300, 23)})),
		a("20x10B", In, 0, p, many(20, 10)),
		a("[65535B]", In, 0, p, [][]byte{bz(65535, 24)}),
		a("[65536B]", In, 0, p, [][]byte{bz(65536, 24)}),
		a("[70000B,1B]", In, 0, p, [][]byte{bz(70000, 24), bz(1, 25)}),
		a("[empty-cert]", Amb, 0, p, [][]byte{{}}), // ASN.1Cert<1..2^24-1>
	}
}

// leaf-entry extensions of a TLS 1.3 CertificateEntry (RFC 8446 §4.4.2):
// status_request: ext(4)+type(1)+opaque<1..2^24-1>(3+n); SCT: ext(4)+list(2)+Σ(2+n)
func ocspAlts(flag, p string) []alt {
	fit := extCap - 8
	mk := func(name string, st status, cost int, on bool, v []byte) alt {
		if flag == "" {
			return a(name, st, cost, p, v)
		}
		return a(name, st, cost, flag, on, p, v)
	}
	out := []alt{
		mk("absent", In, 0, false, nil),
		mk("1B", In, 9, true, bz(1, 31)),
		rich(mk("100B", In, 108, true, bz(100, 31))),
		mk(fmt.Sprintf("%dB-fills-entry-extensions", fit), In, extCap, true, bz(fit, 31)),
		mk("empty-non-nil", Amb, 8, true, []byte{}),
	}
	if flag != "" {
		out = append(out,
			mk("flag-off-1B", Out, 0, false, bz(1, 31)), // the flag says whether the peer asked: data is dropped
			mk("flag-on-no-staple", Out, 0, true, nil))
	}
	return out
}

func sctAlts(flag, p string) []alt {
	fit := extCap - 6 - 2
	mk := func(name string, st status, cost int, on bool, v [][]byte) alt {
		if flag == "" {
			return a(name, st, cost, p, v)
		}
		return a(name, st, cost, flag, on, p, v)
	}
	out := []alt{
		mk("absent", In, 0, false, nil),
		mk("[1B]", In, 9, true, [][]byte{bz(1, 33)}),
		rich(mk("[1B,300B]", In, 6+3+302, true, [][]byte{bz(1, 33), bz(300, 34)})),
		mk(fmt.Sprintf("[%dB]-fills-entry-extensions", fit), In, extCap, true, [][]byte{bz(fit, 35)}),
		mk("[empty-sct]", Amb, 8, true, [][]byte{{}}), // SerializedSCT<1..2^16-1>
		mk("empty-non-nil-list", Amb, 6, true, [][]byte{}),
	}
	if flag != "" {
		out = append(out,
			mk("flag-off-[1B]", Out, 0, false, [][]byte{bz(1, 33)}),
			mk("flag-on-no-scts", Out, 0, true, nil))
	}
	return out
}

func leafExtDomain(certSlot, ocspSlot, sctSlot string) func(sel func(string) string) status {
	return func(sel func(string) string) status {
		if sel(certSlot) == "none" && (sel(ocspSlot) != "absent" || sel(sctSlot) != "absent") {
			return Out // staple and SCTs hang off the leaf CertificateEntry
		}
		return In
	}
}

// ---- the 20 types ------------------------------------------------------------

func allSpecs() []*spec {
	var specs []*spec

	// ClientHello (RFC 5246 §7.4.1.2, RFC 8446 §4.1.2); extensions block optional.
	{
		sniFit := extCap - 9
		ticketFit := extCap - 4
		ksFit := extCap - 6 - 4
		pskBase := 4 + 2 + 2 // ext header, identities length, binders length
		pskFit := extCap - pskBase - 6 - 33
		ks := func(g uint16, d []byte) map[string]any { return map[string]any{"group": g, "data": d} }
		id := func(l []byte, age uint32) map[string]any {
			return map[string]any{"label": l, "obfuscatedTicketAge": age}
		}
		sp := &spec{name: "clientHelloMsg", capacity: extCap, strictPrefix: false}
		sp.slots = []slot{
			u16slot("vers", "vers", 0x0303, 0, 1, 0xffff, 0x0102),
			randomSlot(),
			sessionIDSlot(),
			{"cipherSuites", []alt{
				a("[0x1301]", In, 0, "cipherSuites", []uint16{0x1301}),
				a("empty", Amb, 0, "cipherSuites", []uint16(nil)), // cipher_suites<2..2^16-2>
				rich(a("[0,1,0xffff]", In, 0, "cipherSuites", []uint16{0, 1, 0xffff})),
				a("[0x1301,SCSV]", In, 0, "cipherSuites", []uint16{0x1301, 0x00ff}),
				a("32767-suites", In, 0, "cipherSuites", u16s(32767, 0x0100)),
				a("32768-suites", Out, 0, "cipherSuites", u16s(32768, 0x0100)),
			}},
			{"compressionMethods", []alt{
				a("[0]", In, 0, "compressionMethods", []byte{0}),
				a("empty", Amb, 0, "compressionMethods", []byte(nil)), // <1..2^8-1>
				rich(a("[0,1,255]", In, 0, "compressionMethods", []byte{0, 1, 255})),
				a("255B", In, 0, "compressionMethods", bz(255, 2)),
				a("256B", Out, 0, "compressionMethods", bz(256, 2)),
			}},
			// server_name: ext(4)+list(2)+type(1)+HostName<1..2^16-1>(2+n)
			{"serverName", []alt{
				a("absent", In, 0, "serverName", ""),
				a("a", In, 10, "serverName", "a"),
				rich(a("example.com", In, 20, "serverName", "example.com")),
				a("bytes-00-ff", In, 11, "serverName", "\x00\xff"),
				a("255B", In, 264, "serverName", str(255)),
				a(fmt.Sprintf("%dB-fills-extensions", sniFit), In, extCap, "serverName", str(sniFit)),
				a("trailing-dot", Out, 11, "serverName", "a."), // not a valid HostName (RFC 6066 §3)
			}},
			boolSlot("ocspStapling", 9), // ext(4)+type(1)+two empty u16 lists
			// supported_groups: ext(4)+u16 list(2+2k)
			{"supportedCurves", []alt{
				a("absent", In, 0, "supportedCurves", []uint16(nil)),
				a("[29]", In, 8, "supportedCurves", []uint16{29}),
				rich(a("[0,1,0xffff]", In, 12, "supportedCurves", []uint16{0, 1, 0xffff})),
				a("1000", In, 2006, "supportedCurves", u16s(1000, 1)),
			}},
			pointsSlot(),
			// session_ticket: ext(4)+ticket bytes
			{"sessionTicket", []alt{
				a("absent", In, 0, "ticketSupported", false, "sessionTicket", []byte(nil)),
				a("present-empty", In, 4, "ticketSupported", true, "sessionTicket", []byte(nil)),
				a("present-1B", In, 5, "ticketSupported", true, "sessionTicket", bz(1, 4)),
				rich(a("present-300B", In, 304, "ticketSupported", true, "sessionTicket", bz(300, 4))),
				a(fmt.Sprintf("present-%dB-fills-extensions", ticketFit), In, extCap, "ticketSupported", true, "sessionTicket", bz(ticketFit, 4)),
				a("gated-off-1B", Out, 0, "ticketSupported", false, "sessionTicket", bz(1, 4)),
			}},
			sigAlgSlot("supportedSignatureAlgorithms"),
			sigAlgSlot("supportedSignatureAlgorithmsCert"),
			renegSlot(),
			// extended_random (draft-rescorla-tls-extended-random-02): ext(4)+opaque<0..2^16-1>(2+n);
			// 4 spare bytes so that any framing of the value fits.
			{"extendedRandom", []alt{
				a("absent", In, 0, "extendedRandomEnabled", false, "extendedRandom", []byte(nil)),
				a("present-1B", In, 11, "extendedRandomEnabled", true, "extendedRandom", bz(1, 6)),
				rich(a("present-32B", In, 42, "extendedRandomEnabled", true, "extendedRandom", bz(32, 6))),
				a("present-empty", Amb, 10, "extendedRandomEnabled", true, "extendedRandom", []byte(nil)),
				a("gated-off-1B", Out, 0, "extendedRandomEnabled", false, "extendedRandom", bz(1, 6)),
			}},
			boolSlot("extendedMasterSecret", 4),
			// ALPN: ext(4)+list(2)+Σ ProtocolName<1..255>(1+n)
			{"alpnProtocols", []alt{
				a("absent", In, 0, "alpnProtocols", []string(nil)),
				a("[h2]", In, 9, "alpnProtocols", []string{"h2"}),
				rich(a("[h2,http/1.1,a]", In, 6+3+9+2, "alpnProtocols", []string{"h2", "http/1.1", "a"})),
				a("[255B]", In, 6+256, "alpnProtocols", []string{str(255)}),
				a("[256B]", Out, 6+257, "alpnProtocols", []string{str(256)}),
				a("[empty-name]", Amb, 7, "alpnProtocols", []string{""}),
			}},
			boolSlot("scts", 4),
			// supported_versions: ext(4)+u8 list(1+2k)
			{"supportedVersions", []alt{
				a("absent", In, 0, "supportedVersions", []uint16(nil)),
				a("[0x0304]", In, 7, "supportedVersions", []uint16{0x0304}),
				rich(a("[0x0304,0x0303,0xffff]", In, 11, "supportedVersions", []uint16{0x0304, 0x0303, 0xffff})),
				a("127", In, 5+254, "supportedVersions", u16s(127, 0x0300)),
				a("128", Out, 5+256, "supportedVersions", u16s(128, 0x0300)),
			}},
			cookieSlot(),
			// key_share: ext(4)+list(2)+Σ(group(2)+opaque<1..2^16-1>(2+n))
			{"keyShares", []alt{
				a("absent", In, 0, "keyShares", []map[string]any(nil)),
				a("[x25519:32B]", In, 6+36, "keyShares", []map[string]any{ks(29, bz(32, 8))}),
				rich(a("[0:1B,0xffff:32B,23:65B]", In, 6+5+36+69, "keyShares", []map[string]any{ks(0, bz(1, 8)), ks(0xffff, bz(32, 8)), ks(23, bz(65, 8))})),
				a(fmt.Sprintf("[29:%dB]-fills-extensions", ksFit), In, extCap, "keyShares", []map[string]any{ks(29, bz(ksFit, 8))}),
				a("[29:empty]", Amb, 10, "keyShares", []map[string]any{ks(29, nil)}),
			}},
			boolSlot("earlyData", 4),
			// psk_key_exchange_modes: ext(4)+u8 list(1+n)
			{"pskModes", []alt{
				a("absent", In, 0, "pskModes", []byte(nil)),
				a("[1]", In, 6, "pskModes", []byte{1}),
				rich(a("[1,0]", In, 7, "pskModes", []byte{1, 0})),
				a("255B", In, 260, "pskModes", bz(255, 1)),
				a("256B", Out, 261, "pskModes", bz(256, 1)),
			}},
			// pre_shared_key: ext(4)+identities(2+Σ(2+n+4))+binders(2+Σ(1+b))
			{"preSharedKey", []alt{
				a("absent", In, 0, "pskIdentities", []map[string]any(nil), "pskBinders", [][]byte(nil)),
				a("1id-1binder", In, pskBase+7+33, "pskIdentities", []map[string]any{id(bz(1, 3), 0)}, "pskBinders", [][]byte{bz(32, 4)}),
				rich(a("2ids-2binders", In, pskBase+38+7+33+256, "pskIdentities", []map[string]any{id(bz(32, 3), 0xffffffff), id(bz(1, 5), 1)}, "pskBinders", [][]byte{bz(32, 4), bz(255, 6)})),
				a(fmt.Sprintf("1id-%dB-fills-extensions", pskFit), In, extCap, "pskIdentities", []map[string]any{id(bz(pskFit, 3), 0x01020304)}, "pskBinders", [][]byte{bz(32, 4)}),
				a("1id-2binders", Amb, pskBase+7+66, "pskIdentities", []map[string]any{id(bz(1, 3), 0)}, "pskBinders", [][]byte{bz(32, 4), bz(32, 5)}),
				a("1id-no-binder", Amb, pskBase+7, "pskIdentities", []map[string]any{id(bz(1, 3), 0)}, "pskBinders", [][]byte(nil)),
				a("1id-empty-label", Amb, pskBase+6+33, "pskIdentities", []map[string]any{id(nil, 0)}, "pskBinders", [][]byte{bz(32, 4)}),
				a("1id-empty-binder", Amb, pskBase+7+1, "pskIdentities", []map[string]any{id(bz(1, 3), 0)}, "pskBinders", [][]byte{{}}),
				a("1id-256B-binder", Out, pskBase+7+257, "pskIdentities", []map[string]any{id(bz(1, 3), 0)}, "pskBinders", [][]byte{bz(256, 4)}),
				a("binders-without-identities", Out, 0, "pskIdentities", []map[string]any(nil), "pskBinders", [][]byte{bz(32, 4)}),
			}},
		}
		sp.domain = func(sel func(string) string) status {
			// TLS_EMPTY_RENEGOTIATION_INFO_SCSV *is* the statement "secure renegotiation supported" (RFC 5746 §3.3)
			if sel("cipherSuites") == "[0x1301,SCSV]" {
				switch sel("renegotiation") {
				case "absent", "gated-off-1B":
					return Out
				}
			}
			return In
		}
		specs = append(specs, sp)
	}

	// ServerHello / HelloRetryRequest (RFC 5246 §7.4.1.3, RFC 8446 §4.1.3/4.1.4); extensions block optional.
	{
		shareFit := extCap - 8
		sctFit := extCap - 6 - 2
		ext := func(typ uint16, body []byte) []byte {
			return append([]byte{byte(typ >> 8), byte(typ), byte(len(body) >> 8), byte(len(body))}, body...)
		}
		share := func(g uint16, d []byte) map[string]any { return map[string]any{"group": g, "data": d} }
		sp := &spec{name: "serverHelloMsg", capacity: extCap, strictPrefix: false}
		sp.slots = []slot{
			u16slot("vers", "vers", 0x0303, 0, 1, 0xffff, 0x0102),
			randomSlot(),
			sessionIDSlot(),
			u16slot("cipherSuite", "cipherSuite", 0x1301, 0, 0xffff, 0x0102),
			{"compressionMethod", []alt{
				a("0", In, 0, "compressionMethod", uint8(0)),
				a("1", In, 0, "compressionMethod", uint8(1)),
				rich(a("255", In, 0, "compressionMethod", uint8(255))),
			}},
			boolSlot("ocspStapling", 4),
			boolSlot("ticketSupported", 4),
			renegSlot(),
			boolSlot("extendedMasterSecret", 4),
			// ALPN with exactly one name: ext(4)+list(2)+(1+n)
			{"alpnProtocol", []alt{
				a("absent", In, 0, "alpnProtocol", ""),
				a("h2", In, 9, "alpnProtocol", "h2"),
				rich(a("255B", In, 7+255, "alpnProtocol", str(255))),
				a("256B", Out, 7+256, "alpnProtocol", str(256)),
			}},
			// SCT list: ext(4)+list(2)+Σ SerializedSCT<1..2^16-1>(2+n)
			{"scts", []alt{
				a("absent", In, 0, "scts", [][]byte(nil)),
				a("[1B]", In, 9, "scts", [][]byte{bz(1, 33)}),
				rich(a("[1B,32B,300B]", In, 6+3+34+302, "scts", [][]byte{bz(1, 33), bz(32, 34), bz(300, 35)})),
				a(fmt.Sprintf("[%dB]-fills-extensions", sctFit), In, extCap, "scts", [][]byte{bz(sctFit, 36)}),
				a("empty-non-nil-list", In, 0, "scts", [][]byte{}),
				a("[empty-sct]", Amb, 8, "scts", [][]byte{{}}),
			}},
			{"supportedVersion", []alt{
				a("absent(0)", In, 0, "supportedVersion", uint16(0)),
				a("0x0304", In, 6, "supportedVersion", uint16(0x0304)),
				a("1", In, 6, "supportedVersion", uint16(1)),
				rich(a("0xffff", In, 6, "supportedVersion", uint16(0xffff))),
			}},
			// key_share (ServerHello form): ext(4)+group(2)+opaque<1..2^16-1>(2+n); group 0 = absent
			{"serverShare", []alt{
				a("absent", In, 0, "serverShare", share(0, nil)),
				rich(a("x25519:32B", In, 8+32, "serverShare", share(29, bz(32, 8)))),
				a("1:1B", In, 9, "serverShare", share(1, bz(1, 8))),
				a("0xffff:65B", In, 8+65, "serverShare", share(0xffff, bz(65, 8))),
				a(fmt.Sprintf("29:%dB-fills-extensions", shareFit), In, extCap, "serverShare", share(29, bz(shareFit, 8))),
				a("29:empty", Amb, 8, "serverShare", share(29, nil)),
				a("group0-with-data", Out, 0, "serverShare", share(0, bz(1, 8))),
			}},
			// pre_shared_key (server form): ext(4)+selected_identity(2)
			{"selectedIdentity", []alt{
				a("absent", In, 0, "selectedIdentityPresent", false, "selectedIdentity", uint16(0)),
				a("present-0", In, 6, "selectedIdentityPresent", true, "selectedIdentity", uint16(0)),
				a("present-1", In, 6, "selectedIdentityPresent", true, "selectedIdentity", uint16(1)),
				rich(a("present-0xffff", In, 6, "selectedIdentityPresent", true, "selectedIdentity", uint16(0xffff))),
				a("gated-off-1", Out, 0, "selectedIdentityPresent", false, "selectedIdentity", uint16(1)),
			}},
			cookieSlot(),
			// key_share (HelloRetryRequest form): ext(4)+selected_group(2); 0 = absent
			{"selectedGroup", []alt{
				a("absent(0)", In, 0, "selectedGroup", uint16(0)),
				a("29", In, 6, "selectedGroup", uint16(29)),
				a("0xffff", In, 6, "selectedGroup", uint16(0xffff)),
			}},
			pointsSlot(),
			// extensions zcrypto does not interpret, kept verbatim (type, length, body)
			{"unknownExtensions", []alt{
				a("none", In, 0, "unknownExtensions", [][]byte(nil)),
				a("[0xfafa:empty]", In, 4, "unknownExtensions", [][]byte{ext(0xfafa, nil)}),
				rich(a("[0x0000:1B,0xfafa:32B]", In, 5+36, "unknownExtensions", [][]byte{ext(0, bz(1, 2)), ext(0xfafa, bz(32, 2))})),
				a("[0x0a0a:300B]", In, 304, "unknownExtensions", [][]byte{ext(0x0a0a, bz(300, 2))}),
				a("[malformed-length]", Out, 5, "unknownExtensions", [][]byte{{0xfa, 0xfa, 0x00, 0x09, 0x01}}),
			}},
		}
		sp.domain = func(sel func(string) string) status {
			// two key_share extensions in one message: RFC 8446 §4.2 forbids duplicates, a codec may carry both
			if sel("serverShare") != "absent" && sel("selectedGroup") != "absent(0)" {
				return Amb
			}
			return In
		}
		specs = append(specs, sp)
	}

	// EncryptedExtensions (RFC 8446 §4.3.1)
	specs = append(specs, &spec{name: "encryptedExtensionsMsg", strictPrefix: true, slots: []slot{
		{"alpnProtocol", []alt{
			a("absent", In, 0, "alpnProtocol", ""),
			a("h2", In, 0, "alpnProtocol", "h2"),
			a("a", In, 0, "alpnProtocol", "a"),
			rich(a("255B", In, 0, "alpnProtocol", str(255))),
			a("256B", Out, 0, "alpnProtocol", str(256)),
		}},
	}})

	specs = append(specs, &spec{name: "endOfEarlyDataMsg", strictPrefix: true})
	specs = append(specs, &spec{name: "serverHelloDoneMsg", strictPrefix: true})
	specs = append(specs, &spec{name: "helloRequestMsg", strictPrefix: true})

	specs = append(specs, &spec{name: "keyUpdateMsg", strictPrefix: true, slots: []slot{boolSlot("updateRequested", 0)}})

	// NewSessionTicket, TLS 1.3 (RFC 8446 §4.6.1)
	specs = append(specs, &spec{name: "newSessionTicketMsgTLS13", strictPrefix: true, slots: []slot{
		u32slot("lifetime", "lifetime"),
		u32slot("ageAdd", "ageAdd"),
		{"nonce", []alt{
			a("empty", In, 0, "nonce", []byte(nil)),
			a("1B", In, 0, "nonce", bz(1, 1)),
			rich(a("32B", In, 0, "nonce", bz(32, 1))),
			a("255B", In, 0, "nonce", bz(255, 1)),
			a("256B", Out, 0, "nonce", bz(256, 1)),
		}},
		{"label", []alt{
			a("32B", In, 0, "label", bz(32, 2)),
			a("empty", Amb, 0, "label", []byte(nil)), // ticket<1..2^16-1>
			a("1B", In, 0, "label", bz(1, 2)),
			rich(a("1000B", In, 0, "label", bz(1000, 2))),
			a("65535B", In, 0, "label", bz(65535, 2)),
			a("65536B", Out, 0, "label", bz(65536, 2)),
		}},
		u32slot("maxEarlyData", "maxEarlyData"),
	}})

	// CertificateRequest, TLS 1.3 (RFC 8446 §4.3.2)
	specs = append(specs, &spec{name: "certificateRequestMsgTLS13", capacity: extCap, strictPrefix: true, slots: []slot{
		boolSlot("ocspStapling", 4),
		boolSlot("scts", 4),
		sigAlgSlot("supportedSignatureAlgorithms"),
		sigAlgSlot("supportedSignatureAlgorithmsCert"),
		{"certificateAuthorities", append(casAlts("certificateAuthorities", 4, extCap),
			a("[empty-name]", Amb, 8, "certificateAuthorities", [][]byte{{}}), // DistinguishedName<1..2^16-1>
			a("empty-non-nil-list", In, 0, "certificateAuthorities", [][]byte{}))},
	}})

	// Certificate, TLS <= 1.2 (RFC 5246 §7.4.2)
	specs = append(specs, &spec{name: "certificateMsg", strictPrefix: true, slots: []slot{
		{"certificates", certListAlts("certificates", 3, 3)},
	}})

	// Certificate, TLS 1.3 (RFC 8446 §4.4.2)
	specs = append(specs, &spec{name: "certificateMsgTLS13", capacity: extCap, strictPrefix: true,
		domain: leafExtDomain("certificates", "ocspStaple", "scts"),
		slots: []slot{
			{"certificates", certListAlts("certificate.Certificate", 5, 4)},
			{"ocspStaple", ocspAlts("ocspStapling", "certificate.OCSPStaple")},
			{"scts", sctAlts("scts", "certificate.SignedCertificateTimestamps")},
		}})

	// ServerKeyExchange: header + opaque remainder; the codec does not frame the body.
	specs = append(specs, &spec{name: "serverKeyExchangeMsg", strictPrefix: false, slots: []slot{
		{"key", []alt{
			a("32B", In, 0, "key", bz(32, 1)),
			a("empty", In, 0, "key", []byte(nil)),
			a("1B", In, 0, "key", bz(1, 1)),
			rich(a("300B", In, 0, "key", bz(300, 1))),
			a("65536B", In, 0, "key", bz(65536, 1)),
			a("70000B", In, 0, "key", bz(70000, 1)),
		}},
	}})

	// CertificateStatus (RFC 6066 §8)
	specs = append(specs, &spec{name: "certificateStatusMsg", strictPrefix: true, slots: []slot{
		{"response", []alt{
			a("32B", In, 0, "response", bz(32, 1)),
			a("1B", In, 0, "response", bz(1, 1)),
			rich(a("300B", In, 0, "response", bz(300, 1))),
			a("65536B", In, 0, "response", bz(65536, 1)),
			a("70000B", In, 0, "response", bz(70000, 1)),
			a("empty", Amb, 0, "response", []byte(nil)), // OCSPResponse<1..2^24-1>
		}},
	}})
	{
		// size boundaries: the response length and the header length (status_type + uint24 = 4 bytes above) on every carry value
		sp := specs[len(specs)-1]
		for _, n := range carrySizes(0, 4) {
			sp.slots[0].alts = addAlts(sp.slots[0].alts, sparseAlt(a(fmt.Sprintf("%dB", n), In, 0, "response", bz(n, 1))))
		}
	}

	// ClientKeyExchange: header + opaque body of exactly the announced length
	specs = append(specs, &spec{name: "clientKeyExchangeMsg", strictPrefix: true, slots: []slot{
		{"ciphertext", []alt{
			a("32B", In, 0, "ciphertext", bz(32, 1)),
			a("empty", In, 0, "ciphertext", []byte(nil)),
			a("1B", In, 0, "ciphertext", bz(1, 1)),
			rich(a("1000B", In, 0, "ciphertext", bz(1000, 1))),
			a("65536B", In, 0, "ciphertext", bz(65536, 1)),
			a("70000B", In, 0, "ciphertext", bz(70000, 1)),
		}},
	}})

	// Finished: verify_data length depends on version/suite (12, 36, hash length)
	specs = append(specs, &spec{name: "finishedMsg", strictPrefix: false, slots: []slot{
		{"verifyData", []alt{
			a("12B", In, 0, "verifyData", bz(12, 1)),
			a("empty", In, 0, "verifyData", []byte(nil)),
			a("1B", In, 0, "verifyData", bz(1, 1)),
			a("32B", In, 0, "verifyData", bz(32, 1)),
			a("36B", In, 0, "verifyData", bz(36, 1)),
			rich(a("48B", In, 0, "verifyData", bz(48, 1))),
			a("70000B", In, 0, "verifyData", bz(70000, 1)),
		}},
	}})

	// CertificateRequest, TLS <= 1.2 (RFC 5246 §7.4.4); hasSignatureAlgorithm = "this is TLS 1.2", known to both sides
	specs = append(specs, &spec{name: "certificateRequestMsg", strictPrefix: true, ctx: []string{"hasSignatureAlgorithm"}, slots: []slot{
		{"signatureAlgorithms", []alt{
			a("pre-1.2", In, 0, "hasSignatureAlgorithm", false, "supportedSignatureAlgorithms", []uint16(nil)),
			a("1.2-[0x0403]", In, 0, "hasSignatureAlgorithm", true, "supportedSignatureAlgorithms", []uint16{0x0403}),
			rich(a("1.2-[0,1,0xffff]", In, 0, "hasSignatureAlgorithm", true, "supportedSignatureAlgorithms", []uint16{0, 1, 0xffff})),
			a("1.2-300", In, 0, "hasSignatureAlgorithm", true, "supportedSignatureAlgorithms", u16s(300, 0x0201)),
			a("1.2-empty", Amb, 0, "hasSignatureAlgorithm", true, "supportedSignatureAlgorithms", []uint16(nil)), // <2..2^16-2>
			a("pre-1.2-with-algorithms", Out, 0, "hasSignatureAlgorithm", false, "supportedSignatureAlgorithms", []uint16{0x0403}),
		}},
		{"certificateTypes", []alt{
			a("[1]", In, 0, "certificateTypes", []byte{1}),
			rich(a("[1,2,64]", In, 0, "certificateTypes", []byte{1, 2, 64})),
			a("255B", In, 0, "certificateTypes", bz(255, 1)),
			a("empty", Amb, 0, "certificateTypes", []byte(nil)), // <1..2^8-1>
			a("256B", Out, 0, "certificateTypes", bz(256, 1)),
		}},
		{"certificateAuthorities", append(casAlts("certificateAuthorities", 0, 65535+2),
			a("[empty-name]", Amb, 0, "certificateAuthorities", [][]byte{{}}),
			a("[65536B]", Out, 0, "certificateAuthorities", [][]byte{bz(65536, 14)}))},
	}})

	// CertificateVerify (RFC 5246 §7.4.8 / RFC 8446 §4.4.3)
	specs = append(specs, &spec{name: "certificateVerifyMsg", strictPrefix: true, ctx: []string{"hasSignatureAlgorithm"}, slots: []slot{
		{"signatureAlgorithm", []alt{
			a("1.2-0x0403", In, 0, "hasSignatureAlgorithm", true, "signatureAlgorithm", uint16(0x0403)),
			a("1.2-0", In, 0, "hasSignatureAlgorithm", true, "signatureAlgorithm", uint16(0)),
			rich(a("1.2-0xffff", In, 0, "hasSignatureAlgorithm", true, "signatureAlgorithm", uint16(0xffff))),
			a("pre-1.2", In, 0, "hasSignatureAlgorithm", false, "signatureAlgorithm", uint16(0)),
			a("pre-1.2-with-algorithm", Out, 0, "hasSignatureAlgorithm", false, "signatureAlgorithm", uint16(0x0403)),
		}},
		{"signature", []alt{
			a("64B", In, 0, "signature", bz(64, 1)),
			a("empty", In, 0, "signature", []byte(nil)), // opaque<0..2^16-1>
			a("1B", In, 0, "signature", bz(1, 1)),
			rich(a("512B", In, 0, "signature", bz(512, 1))),
			a("65535B", In, 0, "signature", bz(65535, 1)),
			a("65536B", Out, 0, "signature", bz(65536, 1)),
		}},
	}})

	// NewSessionTicket, TLS <= 1.2 (RFC 5077 §3.3): uint32 ticket_lifetime_hint; opaque ticket<0..2^16-1>
	specs = append(specs, &spec{name: "newSessionTicketMsg", strictPrefix: true, slots: []slot{
		{"ticket", []alt{
			a("32B", In, 0, "ticket", bz(32, 1)),
			a("empty", In, 0, "ticket", []byte(nil)),
			a("1B", In, 0, "ticket", bz(1, 1)),
			rich(a("300B", In, 0, "ticket", bz(300, 1))),
			a("65535B", In, 0, "ticket", bz(65535, 1)),
			a("65536B", Out, 0, "ticket", bz(65536, 1)),
		}},
		u32slot("lifetimeHint", "lifetimeHint"),
	}})

	// sessionState (tls/ticket.go): vers, suite, createdAt u64, master_secret<1..2^16-1>, certificate_list<0..2^24-1>
	specs = append(specs, &spec{name: "sessionState", strictPrefix: true, noHeader: true, ctx: []string{"usedOldKey"}, slots: []slot{
		u16slot("vers", "vers", 0x0303, 0, 1, 0xffff, 0x0102),
		u16slot("cipherSuite", "cipherSuite", 0xc02f, 0, 1, 0xffff, 0x0102),
		u64slot("createdAt", "createdAt"),
		{"masterSecret", []alt{
			a("48B", In, 0, "masterSecret", bz(48, 1)),
			a("1B", In, 0, "masterSecret", bz(1, 1)),
			rich(a("255B", In, 0, "masterSecret", bz(255, 1))),
			a("256B", In, 0, "masterSecret", bz(256, 1)),
			a("65535B", In, 0, "masterSecret", bz(65535, 1)),
			a("empty", Amb, 0, "masterSecret", []byte(nil)),
			a("65536B", Out, 0, "masterSecret", bz(65536, 1)),
		}},
		{"certificates", certListAlts("certificates", 3, 3)},
		boolSlot("usedOldKey", 0),
	}})

	// sessionStateTLS13 (tls/ticket.go): suite, createdAt u64, resumption_master_secret<1..2^8-1>, CertificateEntry list
	specs = append(specs, &spec{name: "sessionStateTLS13", capacity: extCap, strictPrefix: true, noHeader: true,
		domain: leafExtDomain("certificates", "ocspStaple", "scts"),
		slots: []slot{
			u16slot("cipherSuite", "cipherSuite", 0x1301, 0, 1, 0xffff, 0x0102),
			u64slot("createdAt", "createdAt"),
			{"resumptionSecret", []alt{
				a("32B", In, 0, "resumptionSecret", bz(32, 1)),
				a("1B", In, 0, "resumptionSecret", bz(1, 1)),
				rich(a("255B", In, 0, "resumptionSecret", bz(255, 1))),
				a("empty", Amb, 0, "resumptionSecret", []byte(nil)),
				a("256B", Out, 0, "resumptionSecret", bz(256, 1)),
			}},
			{"certificates", certListAlts("certificate.Certificate", 5, 4)},
			{"ocspStaple", ocspAlts("", "certificate.OCSPStaple")},
			{"scts", sctAlts("", "certificate.SignedCertificateTimestamps")},
		}})

	return specs
}
