// C30 — TLS handshake messages and session states round-trip and reject truncation.
//
// Engine E2 / G-field: for each of the 18 message types of
// tls/handshake_messages.go and the 2 session-state types of tls/ticket.go a
// value is a record of "slots" (a wire field, or a group of fields the wire
// format couples, e.g. {ticketSupported, sessionTicket}); each slot has a default
// and a short alphabet of alternatives placed at the boundaries of the wire
// format (empty / 1 / mid / capacity of the length prefix / capacity+1, 0/1/max
// integers, absent/present flags).  Every assignment with at most d non-default
// slots is enumerated (full Cartesian product for the small types) plus one
// "rich corner" with every slot non-default at once.  See specs.go.
//
// Oracle (from the property statement, nothing else):
//   - in-domain value m: marshal does not panic, is deterministic (two
//     independently built copies give the same bytes; a second call gives the same
//     bytes) and does not change m; unmarshal(marshal(m)) succeeds and the decoded
//     value equals m (nil == empty slice; the marshal cache `raw` is ignored, as the
//     repository's own test normalises it); marshalling the decoded value again
//     (cache cleared) gives the same bytes;
//   - for every type without an optional tail: no strict prefix of the encoding
//     is accepted, and no proper extension E||x of it is accepted (E||x accepted
//     would itself be a valid encoding to the codec with the accepted strict
//     prefix E: the accepted encodings must be prefix-free).
//
// Values at or beyond the edge of what the wire format can represent are still
// executed, but only observed: "amb" (the RFC forbids the value but a codec may
// tolerate it: reject or round-trip are both fine, decoding to a different value
// is not) and "out" (not representable: gated-off data, over-capacity lengths).
package main

import (
	"bytes"
	"encoding/hex"
	"encoding/json"
	"fmt"
	"go/ast"
	"go/parser"
	"go/token"
	"os"
	"path/filepath"
	"reflect"
	"sort"
	"strings"
	"sync"
	"unsafe"

	"github.com/zmap/zcrypto/tls"
	"verifmc/internal/ev"
)

// ---------------------------------------------------------------------------
// reflection helpers (fields of the message types are unexported)

func writable(f reflect.Value) reflect.Value {
	if f.CanSet() {
		return f
	}
	return reflect.NewAt(f.Type(), unsafe.Pointer(f.UnsafeAddr())).Elem()
}

// assign stores the plain Go value src into dst, converting named element types
// (CurveID, SignatureScheme ...), building unexported struct elements from
// map[string]any, and deep-copying every slice.
func assign(dst reflect.Value, src any) {
	if src == nil {
		dst.Set(reflect.Zero(dst.Type()))
		return
	}
	sv := reflect.ValueOf(src)
	switch dst.Kind() {
	case reflect.Slice:
		if sv.Kind() != reflect.Slice {
			panic(fmt.Sprintf("assign: %v <- %T", dst.Type(), src))
		}
		if sv.IsNil() {
			dst.Set(reflect.Zero(dst.Type()))
			return
		}
		out := reflect.MakeSlice(dst.Type(), sv.Len(), sv.Len())
		if dst.Type().Elem().Kind() == reflect.Uint8 && sv.Type().Elem().Kind() == reflect.Uint8 {
			reflect.Copy(out, sv)
		} else if src16, ok := src.([]uint16); ok && dst.Type().Elem().Kind() == reflect.Uint16 {
			// []uint16 -> []CurveID / []SignatureScheme / []uint16 (same memory layout)
			if len(src16) > 0 {
				copy(unsafe.Slice((*uint16)(out.UnsafePointer()), len(src16)), src16)
			}
		} else {
			for i := 0; i < sv.Len(); i++ {
				assign(out.Index(i), sv.Index(i).Interface())
			}
		}
		dst.Set(out)
	case reflect.Struct:
		m, ok := src.(map[string]any)
		if !ok {
			panic(fmt.Sprintf("assign: struct %v <- %T", dst.Type(), src))
		}
		for k, v := range m {
			f := dst.FieldByName(k)
			if !f.IsValid() {
				panic("assign: no field " + k + " in " + dst.Type().String())
			}
			assign(writable(f), v)
		}
	default:
		dst.Set(sv.Convert(dst.Type()))
	}
}

func fieldByPath(v reflect.Value, path string) reflect.Value {
	for _, p := range strings.Split(path, ".") {
		v = v.FieldByName(p)
		if !v.IsValid() {
			return v
		}
		v = writable(v)
	}
	return v
}

// diff returns "" when a and b are equal as wire values, else the path of the
// first difference (indices elided so that it names a class, not an instance).
// nil and empty slices are equal; the top-level marshal cache `raw` is skipped.
func diff(a, b reflect.Value, path string, top bool) string {
	switch a.Kind() {
	case reflect.Slice:
		if a.Len() != b.Len() {
			return path + " (length)"
		}
		if k := a.Type().Elem().Kind(); (k == reflect.Uint8 || k == reflect.Uint16) && a.Len() > 0 {
			w := 1
			if k == reflect.Uint16 {
				w = 2
			}
			if !bytes.Equal(unsafe.Slice((*byte)(a.UnsafePointer()), a.Len()*w), unsafe.Slice((*byte)(b.UnsafePointer()), b.Len()*w)) {
				return path
			}
			return ""
		}
		if a.Type().Elem().Kind() == reflect.Uint8 {
			for i := 0; i < a.Len(); i++ {
				if a.Index(i).Uint() != b.Index(i).Uint() {
					return path
				}
			}
			return ""
		}
		for i := 0; i < a.Len(); i++ {
			if d := diff(a.Index(i), b.Index(i), path+"[]", false); d != "" {
				return d
			}
		}
		return ""
	case reflect.Struct:
		for i := 0; i < a.NumField(); i++ {
			name := a.Type().Field(i).Name
			if top && name == "raw" {
				continue
			}
			p := name
			if path != "" {
				p = path + "." + name
			}
			if d := diff(a.Field(i), b.Field(i), p, false); d != "" {
				return d
			}
		}
		return ""
	case reflect.String:
		if a.String() != b.String() {
			return path
		}
	case reflect.Bool:
		if a.Bool() != b.Bool() {
			return path
		}
	case reflect.Uint8, reflect.Uint16, reflect.Uint32, reflect.Uint64, reflect.Uint:
		if a.Uint() != b.Uint() {
			return path
		}
	case reflect.Int8, reflect.Int16, reflect.Int32, reflect.Int64, reflect.Int:
		if a.Int() != b.Int() {
			return path
		}
	case reflect.Ptr, reflect.Interface, reflect.Map:
		if a.IsNil() != b.IsNil() {
			return path
		}
		// never set by this check: both nil
	default:
		panic("diff: unsupported kind " + a.Kind().String() + " at " + path)
	}
	return ""
}

func diffMsgs(a, b any) string {
	return diff(reflect.ValueOf(a).Elem(), reflect.ValueOf(b).Elem(), "", true)
}

func clearRaw(m any) {
	f := reflect.ValueOf(m).Elem().FieldByName("raw")
	if f.IsValid() {
		writable(f).Set(reflect.Zero(f.Type()))
	}
}

// ---------------------------------------------------------------------------
// value construction

func (sp *spec) build(asg []int) any {
	m := tls.VerifC30New(sp.name)
	v := reflect.ValueOf(m).Elem()
	for si, ai := range asg {
		for _, kv := range sp.slots[si].alts[ai].set {
			f := fieldByPath(v, kv.path)
			if !f.IsValid() {
				panic("spec " + sp.name + ": no field " + kv.path)
			}
			assign(f, kv.val)
		}
	}
	return m
}

func (sp *spec) receiver(from any) any {
	r := tls.VerifC30New(sp.name)
	for _, cf := range sp.ctx {
		src := fieldByPath(reflect.ValueOf(from).Elem(), cf)
		fieldByPath(reflect.ValueOf(r).Elem(), cf).Set(src)
	}
	return r
}

func (sp *spec) status(asg []int) status {
	st := In
	cost := 0
	for si, ai := range asg {
		a := &sp.slots[si].alts[ai]
		if a.st > st {
			st = a.st
		}
		cost += a.cost
	}
	if sp.capacity > 0 && cost > sp.capacity {
		st = Out
	}
	if sp.domain != nil {
		if d := sp.domain(func(slot string) string {
			for si := range sp.slots {
				if sp.slots[si].name == slot {
					return sp.slots[si].alts[asg[si]].name
				}
			}
			panic("domain: no slot " + slot)
		}); d > st {
			st = d
		}
	}
	return st
}

// ---------------------------------------------------------------------------

type witness struct {
	Type        string            `json:"type"`
	Assign      map[string]string `json:"assign"` // non-default slots: slot -> alternative
	Deviations  int               `json:"deviations"`
	Status      string            `json:"status"`
	Detail      string            `json:"detail"`
	PrefixLen   int               `json:"prefix_len,omitempty"`
	Suffix      string            `json:"suffix_hex,omitempty"`
	EncodingLen int               `json:"encoding_len"`
	EncodingHex string            `json:"encoding_hex_first_160"`
	Occurrences int64             `json:"occurrences"`
}

type found struct {
	w     witness
	order [2]int
	n     int64
}

type collector struct {
	mu sync.Mutex
	m  map[string]*found
}

func (cl *collector) report(sig string, w witness, order [2]int) {
	cl.mu.Lock()
	defer cl.mu.Unlock()
	f := cl.m[sig]
	if f == nil {
		cl.m[sig] = &found{w: w, order: order, n: 1}
		return
	}
	f.n++
	if order[0] < f.order[0] || (order[0] == f.order[0] && order[1] < f.order[1]) {
		f.w, f.order = w, order
	}
}

type typeStat struct {
	Values, In, Amb, Out      int64
	RoundTrips                int64
	Prefixes, PrefixAccepted  int64
	Extensions, ExtAccepted   int64
	HdrPrefixes               int64 // second pass: prefixes of the body under a consistent header
	HdrAcceptedValid          int64 // ... accepted, and the prefix is itself the encoding of the decoded value
	HdrAcceptedInvalid        int64 // ... accepted, but the decoded value marshals to other bytes
	MaxEncoding               int
	prefixSkippedLargeObserve int64
}

type wstate struct {
	hist                             ev.Hist
	ts                               map[string]*typeStat
	transitions, evaluations, traces int64
}

var traceOutOK = os.Getenv("C30_TRACE_OUT_OK") != ""

var extensionProbes = [][]byte{{0x00}, {0xff}, {0x00, 0x00}, {0x00, 0x00, 0x00, 0x00}}

// Prefixes of optional-tail (observed-only) types are walked only for encodings
// up to this size: their verdict is never part of the oracle and e.g. a
// 32767-suite ClientHello costs O(n) per prefix. Strict types: always all prefixes.
const observedPrefixLimit = 4096

func (sp *spec) eval(asg []int, order [2]int, ws *wstate, cl *collector) {
	st := sp.status(asg)
	ts := ws.ts[sp.name]
	if ts == nil {
		ts = &typeStat{}
		ws.ts[sp.name] = ts
	}
	ts.Values++
	dev := 0
	assignNames := map[string]string{}
	for si, ai := range asg {
		if ai != 0 {
			dev++
			assignNames[sp.slots[si].name] = sp.slots[si].alts[ai].name
		}
	}
	var enc []byte
	viol := func(class, detail string, n int, suffix []byte) {
		w := witness{Type: sp.name, Assign: assignNames, Deviations: dev, Status: st.String(), Detail: detail,
			PrefixLen: n, Suffix: hex.EncodeToString(suffix), EncodingLen: len(enc)}
		if len(enc) > 160 {
			w.EncodingHex = hex.EncodeToString(enc[:160])
		} else {
			w.EncodingHex = hex.EncodeToString(enc)
		}
		cl.report(sp.name+": "+class, w, order)
	}
	tag := st.String()
	switch st {
	case In:
		ts.In++
	case Amb:
		ts.Amb++
	default:
		ts.Out++
	}

	m := sp.build(asg)
	if p, msg, site := ev.Try(func() { enc = tls.VerifC30Marshal(m) }); p {
		ws.transitions++
		if st == In {
			viol("marshal panics on an in-domain value @"+site+": "+ev.MsgClass(msg), msg, 0, nil)
		}
		ws.hist[tag+": marshal panics"]++
		return
	}
	ws.transitions++
	if len(enc) > ts.MaxEncoding {
		ts.MaxEncoding = len(enc)
	}
	if st != Out {
		m1 := sp.build(asg)
		var enc1, enc2 []byte
		if p, msg, site := ev.Try(func() { enc1 = tls.VerifC30Marshal(m1); enc2 = tls.VerifC30Marshal(m) }); p {
			viol("marshal panics on second call @"+site+": "+ev.MsgClass(msg), msg, 0, nil)
			return
		}
		ws.transitions += 2
		ws.evaluations += 3
		if !bytes.Equal(enc, enc1) {
			viol("marshal is not deterministic (equal values, different bytes)", hex.EncodeToString(head(enc1, 160)), 0, nil)
		}
		if !bytes.Equal(enc, enc2) {
			viol("marshal is not stable (second call returns different bytes)", hex.EncodeToString(head(enc2, 160)), 0, nil)
		}
		if d := diffMsgs(m1, m); d != "" {
			viol("marshal changes the value at "+d, d, 0, nil)
		}
	}

	m2 := sp.receiver(m)
	data := append(make([]byte, 0, len(enc)), enc...)
	var ok bool
	if p, msg, site := ev.Try(func() { ok = tls.VerifC30Unmarshal(m2, data) }); p {
		ws.transitions++
		if st != Out {
			viol("unmarshal panics on marshal output @"+site+": "+ev.MsgClass(msg), msg, 0, nil)
		}
		ws.hist[tag+": unmarshal panics"]++
		return
	}
	ws.transitions++
	ws.evaluations++
	if !ok {
		if st == In {
			viol("unmarshal rejects the marshalled bytes of an in-domain value", "unmarshal returned false", 0, nil)
		}
		ws.hist[tag+": unmarshal rejects marshal output"]++
		return
	}
	d := diffMsgs(m, m2)
	ws.evaluations++
	if d != "" {
		if st != Out {
			viol("decoded value differs at "+d, "first differing field: "+d, 0, nil)
		}
		ws.hist[tag+": decoded value differs"]++
		return
	}
	ws.hist[tag+": round-trip equal"]++
	if st == Out {
		if traceOutOK {
			fmt.Fprintf(os.Stderr, "TRACE out-but-round-trips %s %v\n", sp.name, assignNames)
		}
		return
	}
	ts.RoundTrips++
	ws.traces++

	// re-marshal of the decoded value (cache cleared)
	clearRaw(m2)
	var enc3 []byte
	if p, msg, site := ev.Try(func() { enc3 = tls.VerifC30Marshal(m2) }); p {
		viol("marshal panics on the decoded value @"+site+": "+ev.MsgClass(msg), msg, 0, nil)
	} else if !bytes.Equal(enc3, enc) {
		viol("re-marshal of the decoded value gives different bytes", hex.EncodeToString(head(enc3, 160)), 0, nil)
	}
	ws.transitions++
	ws.evaluations++

	// truncation: every strict prefix
	r := sp.receiver(m)
	skip, kept := sp.sparseSkip(asg, enc)
	if skip != nil {
		ws.hist["size-boundary value (>= 64 KiB element): prefix walks leave out the interior of the large opaque elements"]++
	}
	if sp.strictPrefix || len(enc) <= observedPrefixLimit {
		acc := 0
		firstAcc := -1
		for n := 0; n < len(enc); n++ {
			if skip != nil && skip[n] {
				continue
			}
			var pok bool
			if p, msg, site := ev.Try(func() { pok = tls.VerifC30Unmarshal(r, enc[:n:n]) }); p {
				viol("unmarshal panics on a strict prefix @"+site+": "+ev.MsgClass(msg), msg, n, nil)
				break
			}
			if pok {
				acc++
				if firstAcc < 0 {
					firstAcc = n
				}
			}
		}
		ws.transitions += int64(kept)
		ws.evaluations += int64(kept)
		ts.Prefixes += int64(kept)
		ts.PrefixAccepted += int64(acc)
		if sp.strictPrefix {
			ws.hist["strict type: prefix rejected"] += int64(kept - acc)
			if acc > 0 {
				ws.hist["strict type: prefix ACCEPTED"] += int64(acc)
				viol("strict prefix of a valid encoding accepted", fmt.Sprintf("%d of %d strict prefixes accepted, shortest %d bytes", acc, kept, firstAcc), firstAcc, nil)
			}
		} else {
			ws.hist["optional-tail type: prefix rejected"] += int64(kept - acc)
			ws.hist["optional-tail type: prefix accepted (allowed)"] += int64(acc)
		}
	} else {
		ts.prefixSkippedLargeObserve++
	}
	// truncation, second pass: the 24-bit length of the handshake header is rewritten to the truncated body
	// length, so that a codec that first compares the header with len(data) still gets to parse a cut body.
	// Such an input is no longer a prefix of enc; it is a message of its own. It must be rejected unless it is
	// itself the encoding of a value: then the decoded value marshals to exactly these bytes.
	if !sp.noHeader && len(enc) >= 4 && (sp.strictPrefix || len(enc) <= observedPrefixLimit) {
		buf := append([]byte(nil), enc...)
		kind := "optional-tail type"
		if sp.strictPrefix {
			kind = "strict type"
		}
		var rej, accValid, accInvalid int64
		var tried int64
		for n := 4; n < len(enc); n++ {
			if skip != nil && skip[n] {
				continue
			}
			tried++
			l := n - 4
			buf[1], buf[2], buf[3] = byte(l>>16), byte(l>>8), byte(l)
			var pok bool
			if p, msg, site := ev.Try(func() { pok = tls.VerifC30Unmarshal(r, buf[:n:n]) }); p {
				viol("unmarshal panics on a truncated body under a consistent header @"+site+": "+ev.MsgClass(msg), msg, n, nil)
				break
			}
			if !pok {
				rej++
				continue
			}
			// decode again into a fresh receiver (some codecs do not reset every field) and marshal that
			fr := sp.receiver(m)
			var ok2 bool
			var re []byte
			if p, msg, site := ev.Try(func() {
				ok2 = tls.VerifC30Unmarshal(fr, buf[:n:n])
				clearRaw(fr)
				re = tls.VerifC30Marshal(fr)
			}); p {
				viol("panic while re-encoding an accepted truncated body @"+site+": "+ev.MsgClass(msg), msg, n, nil)
				break
			}
			ws.transitions += 2
			ws.evaluations++
			if ok2 && bytes.Equal(re, buf[:n]) {
				accValid++
				continue
			}
			accInvalid++
			if sp.strictPrefix && accInvalid == 1 {
				viol("truncated body under a consistent header accepted although it is not the encoding of the decoded value",
					fmt.Sprintf("body cut to %d of %d bytes, header length patched to %d; accepted; the decoded value marshals to %d bytes: %s",
						l, len(enc)-4, l, len(re), hex.EncodeToString(head(re, 80))), n, nil)
			}
		}
		ws.transitions += tried
		ws.evaluations += tried
		ts.HdrPrefixes += tried
		ts.HdrAcceptedValid += accValid
		ts.HdrAcceptedInvalid += accInvalid
		ws.hist[kind+": truncated body, consistent header: rejected"] += rej
		if accValid > 0 {
			ws.hist[kind+": truncated body, consistent header: accepted, is itself a valid encoding (allowed)"] += accValid
		}
		if accInvalid > 0 {
			if sp.strictPrefix {
				ws.hist[kind+": truncated body, consistent header: ACCEPTED, not a valid encoding"] += accInvalid
			} else {
				ws.hist[kind+": truncated body, consistent header: accepted, re-encodes differently (observed)"] += accInvalid
			}
		}
	}
	// proper extensions E||x
	buf := make([]byte, 0, len(enc)+8)
	for _, x := range extensionProbes {
		buf = append(append(buf[:0], enc...), x...)
		var xok bool
		if p, msg, site := ev.Try(func() { xok = tls.VerifC30Unmarshal(r, buf[:len(buf):len(buf)]) }); p {
			viol("unmarshal panics on encoding plus trailing bytes @"+site+": "+ev.MsgClass(msg), msg, 0, x)
			break
		}
		ws.transitions++
		ws.evaluations++
		ts.Extensions++
		if xok {
			ts.ExtAccepted++
			if sp.strictPrefix {
				ws.hist["strict type: extension ACCEPTED"]++
				viol("encoding with trailing bytes accepted (accepted encodings are not prefix-free)", "E||"+hex.EncodeToString(x)+" accepted although E is accepted", 0, x)
			} else {
				ws.hist["optional-tail type: extension accepted (allowed)"]++
			}
		} else if sp.strictPrefix {
			ws.hist["strict type: extension rejected"]++
		} else {
			ws.hist["optional-tail type: extension rejected"]++
		}
	}
}

// sparseSkip: for a value built from `sparse` (size-boundary, >= 64 KiB) alternatives, the cut points that the
// prefix walks leave out: those strictly inside the interior of one of the large opaque elements of those
// alternatives (more than 2 bytes after its first byte and more than 2 bytes before its end) and not among the
// last 8 bytes of the encoding. Every length field of the encoding lies outside the opaque elements, so every
// cut within 2 bytes of a length field is still made. nil: nothing is left out.
func (sp *spec) sparseSkip(asg []int, enc []byte) (skip []bool, kept int) {
	var elems [][]byte
	for si, ai := range asg {
		al := &sp.slots[si].alts[ai]
		if !al.sparse {
			continue
		}
		for _, kv := range al.set {
			switch v := kv.val.(type) {
			case []byte:
				elems = append(elems, v)
			case [][]byte:
				elems = append(elems, v...)
			}
		}
	}
	from := 0
	for _, e := range elems {
		if len(e) < 1024 {
			continue
		}
		i := bytes.Index(enc[from:], e)
		if i < 0 {
			return nil, len(enc) // not found as one block: walk everything
		}
		s, end := from+i, from+i+len(e)
		if skip == nil {
			skip = make([]bool, len(enc)+1)
		}
		for n := s + 3; n < end-2 && n < len(enc)-8; n++ {
			skip[n] = true
		}
		from = end
	}
	if skip == nil {
		return nil, len(enc)
	}
	for n := 0; n < len(enc); n++ {
		if !skip[n] {
			kept++
		}
	}
	return skip, kept
}

func head(b []byte, n int) []byte {
	if len(b) > n {
		return b[:n]
	}
	return b
}

// ---------------------------------------------------------------------------
// enumeration

type job struct {
	sp     *spec
	subset []int // slots that deviate (every non-default alternative of each), nil+corner for the corner
	fixed  []int // alternatives of the first len(fixed) slots of subset (large products are split for load balance)
	corner bool
}

// split cuts a job into pieces of at most 48 values by fixing leading slots.
func (j job) split(out *[]job) {
	p := 1
	for _, si := range j.subset[len(j.fixed):] {
		p *= len(j.sp.slots[si].alts) - 1
	}
	if p <= 48 || len(j.fixed) == len(j.subset) {
		*out = append(*out, j)
		return
	}
	si := j.subset[len(j.fixed)]
	for ai := 1; ai < len(j.sp.slots[si].alts); ai++ {
		nj := j
		nj.fixed = append(append([]int(nil), j.fixed...), ai)
		nj.split(out)
	}
}

func subsets(n, k int, f func([]int)) {
	var rec func(start int, cur []int)
	rec = func(start int, cur []int) {
		if len(cur) == k {
			f(append([]int(nil), cur...))
			return
		}
		for i := start; i < n; i++ {
			rec(i+1, append(cur, i))
		}
	}
	rec(0, nil)
}

func (sp *spec) fullProduct() int64 {
	p := int64(1)
	for _, s := range sp.slots {
		p *= int64(len(s.alts))
		if p > 1<<40 {
			return p
		}
	}
	return p
}

func (sp *spec) cornerAssignment() []int {
	asg := make([]int, len(sp.slots))
	for si, s := range sp.slots {
		for ai, a := range s.alts {
			if a.rich {
				asg[si] = ai
			}
		}
	}
	return asg
}

// sourceTypes lists the receiver types that have both marshal and unmarshal in
// the anchored files of the checkout under test (self-check of the type list).
func sourceTypes(repo string) ([]string, error) {
	has := map[string]int{}
	for _, f := range []string{"tls/handshake_messages.go", "tls/ticket.go"} {
		fs := token.NewFileSet()
		af, err := parser.ParseFile(fs, filepath.Join(repo, f), nil, 0)
		if err != nil {
			return nil, err
		}
		for _, d := range af.Decls {
			fd, ok := d.(*ast.FuncDecl)
			if !ok || fd.Recv == nil || len(fd.Recv.List) != 1 {
				continue
			}
			t := fd.Recv.List[0].Type
			if st, ok := t.(*ast.StarExpr); ok {
				t = st.X
			}
			id, ok := t.(*ast.Ident)
			if !ok {
				continue
			}
			switch fd.Name.Name {
			case "marshal":
				has[id.Name] |= 1
			case "unmarshal":
				has[id.Name] |= 2
			}
		}
	}
	var out []string
	for k, v := range has {
		if v == 3 {
			out = append(out, k)
		}
	}
	sort.Strings(out)
	return out, nil
}

func main() {
	ev.Main("C30", "model_checking", func(c *ev.Ctx) {
		specs := allSpecs()
		byName := map[string]*spec{}
		for _, sp := range specs {
			byName[sp.name] = sp
		}
		for _, sp := range specs {
			for _, s := range sp.slots {
				seen := map[string]bool{}
				for _, al := range s.alts {
					if seen[al.name] {
						c.Broken("spec %s slot %s: duplicate alternative %q", sp.name, s.name, al.name)
					}
					seen[al.name] = true
				}
			}
		}
		for _, t := range tls.VerifC30Types() {
			if byName[t] == nil {
				c.Broken("no spec for exported type %s", t)
			}
		}
		if len(tls.VerifC30Types()) != len(specs) {
			c.Broken("spec list and in-package type list differ")
		}
		cl := &collector{m: map[string]*found{}}

		if c.Replay != nil {
			var w witness
			if err := json.Unmarshal(c.Replay, &w); err != nil {
				c.Broken("bad witness: %v", err)
			}
			sp := byName[w.Type]
			if sp == nil {
				c.Broken("witness names unknown type %q", w.Type)
			}
			asg := make([]int, len(sp.slots))
			for slot, an := range w.Assign {
				found := false
				for si := range sp.slots {
					if sp.slots[si].name != slot {
						continue
					}
					for ai := range sp.slots[si].alts {
						if sp.slots[si].alts[ai].name == an {
							asg[si], found = ai, true
						}
					}
				}
				if !found {
					c.Broken("witness names unknown slot/alternative %s=%s", slot, an)
				}
			}
			ws := &wstate{hist: ev.Hist{}, ts: map[string]*typeStat{}}
			sp.eval(asg, [2]int{0, 0}, ws, cl)
			c.States.Add(1)
			c.Transitions.Add(ws.transitions)
			c.Merge(ws.hist)
			for sig, f := range cl.m {
				f.w.Occurrences = f.n
				c.Violation(sig, f.w)
			}
			return
		}

		maxDev := ev.Pick(c, 3, 4)
		fullLimit := int64(ev.Pick(c, 5000, 200000))
		c.Rule("G-field: per type, slots (wire fields or wire-coupled field groups) with boundary alphabets (specs.go); every assignment with <= d non-default slots " +
			"(d=3 quick, 4 thorough; full Cartesian product when it has <= 5000 (quick) / 200000 (thorough) values) plus one all-slots-non-default corner per type; " +
			"a value is non-trivial/distinct when it is in-domain (or RFC-borderline and tolerated) and round-trips: only those get the walks: (1) every strict prefix enc[:n] as is; " +
			"(2) for the 18 handshake-message types, every strict prefix of the BODY with the 24-bit header length rewritten to the cut length (n = 4..len-1), so that codecs that check the header first still parse a cut body; " +
			"(3) enc plus trailing bytes. Size boundaries of the 24-bit length fields INSIDE a body (certificate_list and ASN.1Cert lengths of certificateMsg, certificateMsgTLS13, sessionState, sessionStateTLS13; the OCSP response length of certificateStatusMsg): with L in {65535..65539, 131071..131073} (a uint24 carries into its top byte at 2^16 and 2^17) the opaque element sizes are chosen so that EACH of the nested lengths (element, list, handshake header) takes EACH value of L, with one element and with two elements (first element 30000 bytes, or exactly 2^16 bytes in the 2^17 range); these values get round trip, re-marshal, determinism and the three walks like every other value, the prefix walks leaving out only the cut points inside the interior of the >= 1 KiB opaque elements (more than 2 bytes from either end of the element and not among the last 8 bytes): every cut within 2 bytes of any length field is made")
		c.Assume(
			"value domain = what the TLS wire format (RFC 5246/5077/6066/7301/8446, draft extended-random) can represent; couplings taken from the constraints of the quick.Generators in tls/handshake_messages_test.go",
			"fields that neither codec direction touches are not part of the encoded value and stay zero: raw (cache), serverKeyExchangeMsg.digest, clientHelloMsg.sctEnabled, clientHelloMsg.unknownExtensions (declared TODO), Certificate.{PrivateKey,SupportedSignatureAlgorithms,Leaf}. For the three named message fields this is checked in every run (setting the field does not change marshal's output, unmarshal leaves it zero), and every other field of every type must be driven by a slot: otherwise the run is marked incomplete",
			"a truncated body under a consistent header is not a prefix of the encoding any more: it is judged as a message of its own: reject it, or accept it and decode a value that marshals to exactly these bytes (e.g. a ClientKeyExchange with a shorter opaque body). Verdict for the types without optional tail, observed for the four optional-tail types",
			"decode-context flags are given to the receiver before unmarshal as the callers do: certificateRequestMsg/certificateVerifyMsg.hasSignatureAlgorithm, sessionState.usedOldKey",
			"nil and empty slices are the same value",
			"optional-tail types, prefix/extension verdicts observed only: clientHelloMsg, serverHelloMsg (extensions block optional), finishedMsg (statement/test exempt it: verify_data length varies by version), serverKeyExchangeMsg (body is the unframed remainder data[4:], the codec defines no end of the value; framing is done by Conn.readHandshake)",
			"'no strict prefix of a valid encoding is accepted' is also applied to encodings E||x the codec itself accepts (prefix-freeness of the accepted set), probed with x in {00, ff, 0000, 00000000}",
			"lengths above 2^24 are not generated (16 MiB messages; Conn caps handshake messages at 64 KiB)")

		// self-check of the type list against the checkout under test
		repo := os.Getenv("VERIF_REPO_DIR")
		if repo == "" {
			repo = "/repo"
		}
		if src, err := sourceTypes(repo); err != nil {
			c.Set("type_list_selfcheck", "source not readable: "+err.Error())
		} else {
			var missing []string
			for _, t := range src {
				if byName[t] == nil {
					missing = append(missing, t)
				}
			}
			c.Set("type_list_selfcheck", map[string]any{"types_with_marshal_and_unmarshal_in_source": len(src), "covered": len(src) - len(missing), "missing": missing})
			if len(missing) > 0 {
				c.Incomplete("types with marshal/unmarshal in the source but no spec in this check: " + strings.Join(missing, ","))
			}
		}

		// self-check of the field lists: every field of every type is driven by a slot, is a decode-context field,
		// is the marshal cache, or is one of the declared-unset fields, and those are verified not to be wire-visible
		declaredUnset := map[string]map[string]any{
			"clientHelloMsg":       {"sctEnabled": true, "unknownExtensions": [][]byte{{0xfa, 0xfa, 0x00, 0x01, 0x07}}},
			"serverKeyExchangeMsg": {"digest": []byte{1, 2, 3}},
		}
		fieldReport := map[string]any{}
		for _, sp := range specs {
			v := reflect.ValueOf(tls.VerifC30New(sp.name)).Elem()
			driven := map[string]bool{"raw": true}
			for _, cf := range sp.ctx {
				driven[strings.Split(cf, ".")[0]] = true
			}
			for _, sl := range sp.slots {
				for _, al := range sl.alts {
					for _, kv := range al.set {
						driven[strings.Split(kv.path, ".")[0]] = true
					}
				}
			}
			var uncovered []string
			if v.Kind() == reflect.Struct {
				for i := 0; i < v.NumField(); i++ {
					name := v.Type().Field(i).Name
					if driven[name] {
						continue
					}
					val, declared := declaredUnset[sp.name][name]
					if !declared {
						uncovered = append(uncovered, name)
						continue
					}
					// not wire-visible: marshal ignores it, unmarshal leaves it zero
					base := sp.build(make([]int, len(sp.slots)))
					with := sp.build(make([]int, len(sp.slots)))
					assign(fieldByPath(reflect.ValueOf(with).Elem(), name), val)
					var e0, e1 []byte
					var ok bool
					back := sp.receiver(base)
					if p, msg, _ := ev.Try(func() {
						e0, e1 = tls.VerifC30Marshal(base), tls.VerifC30Marshal(with)
						ok = tls.VerifC30Unmarshal(back, append([]byte(nil), e0...))
					}); p {
						c.Incomplete("self-check of " + sp.name + "." + name + " panicked: " + msg)
						continue
					}
					c.Transitions.Add(3)
					if !bytes.Equal(e0, e1) || !ok || !fieldByPath(reflect.ValueOf(back).Elem(), name).IsZero() {
						c.Incomplete("field " + sp.name + "." + name + " is declared 'touched by neither codec direction' but is wire-visible now: it needs a slot")
						c.Outcome("self-check: declared-unset field IS wire-visible", 1)
						// it is part of the encoded value now: the round trip must preserve it
						back1 := sp.receiver(with)
						var ok1 bool
						ev.Try(func() { ok1 = tls.VerifC30Unmarshal(back1, append([]byte(nil), e1...)) })
						if d := diffMsgs(with, back1); !ok1 || d != "" {
							w := witness{Type: sp.name, Assign: map[string]string{name: "set (all slots default)"}, Deviations: 1, Status: "in-domain",
								Detail:      "field " + name + " changes the encoding but does not survive the round trip (first differing field: " + d + ")",
								EncodingLen: len(e1), EncodingHex: hex.EncodeToString(head(e1, 160))}
							cl.report(sp.name+": decoded value differs at "+name+" (a field declared untouched by the codec is on the wire)", w, [2]int{1, 0})
						}
					} else {
						c.Outcome("self-check: declared-unset field is not wire-visible", 1)
					}
				}
			}
			if len(uncovered) > 0 {
				sort.Strings(uncovered)
				fieldReport[sp.name] = uncovered
				c.Incomplete("fields of " + sp.name + " that no slot drives: " + strings.Join(uncovered, ","))
			}
		}
		c.Set("fields_without_slot", fieldReport)

		var jobs []job
		plan := map[string]any{}
		for _, sp := range specs {
			d := maxDev
			full := sp.fullProduct() <= fullLimit
			if full || d > len(sp.slots) {
				d = len(sp.slots)
			}
			n := int64(0)
			for k := 0; k <= d; k++ {
				sp := sp
				subsets(len(sp.slots), k, func(s []int) {
					job{sp: sp, subset: s}.split(&jobs)
					p := int64(1)
					for _, si := range s {
						p *= int64(len(sp.slots[si].alts) - 1)
					}
					n += p
				})
			}
			corner := sp.cornerAssignment()
			nd := 0
			for _, ai := range corner {
				if ai != 0 {
					nd++
				}
			}
			if nd > d {
				if st := sp.status(corner); st != In {
					c.Broken("spec %s: rich corner is not in-domain (%s)", sp.name, st)
				}
				jobs = append(jobs, job{sp: sp, corner: true})
				n++
			}
			alts := 0
			for _, s := range sp.slots {
				alts += len(s.alts)
			}
			plan[sp.name] = map[string]any{"slots": len(sp.slots), "alternatives_incl_default": alts, "max_deviations": d, "full_product": full, "values": n, "strict_prefix": sp.strictPrefix}
		}
		c.Set("plan", plan)
		// minimal witnesses first; stable order
		rank := func(j job) int {
			if j.corner {
				return 1 << 20
			}
			return len(j.subset)
		}
		sort.SliceStable(jobs, func(i, j int) bool { return rank(jobs[i]) < rank(jobs[j]) })

		W := c.Workers()
		wss := make([]*wstate, W)
		for i := range wss {
			wss[i] = &wstate{hist: ev.Hist{}, ts: map[string]*typeStat{}}
		}
		sampled := map[string]bool{}
		var smu sync.Mutex
		done := c.Parallel(len(jobs), func(w, i int) {
			j := jobs[i]
			ws := wss[w]
			sp := j.sp
			asg := make([]int, len(sp.slots))
			if j.corner {
				copy(asg, sp.cornerAssignment())
				sp.eval(asg, [2]int{len(sp.slots) + 1, i}, ws, cl)
				return
			}
			for _, si := range j.subset {
				asg[si] = 1
			}
			for k, ai := range j.fixed {
				asg[j.subset[k]] = ai
			}
			for {
				sp.eval(asg, [2]int{len(j.subset), i}, ws, cl)
				if len(j.subset) == 2 && c.WantSample() {
					smu.Lock()
					first := !sampled[sp.name] && (sp.name == "clientHelloMsg" || sp.name == "sessionState" || sp.name == "certificateMsgTLS13" || sp.name == "newSessionTicketMsgTLS13")
					sampled[sp.name] = sampled[sp.name] || first
					smu.Unlock()
					if first {
						names := map[string]string{}
						for si, ai := range asg {
							if ai != 0 {
								names[sp.slots[si].name] = sp.slots[si].alts[ai].name
							}
						}
						m := sp.build(asg)
						var e []byte
						ev.Try(func() { e = tls.VerifC30Marshal(m) })
						c.Sample(map[string]any{"type": sp.name, "assign": names, "status": sp.status(asg).String(), "encoding_len": len(e), "encoding_hex_first_64": hex.EncodeToString(head(e, 64))})
					}
				}
				// next combination of non-default alternatives over the subset
				k := len(j.subset) - 1
				for ; k >= len(j.fixed); k-- {
					si := j.subset[k]
					asg[si]++
					if asg[si] < len(sp.slots[si].alts) {
						break
					}
					asg[si] = 1
				}
				if k < len(j.fixed) {
					break
				}
			}
		})
		if !done {
			c.Incomplete("time budget hit before every (type, slot subset) job was evaluated")
		}

		total := map[string]*typeStat{}
		for _, ws := range wss {
			c.Merge(ws.hist)
			c.Transitions.Add(ws.transitions)
			c.Evaluations.Add(ws.evaluations)
			c.Traces.Add(ws.traces)
			for k, t := range ws.ts {
				a := total[k]
				if a == nil {
					a = &typeStat{}
					total[k] = a
				}
				a.Values += t.Values
				a.In += t.In
				a.Amb += t.Amb
				a.Out += t.Out
				a.RoundTrips += t.RoundTrips
				a.Prefixes += t.Prefixes
				a.PrefixAccepted += t.PrefixAccepted
				a.Extensions += t.Extensions
				a.ExtAccepted += t.ExtAccepted
				a.HdrPrefixes += t.HdrPrefixes
				a.HdrAcceptedValid += t.HdrAcceptedValid
				a.HdrAcceptedInvalid += t.HdrAcceptedInvalid
				a.prefixSkippedLargeObserve += t.prefixSkippedLargeObserve
				if t.MaxEncoding > a.MaxEncoding {
					a.MaxEncoding = t.MaxEncoding
				}
			}
		}
		per := map[string]any{}
		for k, t := range total {
			c.States.Add(t.Values)
			c.Distinct.Add(t.RoundTrips)
			per[k] = map[string]any{"values": t.Values, "in_domain": t.In, "borderline": t.Amb, "not_representable": t.Out,
				"round_trips_equal": t.RoundTrips, "prefixes_tried": t.Prefixes, "prefixes_accepted": t.PrefixAccepted,
				"extensions_tried": t.Extensions, "extensions_accepted": t.ExtAccepted, "max_encoding_len": t.MaxEncoding,
				"truncated_bodies_with_consistent_header_tried": t.HdrPrefixes, "of_those_accepted_and_valid_encodings": t.HdrAcceptedValid, "of_those_accepted_and_not_valid": t.HdrAcceptedInvalid,
				"large_observed_only_encodings_without_prefix_walk": t.prefixSkippedLargeObserve}
		}
		c.Set("per_type", per)
		c.Set("max_deviations", maxDev)

		sigs := make([]string, 0, len(cl.m))
		for s := range cl.m {
			sigs = append(sigs, s)
		}
		sort.Strings(sigs)
		for _, s := range sigs {
			f := cl.m[s]
			f.w.Occurrences = f.n
			c.Violation(s, f.w)
		}
	})
}
