// Public-API reproducer for the C30 finding on serverHelloMsg.unmarshal:
// a zcrypto TLS client aborts the handshake with "unexpected message" as soon as
// the ServerHello carries an extension zcrypto does not know with a NON-EMPTY
// body (e.g. max_fragment_length, heartbeat, record_size_limit, NPN ...), while
// the same extension with an empty body is accepted.
package main

import (
	"fmt"
	"io"
	"net"
	"time"

	"github.com/zmap/zcrypto/tls"
)

func serverHello(extBody []byte) []byte {
	ext := append([]byte{0x00, 0x1c, 0x00, byte(len(extBody))}, extBody...) // record_size_limit (28)
	body := []byte{0x03, 0x03}
	body = append(body, make([]byte, 32)...)  // random
	body = append(body, 0x00)                 // session id
	body = append(body, 0xc0, 0x2f, 0x00)     // suite, compression
	body = append(body, 0x00, byte(len(ext))) // extensions length
	body = append(body, ext...)
	hs := append([]byte{0x02, 0x00, 0x00, byte(len(body))}, body...)
	return append([]byte{0x16, 0x03, 0x03, 0x00, byte(len(hs))}, hs...)
}

func try(extBody []byte) error {
	cli, srv := net.Pipe()
	go func() {
		buf := make([]byte, 16384)
		srv.SetDeadline(time.Now().Add(5 * time.Second))
		srv.Read(buf) // ClientHello
		srv.Write(serverHello(extBody))
		io.Copy(io.Discard, srv) // alert, if any
	}()
	c := tls.Client(cli, &tls.Config{InsecureSkipVerify: true, ServerName: "example.com"})
	cli.SetDeadline(time.Now().Add(2 * time.Second))
	err := c.Handshake()
	cli.Close()
	srv.Close()
	return err
}

func main() {
	fmt.Printf("ServerHello + record_size_limit with empty body : %v   (parsed; client waits for the next flight)\n", try(nil))
	fmt.Printf("ServerHello + record_size_limit = 0x4000        : %v   (ServerHello rejected by unmarshal)\n", try([]byte{0x40, 0x00}))
}
