// Standalone reproducer for the three C30 findings (no harness logic).
// The message types are unexported, so it is built with the same in-package
// overlay as the check:   sh /verif/mc/cmd/c30/repro/run.sh
package main

import (
	"encoding/hex"
	"fmt"
	"reflect"
	"unsafe"

	"github.com/zmap/zcrypto/tls"
)

func set(m any, field string, v any) {
	f := reflect.ValueOf(m).Elem().FieldByName(field)
	reflect.NewAt(f.Type(), unsafe.Pointer(f.UnsafeAddr())).Elem().Set(reflect.ValueOf(v).Convert(f.Type()))
}

func get(m any, field string) any {
	f := reflect.ValueOf(m).Elem().FieldByName(field)
	return reflect.NewAt(f.Type(), unsafe.Pointer(f.UnsafeAddr())).Elem().Interface()
}

func main() {
	// 1. newSessionTicketMsg.lifetimeHint is read by unmarshal but never written by marshal.
	{
		m := tls.VerifC30New("newSessionTicketMsg")
		set(m, "ticket", []byte{0xaa})
		set(m, "lifetimeHint", uint32(1))
		enc := tls.VerifC30Marshal(m)
		m2 := tls.VerifC30New("newSessionTicketMsg")
		ok := tls.VerifC30Unmarshal(m2, enc)
		fmt.Printf("newSessionTicketMsg{ticket:aa, lifetimeHint:1}: marshal=%s unmarshal=%v decoded lifetimeHint=%v (want 1)\n",
			hex.EncodeToString(enc), ok, get(m2, "lifetimeHint"))
	}
	// 2. clientHelloMsg.extendedRandom: marshal frames it twice, unmarshal strips one frame.
	{
		m := tls.VerifC30New("clientHelloMsg")
		set(m, "vers", uint16(0x0303))
		set(m, "random", make([]byte, 32))
		set(m, "cipherSuites", []uint16{0x1301})
		set(m, "compressionMethods", []byte{0})
		set(m, "extendedRandomEnabled", true)
		set(m, "extendedRandom", []byte{0xee})
		enc := tls.VerifC30Marshal(m)
		m2 := tls.VerifC30New("clientHelloMsg")
		ok := tls.VerifC30Unmarshal(m2, enc)
		fmt.Printf("clientHelloMsg{extendedRandom:ee}: extensions=%s unmarshal=%v decoded extendedRandom=%x (want ee)\n",
			hex.EncodeToString(enc[len(enc)-11:]), ok, get(m2, "extendedRandom"))
	}
	// 3. serverHelloMsg: an unknown extension with a non-empty body makes unmarshal fail
	//    (the default branch records it but does not consume extData / continue).
	for _, body := range [][]byte{nil, {0x01}} {
		m := tls.VerifC30New("serverHelloMsg")
		set(m, "vers", uint16(0x0303))
		set(m, "random", make([]byte, 32))
		set(m, "cipherSuite", uint16(0xc02f))
		ext := append([]byte{0xfa, 0xfa, 0x00, byte(len(body))}, body...)
		set(m, "unknownExtensions", [][]byte{ext})
		enc := tls.VerifC30Marshal(m)
		m2 := tls.VerifC30New("serverHelloMsg")
		ok := tls.VerifC30Unmarshal(m2, enc)
		fmt.Printf("serverHelloMsg{unknownExtensions:[%x]}: unmarshal=%v (want true)\n", ext, ok)
	}
}
