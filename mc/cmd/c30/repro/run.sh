#!/bin/sh
# Runs the C30 reproducers against ${VERIF_REPO:-/repo}.
set -e
REPO="${VERIF_REPO:-/repo}"
export GOFLAGS=-mod=mod GOPROXY=off
mkdir -p /verif/.work
OVL=/verif/.work/overlay-c30-repro.json
printf '{"Replace":{"%s/tls/zz_verif_c30_export.go":"/verif/mc/cmd/c30/_inpkg/tls/export.go"}}' "$REPO" > "$OVL"
cd /verif/mc
MOD=""
if [ "$REPO" != /repo ]; then
  sed "s#=> /repo#=> $REPO#" go.mod > /verif/.work/c30-repro.mod; cp "$REPO/go.sum" /verif/.work/c30-repro.sum
  MOD="-modfile=/verif/.work/c30-repro.mod"
fi
go run $MOD -overlay "$OVL" -tags verif ./cmd/c30/repro/roundtrip
go run $MOD -overlay "$OVL" -tags verif ./cmd/c30/repro/serverhello-unknown-ext
