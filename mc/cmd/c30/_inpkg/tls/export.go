// Compiled INTO github.com/zmap/zcrypto/tls by /verif/check (go build -overlay)
// for check C30. Thin accessors only: constructors for the unexported message
// and session-state types and their marshal/unmarshal methods. All value
// generation, oracles and counting live in /verif/mc/cmd/c30.
package tls

var verifC30Ctors = []struct {
	name string
	mk   func() handshakeMessage
}{
	{"clientHelloMsg", func() handshakeMessage { return new(clientHelloMsg) }},
	{"serverHelloMsg", func() handshakeMessage { return new(serverHelloMsg) }},
	{"encryptedExtensionsMsg", func() handshakeMessage { return new(encryptedExtensionsMsg) }},
	{"endOfEarlyDataMsg", func() handshakeMessage { return new(endOfEarlyDataMsg) }},
	{"keyUpdateMsg", func() handshakeMessage { return new(keyUpdateMsg) }},
	{"newSessionTicketMsgTLS13", func() handshakeMessage { return new(newSessionTicketMsgTLS13) }},
	{"certificateRequestMsgTLS13", func() handshakeMessage { return new(certificateRequestMsgTLS13) }},
	{"certificateMsg", func() handshakeMessage { return new(certificateMsg) }},
	{"certificateMsgTLS13", func() handshakeMessage { return new(certificateMsgTLS13) }},
	{"serverKeyExchangeMsg", func() handshakeMessage { return new(serverKeyExchangeMsg) }},
	{"certificateStatusMsg", func() handshakeMessage { return new(certificateStatusMsg) }},
	{"serverHelloDoneMsg", func() handshakeMessage { return new(serverHelloDoneMsg) }},
	{"clientKeyExchangeMsg", func() handshakeMessage { return new(clientKeyExchangeMsg) }},
	{"finishedMsg", func() handshakeMessage { return new(finishedMsg) }},
	{"certificateRequestMsg", func() handshakeMessage { return new(certificateRequestMsg) }},
	{"certificateVerifyMsg", func() handshakeMessage { return new(certificateVerifyMsg) }},
	{"newSessionTicketMsg", func() handshakeMessage { return new(newSessionTicketMsg) }},
	{"helloRequestMsg", func() handshakeMessage { return new(helloRequestMsg) }},
	{"sessionState", func() handshakeMessage { return new(sessionState) }},
	{"sessionStateTLS13", func() handshakeMessage { return new(sessionStateTLS13) }},
}

// VerifC30Types lists every type that has marshal/unmarshal in
// handshake_messages.go plus the two session-state types of ticket.go.
func VerifC30Types() []string {
	out := make([]string, len(verifC30Ctors))
	for i, c := range verifC30Ctors {
		out[i] = c.name
	}
	return out
}

// VerifC30New returns a pointer to a fresh zero value of the named type.
func VerifC30New(typ string) any {
	for _, c := range verifC30Ctors {
		if c.name == typ {
			return c.mk()
		}
	}
	return nil
}

// VerifC30Marshal calls the type's own marshal method.
func VerifC30Marshal(m any) []byte { return m.(handshakeMessage).marshal() }

// VerifC30Unmarshal calls the type's own unmarshal method.
func VerifC30Unmarshal(m any, data []byte) bool { return m.(handshakeMessage).unmarshal(data) }
