// C34 — concurrent use of a TLS connection is safe.
//
// Engine E3: two real zcrypto tls.Conn (package tls compiled from copies whose
// sync / sync/atomic imports are redirected to the vsched shims) joined by an
// in-memory pipe whose reads/writes are scheduling points. After a quiet
// (unexplored) handshake -- or, for the fresh-connection scenarios, with the
// handshake itself explored (implicit handshake of Read/Write) -- every
// interleaving of the scenario's API calls with at most PB preemptions is
// executed; a -race build repeats the exploration so that ThreadSanitizer judges
// each explored schedule. The connection under test is the client end or, for a
// subset of scenarios, the server end; the peer runs on its own thread and may
// close (with or without close_notify) while calls are pending.
package main

import (
	"bytes"
	"encoding/json"
	"errors"
	"fmt"
	"io"
	"os"
	"path/filepath"
	"runtime/debug"
	"sort"
	"strconv"
	"strings"
	"time"

	"github.com/zmap/zcrypto/tls"
	"github.com/zmap/zcrypto/vsched"
	"verifmc/internal/ev"
	"verifmc/internal/tlsx"
	"verifmc/internal/vx"
)

type job struct {
	Scen string `json:"scenario"`
	Vers uint16 `json:"version"`
	PB   int    `json:"preempt_bound"`
	EB   int    `json:"short_read_bound"`
	Race bool   `json:"race"`
	Role string `json:"role,omitempty"` // "server": the connection under test is the server end (default: the client end)
}

func (j job) String() string { b, _ := json.Marshal(j); return string(b) }

// obs: per-execution observations written through norace methods.
type obs struct {
	n    int
	key  [32]string
	val  [32]string
	peer []byte // bytes the peer's application received
}

//go:norace
func (o *obs) put(k, v string) {
	if o.n < len(o.key) {
		o.key[o.n], o.val[o.n] = k, v
		o.n++
	}
}

//go:norace
func (o *obs) setPeer(b []byte) { o.peer = append([]byte(nil), b...) }

func (o *obs) get(k string) (string, bool) {
	for i := 0; i < o.n; i++ {
		if o.key[i] == k {
			return o.val[i], true
		}
	}
	return "", false
}

func errs(err error) string {
	if err == nil {
		return "nil"
	}
	if errors.Is(err, io.EOF) {
		return "EOF"
	}
	var ne interface{ Timeout() bool }
	if errors.As(err, &ne) && ne.Timeout() {
		return "timeout"
	}
	return "err:" + ev.MsgClass(firstWords(err.Error(), 7))
}

func firstWords(s string, n int) string {
	f := strings.Fields(s)
	if len(f) > n {
		f = f[:n]
	}
	return strings.Join(f, " ")
}

var (
	payA = []byte("AAAAAAAAAAAAAAAAAAAAAAAAAAAAAAAAAAAAAAAA-a")
	payB = []byte("BBBBBBBBBBBBBBBBBBBBBB-b")
)

// payBig spans several records (20000 bytes: 2 records of 2^14 + 3616 bytes without dynamic record sizing,
// 6 with it); every byte depends on its position so that reordered or repeated fragments are visible.
var payBig = func() []byte {
	b := make([]byte, 20000)
	for i := range b {
		b[i] = 'a' + byte((i*7+i/251)%26)
	}
	return b
}()

var identity = tlsx.ServerIdentity("p256")

func configs(vers uint16, scen string) (*tls.Config, *tls.Config) {
	cc, sc := tlsx.BaseConfigs(identity, "c34-"+scen)
	cc.MinVersion, cc.MaxVersion = vers, vers
	sc.MinVersion, sc.MaxVersion = vers, vers
	cc.CurvePreferences = []tls.CurveID{tls.X25519}
	sc.SessionTicketsDisabled = true
	if vers == tls.VersionTLS10 {
		// a CBC suite: every application Write of more than one byte is split 1/n-1
		cc.CipherSuites = []uint16{tls.TLS_ECDHE_ECDSA_WITH_AES_128_CBC_SHA}
		sc.CipherSuites = cc.CipherSuites
	}
	if strings.HasPrefix(scen, "reneg-") {
		// the client under test accepts the peer's HelloRequest and starts a second handshake from inside Read
		cc.Renegotiation = tls.RenegotiateFreelyAsClient
		// a stapled OCSP response: Conn.ocspResponse is one of the fields a renegotiation rewrites
		// (the peer certificates are not: the client insists on an unchanged server certificate)
		certs := append([]tls.Certificate(nil), sc.Certificates...)
		certs[0].OCSPStaple = []byte("c34 stapled ocsp response")
		sc.Certificates = certs
	}
	if scen == "ticket-read-write-state" {
		// the server sends a NewSessionTicket after its Finished; the client processes it inside its first Read
		sc.SessionTicketsDisabled = false
		cc.ClientSessionCache = tls.NewLRUClientSessionCache(4)
	}
	return cc, sc
}

// env of one execution. c = connection under test, s = its peer (each on its own end of the pipe).
type env struct {
	scen   string
	c, s   *tls.Conn
	sp     *vsched.PipeConn // the peer's transport (closing it = the peer vanishing without close_notify)
	cc, sc *tls.Config
	o      *obs
}

type scenFn func(x *env)

func spawn(wg *vsched.WaitGroup, f func()) {
	wg.Add(1)
	vsched.Go(func() { defer wg.Done(); f() })
}

func handshakeQuietly(c, s *tls.Conn, o *obs) bool {
	vsched.SetExplore(false)
	var wg vsched.WaitGroup
	var serr error
	spawn(&wg, func() { serr = s.Handshake() })
	cerr := c.Handshake()
	wg.Wait()
	vsched.SetExplore(true)
	if cerr != nil || serr != nil {
		o.put("setup", "handshake failed: "+errs(cerr)+" / "+errs(serr))
		return false
	}
	return true
}

func peerReadAll(s *tls.Conn, o *obs) {
	b, err := io.ReadAll(s)
	o.setPeer(b)
	o.put("peer.read", errs(err))
	s.Close()
}

// peerRenegotiate: the peer asks for a renegotiation (HelloRequest = handshake message type 0, empty body) and
// then either serves the second handshake (serve = true: through an in-package scaffold, since zcrypto servers --
// like crypto/tls ones -- do not implement renegotiation; afterwards it sends "pong" under the new keys) or just
// reads on (serve = false: the server's Read refuses the client's new ClientHello with an alert). In both cases it
// finally collects whatever application data the client wrote.
func peerRenegotiate(x *env, serve bool) {
	s, o := x.s, x.o
	var prev []byte
	if serve {
		prev = x.c.VerifC34Finished()
	}
	_, err := s.WriteRecord(22, []byte{0, 0, 0, 0})
	o.put("peer.hellorequest", errs(err))
	if serve {
		err := s.VerifC34ServeRenegotiation(prev)
		o.put("peer.reneg", errs(err))
		if err == nil {
			_, err = s.Write([]byte("pong"))
			o.put("peer.write", errs(err))
		}
	}
	b, err := io.ReadAll(s)
	o.setPeer(b)
	o.put("peer.read", errs(err))
	s.Close()
}

func writeDeadlineWrites(x *env, first []byte) {
	c, s, o := x.c, x.s, x.o
	if !handshakeQuietly(c, s, o) {
		return
	}
	var wg, pw vsched.WaitGroup
	spawn(&pw, func() { peerReadAll(s, o) })
	// (the deadline thread first: "deadline expired, whole Write, deadline lifted" is then one preemption away)
	spawn(&wg, func() {
		o.put("wdeadline.past", errs(c.SetWriteDeadline(time.Unix(1, 0))))
		o.put("wdeadline.none", errs(c.SetWriteDeadline(time.Time{})))
	})
	spawn(&wg, func() { n, err := c.Write(first); o.put("write1", fmt.Sprintf("%d/%s", n, errs(err))) })
	wg.Wait()
	n, err := c.Write(payB)
	o.put("write2", fmt.Sprintf("%d/%s", n, errs(err)))
	c.Close()
	pw.Wait()
}

func renegRead(c *tls.Conn, o *obs) {
	buf := make([]byte, 4) // "pong"; at TLS 1.0 it comes in two records (1/n-1 split)
	n, err := io.ReadFull(c, buf)
	o.put("read", fmt.Sprintf("%d/%s/%s", n, buf[:n], errs(err)))
}

func renegReadState(x *env) {
	c, s, o := x.c, x.s, x.o
	if !handshakeQuietly(c, s, o) {
		return
	}
	var wg, pw vsched.WaitGroup
	served := strings.HasPrefix(x.scen, "reneg-served-")
	spawn(&pw, func() { peerRenegotiate(x, served) })
	spawn(&wg, func() { renegRead(c, o) })
	spawn(&wg, func() {
		st := c.ConnectionState()
		o.put("state", fmt.Sprintf("complete=%v vers=%x resumed=%v name=%q certs=%d", st.HandshakeComplete, st.Version, st.DidResume, st.ServerName, len(st.PeerCertificates)))
		o.put("verifyhostname", errs(c.VerifyHostname("srv.example")))
		o.put("ocsp", fmt.Sprintf("%d bytes", len(c.OCSPResponse())))
	})
	wg.Wait()
	st := c.ConnectionState()
	o.put("final", fmt.Sprintf("complete=%v vers=%x certs=%d", st.HandshakeComplete, st.Version, len(st.PeerCertificates)))
	o.put("close", errs(c.Close()))
	pw.Wait()
}

func renegReadWrite(x *env) {
	c, s, o := x.c, x.s, x.o
	if !handshakeQuietly(c, s, o) {
		return
	}
	var wg, pw vsched.WaitGroup
	served := strings.HasPrefix(x.scen, "reneg-served-")
	spawn(&pw, func() { peerRenegotiate(x, served) })
	spawn(&wg, func() { renegRead(c, o) })
	spawn(&wg, func() { _, err := c.Write(payA); o.put("writeA", errs(err)) })
	wg.Wait()
	o.put("close", errs(c.Close()))
	pw.Wait()
}

var scenarios = map[string]scenFn{
	// S1: two concurrent writers; the peer must see both payloads whole, in either order.
	"write-write": func(x *env) {
		c, s, o := x.c, x.s, x.o
		if !handshakeQuietly(c, s, o) {
			return
		}
		var wg, pw vsched.WaitGroup
		spawn(&pw, func() { peerReadAll(s, o) })
		spawn(&wg, func() { _, err := c.Write(payA); o.put("writeA", errs(err)) })
		spawn(&wg, func() { _, err := c.Write(payB); o.put("writeB", errs(err)) })
		wg.Wait()
		c.Close()
		pw.Wait()
	},
	// S2: reader and writer on the same connection while the peer echoes.
	"read-write": func(x *env) {
		c, s, o := x.c, x.s, x.o
		if !handshakeQuietly(c, s, o) {
			return
		}
		var wg, pw vsched.WaitGroup
		spawn(&pw, func() {
			buf := make([]byte, 64)
			n, err := io.ReadFull(s, buf[:len(payB)])
			o.setPeer(buf[:n])
			o.put("peer.read", errs(err))
			_, err = s.Write([]byte("pong"))
			o.put("peer.write", errs(err))
		})
		spawn(&wg, func() {
			buf := make([]byte, 16)
			n, err := io.ReadFull(c, buf[:4])
			o.put("read", string(buf[:n])+"/"+errs(err))
		})
		spawn(&wg, func() { _, err := c.Write(payB); o.put("writeB", errs(err)) })
		wg.Wait()
		pw.Wait()
		c.Close()
		s.Close()
	},
	// S3: Close while a Read is pending.
	"read-close": func(x *env) {
		c, s, o := x.c, x.s, x.o
		if !handshakeQuietly(c, s, o) {
			return
		}
		var wg, pw vsched.WaitGroup
		spawn(&pw, func() { peerReadAll(s, o) })
		spawn(&wg, func() {
			buf := make([]byte, 16)
			n, err := c.Read(buf)
			o.put("read", fmt.Sprintf("%d/%s", n, errs(err)))
		})
		spawn(&wg, func() { o.put("close", errs(c.Close())) })
		wg.Wait()
		pw.Wait()
	},
	// S4: concurrent Handshake calls and ConnectionState on a fresh connection.
	"handshake-handshake-state": func(x *env) {
		c, s, o := x.c, x.s, x.o
		var wg, pw vsched.WaitGroup
		spawn(&pw, func() { o.put("peer.handshake", errs(s.Handshake())) })
		spawn(&wg, func() { o.put("hs1", errs(c.Handshake())) })
		spawn(&wg, func() { o.put("hs2", errs(c.Handshake())) })
		spawn(&wg, func() { st := c.ConnectionState(); o.put("state", fmt.Sprintf("complete=%v", st.HandshakeComplete)) })
		wg.Wait()
		pw.Wait()
		st := c.ConnectionState()
		o.put("final", fmt.Sprintf("complete=%v vers=%x", st.HandshakeComplete, st.Version))
		c.Close()
		s.Close()
	},
	// S5: Write racing with Close (the activeCall interlock).
	"write-close": func(x *env) {
		c, s, o := x.c, x.s, x.o
		if !handshakeQuietly(c, s, o) {
			return
		}
		var wg, pw vsched.WaitGroup
		spawn(&pw, func() { peerReadAll(s, o) })
		spawn(&wg, func() { _, err := c.Write(payA); o.put("writeA", errs(err)) })
		spawn(&wg, func() { o.put("close", errs(c.Close())) })
		wg.Wait()
		pw.Wait()
	},
	// S6: a pending Read must return when a deadline in the past is set.
	"read-deadline": func(x *env) {
		c, s, o := x.c, x.s, x.o
		if !handshakeQuietly(c, s, o) {
			return
		}
		var wg vsched.WaitGroup
		spawn(&wg, func() {
			buf := make([]byte, 16)
			n, err := c.Read(buf)
			o.put("read", fmt.Sprintf("%d/%s", n, errs(err)))
		})
		spawn(&wg, func() { o.put("deadline", errs(c.SetDeadline(time.Unix(1, 0)))) })
		wg.Wait()
		c.Close()
		s.Close()
	},
	// S7: CloseWrite racing with Write and ConnectionState.
	"closewrite-write-state": func(x *env) {
		c, s, o := x.c, x.s, x.o
		if !handshakeQuietly(c, s, o) {
			return
		}
		var wg, pw vsched.WaitGroup
		spawn(&pw, func() { peerReadAll(s, o) })
		spawn(&wg, func() { o.put("closewrite", errs(c.CloseWrite())) })
		spawn(&wg, func() { _, err := c.Write(payA); o.put("writeA", errs(err)) })
		spawn(&wg, func() { st := c.ConnectionState(); o.put("state", fmt.Sprintf("complete=%v", st.HandshakeComplete)) })
		wg.Wait()
		pw.Wait()
		c.Close()
	},
	// S8 (TLS 1.3): the peer requests a key update while the connection reads and writes.
	"keyupdate-read-write": func(x *env) {
		c, s, o := x.c, x.s, x.o
		if !handshakeQuietly(c, s, o) {
			return
		}
		var wg, pw vsched.WaitGroup
		spawn(&pw, func() {
			o.put("peer.keyupdate", errs(s.VerifC34SendKeyUpdate(true)))
			_, err := s.Write([]byte("x-after-update"))
			o.put("peer.write", errs(err))
			peerReadAll(s, o)
		})
		spawn(&wg, func() {
			buf := make([]byte, 32)
			n, err := io.ReadFull(c, buf[:14])
			o.put("read", string(buf[:n])+"/"+errs(err))
		})
		spawn(&wg, func() { _, err := c.Write(payA); o.put("writeA", errs(err)) })
		wg.Wait()
		_, err := c.Write(payB) // must still be readable by the peer under the (possibly updated) keys
		o.put("writeB", errs(err))
		c.Close()
		pw.Wait()
	},
	// S10: two concurrent readers; each record goes whole to exactly one of them.
	"read-read": func(x *env) {
		c, s, o := x.c, x.s, x.o
		if !handshakeQuietly(c, s, o) {
			return
		}
		var wg, pw vsched.WaitGroup
		spawn(&pw, func() {
			_, e1 := s.Write([]byte("aaaa"))
			_, e2 := s.Write([]byte("bbbb"))
			o.put("peer.write", errs(e1)+","+errs(e2))
		})
		for i := 1; i <= 2; i++ {
			i := i
			spawn(&wg, func() {
				buf := make([]byte, 4)
				n, err := io.ReadFull(c, buf)
				o.put(fmt.Sprintf("read%d", i), string(buf[:n])+"/"+errs(err))
			})
		}
		wg.Wait()
		pw.Wait()
		c.Close()
		s.Close()
	},

	// ---- implicit handshake gating: calls on a FRESH connection, the peer handshakes on its own thread ----

	// S11: Write, Read and ConnectionState without a prior Handshake call: each of Read/Write runs the
	// handshake implicitly; exactly one of them performs it, the others wait on the handshake mutex.
	"fresh-write-read-state": func(x *env) {
		c, s, o := x.c, x.s, x.o
		var wg, pw vsched.WaitGroup
		spawn(&pw, func() {
			o.put("peer.handshake", errs(s.Handshake()))
			buf := make([]byte, 64)
			n, err := io.ReadFull(s, buf[:len(payA)])
			o.setPeer(buf[:n])
			o.put("peer.read", errs(err))
			_, err = s.Write([]byte("pong"))
			o.put("peer.write", errs(err))
		})
		spawn(&wg, func() { _, err := c.Write(payA); o.put("writeA", errs(err)) })
		spawn(&wg, func() {
			buf := make([]byte, 16)
			n, err := io.ReadFull(c, buf[:4])
			o.put("read", string(buf[:n])+"/"+errs(err))
		})
		spawn(&wg, func() { st := c.ConnectionState(); o.put("state", fmt.Sprintf("complete=%v", st.HandshakeComplete)) })
		wg.Wait()
		pw.Wait()
		st := c.ConnectionState()
		o.put("final", fmt.Sprintf("complete=%v vers=%x", st.HandshakeComplete, st.Version))
		c.Close()
		s.Close()
	},
	// S11b (thorough tier only, one more preemption): Read || Write on a fresh connection.
	"fresh-read-write": func(x *env) {
		c, s, o := x.c, x.s, x.o
		var wg, pw vsched.WaitGroup
		spawn(&pw, func() {
			o.put("peer.handshake", errs(s.Handshake()))
			buf := make([]byte, 64)
			n, err := io.ReadFull(s, buf[:len(payA)])
			o.setPeer(buf[:n])
			o.put("peer.read", errs(err))
			_, err = s.Write([]byte("pong"))
			o.put("peer.write", errs(err))
		})
		spawn(&wg, func() { _, err := c.Write(payA); o.put("writeA", errs(err)) })
		spawn(&wg, func() {
			buf := make([]byte, 16)
			n, err := io.ReadFull(c, buf[:4])
			o.put("read", string(buf[:n])+"/"+errs(err))
		})
		wg.Wait()
		pw.Wait()
		st := c.ConnectionState()
		o.put("final", fmt.Sprintf("complete=%v vers=%x", st.HandshakeComplete, st.Version))
		c.Close()
		s.Close()
	},
	// S12: Write (implicit handshake) racing with Close on a fresh connection.
	"fresh-write-close": func(x *env) {
		c, s, o := x.c, x.s, x.o
		var wg, pw vsched.WaitGroup
		spawn(&pw, func() {
			o.put("peer.handshake", errs(s.Handshake()))
			peerReadAll(s, o)
		})
		spawn(&wg, func() { _, err := c.Write(payA); o.put("writeA", errs(err)) })
		spawn(&wg, func() { o.put("close", errs(c.Close())) })
		wg.Wait()
		pw.Wait()
	},
	// S13: Close racing with an explicit Handshake on a fresh connection.
	"fresh-close-handshake": func(x *env) {
		c, s, o := x.c, x.s, x.o
		var wg, pw vsched.WaitGroup
		spawn(&pw, func() {
			o.put("peer.handshake", errs(s.Handshake()))
			s.Close()
		})
		spawn(&wg, func() { o.put("hs", errs(c.Handshake())) })
		spawn(&wg, func() { o.put("close", errs(c.Close())) })
		wg.Wait()
		pw.Wait()
		st := c.ConnectionState()
		o.put("final", fmt.Sprintf("complete=%v", st.HandshakeComplete))
	},

	// ---- the PEER closes while Read and Write are pending ----

	// S14: the peer closes properly (close_notify, then the transport).
	"peerclose-read-write": func(x *env) {
		c, s, o := x.c, x.s, x.o
		if !handshakeQuietly(c, s, o) {
			return
		}
		var wg, pw vsched.WaitGroup
		spawn(&pw, func() { o.put("peer.close", errs(s.Close())) })
		spawn(&wg, func() {
			buf := make([]byte, 16)
			n, err := c.Read(buf)
			o.put("read", fmt.Sprintf("%d/%s", n, errs(err)))
		})
		spawn(&wg, func() { _, err := c.Write(payA); o.put("writeA", errs(err)) })
		wg.Wait()
		pw.Wait()
		o.put("close", errs(c.Close()))
	},
	// S15: the peer vanishes: its transport is closed without a close_notify.
	"peerdrop-read-write": func(x *env) {
		c, s, o := x.c, x.s, x.o
		if !handshakeQuietly(c, s, o) {
			return
		}
		var wg, pw vsched.WaitGroup
		spawn(&pw, func() { o.put("peer.drop", errs(x.sp.Close())) })
		spawn(&wg, func() {
			buf := make([]byte, 16)
			n, err := c.Read(buf)
			o.put("read", fmt.Sprintf("%d/%s", n, errs(err)))
		})
		spawn(&wg, func() { _, err := c.Write(payA); o.put("writeA", errs(err)) })
		wg.Wait()
		pw.Wait()
		o.put("close", errs(c.Close()))
	},

	// ---- byte stream with multi-record writes ----

	// S16: a 20000-byte Write (several records) racing with a short one: each must arrive contiguous.
	"write-write-big": func(x *env) {
		c, s, o := x.c, x.s, x.o
		if !handshakeQuietly(c, s, o) {
			return
		}
		var wg, pw vsched.WaitGroup
		spawn(&pw, func() { peerReadAll(s, o) })
		spawn(&wg, func() { n, err := c.Write(payBig); o.put("writeBig", fmt.Sprintf("%d/%s", n, errs(err))) })
		spawn(&wg, func() { _, err := c.Write(payB); o.put("writeB", errs(err)) })
		wg.Wait()
		c.Close()
		pw.Wait()
	},

	// ---- further call pairs ----

	// S17: two concurrent Close calls.
	"close-close": func(x *env) {
		c, s, o := x.c, x.s, x.o
		if !handshakeQuietly(c, s, o) {
			return
		}
		var wg, pw vsched.WaitGroup
		spawn(&pw, func() { peerReadAll(s, o) })
		spawn(&wg, func() { o.put("close1", errs(c.Close())) })
		spawn(&wg, func() { o.put("close2", errs(c.Close())) })
		wg.Wait()
		pw.Wait()
	},
	// S18: CloseWrite racing with a pending Read: the read side stays usable (half-close).
	"closewrite-read": func(x *env) {
		c, s, o := x.c, x.s, x.o
		if !handshakeQuietly(c, s, o) {
			return
		}
		var wg, pw vsched.WaitGroup
		spawn(&pw, func() {
			b, err := io.ReadAll(s) // ends at the close_notify of CloseWrite
			o.setPeer(b)
			o.put("peer.read", errs(err))
			_, err = s.Write([]byte("pong"))
			o.put("peer.write", errs(err))
		})
		spawn(&wg, func() { o.put("closewrite", errs(c.CloseWrite())) })
		spawn(&wg, func() {
			buf := make([]byte, 16)
			n, err := io.ReadFull(c, buf[:4])
			o.put("read", string(buf[:n])+"/"+errs(err))
		})
		wg.Wait()
		pw.Wait()
		c.Close()
		s.Close()
	},
	// S19: SetDeadline racing with Write (the model transport has no write deadline: only the read side expires).
	"setdeadline-write": func(x *env) {
		c, s, o := x.c, x.s, x.o
		if !handshakeQuietly(c, s, o) {
			return
		}
		var wg, pw vsched.WaitGroup
		spawn(&pw, func() { peerReadAll(s, o) })
		spawn(&wg, func() { o.put("deadline", errs(c.SetDeadline(time.Unix(1, 0)))) })
		spawn(&wg, func() { _, err := c.Write(payA); o.put("writeA", errs(err)) })
		wg.Wait()
		c.Close()
		pw.Wait()
	},
	// S20: SetReadDeadline and SetWriteDeadline racing with each other and with a pending Read; a Write
	// afterwards must still go through (the write deadline set is in the future).
	"deadlines-read": func(x *env) {
		c, s, o := x.c, x.s, x.o
		if !handshakeQuietly(c, s, o) {
			return
		}
		var wg, pw vsched.WaitGroup
		spawn(&pw, func() { peerReadAll(s, o) })
		spawn(&wg, func() { o.put("rdeadline", errs(c.SetReadDeadline(time.Unix(1, 0)))) })
		spawn(&wg, func() { o.put("wdeadline", errs(c.SetWriteDeadline(vsched.VNow().Add(time.Hour)))) })
		spawn(&wg, func() {
			buf := make([]byte, 16)
			n, err := c.Read(buf)
			o.put("read", fmt.Sprintf("%d/%s", n, errs(err)))
		})
		wg.Wait()
		_, err := c.Write(payA)
		o.put("writeA", errs(err))
		c.Close()
		pw.Wait()
	},
	// ---- renegotiation (TLS <= 1.2, client under test, Renegotiation = RenegotiateFreelyAsClient) ----
	// The peer sends a HelloRequest after the first handshake: the client's Read takes the handshake mutex again,
	// resets the handshake status and rewrites connection state (didResume, serverName, ...) while it sends its new
	// ClientHello. The zcrypto server (like crypto/tls) refuses a renegotiation ClientHello with an alert, so the
	// second handshake fails: every call must still return, and the getters must not race with the rewrite.

	// S22: Read (which renegotiates) racing with the handshake-state getters; refused / served by the peer.
	"reneg-read-state":        renegReadState,
	"reneg-served-read-state": renegReadState,
	// S23: Read (which renegotiates) racing with Write: the Write goes out whole (before the new ClientHello, or
	// after the second handshake under the new keys), or fails.
	"reneg-read-write":        renegReadWrite,
	"reneg-served-read-write": renegReadWrite,
	// S24: the WRITE deadline expires (SetWriteDeadline from another goroutine) while a Write is under way -- possibly
	// between two transport writes of it (TLS 1.0: the 1-byte record and the rest) -- and is lifted again; a second
	// Write follows. Whatever Write reports as written must be what the peer gets.
	"writedeadline-write-write":    func(x *env) { writeDeadlineWrites(x, payA) },
	// a write deadline expiring (set by a third thread) while Close sends its close_notify, beside a pending Read:
	// whatever the alert write answers, Close must release the transport, so the parked Read and the peer return.
	"writedeadline-close-read": func(x *env) {
		c, s, o := x.c, x.s, x.o
		if !handshakeQuietly(c, s, o) {
			return
		}
		var wg, pw vsched.WaitGroup
		spawn(&pw, func() { peerReadAll(s, o) })
		spawn(&wg, func() {
			buf := make([]byte, 16)
			n, err := c.Read(buf)
			o.put("read", fmt.Sprintf("%d/%s", n, errs(err)))
		})
		spawn(&wg, func() { o.put("close", errs(c.Close())) })
		spawn(&wg, func() { o.put("wdeadline", errs(c.SetWriteDeadline(time.Unix(1, 0)))) })
		wg.Wait()
		pw.Wait()
	},
	"writedeadline-bigwrite-write": func(x *env) { writeDeadlineWrites(x, payBig) },
	// S21 (TLS 1.3, tickets enabled): the NewSessionTicket the server sent after its Finished is processed
	// inside the client's Read, concurrently with Write and ConnectionState.
	"ticket-read-write-state": func(x *env) {
		c, s, o := x.c, x.s, x.o
		if !handshakeQuietly(c, s, o) {
			return
		}
		var wg, pw vsched.WaitGroup
		spawn(&pw, func() {
			_, err := s.Write([]byte("pong"))
			o.put("peer.write", errs(err))
			peerReadAll(s, o)
		})
		spawn(&wg, func() {
			buf := make([]byte, 16)
			n, err := io.ReadFull(c, buf[:4])
			o.put("read", string(buf[:n])+"/"+errs(err))
		})
		spawn(&wg, func() { _, err := c.Write(payA); o.put("writeA", errs(err)) })
		spawn(&wg, func() { st := c.ConnectionState(); o.put("state", fmt.Sprintf("complete=%v", st.HandshakeComplete)) })
		wg.Wait()
		_, cached := x.cc.ClientSessionCache.Get("srv.example")
		o.put("ticket", fmt.Sprintf("stored=%v", cached))
		c.Close()
		pw.Wait()
	},
}

func runOnce(j job, prefix []int) (vsched.Result, *obs) {
	o := &obs{}
	res := vsched.Run(prefix, func() {
		cp, sp, n := vsched.NewPipe()
		n.ShortReads = j.EB > 0
		cc, sc := configs(j.Vers, j.Scen)
		x := &env{scen: j.Scen, cc: cc, sc: sc, sp: sp, o: o}
		if j.Role == "server" {
			x.c, x.s = tls.Server(cp, sc), tls.Client(sp, cc)
		} else {
			x.c, x.s = tls.Client(cp, cc), tls.Server(sp, sc)
		}
		scenarios[j.Scen](x)
		o.put("done", "1")
	})
	return res, o
}

// interleavingOf reports whether got is a concatenation of each of the parts exactly once, in some order.
func interleavingOf(got []byte, parts ...[]byte) bool {
	if len(parts) == 0 {
		return len(got) == 0
	}
	for i, p := range parts {
		if bytes.HasPrefix(got, p) {
			rest := append(append([][]byte{}, parts[:i]...), parts[i+1:]...)
			if interleavingOf(got[len(p):], rest...) {
				return true
			}
		}
	}
	return false
}

// cutOK: what the peer may have received of a payload whose Write returned an error because a Close cut it:
// nothing or all of it, and at TLS 1.0 with a CBC suite also just its first byte (the 1/n-1 split puts that byte
// into a record of its own, so it is an authentic prefix at a record boundary). The payloads here fit one record
// otherwise, so any other proper prefix would be an altered record.
func cutOK(j job, got, pay []byte) bool {
	if len(got) == 0 || bytes.Equal(got, pay) {
		return true
	}
	return j.Vers == tls.VersionTLS10 && bytes.Equal(got, pay[:1])
}

// judge: "" or (violation class, detail)
func judge(j job, res vsched.Result, o *obs) (string, string) {
	if res.Panic != "" {
		return "panic: " + ev.MsgClass(res.Panic), fmt.Sprintf("thread %d", res.PanicThread)
	}
	if res.Deadlock {
		return "deadlock: no thread can run although every peer/deadline event has been delivered", res.DeadInfo
	}
	if res.Horizon {
		return "livelock: step horizon exceeded", ""
	}
	if v, ok := o.get("setup"); ok {
		return "setup: " + v, ""
	}
	if _, ok := o.get("done"); !ok {
		return "scenario body did not finish", ""
	}
	g := func(k string) string { v, _ := o.get(k); return v }
	switch j.Scen {
	case "write-write":
		if g("writeA") != "nil" || g("writeB") != "nil" {
			return "Write failed although nobody closed the connection", g("writeA") + " / " + g("writeB")
		}
		if !interleavingOf(o.peer, payA, payB) {
			return "peer did not receive the two written payloads whole, each exactly once", fmt.Sprintf("%q", o.peer)
		}
	case "read-write":
		if g("writeB") != "nil" || !bytes.Equal(o.peer, payB) {
			return "written payload did not arrive intact", fmt.Sprintf("%s %q", g("writeB"), o.peer)
		}
		if g("read") != "pong/nil" {
			return "reader did not receive the peer's reply", g("read")
		}
	case "read-close":
		if g("close") != "nil" && !strings.HasPrefix(g("close"), "err:") {
			return "Close returned something unexpected", g("close")
		}
		if r := g("read"); !strings.HasPrefix(r, "0/") || r == "0/nil" {
			return "Read returned data or no error although the peer never wrote", r
		}
	case "handshake-handshake-state":
		if g("hs1") != "nil" || g("hs2") != "nil" || g("peer.handshake") != "nil" {
			return "concurrent Handshake calls did not all succeed", g("hs1") + " / " + g("hs2") + " / peer " + g("peer.handshake")
		}
		if !strings.HasPrefix(g("final"), "complete=true") {
			return "handshake not complete after both Handshake calls returned nil", g("final")
		}
	case "write-close":
		w := g("writeA")
		if w == "nil" {
			if !bytes.Equal(o.peer, payA) {
				return "Write returned nil but the peer did not receive the payload intact", fmt.Sprintf("%q", o.peer)
			}
		} else if !cutOK(j, o.peer, payA) {
			return "peer received a partial or altered payload", fmt.Sprintf("%q", o.peer)
		}
	case "read-deadline":
		if r := g("read"); r != "0/timeout" {
			return "pending Read did not return a timeout after the deadline expired", r
		}
	case "closewrite-write-state":
		w := g("writeA")
		if w == "nil" && !bytes.Equal(o.peer, payA) {
			return "Write returned nil but the peer did not receive the payload intact", fmt.Sprintf("%q", o.peer)
		}
		if w != "nil" && !cutOK(j, o.peer, payA) {
			return "peer received a partial or altered payload", fmt.Sprintf("%q", o.peer)
		}
		if g("closewrite") != "nil" {
			return "CloseWrite failed after a completed handshake", g("closewrite")
		}
	case "keyupdate-read-write":
		if g("read") != "x-after-update/nil" {
			return "data sent after the peer's KeyUpdate was not received intact", g("read")
		}
		if g("writeA") != "nil" || g("writeB") != "nil" || !interleavingOf(o.peer, payA, payB) || !bytes.HasPrefix(o.peer, payA) {
			return "data written around a requested key update did not arrive intact and in order", fmt.Sprintf("%s %s %q", g("writeA"), g("writeB"), o.peer)
		}
	case "read-read":
		a, b := g("read1"), g("read2")
		if !((a == "aaaa/nil" && b == "bbbb/nil") || (a == "bbbb/nil" && b == "aaaa/nil")) {
			return "two concurrent readers did not each receive one whole record", a + " | " + b
		}
	case "fresh-write-read-state", "fresh-read-write":
		if g("peer.handshake") != "nil" {
			return "the peer's handshake failed although nobody closed the connection", g("peer.handshake")
		}
		if g("writeA") != "nil" || !bytes.Equal(o.peer, payA) {
			return "payload written on a fresh connection (implicit handshake) did not arrive intact", fmt.Sprintf("%s %q", g("writeA"), o.peer)
		}
		if g("read") != "pong/nil" {
			return "reader on a fresh connection (implicit handshake) did not receive the peer's reply", g("read")
		}
		if !strings.HasPrefix(g("final"), "complete=true") {
			return "handshake not complete after Read and Write returned nil", g("final")
		}
	case "fresh-write-close":
		w := g("writeA")
		if w == "nil" {
			if !bytes.Equal(o.peer, payA) {
				return "Write returned nil but the peer did not receive the payload intact", fmt.Sprintf("%q", o.peer)
			}
		} else if !cutOK(j, o.peer, payA) {
			return "peer received a partial or altered payload", fmt.Sprintf("%q", o.peer)
		}
		if g("close") != "nil" && !strings.HasPrefix(g("close"), "err:") {
			return "Close returned something unexpected", g("close")
		}
	case "fresh-close-handshake":
		if g("hs") == "nil" && g("final") != "complete=true" {
			return "Handshake returned nil but the connection does not report a completed handshake", g("final")
		}
		if g("hs") == "" || g("close") == "" {
			return "Handshake or Close did not return", g("hs") + " / " + g("close")
		}
	case "peerclose-read-write", "peerdrop-read-write":
		// the peer never writes application data: a pending Read must come back with an error (EOF after
		// close_notify, an error after a dropped transport), a pending Write with nil or an error. That both
		// DO come back is checked by the deadlock / livelock / "body did not finish" verdicts above.
		if r := g("read"); !strings.HasPrefix(r, "0/") || r == "0/nil" {
			return "Read returned data or no error although the peer closed without ever writing", r
		}
		if w := g("writeA"); w != "nil" && !strings.HasPrefix(w, "err:") && w != "EOF" {
			return "Write returned something unexpected after the peer closed", w
		}
	case "write-write-big":
		if g("writeBig") != fmt.Sprintf("%d/nil", len(payBig)) || g("writeB") != "nil" {
			return "Write failed although nobody closed the connection", g("writeBig") + " / " + g("writeB")
		}
		if !interleavingOf(o.peer, payBig, payB) {
			return "peer did not receive the two written payloads whole, each exactly once", describeStream(o.peer)
		}
	case "close-close":
		a, b := g("close1"), g("close2")
		for _, r := range []string{a, b} {
			if r != "nil" && !strings.HasPrefix(r, "err:") {
				return "Close returned something unexpected", r
			}
		}
		if a != "nil" && b != "nil" {
			return "both concurrent Close calls failed", a + " | " + b
		}
		if len(o.peer) != 0 {
			return "peer received application data although none was written", fmt.Sprintf("%q", trunc(o.peer))
		}
	case "closewrite-read":
		if g("closewrite") != "nil" {
			return "CloseWrite failed after a completed handshake", g("closewrite")
		}
		if len(o.peer) != 0 {
			return "peer received application data although none was written", fmt.Sprintf("%q", trunc(o.peer))
		}
		if g("peer.write") == "nil" && g("read") != "pong/nil" {
			return "Read did not deliver the data the peer sent after CloseWrite (half-close)", g("read")
		}
	case "setdeadline-write":
		w := g("writeA")
		if w == "nil" && !bytes.Equal(o.peer, payA) {
			return "Write returned nil but the peer did not receive the payload intact", fmt.Sprintf("%q", o.peer)
		}
		if w != "nil" && !cutOK(j, o.peer, payA) {
			return "peer received a partial or altered payload", fmt.Sprintf("%q", o.peer)
		}
		if g("deadline") != "nil" {
			return "SetDeadline failed", g("deadline")
		}
	case "deadlines-read":
		if r := g("read"); r != "0/timeout" {
			return "pending Read did not return a timeout after the read deadline expired", r
		}
		if g("writeA") != "nil" || !bytes.Equal(o.peer, payA) {
			return "a Write under an unexpired write deadline did not arrive intact", fmt.Sprintf("%s %q", g("writeA"), o.peer)
		}
	case "reneg-read-state", "reneg-read-write", "reneg-served-read-state", "reneg-served-read-write":
		if g("peer.hellorequest") != "nil" {
			return "setup: the peer could not send its HelloRequest", g("peer.hellorequest")
		}
		// (that every call DOES come back is the deadlock / livelock / "body did not finish" verdict above)
		served := strings.HasPrefix(j.Scen, "reneg-served-")
		stateOnly := strings.HasSuffix(j.Scen, "-read-state")
		r := g("read")
		switch {
		case served && g("peer.reneg") == "nil":
			// the second handshake went through on the peer's side: the data it sent afterwards, under the new keys, must arrive
			if r != "4/pong/nil" {
				return "Read did not deliver the data the peer sent after the renegotiation it had completed", r
			}
		case served && stateOnly:
			// nothing but getters ran beside the renegotiating Read: the second handshake has no reason to fail
			return "a renegotiation served by the peer failed although only Read and state getters were running", g("peer.reneg") + " / read " + r
		default:
			// refused (or broken off by application data that reached the peer before the ClientHello): the peer never
			// wrote application data, Read comes back with an error
			if !strings.HasPrefix(r, "0//") || r == "0//nil" {
				return "Read returned data or no error although the renegotiation attempt did not go through", r
			}
		}
		if stateOnly {
			for _, k := range []string{"state", "final"} {
				if st := g(k); !strings.Contains(st, fmt.Sprintf("vers=%x ", j.Vers)) || strings.Contains(st, "certs=0") {
					return "ConnectionState around a renegotiation lost the negotiated version or the peer certificates", k + ": " + st
				}
			}
			if served && !strings.Contains(g("final"), "complete=true") {
				return "handshake not complete after a renegotiation that the peer completed", g("final")
			}
		} else {
			w := g("writeA")
			switch {
			case served && g("peer.reneg") != "nil":
				// application data reached the scaffold server while it was waiting for the ClientHello: it gives up with
				// an internal error and delivers only what it had already decrypted, so its view of the stream ends
				// early (at TLS 1.0 possibly after the 1-byte record): what it did get must be an authentic prefix
				if !bytes.HasPrefix(payA, o.peer) {
					return "peer received altered application data", fmt.Sprintf("%q", o.peer)
				}
			case w == "nil" && !bytes.Equal(o.peer, payA):
				return "Write returned nil but the peer did not receive the payload intact", fmt.Sprintf("%q", o.peer)
			case w != "nil" && !cutOK(j, o.peer, payA):
				return "peer received a partial or altered payload", fmt.Sprintf("%q", o.peer)
			}
		}
	case "writedeadline-close-read":
		// Close answers nil, or the timeout of its close_notify write, or an error: any of them, but it answers
		if _, ok := o.get("close"); !ok {
			return "Close did not return", ""
		}
		if r := g("read"); !strings.HasPrefix(r, "0/") || r == "0/nil" {
			return "Read returned data or no error although the peer never wrote", r
		}
		if len(o.peer) != 0 {
			return "peer received application data although none was written", fmt.Sprintf("%q", trunc(o.peer))
		}
	case "writedeadline-write-write", "writedeadline-bigwrite-write":
		first := payA
		if j.Scen == "writedeadline-bigwrite-write" {
			first = payBig
		}
		// what the peer may have got of one Write: all of it when Write returned nil; when it returned an error a
		// prefix that ends at a record boundary (nothing / the 1-byte record of the TLS 1.0 split / for the
		// multi-record payload any prefix: record sizes are the implementation's choice) -- or all of it
		allowed := func(res string, pay []byte, got []byte) (rest []byte, ok bool) {
			if strings.HasSuffix(res, "/nil") {
				if res != fmt.Sprintf("%d/nil", len(pay)) || !bytes.HasPrefix(got, pay) {
					return nil, false
				}
				return got[len(pay):], true
			}
			if bytes.HasPrefix(got, pay) {
				return got[len(pay):], true
			}
			return got, true // (a shorter authentic prefix is looked for by the caller)
		}
		w1, w2 := g("write1"), g("write2")
		ok := false
		// the stream must be  P1 || P2  with P1, P2 as above: try every split point that P1's rules allow
		cands := [][]byte{}
		if rest, k := allowed(w1, first, o.peer); k {
			cands = append(cands, rest)
		}
		if !strings.HasSuffix(w1, "/nil") {
			switch {
			case len(first) > 100: // multi-record payload: any proper prefix
				l := 0
				for l < len(first) && l < len(o.peer) && o.peer[l] == first[l] {
					l++
				}
				for k := 0; k <= l; k++ {
					cands = append(cands, o.peer[k:])
				}
			case j.Vers == tls.VersionTLS10 && len(o.peer) >= 1 && o.peer[0] == first[0]:
				cands = append(cands, o.peer[1:])
			}
		}
		for _, rest := range cands {
			if strings.HasSuffix(w2, "/nil") {
				if w2 == fmt.Sprintf("%d/nil", len(payB)) && bytes.Equal(rest, payB) {
					ok = true
				}
			} else if len(rest) == 0 || bytes.Equal(rest, payB) || (j.Vers == tls.VersionTLS10 && bytes.Equal(rest, payB[:1])) {
				ok = true
			}
		}
		if !ok {
			return "a Write that returned nil was not delivered intact and in order (write deadline expired and lifted around it)", fmt.Sprintf("write1=%s write2=%s peer.read=%s peer got %s", w1, w2, g("peer.read"), describeWD(o.peer, first))
		}
	case "ticket-read-write-state":
		if g("read") != "pong/nil" {
			return "data sent after the NewSessionTicket was not received intact", g("read")
		}
		if g("writeA") != "nil" || !bytes.Equal(o.peer, payA) {
			return "data written while the NewSessionTicket was processed did not arrive intact", fmt.Sprintf("%s %q", g("writeA"), o.peer)
		}
	}
	return "", ""
}

func describeWD(got, first []byte) string {
	l := 0
	for l < len(first) && l < len(got) && got[l] == first[l] {
		l++
	}
	return fmt.Sprintf("%d bytes: %d-byte prefix of the first payload, then %q", len(got), l, trunc(got[l:]))
}

// describeStream summarises a long received stream for a witness: length and the runs of it that
// match the big payload / the short payload at the right offsets.
func describeStream(got []byte) string {
	at := bytes.Index(got, payB)
	return fmt.Sprintf("len=%d (want %d) short payload at offset %d head=%q", len(got), len(payBig)+len(payB), at, trunc(got))
}

func canary(jobs string) {
	raceLog := os.Getenv("VX_RACELOG")
	count := func(locked bool) int {
		st := vx.Explore(vx.Options{PreemptBound: 1, RaceLog: raceLog}, func(prefix []int) (vsched.Result, any) {
			x := 0
			var mu vsched.Mutex
			var wg vsched.WaitGroup
			return vsched.Run(prefix, func() {
				wg.Add(2)
				for i := 0; i < 2; i++ {
					vsched.Go(func() {
						if locked {
							mu.Lock()
						}
						canaryCounter(&x)
						if locked {
							mu.Unlock()
						}
						wg.Done()
					})
				}
				wg.Wait()
			}), nil
		}, func(x *vx.Exec) bool { return true })
		return st.Races
	}
	racy, locked := count(false), count(true)
	if racy > 1 {
		racy = 1
	}
	out := vx.WorkerOut{Job: jobs, Races: []string{fmt.Sprintf("canary: racy=%d locked=%d", racy, locked)}}
	b, _ := json.Marshal(out)
	fmt.Println(string(b))
}

//go:noinline
func canaryCounter(p *int) { *p++ }

func worker(js string) {
	debug.SetGCPercent(1000)
	if os.Getenv("C34_CANARY") == "1" {
		canary(js)
		return
	}
	var j job
	if err := json.Unmarshal([]byte(js), &j); err != nil || scenarios[j.Scen] == nil {
		fmt.Println(`{"job":"?","broken":"bad job"}`)
		return
	}
	out := vx.WorkerOut{Job: js, Outcomes: map[string]int64{}, Bound: -1}
	raceLog := ""
	if j.Race {
		raceLog = os.Getenv("VX_RACELOG")
	}
	repo := os.Getenv("VERIF_REPO_DIR")
	if repo == "" {
		repo = "/repo"
	}
	seen := map[string]bool{}
	stopEarly := false
	deadline := time.Now().Add(scaled(100 * time.Second))
	if os.Getenv("VERIF_TIER") == "thorough" {
		deadline = time.Now().Add(scaled(20 * time.Minute))
	}
	// the parent also gives every pass an absolute end (a pass with more jobs than cores runs them in waves):
	// past it a job stops with what it has completed (reported as incomplete, never as a verdict)
	if ms, err := strconv.ParseInt(os.Getenv("VX_PASS_END_UNIXMS"), 10, 64); err == nil && ms > 0 {
		if end := time.UnixMilli(ms); end.Before(deadline) {
			deadline = end
		}
	}
	for b := 0; b <= j.PB; b++ {
		st := vx.Explore(vx.Options{PreemptBound: b, EnvBound: j.EB, Deadline: deadline, RaceLog: raceLog},
			func(prefix []int) (vsched.Result, any) { r, o := runOnce(j, prefix); return r, o },
			func(x *vx.Exec) bool {
				o := x.Obs.(*obs)
				if x.Result.Stragglers > 0 {
					out.Broken = "threads could not be unwound"
					return false
				}
				cls, detail := judge(j, x.Result, o)
				var kv []string
				for i := 0; i < o.n; i++ {
					kv = append(kv, o.key[i]+"="+o.val[i])
				}
				sort.Strings(kv)
				if x.Result.Horizon {
					stopEarly = true // a livelocked execution has thousands of choice points: its alternatives say nothing more
				}
				if cls != "" {
					sig := j.Scen + ": " + cls
					if !seen[sig] {
						seen[sig] = true
						out.Violations = append(out.Violations, vx.WorkerViol{Sig: sig, Witness: map[string]any{"job": j, "schedule": x.Choices, "detail": detail, "observations": kv, "preemptions": x.Preempt}})
					}
					out.Outcomes["VIOLATION "+cls]++
				} else {
					out.Outcomes[strings.Join(kv, " ")+fmt.Sprintf(" peer=%q", trunc(o.peer))]++
				}
				if x.RaceNew != "" {
					for _, r := range vx.ParseRaces(x.RaceNew, repo) {
						if !r.InRepo {
							continue
						}
						sig := "data race: " + r.Summary
						if !seen[sig] {
							seen[sig] = true
							out.Races = append(out.Races, r.Summary)
							rep := x.RaceNew
							if len(rep) > 1800 {
								rep = rep[:1800]
							}
							out.Violations = append(out.Violations, vx.WorkerViol{Sig: sig, Witness: map[string]any{"job": j, "schedule": x.Choices, "report": rep}})
						}
					}
				}
				if len(out.Samples) < 1 && x.Preempt > 0 {
					out.Samples = append(out.Samples, map[string]any{"job": j, "schedule": x.Choices, "observations": kv, "choice_points": len(x.Result.Points), "steps": x.Result.Steps})
				}
				return !stopEarly
			})
		out.Stats.Execs += st.Execs
		out.Stats.Points += st.Points
		out.Stats.Steps += st.Steps
		if st.MaxPoints > out.Stats.MaxPoints {
			out.Stats.MaxPoints = st.MaxPoints
		}
		out.Stats.Deadlocks += st.Deadlocks
		out.Stats.Races += st.Races
		if !st.Complete {
			break
		}
		out.Bound = b
		out.Stats.Complete = b == j.PB
	}
	// fold the (many) distinct ok-outcomes into a count to keep the output small
	okClasses := 0
	folded := map[string]int64{}
	for k, n := range out.Outcomes {
		if strings.HasPrefix(k, "VIOLATION") {
			folded[k] = n
		} else {
			okClasses++
			folded["ok"] += n
		}
	}
	folded["distinct ok observation vectors"] = int64(okClasses)
	out.Outcomes = folded
	b, _ := json.Marshal(out)
	fmt.Println(string(b))
}

func clip(s string, n int) string {
	if len(s) > n {
		return s[:n]
	}
	return s
}

func repoDir() string {
	if r := os.Getenv("VERIF_REPO_DIR"); r != "" {
		return r
	}
	return "/repo"
}

func trunc(b []byte) string {
	if len(b) > 24 {
		return string(b[:24]) + "…"
	}
	return string(b)
}

// newScenarios are the scenarios added when the check was strengthened; they run at preemption bound 1
// in the quick tier (2 in thorough), the older ones at 2 (3).
var newScenarios = []string{"fresh-write-read-state", "fresh-write-close", "fresh-close-handshake", "peerclose-read-write", "peerdrop-read-write",
	"write-write-big", "close-close", "closewrite-read", "setdeadline-write", "deadlines-read", "ticket-read-write-state", "fresh-read-write"}

// serverRole lists the scenarios that are also run with the SERVER end as the connection under test
// (value true: already in the quick tier; false: thorough tier only).
var serverRole = map[string]bool{"fresh-write-close": true, "peerclose-read-write": true, "write-write-big": true, "close-close": true,
	"fresh-write-read-state": false, "read-write": false, "read-close": false, "peerdrop-read-write": false, "closewrite-read": false}

func exploresHandshake(n string) bool {
	return n == "handshake-handshake-state" || strings.HasPrefix(n, "fresh-")
}

func jobsFor(thorough, race bool) []job {
	var out []job
	names := []string{"write-write", "read-write", "read-close", "handshake-handshake-state", "write-close", "read-deadline", "closewrite-write-state", "keyupdate-read-write", "read-read"}
	isNew := map[string]bool{}
	for _, n := range newScenarios {
		isNew[n] = true
	}
	names = append(names, newScenarios...)
	pbFor := func(n string) int {
		pb := 2
		if n == "handshake-handshake-state" || n == "closewrite-write-state" || isNew[n] {
			pb = 1 // the whole handshake is explored / four threads: far more schedules; new scenarios: see above
		}
		if race {
			pb = 1
			if exploresHandshake(n) {
				pb = 0
			}
		}
		switch {
		case !thorough:
			if n == "keyupdate-read-write" && !race {
				pb = 1
			}
			if race && (n == "ticket-read-write-state" || n == "write-write-big" || n == "closewrite-write-state" || n == "deadlines-read") {
				// the longest jobs of the race pass (23-33 s each alone at bound 1, twice that when all cores run
				// ThreadSanitizer processes: 4k-6.5k schedules / 20 KB of records per execution): bound 0 in quick so that the pass keeps a margin to its end time on a
				// machine that is not idle; ThreadSanitizer judges by happens-before, bound 1 stays in thorough
				pb = 0
			}
		case n == "fresh-write-read-state" && !race:
			// 50k-76k schedules at bound 1: bound 2 is out of reach; fresh-read-write goes there instead
		case race && (n == "ticket-read-write-state" || n == "write-write-big"):
			// 365k / 126k schedules at bound 2, 5-6 ms each under ThreadSanitizer: stays at bound 1 in the race pass
		default:
			pb++
		}
		return pb
	}
	for _, v := range []uint16{tls.VersionTLS12, tls.VersionTLS13} {
		for _, n := range names {
			if (n == "keyupdate-read-write" || n == "ticket-read-write-state") && v != tls.VersionTLS13 {
				continue
			}
			// quick: the two-thread fresh-connection scenario; the three-thread one (50k-76k schedules per version at
			// bound 1) and key update at bound 2 (74k) are thorough-only, so that the quick tier also completes on a
			// loaded machine
			if n == "fresh-write-read-state" && !thorough && !race {
				continue
			}
			if n == "fresh-read-write" && !thorough && race {
				continue
			}
			pb := pbFor(n)
			out = append(out, job{Scen: n, Vers: v, PB: pb, Race: race})
			if thorough && !race && !exploresHandshake(n) && n != "write-write-big" {
				out = append(out, job{Scen: n, Vers: v, PB: pb - 1, EB: 1})
			}
			if inQuick, ok := serverRole[n]; ok && (thorough || inQuick) {
				out = append(out, job{Scen: n, Vers: v, PB: pb, Race: race, Role: "server"})
			}
		}
	}
	// TLS 1.0 with a CBC suite: every Write is split 1/n-1 into two records under the same hold of the out lock
	// (a new configuration: bound 1 in quick, 2 in thorough, like the new scenarios)
	out = append(out, job{Scen: "write-write", Vers: tls.VersionTLS10, PB: pbFor("write-write-big"), Race: race})
	if thorough {
		out = append(out, job{Scen: "write-write-big", Vers: tls.VersionTLS10, PB: pbFor("write-write-big"), Race: race})
		out = append(out, job{Scen: "write-close", Vers: tls.VersionTLS10, PB: pbFor("write-write-big"), Race: race})
	}
	// write deadline expiring and lifted around a Write: TLS 1.0 (CBC, the Write is two transport writes), 1.2, 1.3;
	// bound 1 (thorough 2, and the multi-record payload at TLS 1.2), race pass 1
	for _, v := range []uint16{tls.VersionTLS10, tls.VersionTLS12, tls.VersionTLS13} {
		pb := 1
		if thorough && !race {
			pb = 2
		}
		if race && !thorough && v == tls.VersionTLS12 {
			continue // quick race pass: TLS 1.0 (two transport writes per Write) and 1.3
		}
		out = append(out, job{Scen: "writedeadline-write-write", Vers: v, PB: pb, Race: race})
		if v != tls.VersionTLS10 && (thorough || !race) {
			// Close || SetWriteDeadline(past) || pending Read: the deadline can expire just before the close_notify write
			out = append(out, job{Scen: "writedeadline-close-read", Vers: v, PB: pb, Race: race})
		}
		if thorough && v == tls.VersionTLS12 {
			out = append(out, job{Scen: "writedeadline-bigwrite-write", Vers: v, PB: 1, Race: race})
		}
	}
	// renegotiation exists up to TLS 1.2 only and only the client accepts a HelloRequest: TLS 1.2 and TLS 1.0 (CBC),
	// client end under test; the second handshake is explored (not quiet): bound 1 (thorough 2), race pass 1
	for _, v := range []uint16{tls.VersionTLS12, tls.VersionTLS10} {
		for _, n := range []string{"reneg-read-state", "reneg-read-write", "reneg-served-read-state", "reneg-served-read-write"} {
			pb := 1
			if thorough && !race && !strings.Contains(n, "-served-") {
				pb = 2 // (a served renegotiation is a whole second handshake: > 10^5 schedules at bound 2)
			}
			if race && !thorough {
				// quick race pass (an execution costs 5-7 ms under ThreadSanitizer): the getter scenarios, where the
				// races would be, at bound 1 (served: TLS 1.2 only); the served Read||Write at TLS 1.2 at bound 0
				served, state := strings.Contains(n, "-served-"), strings.HasSuffix(n, "-read-state")
				if v == tls.VersionTLS10 && !(state && !served) {
					continue
				}
				if !served && !state {
					continue // refused Read||Write: scheduler pass and thorough race pass only
				}
				if served && !state {
					pb = 0
				}
			}
			out = append(out, job{Scen: n, Vers: v, PB: pb, Race: race})
		}
	}
	// longest first, so that the long jobs do not start last (weights from measured run times of the quick tier:
	// the race build is dominated by the cost of an execution under ThreadSanitizer, the normal build by the number of schedules)
	heavy := map[string]int{"keyupdate-read-write": 9, "fresh-write-read-state": 9, "handshake-handshake-state": 8, "write-write": 7,
		"read-read": 6, "write-close": 6, "read-close": 6, "read-write": 5, "ticket-read-write-state": 5, "closewrite-write-state": 4, "write-write-big": 4}
	if race {
		heavy = map[string]int{"ticket-read-write-state": 9, "write-write-big": 9, "closewrite-write-state": 8, "keyupdate-read-write": 6,
			"deadlines-read": 6, "write-write": 5, "close-close": 4, "fresh-write-read-state": 4,
			"reneg-served-read-state": 7, "reneg-read-write": 3, "reneg-read-state": 3}
	}
	weight := func(j job) int { return heavy[j.Scen] }
	sort.SliceStable(out, func(a, b int) bool { return weight(out[a]) > weight(out[b]) })
	return out
}

// scaled stretches the wall-clock budgets (which only ever turn a run into "incomplete", never into a
// verdict) by VERIF_TIME_SCALE, for runs on a machine that is shared and loaded.
func scaled(d time.Duration) time.Duration {
	if f, err := strconv.ParseFloat(os.Getenv("VERIF_TIME_SCALE"), 64); err == nil && f >= 1 && f <= 100 {
		return time.Duration(float64(d) * f)
	}
	return d
}

func main() {
	for i, a := range os.Args {
		if a == "-worker" && i+1 < len(os.Args) {
			worker(os.Args[i+1])
			return
		}
	}
	ev.Main("C34", "model_checking", func(c *ev.Ctx) {
		thorough := !c.Quick()
		c.Rule("stateless model checking of two real tls.Conn over an in-memory pipe under a cooperative scheduler: per scenario every interleaving of the scenario threads with <= PB preemptions over the scheduling points {mutex lock/unlock, atomic operation, pipe read/write/close/deadline, thread start/exit}; a second pass in a -race build lets ThreadSanitizer judge each explored schedule. " +
			"Scenarios (each at TLS 1.2 and 1.3 unless noted; PB in the quick tier in brackets, thorough +1): after a quiet handshake: write||write [2], read||write [2], read||close [2], write||close [2], read||SetDeadline [2], CloseWrite||write||ConnectionState [1], peer KeyUpdate during read||write (1.3) [2], read||read [2], " +
			"peer Close (close_notify) during pending read||write [1], peer transport dropped without close_notify during pending read||write [1], 20000-byte write (several records) || short write [1], write||write at TLS 1.0 with a CBC suite (1/n-1 record split) [1], close||close [1], CloseWrite||read then peer data (half-close) [1], SetDeadline||write [1], SetReadDeadline||SetWriteDeadline||read [1], NewSessionTicket processing inside read||write||ConnectionState (1.3, tickets enabled) [1]; " +
			"on a FRESH connection (the handshake itself is explored, the peer handshakes on its own thread): handshake||handshake||ConnectionState [1], write||read||ConnectionState with implicit handshakes [1; thorough stays at 1 and adds read||write at 2], write||close [1], close||handshake [1]. " +
			"WRITE DEADLINE (TLS 1.0/CBC, 1.2, 1.3): SetWriteDeadline(past) then SetWriteDeadline(none) from one thread while another runs Write -- the deadline can expire before any, or between two, transport writes of that Write (TLS 1.0: the 1-byte record and the rest; thorough: a 20000-byte payload at TLS 1.2) --, then a second Write, Close [1, thorough 2]: the peer must get exactly  P1 || P2  where Pi is the whole payload if Write i returned nil and a record-boundary prefix of it if it returned an error; and (TLS 1.2, 1.3; race pass: thorough) Close || SetWriteDeadline(past) || pending Read, where the deadline can expire between Close's own deadline and its close_notify write: Close, the parked Read and the peer's Read must all return [1, thorough 2]. " +
			"RENEGOTIATION (TLS 1.2 and TLS 1.0/CBC, client under test with Renegotiation=RenegotiateFreelyAsClient, OCSP staple so that the second handshake rewrites Conn.ocspResponse besides version, suite, didResume, serverName, finished values, keys): the peer sends a HelloRequest after the first handshake and the client's Read runs the second handshake (explored, not quiet) while another thread runs {ConnectionState, VerifyHostname, OCSPResponse} or Write; once with the peer REFUSING the new ClientHello (what zcrypto and crypto/tls servers do: alert), once with the peer SERVING the renegotiation through an in-package scaffold (RFC 5746 3.7 server side) and sending data under the new keys afterwards [1, thorough 2 for the refused ones]. " +
			"The connection under test is the client end; write||close (fresh), peer-close, big write and close||close are repeated with the SERVER end under test (thorough: also fresh write||read||state, read||write, read||close, peer drop, CloseWrite||read). Thorough additionally offers 1-byte transport reads as an environment deviation for the scenarios with a quiet handshake. " +
			"Race pass: PB 1 (0 for the fresh-connection scenarios), thorough +1. Oracle per execution: no panic, no deadlock, no livelock (step horizon), every call returns, each writer's bytes arrive contiguous, unmodified and exactly once (or not at all when the write was cut by a close), readers get whole records, a pending read/write returns once the peer closed or the deadline expired; renegotiation: a refused attempt ends Read with an error, a served one completes and the data sent after it arrives, a Write beside it arrives whole (before the ClientHello or under the new keys) or fails. A worker process that dies with a Go runtime fatal error / unrecovered panic in the code under test is a violation (worker crash), not an incomplete run. states = executions.")
		c.Assume("package tls is compiled from copies whose sync and sync/atomic imports point to the vsched shims; no other source change",
			"the initial handshake of the scenarios that are not about a fresh connection is run without exploring its choice points",
			"the scheduler hand-off is invisible to ThreadSanitizer, so a race report concerns only the program's own synchronisation",
			"HandshakeContext with a cancellable context (interrupter goroutine + select) is outside the scheduler model and not explored",
			"renegotiation: the serving peer is test scaffolding compiled into package tls (_inpkg: serverHandshake's full-handshake steps plus the RFC 5746 renegotiation_info, previous verify_data handed over from the client end); it is the peer, not code under test; when application data reaches it before the ClientHello it gives up, and its view of the stream is then only required to be an authentic prefix",
			"the model transport never blocks a write; its write deadline is a flag (expired or not at the moment it is set; virtual time does not advance in these scenarios): a transport write under an expired deadline fails with a timeout and delivers nothing; tls itself sets deadlines from the real clock around close_notify, which lie after the virtual clock and count as not expired",
			"a loop in the code under test that contains no scheduling point cannot be interrupted by the cooperative scheduler: it ends as a killed worker (incomplete), not as a verdict")
		self, _ := os.Executable()
		raceBin := os.Getenv("C34_RACE_BIN")
		if c.Replay != nil {
			var w struct {
				Job      job   `json:"job"`
				Schedule []int `json:"schedule"`
			}
			if err := json.Unmarshal(c.Replay, &w); err != nil || scenarios[w.Job.Scen] == nil {
				c.Broken("bad witness")
			}
			r1, o1 := runOnce(w.Job, w.Schedule)
			r2, o2 := runOnce(w.Job, w.Schedule)
			if fmt.Sprint(r1.Points) != fmt.Sprint(r2.Points) || fmt.Sprint(o1.val[:o1.n]) != fmt.Sprint(o2.val[:o2.n]) {
				c.Broken("replay is not deterministic")
			}
			if cls, detail := judge(w.Job, r1, o1); cls != "" {
				c.Violation(w.Job.Scen+": "+cls, map[string]any{"job": w.Job, "schedule": w.Schedule, "detail": detail})
			}
			c.States.Add(1)
			c.Transitions.Add(int64(r1.Steps))
			fmt.Println("replayed: choice points", len(r1.Points), "steps", r1.Steps, "deadlock", r1.Deadlock, o1.key[:o1.n], o1.val[:o1.n])
			return
		}
		perJob := scaled(140 * time.Second)
		if thorough {
			perJob = scaled(24 * time.Minute)
		}
		perJobStats := map[string]any{}
		defer func() { c.Set("per_job", perJobStats) }()
		merge := func(outs []vx.WorkerOut, tag string) {
			for _, o := range outs {
				if o.Broken != "" {
					// a worker that died without a result: a crash of the code under test under some schedule is a
					// verdict (the job is the witness); a kill on timeout / out of memory says nothing (incomplete)
					if cls := vx.CrashClass(o.Stderr, repoDir()); cls != "" {
						var j job
						json.Unmarshal([]byte(o.Job), &j)
						c.Violation("worker crash: "+cls, map[string]any{"job": j, "schedule": []int{}, "pass": tag, "stderr": clip(o.Stderr, 1500)})
						c.Outcome(tag+" worker crashed: "+cls, 1)
						continue
					}
					c.Incomplete(tag + " worker " + o.Job + ": " + o.Broken)
					continue
				}
				c.States.Add(int64(o.Stats.Execs))
				c.Traces.Add(int64(o.Stats.Execs))
				c.Transitions.Add(o.Stats.Steps)
				c.Evaluations.Add(int64(o.Stats.Execs))
				c.Add(tag+"_choice_points", o.Stats.Points)
				perJobStats[tag+" "+o.Job] = map[string]any{"executions": o.Stats.Execs, "max_choice_points": o.Stats.MaxPoints, "bound_completed": o.Bound, "complete": o.Stats.Complete}
				var j job
				json.Unmarshal([]byte(o.Job), &j)
				role := ""
				if j.Role != "" {
					role = "/" + j.Role
				}
				for k, n := range o.Outcomes {
					c.Outcome(fmt.Sprintf("%s %s/%x%s: %s", tag, j.Scen, j.Vers, role, k), n)
				}
				for _, v := range o.Violations {
					c.Violation(v.Sig, v.Witness)
				}
				for _, s := range o.Samples {
					c.Sample(s)
				}
				if !o.Stats.Complete {
					c.Incomplete(fmt.Sprintf("%s %s: only preemption bound %d completed", tag, o.Job, o.Bound))
				}
			}
		}
		var jobs []string
		for _, j := range jobsFor(thorough, false) {
			jobs = append(jobs, j.String())
		}
		t0 := time.Now()
		passLen := scaled(70 * time.Second)
		if thorough {
			passLen = scaled(12 * time.Minute)
		}
		passEnd := func() string { return fmt.Sprintf("VX_PASS_END_UNIXMS=%d", time.Now().Add(passLen).UnixMilli()) }
		merge(vx.RunWorkers(self, []string{"VERIF_TIER=" + c.Tier, passEnd()}, jobs, c.Workers(), perJob), "sched")
		c.Set("scenario_jobs", len(jobs))
		c.Set("sched_pass_wall_s", int(time.Since(t0).Seconds()))
		if raceBin == "" {
			c.Broken("race binary not built (C34_RACE_BIN unset)")
		}
		os.MkdirAll(filepath.Join(ev.VerifDir, ".work"), 0o755)
		raceLog := filepath.Join(ev.VerifDir, ".work", fmt.Sprintf("c34-race-%d", os.Getpid()))
		renv := []string{"GORACE=log_path=" + raceLog + " halt_on_error=0", "VX_RACELOG=" + raceLog, "VERIF_TIER=" + c.Tier}
		tc := time.Now()
		can := vx.RunWorkers(raceBin, append(renv, "C34_CANARY=1"), []string{`{"scenario":"canary"}`}, 1, 300*time.Second)
		if len(can) != 1 || can[0].Broken != "" || len(can[0].Races) != 1 || can[0].Races[0] != "canary: racy=1 locked=0" {
			c.Broken("race canary failed: %+v", can)
		}
		c.Set("canary_wall_s", int(time.Since(tc).Seconds()))
		var rjobs []string
		for _, j := range jobsFor(thorough, true) {
			rjobs = append(rjobs, j.String())
		}
		t1 := time.Now()
		merge(vx.RunWorkers(raceBin, append(renv, passEnd()), rjobs, c.Workers(), perJob), "race")
		c.Set("race_jobs", len(rjobs))
		c.Set("race_pass_wall_s", int(time.Since(t1).Seconds()))
		ms, _ := filepath.Glob(raceLog + ".*")
		for _, m := range ms {
			os.Remove(m)
		}
		c.Distinct.Store(c.States.Load())
	})
}
