// C34 — concurrent use of a TLS connection is safe.
//
// Engine E3: two real zcrypto tls.Conn (package tls compiled from copies whose
// sync / sync/atomic imports are redirected to the vsched shims) joined by an
// in-memory pipe whose reads/writes are scheduling points. After a quiet
// (unexplored) handshake, every interleaving of the scenario's API calls with at
// most PB preemptions is executed; a -race build repeats the exploration so that
// ThreadSanitizer judges each explored schedule.
package main

import (
	"bytes"
	"encoding/json"
	"errors"
	"fmt"
	"io"
	"os"
	"path/filepath"
	"runtime/debug"
	"sort"
	"strings"
	"time"

	"github.com/zmap/zcrypto/tls"
	"github.com/zmap/zcrypto/vsched"
	"verifmc/internal/ev"
	"verifmc/internal/tlsx"
	"verifmc/internal/vx"
)

type job struct {
	Scen string `json:"scenario"`
	Vers uint16 `json:"version"`
	PB   int    `json:"preempt_bound"`
	EB   int    `json:"short_read_bound"`
	Race bool   `json:"race"`
}

func (j job) String() string { b, _ := json.Marshal(j); return string(b) }

// obs: per-execution observations written through norace methods.
type obs struct {
	n    int
	key  [32]string
	val  [32]string
	peer []byte // bytes the peer's application received
}

//go:norace
func (o *obs) put(k, v string) {
	if o.n < len(o.key) {
		o.key[o.n], o.val[o.n] = k, v
		o.n++
	}
}

//go:norace
func (o *obs) setPeer(b []byte) { o.peer = append([]byte(nil), b...) }

func (o *obs) get(k string) (string, bool) {
	for i := 0; i < o.n; i++ {
		if o.key[i] == k {
			return o.val[i], true
		}
	}
	return "", false
}

func errs(err error) string {
	if err == nil {
		return "nil"
	}
	if errors.Is(err, io.EOF) {
		return "EOF"
	}
	var ne interface{ Timeout() bool }
	if errors.As(err, &ne) && ne.Timeout() {
		return "timeout"
	}
	return "err:" + ev.MsgClass(firstWords(err.Error(), 7))
}

func firstWords(s string, n int) string {
	f := strings.Fields(s)
	if len(f) > n {
		f = f[:n]
	}
	return strings.Join(f, " ")
}

var (
	payA = []byte("AAAAAAAAAAAAAAAAAAAAAAAAAAAAAAAAAAAAAAAA-a")
	payB = []byte("BBBBBBBBBBBBBBBBBBBBBB-b")
)

var identity = tlsx.ServerIdentity("p256")

func configs(vers uint16, seed string) (*tls.Config, *tls.Config) {
	cc, sc := tlsx.BaseConfigs(identity, "c34-"+seed)
	cc.MinVersion, cc.MaxVersion = vers, vers
	sc.MinVersion, sc.MaxVersion = vers, vers
	cc.CurvePreferences = []tls.CurveID{tls.X25519}
	sc.SessionTicketsDisabled = true
	return cc, sc
}

// scenario bodies. c = connection under test (client), s = peer (server).
type scenFn func(c, s *tls.Conn, o *obs)

func spawn(wg *vsched.WaitGroup, f func()) {
	wg.Add(1)
	vsched.Go(func() { defer wg.Done(); f() })
}

func handshakeQuietly(c, s *tls.Conn, o *obs) bool {
	vsched.SetExplore(false)
	var wg vsched.WaitGroup
	var serr error
	spawn(&wg, func() { serr = s.Handshake() })
	cerr := c.Handshake()
	wg.Wait()
	vsched.SetExplore(true)
	if cerr != nil || serr != nil {
		o.put("setup", "handshake failed: "+errs(cerr)+" / "+errs(serr))
		return false
	}
	return true
}

func peerReadAll(s *tls.Conn, o *obs) {
	b, err := io.ReadAll(s)
	o.setPeer(b)
	o.put("peer.read", errs(err))
	s.Close()
}

var scenarios = map[string]scenFn{
	// S1: two concurrent writers; the peer must see both payloads whole, in either order.
	"write-write": func(c, s *tls.Conn, o *obs) {
		if !handshakeQuietly(c, s, o) {
			return
		}
		var wg, pw vsched.WaitGroup
		spawn(&pw, func() { peerReadAll(s, o) })
		spawn(&wg, func() { _, err := c.Write(payA); o.put("writeA", errs(err)) })
		spawn(&wg, func() { _, err := c.Write(payB); o.put("writeB", errs(err)) })
		wg.Wait()
		c.Close()
		pw.Wait()
	},
	// S2: reader and writer on the same connection while the peer echoes.
	"read-write": func(c, s *tls.Conn, o *obs) {
		if !handshakeQuietly(c, s, o) {
			return
		}
		var wg, pw vsched.WaitGroup
		spawn(&pw, func() {
			buf := make([]byte, 64)
			n, err := io.ReadFull(s, buf[:len(payB)])
			o.setPeer(buf[:n])
			o.put("peer.read", errs(err))
			_, err = s.Write([]byte("pong"))
			o.put("peer.write", errs(err))
		})
		spawn(&wg, func() {
			buf := make([]byte, 16)
			n, err := io.ReadFull(c, buf[:4])
			o.put("read", string(buf[:n])+"/"+errs(err))
		})
		spawn(&wg, func() { _, err := c.Write(payB); o.put("writeB", errs(err)) })
		wg.Wait()
		pw.Wait()
		c.Close()
		s.Close()
	},
	// S3: Close while a Read is pending.
	"read-close": func(c, s *tls.Conn, o *obs) {
		if !handshakeQuietly(c, s, o) {
			return
		}
		var wg, pw vsched.WaitGroup
		spawn(&pw, func() { peerReadAll(s, o) })
		spawn(&wg, func() {
			buf := make([]byte, 16)
			n, err := c.Read(buf)
			o.put("read", fmt.Sprintf("%d/%s", n, errs(err)))
		})
		spawn(&wg, func() { o.put("close", errs(c.Close())) })
		wg.Wait()
		pw.Wait()
	},
	// S4: concurrent Handshake calls and ConnectionState on a fresh connection.
	"handshake-handshake-state": func(c, s *tls.Conn, o *obs) {
		var wg, pw vsched.WaitGroup
		spawn(&pw, func() { o.put("peer.handshake", errs(s.Handshake())) })
		spawn(&wg, func() { o.put("hs1", errs(c.Handshake())) })
		spawn(&wg, func() { o.put("hs2", errs(c.Handshake())) })
		spawn(&wg, func() { st := c.ConnectionState(); o.put("state", fmt.Sprintf("complete=%v", st.HandshakeComplete)) })
		wg.Wait()
		pw.Wait()
		st := c.ConnectionState()
		o.put("final", fmt.Sprintf("complete=%v vers=%x", st.HandshakeComplete, st.Version))
		c.Close()
		s.Close()
	},
	// S5: Write racing with Close (the activeCall interlock).
	"write-close": func(c, s *tls.Conn, o *obs) {
		if !handshakeQuietly(c, s, o) {
			return
		}
		var wg, pw vsched.WaitGroup
		spawn(&pw, func() { peerReadAll(s, o) })
		spawn(&wg, func() { _, err := c.Write(payA); o.put("writeA", errs(err)) })
		spawn(&wg, func() { o.put("close", errs(c.Close())) })
		wg.Wait()
		pw.Wait()
	},
	// S6: a pending Read must return when a deadline in the past is set.
	"read-deadline": func(c, s *tls.Conn, o *obs) {
		if !handshakeQuietly(c, s, o) {
			return
		}
		var wg vsched.WaitGroup
		spawn(&wg, func() {
			buf := make([]byte, 16)
			n, err := c.Read(buf)
			o.put("read", fmt.Sprintf("%d/%s", n, errs(err)))
		})
		spawn(&wg, func() { o.put("deadline", errs(c.SetDeadline(time.Unix(1, 0)))) })
		wg.Wait()
		c.Close()
		s.Close()
	},
	// S7: CloseWrite racing with Write and ConnectionState.
	"closewrite-write-state": func(c, s *tls.Conn, o *obs) {
		if !handshakeQuietly(c, s, o) {
			return
		}
		var wg, pw vsched.WaitGroup
		spawn(&pw, func() { peerReadAll(s, o) })
		spawn(&wg, func() { o.put("closewrite", errs(c.CloseWrite())) })
		spawn(&wg, func() { _, err := c.Write(payA); o.put("writeA", errs(err)) })
		spawn(&wg, func() { st := c.ConnectionState(); o.put("state", fmt.Sprintf("complete=%v", st.HandshakeComplete)) })
		wg.Wait()
		pw.Wait()
		c.Close()
	},
	// S8 (TLS 1.3): the peer requests a key update while the connection reads and writes.
	"keyupdate-read-write": func(c, s *tls.Conn, o *obs) {
		if !handshakeQuietly(c, s, o) {
			return
		}
		var wg, pw vsched.WaitGroup
		spawn(&pw, func() {
			o.put("peer.keyupdate", errs(s.VerifC34SendKeyUpdate(true)))
			_, err := s.Write([]byte("x-after-update"))
			o.put("peer.write", errs(err))
			peerReadAll(s, o)
		})
		spawn(&wg, func() {
			buf := make([]byte, 32)
			n, err := io.ReadFull(c, buf[:14])
			o.put("read", string(buf[:n])+"/"+errs(err))
		})
		spawn(&wg, func() { _, err := c.Write(payA); o.put("writeA", errs(err)) })
		wg.Wait()
		_, err := c.Write(payB) // must still be readable by the peer under the (possibly updated) keys
		o.put("writeB", errs(err))
		c.Close()
		pw.Wait()
	},
	// S10: two concurrent readers; each record goes whole to exactly one of them.
	"read-read": func(c, s *tls.Conn, o *obs) {
		if !handshakeQuietly(c, s, o) {
			return
		}
		var wg, pw vsched.WaitGroup
		spawn(&pw, func() {
			_, e1 := s.Write([]byte("aaaa"))
			_, e2 := s.Write([]byte("bbbb"))
			o.put("peer.write", errs(e1)+","+errs(e2))
		})
		for i := 1; i <= 2; i++ {
			i := i
			spawn(&wg, func() {
				buf := make([]byte, 4)
				n, err := io.ReadFull(c, buf)
				o.put(fmt.Sprintf("read%d", i), string(buf[:n])+"/"+errs(err))
			})
		}
		wg.Wait()
		pw.Wait()
		c.Close()
		s.Close()
	},
}

func runOnce(j job, prefix []int) (vsched.Result, *obs) {
	o := &obs{}
	res := vsched.Run(prefix, func() {
		cp, sp, n := vsched.NewPipe()
		n.ShortReads = j.EB > 0
		cc, sc := configs(j.Vers, j.Scen)
		c := tls.Client(cp, cc)
		s := tls.Server(sp, sc)
		scenarios[j.Scen](c, s, o)
		o.put("done", "1")
	})
	return res, o
}

// interleavingOf reports whether got is a concatenation of each of the parts exactly once, in some order.
func interleavingOf(got []byte, parts ...[]byte) bool {
	if len(parts) == 0 {
		return len(got) == 0
	}
	for i, p := range parts {
		if bytes.HasPrefix(got, p) {
			rest := append(append([][]byte{}, parts[:i]...), parts[i+1:]...)
			if interleavingOf(got[len(p):], rest...) {
				return true
			}
		}
	}
	return false
}

// judge: "" or (violation class, detail)
func judge(j job, res vsched.Result, o *obs) (string, string) {
	if res.Panic != "" {
		return "panic: " + ev.MsgClass(res.Panic), fmt.Sprintf("thread %d", res.PanicThread)
	}
	if res.Deadlock {
		return "deadlock: no thread can run although every peer/deadline event has been delivered", res.DeadInfo
	}
	if res.Horizon {
		return "livelock: step horizon exceeded", ""
	}
	if v, ok := o.get("setup"); ok {
		return "setup: " + v, ""
	}
	if _, ok := o.get("done"); !ok {
		return "scenario body did not finish", ""
	}
	g := func(k string) string { v, _ := o.get(k); return v }
	switch j.Scen {
	case "write-write":
		if g("writeA") != "nil" || g("writeB") != "nil" {
			return "Write failed although nobody closed the connection", g("writeA") + " / " + g("writeB")
		}
		if !interleavingOf(o.peer, payA, payB) {
			return "peer did not receive the two written payloads whole, each exactly once", fmt.Sprintf("%q", o.peer)
		}
	case "read-write":
		if g("writeB") != "nil" || !bytes.Equal(o.peer, payB) {
			return "written payload did not arrive intact", fmt.Sprintf("%s %q", g("writeB"), o.peer)
		}
		if g("read") != "pong/nil" {
			return "reader did not receive the peer's reply", g("read")
		}
	case "read-close":
		if g("close") != "nil" && !strings.HasPrefix(g("close"), "err:") {
			return "Close returned something unexpected", g("close")
		}
		if r := g("read"); !strings.HasPrefix(r, "0/") || r == "0/nil" {
			return "Read returned data or no error although the peer never wrote", r
		}
	case "handshake-handshake-state":
		if g("hs1") != "nil" || g("hs2") != "nil" || g("peer.handshake") != "nil" {
			return "concurrent Handshake calls did not all succeed", g("hs1") + " / " + g("hs2") + " / peer " + g("peer.handshake")
		}
		if !strings.HasPrefix(g("final"), "complete=true") {
			return "handshake not complete after both Handshake calls returned nil", g("final")
		}
	case "write-close":
		w := g("writeA")
		if w == "nil" {
			if !bytes.Equal(o.peer, payA) {
				return "Write returned nil but the peer did not receive the payload intact", fmt.Sprintf("%q", o.peer)
			}
		} else if len(o.peer) != 0 && !bytes.Equal(o.peer, payA) {
			return "peer received a partial or altered payload", fmt.Sprintf("%q", o.peer)
		}
	case "read-deadline":
		if r := g("read"); r != "0/timeout" {
			return "pending Read did not return a timeout after the deadline expired", r
		}
	case "closewrite-write-state":
		w := g("writeA")
		if w == "nil" && !bytes.Equal(o.peer, payA) {
			return "Write returned nil but the peer did not receive the payload intact", fmt.Sprintf("%q", o.peer)
		}
		if w != "nil" && len(o.peer) != 0 && !bytes.Equal(o.peer, payA) {
			return "peer received a partial or altered payload", fmt.Sprintf("%q", o.peer)
		}
		if g("closewrite") != "nil" {
			return "CloseWrite failed after a completed handshake", g("closewrite")
		}
	case "keyupdate-read-write":
		if g("read") != "x-after-update/nil" {
			return "data sent after the peer's KeyUpdate was not received intact", g("read")
		}
		if g("writeA") != "nil" || g("writeB") != "nil" || !interleavingOf(o.peer, payA, payB) || !bytes.HasPrefix(o.peer, payA) {
			return "data written around a requested key update did not arrive intact and in order", fmt.Sprintf("%s %s %q", g("writeA"), g("writeB"), o.peer)
		}
	case "read-read":
		a, b := g("read1"), g("read2")
		if !((a == "aaaa/nil" && b == "bbbb/nil") || (a == "bbbb/nil" && b == "aaaa/nil")) {
			return "two concurrent readers did not each receive one whole record", a + " | " + b
		}
	}
	return "", ""
}

func canary(jobs string) {
	raceLog := os.Getenv("VX_RACELOG")
	count := func(locked bool) int {
		st := vx.Explore(vx.Options{PreemptBound: 1, RaceLog: raceLog}, func(prefix []int) (vsched.Result, any) {
			x := 0
			var mu vsched.Mutex
			var wg vsched.WaitGroup
			return vsched.Run(prefix, func() {
				wg.Add(2)
				for i := 0; i < 2; i++ {
					vsched.Go(func() {
						if locked {
							mu.Lock()
						}
						canaryCounter(&x)
						if locked {
							mu.Unlock()
						}
						wg.Done()
					})
				}
				wg.Wait()
			}), nil
		}, func(x *vx.Exec) bool { return true })
		return st.Races
	}
	racy, locked := count(false), count(true)
	if racy > 1 {
		racy = 1
	}
	out := vx.WorkerOut{Job: jobs, Races: []string{fmt.Sprintf("canary: racy=%d locked=%d", racy, locked)}}
	b, _ := json.Marshal(out)
	fmt.Println(string(b))
}

//go:noinline
func canaryCounter(p *int) { *p++ }

func worker(js string) {
	debug.SetGCPercent(1000)
	if os.Getenv("C34_CANARY") == "1" {
		canary(js)
		return
	}
	var j job
	if err := json.Unmarshal([]byte(js), &j); err != nil || scenarios[j.Scen] == nil {
		fmt.Println(`{"job":"?","broken":"bad job"}`)
		return
	}
	out := vx.WorkerOut{Job: js, Outcomes: map[string]int64{}, Bound: -1}
	raceLog := ""
	if j.Race {
		raceLog = os.Getenv("VX_RACELOG")
	}
	repo := os.Getenv("VERIF_REPO_DIR")
	if repo == "" {
		repo = "/repo"
	}
	seen := map[string]bool{}
	deadline := time.Now().Add(100 * time.Second)
	if os.Getenv("VERIF_TIER") == "thorough" {
		deadline = time.Now().Add(20 * time.Minute)
	}
	for b := 0; b <= j.PB; b++ {
		st := vx.Explore(vx.Options{PreemptBound: b, EnvBound: j.EB, Deadline: deadline, RaceLog: raceLog},
			func(prefix []int) (vsched.Result, any) { r, o := runOnce(j, prefix); return r, o },
			func(x *vx.Exec) bool {
				o := x.Obs.(*obs)
				if x.Result.Stragglers > 0 {
					out.Broken = "threads could not be unwound"
					return false
				}
				cls, detail := judge(j, x.Result, o)
				var kv []string
				for i := 0; i < o.n; i++ {
					kv = append(kv, o.key[i]+"="+o.val[i])
				}
				sort.Strings(kv)
				if cls != "" {
					sig := j.Scen + ": " + cls
					if !seen[sig] {
						seen[sig] = true
						out.Violations = append(out.Violations, vx.WorkerViol{Sig: sig, Witness: map[string]any{"job": j, "schedule": x.Choices, "detail": detail, "observations": kv, "preemptions": x.Preempt}})
					}
					out.Outcomes["VIOLATION "+cls]++
				} else {
					out.Outcomes[strings.Join(kv, " ")+fmt.Sprintf(" peer=%q", trunc(o.peer))]++
				}
				if x.RaceNew != "" {
					for _, r := range vx.ParseRaces(x.RaceNew, repo) {
						if !r.InRepo {
							continue
						}
						sig := "data race: " + r.Summary
						if !seen[sig] {
							seen[sig] = true
							out.Races = append(out.Races, r.Summary)
							rep := x.RaceNew
							if len(rep) > 1800 {
								rep = rep[:1800]
							}
							out.Violations = append(out.Violations, vx.WorkerViol{Sig: sig, Witness: map[string]any{"job": j, "schedule": x.Choices, "report": rep}})
						}
					}
				}
				if len(out.Samples) < 1 && x.Preempt > 0 {
					out.Samples = append(out.Samples, map[string]any{"job": j, "schedule": x.Choices, "observations": kv, "choice_points": len(x.Result.Points), "steps": x.Result.Steps})
				}
				return true
			})
		out.Stats.Execs += st.Execs
		out.Stats.Points += st.Points
		out.Stats.Steps += st.Steps
		if st.MaxPoints > out.Stats.MaxPoints {
			out.Stats.MaxPoints = st.MaxPoints
		}
		out.Stats.Deadlocks += st.Deadlocks
		out.Stats.Races += st.Races
		if !st.Complete {
			break
		}
		out.Bound = b
		out.Stats.Complete = b == j.PB
	}
	// fold the (many) distinct ok-outcomes into a count to keep the output small
	okClasses := 0
	folded := map[string]int64{}
	for k, n := range out.Outcomes {
		if strings.HasPrefix(k, "VIOLATION") {
			folded[k] = n
		} else {
			okClasses++
			folded["ok"] += n
		}
	}
	folded["distinct ok observation vectors"] = int64(okClasses)
	out.Outcomes = folded
	b, _ := json.Marshal(out)
	fmt.Println(string(b))
}

func trunc(b []byte) string {
	if len(b) > 24 {
		return string(b[:24]) + "…"
	}
	return string(b)
}

func jobsFor(thorough, race bool) []job {
	var out []job
	names := []string{"write-write", "read-write", "read-close", "handshake-handshake-state", "write-close", "read-deadline", "closewrite-write-state", "keyupdate-read-write", "read-read"}
	for _, v := range []uint16{tls.VersionTLS12, tls.VersionTLS13} {
		for _, n := range names {
			if n == "keyupdate-read-write" && v != tls.VersionTLS13 {
				continue
			}
			pb := 2
			if n == "handshake-handshake-state" || n == "closewrite-write-state" {
				pb = 1 // the whole handshake is explored / four threads: far more schedules
			}
			if race {
				pb = 1
				if n == "handshake-handshake-state" {
					pb = 0
				}
			}
			if thorough {
				pb++
			}
			out = append(out, job{Scen: n, Vers: v, PB: pb, Race: race})
			if thorough && !race && n != "handshake-handshake-state" {
				out = append(out, job{Scen: n, Vers: v, PB: pb - 1, EB: 1})
			}
		}
	}
	return out
}

func main() {
	for i, a := range os.Args {
		if a == "-worker" && i+1 < len(os.Args) {
			worker(os.Args[i+1])
			return
		}
	}
	ev.Main("C34", "model_checking", func(c *ev.Ctx) {
		thorough := !c.Quick()
		c.Rule("stateless model checking of two real tls.Conn over an in-memory pipe under a cooperative scheduler: per scenario (9 scenarios x TLS 1.2/1.3) every interleaving of the scenario threads with <= PB preemptions over the scheduling points {mutex lock/unlock, atomic operation, pipe read/write/close/deadline, thread start/exit} (thorough: +1 preemption, and short 1-byte transport reads as an environment deviation); a second pass in a -race build lets ThreadSanitizer judge each explored schedule. states = executions.")
		c.Assume("package tls is compiled from copies whose sync and sync/atomic imports point to the vsched shims; no other source change",
			"the initial handshake of all scenarios except handshake-handshake-state is run without exploring its choice points",
			"the scheduler hand-off is invisible to ThreadSanitizer, so a race report concerns only the program's own synchronisation",
			"HandshakeContext with a cancellable context (interrupter goroutine + select) is outside the scheduler model and not explored")
		self, _ := os.Executable()
		raceBin := os.Getenv("C34_RACE_BIN")
		if c.Replay != nil {
			var w struct {
				Job      job   `json:"job"`
				Schedule []int `json:"schedule"`
			}
			if err := json.Unmarshal(c.Replay, &w); err != nil || scenarios[w.Job.Scen] == nil {
				c.Broken("bad witness")
			}
			r1, o1 := runOnce(w.Job, w.Schedule)
			r2, o2 := runOnce(w.Job, w.Schedule)
			if fmt.Sprint(r1.Points) != fmt.Sprint(r2.Points) || fmt.Sprint(o1.val[:o1.n]) != fmt.Sprint(o2.val[:o2.n]) {
				c.Broken("replay is not deterministic")
			}
			if cls, detail := judge(w.Job, r1, o1); cls != "" {
				c.Violation(w.Job.Scen+": "+cls, map[string]any{"job": w.Job, "schedule": w.Schedule, "detail": detail})
			}
			c.States.Add(1)
			c.Transitions.Add(int64(r1.Steps))
			fmt.Println("replayed: choice points", len(r1.Points), "steps", r1.Steps, "deadlock", r1.Deadlock, o1.key[:o1.n], o1.val[:o1.n])
			return
		}
		perJob := 140 * time.Second
		if thorough {
			perJob = 24 * time.Minute
		}
		merge := func(outs []vx.WorkerOut, tag string) {
			for _, o := range outs {
				if o.Broken != "" {
					c.Incomplete(tag + " worker " + o.Job + ": " + o.Broken)
					continue
				}
				c.States.Add(int64(o.Stats.Execs))
				c.Traces.Add(int64(o.Stats.Execs))
				c.Transitions.Add(o.Stats.Steps)
				c.Evaluations.Add(int64(o.Stats.Execs))
				c.Add(tag+"_choice_points", o.Stats.Points)
				var j job
				json.Unmarshal([]byte(o.Job), &j)
				for k, n := range o.Outcomes {
					c.Outcome(fmt.Sprintf("%s %s/%x: %s", tag, j.Scen, j.Vers, k), n)
				}
				for _, v := range o.Violations {
					c.Violation(v.Sig, v.Witness)
				}
				for _, s := range o.Samples {
					c.Sample(s)
				}
				if !o.Stats.Complete {
					c.Incomplete(fmt.Sprintf("%s %s: only preemption bound %d completed", tag, o.Job, o.Bound))
				}
			}
		}
		var jobs []string
		for _, j := range jobsFor(thorough, false) {
			jobs = append(jobs, j.String())
		}
		merge(vx.RunWorkers(self, []string{"VERIF_TIER=" + c.Tier}, jobs, c.Workers(), perJob), "sched")
		c.Set("scenario_jobs", len(jobs))
		if raceBin == "" {
			c.Broken("race binary not built (C34_RACE_BIN unset)")
		}
		os.MkdirAll(filepath.Join(ev.VerifDir, ".work"), 0o755)
		raceLog := filepath.Join(ev.VerifDir, ".work", fmt.Sprintf("c34-race-%d", os.Getpid()))
		renv := []string{"GORACE=log_path=" + raceLog + " halt_on_error=0", "VX_RACELOG=" + raceLog, "VERIF_TIER=" + c.Tier}
		can := vx.RunWorkers(raceBin, append(renv, "C34_CANARY=1"), []string{`{"scenario":"canary"}`}, 1, 300*time.Second)
		if len(can) != 1 || can[0].Broken != "" || len(can[0].Races) != 1 || can[0].Races[0] != "canary: racy=1 locked=0" {
			c.Broken("race canary failed: %+v", can)
		}
		var rjobs []string
		for _, j := range jobsFor(thorough, true) {
			rjobs = append(rjobs, j.String())
		}
		merge(vx.RunWorkers(raceBin, renv, rjobs, c.Workers(), perJob), "race")
		c.Set("race_jobs", len(rjobs))
		ms, _ := filepath.Glob(raceLog + ".*")
		for _, m := range ms {
			os.Remove(m)
		}
		c.Distinct.Store(c.States.Load())
	})
}
