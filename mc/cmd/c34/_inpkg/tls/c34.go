package tls

// VerifC34SendKeyUpdate makes this TLS 1.3 endpoint send a KeyUpdate message
// (optionally requesting one in return) and switch its sending keys, exactly
// as handleKeyUpdate does for the response it sends.
func (c *Conn) VerifC34SendKeyUpdate(requestUpdate bool) error {
	cipherSuite := cipherSuiteTLS13ByID(c.cipherSuite)
	if cipherSuite == nil {
		return AlertInternalError
	}
	c.out.Lock()
	defer c.out.Unlock()
	msg := &keyUpdateMsg{updateRequested: requestUpdate}
	if _, err := c.writeRecordLocked(recordTypeHandshake, msg.marshal()); err != nil {
		return err
	}
	c.out.setTrafficSecret(cipherSuite, cipherSuite.nextTrafficSecret(c.out.trafficSecret))
	return nil
}

// VerifC34Finished returns the verify_data of the two Finished messages of the last handshake as
// this (client) connection stored them: client_verify_data || server_verify_data, the value a
// renegotiating server has to put into its renegotiation_info (RFC 5746, 3.7).
func (c *Conn) VerifC34Finished() []byte {
	c.handshakeMutex.Lock()
	defer c.handshakeMutex.Unlock()
	return append(append([]byte{}, c.clientFinished[:]...), c.serverFinished[:]...)
}

// VerifC34ServeRenegotiation makes this SERVER connection serve one renegotiation (a second, full
// handshake inside the established connection), which neither zcrypto nor crypto/tls servers
// implement: test scaffolding for the peer of the client under test, not code under test. It is
// (*Conn).serverHandshake + the full-handshake branch of (*serverHandshakeState).handshake with the
// two RFC 5746 steps a renegotiation needs: the ClientHello must carry the previous
// client_verify_data, the ServerHello answers with previous client_verify_data || server_verify_data
// (prev, taken from the client end by the harness: a server does not keep its own after a full handshake).
func (c *Conn) VerifC34ServeRenegotiation(prev []byte) error {
	c.handshakeMutex.Lock()
	defer c.handshakeMutex.Unlock()
	c.in.Lock()
	defer c.in.Unlock()
	clientHello, err := c.readClientHello()
	if err != nil {
		return err
	}
	if c.vers == VersionTLS13 || len(prev) != 24 || string(clientHello.secureRenegotiation) != string(prev[:12]) {
		c.sendAlert(AlertHandshakeFailure)
		return AlertHandshakeFailure
	}
	clientHello.secureRenegotiation = nil // verified above; processClientHello only knows initial handshakes
	hs := serverHandshakeState{c: c, clientHello: clientHello}
	if err := hs.processClientHello(); err != nil {
		return err
	}
	hs.hello.secureRenegotiation = prev
	c.buffering = true
	c.didResume = false
	if err := hs.pickCipherSuite(); err != nil {
		return err
	}
	if err := hs.doFullHandshake(); err != nil {
		return err
	}
	if err := hs.establishKeys(); err != nil {
		return err
	}
	if err := hs.readFinished(c.clientFinished[:]); err != nil {
		return err
	}
	c.clientFinishedIsFirst = true
	c.buffering = true
	if err := hs.sendSessionTicket(); err != nil {
		return err
	}
	if err := hs.sendFinished(nil); err != nil {
		return err
	}
	if _, err := c.flush(); err != nil {
		return err
	}
	c.ekm = ekmFromMasterSecret(c.vers, hs.suite, hs.masterSecret, hs.clientHello.random, hs.hello.random)
	c.handshakes++
	return nil
}
