package tls

// VerifC34SendKeyUpdate makes this TLS 1.3 endpoint send a KeyUpdate message
// (optionally requesting one in return) and switch its sending keys, exactly
// as handleKeyUpdate does for the response it sends.
func (c *Conn) VerifC34SendKeyUpdate(requestUpdate bool) error {
	cipherSuite := cipherSuiteTLS13ByID(c.cipherSuite)
	if cipherSuite == nil {
		return AlertInternalError
	}
	c.out.Lock()
	defer c.out.Unlock()
	msg := &keyUpdateMsg{updateRequested: requestUpdate}
	if _, err := c.writeRecordLocked(recordTypeHandshake, msg.marshal()); err != nil {
		return err
	}
	c.out.setTrafficSecret(cipherSuite, cipherSuite.nextTrafficSecret(c.out.trafficSecret))
	return nil
}
