#!/bin/bash
# C34 driver: rewrite ct/scanner onto the vsched shims (from the CURRENT tree of the repo under test),
# build the normal and the -race harness, then run the harness (which fans out worker processes).
set -u
TIER="$1"; shift
VERIF="${VERIF_DIR:-/verif}"
REPO="${VERIF_REPO_DIR:-/repo}"
BIN="${VERIF_BIN:-$VERIF/.bin/c34}"
cd "$VERIF/mc" || exit 2
export GOFLAGS=-mod=mod GOPROXY=off
TAG="c34-$(echo -n "$REPO" | md5sum | cut -c1-10)"
OUT="$VERIF/.work/rw-$TAG"
rm -rf "$OUT"; mkdir -p "$OUT"
# pick -modfile and the in-package overlay prepared by ./check
MODFILE=""; BASEOVL=""
set -- $VERIF_MODARGS "$@"
ARGS=()
while [ $# -gt 0 ]; do
  case "$1" in
    -modfile=*) MODFILE="$1"; shift;;
    -overlay) BASEOVL="$2"; shift 2;;
    *) ARGS+=("$1"); shift;;
  esac
done
go build -o "$VERIF/.bin/vrewrite" ./cmd/vrewrite || { echo "CHECK-BROKEN C34: vrewrite build failed" >&2; exit 2; }
"$VERIF/.bin/vrewrite" -repo "$REPO" -src "$VERIF/mc/vsched_src" -out "$OUT" -overlay "$OUT/overlay.json" ${BASEOVL:+-merge "$BASEOVL"} \
   'tls/*.go:imports' 2> "$OUT/rewrite.log" || { cat "$OUT/rewrite.log" >&2; echo "CHECK-BROKEN C34: source rewriting failed" >&2; exit 2; }
if ! go build $MODFILE -overlay "$OUT/overlay.json" -tags verif -o "$BIN" ./cmd/c34 2> "$BIN.buildlog"; then cat "$BIN.buildlog" >&2; echo "CHECK-BROKEN C34: build failed" >&2; exit 2; fi
if ! go build -race $MODFILE -overlay "$OUT/overlay.json" -tags verif -o "$BIN-race" ./cmd/c34 2> "$BIN.racebuildlog"; then cat "$BIN.racebuildlog" >&2; echo "CHECK-BROKEN C34: race build failed" >&2; exit 2; fi
[ "$TIER" = build ] && exit 0
export C34_RACE_BIN="$BIN-race"
exec "$BIN" -tier "$TIER" ${ARGS[@]+"${ARGS[@]}"}
