// C01 — parsers of untrusted bytes never panic, hang or over-allocate.
//
// Engine E2 (deviation-bounded exhaustive input enumeration). The parent
// process builds the closed list of UNITS (generator × seed/model shard, each
// with the entry points it feeds), hands them to worker processes — one pool
// per value of asn1.AllowPermissiveParsing, because that switch is a process
// global — and merges what they stream back. Workers run under RLIMIT_AS and
// a soft watchdog; anything that kills or stalls a worker is only a SUSPECT
// until it fails three isolated re-runs with a 60 s limit each.
package main

import (
	"bufio"
	"bytes"
	"context"
	"encoding/json"
	"fmt"
	"io"
	"os"
	"os/exec"
	"path/filepath"
	"sort"
	"strconv"
	"strings"
	"sync"
	"syscall"
	"time"

	"verifmc/internal/ev"
	"verifmc/internal/nohb"
	"verifmc/internal/xgen"
)

func repoDir() string {
	if v := os.Getenv("VERIF_REPO_DIR"); v != "" {
		return v
	}
	return "/repo"
}

var modes = []string{"strict", "permissive"}

type suspect struct {
	mode              string
	unit, item, entry int // entry = position in the unit's entry list
	why               string
}

type violAgg struct {
	sig   string
	w     witness
	count int64
}

type parent struct {
	c           *ev.Ctx
	units       []unit
	mu          sync.Mutex
	viol        map[string]*violAgg
	hist        map[string]int64
	entryOK     map[string]int64
	entryErr    map[string]int64
	items       [2]int64
	evals       [2]int64
	accepted    [2]int64
	csum        [2]map[int]string
	remeas      int64
	maxAlloc    uint64
	disabled    [2]map[int]bool // per mode: entry index -> disabled
	crashes     [2]map[int]int
	hangs       [2]map[int]int
	suspects    []suspect
	isolatedLen map[string]int // (kind|mode|entry) -> length of the input already re-run in isolation
	cleared     int64
	iso         sync.WaitGroup
	deadline    time.Time
	done        [2]map[int]bool
	partial     [2]map[int]bool
	restarts    int64
	unitMs      map[string]int64
	workdir     string
	corpusFile  string
	broken      string
}

func modeIdx(m string) int {
	if m == "permissive" {
		return 1
	}
	return 0
}

func (p *parent) addViolation(sig string, w witness, n int64) {
	p.mu.Lock()
	defer p.mu.Unlock()
	v, ok := p.viol[sig]
	if !ok {
		p.viol[sig] = &violAgg{sig: sig, w: w, count: n}
		return
	}
	v.count += n
	if w.Entry != "" && (v.w.Entry == "" || w.InputLen < v.w.InputLen) {
		v.w = w
	}
}

func main() {
	if nohb.IsWorker() {
		nohb.WorkerMain(reentrantOps(), repoDir())
		return
	}
	if os.Getenv("C01_WORKER") != "" {
		workerMain()
		return
	}
	if os.Getenv("C01_SINGLE") != "" {
		singleMain()
		return
	}
	ev.Main("C01", "model_checking", run)
}

func run(c *ev.Ctx) {
	quick := c.Quick()
	cp := loadCorpus(repoDir())
	buildEntries(cp.issuer, cp.leaf)
	units := buildUnits(quick, cp)
	d := ev.Pick(c, 2, 3)
	c.Rule(fmt.Sprintf("every element of a closed list of %d units is fed to every entry point of its family (%d entry points) in a strict and in a permissive worker process. "+
		"Units: G-bytes = all byte strings of length <= 3 for the cryptobyte readers"+map[bool]string{true: " (asn1.Unmarshal: <= 2 in this tier, <= 3 in the thorough tier)", false: " and the asn1.Unmarshal / ct/asn1.Unmarshal target types"}[quick]+" and <= 2 for every other entry point (TLS messages additionally: correct 4-byte header + every body <= 2 bytes); "+
		"G-tlv = for each seed (fixtures found under the repository + certificates/CSRs/CRLs/OCSP/keys created by the harness) the seed itself, every (TLV node x %d operators) single mutation with ancestor lengths fixed up, every single-byte substitution from {00,01,7f,80,ff,b^01,b^80} at every offset, every truncation (seeds > 4 KiB: byte-level menus on head/tail windows only)%s; "+
		"G-field = every assignment of the certificate model (%d fields, %d non-default alternatives) with <= %d non-default fields = %d certificates, each also as bare TBSCertificate; "+
		"closed models of SST, CRLSet, OneCRL (entry lists over small alphabets), JSON-tree mutations of a OneCRL fixture, and the full product of a constructed-RSA-key alphabet. "+
		"distinct_nontrivial = inputs accepted (value, nil error) in permissive mode by at least one entry point other than the cryptobyte readers, i.e. inputs that got past the outermost parse step of a decoder.",
		len(units), len(entries), xgen.TLVMenuSize, map[bool]string{true: "", false: ", plus every pair of core-menu mutations on siblings / parent+child (TLVPairs) for seeds <= 1500 bytes"}[quick],
		len(xgen.Fields()), nonDefaultAlts(), d, xgen.CountAssignments(d)))
	c.Assume("oracle = no panic (recover), the call returns, runtime.MemStats.TotalAlloc delta of the call <= 64 MiB + 4096*len(input) (batches whose total stays below 64 MiB are not re-measured call by call), not (nil value and nil error)",
		"hang / crash verdicts are never taken from one wall-clock observation: a worker that stalls for 10 s or dies is restarted and the input is re-run 3x in isolation (60 s, RLIMIT_AS 4 GiB); only 3 failures are reported",
		"hash functions handed to rsa.Verify* are caller-chosen constants, not attacker data; nil moduli/exponents cannot come out of a parser and are not constructed",
		"generators are deterministic: the parent cross-checks an FNV checksum of every unit's inputs between the strict and the permissive worker")

	if c.Replay != nil {
		replay(c, units)
		return
	}

	p := &parent{c: c, units: units, viol: map[string]*violAgg{}, hist: map[string]int64{}, entryOK: map[string]int64{}, entryErr: map[string]int64{},
		isolatedLen: map[string]int{}, unitMs: map[string]int64{}}
	for m := range modes {
		p.csum[m] = map[int]string{}
		p.disabled[m] = map[int]bool{}
		p.crashes[m] = map[int]int{}
		p.hangs[m] = map[int]int{}
		p.done[m] = map[int]bool{}
		p.partial[m] = map[int]bool{}
	}
	budget := 105 * time.Second
	if !quick {
		budget = 22 * time.Minute
	}
	if v := os.Getenv("C01_BUDGET"); v != "" {
		if d, err := time.ParseDuration(v); err == nil {
			budget = d
		}
	}
	p.deadline = c.Start.Add(budget)
	p.workdir = filepath.Join(ev.VerifDir, ".work", fmt.Sprintf("c01-%d", os.Getpid()))
	os.MkdirAll(p.workdir, 0o755)
	p.corpusFile = filepath.Join(p.workdir, "corpus.gob")
	if err := saveSeeds(p.corpusFile, cp.all); err != nil {
		c.Broken("cannot write corpus file: %v", err)
	}
	defer os.RemoveAll(p.workdir)

	// order: long units first (G-field shards, seeds, models), the 256 cheap
	// G-bytes prefixes after, units expected to cost workers last. VERIF_SEED
	// only rotates the order.
	var order, tailU []int
	for _, pre := range []string{"model/", "gfield/", "seed/"} {
		for i, u := range units {
			if !u.last && strings.HasPrefix(u.name, pre) {
				order = append(order, i)
			}
		}
	}
	for i, u := range units {
		if u.last {
			tailU = append(tailU, i)
		}
	}
	for i, u := range units {
		if !u.last && strings.HasPrefix(u.name, "gbytes/") && !strings.HasPrefix(u.name, "gbytes/prim/n<=3") {
			order = append(order, i)
		}
	}
	var prim3 []int
	for i, u := range units {
		if strings.HasPrefix(u.name, "gbytes/prim/n<=3") {
			prim3 = append(prim3, i)
		}
	}
	if n := len(order); n > 0 && c.Seed != 0 {
		r := int(uint64(c.Seed) % uint64(n))
		order = append(order[r:], order[:r]...)
	}
	// the 256 prefixes of the length-3 sweep over the primitive decoders are the
	// bulk of the evaluations and the least likely to add anything: they go last
	if n := len(prim3); n > 0 && c.Seed != 0 {
		r := int(uint64(c.Seed) % uint64(n))
		prim3 = append(prim3[r:], prim3[:r]...)
	}
	order = append(order, prim3...)
	order = append(order, tailU...)
	if only := os.Getenv("C01_ONLY"); only != "" { // development aid: restrict the run to matching units
		var f []int
		for _, i := range order {
			if strings.HasPrefix(only, "!") != strings.Contains(units[i].name, strings.TrimPrefix(only, "!")) {
				f = append(f, i)
			}
		}
		order = f
		c.Incomplete("C01_ONLY=" + only + ": restricted run")
	}

	W := c.Workers() / 2
	if v := os.Getenv("C01_WORKERS_PER_MODE"); v != "" {
		if n, err := strconv.Atoi(v); err == nil {
			W = n
		}
	}
	if W < 1 {
		W = 1
	}
	var wg sync.WaitGroup
	for mi, mode := range modes {
		q := make(chan int, len(order))
		for _, u := range order {
			q <- u
		}
		close(q)
		for s := 0; s < W; s++ {
			wg.Add(1)
			go func(mi int, mode string, slot int) {
				defer wg.Done()
				p.manage(mi, mode, slot, q)
			}(mi, mode, s)
		}
	}
	wg.Wait()
	p.iso.Wait()
	if p.broken != "" {
		p.flushViolations()
		c.Broken("%s", p.broken)
	}

	// ---- merge
	notRun := 0
	for m := range modes {
		for i := range units {
			if !p.done[m][i] || p.partial[m][i] {
				notRun++
			}
		}
	}
	if notRun > 0 {
		c.Incomplete(fmt.Sprintf("time budget: %d of %d (unit, mode) pairs not completed", notRun, 2*len(units)))
	}
	for i := range units {
		a, b := p.csum[0][i], p.csum[1][i]
		if a != "" && b != "" && a != b {
			p.flushViolations()
			c.Broken("generator of unit %q is not deterministic (input checksum strict=%s permissive=%s)", units[i].name, a, b)
		}
	}
	for m, mode := range modes {
		for ei := range p.disabled[m] {
			c.Incomplete(fmt.Sprintf("entry point %s was switched off in %s mode after it stalled or repeatedly killed workers (see violations)", entries[ei].name, mode))
		}
	}
	p.flushViolations()
	c.Merge(capHist(p.hist, 160))
	c.Evaluations.Store(p.evals[0] + p.evals[1])
	c.Transitions.Store(p.evals[0] + p.evals[1])
	c.Traces.Store(p.evals[0] + p.evals[1])
	c.States.Store(max64(p.items[0], p.items[1]))
	c.Distinct.Store(p.accepted[1])
	c.Set("units", len(units))
	c.Set("entry_points", len(entries))
	c.Set("inputs_strict", p.items[0])
	c.Set("inputs_permissive", p.items[1])
	c.Set("evaluations_strict", p.evals[0])
	c.Set("evaluations_permissive", p.evals[1])
	c.Set("inputs_accepted_by_some_entry_strict", p.accepted[0])
	c.Set("inputs_accepted_by_some_entry_permissive", p.accepted[1])
	c.Set("calls_remeasured_individually", p.remeas)
	c.Set("max_single_call_alloc_bytes_among_remeasured", p.maxAlloc)
	c.Set("worker_processes_per_mode", W)
	c.Set("worker_restarts", p.restarts)
	c.Set("suspects_raised", len(p.suspects))
	c.Set("suspects_cleared_by_isolated_rerun", p.cleared)
	c.Set("gfield_assignments", xgen.CountAssignments(d))
	c.Set("gfield_d", d)
	c.Set("seeds_found_in_repo", len(cp.all))
	perEntry := map[string]string{}
	silent := []string{}
	for _, e := range entries {
		perEntry[e.name] = fmt.Sprintf("ok=%d err=%d", p.entryOK[e.name], p.entryErr[e.name])
		if p.entryOK[e.name] == 0 {
			silent = append(silent, e.name)
		}
	}
	c.Set("per_entry", perEntry)
	c.Set("entries_that_never_accepted", silent)
	gens := map[string]int64{}
	for i, u := range units {
		k := strings.SplitN(u.name, "/", 2)[0]
		_ = i
		gens[k]++
	}
	c.Set("units_per_generator", gens)
	{
		type kv struct {
			k string
			v int64
		}
		var l []kv
		byGen := map[string]int64{}
		for k, v := range p.unitMs {
			l = append(l, kv{k, v})
			f := strings.SplitN(k, "/", 3)
			g := f[0]
			if len(f) > 1 {
				g += "/" + f[1]
			}
			byGen[g] += v
		}
		sort.Slice(l, func(i, j int) bool { return l[i].v > l[j].v })
		if len(l) > 12 {
			l = l[:12]
		}
		slow := []string{}
		for _, e := range l {
			slow = append(slow, fmt.Sprintf("%s: %d ms", e.k, e.v))
		}
		c.Set("slowest_units", slow)
		c.Set("worker_ms_by_generator_and_family", byGen)
	}
	n := 0
	xgen.CertModel(1)(func(d string, b []byte) bool {
		if n%70 == 3 && c.WantSample() {
			c.Sample(map[string]any{"gfield": d, "der_len": len(b)})
		}
		n++
		return true
	})
	reentrantPhase(c, p.workdir, units, cp)
}

func max64(a, b int64) int64 {
	if a > b {
		return a
	}
	return b
}

func nonDefaultAlts() int {
	n := 0
	for _, f := range xgen.Fields() {
		n += len(f.Alts) - 1
	}
	return n
}

// capHist keeps the n most frequent classes and folds the rest per family.
func capHist(h map[string]int64, n int) ev.Hist {
	type kv struct {
		k string
		v int64
	}
	var l []kv
	for k, v := range h {
		l = append(l, kv{k, v})
	}
	sort.Slice(l, func(i, j int) bool {
		if l[i].v != l[j].v {
			return l[i].v > l[j].v
		}
		return l[i].k < l[j].k
	})
	out := ev.Hist{}
	for i, e := range l {
		if i < n || strings.HasSuffix(e.k, "/ok") || strings.HasSuffix(e.k, "/PANIC") {
			out[e.k] = e.v
		} else {
			out[strings.SplitN(e.k, "/", 2)[0]+"/err:(other classes)"] += e.v
		}
	}
	return out
}

func (p *parent) flushViolations() {
	p.mu.Lock()
	defer p.mu.Unlock()
	sigs := make([]string, 0, len(p.viol))
	for s := range p.viol {
		sigs = append(sigs, s)
	}
	sort.Strings(sigs)
	for _, s := range sigs {
		v := p.viol[s]
		for i := int64(0); i < v.count; i++ {
			p.c.Violation(s, v.w)
			if i > 100000 {
				break
			}
		}
	}
	p.viol = map[string]*violAgg{}
}

// ---------------------------------------------------------------------------
// worker management

type proc struct {
	cmd    *exec.Cmd
	in     io.WriteCloser
	out    *bufio.Reader
	stderr *tailBuf
	shm    string
	shmMap []byte
}

type tailBuf struct {
	mu sync.Mutex
	b  []byte
}

func (t *tailBuf) Write(p []byte) (int, error) {
	t.mu.Lock()
	t.b = append(t.b, p...)
	if len(t.b) > 16384 {
		// keep head (fatal error line comes first) and tail
		t.b = append(t.b[:8192:8192], t.b[len(t.b)-8192:]...)
	}
	t.mu.Unlock()
	return len(p), nil
}

func (t *tailBuf) String() string { t.mu.Lock(); defer t.mu.Unlock(); return string(t.b) }

func (p *parent) spawn(mode string, slot int) (*proc, error) {
	shm := filepath.Join(p.workdir, fmt.Sprintf("prog-%s-%d", mode, slot))
	if err := os.WriteFile(shm, make([]byte, 4096), 0o600); err != nil {
		return nil, err
	}
	cmd := exec.Command(os.Args[0])
	cmd.Env = append(os.Environ(), "C01_WORKER=1", "C01_MODE="+mode, "C01_TIER="+p.c.Tier, "C01_SHM="+shm,
		"C01_DEADLINE_MS="+strconv.FormatInt(p.deadline.UnixMilli(), 10), "C01_CORPUS="+p.corpusFile, "GOMAXPROCS=2", "GOTRACEBACK=single")
	in, err := cmd.StdinPipe()
	if err != nil {
		return nil, err
	}
	out, err := cmd.StdoutPipe()
	if err != nil {
		return nil, err
	}
	tb := &tailBuf{}
	cmd.Stderr = tb
	if err := cmd.Start(); err != nil {
		return nil, err
	}
	pr := &proc{cmd: cmd, in: in, out: bufio.NewReaderSize(out, 1<<20), stderr: tb, shm: shm}
	return pr, nil
}

func (pr *proc) readProgress() (unit, item, entry int) {
	b, err := os.ReadFile(pr.shm)
	if err != nil || len(b) < 24 {
		return -1, 0, 0
	}
	le := func(o int) int {
		v := int64(0)
		for i := 7; i >= 0; i-- {
			v = v<<8 | int64(b[o+i])
		}
		return int(v)
	}
	return le(0), le(8), le(16)
}

func (pr *proc) kill() {
	pr.in.Close()
	if pr.cmd.Process != nil {
		pr.cmd.Process.Kill()
	}
	pr.cmd.Wait()
}

func fatalClass(stderr string, waitErr error) string {
	for _, line := range strings.Split(stderr, "\n") {
		l := strings.TrimSpace(line)
		if strings.HasPrefix(l, "fatal error:") || strings.HasPrefix(l, "runtime: out of memory") || strings.HasPrefix(l, "runtime: goroutine stack exceeds") {
			return ev.MsgClass(l)
		}
	}
	if waitErr != nil {
		return "worker died: " + ev.MsgClass(waitErr.Error())
	}
	return "worker died"
}

func (p *parent) disabledList(mi int) string {
	p.mu.Lock()
	defer p.mu.Unlock()
	var l []string
	for ei := range p.disabled[mi] {
		l = append(l, strconv.Itoa(ei))
	}
	sort.Strings(l)
	if len(l) == 0 {
		return "-"
	}
	return strings.Join(l, ",")
}

// manage runs one worker slot: it feeds units to a worker process and
// restarts the process when it dies or gives up on a stalled input.
func (p *parent) manage(mi int, mode string, slot int, q chan int) {
	var pr *proc
	defer func() {
		if pr != nil {
			fmt.Fprintln(pr.in, "quit")
			pr.in.Close()
			pr.cmd.Wait()
		}
	}()
	start := func() bool {
		var err error
		pr, err = p.spawn(mode, slot)
		if err != nil {
			p.setBroken("cannot start worker: " + err.Error())
			return false
		}
		line, err := pr.out.ReadBytes('\n')
		var m msg
		if err != nil || json.Unmarshal(line, &m) != nil || m.T != "ready" {
			p.setBroken(fmt.Sprintf("worker did not start (%v): %s", err, pr.stderr.String()))
			pr.kill()
			pr = nil
			return false
		}
		if m.Units != len(p.units) {
			p.setBroken(fmt.Sprintf("worker built %d units, parent %d: unit list is not a pure function of (tier, repository)", m.Units, len(p.units)))
			pr.kill()
			pr = nil
			return false
		}
		return true
	}
	for uid := range q {
		if time.Now().After(p.deadline) || p.c.TimeUp() || p.isBroken() {
			continue // drain: the unit stays "not done"
		}
		fromItem, fromEntry := 0, 0
		attempts, maxAttempts := 0, 40
		if p.units[uid].last {
			maxAttempts = 12
		}
	retry:
		if pr == nil && !start() {
			return
		}
		// all entries of the unit switched off?
		fmt.Fprintf(pr.in, "run %d %d %d %s\n", uid, fromItem, fromEntry, p.disabledList(mi))
		for {
			line, err := pr.out.ReadBytes('\n')
			if err != nil {
				// the worker died: a crash suspect at its last recorded position
				werr := pr.cmd.Wait()
				u, it, en := pr.readProgress()
				cls := fatalClass(pr.stderr.String(), werr)
				pr = nil
				p.mu.Lock()
				p.restarts++
				p.mu.Unlock()
				if u != uid {
					it, en = fromItem, fromEntry
				}
				p.raise(suspect{mode: mode, unit: uid, item: it, entry: en, why: "crash: " + cls})
				fromItem, fromEntry = it, en+1
				attempts++
				if attempts > maxAttempts || time.Now().After(p.deadline) {
					p.mu.Lock()
					p.partial[mi][uid] = true
					p.done[mi][uid] = true
					p.mu.Unlock()
					break
				}
				goto retry
			}
			var m msg
			if json.Unmarshal(line, &m) != nil {
				continue
			}
			switch m.T {
			case "viol":
				if m.W != nil {
					p.addViolation(m.Sig, *m.W, 0)
				}
			case "suspect":
				pr.cmd.Wait()
				pr = nil
				p.mu.Lock()
				p.restarts++
				p.mu.Unlock()
				p.raise(suspect{mode: mode, unit: uid, item: int(m.Item), entry: int(m.Entry), why: m.Why})
				fromItem, fromEntry = int(m.Item), int(m.Entry)+1
				attempts++
				if attempts > maxAttempts || time.Now().After(p.deadline) {
					p.mu.Lock()
					p.partial[mi][uid] = true
					p.done[mi][uid] = true
					p.mu.Unlock()
					goto next
				}
				goto retry
			case "done":
				p.mu.Lock()
				p.done[mi][uid] = true
				if m.Partial {
					p.partial[mi][uid] = true
				}
				p.items[mi] += m.Items
				p.evals[mi] += m.Evals
				p.accepted[mi] += m.Accepted
				for k, v := range m.Hist {
					p.hist[k] += v
				}
				for k, v := range m.EntryOK {
					p.entryOK[k] += v
				}
				for k, v := range m.EntryErr {
					p.entryErr[k] += v
				}
				if m.Csum != "" {
					p.csum[mi][uid] = m.Csum
				}
				p.remeas += m.Remeasure
				p.unitMs[p.units[uid].name+" ["+mode+"]"] += m.Millis
				if m.MaxAlloc > p.maxAlloc {
					p.maxAlloc = m.MaxAlloc
				}
				p.mu.Unlock()
				for sig, n := range m.ViolCount {
					p.addViolation(sig, witness{}, n)
				}
				goto next
			}
		}
	next:
	}
}

func (p *parent) setBroken(s string) {
	p.mu.Lock()
	if p.broken == "" {
		p.broken = s
	}
	p.mu.Unlock()
}
func (p *parent) isBroken() bool { p.mu.Lock(); defer p.mu.Unlock(); return p.broken != "" }

// regenerate re-enumerates a unit up to an item and returns the bytes that
// entry position `entry` received (after the "tbs" derivation, if any).
func regenerate(u *unit, item, entry int) (desc string, in []byte, ei int, ok bool) {
	if entry < 0 || entry >= len(u.entries) {
		return "", nil, 0, false
	}
	ei = u.entries[entry]
	i := -1
	u.gen(func(d string, b []byte) bool {
		i++
		if i < item {
			return true
		}
		desc, in, ok = d, append([]byte(nil), b...), true
		return false
	})
	if ok && entries[ei].part == "tbs" {
		in = firstElement(in)
		ok = in != nil
	}
	return
}

// raise records a suspect, switches the entry point off when it keeps
// costing workers, and starts the isolated re-runs for the first suspect of
// each (entry, mode, kind).
func (p *parent) raise(s suspect) {
	u := &p.units[s.unit]
	if s.entry < 0 || s.entry >= len(u.entries) {
		return
	}
	ei := u.entries[s.entry]
	mi := modeIdx(s.mode)
	kind := "crash"
	if !strings.HasPrefix(s.why, "crash") {
		kind = "hang"
	}
	key := fmt.Sprintf("%s|%s|%d", kind, s.mode, ei)
	if os.Getenv("C01_DEBUG") != "" {
		fmt.Fprintf(os.Stderr, "suspect: mode=%s unit=%s item=%d entry=%s why=%s\n", s.mode, u.name, s.item, entries[ei].name, s.why)
	}
	p.mu.Lock()
	p.suspects = append(p.suspects, s)
	// a stall costs 10 s of a worker each time: the entry point is switched off
	// after the third one (or as soon as the isolated re-runs confirm a hang).
	// Crashes only cost a restart (~1 s): tolerate more, so that other defects
	// behind the same entry point stay reachable.
	if kind == "hang" {
		p.hangs[mi][ei]++
		if p.hangs[mi][ei] >= 3 {
			p.disabled[mi][ei] = true
		}
	} else {
		p.crashes[mi][ei]++
		if p.crashes[mi][ei] >= 120 {
			p.disabled[mi][ei] = true
		}
	}
	// isolated re-runs: for the first suspect of each (kind, mode, entry), and
	// once more when a later suspect offers a small (≤ 2 KiB) input while the
	// one already examined was large — witnesses should be minimal.
	prevLen, seen := p.isolatedLen[key]
	p.mu.Unlock()
	if seen && prevLen <= 2048 {
		return
	}
	desc, in, _, ok := regenerate(u, s.item, s.entry)
	if !ok {
		p.setBroken(fmt.Sprintf("cannot regenerate suspect input unit=%s item=%d", u.name, s.item))
		return
	}
	p.mu.Lock()
	prevLen, seen = p.isolatedLen[key]
	if seen && (prevLen <= 2048 || len(in) > 2048) {
		p.mu.Unlock()
		return
	}
	p.isolatedLen[key] = len(in)
	p.mu.Unlock()
	p.iso.Add(1)
	go func() {
		defer p.iso.Done()
		e := entries[ei]
		fails, classes := isolate(e.name, s.mode, in)
		if fails < 3 {
			p.mu.Lock()
			p.cleared++
			p.mu.Unlock()
			return
		}
		var sig string
		if kind == "hang" && strings.HasPrefix(classes, "timeout") {
			p.mu.Lock()
			p.disabled[mi][ei] = true
			p.mu.Unlock()
			sig = fmt.Sprintf("hang@%s: no return within 60 s in 3 isolated runs [%s]", e.name, s.mode)
		} else {
			sig = fmt.Sprintf("crash@%s: %s [%s]", e.name, classes, s.mode)
		}
		p.addViolation(sig, mkWitness(e.name, s.mode, u.name, s.item, desc, in, "first observation: "+s.why+"; 3 of 3 isolated re-runs failed: "+classes), 1)
	}()
}

// isolate runs (entry, input) three times, each in a fresh process with a
// 60 s limit; it returns how many runs did not return normally and the class
// of the first failure. A run that returns with a recovered panic counts as
// returned (the in-worker oracle reports panics).
func isolate(entry, mode string, in []byte) (fails int, class string) {
	type r struct {
		failed bool
		class  string
	}
	res := make([]r, 3)
	var wg sync.WaitGroup
	for i := 0; i < 3; i++ {
		wg.Add(1)
		go func(i int) {
			defer wg.Done()
			sr, cls, err := runSingle(entry, mode, in, 60*time.Second)
			if err != nil || !sr.Returned {
				res[i] = r{true, cls}
			}
		}(i)
	}
	wg.Wait()
	for _, x := range res {
		if x.failed {
			fails++
			if class == "" {
				class = x.class
			}
		}
	}
	return
}

func runSingle(entry, mode string, in []byte, limit time.Duration) (singleRes, string, error) {
	ctx, cancel := context.WithTimeout(context.Background(), limit)
	defer cancel()
	cmd := exec.CommandContext(ctx, os.Args[0])
	cmd.Env = append(os.Environ(), "C01_SINGLE=1", "GOMAXPROCS=2", "GOTRACEBACK=single")
	req, _ := json.Marshal(singleReq{Entry: entry, Mode: mode, InputHex: fmt.Sprintf("%x", in)})
	cmd.Stdin = bytes.NewReader(req)
	var out bytes.Buffer
	tb := &tailBuf{}
	cmd.Stdout = &out
	cmd.Stderr = tb
	cmd.SysProcAttr = &syscall.SysProcAttr{Setpgid: true}
	err := cmd.Run()
	var sr singleRes
	if ctx.Err() != nil {
		return sr, "timeout (60 s)", ctx.Err()
	}
	if err != nil {
		return sr, fatalClass(tb.String(), err), err
	}
	if jerr := json.Unmarshal(out.Bytes(), &sr); jerr != nil {
		return sr, "no result", jerr
	}
	return sr, "", nil
}

// replay re-executes one recorded witness in an isolated child and applies
// the same oracle.
func replay(c *ev.Ctx, units []unit) {
	var w witness
	if err := json.Unmarshal(c.Replay, &w); err != nil {
		c.Broken("bad witness: %v", err)
	}
	in := unhex(w.InputHex)
	if w.InputHex == "" && w.InputLen > 0 {
		// large inputs are not inlined: re-enumerate the unit up to the item
		found := false
		for i := range units {
			if units[i].name != w.Unit {
				continue
			}
			for pos, ei := range units[i].entries {
				if entries[ei].name == w.Entry {
					if _, b, _, ok := regenerate(&units[i], w.Item, pos); ok {
						in, found = b, true
					}
				}
			}
		}
		if !found {
			c.Broken("cannot regenerate the input of unit %q item %d (the unit list depends on tier and repository files)", w.Unit, w.Item)
		}
	}
	sr, cls, err := runSingle(w.Entry, w.Mode, in, 60*time.Second)
	c.Evaluations.Add(1)
	c.States.Add(1)
	n := c.NViolations()
	switch {
	case err != nil && strings.HasPrefix(cls, "timeout"):
		c.Violation(fmt.Sprintf("hang@%s: no return within 60 s in 3 isolated runs [%s]", w.Entry, w.Mode), w)
	case err != nil:
		c.Violation(fmt.Sprintf("crash@%s: %s [%s]", w.Entry, cls, w.Mode), w)
	default:
		if sr.Panicked {
			site := sr.Site
			if site == "" {
				site = w.Entry
			}
			c.Violation(fmt.Sprintf("panic@%s: %s [%s]", site, ev.MsgClass(sr.PanicMsg), w.Mode), w)
		}
		if sr.NilNil {
			c.Violation(fmt.Sprintf("nil-value-and-nil-error@%s [%s]", w.Entry, w.Mode), w)
		}
		if sr.Alloc > allocBound(len(in)) {
			c.Violation(fmt.Sprintf("alloc@%s: TotalAlloc delta > 64 MiB + 4096*len(input) [%s]", w.Entry, w.Mode), w)
		}
	}
	if c.NViolations() == n {
		c.Outcome("replay: conforming (err="+shortClass(sr.Err)+")", 1)
	}
}
