// Reproducer (C01): mozilla.Parse panics on a OneCRL document whose data
// array contains null: Entry.UnmarshalJSON unmarshals into &aux where aux is
// a *record, JSON null sets that pointer to nil, aux.Schema dereferences it.
//
//	cd /verif/mc && GOFLAGS=-mod=mod GOPROXY=off go run ./cmd/c01/repro/mozilla_null_entry
package main

import (
	"fmt"

	"github.com/zmap/zcrypto/x509/revocation/mozilla"
)

func main() {
	defer func() {
		if r := recover(); r != nil {
			fmt.Println("PANIC:", r)
		}
	}()
	_, err := mozilla.Parse([]byte(`{"data":[null]}`))
	fmt.Println("returned err =", err)
}
