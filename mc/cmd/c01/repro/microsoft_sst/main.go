// Reproducer (C01): microsoft.Parse on attacker-controlled SST bytes
// (a) dereferences the nil result of a failed x509.ParseCertificate,
// (b) allocates the declared entry length (twice) before reading it.
//
//	cd /verif/mc && GOFLAGS=-mod=mod GOPROXY=off go run ./cmd/c01/repro/microsoft_sst
package main

import (
	"encoding/hex"
	"fmt"
	"runtime"

	"github.com/zmap/zcrypto/x509/revocation/microsoft"
)

func try(name string, in []byte) {
	var m0, m1 runtime.MemStats
	runtime.ReadMemStats(&m0)
	defer func() {
		runtime.ReadMemStats(&m1)
		if r := recover(); r != nil {
			fmt.Printf("%s (%d input bytes): PANIC: %v; allocated %d bytes\n", name, len(in), r, m1.TotalAlloc-m0.TotalAlloc)
		}
	}()
	_, err := microsoft.Parse(in)
	runtime.ReadMemStats(&m1)
	fmt.Printf("%s (%d input bytes): err=%v; allocated %d bytes\n", name, len(in), err, m1.TotalAlloc-m0.TotalAlloc)
}

func main() {
	// version 0, "CERT", one certificate entry (id 0x20, encoding 1) of declared length 0, then EOF
	a, _ := hex.DecodeString("00000000" + "43455254" + "20000000" + "01000000" + "00000000")
	try("(a) certificate entry that does not parse", a)
	// same header, declared length 0x04000000 (64 MiB), no data: two 64 MiB allocations for 20 bytes
	b, _ := hex.DecodeString("00000000" + "43455254" + "20000000" + "01000000" + "00000004")
	try("(b) declared length 64 MiB", b)
	// declared length 0xffffffff allocates 2 x 4 GiB: with `ulimit -v 4194304` the process dies with
	// "fatal error: runtime: out of memory" (not run here).
}
