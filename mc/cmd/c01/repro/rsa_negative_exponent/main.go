// Reproducer (C01): FIXED in /repo by commit 26e5755 while this check was
// being built; kept to document what the check reported on 87500ae+.
// A public key with a negative exponent and an all-zero signature made
// rsa.encrypt dereference the nil result of big.Int.Exp. In permissive mode
// such a key comes straight out of x509.ParseCertificate (self-issued
// certificate: the self-signature test verifies with it).
//
//	cd /verif/mc && GOFLAGS=-mod=mod GOPROXY=off go run ./cmd/c01/repro/rsa_negative_exponent
package main

import (
	"crypto"
	"fmt"
	"math/big"

	"github.com/zmap/zcrypto/rsa"
)

func main() {
	defer func() {
		if r := recover(); r != nil {
			fmt.Println("PANIC:", r)
		}
	}()
	pub := &rsa.PublicKey{N: big.NewInt(3), E: big.NewInt(-1)}
	err := rsa.VerifyPKCS1v15(pub, crypto.SHA256, make([]byte, 32), []byte{0})
	fmt.Println("returned err =", err)
}
