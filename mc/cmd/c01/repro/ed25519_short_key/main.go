// Reproducer (C01): a self-issued certificate whose Ed25519 public key is
// shorter than 32 bytes panics x509.ParseTBSCertificate / ParseCertificate,
// in strict and in permissive mode.
//
//	cd /verif/mc && GOFLAGS=-mod=mod GOPROXY=off go run ./cmd/c01/repro/ed25519_short_key
package main

import (
	"encoding/hex"
	"fmt"

	"github.com/zmap/zcrypto/x509"
)

// TBSCertificate: v3, serial 0x0102, sigalg Ed25519, issuer = subject = empty
// name, SPKI = { Ed25519, BIT STRING of 0 key bytes } (66 bytes).
const tbs = "3040a00302010202020102300506032b65703000301e170d3236303131343132303030305a170d3236303131363132303030305a3000300a300506032b6570030100"

// The same TBS (31-byte key, CN=xgen subject) inside a complete Certificate.
const cert = "3081da30818da00302010202020102300506032b657030173115301306035504030c0c7867656e207375626a656374301e170d3236303131343132303030305a170d3236303131363132303030305a30173115301306035504030c0c7867656e207375626a6563743029300506032b657003200011794f28e64aaaa3b6c75431d6f928d736b1c808a57e8eabf08c48607597f6300506032b6570034100cd793d085fd52a97fc4ab32557b4c9e5f7676c445eb08c92e1604e52111ca701a7d269ac6f41cefa368d00b44ae1e527b6e84daa1fec8e3fc213c4beb4e1a705"

func try(name string, f func() error) {
	defer func() {
		if r := recover(); r != nil {
			fmt.Printf("%s: PANIC: %v\n", name, r)
		}
	}()
	fmt.Printf("%s: returned err=%v\n", name, f())
}

func main() {
	t, _ := hex.DecodeString(tbs)
	c, err := hex.DecodeString(cert)
	if err != nil {
		panic(err)
	}
	try("x509.ParseTBSCertificate(0-byte Ed25519 key)", func() error { _, err := x509.ParseTBSCertificate(t); return err })
	try("x509.ParseCertificate(31-byte Ed25519 key)", func() error { _, err := x509.ParseCertificate(c); return err })
}
