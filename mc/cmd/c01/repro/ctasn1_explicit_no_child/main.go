// Reproducer (C01): the CT fork of encoding/asn1 (ct/asn1) reads the header of
// the element inside an EXPLICIT tag without checking that any byte is left:
// an explicit tag that declares a non-zero length at the very end of its
// parent panics ct/x509.ParseTBSCertificate, ParseCertificate and everything
// else that unmarshals through ct/asn1.
//
//	cd /verif/mc && GOFLAGS=-mod=mod GOPROXY=off go run ./cmd/c01/repro/ctasn1_explicit_no_child
package main

import (
	"fmt"

	ctasn1 "github.com/zmap/zcrypto/ct/asn1"
	ctx509 "github.com/zmap/zcrypto/ct/x509"
)

func try(name string, f func() error) {
	defer func() {
		if r := recover(); r != nil {
			fmt.Printf("%s: PANIC: %v\n", name, r)
		}
	}()
	fmt.Printf("%s: returned err=%v\n", name, f())
}

func main() {
	// SEQUENCE { [0] (length 1, no content) }
	tbs := []byte{0x30, 0x02, 0xa0, 0x01}
	cert := []byte{0x30, 0x04, 0x30, 0x02, 0xa0, 0x01}
	try("ct/x509.ParseTBSCertificate(3002a001)", func() error { _, err := ctx509.ParseTBSCertificate(tbs); return err })
	try("ct/x509.ParseCertificate(30043002a001)", func() error { _, err := ctx509.ParseCertificate(cert); return err })
	try("ct/asn1.Unmarshal(3002a001, struct{A int `explicit,tag:0`})", func() error {
		var v struct {
			A int `asn1:"explicit,tag:0"`
		}
		_, err := ctasn1.Unmarshal(tbs, &v)
		return err
	})
}
