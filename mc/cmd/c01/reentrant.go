package main

// Re-entrancy pass (internal/nohb): "a parser of untrusted bytes never panics, hangs or over-allocates" is checked
// call by call in the main phase; a service parses on many goroutines at once, and a decoder that keeps scratch
// state outside the call (package-level buffer, pooled object, lazily filled table) can be corrupted by a second
// caller — which shows as exactly the panics/garbage results the property excludes, but only under a schedule the
// sequential enumeration never takes. Every ordered pair of the menu below is run as "first call to completion,
// then the second on another goroutine" WITHOUT a happens-before edge in a -race build: ThreadSanitizer reports
// every location both calls touch unsynchronised, for all interleavings at once.
//
// Menu: EVERY entry point of the entry table, fed with the first element of the check's own seed/model units
// (in unit order) that the entry point accepts with a nil error — i.e. a valid input that runs the decoder to the
// end (seed units: the seed itself; model units: the first reentrantScan elements); entry points that accept none of these get the first element.
// Each call works on a private copy of its input; the two OCSP entries that take certificates parse their own
// issuer / certificate per call instead of using the shared objects of the table. The menu is computed by the parent
// process and handed to the race-built worker in a file, so that the worker is "cold": see reMenu.

import (
	"encoding/json"
	"os"
	"path/filepath"
	"strings"
	"time"

	"github.com/zmap/zcrypto/x509"
	"github.com/zmap/zcrypto/x509/revocation/ocsp"
	"verifmc/internal/ev"
	"verifmc/internal/nohb"
)

const reentrantScan = 3000

func reentrantSeed(units []unit, ei int) (seed []byte, accepted bool) {
	e := &entries[ei]
	var first []byte
	for ui := range units {
		u := &units[ui]
		if !strings.HasPrefix(u.name, "seed/") && !strings.HasPrefix(u.name, "model/") {
			continue
		}
		feeds := false
		for _, k := range u.entries {
			if k == ei {
				feeds = true
			}
		}
		if !feeds {
			continue
		}
		n, scan := 0, 1 // a seed unit starts with the seed itself; the rest are its mutants
		if strings.HasPrefix(u.name, "model/") {
			scan = reentrantScan
		}
		u.gen(func(_ string, b []byte) bool {
			n++
			in := b
			if e.part == "tbs" {
				if in = firstElement(b); in == nil {
					return n < scan
				}
			}
			if first == nil {
				first = append([]byte{}, in...)
			}
			panicked, _, _ := ev.Try(func() {
				if err, _ := e.f(in); err == nil {
					seed, accepted = append([]byte{}, in...), true
				}
			})
			_ = panicked
			return !accepted && n < scan
		})
		if accepted {
			return seed, true
		}
	}
	return first, false
}

// reMenu is the menu as the PARENT process computes it (normal build): which input every entry point gets. The
// race-built worker reads it from a file and so does not execute a single library call while it sets the pairs up:
// every entry point runs for the first time in the process INSIDE a pair, and a table that the library fills lazily
// on first use (per type, per OID, per tag string) is written by the first call of that pair and read by the second.
type reMenu struct {
	Entries   []reMenuEntry `json:"entries"`
	IssuerDER []byte        `json:"issuer_der"`
	LeafDER   []byte        `json:"leaf_der"`
}

type reMenuEntry struct {
	Name     string `json:"name"`
	Seed     []byte `json:"seed"`
	Accepted bool   `json:"accepted"`
}

func reentrantMenu(units []unit, cp *corpus) reMenu {
	var m reMenu
	if cp.issuer != nil && cp.leaf != nil {
		m.IssuerDER, m.LeafDER = cp.issuer.Raw, cp.leaf.Raw
	}
	for ei := range entries {
		seed, ok := reentrantSeed(units, ei)
		if seed == nil {
			continue
		}
		m.Entries = append(m.Entries, reMenuEntry{entries[ei].name, seed, ok})
	}
	return m
}

func reentrantOps() []nohb.Op {
	var m reMenu
	if path := os.Getenv("C01_REENTRANT_MENU"); path != "" {
		b, err := os.ReadFile(path)
		if err != nil || json.Unmarshal(b, &m) != nil {
			panic("c01 re-entrancy: cannot read the menu file " + path)
		}
		buildEntries(nil, nil) // the two OCSP entries that would use these are replaced below
	} else { // run by hand without a parent: the menu is computed here (the library is then warm when the pairs start)
		cp := loadCorpus(repoDir())
		buildEntries(cp.issuer, cp.leaf)
		m = reentrantMenu(buildUnits(true, cp), cp)
	}
	var ops []nohb.Op
	for _, me := range m.Entries {
		ei, known := entryByID[me.Name]
		if !known {
			continue
		}
		e := &entries[ei]
		seed := me.Seed
		name := e.name
		if !me.Accepted {
			name += " [rejected input]"
		}
		f := e.f
		switch e.name {
		case "ocsp.ParseResponse(issuer)", "ocsp.ParseResponseForCert(cert,issuer)":
			if m.IssuerDER == nil || m.LeafDER == nil {
				continue
			}
			forCert := e.name != "ocsp.ParseResponse(issuer)"
			issuerDER, leafDER := m.IssuerDER, m.LeafDER
			ops = append(ops, nohb.Op{Name: name + " own certificates", New: func() func() {
				in := append([]byte{}, seed...)
				iss, _ := x509.ParseCertificate(append([]byte{}, issuerDER...))
				leaf, _ := x509.ParseCertificate(append([]byte{}, leafDER...))
				return func() {
					if forCert {
						ocsp.ParseResponseForCert(in, leaf, iss)
					} else {
						ocsp.ParseResponse(in, iss)
					}
				}
			}})
			continue
		}
		ops = append(ops, nohb.Op{Name: name, New: func() func() {
			in := append([]byte{}, seed...)
			return func() { f(in) }
		}})
	}
	return ops
}

const reentrantMenuText = "every entry point of the entry table on the first element of its own seed/model units that it accepts (computed by the parent, so the race-built worker is cold: first execution of every entry point happens inside a pair); private input copies; the two OCSP entries parse their own issuer/certificate"

func reentrantPhase(c *ev.Ctx, workdir string, units []unit, cp *corpus) {
	if c.Replay != nil {
		return // --replay re-executes one recorded witness of the main phase only
	}
	menu := filepath.Join(workdir, "reentrant-menu.json")
	b, _ := json.Marshal(reentrantMenu(units, cp))
	if err := os.WriteFile(menu, b, 0o600); err != nil {
		c.Broken("re-entrancy pass: cannot write the menu file: %v", err)
	}
	extraEnv := []string{"C01_REENTRANT_MENU=" + menu}
	t0 := time.Now()
	o := nohb.Run(os.Getenv("VERIF_RACE_BIN"), extraEnv, 10*time.Minute)
	if o.Broken != "" {
		c.Broken("re-entrancy pass: %s", o.Broken)
	}
	for _, sig := range o.Sigs() {
		c.Violation("re-entrancy: two calls on different goroutines share unsynchronised state: "+sig, map[string]any{"pair": o.Races[sig], "kind": "nohb"})
	}
	for k, v := range o.Panics {
		c.Violation("re-entrancy: "+k, map[string]any{"pair": v, "kind": "nohb"})
	}
	c.Outcome("re-entrancy pairs without a report", int64(o.Pairs))
	c.States.Add(int64(o.Pairs))
	c.Traces.Add(int64(o.Pairs))
	c.Set("reentrancy", map[string]any{"calls": o.Ops, "ordered_pairs": o.Pairs, "race_signatures": len(o.Races), "harness_only_reports": o.Harness, "canary_ok": o.CanaryOK,
		"seconds": time.Since(t0).Seconds(), "menu": reentrantMenuText,
		"method": "every ordered pair (a, b) of the menu: a to completion on one goroutine, then b on another, without a happens-before edge, in a -race build; a ThreadSanitizer report with both accesses in the repository is a violation"})
}
