package main

import (
	"bytes"
	"crypto"
	stdrsa "crypto/rsa"
	"crypto/sha1"
	"crypto/sha256"
	stdx509 "crypto/x509"
	stdpkix "crypto/x509/pkix"
	stdasn1 "encoding/asn1"
	"encoding/gob"
	"encoding/json"
	"fmt"
	"math/big"
	"os"
	"sort"
	"strings"
	"time"

	xocsp "golang.org/x/crypto/ocsp"

	"github.com/zmap/zcrypto/x509"
	"verifmc/internal/fx"
	"verifmc/internal/xgen"
)

// A unit is one closed enumeration (generator × seed or model shard) together
// with the entry points its elements are fed to. Units are the grain of work
// distribution, crash recovery and replay; the list is a pure function of
// (tier, repository files), so parent and workers build identical lists.
type unit struct {
	name    string
	gen     xgen.Enum
	entries []int
	last    bool // scheduled at the very end: expected to cost worker processes
}

func one(desc string, b []byte) xgen.Enum {
	return func(visit func(string, []byte) bool) { visit(desc, b) }
}

// seedMenu is the complete single-mutation menu of one seed: the seed itself,
// every TLV (node, operator) when it is DER, every byte substitution and every
// truncation. Seeds above 4 KiB only get the byte-level menus in windows at
// both ends (head/tail bytes), as stated in the rule.
func seedMenu(s xgen.Seed, head, tail int) xgen.Enum {
	if len(s.Data) <= 4096 {
		return xgen.Concat(one("seed", s.Data), xgen.TLVSingles(s.Data), xgen.ByteSubs(s.Data), xgen.Truncations(s.Data))
	}
	n := len(s.Data)
	return xgen.Concat(one("seed", s.Data),
		xgen.ByteSubsWindow(s.Data, 0, head), xgen.ByteSubsWindow(s.Data, n-tail, n),
		xgen.TruncationsWindow(s.Data, 0, head), xgen.TruncationsWindow(s.Data, n-tail, n))
}

func bytesMenu(s xgen.Seed) xgen.Enum {
	return xgen.Concat(one("seed", s.Data), xgen.ByteSubs(s.Data), xgen.Truncations(s.Data))
}

// certModelShard: assignments of the G-field model with index ≡ k (mod K).
func certModelShard(d, k, K int) xgen.Enum {
	return func(visit func(string, []byte) bool) {
		i := 0
		xgen.EnumAssignments(d, func(a xgen.Assignment) bool {
			i++
			if (i-1)%K != k {
				return true
			}
			return visit(a.String(), xgen.Encode(a))
		})
	}
}

type corpus struct {
	all     []xgen.Seed
	minted  []xgen.Seed
	edCA    []byte
	issuer  *x509.Certificate // zcrypto view of the harness CA (signs the created OCSP responses)
	leaf    *x509.Certificate // a leaf issued by it, serial 8
	stdCA   *stdx509.Certificate
	stdLeaf *stdx509.Certificate
	created []xgen.Seed // CSRs, CRLs, keys, OCSP made with the Go standard library
}

type detRand struct{ r *fx.Rand }

func (d detRand) Read(p []byte) (int, error) { return d.r.Read(p) }

// mintOnly fills the minted certificates (needed by the entry table: the OCSP
// entries take an issuer and a certificate).
func mintOnly(c *corpus) {
	c.minted = xgen.MintedSeeds()
	for _, s := range c.minted {
		switch s.Name {
		case "minted:ca:ed-minted":
			c.edCA = s.Data
		}
	}
	// the CA that signs the harness-made CRLs and OCSP responses (standard
	// library, RSA PKCS#1 v1.5: byte-identical in every process) and a leaf
	rnd := detRand{fx.NewRand("c01-ocsp-ca")}
	rsaKey := fx.StdRSA("rsa1024")
	caT := &stdx509.Certificate{SerialNumber: big.NewInt(1), Subject: stdpkix.Name{CommonName: "c01 crl ca"}, NotBefore: fx.T0.Add(-time.Hour),
		NotAfter: fx.T0.Add(time.Hour), IsCA: true, BasicConstraintsValid: true, KeyUsage: stdx509.KeyUsageCRLSign | stdx509.KeyUsageCertSign,
		SubjectKeyId: []byte{1, 2, 3, 4}}
	caDER, err := stdx509.CreateCertificate(rnd, caT, caT, rsaKey.Public(), rsaKey)
	if err != nil {
		return
	}
	c.stdCA, _ = stdx509.ParseCertificate(caDER)
	c.issuer, _ = x509.ParseCertificate(caDER)
	if c.stdCA == nil {
		return
	}
	leafDER, err := stdx509.CreateCertificate(rnd, &stdx509.Certificate{SerialNumber: big.NewInt(8), Subject: stdpkix.Name{CommonName: "leaf"},
		NotBefore: fx.T0.Add(-time.Hour), NotAfter: fx.T0.Add(time.Hour)}, c.stdCA, fx.Ed("c01-csr").Public(), rsaKey)
	if err == nil {
		c.stdLeaf, _ = stdx509.ParseCertificate(leafDER)
		c.leaf, _ = x509.ParseCertificate(leafDER)
	}
}

// saveSeeds / C01_CORPUS: the parent scans the repository once and hands the
// result to its workers as a gob file (scanning costs ~2 CPU-seconds, there are
// 16 workers and every restart would pay it again).
func saveSeeds(path string, seeds []xgen.Seed) error {
	f, err := os.Create(path)
	if err != nil {
		return err
	}
	defer f.Close()
	return gob.NewEncoder(f).Encode(seeds)
}

func loadCorpus(repo string) *corpus {
	c := &corpus{}
	if path := os.Getenv("C01_CORPUS"); path != "" {
		if f, err := os.Open(path); err == nil {
			if gob.NewDecoder(f).Decode(&c.all) != nil {
				c.all = nil
			}
			f.Close()
		}
	}
	if c.all == nil {
		c.all = xgen.LoadSeeds(repo)
	}
	mintOnly(c)
	add := func(name, kind string, b []byte, err error) {
		if err == nil && len(b) > 0 {
			c.created = append(c.created, xgen.Seed{Name: name, Kind: kind, Data: b})
		}
	}
	rnd := detRand{fx.NewRand("c01-created")}
	edKey, rsaKey, ecKey := fx.Ed("c01-csr"), fx.StdRSA("rsa1024"), fx.EC("p256")
	tmpl := &stdx509.CertificateRequest{Subject: stdpkix.Name{CommonName: "csr.example", Organization: []string{"Org"}},
		DNSNames: []string{"csr.example", "www.csr.example"}, EmailAddresses: []string{"a@csr.example"}}
	b, err := stdx509.CreateCertificateRequest(rnd, tmpl, edKey)
	add("created:csr:ed25519", "csr", b, err)
	b, err = stdx509.CreateCertificateRequest(rnd, tmpl, rsaKey)
	add("created:csr:rsa1024", "csr", b, err)
	// CRLs and OCSP messages signed by the standard-library CA of mintOnly
	if ca := c.stdCA; ca != nil {
		for n := 0; n <= 2; n++ {
			rl := &stdx509.RevocationList{Number: big.NewInt(int64(5 + n)), ThisUpdate: fx.T0, NextUpdate: fx.T0.Add(time.Hour)}
			for i := 0; i < n; i++ {
				rl.RevokedCertificateEntries = append(rl.RevokedCertificateEntries, stdx509.RevocationListEntry{
					SerialNumber: big.NewInt(int64(100 + i)), RevocationTime: fx.T0.Add(-time.Minute), ReasonCode: i})
			}
			b, err := stdx509.CreateRevocationList(rnd, rl, ca, rsaKey)
			add(fmt.Sprintf("created:crl:%d-entries", n), "crl", b, err)
		}
		// OCSP responses about the leaf, hand-assembled (ocsp.CreateResponse stamps
		// the current time into producedAt: not reproducible): good without
		// certificates / revoked with embedded responder certificate
		for _, embed := range []bool{false, true} {
			add(fmt.Sprintf("created:ocsp-response:embed=%v", embed), "ocsp-response", makeOCSPResponse(ca, rsaKey, embed), nil)
		}
		if c.stdLeaf != nil {
			b, err := xocsp.CreateRequest(c.stdLeaf, ca, nil)
			add("created:ocsp-request", "ocsp-request", b, err)
		}
	}
	add("created:key:pkcs1", "privkey-pkcs1", stdx509.MarshalPKCS1PrivateKey(rsaKey), nil)
	add("created:key:pkcs1-pub", "pubkey-pkcs1", stdx509.MarshalPKCS1PublicKey(&rsaKey.PublicKey), nil)
	b, err = stdx509.MarshalPKCS8PrivateKey(rsaKey)
	add("created:key:pkcs8-rsa", "privkey-pkcs8", b, err)
	b, err = stdx509.MarshalPKCS8PrivateKey(ecKey)
	add("created:key:pkcs8-ec", "privkey-pkcs8", b, err)
	b, err = stdx509.MarshalPKCS8PrivateKey(edKey)
	add("created:key:pkcs8-ed", "privkey-pkcs8", b, err)
	b, err = stdx509.MarshalECPrivateKey(ecKey)
	add("created:key:sec1-p256", "privkey-ec", b, err)
	b, err = stdx509.MarshalECPrivateKey(fx.EC("p521"))
	add("created:key:sec1-p521", "privkey-ec", b, err)
	return c
}

// makeOCSPResponse builds an RFC 6960 OCSPResponse (status successful, one
// SingleResponse for serial 8) signed with sha256WithRSAEncryption.
func makeOCSPResponse(ca *stdx509.Certificate, key *stdrsa.PrivateKey, embed bool) []byte {
	var spki struct {
		Alg stdasn1.RawValue
		Key stdasn1.BitString
	}
	if _, err := stdasn1.Unmarshal(ca.RawSubjectPublicKeyInfo, &spki); err != nil {
		return nil
	}
	nameHash := sha1.Sum(ca.RawSubject)
	keyHash := sha1.Sum(spki.Key.RightAlign())
	certID := xgen.Seq(xgen.Seq(xgen.OID(1, 3, 14, 3, 2, 26), xgen.Null()), xgen.OctetString(nameHash[:]), xgen.OctetString(keyHash[:]), xgen.Int(8))
	status := xgen.Ctx(0, false) // good
	responder := xgen.Ctx(2, true, xgen.OctetString(keyHash[:]))
	if embed {
		status = xgen.Ctx(1, true, xgen.GenTime(fx.T0.Add(-time.Hour)), xgen.Explicit(0, xgen.TLV(0x0a, []byte{1})))
		responder = xgen.Ctx(1, true, ca.RawSubject)
	}
	single := xgen.Seq(certID, status, xgen.GenTime(fx.T0), xgen.Explicit(0, xgen.GenTime(fx.T0.Add(time.Hour))))
	tbs := xgen.Seq(responder, xgen.GenTime(fx.T0), xgen.Seq(single))
	digest := sha256.Sum256(tbs)
	sig, err := stdrsa.SignPKCS1v15(nil, key, crypto.SHA256, digest[:])
	if err != nil {
		return nil
	}
	parts := [][]byte{tbs, xgen.Seq(xgen.OID(1, 2, 840, 113549, 1, 1, 11), xgen.Null()), xgen.BitString(sig)}
	if embed {
		parts = append(parts, xgen.Explicit(0, xgen.Seq(ca.Raw)))
	}
	basic := xgen.Seq(parts...)
	return xgen.Seq(xgen.TLV(0x0a, []byte{0}), xgen.Explicit(0, xgen.Seq(xgen.OID(1, 3, 6, 1, 5, 5, 7, 48, 1, 1), xgen.OctetString(basic))))
}

func firstElement(in []byte) []byte {
	// header of the outer element, then the complete first inner element
	skip := func(b []byte) (hdr, total int, ok bool) {
		if len(b) < 2 {
			return 0, 0, false
		}
		i := 1
		if b[0]&0x1f == 0x1f {
			for i < len(b) && b[i]&0x80 != 0 {
				i++
			}
			i++
		}
		if i >= len(b) {
			return 0, 0, false
		}
		l := int(b[i])
		i++
		if l&0x80 != 0 {
			k := l & 0x7f
			if k == 0 || k > 4 || i+k > len(b) {
				return 0, 0, false
			}
			l = 0
			for j := 0; j < k; j++ {
				l = l<<8 | int(b[i+j])
			}
			i += k
		}
		if l < 0 || i+l > len(b) {
			return i, len(b), true // truncated: hand over what is there
		}
		return i, i + l, true
	}
	h, _, ok := skip(in)
	if !ok {
		return nil
	}
	inner := in[h:]
	_, t, ok := skip(inner)
	if !ok {
		return nil
	}
	return inner[:t]
}

func pick(seeds []xgen.Seed, substr ...string) []xgen.Seed {
	var out []xgen.Seed
	for _, sub := range substr {
		for _, s := range seeds {
			if strings.Contains(s.Name, sub) {
				out = append(out, s)
				break
			}
		}
	}
	return out
}

func smallest(seeds []xgen.Seed, n int) []xgen.Seed {
	c := append([]xgen.Seed(nil), seeds...)
	sort.SliceStable(c, func(i, j int) bool { return len(c[i].Data) < len(c[j].Data) })
	if len(c) > n {
		c = c[:n]
	}
	return c
}

func buildUnits(quick bool, cp *corpus) []unit {
	var units []unit
	add := func(name string, gen xgen.Enum, ents []int) {
		units = append(units, unit{name: name, gen: gen, entries: ents})
	}
	asn := famEntries("asn1")
	cbr := famEntries("cryptobyte")
	prim := append(append([]int(nil), asn...), cbr...)
	certE := famEntries("cert")

	// (a) G-bytes
	// The length-3 sweep over asn1.Unmarshal (18 target types, ~1 µs per call
	// because every mismatch formats an error) is 85 % of its cost: it belongs
	// to the thorough tier. Quick sweeps length <= 3 over the cryptobyte
	// readers and length <= 2 over asn1.Unmarshal.
	add("gbytes/prim/empty", one("", nil), prim)
	sweep := prim
	if quick {
		sweep = cbr
		add("gbytes/asn1/n<=2", xgen.AllBytes(2), asn)
	}
	for f := 0; f < 256; f++ {
		add(fmt.Sprintf("gbytes/prim/n<=3/first=%02x", f), xgen.AllBytesPrefix(3, byte(f)), sweep)
	}
	for _, fam := range []string{"cert", "spki", "csr", "crl", "key", "ct", "ocsp", "crlset", "onecrl", "sst", "tls"} {
		add("gbytes/"+fam+"/n<=2", xgen.AllBytes(2), famEntries(fam))
	}
	add("gbytes/tls/framed-body<=2", tlsFramedBodies(2), famEntries("tls"))
	if !quick {
		add("gbytes/ct/n=3", func(visit func(string, []byte) bool) {
			xgen.AllBytes(3)(func(d string, b []byte) bool {
				if len(b) < 3 {
					return true
				}
				return visit(d, b)
			})
		}, famEntries("ct"))
	}

	// (b) G-tlv / byte menus over seeds
	prims := asn1Primitives()
	pn := make([]string, 0, len(prims))
	for k := range prims {
		pn = append(pn, k)
	}
	sort.Strings(pn)
	for _, k := range pn {
		s := xgen.Seed{Name: k, Data: prims[k]}
		g := seedMenu(s, 0, 0)
		if !quick {
			g = xgen.Concat(g, xgen.TLVPairs(s.Data))
		}
		add("seed/prim/"+k, g, prim)
	}

	fixtureCerts := xgen.OfKind(cp.all, "cert")
	var certSeeds, pairSeeds []xgen.Seed
	if quick {
		certSeeds = append(certSeeds, cp.minted...)
		certSeeds = append(certSeeds, pick(fixtureCerts, "x509/testdata/etsi_qc", "x509/testdata/name.constraint", "x509/testdata/ian.test", "x509/testdata/dsa_pk")...)
	} else {
		certSeeds = append(certSeeds, cp.minted...)
		for _, s := range fixtureCerts {
			if len(s.Data) <= 4096 {
				certSeeds = append(certSeeds, s)
			}
		}
		pairSeeds = append(pairSeeds, cp.minted...)
		for _, s := range fixtureCerts {
			if strings.HasPrefix(s.Name, "x509/testdata/") && len(s.Data) <= 1500 {
				pairSeeds = append(pairSeeds, s)
			}
		}
	}
	for _, s := range certSeeds {
		add("seed/cert/"+s.Name, seedMenu(s, 0, 0), certE)
	}
	for _, s := range pairSeeds {
		add("seed/cert/pairs/"+s.Name, xgen.TLVPairs(s.Data), certE)
	}
	if !quick {
		for _, s := range fixtureCerts {
			if len(s.Data) > 4096 {
				add("seed/cert/big/"+s.Name, seedMenu(s, 256, 32), certE)
			}
		}
	}

	// SPKIs: every key alternative of the model + fixture public keys
	keyField := xgen.Fields()[xgen.FieldIndex("key")]
	for _, alt := range keyField.Alts {
		p := xgen.EncodeParts(xgen.Default().With("key", alt))
		add("seed/spki/model:"+alt, seedMenu(xgen.Seed{Data: p.SPKI}, 0, 0), famEntries("spki"))
	}
	for _, s := range xgen.OfKind(cp.all, "pubkey") {
		add("seed/spki/"+s.Name, seedMenu(s, 0, 0), famEntries("spki"))
	}

	head, tail := 64, 16
	if !quick {
		head, tail = 1024, 64
	}
	byKind := func(fam string, kinds ...string) {
		var ss []xgen.Seed
		ss = append(ss, xgen.OfKind(cp.created, kinds...)...)
		ss = append(ss, xgen.OfKind(cp.all, kinds...)...)
		for _, s := range ss {
			if quick && len(s.Data) > 64<<10 {
				add("seed/"+fam+"/unmodified/"+s.Name, one("seed", s.Data), famEntries(fam))
				continue
			}
			g := seedMenu(s, head, tail)
			if !quick && len(s.Data) <= 1500 {
				g = xgen.Concat(g, xgen.TLVPairs(s.Data))
			}
			add("seed/"+fam+"/"+s.Name, g, famEntries(fam))
		}
	}
	byKind("csr", "csr")
	byKind("crl", "crl")
	byKind("key", "privkey-pkcs1", "privkey-pkcs8", "privkey-ec", "pubkey-pkcs1")
	{
		ocspSeeds := append(xgen.OfKind(cp.created, "ocsp-response", "ocsp-request"), xgen.OfKind(cp.all, "ocsp-request")...)
		fix := xgen.OfKind(cp.all, "ocsp-response")
		if quick {
			fix = smallest(fix, 2)
		}
		ocspSeeds = append(ocspSeeds, fix...)
		for _, s := range ocspSeeds {
			add("seed/ocsp/"+s.Name, seedMenu(s, head, tail), famEntries("ocsp"))
		}
	}

	// CT structures
	if cp.edCA != nil {
		cts := ctSeeds(cp.edCA, firstElement(cp.edCA))
		names := make([]string, 0, len(cts))
		for k := range cts {
			names = append(names, k)
		}
		sort.Strings(names)
		for _, k := range names {
			// the CT readers allocate the declared length before reading (up to
			// 16 MiB per call, inside the bound but slow): spread each seed over 6 units
			for sh := 0; sh < 6; sh++ {
				add(fmt.Sprintf("seed/ct/%s/shard=%d/6", k, sh), bytesMenu(xgen.Seed{Data: cts[k]}).Shard(sh, 6), famEntries("ct"))
			}
		}
	}

	// revocation lists: models + fixtures
	add("model/crlset", crlsetModel(map[bool]int{true: 1, false: 2}[quick]), famEntries("crlset"))
	for _, s := range xgen.OfKind(cp.all, "crlset") {
		add("seed/crlset/"+s.Name, seedMenu(s, head, tail), famEntries("crlset"))
	}
	add("model/onecrl", onecrlModel(map[bool]int{true: 2, false: 3}[quick]), famEntries("onecrl"))
	for _, s := range xgen.OfKind(cp.all, "onecrl") {
		if reduced := reduceOneCRL(s.Data, 2); reduced != nil && strings.Contains(s.Name, "test_onecrl") {
			add("seed/onecrl/json-tree/"+s.Name, xgen.Concat(one("seed", reduced), jsonMutations(reduced)), famEntries("onecrl"))
		}
		if quick {
			add("seed/onecrl/unmodified/"+s.Name, one("seed", s.Data), famEntries("onecrl"))
		} else {
			add("seed/onecrl/"+s.Name, seedMenu(s, 256, 64), famEntries("onecrl"))
		}
	}
	if cp.edCA != nil {
		l := map[bool]int{true: 2, false: 3}[quick]
		add("model/sst", sstModel(cp.edCA, l, false), famEntries("sst"))
		units = append(units, unit{name: "model/sst/huge-declared-length", gen: sstModel(cp.edCA, l-1, true), entries: famEntries("sst"), last: true})
	}
	for _, s := range xgen.OfKind(cp.all, "sst") {
		add("seed/sst/"+s.Name, seedMenu(s, head, tail), famEntries("sst"))
	}

	// TLS handshake messages: recorded messages, byte menus, fed to every message type
	{
		hs := xgen.OfKind(cp.all, "tls-handshake")
		// message types the recorded transcripts do not contain in clear text
		hs = append(hs,
			xgen.Seed{Name: "created:tls:certificateStatus", Data: []byte{22, 0, 0, 8, 1, 0, 0, 4, 0xde, 0xad, 0xbe, 0xef}},
			xgen.Seed{Name: "created:tls:keyUpdate", Data: []byte{24, 0, 0, 1, 1}},
			xgen.Seed{Name: "created:tls:endOfEarlyData", Data: []byte{5, 0, 0, 0}},
			xgen.Seed{Name: "created:tls:helloRequest", Data: []byte{0, 0, 0, 0}},
			// the TLS 1.2 layouts (signature-algorithm fields) of CertificateRequest and CertificateVerify
			xgen.Seed{Name: "created:tls:certificateRequest12", Data: []byte{13, 0, 0, 10, 1, 1, 0, 4, 4, 1, 5, 1, 0, 0}},
			xgen.Seed{Name: "created:tls:certificateVerify12", Data: []byte{15, 0, 0, 8, 4, 1, 0, 4, 0xde, 0xad, 0xbe, 0xef}})
		perType := map[byte]int{}
		for _, s := range hs {
			t := s.Data[0]
			perType[t]++
			if quick && perType[t] > 2 {
				continue
			}
			if len(s.Data) > 4096 {
				continue
			}
			add("seed/tls/"+s.Name, bytesMenu(s), famEntries("tls"))
		}
	}

	// rsa public operations on constructed keys
	add("model/rsa", rsaCases(), famEntries("rsa"))

	// (c) G-field certificate model
	d, K := 2, 16
	if !quick {
		d, K = 3, 192
	}
	for k := 0; k < K; k++ {
		add(fmt.Sprintf("gfield/cert/d<=%d/shard=%d/%d", d, k, K), certModelShard(d, k, K), certE)
	}
	return units
}

// reduceOneCRL keeps the first n entries of a OneCRL document.
func reduceOneCRL(doc []byte, n int) []byte {
	var v struct {
		Data []json.RawMessage `json:"data"`
	}
	if json.Unmarshal(doc, &v) != nil || len(v.Data) == 0 {
		return nil
	}
	if len(v.Data) > n {
		v.Data = v.Data[:n]
	}
	var buf bytes.Buffer
	buf.WriteString(`{"data":[`)
	for i, e := range v.Data {
		if i > 0 {
			buf.WriteByte(',')
		}
		buf.Write(e)
	}
	buf.WriteString(`]}`)
	return buf.Bytes()
}
