package main

// Worker side: one process per (mode, slot). The parsing mode is a process
// global of zcrypto, so it is set exactly once here, before anything parses.
// All evaluations of a worker run on ONE goroutine (allocation is measured
// with runtime.MemStats.TotalAlloc, which is process wide); parallelism comes
// from running several worker processes.

import (
	"bufio"
	"crypto/sha256"
	"encoding/hex"
	"encoding/json"
	"fmt"
	"os"
	"runtime"
	"runtime/debug"
	"runtime/pprof"
	"strconv"
	"strings"
	"sync"
	"sync/atomic"
	"syscall"
	"time"
	"unsafe"

	zasn1 "github.com/zmap/zcrypto/encoding/asn1"
	"verifmc/internal/ev"
)

const (
	allocBase    = 64 << 20 // bytes every call may allocate
	allocPerByte = 4096     // plus this much per input byte
	softWatchdog = 10 * time.Second
	asLimit      = 4 << 30 // RLIMIT_AS of a worker
)

func allocBound(n int) uint64 { return allocBase + allocPerByte*uint64(n) }

// progress is the mmap'ed page shared with the parent: where the worker is.
// The evaluating goroutine writes it with plain stores (it is the only writer;
// this is the hot path), the watchdog and the parent only read it.
type progress struct {
	unit, item, entry int64
	seq               int64 // incremented before every evaluation
	inEval            int64 // 1 while inside a zcrypto call
}

func mapProgress(path string) *progress {
	f, err := os.OpenFile(path, os.O_RDWR, 0o600)
	if err != nil {
		return new(progress)
	}
	defer f.Close()
	b, err := syscall.Mmap(int(f.Fd()), 0, 4096, syscall.PROT_READ|syscall.PROT_WRITE, syscall.MAP_SHARED)
	if err != nil {
		return new(progress)
	}
	return (*progress)(unsafe.Pointer(&b[0]))
}

func setLimits() {
	lim := syscall.Rlimit{Cur: asLimit, Max: asLimit}
	syscall.Setrlimit(syscall.RLIMIT_AS, &lim)
	if os.Getenv("GOGC") == "" {
		// small heap on purpose: garbage is recycled while it is still in cache
		// (a GC ballast made the workers slower, not faster)
		debug.SetGCPercent(200)
	}
	if os.Getenv("C01_CPUPROFILE") != "" {
		if f, err := os.Create(os.Getenv("C01_CPUPROFILE")); err == nil {
			pprof.StartCPUProfile(f)
			profiling = true
		}
	}
}

var profiling bool

type witness struct {
	Entry    string `json:"entry"`
	Mode     string `json:"mode"`
	Unit     string `json:"unit,omitempty"`
	Item     int    `json:"item"`
	Desc     string `json:"derivation,omitempty"`
	InputHex string `json:"input_hex,omitempty"`
	InputLen int    `json:"input_len"`
	SHA256   string `json:"input_sha256,omitempty"`
	Detail   string `json:"detail,omitempty"`
}

const maxInlineInput = 64 << 10

func mkWitness(entry, mode, unit string, item int, desc string, in []byte, detail string) witness {
	w := witness{Entry: entry, Mode: mode, Unit: unit, Item: item, Desc: desc, InputLen: len(in), Detail: detail}
	if len(in) <= maxInlineInput {
		w.InputHex = hex.EncodeToString(in)
	} else {
		h := sha256.Sum256(in)
		w.SHA256 = hex.EncodeToString(h[:])
	}
	return w
}

type msg struct {
	T string `json:"t"`
	// ready
	Units int `json:"units,omitempty"`
	// viol
	Sig string   `json:"sig,omitempty"`
	W   *witness `json:"w,omitempty"`
	// done
	Unit      int              `json:"unit"`
	Items     int64            `json:"items,omitempty"`
	Evals     int64            `json:"evals,omitempty"`
	Accepted  int64            `json:"accepted,omitempty"`
	Hist      map[string]int64 `json:"hist,omitempty"`
	EntryOK   map[string]int64 `json:"entry_ok,omitempty"`
	EntryErr  map[string]int64 `json:"entry_err,omitempty"`
	ViolCount map[string]int64 `json:"violcount,omitempty"`
	Csum      string           `json:"csum,omitempty"`
	Partial   bool             `json:"partial,omitempty"`
	Remeasure int64            `json:"remeasured,omitempty"`
	MaxAlloc  uint64           `json:"max_alloc,omitempty"`
	Millis    int64            `json:"millis,omitempty"`
	// suspect
	Item  int64  `json:"item,omitempty"`
	Entry int64  `json:"entry,omitempty"`
	Why   string `json:"why,omitempty"`
}

type worker struct {
	mode     string
	prog     *progress
	mu       sync.Mutex
	out      *bufio.Writer
	bestLen  map[string]int // per signature: smallest witness sent so far
	units    []unit
	deadline time.Time

	// outcome classes are interned: the hot loop counts in map[uint64]
	famIDs     map[string]int
	famNames   []string
	classNames []string
	clsSyntax  map[string]uint32 // asn1.SyntaxError.Msg -> class id (no Error() call, no allocation)
	clsStruct  map[string]uint32
	clsOther   map[string]uint32
}

const (
	clsOK uint64 = iota
	clsPanic
	clsNilNil
	clsRejected
	nFixedClasses
)

func (w *worker) initClasses() {
	w.famIDs = map[string]int{}
	w.classNames = []string{"ok", "PANIC", "NIL-NIL", "err:rejected"}
	w.clsSyntax, w.clsStruct, w.clsOther = map[string]uint32{}, map[string]uint32{}, map[string]uint32{}
}

func (w *worker) famID(f string) int {
	if id, ok := w.famIDs[f]; ok {
		return id
	}
	w.famIDs[f] = len(w.famNames)
	w.famNames = append(w.famNames, f)
	return len(w.famNames) - 1
}

func (w *worker) intern(m map[string]uint32, key, full string) uint32 {
	if id, ok := m[key]; ok {
		return id
	}
	name := "err:" + shortClass(full)
	for i, n := range w.classNames {
		if n == name {
			m[key] = uint32(i)
			return uint32(i)
		}
	}
	if len(m) > 50000 { // unbounded message families (offsets, lengths): do not grow the table further
		for k := range m {
			delete(m, k)
		}
	}
	w.classNames = append(w.classNames, name)
	m[key] = uint32(len(w.classNames) - 1)
	return m[key]
}

func (w *worker) classID(err error) uint32 {
	if err == errRejected {
		return uint32(clsRejected)
	}
	switch e := err.(type) {
	case zasn1.SyntaxError:
		if id, ok := w.clsSyntax[e.Msg]; ok {
			return id
		}
		return w.intern(w.clsSyntax, e.Msg, e.Error())
	case zasn1.StructuralError:
		if id, ok := w.clsStruct[e.Msg]; ok {
			return id
		}
		return w.intern(w.clsStruct, e.Msg, e.Error())
	}
	s := err.Error()
	if id, ok := w.clsOther[s]; ok {
		return id
	}
	return w.intern(w.clsOther, s, s)
}

func (w *worker) send(m msg) {
	w.mu.Lock()
	b, _ := json.Marshal(m)
	w.out.Write(b)
	w.out.WriteByte('\n')
	w.out.Flush()
	w.mu.Unlock()
}

func shortClass(s string) string {
	s = ev.MsgClass(s)
	if len(s) > 56 {
		s = s[:56]
	}
	return s
}

// evalOnce runs one entry on one input under recover.
func evalOnce(e *entry, in []byte) (err error, nilnil, panicked bool, pmsg, site string) {
	panicked, pmsg, site = ev.Try(func() { err, nilnil = e.f(in) })
	return
}

func workerMain() {
	mode := os.Getenv("C01_MODE")
	quick := os.Getenv("C01_TIER") != "thorough"
	setLimits()
	zasn1.AllowPermissiveParsing = mode == "permissive" // set once, before any parsing
	cp := loadCorpus(repoDir())
	buildEntries(cp.issuer, cp.leaf)
	w := &worker{mode: mode, prog: mapProgress(os.Getenv("C01_SHM")), out: bufio.NewWriterSize(os.Stdout, 1<<16),
		bestLen: map[string]int{}, units: buildUnits(quick, cp)}
	w.initClasses()
	if ms, err := strconv.ParseInt(os.Getenv("C01_DEADLINE_MS"), 10, 64); err == nil {
		w.deadline = time.UnixMilli(ms)
	} else {
		w.deadline = time.Now().Add(24 * time.Hour)
	}
	go w.watchdog()
	w.send(msg{T: "ready", Units: len(w.units)})
	sc := bufio.NewScanner(os.Stdin)
	for sc.Scan() {
		f := strings.Fields(sc.Text())
		if len(f) == 0 {
			continue
		}
		if f[0] == "quit" {
			break
		}
		if f[0] == "runname" && len(f) >= 2 { // development aid: run the first unit whose name contains f[1]
			for i := range w.units {
				if strings.Contains(w.units[i].name, f[1]) {
					w.runUnit(i, 0, 0, map[int]bool{})
					break
				}
			}
			continue
		}
		if f[0] != "run" || len(f) < 4 {
			continue
		}
		uid, _ := strconv.Atoi(f[1])
		fromItem, _ := strconv.Atoi(f[2])
		fromEntry, _ := strconv.Atoi(f[3])
		disabled := map[int]bool{}
		if len(f) > 4 {
			for _, s := range strings.Split(f[4], ",") {
				if k, err := strconv.Atoi(s); err == nil {
					disabled[k] = true
				}
			}
		}
		if uid < 0 || uid >= len(w.units) {
			w.send(msg{T: "done", Unit: uid, Partial: true})
			continue
		}
		w.runUnit(uid, fromItem, fromEntry, disabled)
	}
	if profiling {
		pprof.StopCPUProfile()
	}
}

// watchdog: soft per-input limit. A call that has not returned after 10 s is
// reported as a SUSPECT (never a verdict) and the worker gives up its process;
// the parent re-runs the input three times in isolation with 60 s each.
func (w *worker) watchdog() {
	last := int64(-1)
	since := time.Now()
	for {
		time.Sleep(200 * time.Millisecond)
		s := atomic.LoadInt64(&w.prog.seq)
		if s != last || atomic.LoadInt64(&w.prog.inEval) == 0 {
			last, since = s, time.Now()
			continue
		}
		if time.Since(since) >= softWatchdog {
			w.send(msg{T: "suspect", Unit: int(atomic.LoadInt64(&w.prog.unit)), Item: atomic.LoadInt64(&w.prog.item), Entry: atomic.LoadInt64(&w.prog.entry),
				Why: fmt.Sprintf("no return within %v (soft watchdog)", softWatchdog)})
			os.Exit(3)
		}
	}
}

type batchRec struct {
	item     int
	off, n   int
	desc     string
	fromHere int // first entry position to evaluate for this item
}

func (w *worker) runUnit(uid, fromItem, fromEntry int, disabled map[int]bool) {
	u := &w.units[uid]
	t0 := time.Now()
	res := msg{T: "done", Unit: uid, Hist: map[string]int64{}, EntryOK: map[string]int64{}, EntryErr: map[string]int64{}, ViolCount: map[string]int64{}}
	nE := len(u.entries)
	okCnt := make([]int64, nE)
	errCnt := make([]int64, nE)
	var ms runtime.MemStats
	var arena []byte
	var batch []batchRec
	var batchStart uint64
	h := uint64(1469598103934665603) // FNV-1a over all inputs: parent compares the two modes
	item := -1

	report := func(sig string, wt witness) {
		res.ViolCount[sig]++
		if best, ok := w.bestLen[sig]; ok && best <= wt.InputLen {
			return
		}
		w.bestLen[sig] = wt.InputLen
		w.send(msg{T: "viol", Sig: sig, W: &wt, Unit: uid})
	}

	// exact per-call measurement of every (item, entry) of a batch whose total
	// allocation exceeded the smallest possible per-call bound.
	remeasure := func() {
		for _, r := range batch {
			in := arena[r.off : r.off+r.n]
			var tbs []byte
			tbsDone := false
			for k := r.fromHere; k < nE; k++ {
				ei := u.entries[k]
				if disabled[ei] {
					continue
				}
				e := &entries[ei]
				input := in
				if e.part == "tbs" {
					if !tbsDone {
						tbs, tbsDone = firstElement(in), true
					}
					if tbs == nil {
						continue
					}
					input = tbs
				}
				w.prog.item = int64(r.item)
				w.prog.entry = int64(k)
				runtime.ReadMemStats(&ms)
				before := ms.TotalAlloc
				w.prog.seq++
				w.prog.inEval = 1
				evalOnce(e, input)
				w.prog.inEval = 0
				runtime.ReadMemStats(&ms)
				d := ms.TotalAlloc - before
				res.Remeasure++
				if d > res.MaxAlloc {
					res.MaxAlloc = d
				}
				if d > allocBound(len(input)) {
					report(fmt.Sprintf("alloc@%s: TotalAlloc delta > 64 MiB + 4096*len(input) [%s]", e.name, w.mode),
						mkWitness(e.name, w.mode, u.name, r.item, r.desc, input, fmt.Sprintf("allocated %d bytes for %d input bytes (bound %d)", d, len(input), allocBound(len(input)))))
				}
			}
		}
	}
	// adaptive batch size: a unit whose calls allocate megabytes each (still
	// within the bound) would otherwise be re-measured call by call all the time
	batchMax, clean := 256, 0
	flush := func() {
		if len(batch) == 0 {
			return
		}
		runtime.ReadMemStats(&ms)
		if ms.TotalAlloc-batchStart > allocBase {
			remeasure()
			clean = 0
			if batchMax > 1 {
				batchMax /= 2
			}
		} else if clean++; clean >= 8 && batchMax < 256 {
			batchMax, clean = batchMax*2, 0
		}
		batch = batch[:0]
		arena = arena[:0]
	}

	active := make([]bool, nE)
	isTBS := make([]bool, nE)
	famOf := make([]uint64, nE)
	for k, ei := range u.entries {
		active[k] = !disabled[ei]
		isTBS[k] = entries[ei].part == "tbs"
		famOf[k] = uint64(w.famID(entries[ei].fam)) << 32
	}
	hist := map[uint64]int64{}
	w.prog.unit = int64(uid)
	u.gen(func(desc string, in []byte) bool {
		item++
		for _, b := range in {
			h = (h ^ uint64(b)) * 1099511628211
		}
		h = (h ^ uint64(len(in)+1)) * 1099511628211
		if item < fromItem {
			return true
		}
		if item&127 == 0 && time.Now().After(w.deadline) {
			res.Partial = true
			return false
		}
		if len(batch) == 0 {
			runtime.ReadMemStats(&ms)
			batchStart = ms.TotalAlloc
		}
		first := 0
		if item == fromItem {
			first = fromEntry
		}
		off := len(arena)
		arena = append(arena, in...)
		in = arena[off : off+len(in)] // stable copy: generators reuse their buffer
		batch = append(batch, batchRec{item: item, off: off, n: len(in), desc: desc, fromHere: first})
		res.Items++
		var tbs []byte
		tbsDone := false
		accepted := false
		w.prog.item = int64(item)
		for k := first; k < nE; k++ {
			if !active[k] {
				continue
			}
			e := &entries[u.entries[k]]
			input := in
			if isTBS[k] {
				if !tbsDone {
					tbs, tbsDone = firstElement(in), true
				}
				if tbs == nil {
					continue
				}
				input = tbs
			}
			w.prog.entry = int64(k)
			w.prog.seq++
			w.prog.inEval = 1
			err, nilnil, panicked, pmsg, site := evalOnce(e, input)
			w.prog.inEval = 0
			res.Evals++
			switch {
			case panicked:
				if site == "" {
					site = e.name
				}
				report(fmt.Sprintf("panic@%s: %s [%s]", site, ev.MsgClass(pmsg), w.mode),
					mkWitness(e.name, w.mode, u.name, item, desc, input, "panic: "+pmsg))
				hist[famOf[k]|clsPanic]++
			case nilnil:
				report(fmt.Sprintf("nil-value-and-nil-error@%s [%s]", e.name, w.mode),
					mkWitness(e.name, w.mode, u.name, item, desc, input, "returned neither a value nor an error"))
				hist[famOf[k]|clsNilNil]++
			case err == nil:
				okCnt[k]++
				if e.fam != "cryptobyte" { // fixed-width readers accept almost anything: not "non-trivial"
					accepted = true
				}
				hist[famOf[k]|clsOK]++
			default:
				errCnt[k]++
				hist[famOf[k]|uint64(w.classID(err))]++
			}
		}
		if accepted {
			res.Accepted++
		}
		if len(batch) >= batchMax || len(arena) > 2<<20 {
			flush()
		}
		return true
	})
	flush()
	for k, n := range hist {
		res.Hist[w.famNames[k>>32]+"/"+w.classNames[uint32(k)]] += n
	}
	for k, ei := range u.entries {
		if okCnt[k] > 0 {
			res.EntryOK[entries[ei].name] = okCnt[k]
		}
		if errCnt[k] > 0 {
			res.EntryErr[entries[ei].name] = errCnt[k]
		}
	}
	if fromItem == 0 && fromEntry == 0 && !res.Partial {
		res.Csum = strconv.FormatUint(h, 16)
	}
	res.Millis = time.Since(t0).Milliseconds()
	w.send(res)
}

// ---------------------------------------------------------------------------
// isolation child: one entry, one input, exact measurement, nothing else.

type singleReq struct {
	Entry    string `json:"entry"`
	Mode     string `json:"mode"`
	InputHex string `json:"input_hex"`
}

type singleRes struct {
	Returned bool   `json:"returned"`
	Panicked bool   `json:"panicked"`
	PanicMsg string `json:"panic_msg,omitempty"`
	Site     string `json:"site,omitempty"`
	NilNil   bool   `json:"nilnil"`
	Err      string `json:"err,omitempty"`
	Alloc    uint64 `json:"alloc"`
	Millis   int64  `json:"millis"`
}

func singleMain() {
	var req singleReq
	if err := json.NewDecoder(os.Stdin).Decode(&req); err != nil {
		fmt.Fprintln(os.Stderr, "single: bad request:", err)
		os.Exit(4)
	}
	setLimits()
	zasn1.AllowPermissiveParsing = req.Mode == "permissive"
	cp := &corpus{}
	mintOnly(cp)
	buildEntries(cp.issuer, cp.leaf)
	ei, ok := entryByID[req.Entry]
	if !ok {
		fmt.Fprintln(os.Stderr, "single: unknown entry", req.Entry)
		os.Exit(4)
	}
	in := unhex(req.InputHex)
	var ms runtime.MemStats
	runtime.ReadMemStats(&ms)
	before := ms.TotalAlloc
	t0 := time.Now()
	err, nilnil, panicked, pmsg, site := evalOnce(&entries[ei], in)
	el := time.Since(t0)
	runtime.ReadMemStats(&ms)
	r := singleRes{Returned: true, Panicked: panicked, PanicMsg: pmsg, Site: site, NilNil: nilnil, Alloc: ms.TotalAlloc - before, Millis: el.Milliseconds()}
	if err != nil {
		r.Err = err.Error()
	}
	json.NewEncoder(os.Stdout).Encode(r)
}
