package main

import (
	"bytes"
	"crypto"
	"encoding/json"
	"errors"
	"math/big"
	"time"

	"github.com/zmap/zcrypto/cryptobyte"
	cbasn1 "github.com/zmap/zcrypto/cryptobyte/asn1"
	"github.com/zmap/zcrypto/ct"
	ctasn1 "github.com/zmap/zcrypto/ct/asn1"
	ctx509 "github.com/zmap/zcrypto/ct/x509"
	zasn1 "github.com/zmap/zcrypto/encoding/asn1"
	zrsa "github.com/zmap/zcrypto/rsa"
	"github.com/zmap/zcrypto/tls"
	"github.com/zmap/zcrypto/x509"
	xct "github.com/zmap/zcrypto/x509/ct"
	"github.com/zmap/zcrypto/x509/pkix"
	"github.com/zmap/zcrypto/x509/revocation/google"
	"github.com/zmap/zcrypto/x509/revocation/microsoft"
	"github.com/zmap/zcrypto/x509/revocation/mozilla"
	"github.com/zmap/zcrypto/x509/revocation/ocsp"
	"verifmc/internal/fx"
)

// An entry is one zcrypto entry point that decodes untrusted bytes. f returns
// the error of the call (errRejected for bool-returning readers that said
// false) and nilnil=true when an API that promises "value or error" returned
// neither.
type entry struct {
	name string
	fam  string // family: decides which generators feed it and the outcome-class prefix
	part string // "" = the generated input itself, "tbs" = first element of the outer SEQUENCE of the input
	f    func(in []byte) (err error, nilnil bool)
}

var errRejected = errors.New("rejected (reader returned false)")

// taggedStruct exercises the tag/optional/default/explicit/set machinery.
type taggedStruct struct {
	A int              `asn1:"explicit,tag:0,optional,default:1"`
	B []byte           `asn1:"tag:1,optional"`
	C zasn1.RawValue   `asn1:"optional"`
	D string           `asn1:"utf8,optional"`
	E []int            `asn1:"set,optional"`
	F zasn1.Flag       `asn1:"tag:2,optional"`
	G zasn1.Enumerated `asn1:"optional"`
	T time.Time        `asn1:"generalized,optional"`
	H zasn1.BitString  `asn1:"optional,tag:3"`
}

// explicitStruct: a mandatory EXPLICIT member followed by an optional one.
type explicitStruct struct {
	A int    `asn1:"explicit,tag:0"`
	B []byte `asn1:"optional,explicit,tag:1"`
}

func isNil(v any) bool { return v == nil }

var (
	entries   []entry
	entryByID = map[string]int{}
)

func addEntry(e entry) {
	entryByID[e.name] = len(entries)
	entries = append(entries, e)
}

func entriesOf(fam string, part string) []int {
	var out []int
	for i, e := range entries {
		if e.fam == fam && e.part == part {
			out = append(out, i)
		}
	}
	return out
}

func famEntries(fam string) []int {
	var out []int
	for i, e := range entries {
		if e.fam == fam {
			out = append(out, i)
		}
	}
	return out
}

// rsaCase is the "input" of the rsa entries: a constructed public key plus
// signature / digest shapes, serialised as JSON so that every entry has the
// same func([]byte) shape and witnesses are uniform.
type rsaCase struct {
	N    string `json:"n"` // decimal
	E    string `json:"e"`
	Sig  string `json:"sig"` // hex
	Hash int    `json:"hash"`
	DLen int    `json:"dlen"`
}

func (rc rsaCase) key() (*zrsa.PublicKey, []byte, []byte, bool) {
	n, ok1 := new(big.Int).SetString(rc.N, 10)
	e, ok2 := new(big.Int).SetString(rc.E, 10)
	if !ok1 || !ok2 {
		return nil, nil, nil, false
	}
	sig := unhex(rc.Sig)
	return &zrsa.PublicKey{N: n, E: e}, sig, make([]byte, rc.DLen), true
}

var errBadCase = errors.New("harness: undecodable model case")

func buildEntries(ocspIssuer, ocspCert *x509.Certificate) {
	if entries != nil {
		return
	}
	// ---- asn1.Unmarshal into 14 target types
	un := func(name string, mk func() any) {
		addEntry(entry{name: "asn1.Unmarshal(" + name + ")", fam: "asn1", f: func(in []byte) (error, bool) {
			_, err := zasn1.Unmarshal(in, mk())
			return err, false
		}})
	}
	un("int", func() any { return new(int) })
	un("int64", func() any { return new(int64) })
	un("*big.Int", func() any { return new(*big.Int) })
	un("bool", func() any { return new(bool) })
	un("string", func() any { return new(string) })
	un("[]byte", func() any { return new([]byte) })
	un("ObjectIdentifier", func() any { return new(zasn1.ObjectIdentifier) })
	un("BitString", func() any { return new(zasn1.BitString) })
	un("time.Time", func() any { return new(time.Time) })
	un("RawValue", func() any { return new(zasn1.RawValue) })
	un("interface{}", func() any { return new(any) })
	un("pkix.RDNSequence", func() any { return new(pkix.RDNSequence) })
	un("[]pkix.Extension", func() any { return new([]pkix.Extension) })
	un("taggedStruct", func() any { return new(taggedStruct) })
	un("explicitStruct", func() any { return new(explicitStruct) })
	// the CT fork of the decoder (ct/asn1, used by ct/x509) is a separate code base
	ctun := func(name string, mk func() any) {
		addEntry(entry{name: "ct/asn1.Unmarshal(" + name + ")", fam: "asn1", f: func(in []byte) (error, bool) {
			_, err := ctasn1.Unmarshal(in, mk())
			return err, false
		}})
	}
	ctun("explicitStruct", func() any { return new(explicitStruct) })
	ctun("RawValue", func() any { return new(ctasn1.RawValue) })
	ctun("[]int", func() any { return new([]int) })

	// ---- cryptobyte readers
	cb := func(name string, f func(s *cryptobyte.String) bool) {
		addEntry(entry{name: "cryptobyte." + name, fam: "cryptobyte", f: func(in []byte) (error, bool) {
			s := cryptobyte.String(in)
			if !f(&s) {
				return errRejected, false
			}
			return nil, false
		}})
	}
	cb("ReadASN1Boolean", func(s *cryptobyte.String) bool { var v bool; return s.ReadASN1Boolean(&v) })
	cb("ReadASN1Integer(*int64)", func(s *cryptobyte.String) bool { var v int64; return s.ReadASN1Integer(&v) })
	cb("ReadASN1Integer(*int8)", func(s *cryptobyte.String) bool { var v int8; return s.ReadASN1Integer(&v) })
	cb("ReadASN1Integer(*uint64)", func(s *cryptobyte.String) bool { var v uint64; return s.ReadASN1Integer(&v) })
	cb("ReadASN1Integer(*big.Int)", func(s *cryptobyte.String) bool { return s.ReadASN1Integer(new(big.Int)) })
	cb("ReadASN1Int64WithTag", func(s *cryptobyte.String) bool {
		var v int64
		return s.ReadASN1Int64WithTag(&v, cbasn1.Tag(0).ContextSpecific())
	})
	cb("ReadASN1Enum", func(s *cryptobyte.String) bool { var v int; return s.ReadASN1Enum(&v) })
	cb("ReadASN1ObjectIdentifier", func(s *cryptobyte.String) bool {
		var v zasn1.ObjectIdentifier
		return s.ReadASN1ObjectIdentifier(&v)
	})
	cb("ReadASN1GeneralizedTime", func(s *cryptobyte.String) bool { var v time.Time; return s.ReadASN1GeneralizedTime(&v) })
	cb("ReadASN1UTCTime", func(s *cryptobyte.String) bool { var v time.Time; return s.ReadASN1UTCTime(&v) })
	cb("ReadASN1BitString", func(s *cryptobyte.String) bool { var v zasn1.BitString; return s.ReadASN1BitString(&v) })
	cb("ReadASN1BitStringAsBytes", func(s *cryptobyte.String) bool { var v []byte; return s.ReadASN1BitStringAsBytes(&v) })
	cb("ReadASN1Bytes", func(s *cryptobyte.String) bool { var v []byte; return s.ReadASN1Bytes(&v, cbasn1.OCTET_STRING) })
	cb("ReadASN1+Element", func(s *cryptobyte.String) bool {
		t := *s
		var a, b cryptobyte.String
		r1 := s.ReadASN1(&a, cbasn1.SEQUENCE)
		r2 := t.ReadASN1Element(&b, cbasn1.SEQUENCE)
		return r1 || r2
	})
	cb("ReadAnyASN1+Element", func(s *cryptobyte.String) bool {
		t := *s
		var a, b cryptobyte.String
		var tg cbasn1.Tag
		r1 := s.ReadAnyASN1(&a, &tg)
		r2 := t.ReadAnyASN1Element(&b, &tg)
		return r1 || r2
	})
	cb("Peek/SkipASN1", func(s *cryptobyte.String) bool {
		p := s.PeekASN1Tag(cbasn1.INTEGER)
		return s.SkipASN1(cbasn1.INTEGER) || p
	})
	cb("ReadOptionalASN1+Skip", func(s *cryptobyte.String) bool {
		t := *s
		var a cryptobyte.String
		var present bool
		r1 := s.ReadOptionalASN1(&a, &present, cbasn1.Tag(0).ContextSpecific().Constructed())
		r2 := t.SkipOptionalASN1(cbasn1.Tag(0).ContextSpecific().Constructed())
		return r1 && r2
	})
	cb("ReadOptionalASN1Integer", func(s *cryptobyte.String) bool {
		t := *s
		var v int64
		r1 := s.ReadOptionalASN1Integer(&v, cbasn1.Tag(0).ContextSpecific().Constructed(), int64(7))
		r2 := t.ReadOptionalASN1Integer(new(big.Int), cbasn1.Tag(0).ContextSpecific().Constructed(), big.NewInt(7))
		return r1 && r2
	})
	cb("ReadOptionalASN1OctetString", func(s *cryptobyte.String) bool {
		var v []byte
		var present bool
		return s.ReadOptionalASN1OctetString(&v, &present, cbasn1.Tag(1).ContextSpecific().Constructed())
	})
	cb("ReadOptionalASN1Boolean", func(s *cryptobyte.String) bool { var v bool; return s.ReadOptionalASN1Boolean(&v, true) })
	cb("ReadUint8/16/24/32", func(s *cryptobyte.String) bool {
		a, b, c, d := *s, *s, *s, *s
		var u8 uint8
		var u16 uint16
		var u24, u32 uint32
		r := a.ReadUint8(&u8)
		r = b.ReadUint16(&u16) || r
		r = c.ReadUint24(&u24) || r
		r = d.ReadUint32(&u32) || r
		return r
	})
	cb("ReadUint8/16/24LengthPrefixed", func(s *cryptobyte.String) bool {
		a, b, c := *s, *s, *s
		var o cryptobyte.String
		r := a.ReadUint8LengthPrefixed(&o)
		r = b.ReadUint16LengthPrefixed(&o) || r
		r = c.ReadUint24LengthPrefixed(&o) || r
		return r
	})
	cb("ReadBytes/CopyBytes/Skip", func(s *cryptobyte.String) bool {
		if len(*s) == 0 {
			return false
		}
		n := int((*s)[0])
		a, b, c, d := *s, *s, *s, *s
		var o []byte
		r := a.ReadBytes(&o, n)
		r = b.CopyBytes(make([]byte, n&7)) || r
		r = c.Skip(n) || r
		r = d.Skip(-n) || r
		return r
	})

	// ---- certificates
	addEntry(entry{name: "x509.ParseCertificate", fam: "cert", f: func(in []byte) (error, bool) {
		c, err := x509.ParseCertificate(in)
		return err, c == nil && err == nil
	}})
	addEntry(entry{name: "x509.ParseCertificates", fam: "cert", f: func(in []byte) (error, bool) {
		_, err := x509.ParseCertificates(in) // an empty list for empty input is a value
		return err, false
	}})
	addEntry(entry{name: "ct/x509.ParseCertificate", fam: "cert", f: func(in []byte) (error, bool) {
		c, err := ctx509.ParseCertificate(in)
		return err, c == nil && err == nil
	}})
	addEntry(entry{name: "ct/x509.ParseCertificates", fam: "cert", f: func(in []byte) (error, bool) {
		_, err := ctx509.ParseCertificates(in)
		return err, false
	}})
	addEntry(entry{name: "x509.ParseTBSCertificate", fam: "cert", part: "tbs", f: func(in []byte) (error, bool) {
		c, err := x509.ParseTBSCertificate(in)
		return err, c == nil && err == nil
	}})
	addEntry(entry{name: "ct/x509.ParseTBSCertificate", fam: "cert", part: "tbs", f: func(in []byte) (error, bool) {
		c, err := ctx509.ParseTBSCertificate(in)
		return err, c == nil && err == nil
	}})
	// ---- public keys
	addEntry(entry{name: "x509.ParsePKIXPublicKey", fam: "spki", f: func(in []byte) (error, bool) {
		k, err := x509.ParsePKIXPublicKey(in)
		return err, isNil(k) && err == nil
	}})
	addEntry(entry{name: "ct/x509.ParsePKIXPublicKey", fam: "spki", f: func(in []byte) (error, bool) {
		k, err := ctx509.ParsePKIXPublicKey(in)
		return err, isNil(k) && err == nil
	}})
	// ---- CSR
	addEntry(entry{name: "x509.ParseCertificateRequest", fam: "csr", f: func(in []byte) (error, bool) {
		c, err := x509.ParseCertificateRequest(in)
		return err, c == nil && err == nil
	}})
	// ---- CRLs
	addEntry(entry{name: "x509.ParseCRL", fam: "crl", f: func(in []byte) (error, bool) {
		c, err := x509.ParseCRL(in)
		return err, c == nil && err == nil
	}})
	addEntry(entry{name: "x509.ParseDERCRL", fam: "crl", f: func(in []byte) (error, bool) {
		c, err := x509.ParseDERCRL(in)
		return err, c == nil && err == nil
	}})
	addEntry(entry{name: "x509.ParseRevocationList", fam: "crl", f: func(in []byte) (error, bool) {
		c, err := x509.ParseRevocationList(in)
		return err, c == nil && err == nil
	}})
	addEntry(entry{name: "ct/x509.ParseCRL", fam: "crl", f: func(in []byte) (error, bool) {
		c, err := ctx509.ParseCRL(in)
		return err, c == nil && err == nil
	}})
	addEntry(entry{name: "ct/x509.ParseDERCRL", fam: "crl", f: func(in []byte) (error, bool) {
		c, err := ctx509.ParseDERCRL(in)
		return err, c == nil && err == nil
	}})
	// ---- private / PKCS#1 keys
	addEntry(entry{name: "x509.ParsePKCS1PrivateKey", fam: "key", f: func(in []byte) (error, bool) {
		k, err := x509.ParsePKCS1PrivateKey(in)
		return err, k == nil && err == nil
	}})
	addEntry(entry{name: "x509.ParsePKCS1PublicKey", fam: "key", f: func(in []byte) (error, bool) {
		k, err := x509.ParsePKCS1PublicKey(in)
		return err, k == nil && err == nil
	}})
	addEntry(entry{name: "x509.ParsePKCS8PrivateKey", fam: "key", f: func(in []byte) (error, bool) {
		k, err := x509.ParsePKCS8PrivateKey(in)
		return err, isNil(k) && err == nil
	}})
	addEntry(entry{name: "x509.ParseECPrivateKey", fam: "key", f: func(in []byte) (error, bool) {
		k, err := x509.ParseECPrivateKey(in)
		return err, k == nil && err == nil
	}})
	// ---- CT structures (both ct packages)
	addEntry(entry{name: "ct.DeserializeSCT", fam: "ct", f: func(in []byte) (error, bool) {
		v, err := ct.DeserializeSCT(bytes.NewReader(in))
		return err, v == nil && err == nil
	}})
	addEntry(entry{name: "ct.UnmarshalDigitallySigned", fam: "ct", f: func(in []byte) (error, bool) {
		v, err := ct.UnmarshalDigitallySigned(bytes.NewReader(in))
		return err, v == nil && err == nil
	}})
	addEntry(entry{name: "ct.ReadMerkleTreeLeaf", fam: "ct", f: func(in []byte) (error, bool) {
		v, err := ct.ReadMerkleTreeLeaf(bytes.NewReader(in))
		return err, v == nil && err == nil
	}})
	addEntry(entry{name: "ct.UnmarshalX509ChainArray", fam: "ct", f: func(in []byte) (error, bool) {
		_, err := ct.UnmarshalX509ChainArray(in)
		return err, false
	}})
	addEntry(entry{name: "ct.UnmarshalPrecertChainArray", fam: "ct", f: func(in []byte) (error, bool) {
		_, err := ct.UnmarshalPrecertChainArray(in)
		return err, false
	}})
	addEntry(entry{name: "x509/ct.DeserializeSCT", fam: "ct", f: func(in []byte) (error, bool) {
		v, err := xct.DeserializeSCT(bytes.NewReader(in))
		return err, v == nil && err == nil
	}})
	addEntry(entry{name: "x509/ct.UnmarshalDigitallySigned", fam: "ct", f: func(in []byte) (error, bool) {
		v, err := xct.UnmarshalDigitallySigned(bytes.NewReader(in))
		return err, v == nil && err == nil
	}})
	// ---- OCSP
	addEntry(entry{name: "ocsp.ParseRequest", fam: "ocsp", f: func(in []byte) (error, bool) {
		v, err := ocsp.ParseRequest(in)
		return err, v == nil && err == nil
	}})
	addEntry(entry{name: "ocsp.ParseResponse(issuer=nil)", fam: "ocsp", f: func(in []byte) (error, bool) {
		v, err := ocsp.ParseResponse(in, nil)
		return err, v == nil && err == nil
	}})
	addEntry(entry{name: "ocsp.ParseResponse(issuer)", fam: "ocsp", f: func(in []byte) (error, bool) {
		v, err := ocsp.ParseResponse(in, ocspIssuer)
		return err, v == nil && err == nil
	}})
	addEntry(entry{name: "ocsp.ParseResponseForCert(cert,issuer)", fam: "ocsp", f: func(in []byte) (error, bool) {
		v, err := ocsp.ParseResponseForCert(in, ocspCert, ocspIssuer)
		return err, v == nil && err == nil
	}})
	// ---- browser revocation lists
	addEntry(entry{name: "google.Parse", fam: "crlset", f: func(in []byte) (error, bool) {
		v, err := google.Parse(in, "v")
		return err, v == nil && err == nil
	}})
	addEntry(entry{name: "mozilla.Parse", fam: "onecrl", f: func(in []byte) (error, bool) {
		v, err := mozilla.Parse(in)
		return err, v == nil && err == nil
	}})
	addEntry(entry{name: "microsoft.Parse", fam: "sst", f: func(in []byte) (error, bool) {
		v, err := microsoft.Parse(in)
		return err, v == nil && err == nil
	}})
	// ---- TLS handshake messages (hook in _inpkg/tls)
	for i, t := range tls.VerifC01Types() {
		i := i
		addEntry(entry{name: "tls." + t + ".unmarshal", fam: "tls", f: func(in []byte) (error, bool) {
			if !tls.VerifC01Unmarshal(i, in) {
				return errRejected, false
			}
			return nil, false
		}})
	}
	// ---- rsa public-key operations on constructed keys (input = JSON rsaCase)
	rsaEntry := func(name string, f func(pub *zrsa.PublicKey, h crypto.Hash, digest, sig []byte) (error, bool)) {
		addEntry(entry{name: name, fam: "rsa", f: func(in []byte) (error, bool) {
			var rc rsaCase
			if json.Unmarshal(in, &rc) != nil {
				return errBadCase, false
			}
			pub, sig, digest, ok := rc.key()
			if !ok {
				return errBadCase, false
			}
			return f(pub, crypto.Hash(rc.Hash), digest, sig)
		}})
	}
	rsaEntry("rsa.VerifyPKCS1v15", func(pub *zrsa.PublicKey, h crypto.Hash, digest, sig []byte) (error, bool) {
		return zrsa.VerifyPKCS1v15(pub, h, digest, sig), false
	})
	rsaEntry("rsa.VerifyPSS", func(pub *zrsa.PublicKey, h crypto.Hash, digest, sig []byte) (error, bool) {
		if h == 0 || !h.Available() {
			return errBadCase, false // the hash is chosen by the caller, not by the attacker
		}
		return zrsa.VerifyPSS(pub, h, digest, sig, &zrsa.PSSOptions{SaltLength: zrsa.PSSSaltLengthAuto}), false
	})
	rsaEntry("rsa.EncryptPKCS1v15", func(pub *zrsa.PublicKey, h crypto.Hash, digest, sig []byte) (error, bool) {
		ct, err := zrsa.EncryptPKCS1v15(fx.NewRand("c01-rsa"), pub, digest)
		return err, ct == nil && err == nil
	})
}
