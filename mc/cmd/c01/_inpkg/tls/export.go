// Compiled INTO github.com/zmap/zcrypto/tls by /verif/check (go build -overlay)
// for check C01. Thin accessors only: a constructor table for the unexported
// handshake message types and a wrapper around their unmarshal methods.
package tls

var verifC01Ctors = []struct {
	name string
	mk   func() handshakeMessage
}{
	{"clientHelloMsg", func() handshakeMessage { return new(clientHelloMsg) }},
	{"serverHelloMsg", func() handshakeMessage { return new(serverHelloMsg) }},
	{"encryptedExtensionsMsg", func() handshakeMessage { return new(encryptedExtensionsMsg) }},
	{"endOfEarlyDataMsg", func() handshakeMessage { return new(endOfEarlyDataMsg) }},
	{"keyUpdateMsg", func() handshakeMessage { return new(keyUpdateMsg) }},
	{"newSessionTicketMsgTLS13", func() handshakeMessage { return new(newSessionTicketMsgTLS13) }},
	{"certificateRequestMsgTLS13", func() handshakeMessage { return new(certificateRequestMsgTLS13) }},
	{"certificateMsg", func() handshakeMessage { return new(certificateMsg) }},
	{"certificateMsgTLS13", func() handshakeMessage { return new(certificateMsgTLS13) }},
	{"serverKeyExchangeMsg", func() handshakeMessage { return new(serverKeyExchangeMsg) }},
	{"certificateStatusMsg", func() handshakeMessage { return new(certificateStatusMsg) }},
	{"serverHelloDoneMsg", func() handshakeMessage { return new(serverHelloDoneMsg) }},
	{"clientKeyExchangeMsg", func() handshakeMessage { return new(clientKeyExchangeMsg) }},
	{"finishedMsg", func() handshakeMessage { return new(finishedMsg) }},
	{"certificateRequestMsg", func() handshakeMessage { return new(certificateRequestMsg) }},
	{"certificateVerifyMsg", func() handshakeMessage { return new(certificateVerifyMsg) }},
	{"newSessionTicketMsg", func() handshakeMessage { return new(newSessionTicketMsg) }},
	{"helloRequestMsg", func() handshakeMessage { return new(helloRequestMsg) }},
	// layout flags the connection sets from the negotiated version before it calls unmarshal (readHandshake):
	// both values of every such flag are entry points of their own
	{"certificateRequestMsg[hasSignatureAlgorithm]", func() handshakeMessage { return &certificateRequestMsg{hasSignatureAlgorithm: true} }},
	{"certificateVerifyMsg[hasSignatureAlgorithm]", func() handshakeMessage { return &certificateVerifyMsg{hasSignatureAlgorithm: true} }},
	{"sessionState", func() handshakeMessage { return new(sessionState) }},
	{"sessionStateTLS13", func() handshakeMessage { return new(sessionStateTLS13) }},
}

// VerifC01Types lists every type with an unmarshal method in
// handshake_messages.go plus the two session-state types of ticket.go.
func VerifC01Types() []string {
	out := make([]string, len(verifC01Ctors))
	for i, c := range verifC01Ctors {
		out[i] = c.name
	}
	return out
}

// VerifC01Unmarshal unmarshals data into a fresh value of the i-th type.
func VerifC01Unmarshal(i int, data []byte) bool {
	return verifC01Ctors[i].mk().unmarshal(data)
}
