package main

// Closed models for the non-DER formats (SST, CRLSet, OneCRL, CT structures)
// and for constructed RSA public keys. All of them are plain enumerations of
// small alphabets; nothing here judges anything.

import (
	"crypto"
	stdrsa "crypto/rsa"
	"encoding/base64"
	"encoding/binary"
	"encoding/hex"
	"encoding/json"
	"fmt"
	"math/big"
	"sort"
	"strings"

	"verifmc/internal/fx"
	"verifmc/internal/xgen"
)

func unhex(s string) []byte {
	b, err := hex.DecodeString(s)
	if err != nil {
		return nil
	}
	return b
}

func le32(v uint32) []byte { b := make([]byte, 4); binary.LittleEndian.PutUint32(b, v); return b }

// seqEnum enumerates all sequences of length ≤ maxLen over an alphabet of k
// symbols, calling visit with the index sequence.
func seqEnum(k, maxLen int, visit func(idx []int) bool) {
	var rec func(cur []int, l int) bool
	rec = func(cur []int, l int) bool {
		if len(cur) == l {
			return visit(cur)
		}
		for i := 0; i < k; i++ {
			if !rec(append(cur, i), l) {
				return false
			}
		}
		return true
	}
	for l := 0; l <= maxLen; l++ {
		if !rec(make([]int, 0, l), l) {
			return
		}
	}
}

// ---------------------------------------------------------------------------
// Microsoft SST (serialized certificate store)

type sstKind struct {
	name     string
	swallows bool // declares more bytes than the file holds: the reader runs into EOF, so it only makes sense as LAST entry
	huge     bool // declares ≥ 2 GiB: expected to exhaust the worker's address space
	enc      func(cert []byte) []byte
}

func sstEntry(id, format, declared uint32, value []byte) []byte {
	return append(append(append(le32(id), le32(format)...), le32(declared)...), value...)
}

func sstKinds() []sstKind {
	bad := []byte{0x30, 0x03, 0x02, 0x01}
	return []sstKind{
		{"prop", false, false, func(c []byte) []byte { return sstEntry(3, 1, 4, []byte{1, 2, 3, 4}) }},
		{"cert", false, false, func(c []byte) []byte { return sstEntry(32, 1, uint32(len(c)), c) }},
		{"cert-unparseable", false, false, func(c []byte) []byte { return sstEntry(32, 1, uint32(len(bad)), bad) }},
		{"cert-len0", false, false, func(c []byte) []byte { return sstEntry(32, 1, 0, nil) }},
		{"cert-format2", false, false, func(c []byte) []byte { return sstEntry(32, 2, uint32(len(c)), c) }},
		{"cert-len+1", true, false, func(c []byte) []byte { return sstEntry(32, 1, uint32(len(c)+1), c) }},
		{"prop-len-2^32-1", true, false, func(c []byte) []byte { return sstEntry(3, 1, 0xffffffff, []byte{1}) }},
		{"cert-len-2^20", true, false, func(c []byte) []byte { return sstEntry(32, 1, 1<<20, c) }},
		{"cert-len-2^26", true, false, func(c []byte) []byte { return sstEntry(32, 1, 1<<26, c) }},
		{"cert-len-2^31", true, true, func(c []byte) []byte { return sstEntry(32, 1, 1<<31, c) }},
		{"cert-len-2^32-1", true, true, func(c []byte) []byte { return sstEntry(32, 1, 0xffffffff, c) }},
	}
}

// sstModel enumerates entry lists: a prefix of ≤ maxLen entries whose declared
// length is honest, optionally followed by ONE entry that declares more bytes
// than follow (after it the reader is at EOF, so nothing behind it is ever
// looked at), × {end marker, none}. huge selects the lists with a ≥ 2 GiB
// declaration: they are kept in a separate unit because each of them may cost
// a worker process.
func sstModel(cert []byte, maxLen int, huge bool) xgen.Enum {
	kinds := sstKinds()
	var honest, swallow []int
	for i, k := range kinds {
		if k.swallows {
			swallow = append(swallow, i)
		} else {
			honest = append(honest, i)
		}
	}
	return func(visit func(string, []byte) bool) {
		emit := func(idx []int) bool {
			names := make([]string, len(idx))
			for i, k := range idx {
				names[i] = kinds[k].name
			}
			for _, end := range []bool{true, false} {
				b := append(le32(0), []byte("CERT")...)
				for _, k := range idx {
					b = append(b, kinds[k].enc(cert)...)
				}
				d := "sst[" + strings.Join(names, ",") + "]"
				if end {
					b = append(b, make([]byte, 12)...)
					d += "+end"
				}
				if !visit(d, b) {
					return false
				}
			}
			return true
		}
		seqEnum(len(honest), maxLen, func(pi []int) bool {
			prefix := make([]int, len(pi))
			for i, k := range pi {
				prefix[i] = honest[k]
			}
			if !huge && !emit(prefix) {
				return false
			}
			if len(prefix) == maxLen {
				return true
			}
			for _, sw := range swallow {
				if kinds[sw].huge != huge {
					continue
				}
				if !emit(append(append([]int(nil), prefix...), sw)) {
					return false
				}
			}
			return true
		})
	}
}

// ---------------------------------------------------------------------------
// Google CRLSet

func crlsetModel(maxEntries int) xgen.Enum {
	type hdr struct {
		name string
		enc  func(body []byte) []byte
	}
	okJSON := []byte(`{"Version":0,"ContentType":"CRLSet","Sequence":7,"DeltaFrom":0,"NumParents":1,"BlockedSPKIs":["AAAA"]}`)
	le16 := func(n int) []byte { return []byte{byte(n), byte(n >> 8)} }
	hdrs := []hdr{
		{"hdr-ok", func(b []byte) []byte { return append(append(le16(len(okJSON)), okJSON...), b...) }},
		{"hdr-len>file", func(b []byte) []byte { return append(append(le16(len(okJSON)+len(b)+5), okJSON...), b...) }},
		{"hdr-len0", func(b []byte) []byte { return append(append(le16(0), okJSON...), b...) }},
		{"hdr-empty-object", func(b []byte) []byte { return append(append(le16(2), '{', '}'), b...) }},
		{"hdr-wrong-types", func(b []byte) []byte {
			j := []byte(`{"Sequence":"x","NumParents":-1,"BlockedSPKIs":[1]}`)
			return append(append(le16(len(j)), j...), b...)
		}},
	}
	type ser struct {
		name string
		b    []byte
	}
	serials := []ser{{"s0", []byte{0}}, {"s1", []byte{1, 0x7f}}, {"s20", append([]byte{20}, make([]byte, 20)...)}, {"s255short", []byte{255, 1, 2, 3}}}
	type ent struct {
		name string
		b    []byte
	}
	var ents []ent
	spki := make([]byte, 32)
	for i := range spki {
		spki[i] = byte(0xa0 + i)
	}
	for _, declared := range []uint32{0, 1, 2, 0xffffffff} {
		seqEnum(len(serials), 2, func(idx []int) bool {
			b := append(append([]byte(nil), spki...), le32(declared)...)
			n := fmt.Sprintf("n=%d", declared)
			for _, k := range idx {
				b = append(b, serials[k].b...)
				n += "," + serials[k].name
			}
			ents = append(ents, ent{n, b})
			return true
		})
	}
	ents = append(ents, ent{"spki-short", spki[:31]}, ent{"spki-only", spki})
	return func(visit func(string, []byte) bool) {
		for _, h := range hdrs {
			stop := false
			seqEnum(len(ents), maxEntries, func(idx []int) bool {
				var body []byte
				names := make([]string, len(idx))
				for i, k := range idx {
					body = append(body, ents[k].b...)
					names[i] = ents[k].name
				}
				if !visit("crlset["+h.name+"|"+strings.Join(names, "|")+"]", h.enc(body)) {
					stop = true
					return false
				}
				return true
			})
			if stop {
				return
			}
		}
	}
}

// ---------------------------------------------------------------------------
// Mozilla OneCRL

func onecrlModel(maxEntries int) xgen.Enum {
	issuer := base64.StdEncoding.EncodeToString(xgen.Seq(xgen.Set(xgen.Seq(xgen.OID(2, 5, 4, 3), xgen.UTF8("onecrl issuer")))))
	ents := []struct{ name, js string }{
		{"serial-ok", `{"schema":1527680137883,"details":{"bug":"b","who":"","why":"","name":"","created":"2018-05-30T12:35:03Z"},"enabled":true,"issuerName":"` + issuer + `","serialNumber":"AQ8=","id":"id1","last_modified":1527680138898}`},
		{"subject-ok", `{"schema":1,"details":{},"enabled":false,"subject":"` + issuer + `","pubKeyHash":"` + base64.StdEncoding.EncodeToString(make([]byte, 32)) + `","id":"id2","last_modified":2}`},
		{"null", `null`},
		{"empty-object", `{}`},
		{"issuer-bad-base64", `{"issuerName":"!!!","serialNumber":"AQ8="}`},
		{"issuer-bad-der", `{"issuerName":"MAMCAQ==","serialNumber":"AQ8="}`},
		{"subject-without-hash", `{"subject":"` + issuer + `"}`},
		{"serial-bad-base64", `{"issuerName":"` + issuer + `","serialNumber":"!!"}`},
		{"serial-only", `{"serialNumber":"AQ8="}`},
		{"created-bad", `{"issuerName":"` + issuer + `","serialNumber":"AQ8=","details":{"created":"yesterday"}}`},
		{"schema-string", `{"issuerName":"` + issuer + `","serialNumber":"AQ8=","schema":"x"}`},
		{"array", `[]`},
		{"number", `7`},
	}
	wraps := []struct {
		name string
		enc  func(list string) string
	}{
		{"data", func(l string) string { return `{"data":[` + l + `]}` }},
		{"data-null", func(l string) string { return `{"data":null,"x":[` + l + `]}` }},
		{"top-array", func(l string) string { return `[` + l + `]` }},
		{"data-object", func(l string) string { return `{"data":{"0":[` + l + `]}}` }},
		{"data-twice", func(l string) string { return `{"data":[],"data":[` + l + `]}` }},
	}
	return func(visit func(string, []byte) bool) {
		for _, w := range wraps {
			stop := false
			seqEnum(len(ents), maxEntries, func(idx []int) bool {
				parts := make([]string, len(idx))
				names := make([]string, len(idx))
				for i, k := range idx {
					parts[i], names[i] = ents[k].js, ents[k].name
				}
				if !visit("onecrl["+w.name+"|"+strings.Join(names, ",")+"]", []byte(w.enc(strings.Join(parts, ",")))) {
					stop = true
					return false
				}
				return true
			})
			if stop {
				return
			}
		}
	}
}

// jsonMutations: every node of a JSON document replaced by each of a fixed
// list of values, and every object member deleted.
func jsonMutations(doc []byte) xgen.Enum {
	return func(visit func(string, []byte) bool) {
		var root any
		if json.Unmarshal(doc, &root) != nil {
			return
		}
		repl := []any{nil, map[string]any{}, []any{}, "", 0, "!!", true, -1.5}
		type step struct {
			key string
			idx int
		}
		var paths [][]step
		var walk func(v any, p []step)
		walk = func(v any, p []step) {
			paths = append(paths, append([]step(nil), p...))
			switch t := v.(type) {
			case map[string]any:
				keys := make([]string, 0, len(t))
				for k := range t {
					keys = append(keys, k)
				}
				sort.Strings(keys)
				for _, k := range keys {
					walk(t[k], append(p, step{key: k, idx: -1}))
				}
			case []any:
				for i := range t {
					walk(t[i], append(p, step{idx: i}))
				}
			}
		}
		walk(root, nil)
		var set func(v any, p []step, nv any, del bool) any
		set = func(v any, p []step, nv any, del bool) any {
			if len(p) == 0 {
				return nv
			}
			switch t := v.(type) {
			case map[string]any:
				c := make(map[string]any, len(t))
				for k, x := range t {
					c[k] = x
				}
				if len(p) == 1 && del {
					delete(c, p[0].key)
				} else {
					c[p[0].key] = set(t[p[0].key], p[1:], nv, del)
				}
				return c
			case []any:
				c := append([]any(nil), t...)
				if len(p) == 1 && del {
					return append(c[:p[0].idx], c[p[0].idx+1:]...)
				}
				c[p[0].idx] = set(t[p[0].idx], p[1:], nv, del)
				return c
			}
			return v
		}
		for _, p := range paths {
			ps := ""
			for _, s := range p {
				if s.idx >= 0 {
					ps += fmt.Sprintf("[%d]", s.idx)
				} else {
					ps += "." + s.key
				}
			}
			for i, r := range repl {
				b, err := json.Marshal(set(root, p, r, false))
				if err != nil {
					continue
				}
				if !visit(fmt.Sprintf("json%s:=alt%d", ps, i), b) {
					return
				}
			}
			if len(p) > 0 {
				b, err := json.Marshal(set(root, p, nil, true))
				if err == nil && !visit("json"+ps+":delete", b) {
					return
				}
			}
		}
	}
}

// ---------------------------------------------------------------------------
// CT structures (RFC 6962 §3.2 – 3.4), hand-serialised seeds

func ctSeeds(cert, tbs []byte) map[string][]byte {
	u24 := func(n int) []byte { return []byte{byte(n >> 16), byte(n >> 8), byte(n)} }
	u16 := func(n int) []byte { return []byte{byte(n >> 8), byte(n)} }
	logID := make([]byte, 32)
	for i := range logID {
		logID[i] = byte(i)
	}
	ts := []byte{0, 0, 1, 0x60, 1, 2, 3, 4}
	sig := make([]byte, 71)
	for i := range sig {
		sig[i] = byte(0x30 + i)
	}
	ds := append([]byte{4, 3}, append(u16(len(sig)), sig...)...)
	var sct []byte
	sct = append(sct, 0)
	sct = append(sct, logID...)
	sct = append(sct, ts...)
	sct = append(sct, u16(3)...)
	sct = append(sct, 9, 9, 9)
	sct = append(sct, ds...)
	leafX := append([]byte{0, 0}, ts...)
	leafX = append(leafX, 0, 0)
	leafX = append(leafX, u24(len(cert))...)
	leafX = append(leafX, cert...)
	leafX = append(leafX, u16(0)...)
	leafP := append([]byte{0, 0}, ts...)
	leafP = append(leafP, 0, 1)
	leafP = append(leafP, logID...)
	leafP = append(leafP, u24(len(tbs))...)
	leafP = append(leafP, tbs...)
	leafP = append(leafP, u16(2)...)
	leafP = append(leafP, 7, 7)
	one := append(u24(len(cert)), cert...)
	chain := append(u24(2*len(one)), append(append([]byte(nil), one...), one...)...)
	pre := append(append([]byte(nil), one...), chain...)
	return map[string][]byte{"ct:sct": sct, "ct:digitally-signed": ds, "ct:leaf-x509": leafX, "ct:leaf-precert": leafP,
		"ct:x509-chain": chain, "ct:precert-chain": pre}
}

// ---------------------------------------------------------------------------
// RSA public-key operations on constructed keys: full product of small alphabets.

func rsaCases() xgen.Enum {
	priv := fx.StdRSA("rsa1024")
	N := priv.N
	ns := []struct {
		name string
		v    *big.Int
	}{{"N", N}, {"0", big.NewInt(0)}, {"-N", new(big.Int).Neg(N)}, {"1", big.NewInt(1)}, {"3", big.NewInt(3)},
		{"65537", big.NewInt(65537)}, {"N-1(even)", new(big.Int).Sub(N, big.NewInt(1))}}
	es := []struct {
		name string
		v    *big.Int
	}{{"65537", big.NewInt(65537)}, {"0", big.NewInt(0)}, {"-1", big.NewInt(-1)}, {"-65537", big.NewInt(-65537)},
		{"2^40", new(big.Int).Lsh(big.NewInt(1), 40)}, {"1", big.NewInt(1)}, {"3", big.NewInt(3)}}
	zero32 := make([]byte, 32)
	valid, err := stdrsa.SignPKCS1v15(nil, priv, crypto.SHA256, zero32)
	if err != nil {
		panic(err)
	}
	validPSS, err := stdrsa.SignPSS(fx.NewRand("c01-pss"), priv, crypto.SHA256, zero32, &stdrsa.PSSOptions{SaltLength: stdrsa.PSSSaltLengthEqualsHash})
	if err != nil {
		panic(err)
	}
	hashes := []struct {
		name string
		h    crypto.Hash
		size int
	}{{"sha256", crypto.SHA256, 32}, {"direct", 0, 20}, {"sha1", crypto.SHA1, 20}, {"md5sha1", crypto.MD5SHA1, 36}}
	return func(visit func(string, []byte) bool) {
		for _, n := range ns {
			k := (n.v.BitLen() + 7) / 8
			fill := func(l int, b byte) []byte {
				if l < 0 {
					l = 0
				}
				o := make([]byte, l)
				for i := range o {
					o[i] = b
				}
				return o
			}
			sigs := []struct {
				name string
				b    []byte
			}{{"zeros(k)", fill(k, 0)}, {"ff(k)", fill(k, 0xff)}, {"=|N|", new(big.Int).Abs(n.v).Bytes()}, {"empty", nil},
				{"00", []byte{0}}, {"01", []byte{1}}, {"valid-for-N", valid}, {"valid-pss-for-N", validPSS}, {"zeros(k+1)", fill(k+1, 0)}}
			for _, e := range es {
				for _, s := range sigs {
					for _, h := range hashes {
						for _, dl := range []int{h.size, 0, 31} {
							rc := rsaCase{N: n.v.String(), E: e.v.String(), Sig: hex.EncodeToString(s.b), Hash: int(h.h), DLen: dl}
							b, _ := json.Marshal(rc)
							d := fmt.Sprintf("rsa[N=%s E=%s sig=%s hash=%s dlen=%d]", n.name, e.name, s.name, h.name, dl)
							if !visit(d, b) {
								return
							}
						}
					}
				}
			}
		}
	}
}

// asn1Primitives: small valid encodings used as G-tlv seeds for the asn1 and
// cryptobyte primitive decoders.
func asn1Primitives() map[string][]byte {
	name := xgen.Seq(xgen.Set(xgen.Seq(xgen.OID(2, 5, 4, 3), xgen.UTF8("cn"))), xgen.Set(xgen.Seq(xgen.OID(2, 5, 4, 10), xgen.Printable("Org"))))
	exts := xgen.Seq(xgen.Seq(xgen.OID(2, 5, 29, 19), xgen.Bool(true), xgen.OctetString(xgen.Seq(xgen.Bool(true)))),
		xgen.Seq(xgen.OID(2, 5, 29, 14), xgen.OctetString(xgen.OctetString([]byte{1, 2, 3}))))
	tagged := xgen.Seq(xgen.Explicit(0, xgen.Int(5)), xgen.Ctx(1, false, []byte{1, 2}), xgen.Null(), xgen.UTF8("d"),
		xgen.Set(xgen.Int(1), xgen.Int(2)), xgen.Ctx(2, false, nil), xgen.TLV(0x0a, []byte{3}),
		xgen.TimeRaw(0x18, "20260115120000Z"), xgen.Ctx(3, false, []byte{0, 0xff}))
	return map[string][]byte{
		"prim:int":           xgen.Int(300),
		"prim:int-neg":       xgen.Int(-129),
		"prim:bigint":        xgen.BigInt(new(big.Int).Lsh(big.NewInt(1), 70)),
		"prim:bool":          xgen.Bool(true),
		"prim:oid":           xgen.OID(1, 2, 840, 113549, 1, 1, 11),
		"prim:oid-big-arc":   xgen.OID(2, 999, 1<<30),
		"prim:bitstring":     xgen.BitStringUnused(3, []byte{0xa8}),
		"prim:octets":        xgen.OctetString([]byte{1, 2, 3}),
		"prim:utf8":          xgen.UTF8("héllo"),
		"prim:printable":     xgen.Printable("Hello World"),
		"prim:ia5":           xgen.IA5("a@example"),
		"prim:bmp":           xgen.BMP([]byte{0, 'h', 0, 'i'}),
		"prim:utctime":       xgen.TimeRaw(0x17, "260115120000Z"),
		"prim:gentime":       xgen.TimeRaw(0x18, "20260115120000Z"),
		"prim:null":          xgen.Null(),
		"prim:enum":          xgen.TLV(0x0a, []byte{2}),
		"prim:high-tag":      []byte{0x5f, 0x21, 0x01, 0x00},
		"prim:name":          name,
		"prim:extensions":    exts,
		"prim:tagged":        tagged,
		"prim:explicit-only": xgen.Seq(xgen.Explicit(0, xgen.Int(5))),
		"prim:explicit-both": xgen.Seq(xgen.Explicit(0, xgen.Int(5)), xgen.Explicit(1, xgen.OctetString([]byte{1, 2}))),
		"prim:ctx0-int":      xgen.Explicit(0, xgen.Int(9)),
		"prim:ctx1-octets":   xgen.Explicit(1, xgen.OctetString([]byte{4, 5})),
		"prim:long-form-len": xgen.OctetString(make([]byte, 200)),
	}
}

// tlsBodies: for every handshake type byte t used by zcrypto, header(t,len)+body
// for every body of length ≤ n.
func tlsFramedBodies(n int) xgen.Enum {
	types := []byte{0, 1, 2, 4, 5, 8, 11, 12, 13, 14, 15, 16, 20, 22, 24}
	return func(visit func(string, []byte) bool) {
		for _, t := range types {
			stop := false
			xgen.AllBytes(n)(func(_ string, b []byte) bool {
				in := append([]byte{t, 0, 0, byte(len(b))}, b...)
				if !visit("", in) {
					stop = true
					return false
				}
				return true
			})
			if stop {
				return
			}
		}
	}
}
