package main

import (
	"fmt"
	"verifmc/cmd/c02/certs"
)

func main() {
	us := certs.Units(certs.DefaultConfig(true), certs.CertSeeds("/repo"))
	for i, u := range us {
		if u.Kind != "model" {
			fmt.Println(i, u.Name, len(u.Base))
		}
	}
}
