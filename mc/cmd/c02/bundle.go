package main

import (
	"bytes"
	"encoding/json"
	"fmt"
	"strings"

	"github.com/zmap/zcrypto/x509"
	"verifmc/cmd/c02/certs"
	"verifmc/internal/ev"
)

// Bundle items: x.DER is the concatenation of certificates of the bundle
// alphabet (certs/bundle.go). A certificate is the same certificate whether it
// was parsed alone or as the i-th element of a bundle: its JSON view and its
// collected names must be byte-identical to those of x509.ParseCertificate on
// the same DER, and serialising it twice must give identical bytes.

const opBundle = "ParseCertificates + json.Marshal"

type singleView struct {
	json     []byte
	err      string
	names    string
	unstable bool
}

var singleCache = map[string]*singleView{}

// single returns the JSON view and names of ParseCertificate(der), nil when
// the parser (in this mode) does not accept der.
func (r *itemRun) single(der []byte) *singleView {
	if v, ok := singleCache[string(der)]; ok {
		return v
	}
	var v *singleView
	var c *x509.Certificate
	var err error
	if p, _, _ := ev.Try(func() { c, err = x509.ParseCertificate(append([]byte(nil), der...)) }); !p && err == nil && c != nil {
		v = &singleView{}
		ok := r.try(opJSON, "single parse", func() {
			j, e := json.Marshal(c)
			v.json = j
			if e != nil {
				v.err = e.Error()
			}
			// a view that is not even stable for the single parse (reported by the stream units as
			// "json.Marshal(cert) twice: outputs differ") cannot serve as reference for the bundle comparison
			if j2, _ := json.Marshal(c); !bytes.Equal(j, j2) {
				v.unstable = true
			}
		})
		ok = ok && r.try(opNameAcc, "single parse CollectAllNames", func() {
			v.names = strings.Join(c.CollectAllNames(), "\x00")
			if strings.Join(c.CollectAllNames(), "\x00") != v.names {
				v.unstable = true
			}
		})
		if !ok {
			v = nil
		}
	}
	singleCache[string(der)] = v
	return v
}

func (h *handler) bundleItem(x *certs.ItemCtx) {
	a := x.A
	r := &itemRun{x: x}
	defer func() {
		a.Count("ops", r.ops)
		a.Count("evals", r.evals)
	}()
	parts, ok := certs.SplitBundle(x.DER)
	if !ok || len(parts) < 2 {
		x.Violation("harness: a bundle item is not a concatenation of DER elements", opBundle, "")
		return
	}
	singles := make([]*singleView, len(parts))
	for i, p := range parts {
		if singles[i] = r.single(p); singles[i] == nil {
			a.Outcome("bundle:an element is not accepted by ParseCertificate in this mode (not a subject)", 1)
			return
		}
	}
	var bundle []*x509.Certificate
	var err error
	if p, msg, site := ev.Try(func() { bundle, err = x509.ParseCertificates(x.DER) }); p {
		a.Outcome("bundle:ParseCertificates PANIC (C01's subject)@"+site+": "+shortClass(msg), 1)
		return
	}
	r.ops++
	if err != nil || len(bundle) != len(parts) {
		// which certificates a bundle parser accepts is not C02's subject (C06 judges the entry points)
		a.Outcome(fmt.Sprintf("bundle:ParseCertificates returns %d certificates, err=%v, for %d accepted elements", len(bundle), err != nil, len(parts)), 1)
		return
	}
	a.Accepted++
	a.Outcome(fmt.Sprintf("bundle:accept (%d certificates)", len(parts)), 1)
	for i, c := range bundle {
		pos := "first position"
		if i > 0 {
			pos = "later position"
		}
		if c == nil {
			x.Violation("ParseCertificates returned a nil certificate without an error", opBundle, fmt.Sprintf("position %d", i+1))
			continue
		}
		var j1, j2 []byte
		var e1, e2 error
		if !r.try(opJSON, fmt.Sprintf("bundle position %d first", i+1), func() { j1, e1 = json.Marshal(c) }) ||
			!r.try(opJSON, fmt.Sprintf("bundle position %d second", i+1), func() { j2, e2 = json.Marshal(c) }) {
			continue
		}
		r.evals += 2
		errs := func(e error) string {
			if e == nil {
				return ""
			}
			return e.Error()
		}
		switch {
		case errs(e1) != errs(e2) || !bytes.Equal(j1, j2):
			x.Violation("json.Marshal(cert) twice: outputs differ"+diffClass(j1, j2), opTable[opJSON], fmt.Sprintf("certificate %d of a bundle: %s", i+1, firstDiff(j1, j2)))
		case singles[i].unstable:
			a.Outcome("bundle:the single parse itself does not serialise deterministically (reported by the stream units)", 1)
			continue
		case errs(e1) != singles[i].err || !bytes.Equal(j1, singles[i].json):
			// one signature per position class: the set of differing keys depends on the neighbour and goes to the witness
			x.Violation(fmt.Sprintf("json.Marshal of a certificate of ParseCertificates(bundle), %s, differs from json.Marshal(ParseCertificate(same DER))", pos),
				opBundle, fmt.Sprintf("certificate %d of %d differs%s: %s", i+1, len(parts), diffClass(singles[i].json, j1), firstDiff(singles[i].json, j1)))
			a.Outcome("bundle:JSON DIFFERS from the single parse", 1)
		default:
			a.Outcome("bundle:JSON identical to the single parse", 1)
		}
		r.try(opNameAcc, "bundle CollectAllNames", func() {
			r.evals++
			if n := strings.Join(c.CollectAllNames(), "\x00"); n != singles[i].names {
				x.Violation("CollectAllNames of a certificate of ParseCertificates(bundle) differs from that of ParseCertificate(same DER)", opBundle,
					fmt.Sprintf("certificate %d of %d: %q vs %q", i+1, len(parts), n, singles[i].names))
			}
		})
	}
}
