#!/bin/bash
# Called by /verif/check (which exports VERIF_BIN, VERIF_MODARGS, VERIF_REPO_DIR, VERIF_DIR) as: run.sh <tier|build> [flags]
#
# C02 exercises package verifier (Graph.AddCert/AddRoot/WalkChains), which imports github.com/zmap/zcertificate. The
# shared mc/go.mod does not list that module, it cannot be resolved offline (GOPROXY=off) and builders must not edit
# mc/go.mod. So: build with a private modfile under .work/ = the modfile check would have used (mc/go.mod or the
# alt-repo copy) + the requirement at the version the zcrypto checkout itself pins (same trick as cmd/c10/run.sh).
set -u
TIER="${1:?usage: run.sh quick|thorough|build [flags]}"; shift
VERIF="${VERIF_DIR:-/verif}"
REPO="${VERIF_REPO_DIR:-/repo}"
BIN="${VERIF_BIN:-$VERIF/.bin/c02}"
export GOFLAGS=-mod=mod GOPROXY=off
cd "$VERIF/mc" || exit 2
base="$VERIF/mc/go.mod"
args=()
for a in ${VERIF_MODARGS:-}; do
  case "$a" in
    -modfile=*) base="${a#-modfile=}" ;;
    *) args+=("$a") ;;
  esac
done
tag="$(echo -n "$REPO" | md5sum | cut -c1-10)"
priv="$VERIF/.work/c02-$tag.mod"
mkdir -p "$VERIF/.work" "$VERIF/.bin"
{
  cat "$base"
  echo
  echo "require ("
  for m in github.com/zmap/zcertificate github.com/sirupsen/logrus; do
    if ! grep -q "^[[:space:]]*$m " "$base"; then
      grep -E "^[[:space:]]*$m v" "$REPO/go.mod" | head -1 | sed 's#$# // indirect#'
    fi
  done
  echo ")"
} > "$priv.tmp.$$" && mv "$priv.tmp.$$" "$priv"
cp "$REPO/go.sum" "${priv%.mod}.sum"
if ! go build -modfile="$priv" ${args[@]+"${args[@]}"} -tags verif -o "$BIN" ./cmd/c02 2> "$BIN.buildlog"; then
  cat "$BIN.buildlog" >&2
  echo "CHECK-BROKEN C02: build failed" >&2
  exit 2
fi
# -race build of the same program for the re-entrancy pass (internal/nohb, reentrant.go)
if ! go build -race -modfile="$priv" ${args[@]+"${args[@]}"} -tags verif -o "$BIN-race" ./cmd/c02 2> "$BIN.racebuildlog"; then
  cat "$BIN.racebuildlog" >&2
  echo "CHECK-BROKEN C02: race build failed" >&2
  exit 2
fi
export VERIF_RACE_BIN="$BIN-race"
[ "$TIER" = build ] && exit 0
export VERIF_REPO_DIR="$REPO"
exec "$BIN" -tier "$TIER" "$@"
