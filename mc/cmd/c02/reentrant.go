package main

// Re-entrancy pass (internal/nohb): "operations on a parsed certificate are total and deterministic" must also
// hold when two goroutines work on two DIFFERENT certificates at the same time (a scanner does nothing else).
// Every ordered pair of the menu below is run as "first call to completion, then the second on another goroutine"
// WITHOUT a happens-before edge in a -race build: ThreadSanitizer reports every location both calls touch
// unsynchronised — hidden shared state through which the two operations could change each other's result — for
// all interleavings at once.
//
// Menu: for the minted CA/leaf pairs of three key families (RSA, ECDSA P-256, Ed25519) the operation families of
// ops.go, each call on its OWN parse of the certificate and of its parent, with pools / graphs built inside the
// call; the signature check alone for the other three curves; json.Marshal and the name collectors on a fixture
// with qualified-certificate statements; no object is shared between the two calls of those pairs. Shared objects:
// for P-256 and Ed25519 ONE parsed leaf and ONE parsed parent read by both calls of a pair through the query
// operations (JSON view, VerifyHostname, name accessors, CheckSignatureFrom, insertion into the caller's own pool,
// name collectors) in all ordered pairs.

import (
	"encoding/json"
	"os"
	"strings"
	"time"

	"github.com/zmap/zcrypto/verifier"
	"github.com/zmap/zcrypto/x509"
	"verifmc/cmd/c02/certs"
	"verifmc/internal/ev"
	"verifmc/internal/fx"
	"verifmc/internal/nohb"
	"verifmc/internal/xgen"
)

func reentrantOps() []nohb.Op {
	minted := map[string][]byte{}
	for _, s := range xgen.MintedSeeds() {
		minted[s.Name] = s.Data
	}
	own := func(der []byte) *x509.Certificate {
		c, err := x509.ParseCertificate(append([]byte{}, der...))
		if err != nil {
			return nil
		}
		return c
	}
	var ops []nohb.Op
	// add registers a call on private parses of a leaf and its CA
	add := func(name string, leafDER, caDER []byte, f func(leaf, ca *x509.Certificate)) {
		ops = append(ops, nohb.Op{Name: name, New: func() func() {
			leaf, ca := own(leafDER), own(caDER)
			return func() {
				if leaf != nil && ca != nil {
					f(leaf, ca)
				}
			}
		}})
	}
	for _, k := range []string{"rsa1024", "p224", "p256", "p384", "p521", "ed-minted"} {
		caDER, leafDER := minted["minted:ca:"+k], minted["minted:leaf:"+k]
		if caDER == nil || leafDER == nil {
			continue
		}
		host := "leaf." + k + ".example"
		add("leaf.CheckSignatureFrom(ca "+k+")", leafDER, caDER, func(l, ca *x509.Certificate) { l.CheckSignatureFrom(ca) })
		if k != "rsa1024" && k != "p256" && k != "ed-minted" {
			continue
		}
		add("ca.CheckSignatureFrom(ca) "+k, leafDER, caDER, func(l, ca *x509.Certificate) { ca.CheckSignatureFrom(ca) })
		add("CheckSignatureFromKey "+k, leafDER, caDER, func(l, ca *x509.Certificate) {
			x509.CheckSignatureFromKey(ca.PublicKey, l.SignatureAlgorithm, l.RawTBSCertificate, l.Signature)
		})
		// MarshalJSON directly first: json.Marshal takes its encoder state from a sync.Pool before it calls the method,
		// which is a happens-before edge between the two calls of a pair (ThreadSanitizer would see nothing behind it)
		add("leaf.MarshalJSON + json.Marshal(leaf "+k+")", leafDER, caDER, func(l, ca *x509.Certificate) { l.MarshalJSON(); json.Marshal(l) })
		add("ca.MarshalJSON + json.Marshal(ca "+k+")", leafDER, caDER, func(l, ca *x509.Certificate) { ca.MarshalJSON(); json.Marshal(ca) })
		add("VerifyHostname "+k, leafDER, caDER, func(l, ca *x509.Certificate) {
			l.VerifyHostname(host)
			l.VerifyHostname("x.w.example")
			if err := l.VerifyHostname("other.example"); err != nil {
				_ = err.Error()
			}
		})
		add("name collectors "+k, leafDER, caDER, func(l, ca *x509.Certificate) {
			l.CollectAllNames()
			l.GetParsedDNSNames(false)
			l.GetParsedDNSNames(true)
			l.GetParsedSubjectCommonName(true)
			l.SubjectAndKey()
			_ = l.Subject.String()
			_ = l.Issuer.ToRDNSequence()
			l.JsonifyExtensions()
		})
		add("Verify(own pools) "+k, leafDER, caDER, func(l, ca *x509.Certificate) {
			roots, inter := x509.NewCertPool(), x509.NewCertPool()
			roots.AddCert(ca)
			inter.AddCert(l)
			l.Verify(x509.VerifyOptions{Roots: roots, Intermediates: inter, CurrentTime: fx.T0, DNSName: host})
			l.Verify(x509.VerifyOptions{Roots: inter, Intermediates: roots, CurrentTime: fx.T0.Add(72 * time.Hour), KeyUsages: []x509.ExtKeyUsage{x509.ExtKeyUsageAny}})
		})
		add("ValidateWithStupidDetail(own pools) "+k, leafDER, caDER, func(l, ca *x509.Certificate) {
			roots := x509.NewCertPool()
			roots.AddCert(ca)
			l.ValidateWithStupidDetail(x509.VerifyOptions{Roots: roots, Intermediates: x509.NewCertPool(), CurrentTime: fx.T0, DNSName: host})
		})
		add("Graph.AddRoot/AddCert/WalkChains(own graph) "+k, leafDER, caDER, func(l, ca *x509.Certificate) {
			g := verifier.NewGraph()
			g.AddRoot(ca)
			g.AddCert(l)
			g.AddCert(l)
			g.WalkChains(l)
			g.WalkChains(ca)
			g.Nodes()
			g.Edges()
			g.IsRoot(ca)
		})
		add("Graph leaf first + Verifier.Verify(own graph) "+k, leafDER, caDER, func(l, ca *x509.Certificate) {
			g := verifier.NewGraph()
			g.AddCert(l)
			g.AddRoot(ca)
			v := verifier.NewVerifier(g, &verifier.VerifyProcedureNSS{})
			if res := v.Verify(l, verifier.VerificationOptions{VerifyTime: fx.T0, Name: host}); res != nil {
				res.HasTrustedChain()
				res.MatchesDomain()
			}
		})
	}
	// ONE parsed leaf and ONE parsed parent read by both calls of a pair (fresh parses per pair): parsed certificates
	// are kept in caches and pools and handed to every goroutine that verifies against them. Only calls that are
	// queries by name and documentation are in this menu (see reentrantSharedOps for what was left out and why).
	for _, k := range []string{"p256", "ed-minted"} {
		ops = append(ops, reentrantSharedOps(k, minted["minted:leaf:"+k], minted["minted:ca:"+k], own)...)
	}
	// a fixture with qualified-certificate statements (JSON of many extension types)
	for _, s := range certs.CertSeeds(certs.RepoDir()) {
		if !strings.Contains(s.Name, "x509/testdata/etsi_qc") || own(s.Data) == nil {
			continue
		}
		der := s.Data
		add("MarshalJSON + json.Marshal("+s.Name+")", der, der, func(l, _ *x509.Certificate) { l.MarshalJSON(); json.Marshal(l) })
		add("name collectors + QC accessors ("+s.Name+")", der, der, func(l, _ *x509.Certificate) {
			l.CollectAllNames()
			l.JsonifyExtensions()
			if l.QCStatements != nil {
				json.Marshal(l.QCStatements)
			}
		})
		break
	}
	return rePairing(ops)
}

type rePairCerts struct{ leaf, ca *x509.Certificate }

// reentrantSharedOps: read-only use of one shared (leaf, parent) pair. Verify / ValidateWithStupidDetail /
// Graph.WalkChains on the shared leaf are governed by C02_REENTRANT_SHARED_VERIFY (off by default): they record
// their result in the certificate (ValidSignature), i.e. they are writers of the object by design.
func reentrantSharedOps(k string, leafDER, caDER []byte, own func([]byte) *x509.Certificate) []nohb.Op {
	if leafDER == nil || caDER == nil || own(leafDER) == nil || own(caDER) == nil {
		return nil
	}
	host := "leaf." + k + ".example"
	shared := rePairShared(func() *rePairCerts { return &rePairCerts{own(leafDER), own(caDER)} })
	type acc struct {
		name string
		f    func(l, ca *x509.Certificate)
	}
	accs := []acc{
		{"leaf.MarshalJSON + json.Marshal(leaf)", func(l, ca *x509.Certificate) { l.MarshalJSON(); json.Marshal(l) }},
		{"leaf.VerifyHostname", func(l, ca *x509.Certificate) {
			l.VerifyHostname(host)
			if err := l.VerifyHostname("other.example"); err != nil {
				_ = err.Error()
			}
		}},
		{"leaf.Subject.String + Issuer.String + Subject.ToRDNSequence", func(l, ca *x509.Certificate) {
			_ = l.Subject.String()
			_ = l.Issuer.String()
			_ = l.Subject.ToRDNSequence()
		}},
		{"leaf.CheckSignatureFrom(shared parent)", func(l, ca *x509.Certificate) { l.CheckSignatureFrom(ca) }},
		{"own pool.AddCert(leaf), AddCert(parent), Contains, Subjects", func(l, ca *x509.Certificate) {
			p := x509.NewCertPool()
			p.AddCert(l)
			p.AddCert(ca)
			p.Contains(l)
			p.Subjects()
		}},
		{"leaf.CollectAllNames + SubjectAndKey + JsonifyExtensions", func(l, ca *x509.Certificate) {
			l.CollectAllNames()
			l.SubjectAndKey()
			l.JsonifyExtensions()
		}},
	}
	if os.Getenv("C02_REENTRANT_SHARED_VERIFY") != "" {
		accs = append(accs, acc{"leaf.Verify(own pools holding the shared parent)", func(l, ca *x509.Certificate) {
			roots := x509.NewCertPool()
			roots.AddCert(ca)
			l.Verify(x509.VerifyOptions{Roots: roots, Intermediates: x509.NewCertPool(), CurrentTime: fx.T0, DNSName: host})
		}}, acc{"own graph AddRoot(parent), AddCert(leaf), WalkChains(leaf)", func(l, ca *x509.Certificate) {
			g := verifier.NewGraph()
			g.AddRoot(ca)
			g.AddCert(l)
			g.WalkChains(l)
		}}, acc{"leaf.GetParsedDNSNames(false) + GetParsedSubjectCommonName(false)", func(l, ca *x509.Certificate) {
			l.GetParsedDNSNames(false)
			l.GetParsedSubjectCommonName(false)
		}})
	}
	var ops []nohb.Op
	for _, a := range accs {
		a := a
		ops = append(ops, nohb.Op{Name: a.name + " on the SHARED parsed certificates (" + k + ")", New: func() func() {
			s := shared()
			return func() { a.f(s.leaf, s.ca) }
		}})
	}
	return ops
}

// nohb.WorkerMain builds every pair with exactly two New calls (first call, then second call) and calls New for
// nothing else, so New calls number 2k and 2k+1 belong to pair k. rePairing counts them; rePairShared(mk) returns
// an accessor that hands both calls of a pair the same object and makes a fresh one for the next pair.
var reNewCalls int

func rePairing(ops []nohb.Op) []nohb.Op {
	for i := range ops {
		inner := ops[i].New
		ops[i].New = func() func() { reNewCalls++; return inner() }
	}
	return ops
}

func rePairShared[T any](mk func() T) func() T {
	pair, cur := -1, *new(T)
	return func() T {
		if p := (reNewCalls - 1) / 2; p != pair {
			pair, cur = p, mk()
		}
		return cur
	}
}

const reentrantMenuText = "operation families of ops.go on own parses of minted CA/leaf pairs (RSA, P-256, Ed25519; signature check for all six key kinds), pools/graphs built inside the call, a QC fixture; plus, for P-256 and Ed25519, ONE shared parsed leaf+parent (fresh per pair) through the query operations (MarshalJSON/json.Marshal, VerifyHostname, Subject/Issuer.String, CheckSignatureFrom, insertion into an own pool, name collectors). Verify/ValidateWithStupidDetail/WalkChains/GetParsed* are per-call only: they write into the certificate by design (ValidSignature, documented caches)"

func reentrantPhase(c *ev.Ctx) {
	if c.Replay != nil {
		return // --replay re-executes one recorded witness of the main phase only
	}
	t0 := time.Now()
	o := nohb.Run(os.Getenv("VERIF_RACE_BIN"), nil, 10*time.Minute)
	if o.Broken != "" {
		c.Broken("re-entrancy pass: %s", o.Broken)
	}
	for _, sig := range o.Sigs() {
		c.Violation("re-entrancy: two calls on different goroutines share unsynchronised state: "+sig, map[string]any{"pair": o.Races[sig], "kind": "nohb"})
	}
	for k, v := range o.Panics {
		c.Violation("re-entrancy: "+k, map[string]any{"pair": v, "kind": "nohb"})
	}
	c.Outcome("re-entrancy pairs without a report", int64(o.Pairs))
	c.States.Add(int64(o.Pairs))
	c.Traces.Add(int64(o.Pairs))
	c.Set("reentrancy", map[string]any{"calls": o.Ops, "ordered_pairs": o.Pairs, "race_signatures": len(o.Races), "harness_only_reports": o.Harness, "canary_ok": o.CanaryOK,
		"seconds": time.Since(t0).Seconds(), "menu": reentrantMenuText,
		"method": "every ordered pair (a, b) of the menu: a to completion on one goroutine, then b on another, without a happens-before edge, in a -race build; a ThreadSanitizer report with both accesses in the repository is a violation"})
}
