package main

import (
	"strings"
	"unicode/utf8"

	"github.com/zmap/zcrypto/x509"
)

// Determinism oracle for certificates whose names TIE.
//
// The name list of the JSON view is collected through a map; what makes it
// deterministic is the ordering applied afterwards. An ordering that is not
// total on the collected strings (case-insensitive, after trimming dots or
// white space, after IDNA mapping, by "registered domain" ...) leaves tied
// names in map-iteration order, which Go randomises per range statement: two
// serialisations then differ only with a probability per pair. For such
// certificates two serialisations are a weak oracle, so every certificate that
// carries a tie under tieKey is serialised tieReps times (all others twice).
// With k >= 2 tied names the probability that tieReps independently drawn
// orders coincide is (1/k!)^(tieReps-1) <= 2^-15.

const tieReps = 16

// tieKey maps a name to what a normalising collector could compare instead of
// the string itself: surrounding white space and trailing dots trimmed, a
// wildcard / redaction label removed, lower case, punycode labels decoded.
func tieKey(s string) string {
	s = strings.ToLower(strings.TrimSpace(s))
	for strings.HasPrefix(s, "*.") || strings.HasPrefix(s, "?.") {
		s = s[2:]
	}
	// the host part of a URI is what a collector would normalise: treat "scheme://host/" like "scheme://host"
	s = strings.TrimRight(s, "/")
	s = strings.TrimRight(s, ".")
	if strings.Contains(s, "xn--") {
		labels := strings.Split(s, ".")
		for i, l := range labels {
			if strings.HasPrefix(l, "xn--") {
				if d, ok := punyDecode(l[4:]); ok {
					labels[i] = strings.ToLower(d)
				}
			}
		}
		s = strings.Join(labels, ".")
	}
	return s
}

// nameCandidates are the strings of a certificate that a name collector may pick up.
func nameCandidates(c *x509.Certificate) []string {
	var out []string
	out = append(out, c.Subject.CommonName)
	out = append(out, c.DNSNames...)
	out = append(out, c.URIs...)
	out = append(out, c.EmailAddresses...)
	for _, ip := range c.IPAddresses {
		out = append(out, ip.String())
	}
	return out
}

// tieCarrying: two DIFFERENT candidate strings have the same tieKey. (Identical
// strings cannot be told apart in the output, whatever their order.)
func tieCarrying(c *x509.Certificate) bool {
	seen := map[string]string{}
	for _, s := range nameCandidates(c) {
		if s == "" {
			continue
		}
		k := tieKey(s)
		if prev, ok := seen[k]; ok && prev != s {
			return true
		}
		seen[k] = s
	}
	return false
}

// punyDecode is the decoder of RFC 3492 section 6.2 (Bootstring with the
// Punycode parameters), written from the RFC.
func punyDecode(in string) (string, bool) {
	const (
		base, tmin, tmax, skew, damp = 36, 1, 26, 38, 700
		initialBias, initialN        = 72, 128
	)
	var out []rune
	b := strings.LastIndexByte(in, '-')
	if b > 0 {
		for i := 0; i < b; i++ {
			if in[i] >= 0x80 {
				return "", false
			}
			out = append(out, rune(in[i]))
		}
		in = in[b+1:]
	} else if b == 0 {
		in = in[1:]
	}
	n, i, bias := initialN, 0, initialBias
	for pos := 0; pos < len(in); {
		oldi, w := i, 1
		for k := base; ; k += base {
			if pos >= len(in) {
				return "", false
			}
			ch := in[pos]
			pos++
			var digit int
			switch {
			case ch >= 'a' && ch <= 'z':
				digit = int(ch - 'a')
			case ch >= 'A' && ch <= 'Z':
				digit = int(ch - 'A')
			case ch >= '0' && ch <= '9':
				digit = int(ch-'0') + 26
			default:
				return "", false
			}
			if digit > (1<<30-i)/w {
				return "", false
			}
			i += digit * w
			t := k - bias
			if t < tmin {
				t = tmin
			} else if t > tmax {
				t = tmax
			}
			if digit < t {
				break
			}
			if w > (1<<30)/(base-t) {
				return "", false
			}
			w *= base - t
		}
		// bias adaptation
		delta := i - oldi
		if oldi == 0 {
			delta /= damp
		} else {
			delta /= 2
		}
		delta += delta / (len(out) + 1)
		k := 0
		for delta > ((base-tmin)*tmax)/2 {
			delta /= base - tmin
			k += base
		}
		bias = k + (base-tmin+1)*delta/(delta+skew)
		n += i / (len(out) + 1)
		i %= len(out) + 1
		if n > utf8.MaxRune || !utf8.ValidRune(rune(n)) {
			return "", false
		}
		out = append(out, 0)
		copy(out[i+1:], out[i:])
		out[i] = rune(n)
		i++
	}
	return string(out), true
}
