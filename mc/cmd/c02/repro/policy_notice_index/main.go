// Reproducer (C02): json.Marshal of an ACCEPTED certificate panics in
// x509.(*CertificatePoliciesData).MarshalJSON when a policy carries several
// user notices of which only some have a noticeRef.
//
//	cd /verif/mc && GOFLAGS=-mod=mod GOPROXY=off go run ./cmd/c02/repro/policy_notice_index
package main

import (
	"encoding/hex"
	"encoding/json"
	"fmt"
	"os"

	"github.com/zmap/zcrypto/encoding/asn1"
	"github.com/zmap/zcrypto/x509"
)

// A 323-byte self-issued Ed25519 certificate (validly signed) whose only
// extension is certificatePolicies = { policy 2.23.140.1.2.1, qualifiers:
//
//	userNotice { explicitText "explicit text" },                      <- no noticeRef
//	userNotice { noticeRef {"org",[1,2]}, explicitText "explicit text" } } <- noticeRef
//
// (the field model's alternative policies=notices-tb).
const certTB = "3082013f3081f2a00302010202020102300506032b657030173115301306035504030c0c7867656e207375626a656374301e170d3236303131343132303030305a170d3236303131363132303030305a30173115301306035504030c0c7867656e207375626a656374302a300506032b657003210011794f28e64aaaa3b6c75431d6f928d736b1c808a57e8eabf08c48607597f6f7a3623060305e0603551d20045730553053060667810c0102013049301b06082b06010505070202300f0c0d6578706c696369742074657874302a06082b06010505070202301e300d0c036f726730060201010201020c0d6578706c696369742074657874300506032b6570034100fd73a82ac8e1b17c466b40b737be9f241f3ab174c4b5bbe17f1396ed2c045bcca98d2441c8467271107ec72416d4d97fb37a4a87590fa22f0c68f32f85452e0e"

// The same with the two notices swapped (policies=notices-bt).
const certBT = "3082013f3081f2a00302010202020102300506032b657030173115301306035504030c0c7867656e207375626a656374301e170d3236303131343132303030305a170d3236303131363132303030305a30173115301306035504030c0c7867656e207375626a656374302a300506032b657003210011794f28e64aaaa3b6c75431d6f928d736b1c808a57e8eabf08c48607597f6f7a3623060305e0603551d20045730553053060667810c0102013049302a06082b06010505070202301e300d0c036f726730060201010201020c0d6578706c696369742074657874301b06082b06010505070202300f0c0d6578706c696369742074657874300506032b657003410026ae309e9742a7cae1bbcbdcf00ab3912d354150a906be24018c3d83da5c2aff7529d6bb6caf92263981554d89eb024ccc3e76d5f647c0bb14e55bd1035da30f"

// Control: one notice with both parts (policies=notices-b) marshals fine.
const certB = "308201223081d5a00302010202020102300506032b657030173115301306035504030c0c7867656e207375626a656374301e170d3236303131343132303030305a170d3236303131363132303030305a30173115301306035504030c0c7867656e207375626a656374302a300506032b657003210011794f28e64aaaa3b6c75431d6f928d736b1c808a57e8eabf08c48607597f6f7a345304330410603551d20043a30383036060667810c010201302c302a06082b06010505070202301e300d0c036f726730060201010201020c0d6578706c696369742074657874300506032b657003410011624df56fa8543540f546b3f535a08393a3505333446a72eac13cffab835eb8c0e1bda128c62875bfe9d8db1d6a16c7ca85a26d202cffea206d863659b16109"

func try(name, h string) (panicked bool) {
	der, err := hex.DecodeString(h)
	if err != nil {
		panic(err)
	}
	c, err := x509.ParseCertificate(der)
	if err != nil {
		fmt.Printf("%s: not accepted: %v\n", name, err)
		return false
	}
	fmt.Printf("%s: accepted; explicit texts=%q notice-ref organisations=%q\n", name, c.ParsedExplicitTexts, c.ParsedNoticeRefOrganization)
	defer func() {
		if r := recover(); r != nil {
			fmt.Printf("%s: json.Marshal(cert) PANIC: %v\n", name, r)
			panicked = true
		}
	}()
	out, err := json.Marshal(c)
	fmt.Printf("%s: json.Marshal(cert) returned %d bytes, err=%v\n", name, len(out), err)
	return false
}

func main() {
	bad := false
	for _, permissive := range []bool{false, true} {
		asn1.AllowPermissiveParsing = permissive
		fmt.Printf("--- AllowPermissiveParsing=%v\n", permissive)
		bad = try("notices-tb", certTB) || bad
		bad = try("notices-bt", certBT) || bad
		try("notices-b (control)", certB)
	}
	if bad {
		os.Exit(1)
	}
}
