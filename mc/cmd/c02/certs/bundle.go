package certs

import (
	"fmt"
	"sort"
	"strings"

	"verifmc/internal/xgen"
)

// Bundles: x509.ParseCertificates takes a CONCATENATION of certificates. The
// bundle units enumerate every ordered tuple (pairs; triples in the thorough
// tier), repetitions included, over a closed alphabet of certificates that
// differ in every OPTIONAL element of Certificate / TBSCertificate, so that
// state carried from one certificate of a bundle into the next (a reused
// decoding target, a cache keyed by the neighbour, ...) has a witness in both
// directions. Generators only; the oracles are in the checks.

// BundleElem is one certificate of the bundle alphabet.
type BundleElem struct {
	Name string
	DER  []byte
}

// bundleModel lists the model assignments of the alphabet. Each line names the
// optional element it is there for.
var bundleModel = []string{
	"default",                               // v3, Ed25519: signature and key AlgorithmIdentifier WITHOUT parameters, no uniqueIDs, no extensions
	"key=rsa",                               // signature parameters NULL, key parameters NULL
	"key=ec-p256",                           // signature parameters absent, key parameters = curve OID
	"key=ec-p384",                           // another curve OID / signature OID
	"key=dsa",                               // key parameters = SEQUENCE (p, q, g), signature parameters absent
	"key=rsa sigalg=pss-sha256",             // signature parameters = SEQUENCE (RSASSA-PSS-params)
	"sigalg=ed25519-null-params",            // Ed25519 with NULL parameters
	"sigalg-outer=differs",                  // outer AlgorithmIdentifier with NULL, inner without parameters
	"key=rsa sigalg-outer=differs",          // outer without, inner with NULL parameters
	"version=v1-absent",                     // version element absent (v1), no extensions
	"version=v1-explicit",                   // version present with the default value
	"version=v2 uids=both",                  // both uniqueIDs, no extensions
	"uids=issuer",                           // issuerUniqueID only
	"uids=subject",                          // subjectUniqueID only
	"uids=both san=valid",                   // uniqueIDs and extensions
	"san=valid",                             // extensions present
	"extwrap=empty-seq",                     // extensions present but empty
	"basicconstraints=valid keyusage=valid", // a CA
	"selfissued=no",                         // issuer != subject
	"selfissued=no san=valid",               //
	"poison=critical san=valid",             // precertificate of "san=valid"
	"sct=valid san=valid",                   // final certificate of "san=valid"
	"poison=critical",                       // precertificate whose only extension is the poison
	"sct=two",                               // SCT list only
	"key=rsa poison=critical san=valid",     // RSA precertificate
	"key=ec-p256 sct=valid san=valid",       // ECDSA final certificate
	"validity=generalized",                  // GeneralizedTime validity
	"name=empty san=valid",                  // empty subject and issuer
	"serial=negative",                       //
	// (no element with tying names: what C02 finds about those belongs to the name-ties unit, not to the bundles)
}

// BundleAlphabet is the closed list of bundle elements: the model assignments
// above, every harness-minted CA/leaf certificate, the repository fixtures of
// the quick seed list, and extra (check-specific) elements. Elements a parser
// mode does not accept are skipped by the checks.
func BundleAlphabet(seeds []xgen.Seed, extra ...BundleElem) []BundleElem {
	var out []BundleElem
	seen := map[string]bool{}
	add := func(name string, der []byte) {
		if len(der) == 0 || seen[string(der)] {
			return
		}
		seen[string(der)] = true
		out = append(out, BundleElem{name, der})
	}
	for _, s := range bundleModel {
		a, err := xgen.ParseAssignment(s)
		if err != nil {
			panic("certs: bundle alphabet: " + err.Error())
		}
		add("model:"+strings.ReplaceAll(s, " ", ","), xgen.Encode(a))
	}
	sel := append([]xgen.Seed(nil), seeds...)
	sort.SliceStable(sel, func(i, j int) bool { return sel[i].Name < sel[j].Name })
	for _, s := range sel {
		if strings.HasPrefix(s.Name, "minted:") || inQuickList(s.Name) {
			add(s.Name, s.Data)
		}
	}
	for _, e := range extra {
		add(e.Name, e.DER)
	}
	return out
}

// BundleUnits: one unit per first element; its items are the concatenations
// first || e2 (depth 2) or first || e2 || e3 (depth 3) for every e2 (, e3) of
// the alphabet, in alphabet order. desc = the element names joined by " + ".
func BundleUnits(alpha []BundleElem, depth int) []Unit {
	if depth < 2 {
		return nil
	}
	def := xgen.Encode(xgen.Default())
	var units []Unit
	for i := range alpha {
		first := alpha[i]
		units = append(units, Unit{Name: fmt.Sprintf("bundle/d=%d/first=%s", depth, first.Name), Kind: "bundle", Base: def,
			Gen: func(visit func(string, []byte) bool) {
				for _, e2 := range alpha {
					if depth == 2 {
						if !visit(first.Name+" + "+e2.Name, cat(first.DER, e2.DER)) {
							return
						}
						continue
					}
					for _, e3 := range alpha {
						if !visit(first.Name+" + "+e2.Name+" + "+e3.Name, cat(first.DER, e2.DER, e3.DER)) {
							return
						}
					}
				}
			}})
	}
	return units
}

func cat(parts ...[]byte) []byte {
	var out []byte
	for _, p := range parts {
		out = append(out, p...)
	}
	return out
}

// IsBundle reports whether a unit is a bundle unit (by kind, or — in isolated
// single runs, where only the name travels — by name).
func (u *Unit) IsBundle() bool { return u.Kind == "bundle" || strings.HasPrefix(u.Name, "bundle/") }

// SplitBundle cuts a concatenation of DER elements at the lengths their outer
// headers declare (one-byte tags, definite lengths of up to 4 octets). It is
// the harness's own reader, independent of zcrypto.
func SplitBundle(b []byte) (parts [][]byte, ok bool) {
	for len(b) > 0 {
		if len(b) < 2 || b[0]&0x1f == 0x1f {
			return nil, false
		}
		l, p := int(b[1]), 2
		if l&0x80 != 0 {
			n := l & 0x7f
			if n == 0 || n > 4 || len(b) < 2+n {
				return nil, false
			}
			l = 0
			for i := 0; i < n; i++ {
				l = l<<8 | int(b[2+i])
			}
			p += n
		}
		if l < 0 || p+l > len(b) {
			return nil, false
		}
		parts = append(parts, b[:p+l])
		b = b[p+l:]
	}
	return parts, true
}

// nameTies: the product of the common-name alternatives that are host names
// (and the default) with the subjectAltName alternatives whose entries tie
// under case folding, trailing dots, white space, wildcard prefixes, IDNA and
// across name kinds. All of them are also part of the two-deviation model; the
// unit exists so that they are handed out FIRST and as one block.
func nameTies() xgen.Enum {
	return func(visit func(string, []byte) bool) {
		fields := xgen.Fields()
		fn, fs := xgen.FieldIndex("name"), xgen.FieldIndex("san")
		for ni, n := range fields[fn].Alts {
			if ni != 0 && !strings.HasPrefix(n, "cn-dns-") {
				continue
			}
			for si, s := range fields[fs].Alts {
				if !strings.HasSuffix(s, "-ties") {
					continue
				}
				a := xgen.Default()
				a[fn], a[fs] = ni, si
				if !visit(a.String(), xgen.Encode(a)) {
					return
				}
			}
		}
	}
}
