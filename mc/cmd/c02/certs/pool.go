package certs

import (
	"bufio"
	"encoding/binary"
	"encoding/hex"
	"encoding/json"
	"fmt"
	"hash/fnv"
	"io"
	"os"
	"os/exec"
	"path/filepath"
	"regexp"
	"runtime/pprof"
	"sort"
	"strings"
	"sync"
	"time"

	"github.com/zmap/zcrypto/encoding/asn1"
	"verifmc/internal/ev"
)

// ---------------------------------------------------------------------------
// data exchanged between worker and parent

// Witness is the concrete failing input of a violation (also the replay file).
type Witness struct {
	Mode   string `json:"mode"`
	Unit   string `json:"unit"`
	Item   int    `json:"item"`
	Desc   string `json:"desc"`
	Op     string `json:"op,omitempty"`
	DER    string `json:"der_hex"`
	Detail string `json:"detail,omitempty"`
	Light  bool   `json:"light,omitempty"` // the unit is evaluated with C02's reduced operation set
}

// Viol is one violation signature with its first (smallest) witness.
type Viol struct {
	Sig string  `json:"sig"`
	W   Witness `json:"w"`
	N   int64   `json:"n"`
}

// Acc accumulates what a worker observed on a run of items of one unit.
type Acc struct {
	Unit     int              `json:"unit"`
	From     int              `json:"from"`
	Next     int              `json:"next"` // items [From,Next) of the unit were processed
	Done     bool             `json:"done"` // the job ended (unit exhausted, or deadline: then Partial)
	Partial  bool             `json:"partial,omitempty"`
	Items    int64            `json:"items"`
	Accepted int64            `json:"accepted"`
	Hist     map[string]int64 `json:"hist,omitempty"`
	Cnt      map[string]int64 `json:"cnt,omitempty"`
	Viol     map[string]*Viol `json:"viol,omitempty"`
	Samples  []any            `json:"samples,omitempty"`
	Csum     string           `json:"csum,omitempty"` // FNV-1a over all inputs of the unit (only for From==0 && Done && !Partial)
	Ms       int64            `json:"ms,omitempty"`
}

func newAcc(unit, from int) *Acc {
	return &Acc{Unit: unit, From: from, Next: from, Hist: map[string]int64{}, Cnt: map[string]int64{}, Viol: map[string]*Viol{}}
}

// Outcome counts an outcome class.
func (a *Acc) Outcome(class string, n int64) { a.Hist[class] += n }

// Count adds to a named counter.
func (a *Acc) Count(name string, n int64) { a.Cnt[name] += n }

func (a *Acc) merge(b *Acc) {
	a.Items += b.Items
	a.Accepted += b.Accepted
	for k, v := range b.Hist {
		a.Hist[k] += v
	}
	for k, v := range b.Cnt {
		a.Cnt[k] += v
	}
	for k, v := range b.Viol {
		if old, ok := a.Viol[k]; ok {
			old.N += v.N
			if len(v.W.DER) < len(old.W.DER) {
				old.W = v.W
			}
		} else {
			cp := *v
			a.Viol[k] = &cp
		}
	}
	for _, s := range b.Samples {
		if len(a.Samples) < 8 {
			a.Samples = append(a.Samples, s)
		}
	}
}

type job struct {
	Unit       int   `json:"unit"`
	From       int   `json:"from"`
	DeadlineMs int64 `json:"deadline_ms"`
	Disabled   []int `json:"disabled,omitempty"`
}

// ---------------------------------------------------------------------------
// worker side

// Handler is the per-check logic run inside worker processes.
type Handler interface {
	// Init is called once, after asn1.AllowPermissiveParsing has been set for the process.
	Init(w *Worker) error
	// Item evaluates one candidate certificate. der is a private copy.
	Item(x *ItemCtx)
}

// Worker is the state of one worker process.
type Worker struct {
	Mode     string
	Quick    bool
	Units    []Unit
	prog     *os.File
	disabled map[int]bool
	cur      [3]int64
}

// ItemCtx is handed to Handler.Item.
type ItemCtx struct {
	W       *Worker
	U       *Unit
	UnitIdx int
	Idx     int
	Desc    string
	DER     []byte
	A       *Acc
}

// Op records that operation id (> 0) is about to run on the current item. It
// is written to the progress file, so that a crash that cannot be recovered
// in-process (a panic in a goroutine started by the library) or a stall can be
// attributed by the parent.
func (x *ItemCtx) Op(id int) {
	x.W.cur[2] = int64(id)
	x.W.flush()
}

// Disabled reports that the parent asked to skip operation id (after it
// crashed worker processes repeatedly).
func (x *ItemCtx) Disabled(id int) bool { return x.W.disabled[id] }

// Violation records a violation on the current item.
func (x *ItemCtx) Violation(sig, op, detail string) {
	if v, ok := x.A.Viol[sig]; ok {
		v.N++
		return
	}
	x.A.Viol[sig] = &Viol{Sig: sig, N: 1, W: Witness{Mode: x.W.Mode, Unit: x.U.Name, Item: x.Idx, Desc: x.Desc, Op: op, DER: hex.EncodeToString(x.DER), Detail: detail, Light: x.U.Light}}
}

// Sample keeps an explored case for the evidence file.
func (x *ItemCtx) Sample(v any) {
	if len(x.A.Samples) < 2 {
		x.A.Samples = append(x.A.Samples, v)
	}
}

func (w *Worker) flush() {
	if w.prog == nil {
		return
	}
	var b [24]byte
	for i, v := range w.cur {
		binary.LittleEndian.PutUint64(b[8*i:], uint64(v))
	}
	w.prog.WriteAt(b[:], 0)
}

func setMode(mode string) {
	asn1.AllowPermissiveParsing = mode == "permissive"
}

// IsWorker reports whether this process was started as a worker / isolated
// single run of check id.
func IsWorker(id string) bool {
	return os.Getenv(id+"_WORKER") != "" || os.Getenv(id+"_SINGLE") != ""
}

type singleReq struct {
	Unit  string `json:"unit"`
	Item  int    `json:"item"`
	Desc  string `json:"desc"`
	DER   string `json:"der_hex"`
	Base  string `json:"base_hex,omitempty"`
	Seed  string `json:"seed,omitempty"`
	Light bool   `json:"light,omitempty"`
}

// WorkerMain is the main function of worker processes (and of isolated single
// runs). mkUnits must build the same unit list as the parent.
func WorkerMain(id string, h Handler, mkUnits func(quick bool) []Unit) {
	quick := os.Getenv(id+"_TIER") != "thorough"
	if mode := os.Getenv(id + "_SINGLE"); mode != "" {
		setMode(mode)
		w := &Worker{Mode: mode, Quick: quick, disabled: map[int]bool{}}
		if p := os.Getenv(id + "_PROGRESS"); p != "" {
			w.prog, _ = os.OpenFile(p, os.O_RDWR|os.O_CREATE, 0o644)
		}
		var req singleReq
		if err := json.NewDecoder(os.Stdin).Decode(&req); err != nil {
			fmt.Fprintln(os.Stderr, "single: bad request:", err)
			os.Exit(4)
		}
		der, _ := hex.DecodeString(req.DER)
		base, _ := hex.DecodeString(req.Base)
		if err := h.Init(w); err != nil {
			fmt.Fprintln(os.Stderr, "single: init:", err)
			os.Exit(4)
		}
		u := &Unit{Name: req.Unit, Base: base, Seed: req.Seed, Light: req.Light}
		a := newAcc(-1, req.Item)
		a.Items = 1
		h.Item(&ItemCtx{W: w, U: u, UnitIdx: -1, Idx: req.Item, Desc: req.Desc, DER: der, A: a})
		a.Done = true
		json.NewEncoder(os.Stdout).Encode(a)
		return
	}
	mode := os.Getenv(id + "_WORKER")
	setMode(mode)
	if pf := os.Getenv(id + "_CPUPROFILE"); pf != "" { // developer aid
		if f, err := os.Create(pf); err == nil {
			pprof.StartCPUProfile(f)
			defer pprof.StopCPUProfile()
		}
	}
	w := &Worker{Mode: mode, Quick: quick, disabled: map[int]bool{}}
	w.Units = mkUnits(quick)
	if p := os.Getenv(id + "_PROGRESS"); p != "" {
		f, err := os.OpenFile(p, os.O_RDWR|os.O_CREATE, 0o644)
		if err != nil {
			fmt.Fprintln(os.Stderr, "worker: progress file:", err)
			os.Exit(4)
		}
		w.prog = f
	}
	w.cur = [3]int64{-1, -1, 0}
	w.flush()
	if err := h.Init(w); err != nil {
		fmt.Fprintln(os.Stderr, "worker: init:", err)
		os.Exit(4)
	}
	out := bufio.NewWriter(os.Stdout)
	enc := json.NewEncoder(out)
	send := func(a *Acc) {
		if err := enc.Encode(a); err != nil {
			os.Exit(5)
		}
		out.Flush()
	}
	// ready marker: number of units (the parent checks that both sides agree)
	send(&Acc{Unit: -1, Items: int64(len(w.Units)), Done: true})
	in := bufio.NewReaderSize(os.Stdin, 1<<16)
	for {
		line, err := in.ReadBytes('\n')
		if len(line) > 0 {
			var j job
			if jerr := json.Unmarshal(line, &j); jerr != nil || j.Unit < 0 || j.Unit >= len(w.Units) {
				fmt.Fprintf(os.Stderr, "worker: bad job %q\n", line)
				os.Exit(4)
			}
			w.disabled = map[int]bool{}
			for _, d := range j.Disabled {
				w.disabled[d] = true
			}
			w.runUnit(h, j, send)
		}
		if err != nil {
			return
		}
	}
}

const flushEvery = 4000

func (w *Worker) runUnit(h Handler, j job, send func(*Acc)) {
	u := &w.Units[j.Unit]
	start := time.Now()
	deadline := time.UnixMilli(j.DeadlineMs)
	a := newAcc(j.Unit, j.From)
	sum := fnv.New64a()
	idx := 0
	partial := false
	x := &ItemCtx{W: w, U: u, UnitIdx: j.Unit}
	u.Gen(func(desc string, der []byte) bool {
		i := idx
		idx++
		if j.From == 0 {
			var l [4]byte
			binary.LittleEndian.PutUint32(l[:], uint32(len(der)))
			sum.Write(l[:])
			sum.Write(der)
		}
		if i < j.From {
			return true
		}
		if i&15 == 0 && time.Now().After(deadline) {
			partial = true
			idx = i
			return false
		}
		w.cur = [3]int64{int64(j.Unit), int64(i), 0}
		w.flush()
		x.Idx, x.Desc, x.A = i, desc, a
		x.DER = append([]byte(nil), der...)
		a.Items++
		h.Item(x)
		a.Next = i + 1
		if a.Items >= flushEvery {
			send(a)
			a = newAcc(j.Unit, i+1)
		}
		return true
	})
	w.cur = [3]int64{int64(j.Unit), -1, 0}
	w.flush()
	a.Done = true
	a.Partial = partial
	if !partial {
		a.Next = idx
	}
	if j.From == 0 && !partial {
		a.Csum = fmt.Sprintf("%016x/%d", sum.Sum64(), idx)
	}
	a.Ms = time.Since(start).Milliseconds()
	send(a)
}

// ---------------------------------------------------------------------------
// parent side

// PoolConfig configures RunPool.
type PoolConfig struct {
	ID       string   // check id, e.g. "C02": prefix of the environment variables
	Modes    []string // "strict", "permissive"
	Procs    int      // worker processes per mode
	Deadline time.Time
	Ops      []string      // operation names by id (index 0 unused)
	Stall    time.Duration // a worker whose progress does not change for this long is killed and its item re-run in isolation
	MaxCrash int           // after this many crashes of one operation in one mode the operation is disabled
}

// ModeResult is what one mode's pool produced.
type ModeResult struct {
	Mode     string
	Total    *Acc
	Done     map[int]bool
	Partial  map[int]bool
	Csum     map[int]string
	UnitMs   map[int]int64
	Restarts int
	Disabled map[int]bool
	Crashes  map[int]int
}

// Result is the outcome of RunPool.
type Result struct {
	Modes      []*ModeResult
	Viol       map[string]*Viol
	Incomplete []string
	Broken     string
	Stalls     []string
}

type pool struct {
	c     *ev.Ctx
	cfg   PoolConfig
	units []Unit
	mu    sync.Mutex
	res   *Result
	work  string
}

type proc struct {
	cmd     *exec.Cmd
	stdin   io.WriteCloser
	lines   chan []byte
	stderr  *tailBuf
	progf   string
	waitErr error
	waited  chan struct{}
}

type tailBuf struct {
	mu sync.Mutex
	b  []byte
}

func (t *tailBuf) Write(p []byte) (int, error) {
	t.mu.Lock()
	defer t.mu.Unlock()
	t.b = append(t.b, p...)
	if len(t.b) > 1<<16 {
		// keep head (panic message + first goroutine) and tail
		t.b = append(t.b[:1<<15], t.b[len(t.b)-(1<<14):]...)
	}
	return len(p), nil
}
func (t *tailBuf) String() string { t.mu.Lock(); defer t.mu.Unlock(); return string(t.b) }

func (p *pool) spawn(mode string, slot int, single bool) (*proc, error) {
	cmd := exec.Command(os.Args[0])
	pr := &proc{cmd: cmd, stderr: &tailBuf{}, lines: make(chan []byte, 64), waited: make(chan struct{})}
	pr.progf = filepath.Join(p.work, fmt.Sprintf("progress-%s-%d-%v", mode, slot, single))
	os.Remove(pr.progf)
	key := "_WORKER"
	if single {
		key = "_SINGLE"
	}
	tier := "quick"
	if !p.c.Quick() {
		tier = "thorough"
	}
	cmd.Env = append(os.Environ(), p.cfg.ID+key+"="+mode, p.cfg.ID+"_PROGRESS="+pr.progf, p.cfg.ID+"_TIER="+tier, "GOMAXPROCS=1", "GOTRACEBACK=all")
	cmd.Stderr = pr.stderr
	var err error
	if pr.stdin, err = cmd.StdinPipe(); err != nil {
		return nil, err
	}
	so, err := cmd.StdoutPipe()
	if err != nil {
		return nil, err
	}
	if err := cmd.Start(); err != nil {
		return nil, err
	}
	go func() {
		r := bufio.NewReaderSize(so, 1<<20)
		for {
			line, err := r.ReadBytes('\n')
			if len(line) > 0 {
				pr.lines <- line
			}
			if err != nil {
				break
			}
		}
		pr.waitErr = cmd.Wait()
		close(pr.waited)
		close(pr.lines)
	}()
	return pr, nil
}

func (pr *proc) kill() {
	pr.cmd.Process.Kill()
	pr.stdin.Close()
	for range pr.lines {
	}
	<-pr.waited
	os.Remove(pr.progf)
}

func (pr *proc) progress() (unit, item, op int, ok bool) {
	b, err := os.ReadFile(pr.progf)
	if err != nil || len(b) < 24 {
		return -1, -1, 0, false
	}
	return int(int64(binary.LittleEndian.Uint64(b[0:]))), int(int64(binary.LittleEndian.Uint64(b[8:]))), int(int64(binary.LittleEndian.Uint64(b[16:]))), true
}

var hexRun = regexp.MustCompile(`[0-9a-fA-F]{16,}`)

// MsgClass normalises a panic message to a class: long hexadecimal strings
// (fingerprints, key material) become <hex>, then digits are collapsed as in
// ev.MsgClass, so that one defect yields one signature.
func MsgClass(s string) string {
	return ev.MsgClass(hexRun.ReplaceAllString(s, "<hex>"))
}

// CrashClass extracts "<site>: <message class>" from the stderr of a Go process
// that died of an unrecovered panic or a runtime fatal error: site = first
// zcrypto frame of the first goroutine trace.
func CrashClass(stderr string, waitErr error) (site, msg string) {
	lines := strings.Split(stderr, "\n")
	start := -1
	for i, l := range lines {
		if strings.HasPrefix(l, "panic: ") {
			msg = strings.TrimPrefix(l, "panic: ")
			start = i
			break
		}
		if strings.HasPrefix(l, "fatal error: ") {
			msg = l
			start = i
			break
		}
	}
	if start < 0 {
		msg = "process died"
		if waitErr != nil {
			msg += ": " + waitErr.Error()
		}
		if t := strings.TrimSpace(stderr); t != "" {
			if len(t) > 200 {
				t = t[len(t)-200:]
			}
			msg += " | " + t
		}
		return "?", msg
	}
	if i := strings.Index(msg, " [recovered]"); i >= 0 {
		msg = msg[:i]
	}
	if strings.HasPrefix(msg, "runtime error: ") {
		// as printed by fmt.Sprint(recover()) in the in-process path
	}
	msg = strings.TrimSuffix(msg, "\n")
	site = "?"
	inTrace := false
	for _, l := range lines[start+1:] {
		if strings.HasPrefix(l, "goroutine ") {
			if inTrace && site != "?" {
				break
			}
			inTrace = true
			continue
		}
		if !inTrace || strings.HasPrefix(l, "\t") || strings.HasPrefix(l, " ") {
			continue
		}
		if i := strings.Index(l, "github.com/zmap/zcrypto/"); i == 0 {
			fn := strings.TrimPrefix(l, "github.com/zmap/zcrypto/")
			if strings.HasPrefix(fn, "verifier.(*Graph).WalkChainsAsync.gowrap") || strings.Contains(fn, "created by") {
				continue
			}
			if j := strings.LastIndex(fn, "("); j > 0 {
				fn = fn[:j]
			}
			site = fn
			break
		}
		if l == "" && site != "?" {
			break
		}
	}
	return site, msg
}

func (p *pool) regenerate(unit, item int) (desc string, der []byte, ok bool) {
	if unit < 0 || unit >= len(p.units) || item < 0 {
		return "", nil, false
	}
	i := 0
	p.units[unit].Gen(func(d string, b []byte) bool {
		if i == item {
			desc, der, ok = d, append([]byte(nil), b...), true
			return false
		}
		i++
		return true
	})
	return
}

func (p *pool) opName(op int) string {
	if op > 0 && op < len(p.cfg.Ops) {
		return p.cfg.Ops[op]
	}
	return "item"
}

func (p *pool) addViol(v *Viol) {
	p.mu.Lock()
	defer p.mu.Unlock()
	if old, ok := p.res.Viol[v.Sig]; ok {
		old.N += v.N
		if len(v.W.DER) < len(old.W.DER) {
			old.W = v.W
		}
		return
	}
	cp := *v
	p.res.Viol[v.Sig] = &cp
}

func (p *pool) incomplete(s string) {
	p.mu.Lock()
	defer p.mu.Unlock()
	for _, x := range p.res.Incomplete {
		if x == s {
			return
		}
	}
	p.res.Incomplete = append(p.res.Incomplete, s)
}

func (p *pool) setBroken(s string) {
	p.mu.Lock()
	if p.res.Broken == "" {
		p.res.Broken = s
	}
	p.mu.Unlock()
}

func (p *pool) isBroken() bool { p.mu.Lock(); defer p.mu.Unlock(); return p.res.Broken != "" }

// RunSingle evaluates one item in an isolated process. finished=false means
// the process did not return within limit (it was killed); crashed carries the
// crash class when the process died.
func RunSingle(c *ev.Ctx, id, mode string, req Witness, base []byte, seed string, light bool, limit time.Duration) (a *Acc, finished bool, site, msg string) {
	work := filepath.Join(ev.VerifDir, ".work", fmt.Sprintf("%s-single-%d", strings.ToLower(id), os.Getpid()))
	os.MkdirAll(work, 0o755)
	defer os.RemoveAll(work)
	p := &pool{c: c, cfg: PoolConfig{ID: id}, work: work, res: &Result{Viol: map[string]*Viol{}}}
	pr, err := p.spawn(mode, 0, true)
	if err != nil {
		return nil, true, "?", "cannot start isolated process: " + err.Error()
	}
	blob, _ := json.Marshal(singleReq{Unit: req.Unit, Item: req.Item, Desc: req.Desc, DER: req.DER, Base: hex.EncodeToString(base), Seed: seed, Light: light})
	pr.stdin.Write(append(blob, '\n'))
	pr.stdin.Close()
	timer := time.NewTimer(limit)
	defer timer.Stop()
	for {
		select {
		case line, ok := <-pr.lines:
			if !ok {
				<-pr.waited
				site, msg = CrashClass(pr.stderr.String(), pr.waitErr)
				os.Remove(pr.progf)
				return nil, true, site, msg
			}
			var acc Acc
			if json.Unmarshal(line, &acc) == nil && acc.Done {
				pr.kill()
				return &acc, true, "", ""
			}
		case <-timer.C:
			_, _, op, _ := pr.progress()
			pr.kill()
			return nil, false, "", fmt.Sprint(op)
		}
	}
}

// queue is the work list of one mode: jobs can be pushed back while others
// are in flight; take returns false once it is empty and nothing is in flight.
type queue struct {
	mu       sync.Mutex
	cond     *sync.Cond
	jobs     []job
	inflight int
}

func newQueue() *queue { q := &queue{}; q.cond = sync.NewCond(&q.mu); return q }

func (q *queue) push(j job) {
	q.mu.Lock()
	q.jobs = append(q.jobs, j)
	q.mu.Unlock()
	q.cond.Broadcast()
}

func (q *queue) take() (job, bool) {
	q.mu.Lock()
	defer q.mu.Unlock()
	for {
		if len(q.jobs) > 0 {
			j := q.jobs[0]
			q.jobs = q.jobs[1:]
			q.inflight++
			return j, true
		}
		if q.inflight == 0 {
			return job{}, false
		}
		q.cond.Wait()
	}
}

func (q *queue) done() {
	q.mu.Lock()
	q.inflight--
	q.mu.Unlock()
	q.cond.Broadcast()
}

func (p *pool) manage(mi int, slot int, q *queue) {
	requeue := q.push
	mode := p.cfg.Modes[mi]
	var pr *proc
	defer func() {
		if pr != nil {
			pr.stdin.Close()
			select {
			case <-pr.waited:
			case <-time.After(5 * time.Second):
			}
			pr.kill()
		}
	}()
	start := func() bool {
		var err error
		pr, err = p.spawn(mode, slot, false)
		if err != nil {
			p.setBroken("cannot start worker: " + err.Error())
			return false
		}
		select {
		case line, ok := <-pr.lines:
			var a Acc
			if !ok || json.Unmarshal(line, &a) != nil || a.Unit != -1 {
				<-pr.waited
				p.setBroken(fmt.Sprintf("worker (%s) failed to start: %v %s", mode, pr.waitErr, pr.stderr.String()))
				pr = nil
				return false
			}
			if int(a.Items) != len(p.units) {
				p.setBroken(fmt.Sprintf("worker (%s) built %d units, parent %d: generators are not deterministic", mode, a.Items, len(p.units)))
				return false
			}
		case <-time.After(120 * time.Second):
			p.setBroken("worker did not become ready within 120 s")
			return false
		}
		return true
	}
	for {
		j, ok := q.take()
		if !ok {
			return
		}
		p.handle(mi, slot, j, &pr, start, requeue)
		q.done()
	}
}

func (p *pool) handle(mi, slot int, j job, prp **proc, start func() bool, requeue func(job)) {
	mode := p.cfg.Modes[mi]
	mr := p.res.Modes[mi]
	pr := *prp
	defer func() { *prp = pr }()
	{
		if p.isBroken() {
			return
		}
		if time.Now().After(p.cfg.Deadline) {
			p.mu.Lock()
			mr.Partial[j.Unit] = true
			p.mu.Unlock()
			return
		}
		if pr == nil {
			if !start() {
				return
			}
			pr = *prp
		}
		p.mu.Lock()
		j.Disabled = j.Disabled[:0]
		for d := range mr.Disabled {
			j.Disabled = append(j.Disabled, d)
		}
		p.mu.Unlock()
		sort.Ints(j.Disabled)
		j.DeadlineMs = p.cfg.Deadline.UnixMilli()
		blob, _ := json.Marshal(j)
		if _, err := pr.stdin.Write(append(blob, '\n')); err != nil {
			// died between jobs
			pr.kill()
			pr = nil
			requeue(j)
			return
		}
		last := [3]int{-2, -2, -2}
		lastChange := time.Now()
		tick := time.NewTicker(time.Second)
		next := j.From
	wait:
		for {
			select {
			case line, ok := <-pr.lines:
				if !ok {
					// worker died
					<-pr.waited
					u, it, op, okp := pr.progress()
					site, msg := CrashClass(pr.stderr.String(), pr.waitErr)
					os.Remove(pr.progf)
					pr = nil
					p.mu.Lock()
					mr.Restarts++
					p.mu.Unlock()
					if !okp || u != j.Unit || it < 0 {
						p.setBroken(fmt.Sprintf("worker (%s) died outside an item (unit %d item %d): %s: %s", mode, u, it, site, msg))
						break wait
					}
					desc, der, _ := p.regenerate(u, it)
					sig := fmt.Sprintf("panic@%s: %s [%s]", site, MsgClass(msg), p.opName(op))
					p.addViol(&Viol{Sig: sig, N: 1, W: Witness{Mode: mode, Unit: p.units[u].Name, Item: it, Desc: desc, Op: p.opName(op), DER: hex.EncodeToString(der), Light: p.units[u].Light,
						Detail: "the worker process died (panic outside the calling goroutine or runtime fatal error): " + msg}})
					p.mu.Lock()
					mr.Crashes[op]++
					nCrash := mr.Crashes[op]
					if op > 0 && nCrash >= p.cfg.MaxCrash {
						mr.Disabled[op] = true
					}
					p.mu.Unlock()
					if op > 0 && nCrash >= p.cfg.MaxCrash {
						p.incomplete(fmt.Sprintf("operation %s killed %d worker processes in %s mode and was skipped on the items evaluated after that", p.opName(op), p.cfg.MaxCrash, mode))
					}
					if op == 0 && nCrash >= 3*p.cfg.MaxCrash {
						p.setBroken("too many unattributed worker crashes: " + sig)
						break wait
					}
					requeue(job{Unit: j.Unit, From: it + 1})
					break wait
				}
				var a Acc
				if err := json.Unmarshal(line, &a); err != nil {
					p.setBroken("bad worker output: " + err.Error())
					break wait
				}
				next = a.Next
				p.mu.Lock()
				mr.Total.merge(&a)
				if a.Done {
					if a.Partial {
						mr.Partial[a.Unit] = true
					} else {
						mr.Done[a.Unit] = true
						if a.Csum != "" {
							mr.Csum[a.Unit] = a.Csum
						}
					}
					mr.UnitMs[a.Unit] += a.Ms
				}
				p.mu.Unlock()
				for _, v := range a.Viol {
					p.addViol(v)
				}
				lastChange = time.Now()
				if a.Done {
					break wait
				}
			case <-tick.C:
				u, it, op, okp := pr.progress()
				cur := [3]int{u, it, op}
				if !okp || cur != last {
					last = cur
					lastChange = time.Now()
					continue
				}
				if time.Since(lastChange) < p.cfg.Stall {
					continue
				}
				// stalled: kill, re-run the item in isolation
				pr.kill()
				pr = nil
				p.mu.Lock()
				mr.Restarts++
				p.mu.Unlock()
				if u != j.Unit || it < 0 {
					p.setBroken(fmt.Sprintf("worker (%s) stalled outside an item (unit %d item %d)", mode, u, it))
					break wait
				}
				desc, der, _ := p.regenerate(u, it)
				w := Witness{Mode: mode, Unit: p.units[u].Name, Item: it, Desc: desc, Op: p.opName(op), DER: hex.EncodeToString(der), Light: p.units[u].Light}
				acc, finished, site, msg := RunSingle(p.c, p.cfg.ID, mode, w, p.units[u].Base, p.units[u].Seed, p.units[u].Light, 2*p.cfg.Stall)
				switch {
				case !finished:
					w.Detail = fmt.Sprintf("no return within %v in a worker and again within %v in an isolated process", p.cfg.Stall, 2*p.cfg.Stall)
					p.addViol(&Viol{Sig: fmt.Sprintf("hang [%s]", p.opName(op)), N: 1, W: w})
				case acc == nil:
					w.Detail = "isolated re-run after a stall died: " + msg
					p.addViol(&Viol{Sig: fmt.Sprintf("panic@%s: %s [%s]", site, MsgClass(msg), p.opName(op)), N: 1, W: w})
				default:
					p.mu.Lock()
					mr.Total.merge(acc)
					p.res.Stalls = append(p.res.Stalls, fmt.Sprintf("%s %s item %d op %s: stalled %v in a worker, finished when re-run in isolation", mode, p.units[u].Name, it, p.opName(op), p.cfg.Stall))
					p.mu.Unlock()
					for _, v := range acc.Viol {
						p.addViol(v)
					}
				}
				requeue(job{Unit: j.Unit, From: it + 1})
				break wait
			}
		}
		tick.Stop()
		_ = next
	}
}

// WorkDir creates the scratch directory of a run (removed by the returned function).
func WorkDir(id string) (string, func()) {
	work := filepath.Join(ev.VerifDir, ".work", fmt.Sprintf("%s-aux-%d", strings.ToLower(id), os.Getpid()))
	os.MkdirAll(work, 0o755)
	return work, func() { os.RemoveAll(work) }
}

// RunPool feeds every unit to a pool of worker processes per mode and merges
// what they report. order is the order in which units are handed out.
func RunPool(c *ev.Ctx, cfg PoolConfig, units []Unit, order []int) *Result {
	if cfg.Stall == 0 {
		cfg.Stall = 60 * time.Second
	}
	if cfg.MaxCrash == 0 {
		cfg.MaxCrash = 12
	}
	work := filepath.Join(ev.VerifDir, ".work", fmt.Sprintf("%s-%d", strings.ToLower(cfg.ID), os.Getpid()))
	os.MkdirAll(work, 0o755)
	defer os.RemoveAll(work)
	p := &pool{c: c, cfg: cfg, units: units, work: work, res: &Result{Viol: map[string]*Viol{}}}
	for _, m := range cfg.Modes {
		p.res.Modes = append(p.res.Modes, &ModeResult{Mode: m, Total: newAcc(-1, 0), Done: map[int]bool{}, Partial: map[int]bool{}, Csum: map[int]string{}, UnitMs: map[int]int64{}, Disabled: map[int]bool{}, Crashes: map[int]int{}})
	}
	var wg sync.WaitGroup
	for mi := range cfg.Modes {
		q := newQueue()
		for _, u := range order {
			q.jobs = append(q.jobs, job{Unit: u})
		}
		for s := 0; s < cfg.Procs; s++ {
			wg.Add(1)
			go func(mi, s int) {
				defer wg.Done()
				p.manage(mi, s, q)
			}(mi, s)
		}
	}
	wg.Wait()
	return p.res
}

// Order returns the hand-out order of units: the name-tie block and the bundle units, then the model shards (if the
// budget is cut short it is the seed menus that lose their tail), then the
// seed units by decreasing size of the seed; VERIF_SEED rotates it.
func Order(units []Unit, seed int64) []int {
	var first, seeds, model []int
	for i, u := range units {
		switch u.Kind {
		case "ties", "bundle":
			first = append(first, i)
		case "model", "model3":
			model = append(model, i)
		default:
			seeds = append(seeds, i)
		}
	}
	sort.SliceStable(seeds, func(a, b int) bool { return len(units[seeds[a]].Base) > len(units[seeds[b]].Base) })
	order := append(append(first, model...), seeds...)
	if n := len(order); n > 0 && seed != 0 {
		r := int(uint64(seed) % uint64(n))
		order = append(order[r:], order[:r]...)
	}
	if only := os.Getenv("CERTS_ONLY"); only != "" { // development aid: the units left out are reported as not enumerated
		var f []int
		for _, i := range order {
			if strings.Contains(units[i].Name, only) {
				f = append(f, i)
			}
		}
		order = f
	}
	return order
}
